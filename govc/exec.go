package main

import (
	"fmt"
	"go/ast"
	"go/constant"
	"go/token"
	"go/types"
	"sort"
	"strings"
)

// State is one symbolic program state.
type State struct {
	vars  map[types.Object]Val
	heap  map[string]Val // "pkg.Type.field" -> value lifted by Int (reference)
	ghost map[string]Val
	pc    string
}

func (s *State) clone() *State {
	n := &State{vars: make(map[types.Object]Val, len(s.vars)), heap: make(map[string]Val, len(s.heap)),
		ghost: make(map[string]Val, len(s.ghost)), pc: s.pc}
	for k, v := range s.vars {
		n.vars[k] = v
	}
	for k, v := range s.heap {
		n.heap[k] = v
	}
	for k, v := range s.ghost {
		n.ghost[k] = v
	}
	return n
}

type frame struct {
	label  string
	isLoop bool
	breaks []*State
	conts  []*State
}

type retExit struct {
	st  *State
	res Val
}

type panicExit struct {
	st   *State
	pos  token.Pos
	what string
}

// Exec verifies one function body.
type Exec struct {
	c           *Ctx
	pkg         *pkgInfo
	info        *types.Info
	contract    *Contract
	entry       *State
	frames      []*frame
	returns     []retExit
	panics      []panicExit
	sig         *types.Signature
	recv        *types.Var
	results     []*types.Var
	loopOrd     *int
	scopePos    token.Pos
	body        *ast.BlockStmt
	depth       int // inline depth
	lets        map[string]SExpr
	asserts     []bodyAssert
	outerParams []*types.Var
	pathTag     string
}

type bodyAssert struct {
	pos  token.Pos
	kind string // assert
	text string
	expr SExpr
	used bool
}

func (x *Exec) fork(st *State, cond string, hint string) *State {
	n := st.clone()
	n.pc = x.c.define("pc."+hint, SBool, tAnd(st.pc, cond))
	return n
}

// merge joins states at a control-flow join point.
func (x *Exec) merge(states []*State) *State {
	var live []*State
	for _, s := range states {
		if s != nil && s.pc != tFalse {
			live = append(live, s)
		}
	}
	if len(live) == 0 {
		return nil
	}
	if len(live) == 1 {
		return live[0]
	}
	c := x.c
	res := &State{vars: map[types.Object]Val{}, heap: map[string]Val{}, ghost: map[string]Val{}}
	var pcs []string
	for _, s := range live {
		pcs = append(pcs, s.pc)
	}
	res.pc = c.define("pc.join", SBool, tOr(pcs...))
	var mergeLift []string
	mergeVal := func(hint string, vals []Val) Val {
		same := true
		for i := 1; i < len(vals); i++ {
			if !sameVal(vals[0], vals[i]) {
				same = false
				break
			}
		}
		if same {
			return vals[0]
		}
		// leafwise: fresh constant constrained under each path condition
		acc := vals[0]
		if _, isFn := acc.(Fn); isFn {
			return acc
		}
		idx := 0
		var sorts []string
		collectSortsL(vals[0], &sorts, mergeLift)
		out := mapValIdx(vals[0], func(t string, i int) string {
			differs := false
			for _, v := range vals[1:] {
				if leaves(v)[i] != t {
					differs = true
					break
				}
			}
			if !differs {
				return t
			}
			idx++
			n := c.fresh(hint+".m", sorts[i])
			for j, v := range vals {
				c.facts = append(c.facts, tImp(live[j].pc, tEq(n, leaves(v)[i])))
			}
			return n
		})
		return out
	}
	for obj := range live[0].vars {
		var vals []Val
		ok := true
		for _, s := range live {
			v, has := s.vars[obj]
			if !has {
				ok = false
				break
			}
			vals = append(vals, v)
		}
		if !ok {
			continue
		}
		if !sameShape(vals) {
			continue
		}
		res.vars[obj] = mergeVal(obj.Name(), vals)
	}
	hk := map[string]bool{}
	for _, s := range live {
		for k := range s.heap {
			hk[k] = true
		}
	}
	for k := range hk {
		var vals []Val
		for _, s := range live {
			vals = append(vals, x.heapField(s, k))
		}
		mergeLift = []string{SInt}
		res.heap[k] = mergeVal("heap."+k, vals)
		mergeLift = nil
	}
	gk := map[string]bool{}
	for _, s := range live {
		for k := range s.ghost {
			gk[k] = true
		}
	}
	var gkeys []string
	for k := range gk {
		gkeys = append(gkeys, k)
	}
	sort.Strings(gkeys)
	for _, k := range gkeys {
		var vals []Val
		var proto Val
		for _, s := range live {
			if v, has := s.ghost[k]; has {
				proto = v
				break
			}
		}
		missing := false
		for _, s := range live {
			v, has := s.ghost[k]
			if !has {
				// a ghost value (a callee's witness) that a path never produced: arbitrary on that path
				// (arbitrary: the value the other paths have is as good as any, and keeps the merged value syntactically simple)
				missing = true
				v = proto
			}
			vals = append(vals, v)
		}
		if sameShape(vals) {
			res.ghost[k] = mergeVal("ghost."+k, vals)
		} else if !missing {
			continue
		}
	}
	return res
}

func sameShape(vals []Val) bool {
	n := len(leaves(vals[0]))
	t0 := fmt.Sprintf("%T", vals[0])
	for _, v := range vals[1:] {
		if len(leaves(v)) != n || fmt.Sprintf("%T", v) != t0 {
			return false
		}
	}
	return true
}

// mapValIdx is mapVal with the leaf index (order of leaves()).
func mapValIdx(v Val, f func(t string, i int) string) Val {
	i := -1
	// leaves() order must match mapVal traversal order: ensure by using the same
	// recursive structure.
	var rec func(v Val) Val
	rec = func(v Val) Val {
		switch x := v.(type) {
		case Sc:
			i++
			return Sc{f(x.T, i), x.S}
		case Sl:
			a := rec(x.Arr)
			i++
			o := f(x.Off, i)
			i++
			l := f(x.Len, i)
			i++
			n := f(x.Nil, i)
			return Sl{a, o, l, n, x.Elem}
		case Ar:
			return Ar{rec(x.Arr), x.N, x.Elem}
		case St:
			nf := make([]Val, len(x.F))
			for k := range x.F {
				nf[k] = rec(x.F[k])
			}
			return St{nf, x.T}
		case Pt:
			i++
			n := f(x.Nil, i)
			return Pt{n, rec(x.Elem), x.T}
		case Mp:
			i++
			h := f(x.Has, i)
			vv := rec(x.Val)
			i++
			l := f(x.Len, i)
			i++
			nl := f(x.Nil, i)
			return Mp{h, vv, l, x.K, x.V, x.KS, nl}
		case Tup:
			ne := make([]Val, len(x.E))
			for k := range x.E {
				ne[k] = rec(x.E[k])
			}
			return Tup{ne}
		case Obj:
			keys := make([]string, 0, len(x.F))
			for k := range x.F {
				keys = append(keys, k)
			}
			sort.Strings(keys)
			nf := map[string]Val{}
			for _, k := range keys {
				nf[k] = rec(x.F[k])
			}
			return Obj{x.Kind, nf}
		}
		return v
	}
	return rec(v)
}

// collectSorts lists the SMT sort of each leaf (order of leaves()).
func collectSorts(v Val, out *[]string, c *Ctx) { collectSortsL(v, out, nil) }

func collectSortsL(v Val, out *[]string, base []string) {
	var rec func(v Val, lift []string)
	rec = func(v Val, lift []string) {
		switch x := v.(type) {
		case Sc:
			*out = append(*out, x.S)
		case Sl:
			rec(x.Arr, append(append([]string{}, lift...), SInt))
			*out = append(*out, liftSort(SInt, lift), liftSort(SInt, lift), liftSort(SBool, lift))
		case Ar:
			rec(x.Arr, append(append([]string{}, lift...), SInt))
		case St:
			for _, f := range x.F {
				rec(f, lift)
			}
		case Pt:
			*out = append(*out, liftSort(SBool, lift))
			rec(x.Elem, lift)
		case Mp:
			*out = append(*out, liftSort(arrSort(x.KS, SBool), lift))
			rec(x.Val, append(append([]string{}, lift...), x.KS))
			*out = append(*out, liftSort(SInt, lift), liftSort(SBool, lift))
		case Tup:
			for _, e := range x.E {
				rec(e, lift)
			}
		case Obj:
			keys := make([]string, 0, len(x.F))
			for k := range x.F {
				keys = append(keys, k)
			}
			sort.Strings(keys)
			for _, k := range keys {
				rec(x.F[k], lift)
			}
		}
	}
	rec(v, base)
}

// ---------------------------------------------------------------- statements

func (x *Exec) execBlock(stmts []ast.Stmt, st *State) *State {
	for _, s := range stmts {
		if st == nil {
			return nil
		}
		st = x.bodyAsserts(s.Pos(), st)
		st = x.execStmt(s, st)
	}
	return st
}

func (x *Exec) bodyAsserts(before token.Pos, st *State) *State {
	for i := range x.asserts {
		a := &x.asserts[i]
		if a.used || a.pos >= before {
			continue
		}
		a.used = true
		env := x.specEnv(st, a.pos)
		g := env.evalBool(a.expr)
		for _, part := range splitConj(g) {
			x.c.obligeAssume("assert", "", st.pc, part, a.pos, a.text)
		}
	}
	return st
}

func (x *Exec) execStmt(s ast.Stmt, st *State) *State {
	if st != nil {
		x.c.curPC = st.pc
	}
	switch n := s.(type) {
	case *ast.EmptyStmt:
		return st
	case *ast.BlockStmt:
		st = x.execBlock(n.List, st)
		if st != nil {
			st = x.bodyAsserts(n.Rbrace, st)
		}
		return st
	case *ast.ExprStmt:
		_, st = x.evalMulti(n.X, st)
		return st
	case *ast.DeclStmt:
		gd := n.Decl.(*ast.GenDecl)
		if gd.Tok == token.CONST || gd.Tok == token.TYPE {
			return st
		}
		for _, sp := range gd.Specs {
			vs := sp.(*ast.ValueSpec)
			if len(vs.Values) == 0 {
				for _, id := range vs.Names {
					obj := x.info.Defs[id]
					if obj == nil {
						continue
					}
					st.vars[obj] = x.c.zeroVal(obj.Type(), nil)
				}
				continue
			}
			var vals []Val
			if len(vs.Values) == 1 && len(vs.Names) > 1 {
				var v Val
				v, st = x.evalMulti(vs.Values[0], st)
				vals = v.(Tup).E
			} else {
				for _, e := range vs.Values {
					var v Val
					v, st = x.eval(e, st)
					vals = append(vals, v)
				}
			}
			for i, id := range vs.Names {
				if obj := x.info.Defs[id]; obj != nil {
					st.vars[obj] = x.convertTo(vals[i], x.typeOf(vs.Values[min(i, len(vs.Values)-1)]), obj.Type(), st)
				}
			}
		}
		return st
	case *ast.AssignStmt:
		return x.execAssign(n, st)
	case *ast.IncDecStmt:
		v, st2 := x.eval(n.X, st)
		st = st2
		one := "1"
		var r string
		if n.Tok == token.INC {
			r = x.arith("+", v.(Sc).T, x.intLit(1), x.typeOf(n.X))
		} else {
			r = x.arith("-", v.(Sc).T, x.intLit(1), x.typeOf(n.X))
		}
		_ = one
		return x.assign(n.X, Sc{r, v.(Sc).S}, st)
	case *ast.IfStmt:
		if n.Init != nil {
			st = x.execStmt(n.Init, st)
			if st == nil {
				return nil
			}
		}
		cv, st2 := x.eval(n.Cond, st)
		st = st2
		cond := cv.(Sc).T
		stT := x.fork(st, cond, "then")
		stF := x.fork(st, tNot(cond), "else")
		rT := x.execStmt(n.Body, stT)
		var rF *State
		if n.Else != nil {
			rF = x.execStmt(n.Else, stF)
		} else {
			rF = stF
		}
		return x.merge([]*State{rT, rF})
	case *ast.SwitchStmt:
		return x.execSwitch(n, st, "")
	case *ast.LabeledStmt:
		switch inner := n.Stmt.(type) {
		case *ast.ForStmt:
			return x.execFor(inner, st, n.Label.Name)
		case *ast.RangeStmt:
			return x.execRange(inner, st, n.Label.Name)
		case *ast.SwitchStmt:
			return x.execSwitch(inner, st, n.Label.Name)
		}
		return x.execStmt(n.Stmt, st)
	case *ast.ForStmt:
		return x.execFor(n, st, "")
	case *ast.RangeStmt:
		return x.execRange(n, st, "")
	case *ast.BranchStmt:
		label := ""
		if n.Label != nil {
			label = n.Label.Name
		}
		switch n.Tok {
		case token.BREAK:
			for i := len(x.frames) - 1; i >= 0; i-- {
				f := x.frames[i]
				if (label == "" || f.label == label) && (label != "" || true) {
					if label == "" || f.label == label {
						f.breaks = append(f.breaks, st)
						return nil
					}
				}
			}
			panic(unsupported("break without target"))
		case token.CONTINUE:
			for i := len(x.frames) - 1; i >= 0; i-- {
				f := x.frames[i]
				if f.isLoop && (label == "" || f.label == label) {
					f.conts = append(f.conts, st)
					return nil
				}
			}
			panic(unsupported("continue without target"))
		}
		panic(unsupported("branch statement %s", n.Tok))
	case *ast.ReturnStmt:
		return x.execReturn(n, st)
	case *ast.DeferStmt:
		if sel, ok := n.Call.Fun.(*ast.SelectorExpr); ok && sel.Sel.Name == "Close" {
			return st // abstraction 1 of DESIGN 3.1: deferred Close ignored
		}
		panic(unsupported("defer other than Close"))
	case *ast.GoStmt:
		panic(unsupported("go statement"))
	case *ast.TypeSwitchStmt:
		return x.execTypeSwitch(n, st, "")
	}
	panic(unsupported("statement %T", s))
}

// aliasRoot: if e denotes (part of) a parameter's or receiver's storage
// (through field selection, indexing, slicing), returns that parameter.
func (x *Exec) aliasRoot(e ast.Expr) *types.Var {
	for {
		switch t := ast.Unparen(e).(type) {
		case *ast.Ident:
			if v, ok := x.info.Uses[t].(*types.Var); ok && (x.isParam(v) || (x.sig.Recv() != nil && v == x.sig.Recv())) {
				return v
			}
			return nil
		case *ast.SelectorExpr:
			if x.info.Selections[t] == nil {
				return nil
			}
			e = t.X
		case *ast.IndexExpr:
			e = t.X
		case *ast.SliceExpr:
			e = t.X
		case *ast.StarExpr:
			e = t.X
		default:
			return nil
		}
	}
}

// valueAliasesEntry reports whether the storage term of a slice or map value mentions an array the receiver or a
// parameter held on entry (a syntactic test on the symbolic value: fresh allocations get fresh names).
func (x *Exec) valueAliasesEntry(v Val) bool {
	var terms []string
	switch t := v.(type) {
	case Sl:
		terms = leaves(t.Arr)
	case Mp:
		terms = append([]string{t.Has}, leaves(t.Val)...)
	default:
		return false
	}
	if x.entry == nil {
		return false
	}
	var roots []string
	for obj, ev := range x.entry.vars {
		pv, ok := obj.(*types.Var)
		if !ok || !(x.isParam(pv) || (x.sig.Recv() != nil && pv == x.sig.Recv())) {
			continue
		}
		for _, l := range leaves(ev) {
			if strings.Contains(l, "!") && !strings.ContainsAny(l, " ()") {
				roots = append(roots, l)
			}
		}
	}
	isSym := func(c byte) bool {
		return c == '!' || c == '.' || c == '_' || (c >= '0' && c <= '9') || (c >= 'a' && c <= 'z') || (c >= 'A' && c <= 'Z')
	}
	for _, t := range terms {
		for _, r := range roots {
			for i := strings.Index(t, r); i >= 0; {
				before := i == 0 || !isSym(t[i-1])
				after := i+len(r) == len(t) || !isSym(t[i+len(r)])
				if before && after {
					// only array-sorted roots matter; scalars (lengths, offsets) may legitimately recur
					if x.c.isArrayConst(r) {
						return true
					}
				}
				j := strings.Index(t[i+1:], r)
				if j < 0 {
					break
				}
				i += 1 + j
			}
		}
	}
	return false
}

func (x *Exec) execReturn(n *ast.ReturnStmt, st *State) *State {
	if x.contract != nil && x.contract.FreshResult && x.depth == 0 {
		for _, r := range n.Results {
			if k, _ := classify(x.typeOf(r)); k == kSlice || k == kMap {
				root := x.aliasRoot(r)
				// ... and by value: the backing array of the returned slice/map must not be a term over the storage the
				// receiver or a parameter had on entry (catches `r := recv.field[k]; return r` and slices.Clip(recv.field))
				aliased := root != nil
				if !aliased {
					rv, _ := x.eval(r, st.clone())
					aliased = x.valueAliasesEntry(rv)
				}
				x.c.oblige("fresh-result", "", st.pc, boolTerm(!aliased), n.Pos(), "returned slice/map does not alias the receiver's or a parameter's storage")
			}
		}
	}
	var res Val
	nres := x.sig.Results().Len()
	switch {
	case nres == 0:
		res = Tup{}
	case len(n.Results) == 0:
		// named results
		var e []Val
		for _, r := range x.results {
			e = append(e, st.vars[r])
		}
		res = Tup{e}
	case len(n.Results) == 1 && nres > 1:
		var v Val
		v, st = x.evalMulti(n.Results[0], st)
		res = v
	default:
		var e []Val
		for i, r := range n.Results {
			var v Val
			v, st = x.eval(r, st)
			if st == nil {
				return nil
			}
			e = append(e, x.convertTo(v, x.typeOf(r), x.sig.Results().At(i).Type(), st))
		}
		res = Tup{e}
	}
	if st == nil {
		return nil
	}
	x.reach(st, n.Pos(), "return statement")
	x.returns = append(x.returns, retExit{st, res})
	return nil
}

func (x *Exec) execAssign(n *ast.AssignStmt, st *State) *State {
	if n.Tok != token.ASSIGN && n.Tok != token.DEFINE {
		// op-assign
		op := strings.TrimSuffix(n.Tok.String(), "=")
		l, st2 := x.eval(n.Lhs[0], st)
		r, st3 := x.eval(n.Rhs[0], st2)
		st = st3
		lt := x.typeOf(n.Lhs[0])
		var res Val
		if k, _ := classify(lt); k == kStr && op == "+" {
			res = x.strConcat(l, r, st)
		} else if k == kReal {
			res = Sc{x.arithReal(op, l.(Sc).T, r.(Sc).T), SReal}
		} else {
			res = Sc{x.arith(op, l.(Sc).T, r.(Sc).T, lt), l.(Sc).S}
		}
		return x.assign(n.Lhs[0], res, st)
	}
	var vals []Val
	var rtypes []types.Type
	if ie, isIdx := ast.Unparen(n.Rhs[0]).(*ast.IndexExpr); isIdx && len(n.Rhs) == 1 && len(n.Lhs) == 2 {
		if k, _ := classify(x.typeOf(ie.X)); k == kMap {
			v, st2 := x.evalIndex(ie, st, true)
			st = st2
			vals = v.(Tup).E
			rtypes = []types.Type{x.typeOf(ie.X).Underlying().(*types.Map).Elem(), types.Typ[types.Bool]}
		}
	}
	if vals != nil {
	} else if len(n.Rhs) == 1 && len(n.Lhs) > 1 {
		v, st2 := x.evalMulti(n.Rhs[0], st)
		st = st2
		if st == nil {
			return nil
		}
		vals = v.(Tup).E
		if tt, ok := x.typeOf(n.Rhs[0]).(*types.Tuple); ok {
			for i := 0; i < tt.Len(); i++ {
				rtypes = append(rtypes, tt.At(i).Type())
			}
		} else {
			// comma-ok forms
			rtypes = []types.Type{x.typeOf(n.Rhs[0]), types.Typ[types.Bool]}
		}
	} else {
		for _, e := range n.Rhs {
			v, st2 := x.eval(e, st)
			st = st2
			if st == nil {
				return nil
			}
			vals = append(vals, v)
			rtypes = append(rtypes, x.typeOf(e))
		}
	}
	if len(n.Lhs) > 1 {
		// Go evaluates the index and pointer operands on the left before assigning anything; the engine assigns left to
		// right, so a left-hand side whose operands mention a variable assigned by the same statement is outside the subset
		assigned := map[types.Object]bool{}
		for _, lhs := range n.Lhs {
			if id, ok := ast.Unparen(lhs).(*ast.Ident); ok && id.Name != "_" {
				if o := x.info.ObjectOf(id); o != nil {
					assigned[o] = true
				}
			}
		}
		for _, lhs := range n.Lhs {
			if _, ok := ast.Unparen(lhs).(*ast.Ident); ok {
				continue
			}
			ast.Inspect(lhs, func(nd ast.Node) bool {
				if id, ok := nd.(*ast.Ident); ok {
					if o := x.info.Uses[id]; o != nil && assigned[o] {
						panic(unsupported("tuple assignment whose left-hand operand %s is assigned by the same statement", id.Name))
					}
				}
				return true
			})
		}
	}
	for i, lhs := range n.Lhs {
		if id, ok := lhs.(*ast.Ident); ok && id.Name == "_" {
			continue
		}
		v := vals[i]
		if n.Tok == token.DEFINE {
			if id, ok := lhs.(*ast.Ident); ok {
				if obj := x.info.Defs[id]; obj != nil {
					st.vars[obj] = x.convertTo(v, rtypes[i], obj.Type(), st)
					continue
				}
			}
		}
		st = x.assign(lhs, x.convertTo(v, rtypes[i], x.typeOf(lhs), st), st)
		if st == nil {
			return nil
		}
	}
	return st
}

func (x *Exec) execSwitch(n *ast.SwitchStmt, st *State, label string) *State {
	if n.Init != nil {
		st = x.execStmt(n.Init, st)
		if st == nil {
			return nil
		}
	}
	var tag Val
	if n.Tag != nil {
		tag, st = x.eval(n.Tag, st)
	}
	fr := &frame{label: label}
	x.frames = append(x.frames, fr)
	var outs []*State
	rest := st // state in which no earlier case matched
	var deflt *ast.CaseClause
	for _, cc := range n.Body.List {
		clause := cc.(*ast.CaseClause)
		if clause.List == nil {
			deflt = clause
			continue
		}
		var conds []string
		for _, e := range clause.List {
			v, st2 := x.eval(e, rest)
			rest = st2
			if tag != nil {
				conds = append(conds, x.goEq(tag, v, x.typeOf(n.Tag), rest))
			} else {
				conds = append(conds, v.(Sc).T)
			}
		}
		cond := tOr(conds...)
		stC := x.fork(rest, cond, "case")
		rest = x.fork(rest, tNot(cond), "nocase")
		outs = append(outs, x.execBlock(clause.Body, stC))
	}
	if deflt != nil {
		outs = append(outs, x.execBlock(deflt.Body, rest))
	} else {
		outs = append(outs, rest)
	}
	x.frames = x.frames[:len(x.frames)-1]
	outs = append(outs, fr.breaks...)
	return x.merge(outs)
}

// execTypeSwitch: `switch v := e.(type)` over an interface token; a clause with a single type binds v to the
// unboxed value, any other clause to the token itself.
func (x *Exec) execTypeSwitch(n *ast.TypeSwitchStmt, st *State, label string) *State {
	if n.Init != nil {
		st = x.execStmt(n.Init, st)
		if st == nil {
			return nil
		}
	}
	var subj ast.Expr
	switch a := n.Assign.(type) {
	case *ast.AssignStmt:
		subj = a.Rhs[0].(*ast.TypeAssertExpr).X
	case *ast.ExprStmt:
		subj = a.X.(*ast.TypeAssertExpr).X
	}
	tv, st := x.eval(subj, st)
	tsc, ok := tv.(Sc)
	if !ok || tsc.S != SDyn {
		panic(unsupported("type switch on %T", tv))
	}
	tok := tsc.T
	x.c.used["dyn!"] = true
	fr := &frame{label: label}
	x.frames = append(x.frames, fr)
	var outs []*State
	rest := st
	var deflt *ast.CaseClause
	for _, cc := range n.Body.List {
		clause := cc.(*ast.CaseClause)
		if clause.List == nil {
			deflt = clause
			continue
		}
		var conds []string
		var single types.Type
		for _, e := range clause.List {
			if id, isId := ast.Unparen(e).(*ast.Ident); isId && id.Name == "nil" {
				conds = append(conds, tEq(tok, "dyn!nil"))
				continue
			}
			t := x.info.TypeOf(e)
			if _, isIface := t.Underlying().(*types.Interface); isIface {
				panic(unsupported("type switch case on an interface type"))
			}
			conds = append(conds, tAnd(tNot(tEq(tok, "dyn!nil")), tEq(app("dyn!ty", tok), tInt(int64(dynCode(t))))))
			single = t
		}
		cond := tOr(conds...)
		stC := x.fork(rest, cond, "case")
		rest = x.fork(rest, tNot(cond), "nocase")
		if obj := x.info.Implicits[clause]; obj != nil && stC != nil {
			var bound Val = tsc
			if len(clause.List) == 1 && single != nil {
				if uv, ok := x.unbox(tok, single); ok {
					bound = uv
				} else {
					bound = x.c.freshVal("unboxed", single, nil)
				}
			}
			stC.vars[obj] = bound
		}
		outs = append(outs, x.execBlock(clause.Body, stC))
	}
	if deflt != nil {
		if obj := x.info.Implicits[deflt]; obj != nil && rest != nil {
			rest.vars[obj] = tsc
		}
		outs = append(outs, x.execBlock(deflt.Body, rest))
	} else {
		outs = append(outs, rest)
	}
	x.frames = x.frames[:len(x.frames)-1]
	outs = append(outs, fr.breaks...)
	return x.merge(outs)
}

// ---------------------------------------------------------------- loops

// assignedIn computes the set of variables (and heap fields / ghost effects)
// possibly modified by the statements.
type modSet struct {
	touched map[types.Object]bool           // receivers / pointer or object arguments of calls: pointee and ghost state may change
	partial map[types.Object]bool           // only elements / fields stored (x[i] = v, x.f = v): header (len, nil-ness) unchanged
	pfields map[types.Object]map[string]int // partial stores that all go through a first-level field: field name -> 1 (below the field: x.f[i] = v) | 2 (the field itself: x.f = v)
	pall    map[types.Object]bool           // some partial store does not start with a field selection
	vars    map[types.Object]bool
	heap    map[string]bool
	yields  bool
	calls   bool
}

func (x *Exec) modifiedIn(nodes ...ast.Node) *modSet {
	ms := &modSet{vars: map[types.Object]bool{}, heap: map[string]bool{}, touched: map[types.Object]bool{}, partial: map[types.Object]bool{},
		pfields: map[types.Object]map[string]int{}, pall: map[types.Object]bool{}}
	// firstField: for a store target rooted at a variable, the first-level field it goes through ("" if none) and whether the store is below that field
	firstField := func(e ast.Expr) (string, bool) {
		var steps []string
		for {
			switch n := e.(type) {
			case *ast.ParenExpr:
				e = n.X
				continue
			case *ast.StarExpr:
				e = n.X
				continue
			case *ast.IndexExpr:
				steps = append(steps, "[]")
				e = n.X
				continue
			case *ast.SliceExpr:
				steps = append(steps, "[]")
				e = n.X
				continue
			case *ast.SelectorExpr:
				if sel := x.info.Selections[n]; sel != nil && sel.Kind() == types.FieldVal && len(sel.Index()) == 1 {
					steps = append(steps, "."+n.Sel.Name)
					e = n.X
					continue
				}
				return "", false
			case *ast.Ident:
				if len(steps) == 0 {
					return "", false
				}
				last := steps[len(steps)-1]
				if last == "[]" {
					return "", false
				}
				return last[1:], len(steps) > 1
			}
			return "", false
		}
	}
	var rootOf func(e ast.Expr) (types.Object, []string)
	rootOf = func(e ast.Expr) (types.Object, []string) {
		switch n := e.(type) {
		case *ast.Ident:
			if o := x.info.Uses[n]; o != nil {
				return o, nil
			}
			return x.info.Defs[n], nil
		case *ast.ParenExpr:
			return rootOf(n.X)
		case *ast.IndexExpr:
			return rootOf(n.X)
		case *ast.SliceExpr:
			return rootOf(n.X)
		case *ast.StarExpr:
			return rootOf(n.X)
		case *ast.UnaryExpr:
			return rootOf(n.X)
		case *ast.SelectorExpr:
			// field of a reference-typed pointer: heap write
			xt := x.typeOf(n.X)
			if sel := x.info.Selections[n]; sel != nil && sel.Kind() != types.FieldVal {
				return rootOf(n.X)
			}
			if k, name := classify(xt); k == kRef {
				return nil, []string{name + "." + n.Sel.Name}
			}
			if sel := x.info.Selections[n]; sel == nil {
				// qualified identifier pkg.Var
				return x.info.Uses[n.Sel], nil
			}
			return rootOf(n.X)
		}
		return nil, nil
	}
	touchOnly := false
	mark := func(e ast.Expr) {
		o, hs := rootOf(e)
		if o != nil {
			_, direct := ast.Unparen(e).(*ast.Ident)
			if touchOnly {
				ms.touched[o] = true
			} else if direct {
				ms.vars[o] = true
			} else {
				ms.partial[o] = true
				if f, deep := firstField(e); f != "" {
					if ms.pfields[o] == nil {
						ms.pfields[o] = map[string]int{}
					}
					lvl := 2
					if deep {
						lvl = 1
					}
					if ms.pfields[o][f] < lvl {
						ms.pfields[o][f] = lvl
					}
				} else {
					ms.pall[o] = true
				}
			}
		}
		for _, h := range hs {
			ms.heap[h] = true
		}
		// writes through x.f[i] where x is a ref: the heap field f
		ast.Inspect(e, func(nn ast.Node) bool {
			if se, ok := nn.(*ast.SelectorExpr); ok {
				if sel := x.info.Selections[se]; sel == nil || sel.Kind() != types.FieldVal {
					return true
				}
				if tv, ok := x.info.Types[se.X]; ok {
					if k, name := classify(tv.Type); k == kRef {
						ms.heap[name+"."+se.Sel.Name] = true
					}
				}
			}
			return true
		})
	}
	for _, node := range nodes {
		if node == nil {
			continue
		}
		ast.Inspect(node, func(nn ast.Node) bool {
			switch n := nn.(type) {
			case *ast.AssignStmt:
				for _, l := range n.Lhs {
					mark(l)
				}
			case *ast.IncDecStmt:
				mark(n.X)
			case *ast.RangeStmt:
				if n.Key != nil {
					mark(n.Key)
				}
				if n.Value != nil {
					mark(n.Value)
				}
			case *ast.DeclStmt:
				if gd, ok := n.Decl.(*ast.GenDecl); ok {
					for _, sp := range gd.Specs {
						if vs, ok := sp.(*ast.ValueSpec); ok {
							for _, id := range vs.Names {
								if o := x.info.Defs[id]; o != nil {
									ms.vars[o] = true
								}
							}
						}
					}
				}
			case *ast.CallExpr:
				ms.calls = true
				// receiver / arguments that are external objects or pointers may be mutated
				touchOnly = true
				if se, ok := n.Fun.(*ast.SelectorExpr); ok {
					if x.info.Selections[se] != nil {
						mark(se.X)
					}
				}
				touchOnly = false
				if id, ok := n.Fun.(*ast.Ident); ok {
					if o := x.info.Uses[id]; o != nil {
						if _, isVar := o.(*types.Var); isVar {
							ms.yields = true
						}
					}
					if id.Name == "delete" || id.Name == "copy" {
						if len(n.Args) > 0 {
							if o, _ := rootOf(n.Args[0]); o != nil {
								ms.partial[o] = true // contents change, header (len of slice / nil-ness) does not
								ms.pall[o] = true
							}
						}
					}
				}
				for _, a := range n.Args {
					at := x.typeOf(a)
					if at == nil {
						continue
					}
					if k, _ := classify(at); k == kObj || k == kPtr {
						touchOnly = true
						mark(a)
						touchOnly = false
					}
					if ue, ok := a.(*ast.UnaryExpr); ok && ue.Op == token.AND {
						mark(ue.X)
					}
				}
			case *ast.FuncLit:
				return false
			}
			return true
		})
	}
	return ms
}

// fieldwise keeps the fields of a struct that no store in the loop goes through:
// only the fields named in pf are taken from the fresh value nv (keeping the
// header of a slice / nil-ness of a pointer when every store is below the field).
func fieldwise(old, nv Val, pf map[string]int, all bool) Val {
	os, ok1 := old.(St)
	ns, ok2 := nv.(St)
	if all || !ok1 || !ok2 || len(pf) == 0 || os.T == nil {
		return nv
	}
	out := St{make([]Val, len(os.F)), os.T}
	for i := range os.F {
		lvl := pf[os.T.Field(i).Name()]
		switch lvl {
		case 0:
			out.F[i] = os.F[i]
		case 2:
			out.F[i] = ns.F[i]
		default:
			switch ov := os.F[i].(type) {
			case Sl:
				n := ns.F[i].(Sl)
				out.F[i] = Sl{n.Arr, ov.Off, ov.Len, ov.Nil, ov.Elem}
			case Pt:
				n := ns.F[i].(Pt)
				out.F[i] = Pt{ov.Nil, n.Elem, ov.T}
			case Mp:
				n := ns.F[i].(Mp)
				n.Nil = ov.Nil
				out.F[i] = n
			default:
				out.F[i] = ns.F[i]
			}
		}
	}
	return out
}

// havoc replaces every possibly-modified variable by a fresh value.
func (x *Exec) havoc(st *State, ms *modSet, hint string) {
	var objs []types.Object
	for o := range ms.vars {
		if _, ok := st.vars[o]; ok {
			objs = append(objs, o)
		}
	}
	sort.Slice(objs, func(i, j int) bool { return objs[i].Pos() < objs[j].Pos() })
	for _, o := range objs {
		old := st.vars[o]
		if ob, isObj := old.(Obj); isObj {
			st.vars[o] = x.c.havocObj(ob, hint+"."+o.Name())
			continue
		}
		if _, isFn := old.(Fn); isFn {
			continue
		}
		nv := x.c.freshVal(hint+"."+o.Name(), o.Type(), nil)
		// a pointer in value mode keeps its shape; objects inside are havocked recursively
		st.vars[o] = x.keepObjs(old, nv, hint)
	}
	var pobjs []types.Object
	for o := range ms.partial {
		if _, ok := st.vars[o]; ok && !ms.vars[o] {
			pobjs = append(pobjs, o)
		}
	}
	sort.Slice(pobjs, func(i, j int) bool { return pobjs[i].Pos() < pobjs[j].Pos() })
	for _, o := range pobjs {
		old := st.vars[o]
		if ob, isObj := old.(Obj); isObj {
			st.vars[o] = x.c.havocObj(ob, hint+"."+o.Name())
			continue
		}
		if _, isFn := old.(Fn); isFn {
			continue
		}
		nv := x.keepObjs(old, x.c.freshVal(hint+"."+o.Name(), o.Type(), nil), hint)
		switch ov := old.(type) {
		case Sl:
			n := nv.(Sl)
			st.vars[o] = Sl{n.Arr, ov.Off, ov.Len, ov.Nil, ov.Elem}
		case Pt:
			n := nv.(Pt)
			st.vars[o] = Pt{ov.Nil, fieldwise(ov.Elem, n.Elem, ms.pfields[o], ms.pall[o] || ms.touched[o]), ov.T}
		case St:
			st.vars[o] = fieldwise(ov, nv, ms.pfields[o], ms.pall[o] || ms.touched[o])
		case Mp:
			n := nv.(Mp)
			n.Nil = ov.Nil
			st.vars[o] = n
		default:
			st.vars[o] = nv
		}
	}
	var tobjs []types.Object
	for o := range ms.touched {
		if _, ok := st.vars[o]; ok && !ms.vars[o] && !ms.partial[o] {
			tobjs = append(tobjs, o)
		}
	}
	sort.Slice(tobjs, func(i, j int) bool { return tobjs[i].Pos() < tobjs[j].Pos() })
	for _, o := range tobjs {
		switch old := st.vars[o].(type) {
		case Obj:
			st.vars[o] = x.c.havocObj(old, hint+"."+o.Name())
		case Pt:
			// the pointer itself is unchanged; its pointee may have been modified by the callee
			nv := x.c.freshVal(hint+"."+o.Name(), old.T, nil)
			st.vars[o] = Pt{old.Nil, x.keepObjs(old.Elem, nv, hint), old.T}
		case St:
			if containsObj(old) {
				nv, _ := x.havocObjsIn(old, hint+"."+o.Name())
				st.vars[o] = nv
			}
		}
	}
	var hs []string
	for h := range ms.heap {
		hs = append(hs, h)
	}
	sort.Strings(hs)
	for _, h := range hs {
		ft := x.c.eng.heapFieldType(h)
		st.heap[h] = x.c.freshVal(hint+".heap."+h, ft, []string{SInt})
	}
	if len(hs) > 0 {
		if a, ok := st.ghost["alloc"]; ok {
			na := x.c.fresh(hint+".alloc", SInt)
			x.c.assumeHere(tGe(na, a.(Sc).T))
			st.ghost["alloc"] = scInt(na)
		}
	}
	if ms.yields {
		if y, ok := st.ghost["Y"]; ok {
			ys := y.(Sl)
			ny := x.c.freshLike(hint+".Y", ys).(Sl)
			ny.Off = "0"
			ny.Nil = tFalse
			x.c.assumeHere(tGe(ny.Len, ys.Len))
			// the trace only grows: the prefix is preserved
			st.ghost["Y"] = ny
			x.c.assumeHere(x.c.prefixFact(ys, ny))
			st.ghost["stopped"] = scBool(x.c.fresh(hint+".stopped", SBool))
		}
	}
}

// keepObjs: for values containing external objects (structs holding readers),
// havoc the objects' mutable ghost fields but keep the rest of the shape fresh.
func (x *Exec) keepObjs(old, nv Val, hint string) Val {
	switch o := old.(type) {
	case Obj:
		return x.c.havocObj(o, hint)
	case St:
		n := nv.(St)
		for i := range o.F {
			n.F[i] = x.keepObjs(o.F[i], n.F[i], hint)
		}
		return n
	case Pt:
		n := nv.(Pt)
		n.Elem = x.keepObjs(o.Elem, n.Elem, hint)
		return n
	}
	return nv
}

// reach emits a soft reachability canary: the path to this point should be
// satisfiable (guards against contradictory assumed contracts / invariants).
func (x *Exec) reach(st *State, pos token.Pos, what string) {
	if st == nil || x.depth > 0 {
		return
	}
	o := x.c.oblige("reach", "", st.pc, tFalse, pos, "path is reachable: "+what)
	o.Expect = "sat-soft"
}

func (x *Exec) loopSpec() *LoopSpec {
	*x.loopOrd++
	if x.contract == nil {
		return nil
	}
	return x.contract.Loops[*x.loopOrd]
}

// takeSnapshots binds the ghost snapshots of a loop to the values at loop entry.
func (x *Exec) takeSnapshots(ls *LoopSpec, st *State, pos token.Pos) {
	if ls == nil {
		return
	}
	for _, sn := range ls.Snaps {
		ex, err := parseSpec(sn[1])
		if err != nil {
			panic(specFailure{err.Error()})
		}
		st.ghost[sn[0]] = x.specEnv(st, pos).eval(ex)
	}
}

// checkInvs emits one obligation per invariant clause (split at conjunctions).
func (x *Exec) checkInvs(ls *LoopSpec, st *State, kind string, ord int, pos token.Pos) {
	if ls == nil || st == nil {
		return
	}
	env := x.specEnv(st, pos)
	for k, inv := range ls.Invs {
		if q, isQ := inv.E.(*SQuant); isQ && q.Forall && kind == "inv-keep" && len(ls.SplitVars) > 0 {
			// skolemise the bound variables and split on the declared cases (a proof-search tactic, no assumption)
			bound := map[string]Sc{}
			for _, v := range q.Vars {
				srt := specSort(v[1])
				bound[v[0]] = Sc{x.c.fresh("sk."+v[0], srt), srt}
			}
			env.bound = bound
			goal := env.evalBool(q.Body)
			var cases []string
			ok := true
			func() {
				defer func() {
					if r := recover(); r != nil {
						if _, isSF := r.(specFailure); isSF {
							ok = false
							return
						}
						panic(r)
					}
				}()
				for _, sv := range ls.SplitVars {
					cases = append(cases, env.evalBool(sv.E))
				}
			}()
			env.bound = nil
			if ok {
				// the invariant assumed at the loop head, instantiated at the same skolem constants (a ground instance of
				// an assumed universal fact: e-matching cannot see through the store() terms of the new state)
				if ls.headState != nil {
					func() {
						defer func() {
							if r := recover(); r != nil {
								if _, isSF := r.(specFailure); !isSF {
									panic(r)
								}
							}
						}()
						henv := x.specEnv(ls.headState, ls.headPos)
						henv.bound = bound
						x.c.assume(ls.headState.pc, henv.evalBool(q.Body))
					}()
				}
				x.traceFrame(ls, st, bound, kind, fmt.Sprintf(":L%d#%d%s", ord, k+1, x.pathTag), pos)
				o := x.c.oblige(kind, fmt.Sprintf(":L%d#%d%s", ord, k+1, x.pathTag), st.pc, goal, pos, inv.Text)
				o.Split = cases
				continue
			}
		}
		g := env.evalBool(inv.E)
		parts := splitConj(g)
		for pi, part := range parts {
			suffix := fmt.Sprintf(":L%d#%d", ord, k+1)
			if len(parts) > 1 {
				suffix += "." + string(rune('a'+pi))
			}
			suffix += x.pathTag
			o := x.c.oblige(kind, suffix, st.pc, part, pos, inv.Text)
			o.Split = x.splitTerms(ls, env)
			if x.contract != nil && x.contract.Sequential {
				x.c.assume(st.pc, part) // later clauses of the same check may use earlier ones (each is an obligation of its own)
			}
		}
	}
	if y, ok := st.ghost["stopped"]; ok && x.contract != nil && x.contract.Yields != "" {
		x.c.oblige(kind, fmt.Sprintf(":L%d#live%s", ord, x.pathTag), st.pc, tNot(y.(Sc).T), pos, "!stopped (automatic for iterator bodies)")
	}
}

// traceFrame: the items of the trace Y yielded before this iteration are unchanged by it (Y is only appended to). The
// equalities Y'[sk] == Y[sk] for the skolem constants of a split invariant are emitted as an obligation of their own
// (pure array reasoning) and then made available to the main obligation, whose quantified hypotheses are triggered by
// terms over the OLD arrays: e-matching does not see through the store() terms of the new trace.
func (x *Exec) traceFrame(ls *LoopSpec, st *State, bound map[string]Sc, kind, suffix string, pos token.Pos) {
	if ls.headState == nil {
		return
	}
	hy, ok1 := ls.headState.ghost["Y"].(Sl)
	by, ok2 := st.ghost["Y"].(Sl)
	if !ok1 || !ok2 {
		return
	}
	la, lb := leaves(hy.Arr), leaves(by.Arr)
	if len(la) != len(lb) {
		return
	}
	var names []string
	for n := range bound {
		names = append(names, n)
	}
	sort.Strings(names)
	for _, n := range names {
		sk := bound[n]
		if sk.S != SInt {
			continue
		}
		var eqs []string
		for i := range la {
			if la[i] != lb[i] {
				eqs = append(eqs, tEq(tSel(lb[i], sk.T), tSel(la[i], sk.T)))
			}
		}
		if len(eqs) == 0 {
			continue
		}
		f := tImp(tAnd(tLe("0", sk.T), tLt(sk.T, hy.Len)), tAnd(eqs...))
		x.c.oblige("frame", ":Y@"+kind+suffix+"."+n, st.pc, f, pos, "items of the trace yielded before this iteration are unchanged (instance at the skolem constant)")
		x.c.assume(st.pc, f)
	}
}

func (x *Exec) splitTerms(ls *LoopSpec, env *SpecEnv) []string {
	if ls == nil || len(ls.Splits) == 0 {
		return nil
	}
	var out []string
	for _, sp := range ls.Splits {
		out = append(out, env.evalBool(sp.E))
	}
	return out
}

func (x *Exec) assumeInvs(ls *LoopSpec, st *State, pos token.Pos) {
	if ls == nil {
		return
	}
	env := x.specEnv(st, pos)
	ls.headState, ls.headPos = st, pos
	for _, inv := range ls.Invs {
		x.c.assume(st.pc, env.evalBool(inv.E))
	}
	if y, ok := st.ghost["stopped"]; ok && x.contract != nil && x.contract.Yields != "" {
		x.c.assume(st.pc, tNot(y.(Sc).T))
	}
}

func (x *Exec) execFor(n *ast.ForStmt, st *State, label string) *State {
	if n.Init != nil {
		st = x.execStmt(n.Init, st)
		if st == nil {
			return nil
		}
	}
	ls := x.loopSpec()
	ord := *x.loopOrd
	if ls == nil && x.contract != nil && !x.contract.Thin {
		x.c.notes = append(x.c.notes, fmt.Sprintf("loop %d at %s has no invariant (treated as 'true')", ord, x.c.posOf(n)))
	}
	st.ghost["IT"] = scInt("0") // ghost: number of completed iterations of this (innermost) for loop
	x.takeSnapshots(ls, st, n.Body.Lbrace)
	x.checkInvs(ls, st, "inv-entry", ord, n.Body.Lbrace)
	ms := x.modifiedIn(n.Body, n.Post, n.Cond)
	head := st.clone()
	x.havoc(head, ms, fmt.Sprintf("L%d", ord))
	x.havocLoopAliases(st, head, n.Body, n.Post, n.Cond)
	itv := x.c.fresh(fmt.Sprintf("L%d.IT", ord), SInt)
	x.c.assume(head.pc, tGe(itv, "0"))
	head.ghost["IT"] = scInt(itv)
	x.assumeInvs(ls, head, n.Body.Lbrace)
	var decBefore string
	if ls != nil && ls.Dec != nil {
		decBefore = x.specEnv(head, n.Body.Lbrace).evalInt(ls.Dec.E)
	}
	// guard
	var condT string = tTrue
	body := head
	if n.Cond != nil {
		cv, st2 := x.eval(n.Cond, head)
		head = st2
		condT = cv.(Sc).T
	}
	body = x.fork(head, condT, "loop")
	exit := x.fork(head, tNot(condT), "exit")
	if decBefore != "" {
		x.c.oblige("dec-bound", fmt.Sprintf(":L%d", ord), body.pc, tGe(decBefore, "0"), n.Pos(), "decreases expression is bounded below")
	}
	fr := &frame{label: label, isLoop: true}
	x.frames = append(x.frames, fr)
	end := x.execBlock(n.Body.List, body)
	if end != nil {
		end = x.bodyAsserts(n.Body.Rbrace, end)
	}
	x.frames = x.frames[:len(x.frames)-1]
	// every path back to the loop head (normal end of the body and each
	// `continue`) is checked on its own: smaller queries than one merged state
	var paths []*State
	for _, p := range append([]*State{end}, fr.conts...) {
		if p != nil && p.pc != tFalse {
			paths = append(paths, p)
		}
	}
	for pi, back := range paths {
		if n.Post != nil {
			back = x.execStmt(n.Post, back)
		}
		if back == nil {
			continue
		}
		if len(paths) > 1 {
			x.pathTag = fmt.Sprintf("@p%d", pi+1)
		}
		back.ghost["IT"] = scInt(tAdd(itv, "1"))
		x.reach(back, n.Body.Rbrace, fmt.Sprintf("back edge of loop %d", ord))
		x.checkInvs(ls, back, "inv-keep", ord, n.Body.Lbrace)
		if decBefore != "" {
			decAfter := x.specEnv(back, n.Body.Lbrace).evalInt(ls.Dec.E)
			x.c.oblige("dec", fmt.Sprintf(":L%d%s", ord, x.pathTag), back.pc, tLt(decAfter, decBefore), n.Pos(), "decreases "+ls.Dec.Text)
		}
		x.pathTag = ""
	}
	out := x.merge(append([]*State{exit}, fr.breaks...))
	if out != nil && ls != nil {
		for _, sn := range ls.SnapsAfter {
			ex, err := parseSpec(sn[1])
			if err != nil {
				panic(specFailure{err.Error()})
			}
			out.ghost[sn[0]] = x.specEnv(out, n.Body.Rbrace).eval(ex)
		}
	}
	return out
}

func (x *Exec) execRange(n *ast.RangeStmt, st *State, label string) *State {
	xt := x.typeOf(n.X)
	k, _ := classify(xt)
	// range over func
	if k == kFunc {
		return x.execRangeFunc(n, st, label)
	}
	coll, st2 := x.eval(n.X, st)
	st = st2
	if st == nil {
		return nil
	}
	c := x.c
	var keyObj, valObj types.Object
	if id, ok := n.Key.(*ast.Ident); ok && id.Name != "_" {
		keyObj = x.info.Defs[id]
		if keyObj == nil {
			keyObj = x.info.Uses[id]
		}
	}
	if n.Value != nil {
		if id, ok := n.Value.(*ast.Ident); ok && id.Name != "_" {
			valObj = x.info.Defs[id]
			if valObj == nil {
				valObj = x.info.Uses[id]
			}
		}
	}
	// constant trip count over a fixed array: unroll
	if a, isArr := coll.(Ar); isArr && a.N <= 8 {
		x.loopOrd2skip()
		fr := &frame{label: label, isLoop: true}
		x.frames = append(x.frames, fr)
		cur := st
		for i := int64(0); i < a.N && cur != nil; i++ {
			if keyObj != nil {
				cur.vars[keyObj] = scInt(tInt(i))
			}
			if valObj != nil {
				cur.vars[valObj] = vSelect(a.Arr, tInt(i))
			}
			end := x.execBlock(n.Body.List, cur)
			cur = x.merge(append([]*State{end}, fr.conts...))
			fr.conts = nil
		}
		x.frames = x.frames[:len(x.frames)-1]
		return x.merge(append([]*State{cur}, fr.breaks...))
	}
	if k == kMap {
		return x.execRangeMap(n, st, label, coll.(Mp), keyObj, valObj)
	}
	// number of iterations and element access
	var count string
	var elem func(i string) Val
	switch cv := coll.(type) {
	case Sl:
		count = cv.Len
		elem = func(i string) Val { return vSelect(cv.Arr, tAdd(cv.Off, i)) }
	case Ar:
		count = tInt(cv.N)
		elem = func(i string) Val { return vSelect(cv.Arr, i) }
	case Sc:
		if kk, _ := classify(xt); kk == kStr {
			// NOTE: Go ranges over runes; for code that only looks for ASCII
			// bytes this coincides with bytes iff the string is ASCII. The
			// engine models byte iteration and records the assumption.
			c.notes = append(c.notes, "range over string modelled bytewise (exact for ASCII / when only ASCII bytes are matched): "+c.posOf(n))
			count = app("slen", cv.T)
			elem = func(i string) Val { return scInt(app("sat", cv.T, i)) }
		} else {
			count = x.c.define("rangeN", SInt, tIte(tGe(cv.T, "0"), cv.T, "0")) // range over int: no iterations for n <= 0
			elem = nil
		}
	default:
		panic(unsupported("range over %T", coll))
	}
	ls := x.loopSpec()
	ord := *x.loopOrd
	// hidden index variable
	idxObj := keyObj
	if idxObj == nil {
		idxObj = types.NewVar(n.Pos(), nil, fmt.Sprintf("range!idx%d", ord), types.Typ[types.Int])
	}
	if ls == nil && x.contract != nil && !x.contract.Thin {
		c.notes = append(c.notes, fmt.Sprintf("loop %d at %s has no invariant (treated as 'true')", ord, c.posOf(n)))
	}
	st.vars[idxObj] = scInt("0")
	st.ghost["K"] = scInt("0") // the number of completed iterations, nameable in invariants when the key is blank
	if valObj != nil {
		st.vars[valObj] = c.zeroVal(valObj.Type(), nil)
	}
	x.takeSnapshots(ls, st, n.Body.Lbrace)
	x.checkInvsRange(ls, st, "inv-entry", ord, n.Body.Lbrace, idxObj, valObj, elem, count)
	ms := x.modifiedIn(n.Body)
	ms.vars[idxObj] = true
	if valObj != nil {
		ms.vars[valObj] = true
	}
	head := st.clone()
	x.havoc(head, ms, fmt.Sprintf("L%d", ord))
	x.havocLoopAliases(st, head, n.Body)
	i := head.vars[idxObj].(Sc).T
	head.ghost["K"] = scInt(i)
	c.assume(head.pc, tAnd(tLe("0", i), tLe(i, count)))
	x.assumeInvsRange(ls, head, n.Body.Lbrace, idxObj, valObj, elem, count)
	body := x.fork(head, tLt(i, count), "loop")
	exit := x.fork(head, tGe(i, count), "exit")
	if valObj != nil && elem != nil {
		body.vars[valObj] = elem(i)
	}
	fr := &frame{label: label, isLoop: true}
	x.frames = append(x.frames, fr)
	end := x.execBlock(n.Body.List, body)
	if end != nil {
		end = x.bodyAsserts(n.Body.Rbrace, end)
	}
	x.frames = x.frames[:len(x.frames)-1]
	// each path back to the loop head is checked on its own (smaller queries)
	var paths []*State
	for _, p := range append([]*State{end}, fr.conts...) {
		if p != nil && p.pc != tFalse {
			paths = append(paths, p)
		}
	}
	for pi, back := range paths {
		// Go semantics: the hidden counter advances; assignments to the key
		// variable inside the body do not affect iteration (none occur here).
		back.vars[idxObj] = scInt(tAdd(i, "1"))
		back.ghost["K"] = scInt(tAdd(i, "1"))
		if len(paths) > 1 {
			x.pathTag = fmt.Sprintf("@p%d", pi+1)
		}
		x.reach(back, n.Body.Rbrace, fmt.Sprintf("back edge of loop %d", ord))
		x.checkInvsRange(ls, back, "inv-keep", ord, n.Body.Lbrace, idxObj, valObj, elem, count)
		x.pathTag = ""
	}
	// at exit the key variable keeps its last value in Go; after the loop it is
	// out of scope (declared by :=), so the value is irrelevant.
	return x.merge(append([]*State{exit}, fr.breaks...))
}

func (x *Exec) loopOrd2skip() {}

// checkInvsRange: invariants of range loops are evaluated at the top of an
// iteration: the value variable denotes the element about to be processed
// when the index is in range.
func (x *Exec) checkInvsRange(ls *LoopSpec, st *State, kind string, ord int, pos token.Pos,
	idxObj, valObj types.Object, elem func(string) Val, count string) {
	if ls == nil || st == nil {
		return
	}
	st2 := st.clone()
	if valObj != nil && elem != nil {
		st2.vars[valObj] = elem(st.vars[idxObj].(Sc).T)
	}
	x.checkInvs(ls, st2, kind, ord, pos)
}

func (x *Exec) assumeInvsRange(ls *LoopSpec, st *State, pos token.Pos,
	idxObj, valObj types.Object, elem func(string) Val, count string) {
	if ls == nil {
		if y, ok := st.ghost["stopped"]; ok && x.contract != nil && x.contract.Yields != "" {
			x.c.assume(st.pc, tNot(y.(Sc).T))
		}
		return
	}
	st2 := st.clone()
	if valObj != nil && elem != nil {
		st2.vars[valObj] = elem(st.vars[idxObj].(Sc).T)
	}
	x.assumeInvs(ls, st2, pos)
}

// execRangeMap: iteration over a map in an arbitrary order. Ghost set `seen`
// (keys already visited) is available to invariants as seen(k).
func (x *Exec) execRangeMap(n *ast.RangeStmt, st *State, label string, m Mp, keyObj, valObj types.Object) *State {
	c := x.c
	ls := x.loopSpec()
	ord := *x.loopOrd
	seenName := fmt.Sprintf("seen%d", ord)
	seen0 := zeroOf(arrSort(m.KS, SBool))
	st.ghost[seenName] = Sc{seen0, arrSort(m.KS, SBool)}
	st.ghost["seen"] = st.ghost[seenName]
	st.ghost["seenN"] = scInt("0")
	if keyObj != nil {
		st.vars[keyObj] = c.zeroVal(keyObj.Type(), nil)
	}
	if valObj != nil {
		st.vars[valObj] = c.zeroVal(valObj.Type(), nil)
	}
	x.checkInvs(ls, st, "inv-entry", ord, n.Body.Lbrace)
	ms := x.modifiedIn(n.Body)
	if keyObj != nil {
		ms.vars[keyObj] = true
	}
	if valObj != nil {
		ms.vars[valObj] = true
	}
	head := st.clone()
	x.havoc(head, ms, fmt.Sprintf("L%d", ord))
	x.havocLoopAliases(st, head, n.Body)
	seen := c.fresh(fmt.Sprintf("L%d.seen", ord), arrSort(m.KS, SBool))
	head.ghost[seenName] = Sc{seen, arrSort(m.KS, SBool)}
	head.ghost["seen"] = head.ghost[seenName]
	seenN := c.fresh(fmt.Sprintf("L%d.seenN", ord), SInt)
	head.ghost["seenN"] = scInt(seenN)
	c.assume(head.pc, tAnd(tLe("0", seenN), tLe(seenN, m.Len)))
	// seen is a subset of the key set
	c.assume(head.pc, tForall([][2]string{{"k!s", m.KS}}, tImp(tSel(seen, "k!s"), tSel(m.Has, "k!s"))))
	x.assumeInvs(ls, head, n.Body.Lbrace)
	// the loop continues iff some key is unseen
	k := c.fresh(fmt.Sprintf("L%d.key", ord), m.KS)
	more := c.fresh(fmt.Sprintf("L%d.more", ord), SBool)
	c.assume(head.pc, tEq(more, tExists([][2]string{{"k!s", m.KS}}, tAnd(tSel(m.Has, "k!s"), tNot(tSel(seen, "k!s"))))))
	body := x.fork(head, more, "loop")
	c.assume(body.pc, tAnd(tSel(m.Has, k), tNot(tSel(seen, k)), tLt(seenN, m.Len)))
	exit := x.fork(head, tNot(more), "exit")
	c.assume(exit.pc, tEq(seenN, m.Len))
	c.assume(exit.pc, tForall([][2]string{{"k!s", m.KS}}, tEq(tSel(seen, "k!s"), tSel(m.Has, "k!s"))))
	if keyObj != nil {
		body.vars[keyObj] = x.decodeKey(k, m.K, body)
	}
	if valObj != nil {
		body.vars[valObj] = vSelect(m.Val, k)
	}
	fr := &frame{label: label, isLoop: true}
	x.frames = append(x.frames, fr)
	end := x.execBlock(n.Body.List, body)
	x.frames = x.frames[:len(x.frames)-1]
	back := x.merge(append([]*State{end}, fr.conts...))
	if back != nil {
		back.ghost[seenName] = Sc{tSto(seen, k, tTrue), arrSort(m.KS, SBool)}
		back.ghost["seen"] = back.ghost[seenName]
		back.ghost["seenN"] = scInt(tAdd(seenN, "1"))
		x.checkInvs(ls, back, "inv-keep", ord, n.Body.Lbrace)
	}
	return x.merge(append([]*State{exit}, fr.breaks...))
}

// decodeKey rebuilds a key value of Go type t from its encoded term.
func (x *Exec) decodeKey(k string, t types.Type, st *State) Val {
	kk, _ := classify(t)
	switch kk {
	case kInt, kStr, kRef, kBool:
		s := keySort(t)
		return Sc{k, s}
	case kArray:
		at := t.Underlying().(*types.Array)
		v := x.c.freshVal("key", t, nil).(Ar)
		x.c.assumeHere(tEq(encodeKey(v), k))
		_ = at
		return v
	}
	panic(unsupported("decodeKey %s", typeName(t)))
}

func (x *Exec) typeOf(e ast.Expr) types.Type {
	if tv, ok := x.info.Types[e]; ok {
		return tv.Type
	}
	if id, ok := e.(*ast.Ident); ok {
		if o := x.info.Uses[id]; o != nil {
			return o.Type()
		}
		if o := x.info.Defs[id]; o != nil {
			return o.Type()
		}
	}
	return nil
}

func (x *Exec) constOf(e ast.Expr) (constant.Value, bool) {
	if tv, ok := x.info.Types[e]; ok && tv.Value != nil {
		return tv.Value, true
	}
	return nil, false
}
