package main

import (
	"fmt"
	"go/ast"
	"go/constant"
	"go/token"
	"go/types"
	"sort"
	"strings"
)

// Assumed contracts of external (standard library / third party) functions.
// Every handler used in a run is listed in the evidence as an assumption.

type externFn func(x *Exec, n *ast.CallExpr, recv ast.Expr, st *State) (Val, *State)

var externs = map[string]externFn{}
var externDocs = map[string]string{}
var externTraces = map[string]func(x *Exec, z Sl, args []Val, st *State){}

func reg(name, doc string, f externFn) {
	externs[name] = f
	externDocs[name] = doc
}

// error codes
const (
	errNil           = "0"
	errEOF           = "1"
	errUnexpectedEOF = "2"
)

func byteSeqType() types.Type { return types.NewSlice(types.Typ[types.Uint8]) }

// mutable ghost fields per object kind (everything else is immutable identity/content)
var objMutable = map[string][]string{
	"io.Writer":       {"out", "failed"},
	"bytes.Buffer":    {"out"},
	"strings.Builder": {"out"},
	"bufio.Reader":    {"pos", "fired", "canUnread"},
	"bufio.Scanner":   {"pos", "cur", "done"},
	"csv.Reader":      {"pos", "done"},
	"io.Reader":       {"consumed"},
	"regexp.Regexp":   {},
	"minhash.MinHash": {"pushed", "sorted", "content"},
	"hash.Hash64":     {"out"},
}

func (c *Ctx) freshSeq(hint string) Sl {
	arr := c.fresh(hint+".a", arrSort(SInt, SInt))
	ln := c.fresh(hint+".len", SInt)
	c.facts = append(c.facts, tGe(ln, "0"))
	c.facts = append(c.facts, tForall([][2]string{{"i!b", SInt}}, tAnd(tLe("0", tSel(arr, "i!b")), tLe(tSel(arr, "i!b"), "255")), tSel(arr, "i!b")))
	return Sl{Sc{arr, arrSort(SInt, SInt)}, "0", ln, tFalse, types.Typ[types.Uint8]}
}

func emptySeq() Sl {
	return Sl{Sc{zeroOf(arrSort(SInt, SInt)), arrSort(SInt, SInt)}, "0", "0", tFalse, types.Typ[types.Uint8]}
}

func (c *Ctx) freshObj(hint, kind string) Val {
	o := Obj{Kind: kind, F: map[string]Val{}}
	switch kind {
	case "io.Writer":
		o.F["out"] = c.freshSeq(hint + ".out")
		o.F["failed"] = scBool(c.fresh(hint+".failed", SBool))
	case "bytes.Buffer", "strings.Builder", "hash.Hash64":
		o.F["out"] = c.freshSeq(hint + ".out")
		o.F["failed"] = scBool(tFalse)
		if kind == "hash.Hash64" {
			o.F["seed"] = scInt(c.fresh(hint+".seed", SInt))
		}
	case "io.Reader":
		o.F["id"] = scInt(c.fresh(hint+".id", SInt))
		o.F["consumed"] = scInt(c.fresh(hint+".consumed", SInt))
	case "bufio.Reader":
		c.streamFields(o, hint, scInt(c.fresh(hint+".id", SInt)))
		o.F["pos"] = scInt(c.fresh(hint+".pos", SInt))
		o.F["fired"] = scBool(c.fresh(hint+".fired", SBool))
		o.F["canUnread"] = scBool(c.fresh(hint+".canUnread", SBool))
		c.facts = append(c.facts, tAnd(tLe("0", o.F["pos"].(Sc).T), tLe(o.F["pos"].(Sc).T, o.F["end"].(Sc).T)))
	case "bufio.Scanner":
		c.scannerFields(o, hint, scInt(c.fresh(hint+".id", SInt)))
		o.F["pos"] = scInt(c.fresh(hint+".pos", SInt))
		o.F["cur"] = Sc{c.fresh(hint+".cur", SStr), SStr}
		o.F["done"] = scBool(c.fresh(hint+".done", SBool))
		c.facts = append(c.facts, tAnd(tLe("0", o.F["pos"].(Sc).T), tLe(o.F["pos"].(Sc).T, o.F["n"].(Sc).T)))
		c.facts = append(c.facts, tImp(o.F["done"].(Sc).T, tEq(o.F["pos"].(Sc).T, o.F["n"].(Sc).T)))
	case "csv.Reader":
		c.csvFields(o, hint, scInt(c.fresh(hint+".id", SInt)))
		o.F["pos"] = scInt(c.fresh(hint+".pos", SInt))
		o.F["done"] = scBool(c.fresh(hint+".done", SBool))
		c.facts = append(c.facts, tAnd(tLe("0", o.F["pos"].(Sc).T), tLe(o.F["pos"].(Sc).T, o.F["n"].(Sc).T)))
	case "regexp.Regexp":
		o.F["id"] = scInt(c.fresh(hint+".id", SInt))
	case "minhash.MinHash":
		o.F["content"] = scInt(c.fresh(hint+".content", SInt))
		o.F["pushed"] = Sc{c.fresh(hint+".pushed", arrSort(SInt, SBool)), arrSort(SInt, SBool)}
		o.F["sorted"] = scBool(c.fresh(hint+".sorted", SBool))
		o.F["n"] = scInt(c.fresh(hint+".n", SInt))
	default:
		panic(unsupported("object kind %s", kind))
	}
	return o
}

// streamFields: the byte stream behind a bufio.Reader is a function of the
// underlying reader's identity: content in[0..end), then either EOF or (fault)
// a non-EOF error, once or forever.
func (c *Ctx) streamFields(o Obj, hint string, id Sc) {
	c.declareFun("rd!in", []string{SInt}, arrSort(SInt, SInt))
	c.declareFun("rd!end", []string{SInt}, SInt)
	c.declareFun("rd!fault", []string{SInt}, SBool)
	c.declareFun("rd!forever", []string{SInt}, SBool)
	c.declareFun("rd!err", []string{SInt}, SInt)
	o.F["id"] = id
	in := c.define(hint+".in", arrSort(SInt, SInt), app("rd!in", id.T))
	o.F["in"] = Sc{in, arrSort(SInt, SInt)}
	o.F["end"] = scInt(c.define(hint+".end", SInt, app("rd!end", id.T)))
	o.F["fault"] = scBool(app("rd!fault", id.T))
	o.F["forever"] = scBool(app("rd!forever", id.T))
	o.F["err"] = scInt(app("rd!err", id.T))
	c.facts = append(c.facts, tGe(app("rd!end", id.T), "0"))
	c.facts = append(c.facts, ioErr(app("rd!err", id.T)))
	c.facts = append(c.facts, tForall([][2]string{{"i!b", SInt}}, tAnd(tLe("0", tSel(in, "i!b")), tLe(tSel(in, "i!b"), "255")), tSel(in, "i!b")))
}

// scannerFields: a bufio.Scanner with ScanLines over reader id delivers lines
// sc!line(id,0..n) and then stops with Err()==nil or (fault) a non-nil error
// (I/O error or ErrTooLong).
func (c *Ctx) scannerFields(o Obj, hint string, id Sc) {
	c.usesStr = true
	c.declareFun("sc!lines", []string{SInt}, arrSort(SInt, SStr))
	c.declareFun("sc!n", []string{SInt}, SInt)
	c.declareFun("sc!fault", []string{SInt}, SBool)
	c.declareFun("sc!err", []string{SInt}, SInt)
	o.F["id"] = id
	o.F["lines"] = Sc{c.define(hint+".lines", arrSort(SInt, SStr), app("sc!lines", id.T)), arrSort(SInt, SStr)}
	o.F["n"] = scInt(c.define(hint+".n", SInt, app("sc!n", id.T)))
	o.F["fault"] = scBool(app("sc!fault", id.T))
	o.F["err"] = scInt(app("sc!err", id.T))
	c.facts = append(c.facts, tGe(app("sc!n", id.T), "0"))
	c.facts = append(c.facts, ioErr(app("sc!err", id.T)))
	// the lines are the ScanLines split of the byte sequence the reader delivers (rd!in / rd!end: the same abstraction
	// bufio.Reader is specified over), when the reader itself does not fail (specs/00base.spec, lnN/lnS/lnT/lnE)
	c.declareFun("rd!in", []string{SInt}, arrSort(SInt, SInt))
	c.declareFun("rd!end", []string{SInt}, SInt)
	c.declareFun("rd!fault", []string{SInt}, SBool)
	for _, f := range []string{"lnN", "lnS", "lnT", "lnE"} {
		c.used[f] = true
	}
	in, end, lines, cnt := app("rd!in", id.T), app("rd!end", id.T), app("sc!lines", id.T), app("sc!n", id.T)
	nf := tNot(app("rd!fault", id.T))
	c.facts = append(c.facts, tImp(nf, tAnd(tGe(end, "0"), tEq(cnt, app("lnN", in, end)))))
	c.facts = append(c.facts, tImp(nf, tForall([][2]string{{"k!l", SInt}}, tImp(tAnd(tLe("0", "k!l"), tLt("k!l", cnt)),
		tEq(app("slen", tSel(lines, "k!l")), tSub(app("lnE", in, end, "k!l"), app("lnS", in, end, "k!l")))), tSel(lines, "k!l"))))
	c.facts = append(c.facts, tImp(nf, tForall([][2]string{{"k!l", SInt}, {"j!l", SInt}}, tImp(tAnd(tLe("0", "k!l"), tLt("k!l", cnt), tLe("0", "j!l"), tLt("j!l", app("slen", tSel(lines, "k!l")))),
		tEq(app("sat", tSel(lines, "k!l"), "j!l"), tSel(in, tAdd(app("lnS", in, end, "k!l"), "j!l")))), app("sat", tSel(lines, "k!l"), "j!l"))))
}

func (c *Ctx) csvFields(o Obj, hint string, id Sc) {
	c.usesStr = true
	// records: array of string slices
	c.declareFun("csv!rec", []string{SInt}, arrSort(SInt, arrSort(SInt, SStr)))
	c.declareFun("csv!reclen", []string{SInt}, arrSort(SInt, SInt))
	c.declareFun("csv!recerr", []string{SInt}, arrSort(SInt, SInt))
	c.declareFun("csv!n", []string{SInt}, SInt)
	c.declareFun("csv!fault", []string{SInt}, SBool)
	c.declareFun("csv!err", []string{SInt}, SInt)
	o.F["id"] = id
	o.F["rec"] = Sc{app("csv!rec", id.T), arrSort(SInt, arrSort(SInt, SStr))}
	o.F["reclen"] = Sc{app("csv!reclen", id.T), arrSort(SInt, SInt)}
	o.F["recerr"] = Sc{app("csv!recerr", id.T), arrSort(SInt, SInt)}
	o.F["n"] = scInt(c.define(hint+".n", SInt, app("csv!n", id.T)))
	o.F["fault"] = scBool(app("csv!fault", id.T))
	o.F["err"] = scInt(app("csv!err", id.T))
	c.facts = append(c.facts, tGe(app("csv!n", id.T), "0"))
	c.facts = append(c.facts, ioErr(app("csv!err", id.T)))
	c.facts = append(c.facts, tForall([][2]string{{"i!r", SInt}}, tGe(tSel(app("csv!reclen", id.T), "i!r"), "0")))
	c.facts = append(c.facts, tForall([][2]string{{"i!r", SInt}}, tAnd(tNot(tEq(tSel(app("csv!recerr", id.T), "i!r"), "1")), tGe(tSel(app("csv!recerr", id.T), "i!r"), "0"))))
}

func (c *Ctx) zeroObj(kind string) Val {
	o := Obj{Kind: kind, F: map[string]Val{}}
	switch kind {
	case "bytes.Buffer", "strings.Builder":
		o.F["out"] = emptySeq()
		o.F["failed"] = scBool(tFalse)
	case "io.Writer", "io.Reader":
		o.F["isnil"] = scBool(tTrue)
		if kind == "io.Writer" {
			o.F["out"] = emptySeq()
			o.F["failed"] = scBool(tFalse)
		} else {
			o.F["id"] = scInt("0")
			o.F["consumed"] = scInt("0")
		}
	default:
		return c.freshObj("zero."+kind, kind)
	}
	return o
}

// havocObj replaces the mutable ghost fields of o by fresh ones.
func (c *Ctx) havocObj(o Obj, hint string) Val {
	n := Obj{Kind: o.Kind, F: map[string]Val{}}
	for k, v := range o.F {
		n.F[k] = v
	}
	muts := append([]string{}, objMutable[o.Kind]...)
	sort.Strings(muts)
	for _, f := range muts {
		old, ok := o.F[f]
		if !ok {
			continue
		}
		switch ov := old.(type) {
		case Sl:
			n.F[f] = c.freshSeq(hint + "." + f)
		case Sc:
			n.F[f] = Sc{c.fresh(hint+"."+f, ov.S), ov.S}
		}
	}
	switch o.Kind {
	case "bufio.Reader":
		c.facts = append(c.facts, tAnd(tLe("0", n.F["pos"].(Sc).T), tLe(n.F["pos"].(Sc).T, n.F["end"].(Sc).T)))
	case "bufio.Scanner", "csv.Reader":
		c.facts = append(c.facts, tAnd(tLe("0", n.F["pos"].(Sc).T), tLe(n.F["pos"].(Sc).T, n.F["n"].(Sc).T)))
		c.facts = append(c.facts, tImp(n.F["done"].(Sc).T, tEq(n.F["pos"].(Sc).T, n.F["n"].(Sc).T)))
	case "io.Writer":
		// the failed flag is sticky and output only grows: stated by callers' contracts, not here
	}
	return n
}

// freshLike creates a fresh value with the same shape/sorts as v.
func (c *Ctx) freshLike(hint string, v Val) Val {
	var sorts []string
	collectSorts(v, &sorts, c)
	return mapValIdx(v, func(t string, i int) string { return c.fresh(hint, sorts[i]) })
}

// prefixFact: a is a prefix of b (same offset convention: both Off "0").
func (c *Ctx) prefixFact(a, b Sl) string {
	var cs []string
	la, lb := leaves(a.Arr), leaves(b.Arr)
	for i := range la {
		cs = append(cs, tForall([][2]string{{"i!p", SInt}},
			tImp(tAnd(tLe("0", "i!p"), tLt("i!p", a.Len)), tEq(tSel(lb[i], tAdd(b.Off, "i!p")), tSel(la[i], tAdd(a.Off, "i!p"))))))
	}
	return tAnd(cs...)
}

// ---------------------------------------------------------------------------

func init() {
	parseExtern("strconv.ParseUint", "parses an unsigned integer (partial function of the text); error iff not parseable", "puintOK", "puint", SInt)
	parseExtern("strconv.ParseFloat", "parses a float (partial function of the text); error iff not parseable; inverse of FormatFloat/%v", "pfloatOK", "pfloat", SReal)
	reg("github.com/fluhus/gostuff/snm.At", "the elements of t at the (literal) indexes in at; panics if an index is out of range", func(x *Exec, n *ast.CallExpr, recv ast.Expr, st *State) (Val, *State) {
		tv, st1 := x.eval(n.Args[0], st)
		av, st2 := x.eval(n.Args[1], st1)
		t, at := tv.(Sl), av.(Sl)
		cnt, ok := isIntLit(at.Len)
		if !ok || cnt > 16 {
			panic(unsupported("snm.At with a non-literal index list"))
		}
		arr := x.c.zeroVal(t.Elem, []string{SInt})
		for k := int64(0); k < cnt; k++ {
			idx := vSelect(at.Arr, tAdd(at.Off, tInt(k))).(Sc).T
			x.c.obligeAssume("idx", "", st2.pc, tAnd(tLe("0", idx), tLt(idx, t.Len)), n.Pos(), "snm.At index in range")
			arr = vStore(arr, tInt(k), vSelect(t.Arr, tAdd(t.Off, idx)))
		}
		return Sl{arr, "0", tInt(cnt), tFalse, t.Elem}, st2
	})
	reg("encoding/hex.DecodeString", "decodes a hexadecimal string: a partial function of the text (hexOK; hexlen bytes hexbyte(s,i)), error iff not decodable", func(x *Exec, n *ast.CallExpr, recv ast.Expr, st *State) (Val, *State) {
		sv, st1 := x.eval(n.Args[0], st)
		c := x.c
		c.usesStr = true
		for _, f := range []string{"hexOK", "hexlen", "hexbyte"} {
			c.used[f] = true
		}
		s := sv.(Sc).T
		ok := app("hexOK", s)
		e := c.fresh("hexerr", SInt)
		c.assumeHere(tAnd(tImp(ok, tEq(e, "0")), tImp(tNot(ok), localErr(e))))
		c.used["hexarr"] = true
		arr := app("hexarr", s)
		ln := c.define("hexn", SInt, tIte(ok, app("hexlen", s), "0"))
		return Tup{[]Val{Sl{Sc{arr, arrSort(SInt, SInt)}, "0", ln, tNot(ok), types.Typ[types.Uint8]}, scInt(e)}}, st1
	})
	reg("encoding/hex.EncodeToString", "lower-case hexadecimal rendering of the bytes (hexenc): decodes back to the same bytes", func(x *Exec, n *ast.CallExpr, recv ast.Expr, st *State) (Val, *State) {
		bv, st1 := x.eval(n.Args[0], st)
		c := x.c
		c.usesStr = true
		c.used["hexenc"] = true
		b := c.normView(bv.(Sl))
		return Sc{app("hexenc", b.Arr.(Sc).T, b.Len), SStr}, st1
	})
	reg("strconv.FormatFloat", "FormatFloat(x, 'e', -1, 64): the shortest rendering that parses back to x (ffmt)", func(x *Exec, n *ast.CallExpr, recv ast.Expr, st *State) (Val, *State) {
		v, st1 := x.eval(n.Args[0], st)
		for _, a := range n.Args[1:] {
			_, st1 = x.eval(a, st1)
		}
		c := x.c
		c.usesStr = true
		f, ok1 := x.constOf(n.Args[1])
		p, ok2 := x.constOf(n.Args[2])
		bs, ok3 := x.constOf(n.Args[3])
		if ok1 && ok2 && ok3 && f.String() == "101" && p.String() == "-1" && bs.String() == "64" {
			c.used["ffmt"] = true
			return Sc{app("ffmt", toReal(v.(Sc))), SStr}, st1
		}
		return Sc{c.fresh("fmtfloat", SStr), SStr}, st1
	})
	reg("sort.Search", "binary search: for a predicate that is monotone on [0,n) (false then true) returns the smallest index at which it is true, or n; the monotonicity is a proof obligation", func(x *Exec, n *ast.CallExpr, recv ast.Expr, st *State) (Val, *State) {
		nv, st1 := x.eval(n.Args[0], st)
		fl, ok := ast.Unparen(n.Args[1]).(*ast.FuncLit)
		if !ok {
			panic(unsupported("sort.Search with a non-literal predicate"))
		}
		c := x.c
		cnt := nv.(Sc).T
		pred := func(j string) string { return x.pureClosure(fl, []Val{scInt(j)}, st1).(Sc).T }
		// obligation: monotone on [0,n)
		c.obligeAssume("pre@sort.Search", "", st1.pc, tForall([][2]string{{"j!a", SInt}, {"j!b", SInt}},
			tImp(tAnd(tLe("0", "j!a"), tLt("j!a", "j!b"), tLt("j!b", cnt), pred("j!a")), pred("j!b"))), n.Pos(), "predicate passed to sort.Search is monotone on [0,n)")
		r := c.fresh("search", SInt)
		c.assumeHere(tAnd(tLe("0", r), tLe(r, cnt)))
		c.assumeHere(tForall([][2]string{{"j!s", SInt}}, tImp(tAnd(tLe("0", "j!s"), tLt("j!s", r)), tNot(pred("j!s")))))
		c.assumeHere(tImp(tLt(r, cnt), pred(r)))
		return scInt(r), st1
	})
	reg("sort.Slice", "sorts the slice in place by the given less function: afterwards a permutation of the old contents, ordered by less (only length preservation and element-wise membership are assumed here)", func(x *Exec, n *ast.CallExpr, recv ast.Expr, st *State) (Val, *State) {
		sv, st1 := x.eval(n.Args[0], st)
		s := sv.(Sl)
		c := x.c
		ns := c.freshLike("sorted", s).(Sl)
		ns.Off, ns.Len, ns.Nil = s.Off, s.Len, s.Nil
		// every new element is one of the old elements (and vice versa): permutation witness
		perm, inv := permWitness(c, s.Len)
		la, lb := leaves(ns.Arr), leaves(s.Arr)
		for i := range la {
			c.assumeHere(tForall([][2]string{{"i!p", SInt}}, tImp(tAnd(tLe("0", "i!p"), tLt("i!p", s.Len)),
				tEq(tSel(la[i], tAdd(s.Off, "i!p")), tSel(lb[i], tAdd(s.Off, tSel(perm, "i!p"))))), tSel(la[i], tAdd(s.Off, "i!p"))))
		}
		// the same fact read from the old slice (a consequence; gives the solver the new position of an old element)
		for i := range la {
			c.assumeHere(tForall([][2]string{{"i!p", SInt}}, tImp(tAnd(tLe("0", "i!p"), tLt("i!p", s.Len)),
				tEq(tSel(lb[i], tAdd(s.Off, "i!p")), tSel(la[i], tAdd(s.Off, tSel(inv, "i!p"))))), tSel(lb[i], tAdd(s.Off, "i!p"))))
		}
		st1.ghost["perm"] = Sc{perm, arrSort(SInt, SInt)}
		st1.ghost["perminv"] = Sc{inv, arrSort(SInt, SInt)}
		// sortedness w.r.t. the less closure
		if fl, ok := ast.Unparen(n.Args[1]).(*ast.FuncLit); ok {
			x.havocAliases(st1, s, n.Args[0], "")
			st2 := x.assign(n.Args[0], ns, st1)
			less := func(a, b string) string { return x.pureClosure(fl, []Val{scInt(a), scInt(b)}, st2).(Sc).T }
			c.assumeHere(tForall([][2]string{{"j!a", SInt}, {"j!b", SInt}}, tImp(tAnd(tLe("0", "j!a"), tLt("j!a", "j!b"), tLt("j!b", s.Len)), tNot(less("j!b", "j!a")))))
			return Tup{}, st2
		}
		x.havocAliases(st1, s, n.Args[0], "")
		return Tup{}, x.assign(n.Args[0], ns, st1)
	})
	reg("sort.Ints", "sorts the int slice in place in increasing order (a permutation of the old contents)", func(x *Exec, n *ast.CallExpr, recv ast.Expr, st *State) (Val, *State) {
		sv, st1 := x.eval(n.Args[0], st)
		s := sv.(Sl)
		c := x.c
		ns := c.freshLike("sortedints", s).(Sl)
		ns.Off, ns.Len, ns.Nil = s.Off, s.Len, s.Nil
		na, oa := ns.Arr.(Sc).T, s.Arr.(Sc).T
		perm, inv := permWitness(c, s.Len)
		c.assumeHere(tForall([][2]string{{"i!p", SInt}}, tImp(tAnd(tLe("0", "i!p"), tLt("i!p", s.Len)),
			tEq(tSel(na, tAdd(s.Off, "i!p")), tSel(oa, tAdd(s.Off, tSel(perm, "i!p"))))), tSel(na, tAdd(s.Off, "i!p"))))
		c.assumeHere(tForall([][2]string{{"j!a", SInt}, {"j!b", SInt}}, tImp(tAnd(tLe("0", "j!a"), tLt("j!a", "j!b"), tLt("j!b", s.Len)),
			tLe(tSel(na, tAdd(s.Off, "j!a")), tSel(na, tAdd(s.Off, "j!b"))))))
		// the same fact read from the old slice (a consequence; gives the solver the new position of an old element)
		c.assumeHere(tForall([][2]string{{"i!p", SInt}}, tImp(tAnd(tLe("0", "i!p"), tLt("i!p", s.Len)),
			tEq(tSel(oa, tAdd(s.Off, "i!p")), tSel(na, tAdd(s.Off, tSel(inv, "i!p"))))), tSel(oa, tAdd(s.Off, "i!p"))))
		x.havocAliases(st1, s, n.Args[0], "")
		return Tup{}, x.assign(n.Args[0], ns, st1)
	})
	reg("sort.Strings", "sorts the string slice in place: a permutation of the old contents (the order itself is not modelled)", func(x *Exec, n *ast.CallExpr, recv ast.Expr, st *State) (Val, *State) {
		sv, st1 := x.eval(n.Args[0], st)
		s := sv.(Sl)
		c := x.c
		ns := c.freshLike("sortedstrs", s).(Sl)
		ns.Off, ns.Len, ns.Nil = s.Off, s.Len, s.Nil
		na, oa := ns.Arr.(Sc).T, s.Arr.(Sc).T
		perm, inv := permWitness(c, s.Len)
		c.assumeHere(tForall([][2]string{{"i!p", SInt}}, tImp(tAnd(tLe("0", "i!p"), tLt("i!p", s.Len)),
			tEq(tSel(na, tAdd(s.Off, "i!p")), tSel(oa, tAdd(s.Off, tSel(perm, "i!p"))))), tSel(na, tAdd(s.Off, "i!p"))))
		// the same fact read from the old slice (a consequence; gives the solver the new position of an old element)
		c.assumeHere(tForall([][2]string{{"i!p", SInt}}, tImp(tAnd(tLe("0", "i!p"), tLt("i!p", s.Len)),
			tEq(tSel(oa, tAdd(s.Off, "i!p")), tSel(na, tAdd(s.Off, tSel(inv, "i!p"))))), tSel(oa, tAdd(s.Off, "i!p"))))
		st1.ghost["perm"] = Sc{perm, arrSort(SInt, SInt)}
		st1.ghost["perminv"] = Sc{inv, arrSort(SInt, SInt)}
		x.havocAliases(st1, s, n.Args[0], "")
		return Tup{}, x.assign(n.Args[0], ns, st1)
	})
	reg("regexp.MustCompile", "compiles the (constant) pattern; the constant pattern \\S+ is recognised: its matches in a string s are the canonical token functions wsN(s) / wsF(s, j) of specs/45smtext.spec", func(x *Exec, n *ast.CallExpr, recv ast.Expr, st *State) (Val, *State) {
		_, st1 := x.eval(n.Args[0], st)
		o := x.c.freshObj("re", "regexp.Regexp").(Obj)
		if cv, ok := x.constOf(n.Args[0]); ok && constant.StringVal(cv) == `\S+` {
			o.F["nonspace"] = scBool(tTrue) // the pattern \S+: FindAllString returns the canonical token functions wsN / wsF
		}
		return o, st1
	})
	reg("(*regexp.Regexp).FindAllString", "all successive matches of the pattern in s (a function of the pattern and s); for the pattern \\S+ these are the maximal runs of non-whitespace", func(x *Exec, n *ast.CallExpr, recv ast.Expr, st *State) (Val, *State) {
		rv, st1 := x.eval(recv, st)
		sv, st2 := x.eval(n.Args[0], st1)
		_, st3 := x.eval(n.Args[1], st2)
		c := x.c
		c.usesStr = true
		c.declareFun("re!n", []string{SInt, SStr}, SInt)
		c.declareFun("re!m", []string{SInt, SStr}, arrSort(SInt, SStr))
		if rv.(Obj).F["nonspace"] != nil {
			for _, f := range []string{"wsN", "wsF", "wsA"} {
				c.used[f] = true
			}
			s := sv.(Sc).T
			cnt := app("wsN", s)
			return Sl{Sc{app("wsA", s), arrSort(SInt, SStr)}, "0", cnt, tEq(cnt, "0"), types.Typ[types.String]}, st3
		}
		id := rv.(Obj).F["id"].(Sc).T
		s := sv.(Sc).T
		cnt := app("re!n", id, s)
		c.assumeHere(tGe(cnt, "0"))
		return Sl{Sc{app("re!m", id, s), arrSort(SInt, SStr)}, "0", cnt, tEq(cnt, "0"), types.Typ[types.String]}, st3
	})
	reg("math.Log", "natural logarithm over the reals: uninterpreted ln, monotone on positive arguments, ln 1 = 0 (floating-point rounding, NaN and infinities are not modelled)", func(x *Exec, n *ast.CallExpr, recv ast.Expr, st *State) (Val, *State) {
		v, st1 := x.eval(n.Args[0], st)
		x.c.used["ln"] = true
		return Sc{app("ln", toReal(v.(Sc))), SReal}, st1
	})
	reg("(*github.com/fluhus/gostuff/minhash.MinHash[T]).Jaccard", "Jaccard similarity estimate of two sketches: a real in [0,1], a symmetric function of the two sketch contents", func(x *Exec, n *ast.CallExpr, recv ast.Expr, st *State) (Val, *State) {
		a, st1 := x.eval(recv, st)
		b, st2 := x.eval(n.Args[0], st1)
		x.c.used["jaccard"] = true
		ida, idb := a.(Obj).F["content"].(Sc).T, b.(Obj).F["content"].(Sc).T
		return Sc{app("jaccard", ida, idb), SReal}, st2
	})
	reg("strings.ReplaceAll", "s with all non-overlapping instances of old replaced by new (opaque function of the three strings)", func(x *Exec, n *ast.CallExpr, recv ast.Expr, st *State) (Val, *State) {
		a, st1 := x.eval(n.Args[0], st)
		b, st2 := x.eval(n.Args[1], st1)
		d, st3 := x.eval(n.Args[2], st2)
		c := x.c
		c.usesStr = true
		cb, okb := x.constOf(n.Args[1])
		cd, okd := x.constOf(n.Args[2])
		if okb && okd && len(constant.StringVal(cb)) == 1 && len(constant.StringVal(cd)) == 1 {
			// one byte replaced by one byte: exact, bytewise
			from, to := constant.StringVal(cb)[0], constant.StringVal(cd)[0]
			r := c.fresh("replaced", SStr)
			src := a.(Sc).T
			c.assumeDef(tEq(app("slen", r), app("slen", src)))
			c.assumeDef(tForall([][2]string{{"i!r", SInt}}, tEq(app("sat", r, "i!r"),
				tIte(tEq(app("sat", src, "i!r"), tInt(int64(from))), tInt(int64(to)), app("sat", src, "i!r"))), app("sat", r, "i!r")))
			return Sc{r, SStr}, st3
		}
		if okb && okd && constant.StringVal(cb) == "'" && constant.StringVal(cd) == "''" {
			c.used["dq"] = true
			return Sc{app("dq", a.(Sc).T), SStr}, st3
		}
		if okb && okd && constant.StringVal(cb) == "''" && constant.StringVal(cd) == "'" {
			c.used["uq"] = true
			c.used["dq"] = true
			return Sc{app("uq", a.(Sc).T), SStr}, st3
		}
		c.declareFun("str!replaceAll", []string{SStr, SStr, SStr}, SStr)
		return Sc{app("str!replaceAll", a.(Sc).T, b.(Sc).T, d.(Sc).T), SStr}, st3
	})
	reg("strings.ContainsAny", "whether any byte of the (ASCII) set occurs in s", func(x *Exec, n *ast.CallExpr, recv ast.Expr, st *State) (Val, *State) {
		a, st1 := x.eval(n.Args[0], st)
		cv, ok := x.constOf(n.Args[1])
		if !ok {
			panic(unsupported("strings.ContainsAny with non-constant set"))
		}
		set := constant.StringVal(cv)
		s := a.(Sc).T
		var alts []string
		for i := 0; i < len(set); i++ {
			alts = append(alts, tEq(app("sat", s, "i!c"), tInt(int64(set[i]))))
		}
		x.c.usesStr = true
		return scBool(tExists([][2]string{{"i!c", SInt}}, tAnd(tLe("0", "i!c"), tLt("i!c", app("slen", s)), tOr(alts...)))), st1
	})
	reg("strings.Join", "concatenation of the elements with the separator between them", func(x *Exec, n *ast.CallExpr, recv ast.Expr, st *State) (Val, *State) {
		_, st1 := x.eval(n.Args[0], st)
		_, st2 := x.eval(n.Args[1], st1)
		x.c.usesStr = true
		return Sc{x.c.fresh("joined", SStr), SStr}, st2
	})
	reg("fmt.Sprintf", "result is some string (text abstracted; used for panic/error messages only)", func(x *Exec, n *ast.CallExpr, recv ast.Expr, st *State) (Val, *State) {
		for _, a := range n.Args[1:] {
			_, st = x.eval(a, st)
		}
		return Sc{x.c.fresh("sprintf", SStr), SStr}, st
	})
	reg("fmt.Errorf", "returns a non-nil error distinct from io.EOF/io.ErrUnexpectedEOF (text abstracted)", func(x *Exec, n *ast.CallExpr, recv ast.Expr, st *State) (Val, *State) {
		for _, a := range n.Args[1:] {
			_, st = x.eval(a, st)
			if st == nil {
				return nil, nil
			}
		}
		e := x.c.fresh("errorf", SInt)
		x.c.assumeHere(localErr(e))
		return scInt(e), st
	})
	reg("bytes.Compare", "lexicographic comparison of byte strings: result in {-1,0,1} equals lexcmp", func(x *Exec, n *ast.CallExpr, recv ast.Expr, st *State) (Val, *State) {
		a, st1 := x.eval(n.Args[0], st)
		b, st2 := x.eval(n.Args[1], st1)
		env := x.specEnv(st2, n.Pos())
		sf := x.c.eng.specs.funcs["lexcmp"]
		if sf == nil {
			panic(unsupported("spec function lexcmp missing"))
		}
		as, bs := a.(Sl), b.(Sl)
		r := env.callSpec(sf, []Val{as.Arr, scInt(as.Off), scInt(as.Len), bs.Arr, scInt(bs.Off), scInt(bs.Len)})
		return r, st2
	})
	reg("(*strings.Builder).Grow", "no observable effect", func(x *Exec, n *ast.CallExpr, recv ast.Expr, st *State) (Val, *State) {
		_, st = x.eval(n.Args[0], st)
		return Tup{}, st
	})
	wb := func(x *Exec, n *ast.CallExpr, recv ast.Expr, st *State) (Val, *State) {
		ov, st1 := x.eval(recv, st)
		bv, st2 := x.eval(n.Args[0], st1)
		o := ov.(Obj)
		out := o.F["out"].(Sl)
		nout := Sl{vStore(out.Arr, tAdd(out.Off, out.Len), bv), out.Off, tAdd(out.Len, "1"), tFalse, out.Elem}
		no := Obj{o.Kind, map[string]Val{}}
		for k, v := range o.F {
			no.F[k] = v
		}
		no.F["out"] = nout
		return Tup{[]Val{scInt(errNil)}}, x.assignBack(recv, no, st2)
	}
	reg("(*strings.Builder).WriteByte", "appends the byte; returns nil", wb)
	reg("(*bytes.Buffer).WriteByte", "appends the byte; returns nil", wb)
	toStr := func(x *Exec, n *ast.CallExpr, recv ast.Expr, st *State) (Val, *State) {
		ov, st1 := x.eval(recv, st)
		out := ov.(Obj).F["out"].(Sl)
		c := x.c
		s := c.fresh("built", SStr)
		c.usesStr = true
		c.assumeHere(tEq(app("slen", s), out.Len))
		c.assumeHere(tForall([][2]string{{"i!v", SInt}},
			tImp(tAnd(tLe("0", "i!v"), tLt("i!v", out.Len)), tEq(app("sat", s, "i!v"), tSel(out.Arr.(Sc).T, tAdd(out.Off, "i!v")))), app("sat", s, "i!v")))
		return Sc{s, SStr}, st1
	}
	reg("(*strings.Builder).String", "the bytes written so far", toStr)
	reg("(*bytes.Buffer).String", "the bytes written so far", toStr)
	reg("(*bytes.Buffer).Len", "number of bytes written so far (nothing was read)", func(x *Exec, n *ast.CallExpr, recv ast.Expr, st *State) (Val, *State) {
		ov, st1 := x.eval(recv, st)
		return scInt(ov.(Obj).F["out"].(Sl).Len), st1
	})
	reg("(*bytes.Buffer).Bytes", "the bytes written so far", func(x *Exec, n *ast.CallExpr, recv ast.Expr, st *State) (Val, *State) {
		ov, st1 := x.eval(recv, st)
		return ov.(Obj).F["out"], st1
	})
	reg("(*bytes.Buffer).Reset", "empties the buffer", func(x *Exec, n *ast.CallExpr, recv ast.Expr, st *State) (Val, *State) {
		ov, st1 := x.eval(recv, st)
		o := ov.(Obj)
		no := Obj{o.Kind, map[string]Val{}}
		for k, v := range o.F {
			no.F[k] = v
		}
		no.F["out"] = emptySeq()
		return Tup{}, x.assignBack(recv, no, st1)
	})
	reg("(*bytes.Buffer).WriteString", "appends the bytes of the string; returns len, nil", func(x *Exec, n *ast.CallExpr, recv ast.Expr, st *State) (Val, *State) {
		ov, st1 := x.eval(recv, st)
		sv, st2 := x.eval(n.Args[0], st1)
		o := ov.(Obj)
		no := x.objAppend(o, x.strAsSeq(sv.(Sc).T))
		return Tup{[]Val{scInt(app("slen", sv.(Sc).T)), scInt(errNil)}}, x.assignBack(recv, no, st2)
	})
	reg("(io.Writer).Write", "writes the bytes: on success appends them all and returns nil; a failing writer appends a prefix, sets failed and returns a non-nil error", func(x *Exec, n *ast.CallExpr, recv ast.Expr, st *State) (Val, *State) {
		wv, st1 := x.eval(recv, st)
		bv, st2 := x.eval(n.Args[0], st1)
		c := x.c
		w := wv.(Obj)
		out := w.F["out"].(Sl)
		data := bv.(Sl)
		full := x.appendSeq(out, data, "out")
		no := Obj{w.Kind, map[string]Val{}}
		for k, v := range w.F {
			no.F[k] = v
		}
		if w.Kind != "io.Writer" {
			no.F["out"] = full
			return Tup{[]Val{scInt(data.Len), scInt(errNil)}}, x.assignBack(recv, no, st2)
		}
		fail := c.fresh("wfail", SBool)
		res := c.freshSeq("wout")
		c.assumeDef(tAnd(tLe(out.Len, res.Len), tLe(res.Len, full.Len), tImp(tNot(fail), tEq(res.Len, full.Len)), tImp(fail, tLt(res.Len, full.Len))))
		c.assumeDef(tForall([][2]string{{"i!w", SInt}}, tImp(tAnd(tLe("0", "i!w"), tLt("i!w", res.Len)),
			tEq(tSel(res.Arr.(Sc).T, "i!w"), tSel(full.Arr.(Sc).T, tAdd(full.Off, "i!w")))), tSel(res.Arr.(Sc).T, "i!w")))
		// shortcut (implied by the facts above): whatever happens, the old output is a prefix of the new one
		c.assumeDef(tGe(res.Len, out.Len))
		c.assumeDef(tForall([][2]string{{"i!w", SInt}}, tImp(tAnd(tLe("0", "i!w"), tLt("i!w", out.Len)),
			tEq(tSel(res.Arr.(Sc).T, "i!w"), tSel(out.Arr.(Sc).T, tAdd(out.Off, "i!w")))), tSel(res.Arr.(Sc).T, "i!w")))
		no.F["out"] = res
		no.F["failed"] = scBool(tOr(w.F["failed"].(Sc).T, fail))
		e := c.fresh("werr", SInt)
		c.assumeDef(tAnd(tImp(fail, ioErr(e)), tImp(tNot(fail), tEq(e, "0"))))
		cnt := c.fresh("wn", SInt)
		return Tup{[]Val{scInt(cnt), scInt(e)}}, x.assignBack(recv, no, st2)
	})
	reg("bytes.NewBuffer", "a buffer whose content is the given bytes", func(x *Exec, n *ast.CallExpr, recv ast.Expr, st *State) (Val, *State) {
		bv, st1 := x.eval(n.Args[0], st)
		o := Obj{"bytes.Buffer", map[string]Val{"failed": scBool(tFalse)}}
		if bv == nil {
			o.F["out"] = emptySeq()
		} else {
			o.F["out"] = bv.(Sl)
		}
		return o, st1
	})
	reg("fmt.Fprintf", "renders the constant format (verbs %s %d %v %q) and writes it with ONE Write call: on success appends the rendering and returns nil; a failing writer appends a prefix, sets failed, returns non-nil", func(x *Exec, n *ast.CallExpr, recv ast.Expr, st *State) (Val, *State) {
		return x.fprintf(n, st, "printf")
	})
	reg("fmt.Fprint", "renders operands with default formats, no separators between string operands", func(x *Exec, n *ast.CallExpr, recv ast.Expr, st *State) (Val, *State) {
		return x.fprintf(n, st, "print")
	})
	reg("fmt.Fprintln", "as Fprint with spaces between operands and a final newline", func(x *Exec, n *ast.CallExpr, recv ast.Expr, st *State) (Val, *State) {
		return x.fprintf(n, st, "println")
	})
	reg("bufio.NewReader", "buffered byte stream over the reader: exposes the reader's byte sequence independent of chunking", func(x *Exec, n *ast.CallExpr, recv ast.Expr, st *State) (Val, *State) {
		rv, st1 := x.eval(n.Args[0], st)
		c := x.c
		o := Obj{"bufio.Reader", map[string]Val{}}
		if src, ok := memSource(rv); ok {
			// reading from an in-memory buffer: the stream is the buffer's content, it never faults
			out := c.normView(src)
			o.F["id"] = scInt(c.fresh("bufid", SInt))
			o.F["in"] = out.Arr
			o.F["end"] = scInt(out.Len)
			o.F["fault"] = scBool(tFalse)
			o.F["forever"] = scBool(tFalse)
			o.F["err"] = scInt("3")
			o.F["pos"] = scInt("0")
			o.F["fired"] = scBool(tFalse)
			o.F["canUnread"] = scBool(tFalse)
			return o, st1
		}
		c.streamFields(o, "br", rv.(Obj).F["id"].(Sc))
		o.F["pos"] = scInt("0")
		o.F["fired"] = scBool(tFalse)
		o.F["canUnread"] = scBool(tFalse)
		return o, st1
	})
	reg("(*bufio.Reader).ReadByte", "next byte of the stream; at the end io.EOF, or (fault) a non-EOF error once or forever", func(x *Exec, n *ast.CallExpr, recv ast.Expr, st *State) (Val, *State) {
		ov, st1 := x.eval(recv, st)
		o := ov.(Obj)
		c := x.c
		pos, end := o.F["pos"].(Sc).T, o.F["end"].(Sc).T
		in := o.F["in"].(Sc).T
		ok := tLt(pos, end)
		faultNow := tAnd(tNot(ok), o.F["fault"].(Sc).T, tOr(tNot(o.F["fired"].(Sc).T), o.F["forever"].(Sc).T))
		b := c.define("rb", SInt, tIte(ok, tSel(in, pos), "0"))
		e := c.define("rberr", SInt, tIte(ok, errNil, tIte(faultNow, o.F["err"].(Sc).T, errEOF)))
		no := Obj{o.Kind, map[string]Val{}}
		for k, v := range o.F {
			no.F[k] = v
		}
		no.F["pos"] = scInt(c.define("rbpos", SInt, tIte(ok, tAdd(pos, "1"), pos)))
		no.F["fired"] = scBool(tOr(o.F["fired"].(Sc).T, faultNow))
		no.F["canUnread"] = scBool(ok)
		return Tup{[]Val{scInt(b), scInt(e)}}, x.assignBack(recv, no, st1)
	})
	reg("(*bufio.Reader).ReadString", "reads up to and including the next delimiter: the bytes and nil; at the end of the stream the remaining bytes with io.EOF or (fault) a non-EOF error", func(x *Exec, n *ast.CallExpr, recv ast.Expr, st *State) (Val, *State) {
		ov, st1 := x.eval(recv, st)
		dv, st2 := x.eval(n.Args[0], st1)
		o := ov.(Obj)
		c := x.c
		pos, end := o.F["pos"].(Sc).T, o.F["end"].(Sc).T
		in := o.F["in"].(Sc).T
		d := dv.(Sc).T
		// e: position of the first delimiter at or after pos, or end
		e := c.fresh("rs.e", SInt)
		c.assumeHere(tAnd(tLe(pos, e), tLe(e, end)))
		c.assumeHere(tForall([][2]string{{"i!r", SInt}}, tImp(tAnd(tLe(pos, "i!r"), tLt("i!r", e)), tNot(tEq(tSel(in, "i!r"), d))), tSel(in, "i!r")))
		c.assumeHere(tImp(tLt(e, end), tEq(tSel(in, e), d)))
		found := tLt(e, end)
		hi := c.define("rs.hi", SInt, tIte(found, tAdd(e, "1"), end))
		str := c.fresh("rs.s", SStr)
		c.usesStr = true
		c.assumeHere(tEq(app("slen", str), tSub(hi, pos)))
		c.assumeHere(tForall([][2]string{{"i!r", SInt}}, tImp(tAnd(tLe("0", "i!r"), tLt("i!r", tSub(hi, pos))), tEq(app("sat", str, "i!r"), tSel(in, tAdd(pos, "i!r")))), app("sat", str, "i!r")))
		faultNow := tAnd(tNot(found), o.F["fault"].(Sc).T, tOr(tNot(o.F["fired"].(Sc).T), o.F["forever"].(Sc).T))
		er := c.define("rs.err", SInt, tIte(found, errNil, tIte(faultNow, o.F["err"].(Sc).T, errEOF)))
		no := Obj{o.Kind, map[string]Val{}}
		for k, v := range o.F {
			no.F[k] = v
		}
		no.F["pos"] = scInt(hi)
		no.F["fired"] = scBool(tOr(o.F["fired"].(Sc).T, faultNow))
		no.F["canUnread"] = scBool(tFalse)
		return Tup{[]Val{Sc{str, SStr}, scInt(er)}}, x.assignBack(recv, no, st2)
	})
	reg("strings.TrimSuffix", "s without the given constant suffix if present, else s", func(x *Exec, n *ast.CallExpr, recv ast.Expr, st *State) (Val, *State) {
		sv, st1 := x.eval(n.Args[0], st)
		cv, ok := x.constOf(n.Args[1])
		if !ok {
			panic(unsupported("strings.TrimSuffix with non-constant suffix"))
		}
		suf := constant.StringVal(cv)
		s := sv.(Sc).T
		c := x.c
		ln := app("slen", s)
		conds := []string{tGe(ln, tInt(int64(len(suf))))}
		for i := 0; i < len(suf); i++ {
			conds = append(conds, tEq(app("sat", s, tSub(ln, tInt(int64(len(suf)-i)))), tInt(int64(suf[i]))))
		}
		has := c.define("hassuf", SBool, tAnd(conds...))
		cut := x.substr(s, "0", tSub(ln, tInt(int64(len(suf)))))
		r := c.fresh("trimmed", SStr)
		c.assumeHere(tAnd(tImp(has, tEq(r, cut)), tImp(tNot(has), tEq(r, s))))
		return Sc{r, SStr}, st1
	})
	reg("strings.Split", "splits s around each instance of the (constant, one-byte) separator c: splitN(s,c) fields, field k = s[splitS(k):splitE(k)], fields separated by single c bytes, none containing c, covering s (specs/00base.spec)", func(x *Exec, n *ast.CallExpr, recv ast.Expr, st *State) (Val, *State) {
		sv, st1 := x.eval(n.Args[0], st)
		_, st2 := x.eval(n.Args[1], st1)
		c := x.c
		c.usesStr = true
		s := sv.(Sc).T
		if cv, ok := x.constOf(n.Args[1]); ok && len(constant.StringVal(cv)) == 1 && constant.StringVal(cv)[0] < 0x80 {
			sep := tInt(int64(constant.StringVal(cv)[0]))
			for _, f := range []string{"splitN", "splitS", "splitE", "splitF"} {
				c.used[f] = true
			}
			cnt := app("splitN", s, sep)
			c.used["splitA"] = true
			arr := app("splitA", s, sep) // canonical backing array: splitA(s,c)[k] == splitF(s,c,k) (specs/00base.spec)
			c.assumeDef(tGe(cnt, "1"))
			return Sl{Sc{arr, arrSort(SInt, SStr)}, "0", cnt, tFalse, types.Typ[types.String]}, st2
		}
		c.declareFun("split!n", []string{SStr, SStr}, SInt)
		c.declareFun("split!f", []string{SStr, SStr}, arrSort(SInt, SStr))
		sepv, _ := x.eval(n.Args[1], st2)
		sep := sepv.(Sc).T
		cnt := app("split!n", s, sep)
		c.assumeHere(tGe(cnt, "1"))
		return Sl{Sc{app("split!f", s, sep), arrSort(SInt, SStr)}, "0", cnt, tFalse, types.Typ[types.String]}, st2
	})
	reg("(*bufio.Reader).UnreadByte", "steps back one byte if the last operation was a successful ReadByte (else error, no effect)", func(x *Exec, n *ast.CallExpr, recv ast.Expr, st *State) (Val, *State) {
		ov, st1 := x.eval(recv, st)
		o := ov.(Obj)
		c := x.c
		can := o.F["canUnread"].(Sc).T
		no := Obj{o.Kind, map[string]Val{}}
		for k, v := range o.F {
			no.F[k] = v
		}
		no.F["pos"] = scInt(c.define("urpos", SInt, tIte(can, tSub(o.F["pos"].(Sc).T, "1"), o.F["pos"].(Sc).T)))
		no.F["canUnread"] = scBool(tFalse)
		e := c.fresh("urerr", SInt)
		c.assumeHere(tAnd(tImp(can, tEq(e, "0")), tImp(tNot(can), tGt(e, "2"))))
		return scInt(e), x.assignBack(recv, no, st1)
	})
	reg("bufio.NewScanner", "line scanner (ScanLines) over the reader: its line sequence is a function of the reader - the ScanLines split (lnN/lnS/lnT/lnE: lines end at LF or at the end, one CR before the terminator dropped) of the byte sequence the reader delivers, when the reader does not fail", func(x *Exec, n *ast.CallExpr, recv ast.Expr, st *State) (Val, *State) {
		rv, st1 := x.eval(n.Args[0], st)
		c := x.c
		o := Obj{"bufio.Scanner", map[string]Val{}}
		if src, ok := memSource(rv); ok {
			// scanning an in-memory buffer: the lines are the ScanLines split of its content (specs/00base.spec, lnN/lnS/lnT/lnE);
			// the only possible failure is a line longer than the maximum token size (see Buffer)
			out := c.normView(src)
			c.usesStr = true
			for _, f := range []string{"lnN", "lnS", "lnT", "lnE"} {
				c.used[f] = true
			}
			in := out.Arr.(Sc).T
			lines := c.fresh("scn.lines", arrSort(SInt, SStr))
			cnt := app("lnN", in, out.Len)
			c.assumeDef(tForall([][2]string{{"k!l", SInt}}, tImp(tAnd(tLe("0", "k!l"), tLt("k!l", cnt)),
				tEq(app("slen", tSel(lines, "k!l")), tSub(app("lnE", in, out.Len, "k!l"), app("lnS", in, out.Len, "k!l")))), tSel(lines, "k!l")))
			c.assumeDef(tForall([][2]string{{"k!l", SInt}, {"j!l", SInt}}, tImp(tAnd(tLe("0", "k!l"), tLt("k!l", cnt), tLe("0", "j!l"), tLt("j!l", app("slen", tSel(lines, "k!l")))),
				tEq(app("sat", tSel(lines, "k!l"), "j!l"), tSel(in, tAdd(app("lnS", in, out.Len, "k!l"), "j!l")))), app("sat", tSel(lines, "k!l"), "j!l")))
			o.F["id"] = scInt(c.fresh("scnid", SInt))
			o.F["lines"] = Sc{lines, arrSort(SInt, SStr)}
			o.F["n"] = scInt(c.define("scn.n", SInt, cnt))
			o.F["fault"] = scBool(c.fresh("scn.toolong", SBool))
			o.F["err"] = scInt("3")
			o.F["membacked"] = scBool(tTrue)
			o.F["pos"] = scInt("0")
			o.F["cur"] = Sc{"str!empty", SStr}
			o.F["done"] = scBool(tFalse)
			return o, st1
		}
		c.scannerFields(o, "scn", rv.(Obj).F["id"].(Sc))
		o.F["pos"] = scInt("0")
		o.F["cur"] = Sc{"str!empty", SStr}
		o.F["done"] = scBool(tFalse)
		return o, st1
	})
	reg("(*bufio.Scanner).Scan", "advances to the next line: true with the line available, or false at the end (Err nil) or on failure (Err non-nil: I/O error or token too long); stays false afterwards", func(x *Exec, n *ast.CallExpr, recv ast.Expr, st *State) (Val, *State) {
		ov, st1 := x.eval(recv, st)
		o := ov.(Obj)
		c := x.c
		pos, cnt := o.F["pos"].(Sc).T, o.F["n"].(Sc).T
		ok := c.define("scanok", SBool, tAnd(tNot(o.F["done"].(Sc).T), tLt(pos, cnt)))
		no := Obj{o.Kind, map[string]Val{}}
		for k, v := range o.F {
			no.F[k] = v
		}
		no.F["cur"] = Sc{c.define("scancur", SStr, tIte(ok, tSel(o.F["lines"].(Sc).T, pos), "str!empty")), SStr}
		no.F["pos"] = scInt(c.define("scanpos", SInt, tIte(ok, tAdd(pos, "1"), pos)))
		no.F["done"] = scBool(tOr(o.F["done"].(Sc).T, tNot(ok)))
		// views obtained from Bytes() before this Scan are invalidated: their contents become arbitrary
		for obj, v := range st1.vars {
			st1.vars[obj] = invalidateScanViews(c, v)
		}
		return scBool(ok), x.assignBack(recv, no, st1)
	})
	reg("(*bufio.Scanner).Buffer", "sets the maximum token size (the line/fault model of the scanner is a function of the reader; a token-too-long failure is one of the possible faults); with a limit of at least 2^56 the scanner fails only when the reader does", func(x *Exec, n *ast.CallExpr, recv ast.Expr, st *State) (Val, *State) {
		ov, st1 := x.eval(recv, st)
		var vals []Val
		for _, a := range n.Args {
			var v Val
			v, st1 = x.eval(a, st1)
			vals = append(vals, v)
		}
		// an in-memory scanner can only fail with ErrTooLong: impossible once the limit is at least 2^56 (no slice is longer)
		if o, ok := ov.(Obj); ok && o.F["membacked"] != nil && len(vals) == 2 {
			if mx, ok := vals[1].(Sc); ok {
				if k, lit := isIntLit(mx.T); lit && k >= 1<<56 {
					no := Obj{o.Kind, map[string]Val{}}
					for k, v := range o.F {
						no.F[k] = v
					}
					no.F["fault"] = scBool(tFalse)
					return Tup{}, x.assignBack(recv, no, st1)
				}
			}
		}
		// a scanner over any other reader, with the limit lifted the same way, can only fail when the reader itself does
		if o, ok := ov.(Obj); ok && o.F["membacked"] == nil && o.F["id"] != nil && len(vals) == 2 {
			if mx, ok := vals[1].(Sc); ok {
				if k, lit := isIntLit(mx.T); lit && k >= 1<<56 {
					c := x.c
					c.declareFun("rd!fault", []string{SInt}, SBool)
					no := Obj{o.Kind, map[string]Val{}}
					for k, v := range o.F {
						no.F[k] = v
					}
					no.F["fault"] = scBool(tAnd(o.F["fault"].(Sc).T, app("rd!fault", o.F["id"].(Sc).T)))
					return Tup{}, x.assignBack(recv, no, st1)
				}
			}
		}
		return Tup{}, st1
	})
	reg("(*bufio.Scanner).Err", "nil unless scanning stopped on a failure", func(x *Exec, n *ast.CallExpr, recv ast.Expr, st *State) (Val, *State) {
		ov, st1 := x.eval(recv, st)
		o := ov.(Obj)
		atEnd := tAnd(o.F["done"].(Sc).T, tEq(o.F["pos"].(Sc).T, o.F["n"].(Sc).T), o.F["fault"].(Sc).T)
		return scInt(tIte(atEnd, o.F["err"].(Sc).T, errNil)), st1
	})
	reg("(*bufio.Scanner).Bytes", "the current line as a view into the scanner's buffer: its contents are only valid until the next Scan (afterwards arbitrary)", func(x *Exec, n *ast.CallExpr, recv ast.Expr, st *State) (Val, *State) {
		ov, st1 := x.eval(recv, st)
		c := x.c
		cur := ov.(Obj).F["cur"].(Sc).T
		// a fresh array named scanbuf!k equal to the line: slices still referring to it are havocked by the next Scan
		arr := c.fresh("scanbuf", arrSort(SInt, SInt))
		c.usesStr = true
		c.assumeDef(tForall([][2]string{{"i!v", SInt}}, tEq(tSel(arr, "i!v"), app("sat", cur, "i!v")), tSel(arr, "i!v")))
		return Sl{Sc{arr, arrSort(SInt, SInt)}, "0", app("slen", cur), tFalse, types.Typ[types.Uint8]}, st1
	})
	reg("(*bufio.Scanner).Text", "the current line", func(x *Exec, n *ast.CallExpr, recv ast.Expr, st *State) (Val, *State) {
		ov, st1 := x.eval(recv, st)
		return ov.(Obj).F["cur"], st1
	})
	reg("slices.Clone", "fresh slice with equal contents (nil stays nil)", func(x *Exec, n *ast.CallExpr, recv ast.Expr, st *State) (Val, *State) {
		v, st1 := x.eval(n.Args[0], st)
		s, ok := v.(Sl)
		if !ok {
			return v, st1
		}
		c := x.c
		cp := c.freshLike("clone", s).(Sl)
		cp.Off, cp.Len, cp.Nil = "0", s.Len, s.Nil
		zipLeaves(cp.Arr, s.Arr, func(nn, o string) {
			c.assumeDef(tForall([][2]string{{"i!a", SInt}}, tEq(tSel(nn, "i!a"), tSel(o, tAdd("i!a", s.Off))), tSel(nn, "i!a")))
		})
		return cp, st1
	})
	reg("bytes.HasPrefix", "whether s begins with prefix", func(x *Exec, n *ast.CallExpr, recv ast.Expr, st *State) (Val, *State) {
		sv, st1 := x.eval(n.Args[0], st)
		pv, st2 := x.eval(n.Args[1], st1)
		s, p := sv.(Sl), pv.(Sl)
		// prefix is a short constant in this code base: expand when its length is literal
		if ln, ok := isIntLit(p.Len); ok && ln <= 8 {
			cs := []string{tGe(s.Len, p.Len)}
			for i := int64(0); i < ln; i++ {
				cs = append(cs, tEq(vSelect(s.Arr, tAdd(s.Off, tInt(i))).(Sc).T, vSelect(p.Arr, tAdd(p.Off, tInt(i))).(Sc).T))
			}
			return scBool(tAnd(cs...)), st2
		}
		panic(unsupported("bytes.HasPrefix with non-constant prefix"))
	})
	reg("strings.HasPrefix", "whether s begins with prefix", func(x *Exec, n *ast.CallExpr, recv ast.Expr, st *State) (Val, *State) {
		sv, st1 := x.eval(n.Args[0], st)
		if cv, ok := x.constOf(n.Args[1]); ok {
			p := constant.StringVal(cv)
			s := sv.(Sc).T
			cs := []string{tGe(app("slen", s), tInt(int64(len(p))))}
			for i := 0; i < len(p); i++ {
				cs = append(cs, tEq(app("sat", s, tInt(int64(i))), tInt(int64(p[i]))))
			}
			return scBool(tAnd(cs...)), st1
		}
		panic(unsupported("strings.HasPrefix with non-constant prefix"))
	})
	reg("slices.Clip", "the same slice with its capacity reduced to its length: shares the backing array", func(x *Exec, n *ast.CallExpr, recv ast.Expr, st *State) (Val, *State) {
		sv, st1 := x.eval(n.Args[0], st)
		return sv, st1
	})
	reg("strings.HasSuffix", "whether s ends with suffix", func(x *Exec, n *ast.CallExpr, recv ast.Expr, st *State) (Val, *State) {
		sv, st1 := x.eval(n.Args[0], st)
		if cv, ok := x.constOf(n.Args[1]); ok {
			p := constant.StringVal(cv)
			s := sv.(Sc).T
			cs := []string{tGe(app("slen", s), tInt(int64(len(p))))}
			for i := 0; i < len(p); i++ {
				cs = append(cs, tEq(app("sat", s, tAdd(tSub(app("slen", s), tInt(int64(len(p)))), tInt(int64(i)))), tInt(int64(p[i]))))
			}
			return scBool(tAnd(cs...)), st1
		}
		panic(unsupported("strings.HasSuffix with non-constant suffix"))
	})
	reg("github.com/fluhus/gostuff/aio.Open", "opens the path: error for an unopenable path, else a reader over the (decompressed by suffix) file bytes; the reader is a function of the path", func(x *Exec, n *ast.CallExpr, recv ast.Expr, st *State) (Val, *State) {
		pv, st1 := x.eval(n.Args[0], st)
		c := x.c
		p := pv.(Sc).T
		o := openedObj(c, p)
		fails := app("aio!fails", p)
		e := c.fresh("openerr", SInt)
		c.assumeHere(tAnd(tImp(fails, ioErr(e)), tImp(tNot(fails), tEq(e, "0"))))
		return Tup{[]Val{o, scInt(e)}}, st1
	})
	reg("strconv.Itoa", "itoa: the decimal rendering of an int (what %v / %d print); inverse of Atoi", func(x *Exec, n *ast.CallExpr, recv ast.Expr, st *State) (Val, *State) {
		v, st1 := x.eval(n.Args[0], st)
		c := x.c
		c.used["itoa"] = true
		c.usesStr = true
		return Sc{app("itoa", v.(Sc).T), SStr}, st1
	})
	reg("strconv.Atoi", "atoi: parses a decimal integer; error (non-nil, value 0) iff !atoiOK(s); inverse of Itoa", func(x *Exec, n *ast.CallExpr, recv ast.Expr, st *State) (Val, *State) {
		sv, st1 := x.eval(n.Args[0], st)
		c := x.c
		c.used["atoi"] = true
		c.used["atoiOK"] = true
		s := sv.(Sc).T
		ok := app("atoiOK", s)
		e := c.fresh("atoierr", SInt)
		c.assumeHere(tAnd(tImp(ok, tEq(e, "0")), tImp(tNot(ok), localErr(e))))
		// on failure the value is 0 for syntax errors but the clamped extreme for range errors: unspecified here
		v := c.fresh("atoiv", SInt)
		c.assumeHere(tAnd(tImp(ok, tEq(v, app("atoi", s))), tLe("(- 9223372036854775808)", v), tLe(v, "9223372036854775807")))
		return Tup{[]Val{scInt(v), scInt(e)}}, st1
	})
}

// Error values are integers: 0 nil, 1 io.EOF, 2 io.ErrUnexpectedEOF; errors
// created locally (fmt.Errorf, strconv) are even numbers >= 4, I/O errors of
// streams and writers are odd numbers >= 3 - so the two can never be confused.
func localErr(e string) string { return tAnd(tGe(e, "4"), tEq(app("mod", e, "2"), "0")) }
func ioErr(e string) string    { return tAnd(tGe(e, "3"), tEq(app("mod", e, "2"), "1")) }

// parseExtern registers a string->value parser as an uninterpreted partial function.
func parseExtern(name, doc, okFn, valFn, valSort string) {
	reg(name, doc, func(x *Exec, n *ast.CallExpr, recv ast.Expr, st *State) (Val, *State) {
		sv, st1 := x.eval(n.Args[0], st)
		for _, a := range n.Args[1:] {
			_, st1 = x.eval(a, st1)
		}
		c := x.c
		c.usesStr = true
		if c.eng.specs.funcs[okFn] != nil {
			// specified in specs/*.spec (with axioms)
			c.used[okFn] = true
			c.used[valFn] = true
		} else {
			c.declareFun(okFn, []string{SStr}, SBool)
			c.declareFun(valFn, []string{SStr}, valSort)
		}
		s := sv.(Sc).T
		ok := app(okFn, s)
		e := c.fresh("perr", SInt)
		c.assumeHere(tAnd(tImp(ok, tEq(e, "0")), tImp(tNot(ok), localErr(e))))
		v := c.fresh("pval", valSort)
		c.assumeHere(tImp(ok, tEq(v, app(valFn, s))))
		return Tup{[]Val{Sc{v, valSort}, scInt(e)}}, st1
	})
}

// objAppend appends a byte sequence to an object's `out`.
func (x *Exec) objAppend(o Obj, seq Sl) Obj {
	out := o.F["out"].(Sl)
	no := Obj{o.Kind, map[string]Val{}}
	for k, v := range o.F {
		no.F[k] = v
	}
	no.F["out"] = x.appendSeq(out, seq, "out")
	return no
}

// strAsSeq views a Str as a byte sequence.
func (x *Exec) strAsSeq(s string) Sl {
	c := x.c
	key := "asseq:" + s
	if n, ok := c.strLits[key]; ok {
		return Sl{Sc{n, arrSort(SInt, SInt)}, "0", app("slen", s), tFalse, types.Typ[types.Uint8]}
	}
	arr := c.fresh("sbytes", arrSort(SInt, SInt))
	c.strLits[key] = arr
	c.usesStr = true
	c.assumeDef(tForall([][2]string{{"i!v", SInt}}, tEq(tSel(arr, "i!v"), app("sat", s, "i!v")), tSel(arr, "i!v")))
	return Sl{Sc{arr, arrSort(SInt, SInt)}, "0", app("slen", s), tFalse, types.Typ[types.Uint8]}
}

// fprintf models fmt.Fprintf/Fprint/Fprintln on a writer object.
func (x *Exec) fprintf(n *ast.CallExpr, st *State, mode string) (Val, *State) {
	c := x.c
	wv, st1 := x.eval(n.Args[0], st)
	st = st1
	w, ok := wv.(Obj)
	if !ok {
		panic(unsupported("Fprintf to %T", wv))
	}
	// pieces of the rendering
	var pieces []Sl
	lit := func(s string) {
		if s != "" {
			pieces = append(pieces, x.strAsSeq(c.strLit(s)))
		}
	}
	render := func(a ast.Expr, verb byte) {
		v, s := x.eval(a, st)
		st = s
		t := x.typeOf(a)
		k, _ := classify(t)
		switch {
		case k == kSlice && verb == 's' && isByteSlice(t):
			// %s of a []byte prints the bytes (%v would print the decimal list "[97 98]": not modelled, falls to the default)
			pieces = append(pieces, v.(Sl))
		case k == kStr && (verb == 's' || verb == 'v'):
			pieces = append(pieces, x.strAsSeq(v.(Sc).T))
		case k == kInt && (verb == 'd' || verb == 'v'):
			c.used["itoa"] = true
			pieces = append(pieces, x.strAsSeq(app("itoa", v.(Sc).T)))
		case k == kReal && verb == 'v':
			c.used["ftoa"] = true
			pieces = append(pieces, x.strAsSeq(app("ftoa", v.(Sc).T)))
		default:
			// unknown rendering: some bytes
			c.notes = append(c.notes, fmt.Sprintf("rendering of %%%c for %s abstracted to arbitrary bytes", verb, typeName(t)))
			pieces = append(pieces, c.freshSeq("rendered"))
		}
	}
	renderFormat := func(f string) {
		argi := 2
		cur := ""
		for i := 0; i < len(f); i++ {
			if f[i] != '%' {
				cur += string(f[i])
				continue
			}
			i++
			if i < len(f) && f[i] == '%' {
				cur += "%"
				continue
			}
			lit(cur)
			cur = ""
			if i >= len(f) || argi >= len(n.Args) {
				c.notes = append(c.notes, "Fprintf format with a missing operand: rendering abstracted to arbitrary bytes at "+c.posOf(n))
				pieces = append(pieces, c.freshSeq("rendered"))
				continue
			}
			render(n.Args[argi], f[i])
			argi++
		}
		lit(cur)
	}
	var altFull *Sl
	switch mode {
	case "printf":
		cv, isConst := x.constOf(n.Args[1])
		if !isConst {
			// a format held in a local variable that is only ever assigned constant strings
			// (bed.go: txt := "%v"; if i > 0 { txt = ",%v" }): one rendering per candidate, selected by the variable's value
			fv, s := x.eval(n.Args[1], st)
			st = s
			cands := x.constStringAssignments(n.Args[1])
			if fs, ok := fv.(Sc); ok && fs.S == SStr && len(cands) > 0 && len(cands) <= 4 {
				out := w.F["out"].(Sl)
				res := c.freshSeq("fmtout")
				for _, cand := range cands {
					pieces = nil
					renderFormat(cand)
					full := x.concatAt(out, pieces)
					c.assumeDef(tImp(tEq(fs.T, c.strLit(cand)), tAnd(tEq(res.Len, full.Len),
						tForall([][2]string{{"i!w", SInt}}, tImp(tAnd(tLe("0", "i!w"), tLt("i!w", full.Len)),
							tEq(tSel(res.Arr.(Sc).T, "i!w"), tSel(full.Arr.(Sc).T, tAdd(full.Off, "i!w")))), tSel(res.Arr.(Sc).T, "i!w")))))
				}
				c.assumeDef(tGe(res.Len, out.Len))
				c.assumeDef(tForall([][2]string{{"i!w", SInt}}, tImp(tAnd(tLe("0", "i!w"), tLt("i!w", out.Len)),
					tEq(tSel(res.Arr.(Sc).T, "i!w"), tSel(out.Arr.(Sc).T, tAdd(out.Off, "i!w")))), tSel(res.Arr.(Sc).T, "i!w")))
				pieces = nil
				altFull = &res
				break
			}
			for _, a := range n.Args[2:] {
				_, st = x.eval(a, st)
			}
			c.notes = append(c.notes, "Fprintf with non-constant format: rendering abstracted to arbitrary bytes at "+c.posOf(n))
			pieces = append(pieces, c.freshSeq("rendered"))
			break
		}
		renderFormat(constant.StringVal(cv))
	case "print", "println":
		for i, a := range n.Args[1:] {
			if mode == "println" && i > 0 {
				lit(" ")
			}
			render(a, 'v')
		}
		if mode == "println" {
			lit("\n")
		}
	}
	// total rendering: one fresh sequence described piece by piece at absolute offsets (a chain of pairwise
	// appends costs the solver one quantifier instantiation per piece for every byte it looks at)
	out := w.F["out"].(Sl)
	full := x.concatAt(out, pieces)
	if altFull != nil {
		full = *altFull
	}
	no := Obj{w.Kind, map[string]Val{}}
	for k, v := range w.F {
		no.F[k] = v
	}
	var errT string
	if w.Kind == "io.Writer" {
		// nondeterministic failure: a prefix of the rendering is appended
		fail := c.fresh("wfail", SBool)
		part := c.freshSeq("partial")
		c.assumeDef(tAnd(tLe(out.Len, part.Len), tLe(part.Len, full.Len)))
		c.assumeDef(tForall([][2]string{{"i!w", SInt}}, tImp(tAnd(tLe("0", "i!w"), tLt("i!w", part.Len)),
			tEq(tSel(part.Arr.(Sc).T, "i!w"), tSel(full.Arr.(Sc).T, tAdd(full.Off, "i!w")))), tSel(part.Arr.(Sc).T, "i!w")))
		res := c.freshSeq("wout")
		c.assumeDef(tImp(fail, tAnd(tEq(res.Len, part.Len), tEq(res.Arr.(Sc).T, part.Arr.(Sc).T))))
		c.assumeDef(tImp(tNot(fail), tAnd(tEq(res.Len, full.Len),
			tForall([][2]string{{"i!w", SInt}}, tImp(tAnd(tLe("0", "i!w"), tLt("i!w", full.Len)),
				tEq(tSel(res.Arr.(Sc).T, "i!w"), tSel(full.Arr.(Sc).T, tAdd(full.Off, "i!w")))), tSel(res.Arr.(Sc).T, "i!w")))))
		// shortcut (implied by the facts above): whatever happens, the old output is a prefix of the new one
		c.assumeDef(tGe(res.Len, out.Len))
		c.assumeDef(tForall([][2]string{{"i!w", SInt}}, tImp(tAnd(tLe("0", "i!w"), tLt("i!w", out.Len)),
			tEq(tSel(res.Arr.(Sc).T, "i!w"), tSel(out.Arr.(Sc).T, tAdd(out.Off, "i!w")))), tSel(res.Arr.(Sc).T, "i!w")))
		no.F["out"] = res
		no.F["failed"] = scBool(tOr(w.F["failed"].(Sc).T, fail))
		e := c.fresh("werr", SInt)
		c.assumeDef(tAnd(tImp(fail, ioErr(e)), tImp(tNot(fail), tEq(e, "0"))))
		errT = e
	} else {
		no.F["out"] = full
		errT = errNil
	}
	st = x.assignBack(n.Args[0], no, st)
	cnt := c.fresh("wn", SInt)
	return Tup{[]Val{scInt(cnt), scInt(errT)}}, st
}

// constStringAssignments: if e is a local variable all of whose assignments in the
// enclosing function are constant strings, those constants (else nil).
func (x *Exec) constStringAssignments(e ast.Expr) []string {
	id, ok := ast.Unparen(e).(*ast.Ident)
	if !ok || x.body == nil {
		return nil
	}
	obj := x.info.Uses[id]
	if obj == nil || obj.Parent() == nil || obj.Parent() == obj.Pkg().Scope() {
		return nil
	}
	var out []string
	seen := map[string]bool{}
	bad := false
	add := func(rhs ast.Expr) {
		cv, ok := x.constOf(rhs)
		if !ok || cv.Kind() != constant.String {
			bad = true
			return
		}
		if v := constant.StringVal(cv); !seen[v] {
			seen[v] = true
			out = append(out, v)
		}
	}
	ast.Inspect(x.body, func(nn ast.Node) bool {
		switch n := nn.(type) {
		case *ast.AssignStmt:
			for i, l := range n.Lhs {
				li, ok := ast.Unparen(l).(*ast.Ident)
				if !ok {
					continue
				}
				lo := x.info.Defs[li]
				if lo == nil {
					lo = x.info.Uses[li]
				}
				if lo != obj {
					continue
				}
				if len(n.Rhs) != len(n.Lhs) || (n.Tok != token.ASSIGN && n.Tok != token.DEFINE) {
					bad = true
					continue
				}
				add(n.Rhs[i])
			}
		case *ast.ValueSpec:
			for i, nm := range n.Names {
				if x.info.Defs[nm] == obj {
					if i < len(n.Values) {
						add(n.Values[i])
					} else {
						out = append(out, "")
					}
				}
			}
		case *ast.UnaryExpr:
			if n.Op == token.AND {
				if ai, ok := ast.Unparen(n.X).(*ast.Ident); ok && x.info.Uses[ai] == obj {
					bad = true
				}
			}
		case *ast.RangeStmt:
			for _, kv := range []ast.Expr{n.Key, n.Value} {
				if ki, ok := kv.(*ast.Ident); ok && kv != nil {
					if x.info.Defs[ki] == obj || x.info.Uses[ki] == obj {
						bad = true
					}
				}
			}
		}
		return true
	})
	if bad {
		return nil
	}
	return out
}

func externList(used map[string]bool) []string {
	var out []string
	for k := range used {
		d := externDocs[k]
		if d == "" {
			out = append(out, k)
		} else {
			out = append(out, k+": "+d)
		}
	}
	sort.Strings(out)
	return out
}

var _ = strings.Join

// pureClosure evaluates a side-effect free function literal whose body is a
// single return statement, with the given argument values (which may be bound
// variables of a quantifier). Safety obligations inside it are not emitted:
// the callers (sort.Search, sort.Slice) only apply it to in-range indices.
func (x *Exec) pureClosure(fl *ast.FuncLit, args []Val, st *State) Val {
	if len(fl.Body.List) != 1 {
		panic(unsupported("closure passed to an extern is not a single return"))
	}
	rs, ok := fl.Body.List[0].(*ast.ReturnStmt)
	if !ok || len(rs.Results) != 1 {
		panic(unsupported("closure passed to an extern is not a single return"))
	}
	sub := st.clone()
	k := 0
	for _, f := range fl.Type.Params.List {
		for _, nm := range f.Names {
			if obj := x.info.Defs[nm]; obj != nil {
				sub.vars[obj] = args[k]
			}
			k++
		}
	}
	c := x.c
	nObl, nFacts := len(c.obls), len(c.facts)
	savedCounts := map[string]int{}
	for kk, v := range c.counts {
		savedCounts[kk] = v
	}
	var v Val
	if pv, ok := x.pureCallTerm(rs.Results[0], sub); ok {
		v = pv
	} else {
		v, _ = x.eval(rs.Results[0], sub)
	}
	// drop obligations and their assumed consequences generated under the bound variables
	c.obls = c.obls[:nObl]
	c.facts = c.facts[:nFacts]
	c.counts = savedCounts
	c.notes = append(c.notes, "closure body evaluated as a pure expression (index obligations inside it are discharged by the extern's own range guarantee): "+c.posOf(fl))
	return v
}

// permWitness introduces a permutation of [0,n) and its inverse as total
// bijections on the integers (the identity outside the range would do): the
// inverse laws are unconditional, so that the terms perm[inv[perm[..]]] an
// instantiation creates fall into existing equivalence classes and e-matching
// terminates.
func permWitness(c *Ctx, n string) (string, string) {
	perm := c.fresh("perm", arrSort(SInt, SInt))
	inv := c.fresh("perminv", arrSort(SInt, SInt))
	in := func(t string) string { return tAnd(tLe("0", t), tLt(t, n)) }
	c.assumeHere(tForall([][2]string{{"i!p", SInt}}, tAnd(tEq(tSel(inv, tSel(perm, "i!p")), "i!p"), tEq(in("i!p"), in(tSel(perm, "i!p")))), tSel(perm, "i!p")))
	c.assumeHere(tForall([][2]string{{"i!p", SInt}}, tAnd(tEq(tSel(perm, tSel(inv, "i!p")), "i!p"), tEq(in("i!p"), in(tSel(inv, "i!p")))), tSel(inv, "i!p")))
	return perm, inv
}

// pureCallTerm evaluates a call of a contract-less helper of the module whose
// body is a chain of `if c { return e }` statements followed by `return e` as
// one conditional term over the argument values. Ordinary inlining merges the
// return paths through fresh constants, which cannot stand under the
// quantifier of a closure argument (sort.Slice's less).
func (x *Exec) pureCallTerm(e ast.Expr, st *State) (Val, bool) {
	n, ok := ast.Unparen(e).(*ast.CallExpr)
	if !ok {
		return nil, false
	}
	id, ok := ast.Unparen(n.Fun).(*ast.Ident)
	if !ok {
		return nil, false
	}
	callee, _ := x.info.Uses[id].(*types.Func)
	if callee == nil {
		return nil, false
	}
	c := x.c
	qn := c.eng.qualName(callee)
	if c.eng.contracts[qn] != nil {
		return nil, false
	}
	fd := c.eng.funcDecl(callee)
	if fd == nil || fd.Body == nil {
		return nil, false
	}
	sig := callee.Type().(*types.Signature)
	if sig.Recv() != nil || sig.Results().Len() != 1 || sig.Variadic() || len(n.Args) != sig.Params().Len() {
		return nil, false
	}
	// shape check first: nothing is evaluated unless the whole body fits
	var shape func(list []ast.Stmt) bool
	shape = func(list []ast.Stmt) bool {
		if len(list) == 0 {
			return false
		}
		switch s := list[0].(type) {
		case *ast.ReturnStmt:
			return len(s.Results) == 1 && len(list) == 1
		case *ast.IfStmt:
			if s.Init != nil || s.Else != nil || len(s.Body.List) != 1 {
				return false
			}
			r, ok := s.Body.List[0].(*ast.ReturnStmt)
			return ok && len(r.Results) == 1 && shape(list[1:])
		}
		return false
	}
	if !shape(fd.Body.List) {
		return nil, false
	}
	args, st2 := x.evalArgs(n, sig, st)
	if st2 == nil {
		return nil, false
	}
	calleePkg := c.eng.pkgOf(callee)
	c.inlined[qn] = true
	sub := &Exec{c: c, pkg: calleePkg, info: calleePkg.info, contract: nil, sig: sig, loopOrd: new(int), depth: x.depth + 1, entry: x.entry}
	bst := st2.clone()
	for i := 0; i < sig.Params().Len(); i++ {
		bst.vars[sig.Params().At(i)] = args[i]
	}
	var fold func(list []ast.Stmt) (Sc, bool)
	fold = func(list []ast.Stmt) (Sc, bool) {
		switch s := list[0].(type) {
		case *ast.ReturnStmt:
			v, _ := sub.eval(s.Results[0], bst)
			sc, ok := v.(Sc)
			return sc, ok
		case *ast.IfStmt:
			cv, _ := sub.eval(s.Cond, bst)
			tv, _ := sub.eval(s.Body.List[0].(*ast.ReturnStmt).Results[0], bst)
			rest, ok := fold(list[1:])
			csc, ok1 := cv.(Sc)
			tsc, ok2 := tv.(Sc)
			if !ok || !ok1 || !ok2 {
				return Sc{}, false
			}
			return Sc{tIte(csc.T, tsc.T, rest.T), rest.S}, true
		}
		return Sc{}, false
	}
	r, ok := fold(fd.Body.List)
	if !ok {
		return nil, false
	}
	return r, true
}

// invalidateScanViews replaces the array of every slice that still refers to a
// scanner buffer view (scanbuf!k) by a fresh, unconstrained array.
func invalidateScanViews(c *Ctx, v Val) Val {
	switch x := v.(type) {
	case Sl:
		if a, ok := x.Arr.(Sc); ok && strings.Contains(a.T, "scanbuf!") {
			na := c.fresh("stale", a.S)
			c.facts = append(c.facts, tForall([][2]string{{"i!b", SInt}}, tAnd(tLe("0", tSel(na, "i!b")), tLe(tSel(na, "i!b"), "255")), tSel(na, "i!b")))
			return Sl{Sc{na, a.S}, x.Off, x.Len, x.Nil, x.Elem}
		}
		return x
	case St:
		nf := make([]Val, len(x.F))
		for i := range x.F {
			nf[i] = invalidateScanViews(c, x.F[i])
		}
		return St{nf, x.T}
	case Pt:
		return Pt{x.Nil, invalidateScanViews(c, x.Elem), x.T}
	}
	return v
}

func isByteSlice(t types.Type) bool {
	sl, ok := types.Unalias(t).Underlying().(*types.Slice)
	if !ok {
		return false
	}
	b, ok := sl.Elem().Underlying().(*types.Basic)
	return ok && b.Kind() == types.Uint8
}

// concatAt: the sequence out ++ p0 ++ p1 ++ ... as ONE fresh sequence whose bytes are given per piece at absolute offsets.
func (x *Exec) concatAt(out Sl, pieces []Sl) Sl {
	if len(pieces) == 0 {
		return out
	}
	if len(pieces) == 1 {
		return x.appendSeq(out, pieces[0], "out")
	}
	c := x.c
	res := c.freshSeq("out")
	ra := res.Arr.(Sc).T
	iv := [][2]string{{"i!c", SInt}}
	c.assumeDef(tForall(iv, tImp(tAnd(tLe("0", "i!c"), tLt("i!c", out.Len)),
		tEq(tSel(ra, "i!c"), tSel(out.Arr.(Sc).T, tAdd(out.Off, "i!c")))), tSel(ra, "i!c")))
	off := out.Len
	for k, p := range pieces {
		end := c.define(fmt.Sprintf("out.off%d", k+1), SInt, tAdd(off, p.Len))
		c.assumeDef(tForall(iv, tImp(tAnd(tLe(off, "i!c"), tLt("i!c", end)),
			tEq(tSel(ra, "i!c"), tSel(p.Arr.(Sc).T, tAdd(p.Off, tSub("i!c", off))))), tSel(ra, "i!c")))
		off = end
	}
	c.assumeDef(tEq(res.Len, off))
	return res
}

// memSource: the byte sequence behind a reader that is an in-memory buffer (a *bytes.Buffer, or one passed as io.Reader).
func memSource(v Val) (Sl, bool) {
	o, ok := v.(Obj)
	if !ok {
		return Sl{}, false
	}
	if o.Kind == "bytes.Buffer" {
		return o.F["out"].(Sl), true
	}
	if mb, ok := o.F["membuf"].(Sl); ok {
		return mb, true
	}
	return Sl{}, false
}
