package main

import (
	"fmt"
	"go/token"
	"go/types"
	"strconv"
	"strings"
)

// SpecEnv evaluates spec expressions against a symbolic state.
type SpecEnv struct {
	x        *Exec
	st       *State         // current state
	old      *State         // entry state (for old(...)); nil => st
	names    map[string]Val // explicit bindings (params at call sites, bound variables, result)
	oldNames map[string]Val // bindings visible inside old(...)
	res      Val            // result value (Tup) when evaluating ensures
	pos      token.Pos      // scope position for resolving locals
	lets     map[string]SExpr
	inOld    bool
	bound    map[string]Sc
}

func (x *Exec) specEnv(st *State, pos token.Pos) *SpecEnv {
	return &SpecEnv{x: x, st: st, old: x.entry, pos: pos, lets: x.lets, names: map[string]Val{}}
}

func (e *SpecEnv) c() *Ctx { return e.x.c }

func (e *SpecEnv) fail(f string, a ...interface{}) {
	panic(specFailure{fmt.Sprintf(f, a...)})
}

type specFailure struct{ msg string }

func (e *SpecEnv) evalBool(x SExpr) string {
	v := e.eval(x)
	s, ok := v.(Sc)
	if !ok || (s.S != SBool) {
		e.fail("expected a boolean spec expression, got %T %v", v, v)
	}
	return s.T
}

func (e *SpecEnv) evalInt(x SExpr) string {
	v := e.eval(x)
	s, ok := v.(Sc)
	if !ok {
		e.fail("expected an integer spec expression")
	}
	return s.T
}

func (e *SpecEnv) curState() *State {
	if e.inOld && e.old != nil {
		return e.old
	}
	return e.st
}

func specSort(ty string) string {
	switch ty {
	case "int", "ref", "byte":
		return SInt
	case "bool":
		return SBool
	case "real", "float64":
		return SReal
	case "str", "string":
		return SStr
	case "arr":
		return arrSort(SInt, SInt)
	case "barr":
		return arrSort(SInt, SBool)
	case "rarr":
		return arrSort(SInt, SReal)
	case "sarr":
		return arrSort(SInt, SStr)
	case "dyn":
		return SDyn
	case "arr2":
		return arrSort(SInt, arrSort(SInt, SInt))
	case "barr2":
		return arrSort(SInt, arrSort(SInt, SBool))
	case "sbmap": // key set of a map[string]T
		return arrSort(SStr, SBool)
	case "sdmap": // values of a map[string]any
		return arrSort(SStr, SDyn)
	}
	panic(specFailure{"unknown spec type " + ty})
}

func (e *SpecEnv) lookup(name string) (Val, bool) {
	if b, ok := e.bound[name]; ok {
		return b, true
	}
	if e.inOld && e.oldNames != nil {
		if v, ok := e.oldNames[name]; ok {
			return v, true
		}
	}
	if v, ok := e.names[name]; ok {
		return v, true
	}
	st := e.curState()
	if g, ok := st.ghost[name]; ok {
		return g, true
	}
	if name == "alloc" && e.x != nil && e.x.entry != nil {
		// the allocation bound (every live heap reference is <= alloc): created on first use, as allocRef does
		if g, ok := e.x.entry.ghost["alloc"]; ok {
			return g, true
		}
		c := e.c()
		top := c.fresh("alloc0", SInt)
		c.assumeDef(tGe(top, "0"))
		e.x.entry.ghost["alloc"] = scInt(top)
		st.ghost["alloc"] = scInt(top)
		return scInt(top), true
	}
	x := e.x
	if x == nil || x.pkg == nil {
		return nil, false
	}
	// resolve in Go scope at pos
	var obj types.Object
	if e.pos.IsValid() {
		if sc := x.pkg.types.Scope().Innermost(e.pos); sc != nil {
			_, obj = sc.LookupParent(name, e.pos)
		}
	}
	if obj == nil {
		obj = x.pkg.types.Scope().Lookup(name)
	}
	if obj == nil {
		return nil, false
	}
	switch o := obj.(type) {
	case *types.Var:
		if v, ok := st.vars[o]; ok {
			return v, true
		}
		if o.Parent() == o.Pkg().Scope() {
			return x.globalVal(o, st), true
		}
		// a local not yet defined on this path: in old(), try entry
		if e.old != nil {
			if v, ok := e.old.vars[o]; ok {
				return v, true
			}
		}
		return nil, false
	case *types.Const:
		return x.constVal(o.Val(), o.Type()), true
	}
	return nil, false
}

func (e *SpecEnv) eval(x SExpr) Val {
	switch n := x.(type) {
	case *SLit:
		switch n.Kind {
		case "int":
			if e.c().bv {
				u, err := strconv.ParseUint(n.Val, 10, 64)
				if err != nil {
					i, _ := strconv.ParseInt(n.Val, 10, 64)
					u = uint64(i)
				}
				return Sc{fmt.Sprintf("(_ bv%d 64)", u), SBV}
			}
			if strings.HasPrefix(n.Val, "-") {
				return scInt("(- " + n.Val[1:] + ")")
			}
			return scInt(n.Val)
		case "real":
			return Sc{n.Val, SReal}
		case "bool":
			return scBool(n.Val)
		case "string":
			return Sc{e.c().strLit(n.Val), SStr}
		case "nil":
			return nil
		}
	case *SIdent:
		if n.Name == "result" && e.res != nil {
			if t, ok := e.res.(Tup); ok && len(t.E) == 1 {
				return t.E[0]
			}
			return e.res
		}
		if le, ok := e.lets[n.Name]; ok {
			return e.eval(le)
		}
		v, ok := e.lookup(n.Name)
		if !ok {
			if sf := e.c().eng.specs.funcs[n.Name]; sf != nil && len(sf.Params) == 0 {
				return e.callSpec(sf, nil)
			}
			e.fail("unknown name %q in contract", n.Name)
		}
		return v
	case *SUn:
		switch n.Op {
		case "!":
			return scBool(tNot(e.evalBool(n.X)))
		case "-":
			v := e.eval(n.X).(Sc)
			if v.S == SReal {
				return Sc{app("-", v.T), SReal}
			}
			if v.S == SBV {
				return Sc{app("bvneg", v.T), SBV}
			}
			return scInt(tSub("0", v.T))
		case "^":
			v := e.eval(n.X).(Sc)
			if v.S == SBV {
				return Sc{app("bvnot", v.T), SBV}
			}
			e.fail("^ outside bv mode")
		case "*":
			v := e.eval(n.X)
			if p, ok := v.(Pt); ok {
				return p.Elem
			}
			e.fail("dereference of non-pointer in contract")
		}
	case *SBin:
		return e.evalBin(n)
	case *STern:
		c := e.evalBool(n.C)
		a, b := e.eval(n.A), e.eval(n.B)
		as, aok := a.(Sc)
		bs, bok := b.(Sc)
		if aok && bok {
			if as.S == SReal || bs.S == SReal {
				return Sc{tIte(c, toReal(as), toReal(bs)), SReal}
			}
			return Sc{tIte(c, as.T, bs.T), as.S}
		}
		return vIte(c, a, b)
	case *SQuant:
		saved := e.bound
		nb := map[string]Sc{}
		for k, v := range saved {
			nb[k] = v
		}
		var vars [][2]string
		for _, v := range n.Vars {
			s := specSort(v[1])
			if e.c().bv && s == SInt {
				s = SBV
			}
			name := "q!" + v[0]
			nb[v[0]] = Sc{name, s}
			vars = append(vars, [2]string{name, s})
		}
		e.bound = nb
		body := e.evalBool(n.Body)
		var pats []string
		for _, p := range n.Pats {
			pv := e.eval(p)
			pats = append(pats, pv.(Sc).T)
		}
		allPats := []string{strings.Join(pats, " ")}
		for _, grp := range n.AltPats {
			var ps []string
			for _, p := range grp {
				ps = append(ps, e.eval(p).(Sc).T)
			}
			allPats = append(allPats, strings.Join(ps, " "))
		}
		e.bound = saved
		if n.Forall {
			if len(pats) > 0 {
				return scBool(tForall(vars, body, allPats...))
			}
			return scBool(tForall(vars, body))
		}
		return scBool(tExists(vars, body))
	case *SIndex:
		base := e.eval(n.X)
		idx := e.eval(n.I)
		return e.index(base, idx)
	case *SSlice:
		base := e.eval(n.X)
		lo := "0"
		if n.Lo != nil {
			lo = e.evalInt(n.Lo)
		}
		switch b := base.(type) {
		case Sl:
			hi := b.Len
			if n.Hi != nil {
				hi = e.evalInt(n.Hi)
			}
			return Sl{b.Arr, tAdd(b.Off, lo), tSub(hi, lo), b.Nil, b.Elem}
		case Sc:
			if b.S == SStr {
				hi := app("slen", b.T)
				if n.Hi != nil {
					hi = e.evalInt(n.Hi)
				}
				return Sc{e.x.substr(b.T, lo, hi), SStr}
			}
		}
		e.fail("slice of unsupported value in contract")
	case *SField:
		base := e.eval(n.X)
		return e.field(base, n.Name, n)
	case *SCall:
		return e.call(n)
	}
	e.fail("unsupported spec expression %T", x)
	return nil
}

func (e *SpecEnv) index(base, idx Val) Val {
	switch b := base.(type) {
	case Sl:
		return vSelect(b.Arr, tAdd(b.Off, idx.(Sc).T))
	case Ar:
		return vSelect(b.Arr, idx.(Sc).T)
	case Mp:
		return vSelect(b.Val, encodeKey(idx))
	case Sc:
		if b.S == SStr {
			return scInt(app("sat", b.T, idx.(Sc).T))
		}
		if _, el, ok := arrParts(b.S); ok {
			return Sc{tSel(b.T, idx.(Sc).T), el}
		}
	case Tup:
		if n, ok := isIntLit(idx.(Sc).T); ok {
			return b.E[n]
		}
	}
	e.fail("cannot index %T in contract", base)
	return nil
}

func (e *SpecEnv) field(base Val, name string, n *SField) Val {
	if k, err := strconv.Atoi(name); err == nil {
		if t, ok := base.(Tup); ok {
			if k >= len(t.E) {
				e.fail("tuple index %d out of range", k)
			}
			return t.E[k]
		}
		e.fail(".%d on non-tuple", k)
	}
	switch b := base.(type) {
	case St:
		for i := 0; i < b.T.NumFields(); i++ {
			if b.T.Field(i).Name() == name {
				return b.F[i]
			}
		}
	case Pt:
		return e.field(b.Elem, name, n)
	case Obj:
		if v, ok := b.F[name]; ok {
			return v
		}
		e.fail("object of kind %s has no ghost field %s", b.Kind, name)
	case Sc:
		// heap reference: need the static type; resolve by searching reference types for the field
		st := e.curState()
		for tn := range refTypes {
			stt := e.c().eng.structOfOpt(tn)
			if stt == nil {
				continue
			}
			for i := 0; i < stt.NumFields(); i++ {
				if stt.Field(i).Name() == name {
					if e.x.pkg != nil && !strings.HasPrefix(tn, e.x.pkg.path+".") {
						continue
					}
					return vSelect(e.x.heapField(st, tn+"."+name), b.T)
				}
			}
		}
	}
	e.fail("cannot select field %s of %T", name, base)
	return nil
}

// heapKeyOf resolves x.f (x a heap reference of the current package) to the key of the heap component behind f.
func (e *SpecEnv) heapKeyOf(n *SField) (string, bool) {
	for tn := range refTypes {
		stt := e.c().eng.structOfOpt(tn)
		if stt == nil {
			continue
		}
		for i := 0; i < stt.NumFields(); i++ {
			if stt.Field(i).Name() == n.Name {
				if e.x.pkg != nil && !strings.HasPrefix(tn, e.x.pkg.path+".") {
					continue
				}
				return tn + "." + n.Name, true
			}
		}
	}
	return "", false
}

func (e *SpecEnv) evalBin(n *SBin) Val {
	switch n.Op {
	case "&&":
		return scBool(tAnd(e.evalBool(n.X), e.evalBool(n.Y)))
	case "||":
		return scBool(tOr(e.evalBool(n.X), e.evalBool(n.Y)))
	case "==>":
		return scBool(tImp(e.evalBool(n.X), e.evalBool(n.Y)))
	case "<==>":
		return scBool(tEq(e.evalBool(n.X), e.evalBool(n.Y)))
	case "==", "!=":
		l, r := e.eval(n.X), e.eval(n.Y)
		eq := e.specEq(l, r)
		if n.Op == "!=" {
			eq = tNot(eq)
		}
		return scBool(eq)
	}
	l, lok := e.eval(n.X).(Sc)
	r, rok := e.eval(n.Y).(Sc)
	if !lok || !rok {
		e.fail("operator %s on non-scalar values", n.Op)
	}
	if l.S == SBV || r.S == SBV {
		m := map[string]string{"+": "bvadd", "-": "bvsub", "*": "bvmul", "&": "bvand", "|": "bvor", "^": "bvxor", "<<": "bvshl", ">>": "bvashr"}
		switch n.Op {
		case "<":
			return scBool(app("bvslt", l.T, r.T))
		case "<=":
			return scBool(app("bvsle", l.T, r.T))
		case ">":
			return scBool(app("bvsgt", l.T, r.T))
		case ">=":
			return scBool(app("bvsge", l.T, r.T))
		case "&^":
			return Sc{app("bvand", l.T, app("bvnot", r.T)), SBV}
		}
		if o, ok := m[n.Op]; ok {
			return Sc{app(o, l.T, r.T), SBV}
		}
		e.fail("operator %s in bv mode", n.Op)
	}
	if l.S == SReal || r.S == SReal {
		a, b := toReal(l), toReal(r)
		switch n.Op {
		case "<", "<=", ">", ">=":
			return scBool(app(n.Op, a, b))
		case "+", "-", "*", "/":
			return Sc{app(n.Op, a, b), SReal}
		}
		e.fail("operator %s on reals", n.Op)
	}
	switch n.Op {
	case "<", "<=", ">", ">=":
		return scBool(app(n.Op, l.T, r.T))
	case "+":
		return scInt(tAdd(l.T, r.T))
	case "-":
		return scInt(tSub(l.T, r.T))
	case "*":
		return scInt(tMul(l.T, r.T))
	case "/":
		return scInt(app("div", l.T, r.T)) // spec-level division is Euclidean (operands non-negative in all contracts)
	case "%":
		return scInt(app("mod", l.T, r.T))
	}
	e.fail("operator %s", n.Op)
	return nil
}

func (e *SpecEnv) specEq(l, r Val) string {
	if l == nil && r == nil {
		return tTrue
	}
	if l == nil {
		return e.x.isNil(r)
	}
	if r == nil {
		return e.x.isNil(l)
	}
	ls, lok := l.(Sc)
	rs, rok := r.(Sc)
	if lok && rok {
		if ls.S == SReal || rs.S == SReal {
			return tEq(toReal(ls), toReal(rs))
		}
		if ls.S == SStr {
			return e.x.strEq(ls.T, rs.T)
		}
		return tEq(ls.T, rs.T)
	}
	switch a := l.(type) {
	case Ar:
		b := r.(Ar)
		var cs []string
		for i := int64(0); i < a.N; i++ {
			cs = append(cs, e.specEq(vSelect(a.Arr, tInt(i)), vSelect(b.Arr, tInt(i))))
		}
		return tAnd(cs...)
	case Sl:
		// content equality of slices
		b, ok := r.(Sl)
		if !ok {
			e.fail("== between slice and %T", r)
		}
		return e.seqEq(a, b)
	case St:
		b := r.(St)
		var cs []string
		for i := range a.F {
			cs = append(cs, e.specEq(a.F[i], b.F[i]))
		}
		return tAnd(cs...)
	case Tup:
		b := r.(Tup)
		var cs []string
		for i := range a.E {
			cs = append(cs, e.specEq(a.E[i], b.E[i]))
		}
		return tAnd(cs...)
	case Pt:
		b := r.(Pt)
		return tAnd(tEq(a.Nil, b.Nil), tImp(tNot(a.Nil), e.specEq(a.Elem, b.Elem)))
	}
	e.fail("== on %T", l)
	return ""
}

var seqEqCounter int

// seqEq: same length and same elements (elementwise specEq).
func (e *SpecEnv) seqEq(a, b Sl) string {
	seqEqCounter++
	j := fmt.Sprintf("q!e%d", seqEqCounter)
	ea := vSelect(a.Arr, tAdd(a.Off, j))
	eb := vSelect(b.Arr, tAdd(b.Off, j))
	return tAnd(tEq(a.Len, b.Len),
		tForall([][2]string{{j, SInt}}, tImp(tAnd(tLe("0", j), tLt(j, a.Len)), e.specEq(ea, eb))))
}

func (e *SpecEnv) call(n *SCall) Val {
	switch n.Fn {
	case "old":
		saved := e.inOld
		e.inOld = true
		v := e.eval(n.Args[0])
		e.inOld = saved
		return v
	case "len":
		v := e.eval(n.Args[0])
		switch b := v.(type) {
		case Sl:
			return scInt(b.Len)
		case Ar:
			return scInt(tInt(b.N))
		case Mp:
			return scInt(b.Len)
		case Sc:
			if b.S == SStr {
				return scInt(app("slen", b.T))
			}
		}
		e.fail("len of %T", v)
	case "has":
		m := e.eval(n.Args[0]).(Mp)
		return scBool(tSel(m.Has, encodeKey(e.eval(n.Args[1]))))
	case "isnil":
		return scBool(e.x.isNil(e.eval(n.Args[0])))
	case "real":
		return Sc{toReal(e.eval(n.Args[0]).(Sc)), SReal}
	case "arr":
		// the raw SMT array of a slice with offset 0 (or a shifted copy)
		return e.rawArr(e.eval(n.Args[0]))
	case "key2":
		a, b := e.evalInt(n.Args[0]), e.evalInt(n.Args[1])
		return scInt(app("key!2", a, b))
	case "key3":
		a, b, c := e.evalInt(n.Args[0]), e.evalInt(n.Args[1]), e.evalInt(n.Args[2])
		return scInt(app("key!3", a, b, c))
	case "heaphas", "heapval":
		// heaphas(x.f) / heapval(x.f) for a map-typed field f of a heap object x: the whole heap component behind the field,
		// indexed by object reference first (heaphas(x.f)[y][k] == has(y.f, k), heapval(x.f)[y][k] == y.f[k])
		sel, ok := n.Args[0].(*SField)
		if !ok {
			e.fail("%s: field selection x.f expected", n.Fn)
		}
		key, ok2 := e.heapKeyOf(sel)
		if !ok2 {
			e.fail("%s: not a heap field", n.Fn)
		}
		hv, ok3 := e.x.heapField(e.curState(), key).(Mp)
		if !ok3 {
			e.fail("%s: not a map-typed heap field", n.Fn)
		}
		if n.Fn == "heaphas" {
			return Sc{hv.Has, arrSort(SInt, arrSort(hv.KS, SBool))}
		}
		if vs, ok := hv.Val.(Sc); ok {
			return vs
		}
		e.fail("heapval: map values are not scalars")
	case "readerin", "readerend":
		// the byte sequence the reader r delivers: readerin(r)[0 .. readerend(r))
		o, ok := e.eval(n.Args[0]).(Obj)
		if !ok || o.F["id"] == nil {
			e.fail("%s: reader object expected", n.Fn)
		}
		e.c().declareFun("rd!in", []string{SInt}, arrSort(SInt, SInt))
		e.c().declareFun("rd!end", []string{SInt}, SInt)
		if n.Fn == "readerin" {
			return Sc{app("rd!in", o.F["id"].(Sc).T), arrSort(SInt, SInt)}
		}
		return scInt(app("rd!end", o.F["id"].(Sc).T))
	case "readerfault":
		// whether the reader r fails with a non-EOF error at the end of the bytes it delivers
		o, ok := e.eval(n.Args[0]).(Obj)
		if !ok || o.F["id"] == nil {
			e.fail("readerfault: reader object expected")
		}
		e.c().declareFun("rd!fault", []string{SInt}, SBool)
		return scBool(app("rd!fault", o.F["id"].(Sc).T))
	case "scanlines", "scann", "scanfault":
		// the line sequence / line count / failure flag of a bufio.Scanner over the reader r (functions of the reader)
		o, ok := e.eval(n.Args[0]).(Obj)
		if !ok || o.F["id"] == nil {
			e.fail("%s: reader object expected", n.Fn)
		}
		c := e.c()
		c.scannerFields(Obj{"bufio.Scanner", map[string]Val{}}, "scn", o.F["id"].(Sc))
		id := o.F["id"].(Sc).T
		switch n.Fn {
		case "scanlines":
			return Sc{app("sc!lines", id), arrSort(SInt, SStr)}
		case "scann":
			return scInt(app("sc!n", id))
		}
		return scBool(app("sc!fault", id))
	case "rawarr":
		// rawarr(s): the SMT array behind a slice as it is (element j of the slice is rawarr(s)[offset(s)+j]);
		// unlike arr() it introduces no shifted copy, so it may be used under a quantifier
		sl, ok := e.eval(n.Args[0]).(Sl)
		if !ok {
			e.fail("rawarr: slice expected")
		}
		if _, ok := sl.Arr.(Sc); !ok {
			e.fail("rawarr() of a slice of non-scalars")
		}
		return sl.Arr
	case "offset":
		sl, ok := e.eval(n.Args[0]).(Sl)
		if !ok {
			e.fail("offset: slice expected")
		}
		return scInt(sl.Off)
	case "fieldarr":
		// fieldarr(s, f): the raw SMT array of field f of a slice of structs (offset 0)
		sl, ok := e.eval(n.Args[0]).(Sl)
		if !ok || sl.Off != "0" {
			e.fail("fieldarr: first argument must be a slice with offset 0")
		}
		fid, ok := n.Args[1].(*SIdent)
		st, ok2 := sl.Arr.(St)
		if !ok || !ok2 {
			e.fail("fieldarr: slice of structs and a field name expected")
		}
		for i := 0; i < st.T.NumFields(); i++ {
			if st.T.Field(i).Name() == fid.Name {
				return st.F[i]
			}
		}
		e.fail("fieldarr: no field %s", fid.Name)
	case "mapval":
		return e.eval(n.Args[0]).(Mp).Val
	case "maphas":
		m := e.eval(n.Args[0]).(Mp)
		return Sc{m.Has, arrSort(m.KS, SBool)}
	case "same":
		return scBool(vEqRepr(e.eval(n.Args[0]), e.eval(n.Args[1])))
	case "openFails":
		e.c().declareFun("aio!fails", []string{SStr}, SBool)
		return scBool(app("aio!fails", e.eval(n.Args[0]).(Sc).T))
	case "opened":
		return openedObj(e.c(), e.eval(n.Args[0]).(Sc).T)
	case "items":
		return e.itemsOf(n)
	case "seen":
		s, ok := e.curState().ghost["seen"]
		if !ok {
			e.fail("seen() outside a map-range loop")
		}
		return scBool(tSel(s.(Sc).T, encodeKey(e.eval(n.Args[0]))))
	case "boxbyte", "boxint", "boxfloat", "boxstr", "boxbytes":
		// the interface value holding a byte / int / float64 / string / []byte
		e.c().used["dyn!"] = true
		switch n.Fn {
		case "boxbyte":
			return Sc{app("box!i", "1", e.evalInt(n.Args[0])), SDyn}
		case "boxint":
			return Sc{app("box!i", "2", e.evalInt(n.Args[0])), SDyn}
		case "boxfloat":
			return Sc{app("box!r", "3", toReal(e.eval(n.Args[0]).(Sc))), SDyn}
		case "boxstr":
			e.c().usesStr = true
			return Sc{app("box!s", "4", e.eval(n.Args[0]).(Sc).T), SDyn}
		}
		return Sc{app("box!b", "5", e.rawArr(e.eval(n.Args[0])).(Sc).T, e.evalInt(n.Args[1])), SDyn}
	case "deref":
		// deref(p): the value a (value-mode) pointer points to
		if pt, ok := e.eval(n.Args[0]).(Pt); ok {
			return pt.Elem
		}
		e.fail("deref of a non-pointer")
	case "substr":
		// substr(s, lo, hi) = s[lo:hi]
		e.c().usesStr = true
		e.c().used["str!sub"] = true
		return Sc{app("str!sub", e.eval(n.Args[0]).(Sc).T, e.evalInt(n.Args[1]), e.evalInt(n.Args[2])), SStr}
	case "dynbyte", "dynint", "dynfloat", "dynstr", "dynbytes":
		// dynamic type of an interface value (the five types the repository stores in `any`)
		code := map[string]string{"dynbyte": "1", "dynint": "2", "dynfloat": "3", "dynstr": "4", "dynbytes": "5"}[n.Fn]
		tok := e.eval(n.Args[0]).(Sc).T
		e.c().used["dyn!"] = true
		return scBool(tAnd(tNot(tEq(tok, "dyn!nil")), tEq(app("dyn!ty", tok), code)))
	case "asint", "asreal", "asstr", "asbytes":
		tok := e.eval(n.Args[0]).(Sc).T
		e.c().used["dyn!"] = true
		switch n.Fn {
		case "asint":
			return scInt(app("dyn!i", tok))
		case "asreal":
			return Sc{app("dyn!r", tok), SReal}
		case "asstr":
			e.c().usesStr = true
			return Sc{app("dyn!s", tok), SStr}
		}
		return Sl{Sc{app("dyn!ba", tok), arrSort(SInt, SInt)}, "0", app("dyn!bl", tok), tFalse, types.Typ[types.Uint8]}
	case "min", "max":
		a, b := e.eval(n.Args[0]).(Sc), e.eval(n.Args[1]).(Sc)
		if n.Fn == "min" {
			return Sc{tIte(tLe(a.T, b.T), a.T, b.T), a.S}
		}
		return Sc{tIte(tGe(a.T, b.T), a.T, b.T), a.S}
	}
	sf := e.c().eng.specs.funcs[n.Fn]
	if sf == nil {
		e.fail("unknown spec function %s", n.Fn)
	}
	var args []Val
	for _, a := range n.Args {
		args = append(args, e.eval(a))
	}
	return e.callSpec(sf, args)
}

// rawArr returns an SMT array holding the slice's elements from index 0.
func (e *SpecEnv) rawArr(v Val) Val {
	switch b := v.(type) {
	case Sl:
		arr, ok := b.Arr.(Sc)
		if !ok {
			e.fail("arr() of a slice of non-scalars")
		}
		if b.Off == "0" {
			return arr
		}
		return e.c().normView(b).Arr
	case Ar:
		return b.Arr
	case Sc:
		return b
	}
	e.fail("arr() of %T", v)
	return nil
}

func (e *SpecEnv) callSpec(sf *SpecFunc, args []Val) Val {
	c := e.c()
	if len(args) != len(sf.Params) {
		e.fail("spec function %s expects %d arguments, got %d", sf.Name, len(sf.Params), len(args))
	}
	var ts []string
	for i, a := range args {
		want := specSort(sf.Params[i][1])
		var t string
		switch v := a.(type) {
		case Sc:
			t = v.T
			if want == SReal && v.S != SReal {
				t = toReal(v)
			}
		case Sl, Ar:
			t = e.rawArr(v).(Sc).T
		case nil:
			t = "0"
		default:
			e.fail("argument %d of %s: unsupported value %T", i, sf.Name, a)
		}
		ts = append(ts, t)
	}
	c.used[sf.Name] = true
	ret := specSort(sf.Ret)
	if len(ts) == 0 {
		return Sc{sf.Name, ret}
	}
	return Sc{app(sf.Name, ts...), ret}
}

// openedObj is the reader aio.Open returns for a path: a function of the path.
func openedObj(c *Ctx, p string) Obj {
	c.declareFun("aio!opened", []string{SStr}, SInt)
	c.declareFun("aio!fails", []string{SStr}, SBool)
	return Obj{"io.Reader", map[string]Val{"id": scInt(app("aio!opened", p)), "consumed": scInt("0"), "isnil": scBool(app("aio!fails", p))}}
}

// itemsOf: items(F, args...) is the full (never stopped) trace of iterator
// function F of the current package applied to args.
func (e *SpecEnv) itemsOf(n *SCall) Val {
	id, ok := n.Args[0].(*SIdent)
	if !ok {
		e.fail("items: first argument must name an iterator function")
	}
	pkg := e.x.pkg
	obj := pkg.types.Scope().Lookup(id.Name)
	fn, ok := obj.(*types.Func)
	if !ok {
		e.fail("items: %s is not a function of package %s", id.Name, pkg.name)
	}
	sig := fn.Type().(*types.Signature)
	var args []Val
	for _, a := range n.Args[1:] {
		args = append(args, e.eval(a))
	}
	seqT, ok := sig.Results().At(0).Type().Underlying().(*types.Signature)
	if !ok {
		e.fail("items: %s does not return an iterator", id.Name)
	}
	ysig := seqT.Params().At(0).Type().Underlying().(*types.Signature)
	return e.x.traceOf(e.c().eng.qualName(fn), ysig, args, nil, "Zs")
}

// groundInstances: for a clause of the shape [A ==>] (forall k int :: body) [&& ...], the conjunction of body[k := 0..n-1]
// (a proof-search aid at call sites where the quantified parameter is a literal-length argument list: the instances
// are consequences of the clause, which has been assumed as a whole already).
func (e *SpecEnv) groundInstances(x SExpr, n int) string {
	switch q := x.(type) {
	case *SBin:
		switch q.Op {
		case "==>":
			return tImp(e.evalBool(q.X), e.groundInstances(q.Y, n))
		case "&&":
			return tAnd(e.groundInstances(q.X, n), e.groundInstances(q.Y, n))
		}
	case *SQuant:
		if q.Forall && len(q.Vars) == 1 && specSort(q.Vars[0][1]) == SInt {
			saved := e.bound
			var out []string
			for k := 0; k < n; k++ {
				nb := map[string]Sc{}
				for kk, v := range saved {
					nb[kk] = v
				}
				nb[q.Vars[0][0]] = Sc{tInt(int64(k)), SInt}
				e.bound = nb
				out = append(out, e.evalBool(q.Body))
			}
			e.bound = saved
			return tAnd(out...)
		}
	}
	return tTrue
}
