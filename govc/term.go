package main

import (
	"fmt"
	"strconv"
	"strings"
)

// SMT terms are plain strings (S-expressions). Sorts are strings too.

const (
	SInt  = "Int"
	SBool = "Bool"
	SReal = "Real"
	SStr  = "Str" // uninterpreted sort of immutable Go strings
	SBV   = "(_ BitVec 64)"
	SDyn  = "Dyn" // uninterpreted sort of interface values (any): dyn!nil or a boxed value of some dynamic type
)

func arrSort(idx, elem string) string { return "(Array " + idx + " " + elem + ")" }

// arrElem returns the element sort of an array sort "(Array I E)".
func arrParts(s string) (idx, elem string, ok bool) {
	if !strings.HasPrefix(s, "(Array ") {
		return "", "", false
	}
	body := s[len("(Array ") : len(s)-1]
	// split first sort token
	i := sortEnd(body)
	return body[:i], strings.TrimSpace(body[i:]), true
}

func sortEnd(s string) int {
	if len(s) == 0 {
		return 0
	}
	if s[0] != '(' {
		i := strings.IndexByte(s, ' ')
		if i < 0 {
			return len(s)
		}
		return i
	}
	depth := 0
	for i := 0; i < len(s); i++ {
		switch s[i] {
		case '(':
			depth++
		case ')':
			depth--
			if depth == 0 {
				return i + 1
			}
		}
	}
	return len(s)
}

func app(op string, args ...string) string {
	return "(" + op + " " + strings.Join(args, " ") + ")"
}

const tTrue, tFalse = "true", "false"

func tAnd(args ...string) string {
	var out []string
	for _, a := range args {
		if a == tTrue || a == "" {
			continue
		}
		if a == tFalse {
			return tFalse
		}
		out = append(out, a)
	}
	switch len(out) {
	case 0:
		return tTrue
	case 1:
		return out[0]
	}
	return app("and", out...)
}

func tOr(args ...string) string {
	var out []string
	for _, a := range args {
		if a == tFalse || a == "" {
			continue
		}
		if a == tTrue {
			return tTrue
		}
		out = append(out, a)
	}
	switch len(out) {
	case 0:
		return tFalse
	case 1:
		return out[0]
	}
	return app("or", out...)
}

func tNot(a string) string {
	switch a {
	case tTrue:
		return tFalse
	case tFalse:
		return tTrue
	}
	if strings.HasPrefix(a, "(not ") {
		return a[5 : len(a)-1]
	}
	return app("not", a)
}

func tImp(a, b string) string {
	if a == tTrue {
		return b
	}
	if a == tFalse || b == tTrue {
		return tTrue
	}
	return app("=>", a, b)
}

func tEq(a, b string) string {
	if a == b {
		return tTrue
	}
	return app("=", a, b)
}

func tIte(c, a, b string) string {
	if c == tTrue {
		return a
	}
	if c == tFalse {
		return b
	}
	if a == b {
		return a
	}
	return app("ite", c, a, b)
}

func isIntLit(s string) (int64, bool) {
	if len(s) == 0 {
		return 0, false
	}
	if s[0] == '(' {
		if strings.HasPrefix(s, "(- ") && strings.IndexByte(s[3:], ' ') < 0 {
			n, err := strconv.ParseInt(s[3:len(s)-1], 10, 64)
			if err == nil {
				return -n, true
			}
		}
		return 0, false
	}
	n, err := strconv.ParseInt(s, 10, 64)
	if err != nil {
		return 0, false
	}
	return n, true
}

func tInt(n int64) string {
	if n < 0 {
		if n == -9223372036854775808 {
			return "(- 9223372036854775808)"
		}
		return fmt.Sprintf("(- %d)", -n)
	}
	return strconv.FormatInt(n, 10)
}

func tAdd(a, b string) string {
	x, okx := isIntLit(a)
	y, oky := isIntLit(b)
	if okx && oky && !addOvf(x, y) {
		return tInt(x + y)
	}
	if okx && x == 0 {
		return b
	}
	if oky && y == 0 {
		return a
	}
	return app("+", a, b)
}

func addOvf(x, y int64) bool {
	s := x + y
	return (x > 0 && y > 0 && s < 0) || (x < 0 && y < 0 && s >= 0)
}

func tSub(a, b string) string {
	x, okx := isIntLit(a)
	y, oky := isIntLit(b)
	if okx && oky && y != -9223372036854775808 && !addOvf(x, -y) {
		return tInt(x - y)
	}
	if oky && y == 0 {
		return a
	}
	if a == b {
		return "0"
	}
	return app("-", a, b)
}

func tMul(a, b string) string {
	x, okx := isIntLit(a)
	y, oky := isIntLit(b)
	if okx && oky && x > -(1<<31) && x < 1<<31 && y > -(1<<31) && y < 1<<31 {
		return tInt(x * y)
	}
	if okx && x == 1 {
		return b
	}
	if oky && y == 1 {
		return a
	}
	return app("*", a, b)
}

func tSel(arr, i string) string {
	// select over a store chain with numeral indices folds syntactically
	if n, ok := isIntLit(i); ok {
		cur := arr
		for strings.HasPrefix(cur, "(store ") {
			a, idx, v, ok2 := splitStore(cur)
			if !ok2 {
				break
			}
			m, lit := isIntLit(idx)
			if !lit {
				break
			}
			if m == n {
				return v
			}
			cur = a
		}
		if cur != arr && strings.HasPrefix(cur, "((as const ") {
			arr = cur
		}
	}
	// select of a constant array folds to its element
	if strings.HasPrefix(arr, "((as const ") {
		depth := 0
		for k := 1; k < len(arr); k++ {
			switch arr[k] {
			case '(':
				depth++
			case ')':
				depth--
				if depth == 0 {
					return strings.TrimSpace(arr[k+1 : len(arr)-1])
				}
			}
		}
	}
	return app("select", arr, i)
}
func tSto(arr, i, v string) string { return app("store", arr, i, v) }
func tLe(a, b string) string       { return app("<=", a, b) }
func tLt(a, b string) string       { return app("<", a, b) }
func tGe(a, b string) string       { return app(">=", a, b) }
func tGt(a, b string) string       { return app(">", a, b) }

func tForall(vars [][2]string, body string, pats ...string) string {
	if len(vars) == 0 {
		return body
	}
	var b strings.Builder
	b.WriteString("(forall (")
	for _, v := range vars {
		b.WriteString("(" + v[0] + " " + v[1] + ")")
	}
	b.WriteString(") ")
	if len(pats) > 0 {
		b.WriteString("(! " + body)
		for _, p := range pats {
			b.WriteString(" :pattern (" + p + ")")
		}
		b.WriteString(")")
	} else {
		b.WriteString(body)
	}
	b.WriteString(")")
	return b.String()
}

func tExists(vars [][2]string, body string) string {
	if len(vars) == 0 {
		return body
	}
	var b strings.Builder
	b.WriteString("(exists (")
	for _, v := range vars {
		b.WriteString("(" + v[0] + " " + v[1] + ")")
	}
	b.WriteString(") " + body + ")")
	return b.String()
}

// zeroOf returns the zero-value term of a sort.
func zeroOf(sort string) string {
	switch sort {
	case SInt:
		return "0"
	case SBool:
		return tFalse
	case SReal:
		return "0.0"
	case SStr:
		return "str!empty"
	case SBV:
		return "(_ bv0 64)"
	case SDyn:
		return "dyn!nil"
	}
	if _, e, ok := arrParts(sort); ok {
		return "((as const " + sort + ") " + zeroOf(e) + ")"
	}
	panic("zeroOf: " + sort)
}

// smtSym makes a string safe as an SMT symbol.
func smtSym(s string) string {
	var b strings.Builder
	for _, r := range s {
		switch {
		case r >= 'a' && r <= 'z', r >= 'A' && r <= 'Z', r >= '0' && r <= '9', r == '_', r == '.', r == '!', r == '$', r == '#':
			b.WriteRune(r)
		default:
			b.WriteByte('_')
		}
	}
	return b.String()
}

// splitStore splits "(store A I V)" into its three arguments.
func splitStore(t string) (a, i, v string, ok bool) {
	body := t[len("(store ") : len(t)-1]
	n1 := sortEnd(body)
	if n1 >= len(body) {
		return
	}
	rest := strings.TrimLeft(body[n1:], " ")
	n2 := sortEnd(rest)
	if n2 >= len(rest) {
		return
	}
	return body[:n1], rest[:n2], strings.TrimLeft(rest[n2:], " "), true
}
