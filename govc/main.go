package main

import (
	"encoding/json"
	"flag"
	"fmt"
	"os"
	"path/filepath"
	"sort"
	"strings"
	"time"
)

type OblOut struct {
	Name   string     `json:"name"`
	Kind   string     `json:"kind"`
	Func   string     `json:"func"`
	Props  []string   `json:"props"`
	Pos    string     `json:"pos,omitempty"`
	Text   string     `json:"text,omitempty"`
	Expect string     `json:"expect"`
	Result *OblResult `json:"result"`
	Params []string   `json:"params,omitempty"`
	Sample string     `json:"sample,omitempty"`
}

type Output struct {
	Props     []string      `json:"props"`
	Tier      string        `json:"tier"`
	Functions []*FuncReport `json:"functions"`
	Obls      []OblOut      `json:"obligations"`
	SolverS   float64       `json:"solver_time_s"`
	WallS     float64       `json:"wall_s"`
	Errors    []string      `json:"errors,omitempty"`
}

func main() {
	repo := flag.String("repo", "/repo", "repository root")
	specs := flag.String("specs", "/verif/specs", "spec directory")
	props := flag.String("props", "", "comma-separated property ids (empty = all)")
	only := flag.String("func", "", "only this contract / lemma (substring)")
	tier := flag.String("tier", "quick", "quick|thorough")
	out := flag.String("out", "", "result JSON path")
	dump := flag.String("dump", "", "keep SMT files in this directory")
	timeout := flag.Int("timeout", 0, "per-query timeout in seconds (default 10 quick / 60 thorough)")
	par := flag.Int("par", 8, "obligations solved in parallel")
	verbose := flag.Bool("v", false, "print every obligation")
	ovf := flag.Bool("ovf", true, "emit int64 overflow obligations for + - * on int")
	flag.Parse()
	start := time.Now()
	eng, err := loadEngine(*repo, *specs)
	if err != nil {
		fmt.Fprintln(os.Stderr, "govc: engine error:", err)
		os.Exit(2)
	}
	eng.ovf = *ovf
	if err := eng.renderSpecs(false); err != nil {
		fmt.Fprintln(os.Stderr, "govc: spec error:", err)
		os.Exit(2)
	}
	want := map[string]bool{}
	for _, p := range strings.Split(*props, ",") {
		if p != "" {
			want[p] = true
		}
	}
	sel := func(ps []string) bool {
		if len(want) == 0 {
			return true
		}
		for _, p := range ps {
			if want[p] {
				return true
			}
		}
		return false
	}
	var reports []*FuncReport
	for _, name := range eng.order {
		ct := eng.contracts[name]
		allProps := append([]string{}, ct.Props...)
		for _, en := range ct.Ensures {
			allProps = append(allProps, en.Props...)
		}
		if !sel(allProps) {
			continue
		}
		if *only != "" && !strings.Contains(name, *only) && !strings.Contains(ct.Theorem, *only) {
			continue
		}
		reports = append(reports, eng.verifyContract(ct))
	}
	var gkeys []string
	for k := range eng.globals {
		gkeys = append(gkeys, k)
	}
	sort.Strings(gkeys)
	for _, k := range gkeys {
		gi := eng.globals[k]
		if gi.establishedBy != "initializer" || !sel(gi.props) {
			continue
		}
		if *only != "" && !strings.Contains("global:"+k, *only) {
			continue
		}
		reports = append(reports, eng.verifyGlobalInit(k, gi))
	}
	for _, ln := range eng.specs.lorder {
		lm := eng.specs.lemmas[ln]
		if !sel(lm.Props) {
			continue
		}
		if *only != "" && !strings.Contains("lemma:"+ln, *only) {
			continue
		}
		reports = append(reports, eng.verifyLemma(lm))
	}
	// global "nothing else assigns" checks are part of scanGlobals; report as notes
	var obls []*Oblig
	for _, r := range reports {
		for _, o := range r.obls {
			// per-clause property tags restrict an obligation to those properties
			if len(want) > 0 && !sel(o.Props) {
				continue
			}
			obls = append(obls, o)
		}
	}
	dir := *dump
	if dir == "" {
		base := os.Getenv("VERIF_SCRATCH")
		if base == "" {
			home, _ := os.UserHomeDir()
			base = filepath.Join(home, ".cache", "verif-scratch")
		}
		os.MkdirAll(base, 0o755)
		dir, err = os.MkdirTemp(base, "govc")
		if err != nil {
			fmt.Fprintln(os.Stderr, "govc:", err)
			os.Exit(2)
		}
		defer os.RemoveAll(dir)
	} else {
		os.MkdirAll(dir, 0o755)
	}
	to := *timeout
	if to == 0 {
		to = 10
		if *tier == "thorough" {
			to = 60
		}
	}
	eng.solveAll(obls, dir, to, *par, *dump != "")
	res := Output{Tier: *tier, Functions: reports}
	for p := range want {
		res.Props = append(res.Props, p)
	}
	sort.Strings(res.Props)
	var solverMs int64
	nProved, nFail, nVac, nUnreach := 0, 0, 0, 0
	for i, o := range obls {
		oo := OblOut{Name: o.Name, Kind: o.Kind, Func: o.Func, Props: o.Props, Text: o.Text, Expect: o.Expect, Result: o.Res}
		if o.Pos.IsValid() {
			oo.Pos = fmt.Sprintf("%s:%d", o.Pos.Filename, o.Pos.Line)
		}
		for _, p := range o.Params {
			oo.Params = append(oo.Params, p.Name)
		}
		if i < 3 || o.Res.Status != "proved" {
			g := o.Goal
			if len(g) > 400 {
				g = g[:400] + "..."
			}
			oo.Sample = "(assert (not " + g + "))"
		}
		// attach parameter leaf names so that the driver can rebuild inputs
		res.Obls = append(res.Obls, oo)
		solverMs += o.Res.Ms
		switch o.Res.Status {
		case "proved", "ok":
			nProved++
		case "unreachable":
			nProved++
			nUnreach++
			fmt.Printf("%-9s %-70s %s\n", "UNREACHABLE", o.Name, o.Text+" @"+oo.Pos)
		case "vacuous":
			nVac++
		default:
			nFail++
		}
		if *verbose || (o.Res.Status != "proved" && o.Res.Status != "ok" && o.Res.Status != "unreachable") {
			fmt.Printf("%-9s %-70s %s %dms  %s\n", o.Res.Status, o.Name, o.Res.Solver, o.Res.Ms, o.Text)
		}
	}
	for _, r := range reports {
		if r.Status != "generated" && r.Status != "trusted" {
			fmt.Printf("%-9s %s: %s\n", r.Status, r.Name, r.Reason)
		}
	}
	res.SolverS = float64(solverMs) / 1000
	res.WallS = time.Since(start).Seconds()
	fmt.Printf("govc: %d functions, %d obligations: %d ok (%d soft-unreachable paths), %d failed, %d vacuous; solver %.1fs wall %.1fs\n",
		len(reports), len(obls), nProved, nUnreach, nFail, nVac, res.SolverS, res.WallS)
	if *out != "" {
		// parameter leaves for replay
		type pl struct {
			Name   string   `json:"name"`
			Type   string   `json:"type"`
			Leaves []string `json:"leaves"`
		}
		data, _ := json.MarshalIndent(res, "", " ")
		os.WriteFile(*out, data, 0o644)
	}
}
