package main

import (
	"fmt"
	"os"
	"path/filepath"
	"sort"
	"strings"
)

type SpecFunc struct {
	Name   string
	Params [][2]string
	Ret    string
	Body   SExpr
	Axioms []Clause
	File   string
	Order  int
	Doc    string
	Opaque bool // emitted as an uninterpreted function with a defining axiom triggered on its application
	// rendered
	decl      string
	axioms    []string
	deps      []string
	inductive bool
}

type Lemma struct {
	Name       string
	Params     [][2]string
	Requires   []Clause
	Ensures    []Clause
	Induction  string
	From       string
	Generalize []string
	Attach     []string
	Props      []string
	Pattern    []SExpr
	Uses       []string
	Splits     []Clause
	File       string
	Order      int
}

type SpecDB struct {
	funcs  map[string]*SpecFunc
	lemmas map[string]*Lemma
	order  []string
	lorder []string
}

func loadSpecs(dir string) (*SpecDB, error) {
	db := &SpecDB{funcs: map[string]*SpecFunc{}, lemmas: map[string]*Lemma{}}
	files, _ := filepath.Glob(filepath.Join(dir, "*.spec"))
	sort.Strings(files)
	for _, f := range files {
		data, err := os.ReadFile(f)
		if err != nil {
			return nil, err
		}
		if err := db.parseFile(filepath.Base(f), string(data)); err != nil {
			return nil, err
		}
	}
	return db, nil
}

func parseParams(s string) ([][2]string, error) {
	s = strings.TrimSpace(s)
	if s == "" {
		return nil, nil
	}
	var out [][2]string
	var pendingNames []string
	for _, part := range strings.Split(s, ",") {
		fs := strings.Fields(part)
		switch len(fs) {
		case 1:
			pendingNames = append(pendingNames, fs[0])
		case 2:
			for _, n := range pendingNames {
				out = append(out, [2]string{n, fs[1]})
			}
			pendingNames = nil
			out = append(out, [2]string{fs[0], fs[1]})
		default:
			return nil, fmt.Errorf("bad parameter %q", part)
		}
	}
	if len(pendingNames) > 0 {
		return nil, fmt.Errorf("parameter without type: %v", pendingNames)
	}
	return out, nil
}

func (db *SpecDB) parseFile(fname, src string) error {
	// group lines into items: an item starts at column 0
	type item struct {
		lines []string
		line  int
	}
	var items []item
	for i, ln := range strings.Split(src, "\n") {
		if j := strings.Index(ln, "#"); j >= 0 && (j == 0 || !strings.Contains(ln[:j], "'")) {
			// '#' starts a comment unless inside a char literal on that line
			ln = ln[:j]
		}
		if strings.TrimSpace(ln) == "" {
			continue
		}
		if ln[0] != ' ' && ln[0] != '\t' {
			items = append(items, item{[]string{ln}, i + 1})
		} else if len(items) > 0 {
			items[len(items)-1].lines = append(items[len(items)-1].lines, ln)
		}
	}
	var lastFunc *SpecFunc
	for _, it := range items {
		where := fmt.Sprintf("%s:%d", fname, it.line)
		head := it.lines[0]
		switch {
		case strings.HasPrefix(head, "pure func "), strings.HasPrefix(head, "opaque func "):
			full := strings.Join(it.lines, " ")
			opaque := strings.HasPrefix(head, "opaque func ")
			rest := strings.TrimPrefix(strings.TrimPrefix(full, "pure func "), "opaque func ")
			op := strings.Index(rest, "(")
			cp := matchParen(rest, op)
			if op < 0 || cp < 0 {
				return fmt.Errorf("%s: bad pure func header", where)
			}
			name := strings.TrimSpace(rest[:op])
			params, err := parseParams(rest[op+1 : cp])
			if err != nil {
				return fmt.Errorf("%s: %v", where, err)
			}
			after := strings.TrimSpace(rest[cp+1:])
			ret := after
			body := ""
			if i := strings.Index(after, "="); i >= 0 && !strings.HasPrefix(after[i:], "==") {
				ret = strings.TrimSpace(after[:i])
				body = strings.TrimSpace(after[i+1:])
			}
			sf := &SpecFunc{Name: name, Params: params, Ret: ret, File: where, Order: len(db.order), Opaque: opaque}
			if body != "" {
				ex, err := parseSpec(body)
				if err != nil {
					return fmt.Errorf("%s: %v", where, err)
				}
				sf.Body = ex
			}
			db.funcs[name] = sf
			db.order = append(db.order, name)
			lastFunc = sf
		case strings.HasPrefix(head, "axiom "):
			full := strings.Join(it.lines, " ")
			rest := strings.TrimPrefix(full, "axiom ")
			target := lastFunc
			if strings.HasPrefix(rest, "[") {
				// axiom [f] expr : attach to f
				j := strings.Index(rest, "]")
				target = db.funcs[strings.TrimSpace(rest[1:j])]
				rest = strings.TrimSpace(rest[j+1:])
			}
			if target == nil {
				return fmt.Errorf("%s: axiom without a spec function", where)
			}
			ex, err := parseSpec(rest)
			if err != nil {
				return fmt.Errorf("%s: %v", where, err)
			}
			target.Axioms = append(target.Axioms, Clause{Text: rest, E: ex, Line: where})
		case strings.HasPrefix(head, "lemma "):
			rest := strings.TrimPrefix(head, "lemma ")
			op := strings.Index(rest, "(")
			cp := matchParen(rest, op)
			if op < 0 || cp < 0 {
				return fmt.Errorf("%s: bad lemma header", where)
			}
			params, err := parseParams(rest[op+1 : cp])
			if err != nil {
				return fmt.Errorf("%s: %v", where, err)
			}
			lm := &Lemma{Name: strings.TrimSpace(rest[:op]), Params: params, File: where, Order: len(db.lorder)}
			// sub-clauses
			var cls []rawClause
			for _, ln := range it.lines[1:] {
				t := strings.TrimSpace(ln)
				first, r := t, ""
				if i := strings.IndexAny(t, " \t"); i >= 0 {
					first, r = t[:i], strings.TrimSpace(t[i+1:])
				}
				switch first {
				case "requires", "ensures", "induction", "attach", "props", "generalize", "pattern", "uses", "split":
					cls = append(cls, rawClause{kw: first, text: r})
				default:
					if len(cls) == 0 {
						return fmt.Errorf("%s: bad lemma clause %q", where, t)
					}
					cls[len(cls)-1].text += " " + t
				}
			}
			for _, rc := range cls {
				switch rc.kw {
				case "requires", "ensures":
					ex, err := parseSpec(rc.text)
					if err != nil {
						return fmt.Errorf("%s: %v", where, err)
					}
					cl := Clause{Text: rc.text, E: ex, Line: where}
					if rc.kw == "requires" {
						lm.Requires = append(lm.Requires, cl)
					} else {
						lm.Ensures = append(lm.Ensures, cl)
					}
				case "split":
					ex, err := parseSpec(rc.text)
					if err != nil {
						return fmt.Errorf("%s: %v", where, err)
					}
					lm.Splits = append(lm.Splits, Clause{Text: rc.text, E: ex, Line: where})
				case "pattern":
					ex, err := parseSpec(rc.text)
					if err != nil {
						return fmt.Errorf("%s: %v", where, err)
					}
					lm.Pattern = append(lm.Pattern, ex)
				case "induction":
					fs := strings.Fields(rc.text)
					lm.Induction = fs[0]
					lm.From = "0"
					if len(fs) >= 3 && fs[1] == "from" {
						lm.From = fs[2]
					}
				case "attach":
					lm.Attach = append(lm.Attach, strings.Fields(strings.ReplaceAll(rc.text, ",", " "))...)
				case "uses":
					lm.Uses = append(lm.Uses, strings.Fields(strings.ReplaceAll(rc.text, ",", " "))...)
				case "generalize":
					lm.Generalize = append(lm.Generalize, strings.Fields(strings.ReplaceAll(rc.text, ",", " "))...)
				case "props":
					lm.Props = strings.Fields(strings.ReplaceAll(rc.text, ",", " "))
				}
			}
			db.lemmas[lm.Name] = lm
			db.lorder = append(db.lorder, lm.Name)
		default:
			return fmt.Errorf("%s: unknown spec item %q", where, head)
		}
	}
	return nil
}

func matchParen(s string, open int) int {
	if open < 0 {
		return -1
	}
	d := 0
	for i := open; i < len(s); i++ {
		switch s[i] {
		case '(':
			d++
		case ')':
			d--
			if d == 0 {
				return i
			}
		}
	}
	return -1
}

// render produces SMT text for every spec function (once), with dependencies.
func (e *Engine) renderSpecs(bv bool) error {
	db := e.specs
	for _, name := range db.order {
		sf := db.funcs[name]
		c := newCtx(e, nil, "spec:"+name, nil)
		c.bv = false
		x := &Exec{c: c, loopOrd: new(int)}
		env := &SpecEnv{x: x, st: &State{vars: nil, heap: map[string]Val{}, ghost: map[string]Val{}, pc: tTrue}, names: map[string]Val{}}
		var sorts, ps []string
		bound := map[string]Sc{}
		for _, p := range sf.Params {
			s := specSort(p[1])
			sorts = append(sorts, s)
			ps = append(ps, fmt.Sprintf("(%s %s)", "p!"+p[0], s))
			bound[p[0]] = Sc{"p!" + p[0], s}
		}
		env.bound = bound
		var err error
		func() {
			defer func() {
				if r := recover(); r != nil {
					switch f := r.(type) {
					case specFailure:
						err = fmt.Errorf("%s: %s", sf.File, f.msg)
					case unsupportedErr:
						err = fmt.Errorf("%s: %s", sf.File, f.msg)
					default:
						panic(r)
					}
				}
			}()
			ret := specSort(sf.Ret)
			if sf.Body != nil {
				// recursive?
				c.used = map[string]bool{}
				bv := env.eval(sf.Body)
				body := bv.(Sc).T
				if bv.(Sc).S != ret && ret == SReal {
					body = toReal(bv.(Sc))
				}
				if c.used[name] || sf.Opaque {
					sf.inductive = true
					sf.decl = fmt.Sprintf("(declare-fun %s (%s) %s)", name, strings.Join(sorts, " "), ret)
					var vars [][2]string
					var args []string
					for _, p := range sf.Params {
						vars = append(vars, [2]string{"p!" + p[0], specSort(p[1])})
						args = append(args, "p!"+p[0])
					}
					// not stated as "f(args) = body": z3 would take that for a macro, eliminate f and with it every
					// trigger that mentions f (lemmas attached to f, hypotheses about f)
					lhs := app(name, args...)
					var def string
					switch ret {
					case SBool:
						def = tAnd(tImp(lhs, body), tImp(body, lhs))
					case SInt, SReal:
						def = tAnd(tLe(lhs, body), tGe(lhs, body))
					default:
						def = tEq(lhs, body)
					}
					sf.axioms = append(sf.axioms, tForall(vars, def, lhs))
				} else {
					sf.decl = fmt.Sprintf("(define-fun %s (%s) %s %s)", name, strings.Join(ps, " "), ret, body)
				}
			} else {
				if len(sorts) == 0 {
					sf.decl = fmt.Sprintf("(declare-const %s %s)", name, ret)
				} else {
					sf.decl = fmt.Sprintf("(declare-fun %s (%s) %s)", name, strings.Join(sorts, " "), ret)
				}
			}
			env.bound = nil
			for _, ax := range sf.Axioms {
				sf.axioms = append(sf.axioms, env.evalBool(ax.E))
			}
		}()
		if err != nil {
			return err
		}
		delete(c.used, name)
		sf.deps = sortedKeys(c.used)
		if len(c.facts) > 0 || len(c.decls) > 0 {
			// string literals etc. used inside spec bodies are not supported
			return fmt.Errorf("%s: spec function body needs auxiliary declarations (string literals?) - not supported", sf.File)
		}
	}
	return nil
}

// specClosure returns the transitive closure of used spec functions in
// declaration order, plus attached lemmas that are enabled.
func (e *Engine) specClosure(used map[string]bool) []*SpecFunc {
	seen := map[string]bool{}
	var visit func(n string)
	visit = func(n string) {
		if seen[n] {
			return
		}
		sf := e.specs.funcs[n]
		if sf == nil {
			return
		}
		seen[n] = true
		for _, d := range sf.deps {
			visit(d)
		}
	}
	for n := range used {
		visit(n)
	}
	var out []*SpecFunc
	for _, n := range e.specs.order {
		if seen[n] {
			out = append(out, e.specs.funcs[n])
		}
	}
	return out
}
