package main

import (
	"fmt"
	"go/types"
	"sort"
	"strings"
)

// Symbolic values. Leaves are SMT terms (strings). A value may be "lifted":
// every leaf is then an SMT array from the lift index sorts to the base sort.

type Val interface{}

type Sc struct{ T, S string } // scalar term with (base or lifted) sort

// Sl is a Go slice: a view (Arr, Off, Len) plus nil-ness. Arr is the lifted
// element shape indexed by Int.
type Sl struct {
	Arr           Val
	Off, Len, Nil string
	Elem          types.Type
}

// Ar is a fixed-size Go array value.
type Ar struct {
	Arr  Val
	N    int64
	Elem types.Type
}

type St struct {
	F []Val
	T *types.Struct
}

// Pt is a pointer handled in value mode (no aliasing): nil flag + pointee.
type Pt struct {
	Nil  string
	Elem Val
	T    types.Type // pointee type
}

// Mp is a Go map: presence array, value arrays, cardinality.
type Mp struct {
	Has  string
	Val  Val
	Len  string
	K, V types.Type
	KS   string // SMT sort of the (encoded) key
	Nil  string // nil map
}

// Obj is an external object known only through ghost fields.
type Obj struct {
	Kind string
	F    map[string]Val
}

// Fn is a function value the engine knows how to call.
type Fn struct {
	Kind string // "yield", "closure"
	Sig  *types.Signature
	Data interface{}
}

type Tup struct{ E []Val }

func sc(t, s string) Sc  { return Sc{t, s} }
func scInt(t string) Sc  { return Sc{t, SInt} }
func scBool(t string) Sc { return Sc{t, SBool} }

// liftSort wraps base in arrays for the lift stack (outermost first).
func liftSort(base string, lift []string) string {
	s := base
	for i := len(lift) - 1; i >= 0; i-- {
		s = arrSort(lift[i], s)
	}
	return s
}

// mapVal applies f to every leaf term.
func mapVal(v Val, f func(t string) string) Val {
	switch x := v.(type) {
	case Sc:
		return Sc{f(x.T), x.S}
	case Sl:
		return Sl{mapVal(x.Arr, f), f(x.Off), f(x.Len), f(x.Nil), x.Elem}
	case Ar:
		return Ar{mapVal(x.Arr, f), x.N, x.Elem}
	case St:
		nf := make([]Val, len(x.F))
		for i := range x.F {
			nf[i] = mapVal(x.F[i], f)
		}
		return St{nf, x.T}
	case Pt:
		return Pt{f(x.Nil), mapVal(x.Elem, f), x.T}
	case Mp:
		return Mp{f(x.Has), mapVal(x.Val, f), f(x.Len), x.K, x.V, x.KS, f(x.Nil)}
	case Tup:
		ne := make([]Val, len(x.E))
		for i := range x.E {
			ne[i] = mapVal(x.E[i], f)
		}
		return Tup{ne}
	case Obj:
		nf := map[string]Val{}
		for k, fv := range x.F {
			nf[k] = mapVal(fv, f)
		}
		return Obj{x.Kind, nf}
	case Fn:
		return x
	case nil:
		return nil
	}
	panic(fmt.Sprintf("mapVal: %T", v))
}

// zipVal applies f leafwise to two values of the same shape.
func zipVal(a, b Val, f func(x, y string) string) Val {
	switch x := a.(type) {
	case Sc:
		y := b.(Sc)
		return Sc{f(x.T, y.T), x.S}
	case Sl:
		y := b.(Sl)
		return Sl{zipVal(x.Arr, y.Arr, f), f(x.Off, y.Off), f(x.Len, y.Len), f(x.Nil, y.Nil), x.Elem}
	case Ar:
		y := b.(Ar)
		return Ar{zipVal(x.Arr, y.Arr, f), x.N, x.Elem}
	case St:
		y := b.(St)
		nf := make([]Val, len(x.F))
		for i := range x.F {
			nf[i] = zipVal(x.F[i], y.F[i], f)
		}
		return St{nf, x.T}
	case Pt:
		y := b.(Pt)
		return Pt{f(x.Nil, y.Nil), zipVal(x.Elem, y.Elem, f), x.T}
	case Mp:
		y := b.(Mp)
		return Mp{f(x.Has, y.Has), zipVal(x.Val, y.Val, f), f(x.Len, y.Len), x.K, x.V, x.KS, f(x.Nil, y.Nil)}
	case Tup:
		y := b.(Tup)
		ne := make([]Val, len(x.E))
		for i := range x.E {
			ne[i] = zipVal(x.E[i], y.E[i], f)
		}
		return Tup{ne}
	case Obj:
		y := b.(Obj)
		nf := map[string]Val{}
		for k, fv := range x.F {
			if yv, ok := y.F[k]; ok {
				nf[k] = zipVal(fv, yv, f)
			}
		}
		return Obj{x.Kind, nf}
	case Fn:
		return x
	case nil:
		return nil
	}
	panic(fmt.Sprintf("zipVal: %T", a))
}

// leaves lists the leaf terms in a deterministic order.
func leaves(v Val) []string {
	var out []string
	var rec func(v Val)
	rec = func(v Val) {
		switch x := v.(type) {
		case Sc:
			out = append(out, x.T)
		case Sl:
			rec(x.Arr)
			out = append(out, x.Off, x.Len, x.Nil)
		case Ar:
			rec(x.Arr)
		case St:
			for _, f := range x.F {
				rec(f)
			}
		case Pt:
			out = append(out, x.Nil)
			rec(x.Elem)
		case Mp:
			out = append(out, x.Has)
			rec(x.Val)
			out = append(out, x.Len, x.Nil)
		case Tup:
			for _, e := range x.E {
				rec(e)
			}
		case Obj:
			keys := make([]string, 0, len(x.F))
			for k := range x.F {
				keys = append(keys, k)
			}
			sort.Strings(keys)
			for _, k := range keys {
				rec(x.F[k])
			}
		case Fn, nil:
		default:
			panic(fmt.Sprintf("leaves: %T", v))
		}
	}
	rec(v)
	return out
}

func sameVal(a, b Val) bool {
	la, lb := leaves(a), leaves(b)
	if len(la) != len(lb) {
		return false
	}
	for i := range la {
		if la[i] != lb[i] {
			return false
		}
	}
	return true
}

func vSelect(lifted Val, idx string) Val {
	r := mapVal(lifted, func(t string) string { return tSel(t, idx) })
	return unliftSorts(r)
}

func vStore(lifted Val, idx string, v Val) Val {
	return zipVal(lifted, relift(v, lifted), func(a, x string) string { return tSto(a, idx, x) })
}

// relift gives v the sort annotations of like (only Sc.S matters).
func relift(v, like Val) Val {
	switch x := v.(type) {
	case Sc:
		return Sc{x.T, like.(Sc).S}
	case Sl:
		y := like.(Sl)
		return Sl{relift(x.Arr, y.Arr), x.Off, x.Len, x.Nil, x.Elem}
	case Ar:
		return Ar{relift(x.Arr, like.(Ar).Arr), x.N, x.Elem}
	case St:
		y := like.(St)
		nf := make([]Val, len(x.F))
		for i := range x.F {
			nf[i] = relift(x.F[i], y.F[i])
		}
		return St{nf, x.T}
	case Pt:
		return Pt{x.Nil, relift(x.Elem, like.(Pt).Elem), x.T}
	case Mp:
		return Mp{x.Has, relift(x.Val, like.(Mp).Val), x.Len, x.K, x.V, x.KS, x.Nil}
	case Tup:
		y := like.(Tup)
		ne := make([]Val, len(x.E))
		for i := range x.E {
			ne[i] = relift(x.E[i], y.E[i])
		}
		return Tup{ne}
	}
	return v
}

// unliftSorts strips one array level from every Sc sort annotation.
func unliftSorts(v Val) Val {
	switch x := v.(type) {
	case Sc:
		if _, e, ok := arrParts(x.S); ok {
			return Sc{x.T, e}
		}
		return x
	case Sl:
		return Sl{unliftSorts(x.Arr), x.Off, x.Len, x.Nil, x.Elem}
	case Ar:
		return Ar{unliftSorts(x.Arr), x.N, x.Elem}
	case St:
		nf := make([]Val, len(x.F))
		for i := range x.F {
			nf[i] = unliftSorts(x.F[i])
		}
		return St{nf, x.T}
	case Pt:
		return Pt{x.Nil, unliftSorts(x.Elem), x.T}
	case Mp:
		return Mp{x.Has, unliftSorts(x.Val), x.Len, x.K, x.V, x.KS, x.Nil}
	case Tup:
		ne := make([]Val, len(x.E))
		for i := range x.E {
			ne[i] = unliftSorts(x.E[i])
		}
		return Tup{ne}
	}
	return v
}

func vIte(c string, a, b Val) Val {
	return zipVal(a, b, func(x, y string) string { return tIte(c, x, y) })
}

// vEqRepr: equality of representations (leafwise).
func vEqRepr(a, b Val) string {
	la, lb := leaves(a), leaves(b)
	if len(la) != len(lb) {
		panic("vEqRepr: shape mismatch")
	}
	var cs []string
	for i := range la {
		cs = append(cs, tEq(la[i], lb[i]))
	}
	return tAnd(cs...)
}

// ---- type classification ----

type tyKind int

const (
	kInt tyKind = iota
	kBool
	kReal
	kStr
	kErr
	kAny
	kSlice
	kArray
	kStruct
	kPtr
	kRef
	kMap
	kObj
	kFunc
	kTuple
)

// refTypes are struct types whose pointers are modelled as heap references.
var refTypes = map[string]bool{
	"github.com/fluhus/biostuff/formats/newick.Node": true,
	"github.com/fluhus/biostuff/trie.Trie":           true,
	"github.com/fluhus/biostuff/trie.forEachStep":    true,
}

// objTypes are external types modelled as ghost objects.
var objTypes = map[string]string{
	"bufio.Reader":        "bufio.Reader",
	"bufio.Scanner":       "bufio.Scanner",
	"bytes.Buffer":        "bytes.Buffer",
	"strings.Builder":     "strings.Builder",
	"encoding/csv.Reader": "csv.Reader",
	"io.Writer":           "io.Writer",
	"io.Reader":           "io.Reader",
	"io.ReadCloser":       "io.Reader",
	"regexp.Regexp":       "regexp.Regexp",
	"github.com/fluhus/gostuff/minhash.MinHash[uint64]": "minhash.MinHash",
	"github.com/fluhus/gostuff/minhash.MinHash[T]":      "minhash.MinHash",
	"hash.Hash64":                          "hash.Hash64",
	"github.com/fluhus/gostuff/aio.Reader": "io.Reader",
}

func typeName(t types.Type) string {
	return types.TypeString(t, nil)
}

func classify(t types.Type) (tyKind, string) {
	if n, ok := t.(*types.Named); ok || isAlias(t) {
		_ = n
		name := typeName(types.Unalias(t))
		if k, ok := objTypes[name]; ok {
			return kObj, k
		}
		if name == "error" {
			return kErr, ""
		}
	}
	switch u := t.Underlying().(type) {
	case *types.Basic:
		switch {
		case u.Info()&types.IsBoolean != 0:
			return kBool, ""
		case u.Info()&types.IsInteger != 0:
			return kInt, ""
		case u.Info()&types.IsFloat != 0:
			return kReal, ""
		case u.Info()&types.IsString != 0:
			return kStr, ""
		case u.Kind() == types.UntypedNil:
			return kAny, ""
		}
	case *types.Slice:
		return kSlice, ""
	case *types.Array:
		return kArray, ""
	case *types.Struct:
		return kStruct, ""
	case *types.Pointer:
		en := typeName(types.Unalias(u.Elem()))
		if k, ok := objTypes[en]; ok {
			return kObj, k
		}
		if refTypes[en] {
			return kRef, en
		}
		return kPtr, ""
	case *types.Map:
		return kMap, ""
	case *types.Interface:
		if typeName(t) == "error" {
			return kErr, ""
		}
		return kAny, ""
	case *types.Signature:
		return kFunc, ""
	case *types.Tuple:
		return kTuple, ""
	}
	panic("classify: unsupported type " + typeName(t))
}

func isAlias(t types.Type) bool { _, ok := t.(*types.Alias); return ok }

// intRange returns the value range of an integer type (ok=false for int/int64/uint64...).
func intRange(t types.Type) (lo, hi int64, ok bool) {
	b, isB := t.Underlying().(*types.Basic)
	if !isB {
		return 0, 0, false
	}
	switch b.Kind() {
	case types.Uint8:
		return 0, 255, true
	case types.Int8:
		return -128, 127, true
	case types.Uint16:
		return 0, 65535, true
	case types.Int16:
		return -32768, 32767, true
	case types.Uint32:
		return 0, 4294967295, true
	case types.Int32:
		return -2147483648, 2147483647, true
	}
	return 0, 0, false
}

// keySort returns the SMT sort used for map keys of Go type t.
func keySort(t types.Type) string {
	k, _ := classify(t)
	switch k {
	case kInt, kRef:
		return SInt
	case kStr:
		return SStr
	case kArray:
		return SInt // small byte arrays are packed base 256
	case kBool:
		return SBool
	}
	panic("unsupported map key type " + typeName(t))
}

// encodeKey turns a key value into a term of keySort.
func encodeKey(v Val) string {
	switch x := v.(type) {
	case Sc:
		return x.T
	case Ar:
		// uninterpreted injective tuple encoding key!N (inverse functions axiomatised in the preamble)
		var es []string
		allLit := true
		var num int64
		for i := int64(0); i < x.N; i++ {
			e := vSelect(x.Arr, tInt(i)).(Sc).T
			es = append(es, e)
			if n, ok := isIntLit(e); ok && n >= 0 && n < 256 {
				num = num*256 + n
			} else {
				allLit = false
			}
		}
		if allLit {
			return tInt(num) // key!N(a,b,..) = base-256 number (definitional axiom in the preamble)
		}
		return app(fmt.Sprintf("key!%d", x.N), es...)
	}
	panic(fmt.Sprintf("encodeKey: %T", v))
}

func describeVal(v Val) string {
	return strings.Join(leaves(v), " | ")
}
