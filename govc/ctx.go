package main

import (
	"fmt"
	"go/ast"
	"go/token"
	"go/types"
	"sort"
	"strings"
)

// Oblig is one proof obligation: under the declarations and facts recorded up
// to (nDecl, nFact), pc implies goal.
type Oblig struct {
	Name   string
	Kind   string
	Func   string
	Props  []string
	PC     string
	Goal   string
	NDecl  int
	NFact  int
	Pos    token.Position
	Text   string // human-readable source of the goal
	ctx    *Ctx
	Expect string // "unsat" (default) or "sat" for canaries/covers
	Params []paramInfo
	Split  []string // optional case-split terms: one query per case plus exhaustiveness
	Res    *OblResult
}

type paramInfo struct {
	Name string
	V    Val
	T    types.Type
}

// Ctx accumulates declarations, facts and obligations for one function.
type Ctx struct {
	eng            *Engine
	alias          *aliasSets
	pkg            *pkgInfo
	fn             string // qualified name, e.g. sequtil.ReverseComplement
	props          []string
	decls          []string
	facts          []string
	n              int
	obls           []*Oblig
	counts         map[string]int
	used           map[string]bool // spec functions referenced
	externs        map[string]bool
	inlined        map[string]bool
	strLits        map[string]string
	usesStr        bool
	bv             bool // bit-vector mode for integers
	params         []paramInfo
	notes          []string
	declSet        map[string]bool
	traces         map[string]Sl
	curPC          string
	globalWrites   []string
	globalWritePos token.Pos
}

func newCtx(eng *Engine, pkg *pkgInfo, fn string, props []string) *Ctx {
	return &Ctx{alias: newAliasSets(), eng: eng, pkg: pkg, fn: fn, props: props, counts: map[string]int{}, used: map[string]bool{},
		externs: map[string]bool{}, inlined: map[string]bool{}, strLits: map[string]string{}, declSet: map[string]bool{}}
}

func (c *Ctx) intSort() string {
	if c.bv {
		return SBV
	}
	return SInt
}

func (c *Ctx) fresh(hint, sort string) string {
	c.n++
	name := smtSym(hint) + "!" + fmt.Sprint(c.n)
	if name == "key!2" || name == "key!3" {
		name = "v." + name // key!2 / key!3 are the tuple-key encoders
	}
	c.decls = append(c.decls, fmt.Sprintf("(declare-const %s %s)", name, sort))
	if strings.Contains(sort, SStr) {
		c.usesStr = true
	}
	return name
}

// isArrayConst: whether name was declared as a constant of an array sort.
func (c *Ctx) isArrayConst(name string) bool {
	pre := "(declare-const " + name + " (Array"
	for _, d := range c.decls {
		if strings.HasPrefix(d, pre) {
			return true
		}
	}
	return false
}

func (c *Ctx) declareFun(name string, args []string, ret string) {
	if c.declSet[name] {
		return
	}
	c.declSet[name] = true
	c.decls = append(c.decls, fmt.Sprintf("(declare-fun %s (%s) %s)", name, strings.Join(args, " "), ret))
}

// assume records pc => fact.
func (c *Ctx) assume(pc, fact string) {
	f := tImp(pc, fact)
	if f == tTrue {
		return
	}
	c.facts = append(c.facts, f)
}

// assumeHere records a fact guarded by the path condition of the state that
// is currently being executed: facts about fresh symbols may only be
// satisfiable on that path (e.g. a substring's length under its bounds check).
func (c *Ctx) assumeHere(fact string) {
	pc := c.curPC
	if pc == "" {
		pc = tTrue
	}
	c.assume(pc, fact)
}

// assumeDef records an unconditional fact that merely DEFINES fresh symbols and
// is satisfiable whatever the values of all other symbols (fresh array equal
// to a concatenation, a view, a copy ...). Keeping these unguarded keeps the
// quantified facts simple for the solvers.
func (c *Ctx) assumeDef(fact string) {
	if fact != tTrue {
		c.facts = append(c.facts, fact)
	}
}

// define introduces a named constant equal to term (keeps query text linear).
func (c *Ctx) define(hint, sort, term string) string {
	if len(term) < 24 {
		return term
	}
	n := c.fresh(hint, sort)
	c.facts = append(c.facts, tEq(n, term))
	return n
}

func (c *Ctx) oblige(kind, suffix, pc, goal string, pos token.Pos, text string) *Oblig {
	c.counts[kind]++
	name := fmt.Sprintf("%s/%s", c.fn, kind)
	if suffix != "" {
		name += suffix
	} else {
		name += fmt.Sprintf("#%d", c.counts[kind])
	}
	o := &Oblig{Name: name, Kind: kind, Func: c.fn, Props: c.props, PC: pc, Goal: goal,
		NDecl: len(c.decls), NFact: len(c.facts), Text: text, ctx: c, Expect: "unsat", Params: c.params}
	if pos.IsValid() {
		o.Pos = c.eng.fset.Position(pos)
	}
	c.obls = append(c.obls, o)
	return o
}

// obligeAssume emits an obligation and then assumes it (standard: later
// obligations may rely on earlier proved ones).
func (c *Ctx) obligeAssume(kind, suffix, pc, goal string, pos token.Pos, text string) {
	if goal == tTrue {
		return
	}
	c.oblige(kind, suffix, pc, goal, pos, text)
	c.assume(pc, goal)
}

// strLit returns the Str constant for a Go string literal.
func (c *Ctx) strLit(s string) string {
	c.usesStr = true
	if s == "" {
		return "str!empty"
	}
	if n, ok := c.strLits[s]; ok {
		return n
	}
	name := c.fresh("strlit", SStr)
	c.strLits[s] = name
	c.facts = append(c.facts, tEq(app("slen", name), tInt(int64(len(s)))))
	for i := 0; i < len(s); i++ {
		c.facts = append(c.facts, tEq(app("sat", name, tInt(int64(i))), tInt(int64(s[i]))))
	}
	return name
}

// ---- fresh / zero values from Go types ----

func (c *Ctx) freshVal(hint string, t types.Type, lift []string) Val {
	v := c.freshShape(hint, t, lift, true)
	c.assumeTypeInv(v, t, lift)
	return v
}

func (c *Ctx) freshShape(hint string, t types.Type, lift []string, top bool) Val {
	k, name := classify(t)
	switch k {
	case kAny:
		return Sc{c.fresh(hint, liftSort(SDyn, lift)), liftSort(SDyn, lift)}
	case kInt, kErr, kRef:
		s := SInt
		if c.bv && k == kInt {
			s = SBV
		}
		return Sc{c.fresh(hint, liftSort(s, lift)), liftSort(s, lift)}
	case kBool:
		return Sc{c.fresh(hint, liftSort(SBool, lift)), liftSort(SBool, lift)}
	case kReal:
		return Sc{c.fresh(hint, liftSort(SReal, lift)), liftSort(SReal, lift)}
	case kStr:
		c.usesStr = true
		return Sc{c.fresh(hint, liftSort(SStr, lift)), liftSort(SStr, lift)}
	case kSlice:
		et := t.Underlying().(*types.Slice).Elem()
		arr := c.freshShape(hint+".a", et, append(append([]string{}, lift...), SInt), false)
		// WLOG a fresh symbolic slice is the view starting at offset 0 of its own array
		off := zeroOf(liftSort(SInt, lift))
		return Sl{arr, off, c.fresh(hint+".len", liftSort(SInt, lift)), c.fresh(hint+".nil", liftSort(SBool, lift)), et}
	case kArray:
		at := t.Underlying().(*types.Array)
		arr := c.freshShape(hint+".a", at.Elem(), append(append([]string{}, lift...), SInt), false)
		return Ar{arr, at.Len(), at.Elem()}
	case kStruct:
		st := t.Underlying().(*types.Struct)
		f := make([]Val, st.NumFields())
		for i := range f {
			f[i] = c.freshShape(hint+"."+st.Field(i).Name(), st.Field(i).Type(), lift, false)
		}
		return St{f, st}
	case kPtr:
		pt := t.Underlying().(*types.Pointer)
		return Pt{c.fresh(hint+".isnil", liftSort(SBool, lift)), c.freshShape(hint+".p", pt.Elem(), lift, false), pt.Elem()}
	case kMap:
		mt := t.Underlying().(*types.Map)
		ks := keySort(mt.Key())
		has := c.fresh(hint+".has", liftSort(arrSort(ks, SBool), lift))
		val := c.freshShape(hint+".val", mt.Elem(), append(append([]string{}, lift...), ks), false)
		return Mp{has, val, c.fresh(hint+".cnt", liftSort(SInt, lift)), mt.Key(), mt.Elem(), ks, c.fresh(hint+".mnil", liftSort(SBool, lift))}
	case kObj:
		if len(lift) > 0 {
			panic(unsupported("external object type " + name + " inside a container"))
		}
		return c.freshObj(hint, name)
	case kFunc:
		return Fn{Kind: "opaque", Sig: t.Underlying().(*types.Signature)}
	case kTuple:
		tt := t.(*types.Tuple)
		e := make([]Val, tt.Len())
		for i := range e {
			e[i] = c.freshShape(fmt.Sprintf("%s.%d", hint, i), tt.At(i).Type(), lift, false)
		}
		return Tup{e}
	}
	panic("freshShape: " + typeName(t))
}

// assumeTypeInv records the Go type invariants of a fresh value.
func (c *Ctx) assumeTypeInv(v Val, t types.Type, lift []string) {
	if len(lift) > 0 {
		// bind indices
		var bv [][2]string
		cur := v
		for i, ls := range lift {
			n := fmt.Sprintf("ti!%d", i)
			bv = append(bv, [2]string{n, ls})
			cur = vSelect(cur, n)
		}
		invs := c.typeInvs(cur, t, 0)
		for _, inv := range invs {
			c.facts = append(c.facts, tForall(bv, inv))
		}
		return
	}
	for _, inv := range c.typeInvs(v, t, 0) {
		c.facts = append(c.facts, inv)
	}
}

func (c *Ctx) typeInvs(v Val, t types.Type, depth int) []string {
	var out []string
	k, _ := classify(t)
	switch k {
	case kInt:
		if c.bv {
			return nil
		}
		if lo, hi, ok := intRange(t); ok {
			x := v.(Sc).T
			out = append(out, tAnd(tLe(tInt(lo), x), tLe(x, tInt(hi))))
		} else if c.eng != nil && c.eng.ovf {
			x := v.(Sc).T
			if bb, isB := t.Underlying().(*types.Basic); isB && (bb.Kind() == types.Int || bb.Kind() == types.Int64) {
				out = append(out, tAnd(tLe("(- 9223372036854775808)", x), tLe(x, "9223372036854775807")))
			}
		}
	case kRef:
		out = append(out, tGe(v.(Sc).T, "0"))
	case kSlice:
		s := v.(Sl)
		out = append(out, tGe(s.Len, "0"), tGe(s.Off, "0"), tImp(s.Nil, tEq(s.Len, "0")))
		if c.eng != nil && c.eng.ovf {
			out = append(out, tLe(s.Len, "72057594037927936")) // 2^56: address-space bound on lengths
		}
		n := fmt.Sprintf("tj!%d", depth)
		sub := c.typeInvs(vSelect(s.Arr, n), s.Elem, depth+1)
		for _, inv := range sub {
			out = append(out, tForall([][2]string{{n, SInt}}, inv))
		}
	case kArray:
		a := v.(Ar)
		n := fmt.Sprintf("tj!%d", depth)
		sub := c.typeInvs(vSelect(a.Arr, n), a.Elem, depth+1)
		for _, inv := range sub {
			out = append(out, tForall([][2]string{{n, SInt}}, inv))
		}
	case kStruct:
		s := v.(St)
		for i, f := range s.F {
			out = append(out, c.typeInvs(f, s.T.Field(i).Type(), depth)...)
		}
	case kPtr:
		p := v.(Pt)
		out = append(out, c.typeInvs(p.Elem, p.T, depth)...)
	case kMap:
		m := v.(Mp)
		out = append(out, tGe(m.Len, "0"), tImp(m.Nil, tEq(m.Len, "0")))
		{
			kv := fmt.Sprintf("tk!n%d", depth)
			out = append(out, tImp(m.Nil, tForall([][2]string{{kv, m.KS}}, tNot(tSel(m.Has, kv)))))
			// a map of length 0 has no key
			out = append(out, tImp(tEq(m.Len, "0"), tForall([][2]string{{kv, m.KS}}, tNot(tSel(m.Has, kv)))))
		}
		if at, ok := m.K.Underlying().(*types.Array); ok && at.Len() <= 3 {
			// keys of array type: only encodings of byte tuples are present
			kn := fmt.Sprintf("key!%d", at.Len())
			kv := fmt.Sprintf("tk!a%d", depth)
			var comps, rng []string
			for i := int64(0); i < at.Len(); i++ {
				comp := app(fmt.Sprintf("%s.%d", kn, i), kv)
				comps = append(comps, comp)
				rng = append(rng, tAnd(tLe("0", comp), tLe(comp, "255")))
			}
			lim := int64(1)
			for i := int64(0); i < at.Len(); i++ {
				lim *= 256
			}
			_, _ = comps, rng
			_ = kn
			out = append(out, tForall([][2]string{{kv, SInt}}, tImp(tSel(m.Has, kv), tAnd(tLe("0", kv), tLt(kv, tInt(lim)))), tSel(m.Has, kv)))
		}
		n := fmt.Sprintf("tk!%d", depth)
		sub := c.typeInvs(vSelect(m.Val, n), m.V, depth+1)
		for _, inv := range sub {
			out = append(out, tForall([][2]string{{n, m.KS}}, inv))
		}
	case kTuple:
		tt := t.(*types.Tuple)
		for i, e := range v.(Tup).E {
			out = append(out, c.typeInvs(e, tt.At(i).Type(), depth)...)
		}
	}
	return out
}

func (c *Ctx) zeroVal(t types.Type, lift []string) Val {
	k, name := classify(t)
	switch k {
	case kAny:
		return Sc{zeroOf(liftSort(SDyn, lift)), liftSort(SDyn, lift)}
	case kInt, kErr, kRef:
		s := SInt
		if c.bv && k == kInt {
			s = SBV
		}
		return Sc{zeroOf(liftSort(s, lift)), liftSort(s, lift)}
	case kBool:
		return Sc{zeroOf(liftSort(SBool, lift)), liftSort(SBool, lift)}
	case kReal:
		return Sc{zeroOf(liftSort(SReal, lift)), liftSort(SReal, lift)}
	case kStr:
		c.usesStr = true
		return Sc{zeroOf(liftSort(SStr, lift)), liftSort(SStr, lift)}
	case kSlice:
		et := t.Underlying().(*types.Slice).Elem()
		arr := c.zeroVal(et, append(append([]string{}, lift...), SInt))
		return Sl{arr, zeroOf(liftSort(SInt, lift)), zeroOf(liftSort(SInt, lift)), liftTrue(lift), et}
	case kArray:
		at := t.Underlying().(*types.Array)
		return Ar{c.zeroVal(at.Elem(), append(append([]string{}, lift...), SInt)), at.Len(), at.Elem()}
	case kStruct:
		st := t.Underlying().(*types.Struct)
		f := make([]Val, st.NumFields())
		for i := range f {
			f[i] = c.zeroVal(st.Field(i).Type(), lift)
		}
		return St{f, st}
	case kPtr:
		pt := t.Underlying().(*types.Pointer)
		return Pt{liftTrue(lift), c.zeroVal(pt.Elem(), lift), pt.Elem()}
	case kMap:
		mt := t.Underlying().(*types.Map)
		ks := keySort(mt.Key())
		return Mp{zeroOf(liftSort(arrSort(ks, SBool), lift)), c.zeroVal(mt.Elem(), append(append([]string{}, lift...), ks)),
			zeroOf(liftSort(SInt, lift)), mt.Key(), mt.Elem(), ks, liftTrue(lift)}
	case kObj:
		if len(lift) > 0 {
			panic(unsupported("external object type " + name + " inside a container"))
		}
		return c.zeroObj(name)
	case kFunc:
		return Fn{Kind: "nil"}
	case kTuple:
		tt := t.(*types.Tuple)
		e := make([]Val, tt.Len())
		for i := range e {
			e[i] = c.zeroVal(tt.At(i).Type(), lift)
		}
		return Tup{e}
	}
	panic("zeroVal: " + typeName(t))
}

func liftTrue(lift []string) string {
	if len(lift) == 0 {
		return tTrue
	}
	s := liftSort(SBool, lift)
	// const array of true, nested
	return constArr(s, tTrue)
}

func constArr(sort, leaf string) string {
	_, e, ok := arrParts(sort)
	if !ok {
		return leaf
	}
	return "((as const " + sort + ") " + constArr(e, leaf) + ")"
}

type unsupportedErr struct{ msg string }

func unsupported(f string, a ...interface{}) unsupportedErr {
	return unsupportedErr{fmt.Sprintf(f, a...)}
}

func (c *Ctx) posOf(n ast.Node) string {
	if n == nil {
		return ""
	}
	p := c.eng.fset.Position(n.Pos())
	return fmt.Sprintf("%s:%d", p.Filename, p.Line)
}

func sortedKeys(m map[string]bool) []string {
	out := make([]string, 0, len(m))
	for k := range m {
		out = append(out, k)
	}
	sort.Strings(out)
	return out
}
