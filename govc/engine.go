package main

import (
	"bytes"
	"fmt"
	"go/ast"
	"go/printer"
	"go/token"
	"go/types"
	"os"
	"path/filepath"
	"regexp"
	"sort"
	"strconv"
	"strings"

	"golang.org/x/tools/go/packages"
)

type pkgInfo struct {
	path  string
	name  string
	types *types.Package
	info  *types.Info
	files []*ast.File
	dir   string
}

type Clause struct {
	Text    string
	E       SExpr
	Props   []string
	Line    string
	NoTrace bool   // ensures not to be assumed about a callee's full trace
	View    string // `ensures-view NAME ...`: proved for the function, assumed at a call site only when the caller says `use-view NAME`
}

type LoopSpec struct {
	Invs       []Clause
	Dec        *Clause
	Splits     []Clause
	SplitVars  []Clause    // case split on the skolemised bound variable of quantified invariants (inv-keep)
	Snaps      [][2]string // ghost snapshots taken at loop entry: name, expression text
	SnapsAfter [][2]string // ghost snapshots taken at loop exit
	headState  *State      // the state the invariants were last assumed in (loop head), for ground instances at skolem constants
	headPos    token.Pos
}

type Contract struct {
	Pkg          *pkgInfo
	Name         string // pkgname.Func / pkgname.Type.Method
	FuncName     string
	Props        []string
	Requires     []Clause
	Ensures      []Clause
	Panics       *Clause
	Loops        map[int]*LoopSpec
	Yields       string
	Mode         string
	Theorem      string
	Lets         map[string]SExpr
	Modifies     map[string]bool
	ModifiesHeap []string
	Thin         bool // safety-only contract: loops without invariants are fine
	Trusted      string
	Pos          string
	Pure         bool
	Witness      []string
	ReadOnlyHeap bool
	UseLemmas    []Clause // use-lemma name(args): instantiated at the normal exit before the ensures are checked
	CasesExpr    string   // cases <expr> in lo..hi: the function is verified once per value (a proof-search tactic; coverage is an obligation)
	CasesLo      int
	CasesHi      int
	SplitVars    []Clause        // function-level `splitvar`: case split on the skolemised bound variable of quantified ensures (proof search only)
	UseViews     map[string]bool // `use-view NAME`: the caller imports the callee ensures of that view
	Inline       map[string]bool // `inline F`: calls of F in this theorem execute F's body instead of using its contract
	MapWitness   bool            // `map-witness`: len(m) != 0 names a key of m (a fact about len's exactness; opt-in because the extra ground term costs solver time elsewhere)
	BranchSplit  bool            // `branch-split`: an obligation the solvers leave undecided is retried per branch of the enclosing ifs (proof search only)
	Sequential   bool            // `sequential`: later invariant / ensures clauses may assume earlier ones (each stays an obligation of its own)
	CasesElse    bool            // `cases e in lo..hi else`: one more run for e outside lo..hi (then no coverage obligation is needed)
	caseCover    *Clause         // set on the first case run: lo <= expr <= hi follows from the requires
	caseNote     string
	WitnessFrom  map[string]string // witness name -> callee contract that supplies it
	FreshResult  bool
	decl         *ast.FuncDecl
}

type globalInfo struct {
	pkg           *pkgInfo
	obj           *types.Var
	init          ast.Expr
	assigned      bool
	invs          []Clause
	establishedBy string
	props         []string
}

type Engine struct {
	fset       *token.FileSet
	pkgs       map[string]*pkgInfo
	byName     map[string]*pkgInfo
	lemmaUse   map[string]map[string]bool
	contracts  map[string]*Contract
	order      []string
	specs      *SpecDB
	globals    map[string]*globalInfo
	heapWrites map[string][]string
	funcDecls  map[*types.Func]*ast.FuncDecl
	funcPkg    map[*types.Func]*pkgInfo
	errors     []string
	repo       string
	ovf        bool
}

func loadEngine(repo, specDir string) (*Engine, error) {
	cfg := &packages.Config{Mode: packages.LoadAllSyntax, Dir: repo, BuildFlags: []string{"-tags=verif", "-mod=readonly"},
		Env: append(os.Environ(), "GOFLAGS=-mod=readonly", "GOPROXY=off", "GOSUMDB=off", "GOTOOLCHAIN=local")}
	pkgs, err := packages.Load(cfg, "./...")
	if err != nil {
		return nil, err
	}
	eng := &Engine{pkgs: map[string]*pkgInfo{}, byName: map[string]*pkgInfo{}, contracts: map[string]*Contract{},
		globals: map[string]*globalInfo{}, heapWrites: map[string][]string{}, funcDecls: map[*types.Func]*ast.FuncDecl{},
		funcPkg: map[*types.Func]*pkgInfo{}, repo: repo}
	var loadErrs []string
	var visit func(p *packages.Package)
	seen := map[string]bool{}
	visit = func(p *packages.Package) {
		if seen[p.PkgPath] {
			return
		}
		seen[p.PkgPath] = true
		eng.fset = p.Fset
		pi := &pkgInfo{path: p.PkgPath, name: p.Name, types: p.Types, info: p.TypesInfo, files: p.Syntax}
		if len(p.GoFiles) > 0 {
			pi.dir = filepath.Dir(p.GoFiles[0])
		}
		eng.pkgs[p.PkgPath] = pi
		for _, e := range p.Errors {
			loadErrs = append(loadErrs, e.Error())
		}
		for _, imp := range p.Imports {
			if strings.HasPrefix(imp.PkgPath, "github.com/fluhus/") {
				visit(imp)
			}
		}
	}
	for _, p := range pkgs {
		visit(p)
	}
	if len(loadErrs) > 0 {
		return nil, fmt.Errorf("package load errors: %s", strings.Join(loadErrs, "; "))
	}
	for _, pi := range eng.pkgs {
		if strings.HasPrefix(pi.path, "github.com/fluhus/biostuff") {
			eng.byName[pi.name] = pi
		}
		for _, f := range pi.files {
			for _, d := range f.Decls {
				if fd, ok := d.(*ast.FuncDecl); ok {
					if obj, ok := pi.info.Defs[fd.Name].(*types.Func); ok {
						eng.funcDecls[obj] = fd
						eng.funcPkg[obj] = pi
					}
				}
			}
		}
	}
	eng.specs, err = loadSpecs(specDir)
	if err != nil {
		return nil, err
	}
	eng.scanGlobals()
	if err := eng.loadContracts(); err != nil {
		return nil, err
	}
	return eng, nil
}

func (e *Engine) nodeSrc(n ast.Node) string {
	var b bytes.Buffer
	printer.Fprint(&b, e.fset, n)
	s := b.String()
	if len(s) > 80 {
		s = s[:80] + "..."
	}
	return strings.ReplaceAll(s, "\n", " ")
}

func (e *Engine) pkgOf(f *types.Func) *pkgInfo {
	if p, ok := e.funcPkg[f.Origin()]; ok {
		return p
	}
	return e.pkgs[f.Pkg().Path()]
}

func (e *Engine) funcDecl(f *types.Func) *ast.FuncDecl {
	return e.funcDecls[f.Origin()]
}

// qualName: module functions are "pkgname.Func" / "pkgname.Type.Method";
// external ones use types.Func.FullName of the generic origin.
func (e *Engine) qualName(f *types.Func) string {
	f = f.Origin()
	if f.Pkg() != nil && strings.HasPrefix(f.Pkg().Path(), "github.com/fluhus/biostuff") {
		sig := f.Type().(*types.Signature)
		if sig.Recv() != nil {
			rt := sig.Recv().Type()
			if p, ok := rt.(*types.Pointer); ok {
				rt = p.Elem()
			}
			if n, ok := rt.(*types.Named); ok {
				return f.Pkg().Name() + "." + n.Obj().Name() + "." + f.Name()
			}
		}
		return f.Pkg().Name() + "." + f.Name()
	}
	return f.FullName()
}

func (e *Engine) structOfOpt(tname string) *types.Struct {
	i := strings.LastIndex(tname, ".")
	p := e.pkgs[tname[:i]]
	if p == nil {
		return nil
	}
	obj := p.types.Scope().Lookup(tname[i+1:])
	if obj == nil {
		return nil
	}
	st, _ := obj.Type().Underlying().(*types.Struct)
	return st
}

func (e *Engine) structOf(tname string) *types.Struct {
	st := e.structOfOpt(tname)
	if st == nil {
		panic(unsupported("unknown reference type %s", tname))
	}
	return st
}

func (e *Engine) heapFieldType(key string) types.Type {
	i := strings.LastIndex(key, ".")
	st := e.structOf(key[:i])
	return fieldType(st, key[i+1:])
}

// scanGlobals records package-level variables, their initializers and whether
// anything assigns them outside their declaration.
func (e *Engine) scanGlobals() {
	for _, pi := range e.pkgs {
		if !strings.HasPrefix(pi.path, "github.com/fluhus/biostuff") {
			continue
		}
		for _, f := range pi.files {
			for _, d := range f.Decls {
				gd, ok := d.(*ast.GenDecl)
				if !ok || gd.Tok != token.VAR {
					continue
				}
				for _, sp := range gd.Specs {
					vs := sp.(*ast.ValueSpec)
					for i, id := range vs.Names {
						obj, _ := pi.info.Defs[id].(*types.Var)
						if obj == nil {
							continue
						}
						gi := &globalInfo{pkg: pi, obj: obj}
						if i < len(vs.Values) {
							gi.init = vs.Values[i]
						}
						e.globals[pi.path+"."+obj.Name()] = gi
					}
				}
			}
		}
	}
	// assignments anywhere in the module
	for _, pi := range e.pkgs {
		if !strings.HasPrefix(pi.path, "github.com/fluhus/biostuff") {
			continue
		}
		for _, f := range pi.files {
			ast.Inspect(f, func(n ast.Node) bool {
				mark := func(ex ast.Expr) {
					for {
						switch t := ex.(type) {
						case *ast.IndexExpr:
							ex = t.X
							continue
						case *ast.SliceExpr:
							ex = t.X
							continue
						case *ast.ParenExpr:
							ex = t.X
							continue
						case *ast.StarExpr:
							ex = t.X
							continue
						case *ast.SelectorExpr:
							if pi.info.Selections[t] == nil {
								if v, ok := pi.info.Uses[t.Sel].(*types.Var); ok {
									if gi := e.globals[v.Pkg().Path()+"."+v.Name()]; gi != nil {
										gi.assigned = true
									}
								}
								return
							}
							ex = t.X
							continue
						case *ast.Ident:
							if v, ok := pi.info.Uses[t].(*types.Var); ok && v.Pkg() != nil && v.Parent() == v.Pkg().Scope() {
								if gi := e.globals[v.Pkg().Path()+"."+v.Name()]; gi != nil {
									gi.assigned = true
								}
							}
						}
						return
					}
				}
				switch s := n.(type) {
				case *ast.AssignStmt:
					for _, l := range s.Lhs {
						mark(l)
					}
				case *ast.IncDecStmt:
					mark(s.X)
				case *ast.UnaryExpr:
					if s.Op == token.AND {
						mark(s.X)
					}
				case *ast.CallExpr:
					if id, ok := s.Fun.(*ast.Ident); ok && (id.Name == "copy" || id.Name == "delete") && len(s.Args) > 0 {
						mark(s.Args[0])
					}
				}
				return true
			})
		}
	}
}

// ---- contract files ----

var clauseKeywords = map[string]bool{"func": true, "theorem": true, "global": true, "props": true, "requires": true,
	"ensures": true, "panics": true, "modifies": true, "decreases": true, "yields": true, "loop": true, "invariant": true,
	"let": true, "split": true, "mode": true, "established-by": true, "thin": true, "trusted": true, "assert": true,
	"ensures-notrace": true, "modifies-heap": true, "witness": true, "callback": true, "readonly-heap": true, "fresh-result": true, "pure": true, "splitvar": true, "snapshot": true, "snapshot-after": true, "use-lemma": true, "cases": true, "sequential": true, "branch-split": true, "map-witness": true, "inline": true, "ensures-view": true, "use-view": true}

type rawClause struct {
	kw   string
	text string
	pos  token.Pos
}

// contractLines extracts //@ lines of a comment group as clauses.
func contractLines(cg *ast.CommentGroup) []rawClause {
	var out []rawClause
	for _, c := range cg.List {
		t := c.Text
		// gofmt rewrites "//@" to "// @" inside doc comments: both spellings are contract lines
		if strings.HasPrefix(t, "// @") {
			t = "//@" + t[4:]
		}
		if !strings.HasPrefix(t, "//@") {
			continue
		}
		t = strings.TrimSpace(t[3:])
		if t == "" {
			continue
		}
		first := t
		rest := ""
		if i := strings.IndexAny(t, " \t"); i >= 0 {
			first, rest = t[:i], strings.TrimSpace(t[i+1:])
		}
		if clauseKeywords[first] {
			out = append(out, rawClause{first, rest, c.Pos()})
		} else if len(out) > 0 {
			out[len(out)-1].text += " " + t
		}
	}
	return out
}

func parseProps(text string) (props []string, rest string) {
	rest = text
	for strings.HasPrefix(rest, "@") {
		i := strings.IndexAny(rest, " \t")
		if i < 0 {
			i = len(rest)
		}
		for _, p := range strings.Split(rest[1:i], ",") {
			if p != "" {
				props = append(props, p)
			}
		}
		rest = strings.TrimSpace(rest[i:])
	}
	return
}

func (e *Engine) loadContracts() error {
	var pkgNames []string
	for n := range e.byName {
		pkgNames = append(pkgNames, n)
	}
	sort.Strings(pkgNames)
	for _, pn := range pkgNames {
		pi := e.byName[pn]
		for _, f := range pi.files {
			fname := e.fset.Position(f.Pos()).Filename
			if !strings.HasSuffix(fname, "_verif.go") {
				continue
			}
			var cur *Contract
			var curLoop *LoopSpec
			var curGlobal *globalInfo
			var pendingTheorem *Contract
			finish := func() {
				cur, curLoop, curGlobal = nil, nil, nil
			}
			for _, cg := range f.Comments {
				// body asserts are handled when the function is verified
				for _, rc := range contractLines(cg) {
					perr := func(err error) error {
						return fmt.Errorf("%s: %v", e.fset.Position(rc.pos), err)
					}
					switch rc.kw {
					case "func", "theorem":
						finish()
						name := strings.Fields(rc.text)[0]
						ct := &Contract{Pkg: pi, Loops: map[int]*LoopSpec{}, Lets: map[string]SExpr{}, Modifies: map[string]bool{}, Pos: e.fset.Position(rc.pos).String()}
						if rc.kw == "theorem" {
							ct.Theorem = name
							pendingTheorem = ct
							// bound to the next FuncDecl after this comment
							var next *ast.FuncDecl
							for _, d := range f.Decls {
								if fd, ok := d.(*ast.FuncDecl); ok && fd.Pos() > rc.pos {
									if next == nil || fd.Pos() < next.Pos() {
										next = fd
									}
								}
							}
							if next == nil {
								return perr(fmt.Errorf("theorem %s: no function follows", name))
							}
							ct.FuncName = next.Name.Name
							ct.decl = next
							_ = pendingTheorem
						} else {
							ct.FuncName = name
						}
						ct.Name = pi.name + "." + ct.FuncName
						e.contracts[ct.Name] = ct
						e.order = append(e.order, ct.Name)
						cur = ct
					case "global":
						finish()
						name := strings.Fields(rc.text)[0]
						gi := e.globals[pi.path+"."+name]
						if gi == nil {
							return perr(fmt.Errorf("global %s: no such package-level variable", name))
						}
						curGlobal = gi
					case "props":
						ps := strings.Fields(strings.ReplaceAll(rc.text, ",", " "))
						if cur != nil {
							cur.Props = ps
						} else if curGlobal != nil {
							curGlobal.props = ps
						}
					case "established-by":
						if curGlobal != nil {
							curGlobal.establishedBy = strings.TrimSpace(rc.text)
						}
					case "mode":
						cur.Mode = strings.TrimSpace(rc.text)
					case "thin":
						cur.Thin = true
					case "trusted":
						cur.Trusted = rc.text
					case "yields":
						cur.Yields = strings.TrimSpace(rc.text)
						if cur.Yields == "" {
							cur.Yields = "Y"
						}
					case "modifies":
						for _, m := range strings.Fields(strings.ReplaceAll(rc.text, ",", " ")) {
							cur.Modifies[strings.TrimPrefix(m, "*")] = true
						}
					case "pure":
						cur.Pure = true
					case "snapshot", "snapshot-after":
						parts := strings.SplitN(rc.text, ":=", 2)
						if len(parts) != 2 || curLoop == nil {
							return perr(fmt.Errorf("snapshot needs `name := expr` inside a loop block"))
						}
						if rc.kw == "snapshot" {
							curLoop.Snaps = append(curLoop.Snaps, [2]string{strings.TrimSpace(parts[0]), strings.TrimSpace(parts[1])})
						} else {
							curLoop.SnapsAfter = append(curLoop.SnapsAfter, [2]string{strings.TrimSpace(parts[0]), strings.TrimSpace(parts[1])})
						}
					case "fresh-result":
						cur.FreshResult = true
					case "readonly-heap":
						cur.ReadOnlyHeap = true
					case "callback":
						cur.Modifies["callback:"+strings.TrimSpace(rc.text)] = true
					case "sequential":
						cur.Sequential = true
					case "branch-split":
						cur.BranchSplit = true
					case "map-witness":
						cur.MapWitness = true
					case "inline":
						if cur.Inline == nil {
							cur.Inline = map[string]bool{}
						}
						for _, f := range strings.Fields(strings.ReplaceAll(rc.text, ",", " ")) {
							cur.Inline[f] = true
						}
					case "cases":
						txt := strings.TrimSpace(rc.text)
						if strings.HasSuffix(txt, " else") {
							cur.CasesElse = true
							txt = strings.TrimSpace(strings.TrimSuffix(txt, " else"))
						}
						m := regexp.MustCompile(`^(.+?)\s+in\s+(-?\d+)\.\.(-?\d+)$`).FindStringSubmatch(txt)
						if m == nil {
							return perr(fmt.Errorf("cases needs `<expr> in lo..hi [else]`"))
						}
						cur.CasesExpr = m[1]
						cur.CasesLo, _ = strconv.Atoi(m[2])
						cur.CasesHi, _ = strconv.Atoi(m[3])
					case "use-lemma":
						ex, err := parseSpec(rc.text)
						if err != nil {
							return perr(err)
						}
						cur.UseLemmas = append(cur.UseLemmas, Clause{Text: rc.text, E: ex, Line: e.fset.Position(rc.pos).String()})
					case "witness":
						fs := strings.Fields(strings.ReplaceAll(rc.text, ",", " "))
						if len(fs) == 3 && fs[1] == "from" {
							cur.Witness = append(cur.Witness, fs[0])
							if cur.WitnessFrom == nil {
								cur.WitnessFrom = map[string]string{}
							}
							cur.WitnessFrom[fs[0]] = fs[2]
						} else {
							cur.Witness = append(cur.Witness, fs...)
						}
					case "modifies-heap":
						cur.ModifiesHeap = append(cur.ModifiesHeap, strings.Fields(strings.ReplaceAll(rc.text, ",", " "))...)
					case "let":
						parts := strings.SplitN(rc.text, ":=", 2)
						if len(parts) != 2 {
							return perr(fmt.Errorf("let needs name := expr"))
						}
						ex, err := parseSpec(strings.TrimSpace(parts[1]))
						if err != nil {
							return perr(err)
						}
						cur.Lets[strings.TrimSpace(parts[0])] = ex
					case "loop":
						var k int
						fmt.Sscanf(rc.text, "%d", &k)
						curLoop = &LoopSpec{}
						cur.Loops[k] = curLoop
					case "use-view":
						if cur.UseViews == nil {
							cur.UseViews = map[string]bool{}
						}
						for _, f := range strings.Fields(strings.ReplaceAll(rc.text, ",", " ")) {
							cur.UseViews[f] = true
						}
					case "requires", "ensures", "ensures-notrace", "ensures-view", "panics", "invariant", "decreases", "split", "splitvar":
						view := ""
						if rc.kw == "ensures-view" {
							f := strings.SplitN(strings.TrimSpace(rc.text), " ", 2)
							if len(f) != 2 {
								return perr(fmt.Errorf("ensures-view needs a view name and an expression"))
							}
							view, rc.text = f[0], f[1]
						}
						props, text := parseProps(rc.text)
						ex, err := parseSpec(text)
						if err != nil {
							return perr(err)
						}
						cl := Clause{Text: text, E: ex, Props: props, Line: e.fset.Position(rc.pos).String()}
						switch rc.kw {
						case "requires":
							cur.Requires = append(cur.Requires, cl)
						case "ensures":
							cur.Ensures = append(cur.Ensures, cl)
						case "ensures-notrace":
							cl.NoTrace = true
							cur.Ensures = append(cur.Ensures, cl)
						case "ensures-view":
							cl.View = view
							cur.Ensures = append(cur.Ensures, cl)
						case "panics":
							cur.Panics = &cl
						case "invariant":
							if curGlobal != nil {
								curGlobal.invs = append(curGlobal.invs, cl)
							} else if curLoop != nil {
								curLoop.Invs = append(curLoop.Invs, cl)
							} else {
								return perr(fmt.Errorf("invariant outside loop/global"))
							}
						case "decreases":
							if curLoop != nil {
								curLoop.Dec = &cl
							}
						case "split":
							if curLoop != nil {
								curLoop.Splits = append(curLoop.Splits, cl)
							}
						case "splitvar":
							if curLoop != nil {
								curLoop.SplitVars = append(curLoop.SplitVars, cl)
							} else {
								cur.SplitVars = append(cur.SplitVars, cl)
							}
						}
					}
				}
			}
		}
	}
	return nil
}

// findDecl locates the FuncDecl a contract is about. "init#k" selects the k-th
// init function of the package (files in load order, then position).
func (e *Engine) findDecl(ct *Contract) *ast.FuncDecl {
	if ct.decl != nil {
		return ct.decl
	}
	name := ct.FuncName
	recv := ""
	if i := strings.Index(name, "."); i >= 0 {
		recv, name = name[:i], name[i+1:]
	}
	initOrd := 0
	if i := strings.Index(name, "#"); i >= 0 {
		fmt.Sscanf(name[i+1:], "%d", &initOrd)
		name = name[:i]
	}
	cnt := 0
	files := append([]*ast.File{}, ct.Pkg.files...)
	sort.Slice(files, func(i, j int) bool {
		return e.fset.Position(files[i].Pos()).Filename < e.fset.Position(files[j].Pos()).Filename
	})
	for _, f := range files {
		for _, d := range f.Decls {
			fd, ok := d.(*ast.FuncDecl)
			if !ok || fd.Name.Name != name {
				continue
			}
			r := ""
			if fd.Recv != nil && len(fd.Recv.List) > 0 {
				t := fd.Recv.List[0].Type
				if s, ok := t.(*ast.StarExpr); ok {
					t = s.X
				}
				if id, ok := t.(*ast.Ident); ok {
					r = id.Name
				}
			}
			if r != recv {
				continue
			}
			cnt++
			if initOrd == 0 || cnt == initOrd {
				return fd
			}
		}
	}
	return nil
}

// witnessType finds the type of the local variable named w declared in the
// body of the contract's function (witness clause).
func (e *Engine) witnessType(ct *Contract, w string) types.Type {
	if from, ok := ct.WitnessFrom[w]; ok {
		if cc := e.contracts[ct.Pkg.name+"."+from]; cc != nil && cc != ct {
			return e.witnessType(cc, w)
		}
	}
	fd := e.findDecl(ct)
	if fd == nil {
		return nil
	}
	for _, ls := range ct.Loops {
		for _, sn := range append(append([][2]string{}, ls.Snaps...), ls.SnapsAfter...) {
			if sn[0] == w {
				w = sn[1] // a ghost snapshot of a local: same type as that local
			}
		}
	}
	var t types.Type
	ast.Inspect(fd.Body, func(n ast.Node) bool {
		if id, ok := n.(*ast.Ident); ok && id.Name == w && t == nil {
			if obj := ct.Pkg.info.Defs[id]; obj != nil {
				t = obj.Type()
			}
		}
		return true
	})
	return t
}
