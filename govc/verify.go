package main

import (
	"fmt"
	"go/ast"
	"go/token"
	"go/types"
	"runtime"
	"sort"
	"strings"
	"sync"
)

// FuncReport is the per-function part of the result.
type FuncReport struct {
	Name    string   `json:"name"`
	Props   []string `json:"props"`
	Kind    string   `json:"kind"`   // function, theorem, lemma, init
	Status  string   `json:"status"` // verified-pending, outside-subset, stale-contract, engine-error
	Reason  string   `json:"reason,omitempty"`
	Externs []string `json:"assumed_externs,omitempty"`
	Inlined []string `json:"inlined_helpers,omitempty"`
	Notes   []string `json:"notes,omitempty"`
	Axioms  []string `json:"assumed_axioms,omitempty"` // axioms of uninterpreted spec functions in the queries of this function (assumptions, not proved)
	NumObl  int      `json:"obligations"`
	Pos     string   `json:"pos,omitempty"`
	obls    []*Oblig
}

func splitConj(t string) []string {
	// split a top-level (and a b c) into parts
	if !strings.HasPrefix(t, "(and ") {
		return []string{t}
	}
	body := t[5 : len(t)-1]
	var parts []string
	depth := 0
	start := 0
	for i := 0; i < len(body); i++ {
		switch body[i] {
		case '(':
			depth++
		case ')':
			depth--
		case ' ':
			if depth == 0 {
				if start < i {
					parts = append(parts, body[start:i])
				}
				start = i + 1
			}
		}
	}
	if start < len(body) {
		parts = append(parts, body[start:])
	}
	var out []string
	for _, p := range parts {
		out = append(out, splitConj(p)...)
	}
	return out
}

func (e *Engine) verifyContract(ct *Contract) (rep *FuncReport) {
	rep = &FuncReport{Name: ct.Name, Props: ct.Props, Kind: "function", Pos: ct.Pos}
	if ct.Theorem != "" {
		rep.Kind = "theorem"
		rep.Name = ct.Pkg.name + ".theorem:" + ct.Theorem
	}
	if ct.Trusted != "" {
		rep.Status = "trusted"
		rep.Reason = ct.Trusted
		return rep
	}
	fd := e.findDecl(ct)
	if fd == nil || fd.Body == nil {
		rep.Status = "stale-contract"
		rep.Reason = "no function " + ct.FuncName + " in package " + ct.Pkg.name
		return rep
	}
	if ct.CasesExpr != "" {
		// one run per value of the case expression; the first run also proves that the cases cover the precondition
		hi := ct.CasesHi
		if ct.CasesElse {
			hi++ // one more run: the expression is outside lo..hi
		}
		for k := ct.CasesLo; k <= hi; k++ {
			ct2 := *ct
			ct2.CasesExpr = ""
			ct2.caseNote = fmt.Sprintf("@%s=%d", strings.ReplaceAll(ct.CasesExpr, " ", ""), k)
			txt := fmt.Sprintf("%s == %d", ct.CasesExpr, k)
			if k > ct.CasesHi {
				ct2.caseNote = fmt.Sprintf("@%s=else", strings.ReplaceAll(ct.CasesExpr, " ", ""))
				txt = fmt.Sprintf("%s < %d || %s > %d", ct.CasesExpr, ct.CasesLo, ct.CasesExpr, ct.CasesHi)
			}
			ex, err := parseSpec(txt)
			if err != nil {
				rep.Status = "stale-contract"
				rep.Reason = err.Error()
				return rep
			}
			ct2.Requires = append(append([]Clause{}, ct.Requires...), Clause{Text: txt, E: ex, Line: ct.Pos})
			if k == ct.CasesLo && !ct.CasesElse {
				ctxt := fmt.Sprintf("%d <= %s && %s <= %d", ct.CasesLo, ct.CasesExpr, ct.CasesExpr, ct.CasesHi)
				cex, _ := parseSpec(ctxt)
				ct2.caseCover = &Clause{Text: ctxt, E: cex, Line: ct.Pos}
			}
			sub := e.verifyContract(&ct2)
			if sub.Status != "generated" {
				sub.Name = rep.Name
				return sub
			}
			for _, o := range sub.obls {
				if o.Kind != "cases-cover" {
					o.Name += ct2.caseNote
				}
			}
			rep.obls = append(rep.obls, sub.obls...)
			rep.Externs, rep.Inlined, rep.Notes, rep.Axioms = sub.Externs, sub.Inlined, sub.Notes, sub.Axioms
		}
		rep.Status = "generated"
		rep.NumObl = len(rep.obls)
		rep.Notes = append(rep.Notes, fmt.Sprintf("verified once per case %s in %d..%d (coverage of the precondition is the obligation cases-cover)", ct.CasesExpr, ct.CasesLo, ct.CasesHi))
		return rep
	}
	c := newCtx(e, ct.Pkg, rep.Name, ct.Props)
	c.bv = ct.Mode == "bv"
	defer func() {
		if r := recover(); r != nil {
			switch f := r.(type) {
			case unsupportedErr:
				rep.Status = "outside-subset"
				rep.Reason = f.msg
			case specFailure:
				rep.Status = "stale-contract"
				rep.Reason = f.msg
			default:
				if re, isRT := r.(runtime.Error); isRT {
					// the engine met a value shape its rules do not cover (e.g. a contract pattern over a struct-valued term
					// after the code changed shape): the function is undecided, never proved
					rep.Status = "outside-subset"
					rep.Reason = "engine cannot interpret this body/contract combination: " + re.Error()
				} else {
					// any other failure of the engine's own rules (a value shape or type it has no case for): same treatment
					rep.Status = "outside-subset"
					rep.Reason = "engine cannot interpret this body/contract combination: " + fmt.Sprint(r)
				}
			}
			rep.obls = nil
			rep.NumObl = 0
		}
	}()
	if strings.HasPrefix(ct.FuncName, "init") {
		rep.Kind = "init"
		// the init function must establish the global invariants attributed to it
		var keys []string
		for k := range e.globals {
			keys = append(keys, k)
		}
		sort.Strings(keys)
		ct2 := *ct
		ct2.Ensures = append([]Clause{}, ct.Ensures...)
		for _, k := range keys {
			gi := e.globals[k]
			if gi.pkg == ct.Pkg && gi.establishedBy == ct.FuncName {
				for _, inv := range gi.invs {
					cl := inv
					cl.Text = "global " + gi.obj.Name() + ": " + inv.Text
					if len(gi.props) > 0 {
						cl.Props = gi.props
					}
					ct2.Ensures = append(ct2.Ensures, cl)
				}
			}
		}
		ct = &ct2
	}
	e.heapWrites[c.fn] = nil
	e.runFunc(c, ct, fd)
	// frame: heap fields written must be declared (modifies-heap); none declared = read-only on heap structures. Checked for
	// every function under contract (callers assume that undeclared heap fields are unchanged).
	{
		declared := map[string]bool{}
		for _, h := range ct.ModifiesHeap {
			declared[h] = true
		}
		var bad []string
		for _, h := range e.heapWrites[c.fn] {
			if !declared[h] {
				bad = append(bad, h)
			}
		}
		if ct.ReadOnlyHeap || len(bad) > 0 {
			c.oblige("frame:heap", "", tTrue, boolTerm(len(bad) == 0), fd.Pos(), "no store to heap fields other than the declared ones; undeclared: "+strings.Join(dedup(bad), ","))
		}
	}
	// frame: package-level variables are only assigned by init functions (shared mutable state leaks between calls)
	if !strings.HasPrefix(ct.FuncName, "init") {
		c.oblige("frame:global", "", tTrue, boolTerm(len(c.globalWrites) == 0), c.globalWritePos,
			"no assignment to package-level variables outside init; assigned: "+strings.Join(dedup(c.globalWrites), ","))
	}
	rep.Status = "generated"
	rep.obls = c.obls
	rep.NumObl = len(c.obls)
	rep.Externs = externList(c.externs)
	rep.Inlined = sortedKeys(c.inlined)
	rep.Notes = dedup(c.notes)
	rep.Axioms = e.assumedAxioms(c.used)
	return rep
}

func dedup(s []string) []string {
	seen := map[string]bool{}
	var out []string
	for _, x := range s {
		if !seen[x] {
			seen[x] = true
			out = append(out, x)
		}
	}
	return out
}

func (e *Engine) runFunc(c *Ctx, ct *Contract, fd *ast.FuncDecl) {
	pi := ct.Pkg
	obj := pi.info.Defs[fd.Name].(*types.Func)
	sig := obj.Type().(*types.Signature)
	x := &Exec{c: c, pkg: pi, info: pi.info, contract: ct, sig: sig, loopOrd: new(int), lets: ct.Lets, body: fd.Body}
	st := &State{vars: map[types.Object]Val{}, heap: map[string]Val{}, ghost: map[string]Val{}, pc: tTrue}
	// parameters
	if sig.Recv() != nil {
		v := c.freshVal(sig.Recv().Name(), sig.Recv().Type(), nil)
		v = nonNilRecv(v)
		st.vars[sig.Recv()] = v
		c.params = append(c.params, paramInfo{sig.Recv().Name(), v, sig.Recv().Type()})
	}
	for i := 0; i < sig.Params().Len(); i++ {
		p := sig.Params().At(i)
		v := c.freshVal(p.Name(), p.Type(), nil)
		st.vars[p] = v
		c.params = append(c.params, paramInfo{p.Name(), v, p.Type()})
	}
	body := fd.Body
	x.aliasAnalyse(fd.Body)
	x.aliasParams(sig)
	// iterator constructors: `return func(yield ...) {...}` with a `yields` contract
	if ct.Yields != "" {
		if len(body.List) < 1 {
			panic(unsupported("iterator constructor body is empty"))
		}
		rs, ok := body.List[len(body.List)-1].(*ast.ReturnStmt)
		if !ok || len(rs.Results) != 1 {
			panic(unsupported("iterator constructor does not end in a single return"))
		}
		if len(body.List) > 1 {
			// statements before `return func(yield ...)`: executed once per constructor call. Variables they
			// declare and the iterator body MODIFIES are state shared between invocations of the returned
			// iterator (and survive an early stop): their value at the start of an iteration is arbitrary.
			x.entry = st.clone()
			pre := x.execBlock(body.List[:len(body.List)-1], st)
			if pre == nil {
				panic(unsupported("iterator constructor prefix does not fall through"))
			}
			st = pre
			if fl0, isFL := rs.Results[0].(*ast.FuncLit); isFL {
				ms := x.modifiedIn(fl0.Body)
				shared := map[types.Object]bool{}
				for o := range ms.vars {
					shared[o] = true
				}
				for o := range ms.partial {
					shared[o] = true
				}
				for o := range ms.touched {
					shared[o] = true
				}
				var names []string
				for o := range shared {
					if _, ok := st.vars[o]; ok && o.Pos() < fl0.Pos() && o.Pos() > fd.Body.Lbrace {
						st.vars[o] = c.freshVal("shared."+o.Name(), o.Type(), nil)
						names = append(names, o.Name())
					}
				}
				if len(names) > 0 {
					sort.Strings(names)
					c.notes = append(c.notes, "variables declared outside the iterator body and modified inside it are shared between invocations (arbitrary at entry): "+strings.Join(names, ","))
				}
			}
		}
		fl, ok := rs.Results[0].(*ast.FuncLit)
		if !ok {
			panic(unsupported("iterator constructor does not return a function literal"))
		}
		for i := 0; i < sig.Params().Len(); i++ {
			x.outerParams = append(x.outerParams, sig.Params().At(i))
		}
		lsig := pi.info.TypeOf(fl).(*types.Signature)
		x.sig = lsig
		yp := lsig.Params().At(0)
		st.vars[yp] = Fn{Kind: "yield", Sig: yp.Type().Underlying().(*types.Signature)}
		ysig := yp.Type().Underlying().(*types.Signature)
		var elemT types.Type
		if ysig.Params().Len() == 1 {
			elemT = ysig.Params().At(0).Type()
		} else {
			elemT = ysig.Params()
		}
		st.ghost["Y"] = Sl{c.zeroVal(elemT, []string{SInt}), "0", "0", tFalse, elemT}
		st.ghost["stopped"] = scBool(tFalse)
		body = fl.Body
		x.body = body
	} else {
		// function-typed parameters act as callbacks with the yield protocol (Trie.ForEach)
		for i := 0; i < sig.Params().Len(); i++ {
			p := sig.Params().At(i)
			if fs, ok := p.Type().Underlying().(*types.Signature); ok && ct.Modifies["callback:"+p.Name()] {
				st.vars[p] = Fn{Kind: "yield", Sig: fs}
				var elemT types.Type = fs.Params().At(0).Type()
				st.ghost["Y"] = Sl{c.zeroVal(elemT, []string{SInt}), "0", "0", tFalse, elemT}
				st.ghost["stopped"] = scBool(tFalse)
			}
		}
	}
	for i := 0; i < x.sig.Results().Len(); i++ {
		r := x.sig.Results().At(i)
		if r.Name() != "" && r.Name() != "_" {
			st.vars[r] = c.zeroVal(r.Type(), nil)
			x.results = append(x.results, r)
		}
	}
	if len(x.results) != x.sig.Results().Len() {
		x.results = nil
	}
	x.entry = st.clone()
	// body asserts
	x.collectBodyAsserts(fd)
	// requires
	env := x.specEnv(st, body.Lbrace)
	for k, rq := range ct.Requires {
		if ct.caseCover != nil && k == len(ct.Requires)-1 {
			// before the case hypothesis (the last requires) is assumed: the cases cover the precondition
			c.oblige("cases-cover", "", tTrue, env.evalBool(ct.caseCover.E), fd.Pos(), "the case split covers the precondition: "+ct.caseCover.Text)
		}
		g := env.evalBool(rq.E)
		c.assume(tTrue, g)
		// cover: the precondition must be satisfiable
		o := c.oblige("cover", fmt.Sprintf(":requires#%d", k+1), tTrue, tFalse, fd.Pos(), "requires clause is satisfiable: "+rq.Text)
		o.Expect = "sat"
	}
	x.entry = st.clone()
	for k, v := range st.heap {
		x.entry.heap[k] = v
	}
	end := x.execBlock(body.List, st)
	if end != nil {
		end = x.bodyAsserts(body.Rbrace, end)
	}
	if end != nil {
		var res Val = Tup{}
		if len(x.results) > 0 {
			var ev []Val
			for _, r := range x.results {
				ev = append(ev, end.vars[r])
			}
			res = Tup{ev}
		}
		x.returns = append(x.returns, retExit{end, res})
	}
	x.finish(fd)
}

func nonNilRecv(v Val) Val {
	if p, ok := v.(Pt); ok {
		p.Nil = tFalse
		return p
	}
	return v
}

// collectBodyAsserts finds `//@ assert e` comments inside the function body.
func (x *Exec) collectBodyAsserts(fd *ast.FuncDecl) {
	var file *ast.File
	for _, f := range x.pkg.files {
		if f.Pos() <= fd.Pos() && fd.End() <= f.End() {
			file = f
		}
	}
	if file == nil {
		return
	}
	for _, cg := range file.Comments {
		if cg.Pos() < fd.Body.Lbrace || cg.End() > fd.Body.Rbrace {
			continue
		}
		for _, rc := range contractLines(cg) {
			if rc.kw != "assert" {
				continue
			}
			ex, err := parseSpec(rc.text)
			if err != nil {
				panic(specFailure{err.Error()})
			}
			x.asserts = append(x.asserts, bodyAssert{pos: rc.pos, kind: "assert", text: rc.text, expr: ex})
		}
	}
	sort.Slice(x.asserts, func(i, j int) bool { return x.asserts[i].pos < x.asserts[j].pos })
}

// finish checks postconditions and the panic discipline.
func (x *Exec) finish(fd *ast.FuncDecl) {
	c := x.c
	ct := x.contract
	// hidden result variable to merge return states
	resVar := types.NewVar(token.NoPos, nil, "ret!val", x.sig.Results())
	var rstates []*State
	for _, r := range x.returns {
		r.st.vars[resVar] = r.res
		rstates = append(rstates, r.st)
	}
	final := x.merge(rstates)
	// panics
	if ct.Panics != nil {
		for _, p := range x.panics {
			env := x.specEnv(x.entry, fd.Body.Lbrace)
			env.st = x.entryWithGlobals(p.st)
			g := env.evalBool(ct.Panics.E)
			c.oblige("panic-ok", "", p.st.pc, g, p.pos, "panic only under the declared condition ("+p.what+"): "+ct.Panics.Text)
		}
		if final != nil {
			env := x.specEnv(x.entry, fd.Body.Lbrace)
			env.st = x.entryWithGlobals(final)
			g := env.evalBool(ct.Panics.E)
			c.oblige("must-panic", "", final.pc, tNot(g), fd.Body.Rbrace, "normal return only when the panic condition is false: "+ct.Panics.Text)
		}
	} else {
		for _, p := range x.panics {
			c.oblige("nopanic", "", p.st.pc, tFalse, p.pos, "panic site unreachable ("+p.what+")")
		}
	}
	if final == nil {
		if len(ct.Ensures) > 0 && len(x.panics) == 0 {
			c.notes = append(c.notes, "function has no normal exit")
		}
		return
	}
	// canary: the path to the normal exit must be satisfiable (vacuity guard)
	can := c.oblige("canary", ":exit", final.pc, tFalse, fd.Body.Rbrace, "hypotheses at the normal exit are consistent")
	can.Expect = "sat"
	res := final.vars[resVar]
	env := x.specEnv(final, x.body.Rbrace)
	env.res = res
	// parameters denote entry values in ensures (Go passes by value), except
	// objects (ghost state), pointers declared in `modifies`, and receivers that are pointers
	for obj, v := range x.entry.vars {
		pv, ok := obj.(*types.Var)
		if !ok || !(x.isParam(pv) || (x.sig.Recv() != nil && pv == x.sig.Recv())) {
			continue
		}
		if _, isObj := v.(Obj); isObj {
			continue
		}
		if containsObj(v) {
			continue
		}
		if env.oldNames == nil {
			env.oldNames = map[string]Val{}
		}
		env.oldNames[pv.Name()] = v
		if ct.Modifies[pv.Name()] {
			env.names[pv.Name()] = final.vars[pv]
			continue
		}
		env.names[pv.Name()] = v
	}
	if x.sig.Results().Len() > 0 {
		for i := 0; i < x.sig.Results().Len(); i++ {
			if nm := x.sig.Results().At(i).Name(); nm != "" && nm != "_" {
				if t, ok := res.(Tup); ok {
					env.names[nm] = t.E[i]
				}
			}
		}
	}
	// witnesses declared in an inner scope (a loop body that contains every return): bind them by name
	for _, w := range ct.Witness {
		if _, ok := env.lookup(w); ok {
			continue
		}
		var cands []types.Object
		for obj := range final.vars {
			if obj.Name() == w && obj.Pos().IsValid() {
				cands = append(cands, obj)
			}
		}
		sort.Slice(cands, func(i, j int) bool { return cands[i].Pos() < cands[j].Pos() })
		if len(cands) > 0 {
			env.names[w] = final.vars[cands[0]]
		}
	}
	// use-lemma: instantiate proved lemmas at the exit state (their requires are obligations)
	for _, ul := range ct.UseLemmas {
		ulCond := tTrue
		ulE := ul.E
		if imp, isImp := ulE.(*SBin); isImp && imp.Op == "==>" {
			ulCond = env.evalBool(imp.X)
			ulE = imp.Y
		}
		call, ok := ulE.(*SCall)
		if !ok {
			panic(specFailure{"use-lemma expects [cond ==>] name(args)"})
		}
		lm := c.eng.specs.lemmas[call.Fn]
		if lm == nil {
			panic(specFailure{"use-lemma: unknown lemma " + call.Fn})
		}
		if len(call.Args) != len(lm.Params) {
			panic(specFailure{fmt.Sprintf("use-lemma %s: %d arguments expected", call.Fn, len(lm.Params))})
		}
		bound := map[string]Sc{}
		for i, pa := range lm.Params {
			av := env.eval(call.Args[i])
			switch v := av.(type) {
			case Sc:
				bound[pa[0]] = Sc{v.T, specSort(pa[1])}
			case Sl, Ar:
				bound[pa[0]] = env.rawArr(v).(Sc)
			default:
				panic(specFailure{fmt.Sprintf("use-lemma %s: unsupported argument %d", call.Fn, i)})
			}
		}
		lenv := &SpecEnv{x: x, st: final, names: map[string]Val{}, bound: bound}
		for k, rq := range lm.Requires {
			g := lenv.evalBool(rq.E)
			for pi, part := range splitConj(g) {
				c.obligeAssume("lemma-pre:"+call.Fn, fmt.Sprintf("#%d.%d", k+1, pi+1), tAnd(final.pc, ulCond), part, fd.Body.Rbrace, "hypothesis of lemma "+call.Fn+": "+rq.Text)
			}
		}
		for _, en := range lm.Ensures {
			c.assume(tAnd(final.pc, ulCond), lenv.evalBool(en.E))
		}
		c.inlined["lemma:"+call.Fn] = true
	}
	// frame: a pointer parameter / receiver (value-mode pointer) that is not declared in `modifies` has an unchanged pointee
	// (fields holding external objects excepted: their ghost state is described by the ensures) - callers rely on this
	for obj, v := range x.entry.vars {
		pv, ok := obj.(*types.Var)
		if !ok || !(x.isParam(pv) || (x.sig.Recv() != nil && pv == x.sig.Recv())) || ct.Modifies[pv.Name()] {
			continue
		}
		ep, isPt := v.(Pt)
		if !isPt {
			continue
		}
		fv, ok := final.vars[pv]
		if !ok {
			continue
		}
		fp, isPt2 := fv.(Pt)
		if !isPt2 {
			continue
		}
		if g := nonObjEq(ep.Elem, fp.Elem); g != tTrue {
			c.oblige("frame", ":"+pv.Name(), tAnd(final.pc, tNot(ep.Nil)), g, fd.Body.Rbrace, "the struct "+pv.Name()+" points to is left unchanged (not declared in modifies; external objects inside excepted)")
		}
	}
	if ct.Pure {
		for obj, v := range x.entry.vars {
			pv, ok := obj.(*types.Var)
			if !ok || !(x.isParam(pv) || (x.sig.Recv() != nil && pv == x.sig.Recv())) || !containsObj(v) {
				continue
			}
			if fv, ok := final.vars[pv]; ok {
				c.oblige("frame:pure", ":"+pv.Name(), final.pc, vEqRepr(v, fv), fd.Body.Rbrace, "object argument "+pv.Name()+" is left unchanged (contract says pure)")
			}
		}
	}
	for k, en := range ct.Ensures {
		if q, isQ := en.E.(*SQuant); isQ && q.Forall && len(ct.SplitVars) > 0 {
			// skolemise the bound variables and split on the declared cases (a proof-search tactic, no assumption)
			bound := map[string]Sc{}
			for _, v := range q.Vars {
				srt := specSort(v[1])
				bound[v[0]] = Sc{c.fresh("sk."+v[0], srt), srt}
			}
			env.bound = bound
			var goal string
			var cases []string
			ok := true
			func() {
				defer func() {
					if r := recover(); r != nil {
						if _, isSF := r.(specFailure); isSF {
							ok = false
							return
						}
						panic(r)
					}
				}()
				goal = env.evalBool(q.Body)
				for _, sv := range ct.SplitVars {
					cases = append(cases, env.evalBool(sv.E))
				}
			}()
			env.bound = nil
			if ok {
				o := c.oblige("post", fmt.Sprintf("#%d", k+1), final.pc, goal, fd.Body.Rbrace, en.Text)
				o.Split = cases
				if len(en.Props) > 0 {
					o.Props = en.Props
				}
				if ct.Sequential {
					c.assume(final.pc, env.evalBool(en.E))
				}
				continue
			}
		}
		g := env.evalBool(en.E)
		parts := splitConj(g)
		for pi, part := range parts {
			suffix := fmt.Sprintf("#%d", k+1)
			if len(parts) > 1 {
				suffix += "." + string(rune('a'+pi))
			}
			o := c.oblige("post", suffix, final.pc, part, fd.Body.Rbrace, en.Text)
			if len(en.Props) > 0 {
				o.Props = en.Props
			}
			if ct.Sequential {
				c.assume(final.pc, part) // later ensures may use earlier ones (each is an obligation of its own)
			}
		}
	}
}

func containsObj(v Val) bool {
	switch o := v.(type) {
	case Obj:
		return true
	case St:
		for _, f := range o.F {
			if containsObj(f) {
				return true
			}
		}
	case Pt:
		return containsObj(o.Elem)
	}
	return false
}

// entryWithGlobals: the entry state extended with globals that were created
// lazily on a later path (they are immutable outside init functions).
func (x *Exec) entryWithGlobals(later *State) *State {
	st := x.entry.clone()
	for obj, v := range later.vars {
		if pv, ok := obj.(*types.Var); ok && pv.Pkg() != nil && pv.Parent() == pv.Pkg().Scope() {
			if _, has := st.vars[obj]; !has {
				st.vars[obj] = v
			}
		}
	}
	return st
}

// ---- lemmas ----

func (e *Engine) verifyLemma(lm *Lemma) *FuncReport {
	rep := &FuncReport{Name: "lemma:" + lm.Name, Props: lm.Props, Kind: "lemma", Pos: lm.File}
	c := newCtx(e, nil, rep.Name, lm.Props)
	defer func() {
		if r := recover(); r != nil {
			switch f := r.(type) {
			case specFailure:
				rep.Status = "stale-contract"
				rep.Reason = f.msg
			case unsupportedErr:
				rep.Status = "outside-subset"
				rep.Reason = f.msg
			default:
				panic(r)
			}
			rep.obls = nil
		}
	}()
	x := &Exec{c: c, loopOrd: new(int)}
	mkEnv := func(sub map[string]Sc) *SpecEnv {
		return &SpecEnv{x: x, st: &State{vars: nil, heap: map[string]Val{}, ghost: map[string]Val{}, pc: tTrue}, names: map[string]Val{}, bound: sub}
	}
	consts := map[string]Sc{}
	for _, p := range lm.Params {
		s := specSort(p[1])
		consts[p[0]] = Sc{c.fresh(p[0], s), s}
	}
	for _, u := range lm.Uses {
		c.used[u] = true
	}
	stmt := func(sub map[string]Sc) (string, string) {
		env := mkEnv(sub)
		var rq, en []string
		for _, r := range lm.Requires {
			rq = append(rq, env.evalBool(r.E))
		}
		for _, r := range lm.Ensures {
			en = append(en, env.evalBool(r.E))
		}
		return tAnd(rq...), tAnd(en...)
	}
	if lm.Induction == "" {
		rq, en := stmt(consts)
		c.assume(tTrue, rq)
		can := c.oblige("canary", ":lemma", tTrue, tFalse, token.NoPos, "hypotheses of the lemma are consistent")
		can.Expect = "sat"
		for i, part := range splitConj(en) {
			c.oblige("lemma", fmt.Sprintf("#%d", i+1), tTrue, part, token.NoPos, lm.Name)
			c.assume(tTrue, part) // later conjuncts may use earlier (proved) ones
		}
	} else {
		v := consts[lm.Induction]
		if fc, ok := consts[lm.From]; ok {
			lm = &Lemma{Name: lm.Name, Params: lm.Params, Requires: lm.Requires, Ensures: lm.Ensures, Induction: lm.Induction,
				From: fc.T, Generalize: lm.Generalize, Attach: lm.Attach, Props: lm.Props, Pattern: lm.Pattern, Uses: lm.Uses, File: lm.File, Order: lm.Order, Splits: lm.Splits}
		}
		// base
		base := map[string]Sc{}
		for k, s := range consts {
			base[k] = s
		}
		rq, en := stmt(consts)
		nd, nf := len(c.decls), len(c.facts)
		_ = nd
		// base case: v == from
		c.assume(tTrue, rq)
		baseCond := tEq(v.T, lm.From)
		can := c.oblige("canary", ":lemma-base", baseCond, tFalse, token.NoPos, "hypotheses of the base case are consistent")
		can.Expect = "sat"
		nfb := len(c.facts)
		for i, part := range splitConj(en) {
			c.oblige("lemma-base", fmt.Sprintf("#%d", i+1), baseCond, part, token.NoPos, lm.Name+" base")
			c.assume(baseCond, part)
		}
		c.facts = c.facts[:nfb]
		// step: v > from, IH at v-1 (generalized parameters universally quantified)
		ih := map[string]Sc{}
		var qv [][2]string
		for k, s := range consts {
			ih[k] = s
		}
		for _, g := range lm.Generalize {
			s := consts[g]
			n := "g!" + g
			ih[g] = Sc{n, s.S}
			qv = append(qv, [2]string{n, s.S})
		}
		ih[lm.Induction] = Sc{tSub(v.T, "1"), v.S}
		_, ien := stmt(ih)
		// hypotheses of the induction hypothesis: only the requires clauses that change under the
		// substitution n := n-1 (the others are literally the lemma's own hypotheses, already assumed)
		var irqs []string
		for _, r := range lm.Requires {
			orig := mkEnv(consts).evalBool(r.E)
			sub := mkEnv(ih).evalBool(r.E)
			if orig != sub {
				irqs = append(irqs, sub)
			}
		}
		irq := tAnd(irqs...)
		// the lemma's pattern (if any) also triggers the induction hypothesis (when it binds every generalized variable)
		var ihPats []string
		if len(qv) > 0 && len(lm.Pattern) > 0 {
			var ps []string
			penv := mkEnv(ih)
			for _, p := range lm.Pattern {
				ps = append(ps, penv.eval(p).(Sc).T)
			}
			joined := strings.Join(ps, " ")
			all := true
			for _, v := range qv {
				if !strings.Contains(joined, v[0]) {
					all = false
				}
			}
			if all {
				ihPats = []string{joined}
			}
		}
		ihT := tForall(qv, tImp(irq, ien), ihPats...)
		stepCond := tGt(v.T, lm.From)
		c.facts = c.facts[:nf]
		c.assume(tTrue, rq)
		c.assume(stepCond, ihT)
		can2 := c.oblige("canary", ":lemma-step", stepCond, tFalse, token.NoPos, "hypotheses of the induction step (with the induction hypothesis) are consistent")
		can2.Expect = "sat"
		var cases []string
		if len(lm.Splits) > 0 {
			env := mkEnv(consts)
			for _, sp := range lm.Splits {
				cases = append(cases, env.evalBool(sp.E))
			}
		}
		for i, part := range splitConj(en) {
			o := c.oblige("lemma-step", fmt.Sprintf("#%d", i+1), stepCond, part, token.NoPos, lm.Name+" step")
			o.Split = cases
			c.assume(stepCond, part) // later conjuncts may use earlier (proved) ones
		}
	}
	rep.Status = "generated"
	rep.obls = c.obls
	rep.NumObl = len(c.obls)
	rep.Axioms = e.assumedAxioms(c.used)
	return rep
}

// assumedAxioms lists the axioms (spec file items `axiom ...`) of the spec functions reachable from the used ones:
// they constrain uninterpreted functions (standard-library behaviour, arithmetic facts re-proved by lemmas) and are
// assumptions of every obligation that mentions them.
func (e *Engine) assumedAxioms(used map[string]bool) []string {
	var out []string
	for _, sf := range e.specClosure(used) {
		for _, ax := range sf.Axioms {
			t := strings.Join(strings.Fields(ax.Text), " ")
			if len(t) > 260 {
				t = t[:260] + "..."
			}
			out = append(out, fmt.Sprintf("%s (%s): %s", sf.Name, ax.Line, t))
		}
	}
	return out
}

// lemmaAxiom renders a proved lemma as an axiom for use by others.
func (e *Engine) lemmaAxiom(lm *Lemma, c *Ctx) string {
	x := &Exec{c: c, loopOrd: new(int)}
	bound := map[string]Sc{}
	var qv [][2]string
	for _, p := range lm.Params {
		s := specSort(p[1])
		n := "l!" + p[0]
		bound[p[0]] = Sc{n, s}
		qv = append(qv, [2]string{n, s})
	}
	env := &SpecEnv{x: x, st: &State{vars: nil, heap: map[string]Val{}, ghost: map[string]Val{}, pc: tTrue}, names: map[string]Val{}, bound: bound}
	var rq, en []string
	for _, r := range lm.Requires {
		rq = append(rq, env.evalBool(r.E))
	}
	for _, r := range lm.Ensures {
		en = append(en, env.evalBool(r.E))
	}
	var pats []string
	for _, p := range lm.Pattern {
		pats = append(pats, env.eval(p).(Sc).T)
	}
	if len(pats) > 0 {
		return tForall(qv, tImp(tAnd(rq...), tAnd(en...)), strings.Join(pats, " "))
	}
	return tForall(qv, tImp(tAnd(rq...), tAnd(en...)))
}

// ---- SMT text ----

func (e *Engine) smtText(o *Oblig, extra string, splitCase string) string {
	c := o.ctx
	var b strings.Builder
	b.WriteString("(set-option :produce-models true)\n(set-logic ALL)\n")
	usesStr := c.usesStr
	body := strings.Join(c.decls[:o.NDecl], "\n") + strings.Join(c.facts[:o.NFact], "\n") + o.PC + o.Goal
	if strings.Contains(body, "slen") || strings.Contains(body, "Str") || strings.Contains(body, "str!") {
		usesStr = true
	}
	used := map[string]bool{}
	for k := range c.used {
		used[k] = true
	}
	closure := e.specClosure(used)
	// an attached lemma whose target function is in the closure brings the spec functions it mentions with it
	// (otherwise it would have to be dropped exactly where it is needed)
	for changed := true; changed; {
		changed = false
		inCl := map[string]bool{}
		for _, sf := range closure {
			inCl[sf.Name] = true
		}
		for _, ln := range e.specs.lorder {
			lm := e.specs.lemmas[ln]
			if "lemma:"+lm.Name == c.fn {
				break
			}
			att := false
			for _, a := range lm.Attach {
				if inCl[a] {
					att = true
				}
			}
			if !att {
				continue
			}
			for u := range e.lemmaUses(lm) {
				if !used[u] {
					used[u] = true
					changed = true
				}
			}
		}
		if changed {
			closure = e.specClosure(used)
		}
	}
	var closureText strings.Builder
	for _, sf := range closure {
		if strings.Contains(sf.decl, "Str") {
			usesStr = true
		}
		closureText.WriteString(sf.decl)
		closureText.WriteString(strings.Join(sf.axioms, " "))
	}
	body += closureText.String() // for the "does the query mention X" tests below
	if usesStr {
		b.WriteString("(declare-sort Str 0)\n(declare-fun slen (Str) Int)\n(declare-fun sat (Str Int) Int)\n(declare-const str!empty Str)\n")
		b.WriteString("(assert (= (slen str!empty) 0))\n")
		b.WriteString("(assert (forall ((s Str)) (! (and (>= (slen s) 0) (<= (slen s) 72057594037927936)) :pattern ((slen s)))))\n")
		b.WriteString("(assert (forall ((s Str) (i Int)) (! (and (<= 0 (sat s i)) (<= (sat s i) 255)) :pattern ((sat s i)))))\n")
		b.WriteString("(declare-fun str!cat (Str Str) Str)\n(declare-fun str!sub (Str Int Int) Str)\n")
		if c.used["str!sub"] || strings.Contains(body, "str!sub") {
			b.WriteString("(assert (forall ((s Str) (lo Int) (hi Int)) (! (=> (and (<= 0 lo) (<= lo hi) (<= hi (slen s))) (= (slen (str!sub s lo hi)) (- hi lo))) :pattern ((str!sub s lo hi)))))\n")
			b.WriteString("(assert (forall ((s Str) (lo Int) (hi Int) (j Int)) (! (=> (and (<= 0 lo) (<= lo hi) (<= hi (slen s)) (<= 0 j) (< j (- hi lo))) (= (sat (str!sub s lo hi) j) (sat s (+ lo j)))) :pattern ((sat (str!sub s lo hi) j)))))\n")
		}
		if c.used["str!ext"] {
			b.WriteString("(assert (forall ((s Str) (t Str)) (! (=> (and (= (slen s) (slen t)) (forall ((i Int)) (=> (and (<= 0 i) (< i (slen s))) (= (sat s i) (sat t i))))) (= s t)) :pattern ((slen s) (slen t)))))\n")
		}
	}
	if c.used["dyn!"] || strings.Contains(body, "dyn!") || strings.Contains(body, "box!") || strings.Contains(body, "Dyn") {
		// interface values: an uninterpreted sort with injective constructors per payload sort and projections
		// (an Int-valued encoding would be inconsistent: there is no injection from reals or arrays into the integers)
		b.WriteString("(declare-sort Dyn 0)\n(declare-const dyn!nil Dyn)\n")
		b.WriteString("(declare-fun dyn!ty (Dyn) Int)\n(declare-fun dyn!i (Dyn) Int)\n(declare-fun dyn!r (Dyn) Real)\n(declare-fun dyn!ba (Dyn) (Array Int Int))\n(declare-fun dyn!bl (Dyn) Int)\n")
		b.WriteString("(declare-fun box!i (Int Int) Dyn)\n(declare-fun box!r (Int Real) Dyn)\n(declare-fun box!b (Int (Array Int Int) Int) Dyn)\n")
		b.WriteString("(assert (forall ((c Int) (v Int)) (! (and (not (= (box!i c v) dyn!nil)) (= (dyn!ty (box!i c v)) c) (= (dyn!i (box!i c v)) v)) :pattern ((box!i c v)))))\n")
		b.WriteString("(assert (forall ((c Int) (v Real)) (! (and (not (= (box!r c v) dyn!nil)) (= (dyn!ty (box!r c v)) c) (= (dyn!r (box!r c v)) v)) :pattern ((box!r c v)))))\n")
		b.WriteString("(assert (forall ((c Int) (a (Array Int Int)) (n Int)) (! (=> (>= n 0) (and (not (= (box!b c a n) dyn!nil)) (= (dyn!ty (box!b c a n)) c) (= (dyn!ba (box!b c a n)) a) (= (dyn!bl (box!b c a n)) n))) :pattern ((box!b c a n)))))\n")
		b.WriteString("(assert (forall ((t Dyn)) (! (>= (dyn!bl t) 0) :pattern ((dyn!bl t)))))\n")
		if usesStr {
			b.WriteString("(declare-fun dyn!s (Dyn) Str)\n(declare-fun box!s (Int Str) Dyn)\n")
			b.WriteString("(assert (forall ((c Int) (v Str)) (! (and (not (= (box!s c v) dyn!nil)) (= (dyn!ty (box!s c v)) c) (= (dyn!s (box!s c v)) v)) :pattern ((box!s c v)))))\n")
		}
	}
	for _, n := range []int{2, 3} {
		kn := fmt.Sprintf("key!%d", n)
		if !strings.Contains(body, kn) && !strings.Contains(body, "tk!a") {
			found := false
			for _, sf := range closure {
				if strings.Contains(sf.decl, kn) || strings.Contains(strings.Join(sf.axioms, " "), kn) {
					found = true
				}
			}
			if !found {
				continue
			}
		}
		var sorts, vars, args []string
		val := "0"
		for i := 0; i < n; i++ {
			sorts = append(sorts, SInt)
			vars = append(vars, fmt.Sprintf("(k%d Int)", i))
			args = append(args, fmt.Sprintf("k%d", i))
			val = fmt.Sprintf("(+ (* 256 %s) k%d)", val, i)
		}
		// key!N(k0..) is the base-256 number of its (byte) arguments: injective on bytes; kept as a symbol so
		// that quantified facts can be triggered on it
		b.WriteString(fmt.Sprintf("(declare-fun %s (%s) Int)\n", kn, strings.Join(sorts, " ")))
		// stated as two inequalities: z3 turns "forall k. f(k) = t" into a macro and eliminates f, after which
		// quantified hypotheses triggered on f (a symmetric matrix: m[key(x,y)] == m[key(y,x)]) can no longer fire
		b.WriteString(fmt.Sprintf("(assert (forall (%s) (! (and (<= (%s %s) %s) (>= (%s %s) %s)) :pattern ((%s %s)))))\n",
			strings.Join(vars, " "), kn, strings.Join(args, " "), val, kn, strings.Join(args, " "), val, kn, strings.Join(args, " ")))
		for i := 0; i < n; i++ {
			div := int64(1)
			for j := i + 1; j < n; j++ {
				div *= 256
			}
			b.WriteString(fmt.Sprintf("(define-fun %s.%d ((k Int)) Int (mod (div k %d) 256))\n", kn, i, div))
		}
	}
	// spec functions: declarations first, then definitions in order, then axioms
	for _, sf := range closure {
		if strings.HasPrefix(sf.decl, "(declare-") {
			b.WriteString(sf.decl + "\n")
		}
	}
	for _, sf := range closure {
		if strings.HasPrefix(sf.decl, "(define-fun") {
			b.WriteString(sf.decl + "\n")
		}
	}
	for _, sf := range closure {
		for _, ax := range sf.axioms {
			b.WriteString("(assert " + ax + ")\n")
		}
	}
	// attached lemmas (proved separately)
	inClosure := map[string]bool{}
	for _, sf := range closure {
		inClosure[sf.Name] = true
	}
	for _, ln := range e.specs.lorder {
		lm := e.specs.lemmas[ln]
		if "lemma:"+lm.Name == c.fn {
			break // a lemma may only use lemmas stated before it
		}
		for _, a := range lm.Attach {
			if inClosure[a] {
				sc := newCtx(e, nil, "lemma-ax", nil)
				ax := e.lemmaAxiom(lm, sc)
				ok := true
				for u := range sc.used {
					if e.specs.funcs[u] != nil && !inClosure[u] {
						ok = false
					}
				}
				if ok {
					b.WriteString("(assert " + ax + ") ; lemma " + lm.Name + "\n")
				}
				break
			}
		}
	}
	for _, d := range c.decls[:o.NDecl] {
		b.WriteString(d + "\n")
	}
	for _, f := range c.facts[:o.NFact] {
		b.WriteString("(assert " + f + ")\n")
	}
	b.WriteString("(assert " + o.PC + ")\n")
	if splitCase != "" {
		b.WriteString("(assert " + splitCase + ")\n")
	}
	b.WriteString("(assert (not " + o.Goal + "))\n")
	if extra != "" {
		b.WriteString(extra + "\n")
	}
	b.WriteString("(check-sat)\n")
	text := b.String()
	// cvc5 rejects constant arrays of a non-value element: name the all-empty string array
	const ca = "((as const (Array Int Str)) str!empty)"
	if strings.Contains(text, ca) {
		text = strings.ReplaceAll(text, ca, "str!zeros")
		decl := "(declare-const str!zeros (Array Int Str))\n(assert (forall ((i Int)) (! (= (select str!zeros i) str!empty) :pattern ((select str!zeros i)))))\n"
		text = strings.Replace(text, "(declare-fun str!cat", decl+"(declare-fun str!cat", 1)
	}
	// the same for constant arrays of interface values
	for _, idx := range []string{"Int", "Str"} {
		cad := "((as const (Array " + idx + " Dyn)) dyn!nil)"
		if strings.Contains(text, cad) {
			name := "dyn!zeros." + idx
			text = strings.ReplaceAll(text, cad, name)
			decl := "(declare-const " + name + " (Array " + idx + " Dyn))\n(assert (forall ((i " + idx + ")) (! (= (select " + name + " i) dyn!nil) :pattern ((select " + name + " i)))))\n"
			text = strings.Replace(text, "(declare-fun dyn!ty (Dyn) Int)", decl+"(declare-fun dyn!ty (Dyn) Int)", 1)
		}
	}
	return text
}

// verifyGlobalInit checks that a global's initializer expression establishes
// its declared invariants (established-by initializer), and that nothing else
// assigns it.
func (e *Engine) verifyGlobalInit(key string, gi *globalInfo) (rep *FuncReport) {
	rep = &FuncReport{Name: "global:" + key, Props: gi.props, Kind: "global"}
	c := newCtx(e, gi.pkg, rep.Name, gi.props)
	defer func() {
		if r := recover(); r != nil {
			switch f := r.(type) {
			case unsupportedErr:
				rep.Status = "outside-subset"
				rep.Reason = f.msg
			case specFailure:
				rep.Status = "stale-contract"
				rep.Reason = f.msg
			default:
				panic(r)
			}
			rep.obls = nil
		}
	}()
	if gi.init == nil {
		panic(specFailure{"global " + key + " has no initializer"})
	}
	x := &Exec{c: c, pkg: gi.pkg, info: gi.pkg.info, sig: types.NewSignatureType(nil, nil, nil, nil, nil, false), loopOrd: new(int)}
	st := &State{vars: map[types.Object]Val{}, heap: map[string]Val{}, ghost: map[string]Val{}, pc: tTrue}
	x.entry = st.clone()
	v, _ := x.eval(gi.init, st)
	st.vars[gi.obj] = v
	env := &SpecEnv{x: x, st: st, names: map[string]Val{gi.obj.Name(): v}}
	c.oblige("unassigned", "", tTrue, boolTerm(!gi.assigned), gi.obj.Pos(), "nothing assigns "+gi.obj.Name()+" after its initializer")
	for k, inv := range gi.invs {
		g := env.evalBool(inv.E)
		for pi, part := range splitConj(g) {
			c.oblige("global-init", fmt.Sprintf("#%d.%d", k+1, pi+1), tTrue, part, gi.obj.Pos(), inv.Text)
		}
	}
	rep.Status = "generated"
	rep.obls = c.obls
	rep.NumObl = len(c.obls)
	rep.Notes = dedup(c.notes)
	return rep
}

func boolTerm(b bool) string {
	if b {
		return tTrue
	}
	return tFalse
}

// nonObjEq: equality of two values of the same shape, ignoring external objects.
func nonObjEq(a, b Val) string {
	switch av := a.(type) {
	case Obj:
		return tTrue
	case St:
		bv, ok := b.(St)
		if !ok || len(bv.F) != len(av.F) {
			return tFalse
		}
		var cs []string
		for i := range av.F {
			cs = append(cs, nonObjEq(av.F[i], bv.F[i]))
		}
		return tAnd(cs...)
	case Pt:
		bv, ok := b.(Pt)
		if !ok {
			return tFalse
		}
		return tAnd(tEq(av.Nil, bv.Nil), nonObjEq(av.Elem, bv.Elem))
	}
	if containsObj(a) {
		return tTrue
	}
	la, lb := leaves(a), leaves(b)
	if len(la) != len(lb) {
		return tFalse
	}
	var cs []string
	for i := range la {
		cs = append(cs, tEq(la[i], lb[i]))
	}
	return tAnd(cs...)
}

// lemmaUses: the spec functions a lemma's statement mentions (cached).
var lemmaUseMu sync.Mutex

func (e *Engine) lemmaUses(lm *Lemma) map[string]bool {
	lemmaUseMu.Lock()
	defer lemmaUseMu.Unlock()
	if e.lemmaUse == nil {
		e.lemmaUse = map[string]map[string]bool{}
	}
	if u, ok := e.lemmaUse[lm.Name]; ok {
		return u
	}
	sc := newCtx(e, nil, "lemma-ax", nil)
	func() {
		defer func() { recover() }()
		e.lemmaAxiom(lm, sc)
	}()
	u := map[string]bool{}
	for k := range sc.used {
		if e.specs.funcs[k] != nil {
			u[k] = true
		}
	}
	e.lemmaUse[lm.Name] = u
	return u
}
