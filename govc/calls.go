package main

import (
	"fmt"
	"go/ast"
	"go/constant"
	"go/token"
	"go/types"
	"strings"
)

func (x *Exec) evalCall(n *ast.CallExpr, st *State) (Val, *State) {
	c := x.c
	// conversions
	if tv, ok := x.info.Types[n.Fun]; ok && tv.IsType() {
		return x.evalConversion(n, tv.Type, st)
	}
	// builtins
	if id, ok := ast.Unparen(n.Fun).(*ast.Ident); ok {
		if _, isB := x.info.Uses[id].(*types.Builtin); isB {
			return x.evalBuiltin(id.Name, n, st)
		}
		// call of a function-typed variable (yield, f)
		if v, isVar := x.info.Uses[id].(*types.Var); isVar {
			fv, ok := st.vars[v]
			if !ok {
				panic(unsupported("call of unknown function variable %s", id.Name))
			}
			fn := fv.(Fn)
			if fn.Kind == "yield" {
				return x.callYield(n, st)
			}
			panic(unsupported("call of function value %s (%s)", id.Name, fn.Kind))
		}
	}
	// resolve callee
	var callee *types.Func
	var recvExpr ast.Expr
	switch f := ast.Unparen(n.Fun).(type) {
	case *ast.Ident:
		callee, _ = x.info.Uses[f].(*types.Func)
	case *ast.SelectorExpr:
		if sel := x.info.Selections[f]; sel != nil {
			callee, _ = sel.Obj().(*types.Func)
			recvExpr = f.X
		} else {
			callee, _ = x.info.Uses[f.Sel].(*types.Func)
		}
	case *ast.IndexExpr: // generic instantiation f[T](...)
		switch g := f.X.(type) {
		case *ast.Ident:
			callee, _ = x.info.Uses[g].(*types.Func)
		case *ast.SelectorExpr:
			callee, _ = x.info.Uses[g.Sel].(*types.Func)
		}
	}
	if callee == nil {
		panic(unsupported("call of %s", x.src(n.Fun)))
	}
	qn := c.eng.qualName(callee)
	// contract?
	if ct := c.eng.contracts[qn]; ct != nil && !(x.depth == 0 && qn == c.fn && false) {
		// `inline F` in a theorem: execute F's body (its callees are still replaced by their contracts)
		short := qn[strings.LastIndex(qn, "/")+1:]
		if x.contract != nil && x.depth == 0 && (x.contract.Inline[qn] || x.contract.Inline[short] || x.contract.Inline[short[strings.Index(short, ".")+1:]]) {
			if fd := c.eng.funcDecl(callee); fd != nil {
				return x.inlineCall(callee, fd, n, recvExpr, st)
			}
		}
		return x.callByContract(ct, callee, n, recvExpr, st)
	}
	// extern handler?
	if h, ok := externs[qn]; ok {
		c.externs[qn] = true
		return h(x, n, recvExpr, st)
	}
	// same-module helper without contract: inline
	if fd := c.eng.funcDecl(callee); fd != nil {
		return x.inlineCall(callee, fd, n, recvExpr, st)
	}
	panic(unsupported("call to external function %s has no assumed contract (outside subset)", qn))
}

func (x *Exec) evalArgs(n *ast.CallExpr, sig *types.Signature, st *State) ([]Val, *State) {
	var args []Val
	np := sig.Params().Len()
	if sig.Variadic() && !n.Ellipsis.IsValid() {
		for i := 0; i < np-1; i++ {
			v, s := x.eval(n.Args[i], st)
			st = s
			args = append(args, x.convertTo(v, x.typeOf(n.Args[i]), sig.Params().At(i).Type(), st))
		}
		et := sig.Params().At(np - 1).Type().(*types.Slice).Elem()
		arr := x.c.zeroVal(et, []string{SInt})
		cnt := 0
		for i := np - 1; i < len(n.Args); i++ {
			v, s := x.eval(n.Args[i], st)
			st = s
			arr = vStore(arr, tInt(int64(cnt)), x.convertTo(v, x.typeOf(n.Args[i]), et, st))
			cnt++
		}
		nilT := tFalse
		if cnt == 0 {
			nilT = tTrue
		}
		args = append(args, Sl{arr, "0", tInt(int64(cnt)), nilT, et})
		return args, st
	}
	if len(n.Args) == 1 && np > 1 {
		v, s := x.evalMulti(n.Args[0], st)
		return v.(Tup).E, s
	}
	for i, a := range n.Args {
		v, s := x.eval(a, st)
		st = s
		if st == nil {
			return nil, nil
		}
		var pt types.Type
		if i < np {
			pt = sig.Params().At(i).Type()
		}
		args = append(args, x.convertTo(v, x.typeOf(a), pt, st))
	}
	return args, st
}

func (x *Exec) evalConversion(n *ast.CallExpr, to types.Type, st *State) (Val, *State) {
	c := x.c
	v, st2 := x.eval(n.Args[0], st)
	st = st2
	from := x.typeOf(n.Args[0])
	kt, _ := classify(to)
	kf, _ := classify(from)
	switch {
	case v == nil:
		return c.zeroVal(to, nil), st
	case kt == kInt && kf == kInt:
		s := v.(Sc)
		if c.bv {
			return s, st
		}
		if lo, hi, ok := intRange(to); ok {
			flo, fhi, fok := intRange(from)
			if fok && flo >= lo && fhi <= hi {
				return s, st
			}
			if lo == 0 {
				return scInt(app("mod", s.T, tInt(hi+1))), st
			}
			panic(unsupported("narrowing signed conversion"))
		}
		return s, st
	case kt == kReal && kf == kInt:
		return Sc{toReal(v.(Sc)), SReal}, st
	case kt == kReal && kf == kReal:
		return v, st
	case kt == kStr && kf == kSlice:
		// string([]byte)
		s := v.(Sl)
		n2 := c.fresh("str", SStr)
		c.usesStr = true
		c.assumeDef(tEq(app("slen", n2), s.Len))
		arr := s.Arr.(Sc).T
		c.assumeDef(tForall([][2]string{{"i!v", SInt}},
			tImp(tAnd(tLe("0", "i!v"), tLt("i!v", s.Len)), tEq(app("sat", n2, "i!v"), tSel(arr, tAdd(s.Off, "i!v")))),
			app("sat", n2, "i!v")))
		return Sc{n2, SStr}, st
	case kt == kSlice && kf == kStr:
		if cv, ok := x.constOf(n.Args[0]); ok {
			// []byte("literal"): explicit elements, literal length
			lit := constant.StringVal(cv)
			arr := zeroOf(arrSort(SInt, SInt))
			for i := 0; i < len(lit); i++ {
				arr = tSto(arr, tInt(int64(i)), tInt(int64(lit[i])))
			}
			et := to.Underlying().(*types.Slice).Elem()
			return Sl{Sc{arr, arrSort(SInt, SInt)}, "0", tInt(int64(len(lit))), tFalse, et}, st
		}
		s := v.(Sc)
		arr := c.fresh("bytes", arrSort(SInt, SInt))
		c.assumeDef(tForall([][2]string{{"i!v", SInt}},
			tImp(tAnd(tLe("0", "i!v"), tLt("i!v", app("slen", s.T))), tEq(tSel(arr, "i!v"), app("sat", s.T, "i!v"))),
			tSel(arr, "i!v")))
		c.assumeDef(tForall([][2]string{{"i!v", SInt}}, tAnd(tLe("0", tSel(arr, "i!v")), tLe(tSel(arr, "i!v"), "255")), tSel(arr, "i!v")))
		et := to.Underlying().(*types.Slice).Elem()
		return Sl{Sc{arr, arrSort(SInt, SInt)}, "0", app("slen", s.T), tFalse, et}, st
	case kt == kStr && kf == kInt:
		// string(byte/rune): UTF-8 encoding of the code point
		s := v.(Sc)
		n2 := c.fresh("runestr", SStr)
		c.usesStr = true
		c.assumeDef(tImp(tAnd(tLe("0", s.T), tLt(s.T, "128")), tAnd(tEq(app("slen", n2), "1"), tEq(app("sat", n2, "0"), s.T))))
		c.assumeDef(tImp(tAnd(tLe("128", s.T), tLt(s.T, "2048")), tAnd(tEq(app("slen", n2), "2"),
			tEq(app("sat", n2, "0"), tAdd("192", app("div", s.T, "64"))), tEq(app("sat", n2, "1"), tAdd("128", app("mod", s.T, "64"))))))
		return Sc{n2, SStr}, st
	case kt == kf:
		return v, st
	case kt == kPtr && kf == kPtr:
		return v, st
	}
	panic(unsupported("conversion %s -> %s", typeName(from), typeName(to)))
}

func (x *Exec) evalBuiltin(name string, n *ast.CallExpr, st *State) (Val, *State) {
	c := x.c
	switch name {
	case "len", "cap":
		v, st2 := x.eval(n.Args[0], st)
		switch b := v.(type) {
		case Sl:
			if name == "cap" {
				cp := c.fresh("cap", SInt)
				c.assumeHere(tGe(cp, b.Len))
				return scInt(cp), st2
			}
			return scInt(b.Len), st2
		case Ar:
			return scInt(tInt(b.N)), st2
		case Mp:
			// len(m) is the exact number of keys (the engine keeps it exact under insert and delete): a map of length 0
			// has no key - stated here for the map value at hand, SMT has no cardinality reasoning to derive it
			c.assume(st2.pc, tImp(tEq(b.Len, "0"), tForall([][2]string{{"k!e", b.KS}}, tNot(tSel(b.Has, "k!e")), tSel(b.Has, "k!e"))))
			// ... and a map of non-zero length has one (named by a fresh constant; on request: `map-witness`)
			if x.contract != nil && x.contract.MapWitness {
				wk := c.fresh("somekey", b.KS)
				c.assume(st2.pc, tImp(tNot(tEq(b.Len, "0")), tSel(b.Has, wk)))
			}
			return scInt(b.Len), st2
		case Sc:
			if b.S == SStr {
				return scInt(app("slen", b.T)), st2
			}
		}
		panic(unsupported("len of %T", v))
	case "min", "max":
		a, s1 := x.eval(n.Args[0], st)
		b, s2 := x.eval(n.Args[1], s1)
		as, bs := a.(Sc), b.(Sc)
		if as.S == SReal || bs.S == SReal {
			ar, br := toReal(as), toReal(bs)
			if name == "min" {
				return Sc{tIte(tLe(ar, br), ar, br), SReal}, s2
			}
			return Sc{tIte(tGe(ar, br), ar, br), SReal}, s2
		}
		if name == "min" {
			return Sc{tIte(tLe(as.T, bs.T), as.T, bs.T), as.S}, s2
		}
		return Sc{tIte(tGe(as.T, bs.T), as.T, bs.T), as.S}, s2
	case "panic":
		// the message is abstracted (DESIGN 3.1 item 2) but its evaluation may have obligations
		_, st2 := x.eval(n.Args[0], st)
		if st2 != nil {
			x.panics = append(x.panics, panicExit{st2, n.Pos(), "explicit panic"})
		}
		return Tup{}, nil
	case "make":
		t := x.typeOf(n)
		k, _ := classify(t)
		switch k {
		case kSlice:
			lv, st2 := x.eval(n.Args[1], st)
			st = st2
			et := t.Underlying().(*types.Slice).Elem()
			l := lv.(Sc).T
			c.obligeAssume("makelen", "", st.pc, tGe(l, "0"), n.Pos(), "make: non-negative length")
			if len(n.Args) > 2 {
				cv, st3 := x.eval(n.Args[2], st)
				st = st3
				c.obligeAssume("makelen", "", st.pc, tGe(cv.(Sc).T, l), n.Pos(), "make: len <= cap")
			}
			return Sl{c.zeroVal(et, []string{SInt}), "0", l, tFalse, et}, st
		case kMap:
			if len(n.Args) > 1 {
				_, st = x.eval(n.Args[1], st)
			}
			mv := c.zeroVal(t, nil).(Mp)
			mv.Nil = tFalse
			return mv, st
		}
		panic(unsupported("make of %s", typeName(t)))
	case "append":
		return x.evalAppend(n, st)
	case "copy":
		return x.evalCopy(n, st)
	case "delete":
		mv, st2 := x.eval(n.Args[0], st)
		kv, st3 := x.eval(n.Args[1], st2)
		st = st3
		m := mv.(Mp)
		k := encodeKey(kv)
		had := tSel(m.Has, k)
		if id, ok := ast.Unparen(n.Args[0]).(*ast.Ident); ok {
			if pv, ok := x.info.Uses[id].(*types.Var); ok && x.depth == 0 && (x.isParam(pv) || (x.sig.Recv() != nil && pv == x.sig.Recv())) {
				if x.contract == nil || !x.contract.Modifies[id.Name] {
					c.oblige("frame:"+id.Name, "", st.pc, tFalse, n.Pos(), "delete from the caller's map "+id.Name+" (maps are shared with the caller; not declared in modifies)")
				}
			}
		}
		nm := Mp{tSto(m.Has, k, tFalse), m.Val, tIte(had, tSub(m.Len, "1"), m.Len), m.K, m.V, m.KS, m.Nil}
		x.havocAliases(st, m, n.Args[0], "")
		return Tup{}, x.assign(n.Args[0], nm, st)
	case "new":
		t := x.typeOf(n).Underlying().(*types.Pointer).Elem()
		return Pt{tFalse, c.zeroVal(t, nil), t}, st
	}
	panic(unsupported("builtin %s", name))
}

func (x *Exec) evalAppend(n *ast.CallExpr, st *State) (Val, *State) {
	c := x.c
	bv, st2 := x.eval(n.Args[0], st)
	st = st2
	t := x.typeOf(n)
	et := t.Underlying().(*types.Slice).Elem()
	var base Sl
	if bv == nil {
		base = c.zeroVal(t, nil).(Sl)
	} else {
		base = bv.(Sl)
	}
	if n.Ellipsis.IsValid() {
		sv, st3 := x.eval(n.Args[1], st)
		st = st3
		var src Sl
		switch s := sv.(type) {
		case Sl:
			src = s
		case Sc: // append([]byte, string...)
			arr := c.fresh("bytes", arrSort(SInt, SInt))
			c.assumeDef(tForall([][2]string{{"i!v", SInt}}, tEq(tSel(arr, "i!v"), app("sat", s.T, "i!v")), tSel(arr, "i!v")))
			src = Sl{Sc{arr, arrSort(SInt, SInt)}, "0", app("slen", s.T), tFalse, et}
		case nil:
			return base, st
		default:
			panic(unsupported("append of %T...", sv))
		}
		x.havocAliases(st, base, n.Args[0], x.c.define("app.end", SInt, tAdd(base.Off, base.Len)))
		return x.appendSeq(base, src, "app"), st
	}
	cur := base
	if len(n.Args) > 1 {
		// append may write into the spare capacity of its operand: what other variables see of that storage at or above
		// the operand's end is arbitrary afterwards (below it nothing changes)
		x.havocAliases(st, base, n.Args[0], x.c.define("app.end", SInt, tAdd(base.Off, base.Len)))
	}
	for _, a := range n.Args[1:] {
		v, st3 := x.eval(a, st)
		st = st3
		v = x.convertTo(v, x.typeOf(a), et, st)
		cur = Sl{vStore(cur.Arr, tAdd(cur.Off, cur.Len), v), cur.Off, tAdd(cur.Len, "1"), tFalse, et}
	}
	return cur, st
}

// appendSeq returns base ++ src as a fresh array with quantified facts
// (arithmetic-free triggers: select on the new array).
func (x *Exec) appendSeq(base, src Sl, hint string) Sl {
	c := x.c
	res := c.freshLike(hint, base).(Sl)
	res.Off = base.Off
	res.Len = tAdd(base.Len, src.Len)
	res.Nil = tAnd(base.Nil, tEq(src.Len, "0"))
	end := c.define(hint+".end", SInt, tAdd(base.Off, base.Len))
	zipLeaves(res.Arr, base.Arr, func(n, o string) {
		c.assumeDef(tForall([][2]string{{"i!a", SInt}}, tImp(tLt("i!a", end), tEq(tSel(n, "i!a"), tSel(o, "i!a"))), tSel(n, "i!a")))
	})
	delta := c.define(hint+".d", SInt, tSub(src.Off, end))
	zipLeaves(res.Arr, src.Arr, func(n, o string) {
		c.assumeDef(tForall([][2]string{{"i!a", SInt}},
			tImp(tAnd(tLe(end, "i!a"), tLt("i!a", tAdd(end, src.Len))), tEq(tSel(n, "i!a"), tSel(o, tAdd("i!a", delta)))), tSel(n, "i!a")))
	})
	return res
}

func zipLeaves(a, b Val, f func(x, y string)) {
	la, lb := leaves(a), leaves(b)
	for i := range la {
		f(la[i], lb[i])
	}
}

func (x *Exec) evalCopy(n *ast.CallExpr, st *State) (Val, *State) {
	c := x.c
	dv, st2 := x.eval(n.Args[0], st)
	sv, st3 := x.eval(n.Args[1], st2)
	st = st3
	dst := dv.(Sl)
	var src Sl
	switch s := sv.(type) {
	case Sl:
		src = s
	default:
		panic(unsupported("copy from %T", sv))
	}
	cnt := c.define("copyn", SInt, tIte(tLe(dst.Len, src.Len), dst.Len, src.Len))
	// frame: copying into storage a slice parameter held on entry must stay outside its original contents (unless `modifies`)
	if x.depth == 0 && x.entry != nil {
		if da, ok := dst.Arr.(Sc); ok {
			for eobj, pev := range x.entry.vars {
				ppv, ok := eobj.(*types.Var)
				if !ok || !x.isParam(ppv) {
					continue
				}
				pes, ok := pev.(Sl)
				if !ok {
					continue
				}
				pa, ok := pes.Arr.(Sc)
				if !ok || !c.isArrayConst(pa.T) || !containsToken(da.T, pa.T) {
					continue
				}
				if x.contract != nil && x.contract.Modifies[ppv.Name()] {
					continue
				}
				c.oblige("frame:"+ppv.Name(), "", st.pc, tOr(tLe(cnt, "0"), tGe(dst.Off, tAdd(pes.Off, pes.Len))), n.Pos(),
					"copy into storage shared with parameter "+ppv.Name()+" stays outside the parameter's original contents")
			}
		}
	}
	// new backing array of the destination
	nd := c.freshLike("copied", dst).(Sl)
	nd.Off, nd.Len, nd.Nil = dst.Off, dst.Len, dst.Nil
	delta := c.define("copyd", SInt, tSub(src.Off, dst.Off))
	zipLeaves(nd.Arr, dst.Arr, func(nn, o string) {
		c.assumeDef(tForall([][2]string{{"i!a", SInt}},
			tImp(tOr(tLt("i!a", dst.Off), tGe("i!a", tAdd(dst.Off, cnt))), tEq(tSel(nn, "i!a"), tSel(o, "i!a"))), tSel(nn, "i!a")))
	})
	zipLeaves(nd.Arr, src.Arr, func(nn, o string) {
		c.assumeDef(tForall([][2]string{{"i!a", SInt}},
			tImp(tAnd(tLe(dst.Off, "i!a"), tLt("i!a", tAdd(dst.Off, cnt))), tEq(tSel(nn, "i!a"), tSel(o, tAdd("i!a", delta)))), tSel(nn, "i!a")))
	})
	x.havocAliases(st, dst, n.Args[0], "")
	// write back into the destination l-value: dst expression is X[a:b] or a slice variable
	target := ast.Unparen(n.Args[0])
	if se, ok := target.(*ast.SliceExpr); ok {
		base, _ := x.eval(se.X, st)
		switch b := base.(type) {
		case Ar:
			st = x.assign(se.X, Ar{nd.Arr, b.N, b.Elem}, st)
		case Sl:
			st = x.assign(se.X, Sl{nd.Arr, b.Off, b.Len, b.Nil, b.Elem}, st)
		}
	} else {
		st = x.assign(target, nd, st)
	}
	return scInt(cnt), st
}

// ---- yield ----

func (x *Exec) callYield(n *ast.CallExpr, st *State) (Val, *State) {
	c := x.c
	var args []Val
	ysig, _ := x.typeOf(n.Fun).Underlying().(*types.Signature)
	for i, a := range n.Args {
		v, s := x.eval(a, st)
		st = s
		if ysig != nil && i < ysig.Params().Len() {
			v = x.convertTo(v, x.typeOf(a), ysig.Params().At(i).Type(), st)
		}
		if v == nil {
			panic(unsupported("nil yield argument"))
		}
		args = append(args, v)
	}
	stopped := st.ghost["stopped"].(Sc).T
	c.obligeAssume("yield-live", "", st.pc, tNot(stopped), n.Pos(), "no callback after the consumer declined")
	y := st.ghost["Y"].(Sl)
	item := x.yieldItem(args, y)
	ny := Sl{vStore(y.Arr, tAdd(y.Off, y.Len), item), y.Off, tAdd(y.Len, "1"), tFalse, y.Elem}
	st.ghost["Y"] = ny
	cont := c.fresh("cont", SBool)
	st.ghost["stopped"] = scBool(tNot(cont))
	x.reach(st, n.Pos(), "yield call")
	return scBool(cont), st
}

// yieldItem converts call arguments to the trace element shape (nil literals
// become typed zero values).
func (x *Exec) yieldItem(args []Val, y Sl) Val {
	proto := vSelect(y.Arr, "0")
	if t, ok := proto.(Tup); ok {
		out := make([]Val, len(args))
		for i := range args {
			out[i] = relift(args[i], t.E[i])
		}
		return Tup{out}
	}
	return args[0]
}

// ---- call by contract ----

func (x *Exec) callByContract(ct *Contract, callee *types.Func, n *ast.CallExpr, recvExpr ast.Expr, st *State) (Val, *State) {
	c := x.c
	sig := callee.Type().(*types.Signature)
	args, st2 := x.evalArgs(n, sig, st)
	st = st2
	if st == nil {
		return nil, nil
	}
	names := map[string]Val{}
	argExprs := map[string]ast.Expr{}
	if sig.Recv() != nil && recvExpr != nil {
		rv, s := x.eval(recvExpr, st)
		st = s
		// method with pointer receiver called on an addressable value
		if _, isPtr := sig.Recv().Type().Underlying().(*types.Pointer); isPtr {
			if k, _ := classify(x.typeOf(recvExpr)); k == kStruct {
				rv = Pt{tFalse, rv, x.typeOf(recvExpr)}
			}
		}
		names[sig.Recv().Name()] = rv
		argExprs[sig.Recv().Name()] = recvExpr
	}
	for i := 0; i < sig.Params().Len(); i++ {
		names[sig.Params().At(i).Name()] = args[i]
		if i < len(n.Args) && !(sig.Variadic() && i == sig.Params().Len()-1) {
			argExprs[sig.Params().At(i).Name()] = n.Args[i]
		}
	}
	for k, v := range names {
		if sl, ok := v.(Sl); ok {
			names[k] = c.normView(sl)
		}
	}
	calleePkg := c.eng.pkgOf(callee)
	pre := st
	env := &SpecEnv{x: &Exec{c: c, pkg: calleePkg, info: calleePkg.info, entry: x.entry, sig: sig, loopOrd: new(int)},
		st: pre, old: pre, names: names, lets: ct.Lets}
	env.x.entry = pre
	short := ct.Name
	for k, rq := range ct.Requires {
		g := env.evalBool(rq.E)
		for _, part := range splitConj(g) {
			c.obligeAssume("pre@"+short, fmt.Sprintf("#%d@%d", k+1, c.counts["callsite@"+short]+1), st.pc, part, n.Pos(), "precondition of "+short+": "+rq.Text)
		}
	}
	c.counts["callsite@"+short]++
	// panics clause of the callee
	if ct.Panics != nil {
		p := env.evalBool(ct.Panics.E)
		ps := x.fork(st, p, "callee-panics")
		x.panics = append(x.panics, panicExit{ps, n.Pos(), "panic inside " + short})
		st = x.fork(st, tNot(p), "callee-ok")
	}
	// havoc: object arguments, declared modifies, heap fields the callee writes
	post := st.clone()
	postNames := map[string]Val{}
	for k, v := range names {
		postNames[k] = v
	}
	for pname, v := range names {
		if ct.Pure {
			break // declared (and checked) not to change the ghost state of any object argument
		}
		nv, changed := x.havocObjsIn(v, "call."+short+"."+pname)
		if changed {
			postNames[pname] = nv
			if ae := argExprs[pname]; ae != nil {
				post = x.assignBack(ae, nv, post)
			}
		}
	}
	for pname := range ct.Modifies {
		// `modifies *p` style: pointer arguments whose pointee changes
		if v, ok := names[pname]; ok {
			if p, isPt := v.(Pt); isPt {
				// plain fields are arbitrary afterwards; external objects inside keep their identity (ghost state havocked)
				nv := Pt{p.Nil, x.keepObjs(p.Elem, c.freshVal("call."+short+"."+pname, p.T, nil), "call."+short+"."+pname), p.T}
				postNames[pname] = nv
				if ae := argExprs[pname]; ae != nil {
					x.havocPtrAliases(post, p.T, x.rootObj(ae))
					post = x.assignBack(ae, nv, post)
				}
			}
			// `modifies s` for a slice or map parameter: the storage the argument refers to is arbitrary afterwards (the
			// callee's ensures say more), for the argument and for everything that may share it
			if sig.Variadic() && !n.Ellipsis.IsValid() && pname == sig.Params().At(sig.Params().Len()-1).Name() {
				continue // an explicit argument list: handled below (the operands are written through their pointers)
			}
			switch sv := v.(type) {
			case Sl:
				fv := c.freshLike("call."+short+"."+pname, sv).(Sl)
				nv := Sl{fv.Arr, sv.Off, sv.Len, sv.Nil, sv.Elem}
				postNames[pname] = nv
				if ae := argExprs[pname]; ae != nil {
					x.havocAliases(post, sv, ae, "")
					post = x.assignBack(ae, nv, post)
				}
			case Mp:
				fv := c.freshLike("call."+short+"."+pname, sv).(Mp)
				fv.Nil = sv.Nil
				c.assume(post.pc, tGe(fv.Len, "0"))
				postNames[pname] = fv
				if ae := argExprs[pname]; ae != nil {
					x.havocAliases(post, sv, ae, "")
					post = x.assignBack(ae, fv, post)
				}
			}
		}
	}
	// arguments of the form &x (possibly converted): the callee may write through them. For a variadic parameter of
	// pointer type (parseInts(strs, &a, &b, ...)) that the callee declares in `modifies`, the post value of the
	// parameter is the slice of pointers to the new values of the operands, so that its ensures can describe them.
	varIdx := -1
	var varName string
	var varSl Sl
	if sig.Variadic() && !n.Ellipsis.IsValid() {
		varIdx = sig.Params().Len() - 1
		varName = sig.Params().At(varIdx).Name()
		if sl, ok := names[varName].(Sl); ok && ct.Modifies[varName] {
			varSl = sl
		} else {
			varIdx = -1
		}
	}
	for ai, a := range n.Args {
		e := ast.Unparen(a)
		for {
			if ce, ok := e.(*ast.CallExpr); ok && len(ce.Args) == 1 {
				if tv, ok := x.info.Types[ce.Fun]; ok && tv.IsType() {
					e = ast.Unparen(ce.Args[0])
					continue
				}
			}
			break
		}
		if ue, ok := e.(*ast.UnaryExpr); ok && ue.Op == token.AND {
			if _, isLit := ast.Unparen(ue.X).(*ast.CompositeLit); !isLit {
				fv := c.freshVal("call."+short+".out", x.typeOf(ue.X), nil)
				post = x.assign(ue.X, fv, post)
				if varIdx >= 0 && ai >= varIdx {
					if _, isPt := vSelect(varSl.Arr, tInt(int64(ai-varIdx))).(Pt); isPt {
						varSl.Arr = vStore(varSl.Arr, tInt(int64(ai-varIdx)), Pt{tFalse, fv, x.typeOf(ue.X)})
					}
				}
			}
		}
	}
	if varIdx >= 0 {
		postNames[varName] = varSl
	}
	for _, h := range ct.ModifiesHeap {
		ft := c.eng.heapFieldType(h)
		x.heapField(post, h)
		post.heap[h] = c.freshVal("call."+short+".heap."+h, ft, []string{SInt})
	}
	if len(ct.ModifiesHeap) > 0 {
		// a callee that writes heap fields may also allocate: the allocation bound after the call is some value >= the
		// bound before it (the callee's ensures, evaluated in the post state, say more - e.g. alloc == old(alloc))
		var a string
		if g, ok := post.ghost["alloc"]; ok {
			a = g.(Sc).T
		} else if x.entry != nil {
			if g, ok := x.entry.ghost["alloc"]; ok {
				a = g.(Sc).T
			} else {
				a = c.fresh("alloc0", SInt)
				c.assumeDef(tGe(a, "0"))
				x.entry.ghost["alloc"] = scInt(a)
			}
			pre.ghost["alloc"] = scInt(a)
		}
		if a != "" {
			na := c.fresh("call."+short+".alloc", SInt)
			c.assume(post.pc, tGe(na, a))
			post.ghost["alloc"] = scInt(na)
		}
	}
	// results
	var res []Val
	for i := 0; i < sig.Results().Len(); i++ {
		res = append(res, c.freshVal("ret."+short, sig.Results().At(i).Type(), nil))
	}
	resV := Tup{res}
	penv := &SpecEnv{x: env.x, st: post, old: pre, names: postNames, oldNames: names, res: resV, lets: ct.Lets}
	// value parameters denote entry values in ensures: only object params use the post state
	for k, v := range names {
		if !containsObj(v) {
			if _, mod := ct.Modifies[k]; !mod {
				penv.names[k] = v
			}
		}
	}
	for i := 0; i < sig.Results().Len(); i++ {
		if nm := sig.Results().At(i).Name(); nm != "" && nm != "_" {
			penv.names[nm] = res[i]
		}
	}
	for _, w := range ct.Witness {
		if wt := c.eng.witnessType(ct, w); wt != nil {
			wv := c.freshVal("wit."+w, wt, nil)
			penv.names[w] = wv
			post.ghost[w] = wv // the caller's own contract may name the callee's witness
			// ... and, when the same callee is called several times, the witness of its k-th call as <w><k>
			post.ghost[fmt.Sprintf("%s%d", w, c.counts["callsite@"+short])] = wv
		}
	}
	for _, en := range ct.Ensures {
		if en.View != "" && !(x.contract != nil && x.contract.UseViews[en.View]) && !(x.rootContract() != nil && x.rootContract().UseViews[en.View]) {
			continue // a view of the callee's contract the caller did not ask for
		}
		c.assume(post.pc, penv.evalBool(en.E))
		if varIdx >= 0 {
			// explicit argument list: also the instances of quantified ensures at its positions (no term of the caller triggers them)
			if n, ok := isIntLit(varSl.Len); ok && n <= 16 {
				if g := penv.groundInstances(en.E, int(n)); g != tTrue {
					c.assume(post.pc, g)
				}
			}
		}
	}
	c.inlined["contract:"+short] = true
	x.reach(post, n.Pos(), "after call of "+short)
	if len(res) == 1 {
		return res[0], post
	}
	return resV, post
}

// havocObjsIn replaces the mutable ghost fields of every external object in v.
func (x *Exec) havocObjsIn(v Val, hint string) (Val, bool) {
	switch o := v.(type) {
	case Obj:
		return x.c.havocObj(o, hint), true
	case St:
		changed := false
		nf := make([]Val, len(o.F))
		for i := range o.F {
			var ch bool
			nf[i], ch = x.havocObjsIn(o.F[i], hint)
			changed = changed || ch
		}
		return St{nf, o.T}, changed
	case Pt:
		ne, ch := x.havocObjsIn(o.Elem, hint)
		return Pt{o.Nil, ne, o.T}, ch
	}
	return v, false
}

// assignBack stores an updated argument value into the expression it came
// from when that expression is an l-value.
func (x *Exec) assignBack(e ast.Expr, v Val, st *State) *State {
	switch n := ast.Unparen(e).(type) {
	case *ast.Ident, *ast.SelectorExpr, *ast.IndexExpr, *ast.StarExpr:
		if id, ok := n.(*ast.Ident); ok {
			if _, isVar := x.info.Uses[id].(*types.Var); !isVar {
				return st
			}
		}
		// a pointer-receiver call on a struct value passes &x: store the pointee
		if p, isPt := v.(Pt); isPt {
			if k, _ := classify(x.typeOf(e)); k == kStruct {
				return x.assign(e, p.Elem, st)
			}
		}
		return x.assign(e, v, st)
	case *ast.UnaryExpr:
		if n.Op == token.AND {
			if p, isPt := v.(Pt); isPt {
				return x.assign(n.X, p.Elem, st)
			}
			return x.assign(n.X, v, st)
		}
	case *ast.CallExpr:
		return st // temporary object (e.g. newReader(r).iter()): nothing to store back
	}
	return st
}

// rootContract: the contract of the function under verification (inlined helpers run in a sub-Exec without one).
func (x *Exec) rootContract() *Contract {
	if x.c != nil && x.c.eng != nil {
		return x.c.eng.contracts[x.c.fn]
	}
	return nil
}

// ---- inlining of contract-less helpers of the same module ----

func (x *Exec) inlineCall(callee *types.Func, fd *ast.FuncDecl, n *ast.CallExpr, recvExpr ast.Expr, st *State) (Val, *State) {
	c := x.c
	if x.depth > 6 {
		panic(unsupported("inlining too deep (recursion?) at %s", callee.Name()))
	}
	sig := callee.Type().(*types.Signature)
	args, st2 := x.evalArgs(n, sig, st)
	st = st2
	if st == nil {
		return nil, nil
	}
	calleePkg := c.eng.pkgOf(callee)
	qn := c.eng.qualName(callee)
	c.inlined[qn] = true
	sub := &Exec{c: c, pkg: calleePkg, info: calleePkg.info, contract: nil, sig: sig, loopOrd: new(int), depth: x.depth + 1, entry: x.entry}
	// bind parameters in the same state (objects are distinct per function, no clash)
	if sig.Recv() != nil && recvExpr != nil {
		rv, s := x.eval(recvExpr, st)
		st = s
		if _, isPtr := sig.Recv().Type().Underlying().(*types.Pointer); isPtr {
			if k, _ := classify(x.typeOf(recvExpr)); k == kStruct {
				rv = Pt{tFalse, rv, x.typeOf(recvExpr)}
			}
		}
		st.vars[sig.Recv()] = rv
	}
	for i := 0; i < sig.Params().Len(); i++ {
		st.vars[sig.Params().At(i)] = args[i]
	}
	// may-share classes: the callee's parameters share storage with the operands they are bound to
	sub.aliasAnalyse(fd.Body)
	if sig.Recv() != nil && recvExpr != nil && carriesStorage(sig.Recv().Type(), 0) {
		for _, o := range x.aliasDerive(recvExpr) {
			c.alias.union(sig.Recv(), o)
		}
	}
	for i := 0; i < sig.Params().Len() && i < len(n.Args); i++ {
		if sig.Variadic() && i == sig.Params().Len()-1 && !n.Ellipsis.IsValid() {
			for _, a := range n.Args[i:] {
				if carriesStorage(x.aliasTypeOf(a), 0) {
					for _, o := range x.aliasDerive(a) {
						c.alias.union(sig.Params().At(i), o)
					}
				}
			}
			break
		}
		if carriesStorage(sig.Params().At(i).Type(), 0) {
			for _, o := range x.aliasDerive(n.Args[i]) {
				c.alias.union(sig.Params().At(i), o)
			}
		}
	}
	for i := 0; i < sig.Results().Len(); i++ {
		r := sig.Results().At(i)
		if r.Name() != "" {
			st.vars[r] = c.zeroVal(r.Type(), nil)
			sub.results = append(sub.results, r)
		}
	}
	// loops inside inlined helpers have no invariants: only loop-free helpers
	// or helpers with trivially-invariant loops are sound to inline; loops are
	// cut with invariant true.
	end := sub.execBlock(fd.Body.List, st)
	if end != nil {
		sub.returns = append(sub.returns, retExit{end, Tup{}})
	}
	x.panics = append(x.panics, sub.panics...)
	var outs []*State
	for _, r := range sub.returns {
		s := r.st
		outs = append(outs, s)
	}
	if len(outs) == 0 {
		return Tup{}, nil
	}
	// merge return values through a hidden variable
	resVar := types.NewVar(n.Pos(), nil, "inl!res", sig.Results())
	for _, r := range sub.returns {
		r.st.vars[resVar] = r.res
	}
	m := x.merge(outs)
	rv := m.vars[resVar]
	delete(m.vars, resVar)
	// write-back of a pointer receiver
	if sig.Recv() != nil && recvExpr != nil {
		if nv, ok := m.vars[sig.Recv()]; ok {
			if _, isPtr := sig.Recv().Type().Underlying().(*types.Pointer); isPtr {
				m = x.assignBack(recvExpr, nv, m)
			}
		}
	}
	if t, ok := rv.(Tup); ok && len(t.E) == 1 {
		return t.E[0], m
	}
	return rv, m
}

// ---- range over func ----

func (x *Exec) execRangeFunc(n *ast.RangeStmt, st *State, label string) *State {
	c := x.c
	call, ok := ast.Unparen(n.X).(*ast.CallExpr)
	if !ok {
		panic(unsupported("range over a function value that is not a call"))
	}
	// resolve the callee and evaluate its arguments
	var callee *types.Func
	var recvExpr ast.Expr
	switch f := ast.Unparen(call.Fun).(type) {
	case *ast.Ident:
		callee, _ = x.info.Uses[f].(*types.Func)
	case *ast.SelectorExpr:
		if sel := x.info.Selections[f]; sel != nil {
			callee, _ = sel.Obj().(*types.Func)
			recvExpr = f.X
		} else {
			callee, _ = x.info.Uses[f.Sel].(*types.Func)
		}
	}
	if callee == nil {
		panic(unsupported("range over call of %s", x.src(call.Fun)))
	}
	qn := c.eng.qualName(callee)
	sig := callee.Type().(*types.Signature)
	args, st2 := x.evalArgs(call, sig, st)
	st = st2
	var recvVal Val
	if recvExpr != nil {
		recvVal, st = x.eval(recvExpr, st)
	}
	// the trace Z of the full (never stopped) run is a function of the arguments
	seqT := sig.Results().At(0).Type().Underlying().(*types.Signature) // func(yield func(...) bool)
	ysig := seqT.Params().At(0).Type().Underlying().(*types.Signature)
	ord0 := *x.loopOrd + 1
	z := x.traceOf(qn, ysig, args, recvVal, fmt.Sprintf("Z%d", ord0))
	c.inlined["trace:"+qn] = true
	// assumed facts about Z from the callee's contract (ensures with Y := Z, stopped := false)
	if ct := c.eng.contracts[qn]; ct != nil && ct.Yields != "" {
		names := map[string]Val{}
		for i := 0; i < sig.Params().Len(); i++ {
			names[sig.Params().At(i).Name()] = args[i]
		}
		if sig.Recv() != nil && recvVal != nil {
			names[sig.Recv().Name()] = recvVal
		}
		calleePkg := c.eng.pkgOf(callee)
		zst := st.clone()
		zst.ghost["Y"] = z
		zst.ghost["stopped"] = scBool(tFalse)
		env := &SpecEnv{x: &Exec{c: c, pkg: calleePkg, info: calleePkg.info, entry: st, sig: sig, loopOrd: new(int)},
			st: zst, old: st, names: names, lets: ct.Lets}
		for _, w := range ct.Witness {
			if wt := c.eng.witnessType(ct, w); wt != nil {
				names[w] = c.freshVal("wit."+w, wt, nil)
				// the caller (a theorem) may name the witness of its k-th range loop as <w><k>, like Z<k>
				st.ghost[fmt.Sprintf("%s%d", w, ord0)] = names[w]
			}
		}
		for _, en := range ct.Ensures {
			if en.View != "" && !(x.contract != nil && x.contract.UseViews[en.View]) {
				continue
			}
			if en.NoTrace {
				continue
			}
			c.assume(st.pc, env.evalBool(en.E))
		}
	} else if c.eng.contracts[qn] == nil {
		if _, ok := externTraces[qn]; !ok {
			panic(unsupported("range over %s: no trace contract", qn))
		}
		c.externs[qn] = true
		externTraces[qn](x, z, args, st)
	}
	st.ghost[fmt.Sprintf("Z%d", ord0)] = z
	st.ghost["Z"] = z
	// loop over k in 0..len(Z)
	ls := x.loopSpec()
	ord := *x.loopOrd
	idxObj := types.NewVar(n.Pos(), nil, fmt.Sprintf("range!k%d", ord), types.Typ[types.Int])
	st.vars[idxObj] = scInt("0")
	st.ghost["K"] = scInt("0")
	var keyObj, valObj types.Object
	if id, ok := n.Key.(*ast.Ident); ok && id.Name != "_" {
		keyObj = x.info.Defs[id]
		if keyObj == nil {
			keyObj = x.info.Uses[id]
		}
	}
	if n.Value != nil {
		if id, ok := n.Value.(*ast.Ident); ok && id.Name != "_" {
			valObj = x.info.Defs[id]
			if valObj == nil {
				valObj = x.info.Uses[id]
			}
		}
	}
	bind := func(s *State, k string) {
		item := vSelect(z.Arr, k)
		if t, ok := item.(Tup); ok {
			if keyObj != nil {
				s.vars[keyObj] = t.E[0]
			}
			if valObj != nil && len(t.E) > 1 {
				s.vars[valObj] = t.E[1]
			}
		} else if keyObj != nil {
			s.vars[keyObj] = item
		}
	}
	if keyObj != nil {
		st.vars[keyObj] = c.zeroVal(keyObj.Type(), nil)
	}
	if valObj != nil {
		st.vars[valObj] = c.zeroVal(valObj.Type(), nil)
	}
	x.takeSnapshots(ls, st, n.Body.Lbrace)
	x.checkInvs(ls, st, "inv-entry", ord, n.Body.Lbrace)
	// the iterator runs interleaved with the body: objects reachable from its receiver and arguments
	// (a reader's stream position, a scanner) and the heap fields it declares change between iterations
	ms := x.modifiedIn(n.Body, call)
	if ct := c.eng.contracts[qn]; ct != nil {
		for _, h := range ct.ModifiesHeap {
			ms.heap[h] = true
		}
	}
	ms.vars[idxObj] = true
	if keyObj != nil {
		ms.vars[keyObj] = true
	}
	if valObj != nil {
		ms.vars[valObj] = true
	}
	head := st.clone()
	x.havoc(head, ms, fmt.Sprintf("L%d", ord))
	x.havocLoopAliases(st, head, n.Body)
	k := head.vars[idxObj].(Sc).T
	head.ghost["K"] = scInt(k)
	c.assume(head.pc, tAnd(tLe("0", k), tLe(k, z.Len)))
	x.assumeInvs(ls, head, n.Body.Lbrace)
	body := x.fork(head, tLt(k, z.Len), "loop")
	exit := x.fork(head, tGe(k, z.Len), "exit")
	bind(body, k)
	fr := &frame{label: label, isLoop: true}
	x.frames = append(x.frames, fr)
	end := x.execBlock(n.Body.List, body)
	x.frames = x.frames[:len(x.frames)-1]
	back := x.merge(append([]*State{end}, fr.conts...))
	if back != nil {
		back.vars[idxObj] = scInt(tAdd(k, "1"))
		back.ghost["K"] = scInt(tAdd(k, "1"))
		x.checkInvs(ls, back, "inv-keep", ord, n.Body.Lbrace)
	}
	for _, b := range fr.breaks {
		b.ghost["K"] = scInt(tAdd(k, "1"))
	}
	return x.merge(append([]*State{exit}, fr.breaks...))
}

// traceOf returns the abstract full trace of iterator `qn` applied to the
// given arguments: an uninterpreted function of the scalar leaves of the
// arguments (determinism of sequential Go code is the assumption).
func (x *Exec) traceOf(qn string, ysig *types.Signature, args []Val, recv Val, hint string) Sl {
	c := x.c
	var keyLeaves []string
	collect := func(v Val) {
		for _, l := range leaves(v) {
			keyLeaves = append(keyLeaves, l)
		}
	}
	if recv != nil {
		collect(recv)
	}
	for _, a := range args {
		collect(a)
	}
	key := "trace:" + qn + "(" + strings.Join(keyLeaves, ",") + ")"
	if v, ok := c.traces[key]; ok {
		return v
	}
	// element shape: tuple of the yield parameters
	var elemT types.Type
	if ysig.Params().Len() == 1 {
		elemT = ysig.Params().At(0).Type()
	} else {
		elemT = ysig.Params()
	}
	arr := c.freshVal(hint+".a", elemT, []string{SInt})
	ln := c.fresh(hint+".len", SInt)
	c.assumeHere(tGe(ln, "0"))
	z := Sl{arr, "0", ln, tFalse, elemT}
	if c.traces == nil {
		c.traces = map[string]Sl{}
	}
	c.traces[key] = z
	return z
}

// normView returns a view of the slice with offset 0: a fresh array equal to
// the slice's window, linked in both directions with arithmetic-free
// triggers, so that callee contracts quantify over plain indices.
func (c *Ctx) normView(s Sl) Sl {
	if s.Off == "0" {
		return s
	}
	arr, ok := s.Arr.(Sc)
	if !ok {
		return s
	}
	key := "view:" + arr.T + ":" + s.Off
	if n, ok := c.strLits[key]; ok {
		return Sl{Sc{n, arr.S}, "0", s.Len, s.Nil, s.Elem}
	}
	n := c.fresh("view", arr.S)
	c.strLits[key] = n
	off := c.define("viewoff", SInt, s.Off)
	c.assumeDef(tForall([][2]string{{"i!h", SInt}}, tEq(tSel(n, "i!h"), tSel(arr.T, tAdd("i!h", off))), tSel(n, "i!h")))
	c.assumeDef(tForall([][2]string{{"i!h", SInt}}, tEq(tSel(arr.T, "i!h"), tSel(n, tSub("i!h", off))), tSel(arr.T, "i!h")))
	return Sl{Sc{n, arr.S}, "0", s.Len, s.Nil, s.Elem}
}
