package main

import (
	"bytes"
	"context"
	"fmt"
	"os"
	"os/exec"
	"path/filepath"
	"strings"
	"sync"
	"time"
)

type OblResult struct {
	Status  string            `json:"status"` // proved, refuted, unknown, vacuous, ok
	Solver  string            `json:"solver,omitempty"`
	Ms      int64             `json:"ms"`
	Model   map[string]string `json:"model,omitempty"`
	Raw     string            `json:"raw,omitempty"`
	Input   map[string]any    `json:"input,omitempty"`
	Answers map[string]string `json:"answers,omitempty"`
}

type solverSpec struct {
	name string
	args func(file string, timeoutS int) []string
}

var solvers = []solverSpec{
	{"z3-4.8.12", func(f string, t int) []string { return []string{"/usr/bin/z3", fmt.Sprintf("-T:%d", t), f} }},
	{"z3-5.1.0", func(f string, t int) []string { return []string{"z3-new", fmt.Sprintf("-T:%d", t), f} }},
	{"cvc5-1.0", func(f string, t int) []string {
		return []string{"cvc5", "--lang=smt2", fmt.Sprintf("--tlimit=%d", t*1000), "--full-saturate-quant", f}
	}},
}

// runQuery races the solvers on one SMT text. Returns the first definitive
// answer (sat/unsat); "unknown" if none is definitive.
func runQuery(dir, base, text string, timeoutS int, wantModelOf []string) (answer, solver, out string, ms int64, all map[string]string) {
	file := filepath.Join(dir, base+".smt2")
	q := text
	if len(wantModelOf) > 0 {
		q += "(get-value (" + strings.Join(wantModelOf, " ") + "))\n"
	}
	os.WriteFile(file, []byte(q), 0o644)
	// cvc5 does not accept z3-only syntax in some queries; give it a copy without get-value
	type res struct {
		solver, answer, out string
		ms                  int64
	}
	ctx, cancel := context.WithCancel(context.Background())
	defer cancel()
	ch := make(chan res, len(solvers))
	start := time.Now()
	for _, s := range solvers {
		s := s
		go func() {
			args := s.args(file, timeoutS)
			cmd := exec.CommandContext(ctx, args[0], args[1:]...)
			var ob bytes.Buffer
			cmd.Stdout = &ob
			cmd.Stderr = &ob
			cmd.Run()
			o := ob.String()
			first := strings.TrimSpace(strings.SplitN(o, "\n", 2)[0])
			ans := "unknown"
			switch first {
			case "sat", "unsat":
				ans = first
			case "timeout":
				ans = "timeout"
			}
			ch <- res{s.name, ans, o, time.Since(start).Milliseconds()}
		}()
	}
	all = map[string]string{}
	answer = "unknown"
	var unknownOut string
	for i := 0; i < len(solvers); i++ {
		r := <-ch
		all[r.solver] = r.answer
		if r.answer == "sat" || r.answer == "unsat" {
			cancel()
			return r.answer, r.solver, r.out, r.ms, all
		}
		if r.answer == "unknown" && strings.Contains(r.out, "((") && unknownOut == "" {
			unknownOut = r.out
			solver = r.solver
		}
		ms = r.ms
	}
	return answer, solver, unknownOut, ms, all
}

// parseValues parses the output of (get-value (...)): ((t1 v1) (t2 v2) ...)
func parseValues(out string, terms []string) map[string]string {
	i := strings.Index(out, "((")
	if i < 0 {
		return nil
	}
	s := out[i:]
	// tokenise into top-level pairs
	m := map[string]string{}
	depth := 0
	start := -1
	var pairs []string
	for k := 0; k < len(s); k++ {
		switch s[k] {
		case '(':
			depth++
			if depth == 2 {
				start = k
			}
		case ')':
			if depth == 2 && start >= 0 {
				pairs = append(pairs, s[start+1:k])
				start = -1
			}
			depth--
			if depth == 0 {
				k = len(s)
			}
		}
	}
	for idx, p := range pairs {
		if idx >= len(terms) {
			break
		}
		t := terms[idx]
		// value is what follows the term text
		v := strings.TrimSpace(strings.TrimPrefix(strings.TrimSpace(p), t))
		if !strings.HasPrefix(strings.TrimSpace(p), t) {
			// term printed differently: take the last s-expression
			v = lastSexpr(p)
		}
		m[t] = v
	}
	return m
}

func lastSexpr(p string) string {
	p = strings.TrimSpace(p)
	if p == "" {
		return p
	}
	if p[len(p)-1] != ')' {
		i := strings.LastIndexAny(p, " \t\n")
		return p[i+1:]
	}
	depth := 0
	for k := len(p) - 1; k >= 0; k-- {
		switch p[k] {
		case ')':
			depth++
		case '(':
			depth--
			if depth == 0 {
				return p[k:]
			}
		}
	}
	return p
}

// modelTerms lists the terms whose values describe the parameters of o.
func modelTerms(o *Oblig) []string {
	var ts []string
	seen := map[string]bool{}
	add := func(t string) {
		if !seen[t] && !strings.HasPrefix(t, "((as const") && t != "true" && t != "false" {
			if _, lit := isIntLit(t); !lit {
				seen[t] = true
				ts = append(ts, t)
			}
		}
	}
	declared := map[string]bool{}
	for _, d := range o.ctx.decls[:o.NDecl] {
		f := strings.Fields(d)
		if len(f) > 1 {
			declared[f[1]] = true
		}
	}
	for _, p := range o.Params {
		var sorts []string
		collectSorts(p.V, &sorts, o.ctx)
		ls := leaves(p.V)
		for i, l := range ls {
			if i >= len(sorts) {
				break
			}
			if !declared[l] {
				continue
			}
			switch sorts[i] {
			case SInt, SBool, SReal, SBV:
				add(l)
			case arrSort(SInt, SInt), arrSort(SInt, SReal), arrSort(SInt, SBool):
				for k := 0; k < 12; k++ {
					add(tSel(l, tInt(int64(k))))
				}
			case SStr:
				add(app("slen", l))
				for k := 0; k < 8; k++ {
					add(app("sat", l, tInt(int64(k))))
				}
			}
		}
	}
	return ts
}

func (e *Engine) solveAll(obls []*Oblig, dir string, timeoutS int, par int, dump bool) {
	var wg sync.WaitGroup
	sem := make(chan struct{}, par)
	for i, o := range obls {
		wg.Add(1)
		sem <- struct{}{}
		go func(i int, o *Oblig) {
			defer wg.Done()
			defer func() { <-sem }()
			e.solveOne(o, dir, fmt.Sprintf("q%04d", i), timeoutS)
		}(i, o)
	}
	wg.Wait()
}

func (e *Engine) solveOne(o *Oblig, dir, base string, timeoutS int) {
	terms := modelTerms(o)
	res := &OblResult{}
	o.Res = res
	cases := []string{""}
	if len(o.Split) > 0 && o.Expect == "unsat" {
		cases = nil
		var none []string
		for _, s := range o.Split {
			cases = append(cases, s)
			none = append(none, tNot(s))
		}
		cases = append(cases, tAnd(none...)) // exhaustiveness: the remaining case
	}
	var total int64
	if o.Expect == "sat" && timeoutS > 2 {
		timeoutS = 2 // vacuity canaries only need "not unsat"; contradictions are found quickly
	}
	if o.Expect == "sat-soft" && timeoutS > 1 {
		timeoutS = 1
	}
	plainT := timeoutS
	if ct := e.contracts[o.ctx.fn]; ct != nil && ct.BranchSplit && o.Expect != "sat" && o.Expect != "sat-soft" && plainT > 4 {
		plainT = 4 // functions that opted into branch-split: give up on the unsplit query early, the split queries are the fast ones
	}
	for ci, cs := range cases {
		text := e.smtText(o, "", cs)
		ans, solver, out, ms, all := runQuery(dir, fmt.Sprintf("%s_%d", base, ci), text, plainT, terms)
		total += ms
		res.Solver = solver
		res.Answers = all
		switch {
		case o.Expect == "sat":
			// canary / cover: must NOT be unsat
			if ans == "unsat" {
				res.Status = "vacuous"
			} else {
				res.Status = "ok"
			}
		case o.Expect == "sat-soft":
			// reachability of an intermediate path: reported, not a failure (dead defensive code is legitimate)
			if ans == "unsat" {
				res.Status = "unreachable"
			} else {
				res.Status = "ok"
			}
		case ans == "unsat":
			res.Status = "proved"
		case ans == "sat":
			res.Status = "refuted"
			res.Model = parseValues(out, terms)
			res.Input = modelInput(o, res.Model)
			res.Raw = trunc(out, 4000)
		default:
			res.Status = "unknown"
			if out != "" {
				res.Model = parseValues(out, terms)
				res.Input = modelInput(o, res.Model)
			}
			res.Raw = trunc(out, 2000)
		}
		if res.Status == "unknown" && o.Expect != "sat" && o.Expect != "sat-soft" {
			if ms, solver, ok := e.branchSplit(o, dir, fmt.Sprintf("%s_%d", base, ci), cs, timeoutS, terms); ms >= 0 {
				total += ms
				if ok {
					res.Status = "proved"
					res.Solver = solver
					res.Model, res.Input, res.Raw = nil, nil, ""
				}
			}
		}
		if res.Status != "proved" {
			break
		}
	}
	res.Ms = total
}

// branchSplit is the opt-in tactic `branch-split`: an obligation (or one case of it) the solvers leave undecided is
// retried under each branch literal of the ifs executed before it, once with the literal and once with its negation;
// both must be proved. Pure proof search: nothing is assumed. Returns ms < 0 when the tactic does not apply.
func (e *Engine) branchSplit(o *Oblig, dir, base, cs string, timeoutS int, terms []string) (int64, string, bool) {
	ct := e.contracts[o.ctx.fn]
	if ct == nil || !ct.BranchSplit {
		return -1, "", false
	}
	var lits []string
	for _, d := range o.ctx.decls[:o.NDecl] {
		f := strings.Fields(d)
		if len(f) > 1 && strings.HasPrefix(f[1], "pc.then!") {
			lits = append(lits, f[1])
		}
	}
	if len(lits) > 6 {
		lits = lits[len(lits)-6:]
	}
	var total int64
	// first the decision list over all the literals: l0 | !l0 && l1 | !l0 && !l1 && l2 | ... | none of them - one query per
	// executed path prefix; every piece must be proved (they are exhaustive)
	{
		var prefix []string
		all := true
		solver := ""
		for li := 0; li <= len(lits) && all; li++ {
			piece := append([]string{}, prefix...)
			if li < len(lits) {
				piece = append(piece, lits[li])
				prefix = append(prefix, tNot(lits[li]))
			}
			if cs != "" {
				piece = append(piece, cs)
			}
			text := e.smtText(o, "", tAnd(piece...))
			ans, sv, _, ms, _ := runQuery(dir, fmt.Sprintf("%s_dl%d", base, li), text, timeoutS, terms)
			total += ms
			if ans != "unsat" {
				all = false
			}
			solver = sv
		}
		if all {
			return total, solver + " branch-split(decision list)", true
		}
	}
	// two passes: a short timeout finds a literal that cuts the obligation into two easy halves quickly; the second pass gives
	// every literal the full timeout. Outermost branch first (the early ifs of a loop body cut the most).
	passes := []int{3, timeoutS}
	if timeoutS <= 3 {
		passes = []int{timeoutS}
	}
	for pi, t := range passes {
		for li := 0; li < len(lits); li++ {
			l := lits[li]
			okBoth := true
			solver := ""
			for ci, lit := range []string{l, tNot(l)} {
				extra := lit
				if cs != "" {
					extra = tAnd(cs, lit)
				}
				text := e.smtText(o, "", extra)
				ans, sv, _, ms, _ := runQuery(dir, fmt.Sprintf("%s_bs%d_%d_%d", base, pi, li, ci), text, t, terms)
				total += ms
				if ans != "unsat" {
					okBoth = false
					break
				}
				solver = sv
			}
			if okBoth {
				return total, solver + " branch-split(" + l + ")", true
			}
		}
	}
	return total, "", false
}

func trunc(s string, n int) string {
	if len(s) > n {
		return s[:n] + "..."
	}
	return s
}

// smtNum parses an SMT numeral value: 5, (- 5), 2.0, (/ 1.0 3.0), (- (/ 1.0 3.0)), #x.. bit-vectors.
func smtNum(v string) (float64, bool) {
	v = strings.TrimSpace(v)
	if strings.HasPrefix(v, "#x") {
		var u uint64
		if _, err := fmt.Sscanf(v[2:], "%x", &u); err == nil {
			return float64(int64(u)), true
		}
		return 0, false
	}
	if strings.HasPrefix(v, "(- ") {
		f, ok := smtNum(v[3 : len(v)-1])
		return -f, ok
	}
	if strings.HasPrefix(v, "(/ ") {
		parts := strings.Fields(v[3 : len(v)-1])
		if len(parts) == 2 {
			a, ok1 := smtNum(parts[0])
			b, ok2 := smtNum(parts[1])
			if ok1 && ok2 && b != 0 {
				return a / b, true
			}
		}
		return 0, false
	}
	var f float64
	if _, err := fmt.Sscanf(v, "%g", &f); err == nil {
		return f, true
	}
	return 0, false
}

// modelInput turns a solver model into concrete parameter values (JSON-able):
// ints, bools, reals, byte/int slices (first 12 elements), strings (first 8 bytes).
func modelInput(o *Oblig, m map[string]string) map[string]any {
	if m == nil {
		return nil
	}
	in := map[string]any{}
	num := func(t string) (float64, bool) {
		if n, ok := isIntLit(t); ok {
			return float64(n), true
		}
		v, ok := m[t]
		if !ok {
			return 0, false
		}
		return smtNum(v)
	}
	for _, p := range o.Params {
		switch v := p.V.(type) {
		case Sc:
			switch v.S {
			case SInt, SReal, SBV:
				if f, ok := num(v.T); ok {
					in[p.Name] = f
				}
			case SBool:
				if b, ok := m[v.T]; ok {
					in[p.Name] = strings.TrimSpace(b) == "true"
				}
			case SStr:
				if ln, ok := num(app("slen", v.T)); ok && ln >= 0 && ln <= 8 {
					bs := []any{}
					for k := 0; k < int(ln); k++ {
						if c, ok := num(app("sat", v.T, tInt(int64(k)))); ok {
							bs = append(bs, c)
						} else {
							bs = append(bs, float64(65))
						}
					}
					in[p.Name] = bs
				}
			}
		case Sl:
			arr, ok := v.Arr.(Sc)
			if !ok {
				continue
			}
			ln, ok := num(v.Len)
			if !ok || ln < 0 || ln > 12 {
				if ok {
					in[p.Name+"!len"] = ln
				}
				continue
			}
			es := []any{}
			for k := 0; k < int(ln); k++ {
				if c, ok := num(tSel(arr.T, tInt(int64(k)))); ok {
					es = append(es, c)
				} else {
					es = append(es, float64(0))
				}
			}
			in[p.Name] = es
		}
	}
	if len(in) == 0 {
		return nil
	}
	return in
}
