package main

import (
	"go/ast"
	"go/token"
	"go/types"
	"sort"
)

// May-share classes (DESIGN 3.3, 11.2 item 12). Slices, arrays, maps and value-mode pointers are modelled as values, so two
// variables that share storage are two copies. Which variables MAY share storage is decided syntactically and
// flow-insensitively per function body: a variable of a storage-carrying type (slice, map, struct or array containing
// one) is put in the class of every variable its value is derived from (t := s[1:], n := m, s := buf[:], x.f = y,
// r := f(a, b) for storage-carrying a, b, for _, v := range vs). Fresh storage (make, literals, string conversions) starts
// a class of its own. Distinct parameters are NOT put in one class: that two slice parameters do not overlap is the
// recorded assumption of DESIGN 3.3. A write through one member makes the storage seen through the other members arbitrary.

type aliasSets struct {
	parent  map[types.Object]types.Object
	done    map[ast.Node]bool
	self    map[types.Object]bool // two different paths inside the variable may share storage (x.a = x.b[1:])
	addr    map[types.Object]bool // the address of (part of) the variable is taken: a pointer may point into it
	heapObj types.Object          // stands for the storage held in fields of heap objects
}

func newAliasSets() *aliasSets {
	return &aliasSets{parent: map[types.Object]types.Object{}, done: map[ast.Node]bool{}, self: map[types.Object]bool{}, addr: map[types.Object]bool{}, heapObj: types.NewVar(token.NoPos, nil, "heap!storage", types.Typ[types.Int])}
}

func (a *aliasSets) find(o types.Object) types.Object {
	p, ok := a.parent[o]
	if !ok || p == o {
		return o
	}
	r := a.find(p)
	a.parent[o] = r
	return r
}

func (a *aliasSets) union(x, y types.Object) {
	if x == nil || y == nil {
		return
	}
	rx, ry := a.find(x), a.find(y)
	if _, ok := a.parent[ry]; !ok {
		a.parent[ry] = ry
	}
	if rx != ry {
		a.parent[rx] = ry
	}
}

func (a *aliasSets) same(x, y types.Object) bool {
	return x != nil && y != nil && a.find(x) == a.find(y)
}

// carriesStorage: values of this type hold (or contain) a reference to storage the model treats as a value.
func carriesStorage(t types.Type, depth int) bool {
	if t == nil || depth > 6 {
		return false
	}
	k, ok := safeClassify(t)
	if !ok {
		return true // a type the engine has no model for: assume it can share
	}
	switch k {
	case kSlice, kMap:
		return true
	case kObj, kRef:
		return false
	}
	switch u := t.Underlying().(type) {
	case *types.Array:
		return carriesStorage(u.Elem(), depth+1)
	case *types.Struct:
		for i := 0; i < u.NumFields(); i++ {
			if carriesStorage(u.Field(i).Type(), depth+1) {
				return true
			}
		}
	case *types.Pointer:
		return true // a value-mode pointer: its pointee is storage two pointer variables may share
	}
	return false
}

// aliasTypeOf: static type of an expression or identifier.
func (x *Exec) aliasTypeOf(e ast.Expr) types.Type {
	if tv, ok := x.info.Types[e]; ok {
		return tv.Type
	}
	if id, ok := e.(*ast.Ident); ok {
		if o := x.info.ObjectOf(id); o != nil {
			return o.Type()
		}
	}
	return nil
}

// aliasDerive: the variables the storage-carrying value of e may share storage with.
func (x *Exec) aliasDerive(e ast.Expr) []types.Object {
	info := x.info
	typeOf := x.aliasTypeOf
	derive := x.aliasDerive
	switch n := ast.Unparen(e).(type) {
	case *ast.Ident:
		if o := info.ObjectOf(n); o != nil {
			if _, isVar := o.(*types.Var); isVar {
				return []types.Object{o}
			}
		}
	case *ast.SliceExpr:
		return derive(n.X) // slicing an array or a slice shares its storage
	case *ast.IndexExpr:
		if carriesStorage(typeOf(n), 0) {
			return derive(n.X)
		}
	case *ast.SelectorExpr:
		if sel := info.Selections[n]; sel != nil {
			out := derive(n.X)
			if k, ok := safeClassify(typeOf(n.X)); ok && k == kRef {
				out = append(out, x.c.alias.heapObj) // the storage of a heap object's field
			}
			return out
		}
		if o := info.Uses[n.Sel]; o != nil {
			return []types.Object{o}
		}
	case *ast.StarExpr:
		return derive(n.X)
	case *ast.UnaryExpr:
		if n.Op == token.AND {
			if _, isLit := ast.Unparen(n.X).(*ast.CompositeLit); !isLit {
				if r := x.rootObj(n.X); r != nil {
					x.c.alias.addr[r] = true
				}
			}
			return derive(n.X)
		}
	case *ast.TypeAssertExpr:
		return derive(n.X)
	case *ast.CompositeLit:
		var out []types.Object
		for _, el := range n.Elts {
			if kv, ok := el.(*ast.KeyValueExpr); ok {
				el = kv.Value
			}
			if carriesStorage(typeOf(el), 0) {
				out = append(out, derive(el)...)
			}
		}
		return out
	case *ast.CallExpr:
		if tv, ok := info.Types[n.Fun]; ok && tv.IsType() && len(n.Args) == 1 {
			// conversion: between slice types it shares, from a string it copies
			if k, ok := safeClassify(typeOf(n.Args[0])); ok && k == kStr {
				return nil
			}
			return derive(n.Args[0])
		}
		if id, ok := ast.Unparen(n.Fun).(*ast.Ident); ok {
			if _, isB := info.Uses[id].(*types.Builtin); isB {
				switch id.Name {
				case "append":
					out := derive(n.Args[0])
					for _, el := range n.Args[1:] {
						if carriesStorage(typeOf(el), 0) && !n.Ellipsis.IsValid() {
							out = append(out, derive(el)...)
						}
					}
					if n.Ellipsis.IsValid() && len(n.Args) == 2 {
						if st, ok := typeOf(n.Args[1]).Underlying().(*types.Slice); ok && carriesStorage(st.Elem(), 0) {
							out = append(out, derive(n.Args[1])...)
						}
					}
					return out
				default:
					return nil // make, new, len, ...
				}
			}
		}
		// any other call: the result may share with every storage-carrying operand (bytes.TrimSpace, slices.Clip, ...)
		var out []types.Object
		if se, ok := ast.Unparen(n.Fun).(*ast.SelectorExpr); ok {
			if sel := info.Selections[se]; sel != nil && carriesStorage(typeOf(se.X), 0) {
				out = append(out, derive(se.X)...)
			}
		}
		for _, arg := range n.Args {
			if carriesStorage(typeOf(arg), 0) {
				out = append(out, derive(arg)...)
			}
		}
		return out
	}
	return nil
}

// aliasAnalyse adds the may-share relations of one function body.
func (x *Exec) aliasAnalyse(body ast.Node) {
	a := x.c.alias
	if body == nil || a.done[body] {
		return
	}
	a.done[body] = true
	defer func() {
		if r := recover(); r != nil {
			if _, isU := r.(unsupportedErr); isU {
				panic(r)
			}
			panic(unsupported("may-share analysis cannot interpret this body: %v", r))
		}
	}()
	var rhsOf ast.Expr
	link := func(lhs ast.Expr, from []types.Object) {
		if !carriesStorage(x.aliasTypeOf(lhs), 0) {
			return
		}
		root := x.rootObj(lhs)
		if root == nil {
			return
		}
		lt := storageComponents(x.aliasTypeOf(lhs))
		_, addrOf := ast.Unparen(rhsOf).(*ast.UnaryExpr)
		for _, o := range from {
			// storage can only be shared through components of one type (element type of a slice or array, a map type,
			// the pointee of a pointer); taking an address relates a pointer to a variable of any type
			if !addrOf && o != x.c.alias.heapObj && !intersects(lt, storageComponents(o.Type())) {
				continue
			}
			if o == root {
				// x.f = append(x.f, v) and x.f = x.f[a:b] keep the path; anything else lets two paths inside x share
				if lp, rp := storagePath(lhs), storagePath(rhsOf); lp == "" || lp != rp {
					a.self[root] = true
				}
			}
			a.union(root, o)
		}
	}
	ast.Inspect(body, func(nd ast.Node) bool {
		switch s := nd.(type) {
		case *ast.AssignStmt:
			if len(s.Lhs) == len(s.Rhs) {
				for i := range s.Lhs {
					rhsOf = s.Rhs[i]
					link(s.Lhs[i], x.aliasDerive(s.Rhs[i]))
				}
			} else if len(s.Rhs) == 1 {
				from := x.aliasDerive(s.Rhs[0])
				rhsOf = nil
				for _, l := range s.Lhs {
					link(l, from)
				}
			}
		case *ast.ValueSpec:
			if len(s.Names) == len(s.Values) {
				for i := range s.Names {
					rhsOf = s.Values[i]
					link(s.Names[i], x.aliasDerive(s.Values[i]))
				}
			} else if len(s.Values) == 1 {
				from := x.aliasDerive(s.Values[0])
				rhsOf = nil
				for _, nm := range s.Names {
					link(nm, from)
				}
			}
		case *ast.RangeStmt:
			if s.Value != nil {
				rhsOf = nil
				link(s.Value, x.aliasDerive(s.X))
			}
		}
		return true
	})
}

// sharers: the variables of the state, other than root, that may share storage with root.
func (x *Exec) sharers(st *State, root types.Object) []types.Object {
	if root == nil {
		return nil
	}
	var out []types.Object
	for o := range st.vars {
		if o != nil && o != root && x.c.alias.same(o, root) {
			out = append(out, o)
		}
	}
	sortObjs(out)
	return out
}

func sortObjs(objs []types.Object) {
	sort.Slice(objs, func(i, j int) bool {
		if objs[i].Pos() != objs[j].Pos() {
			return objs[i].Pos() < objs[j].Pos()
		}
		return objs[i].Name() < objs[j].Name()
	})
}

// storagePath: the selector path of the storage an expression denotes ("x.f"), seen through slicing, append and
// conversions; "" if it has no single path.
func storagePath(e ast.Expr) string {
	if e == nil {
		return ""
	}
	switch n := ast.Unparen(e).(type) {
	case *ast.Ident:
		return n.Name
	case *ast.SelectorExpr:
		if p := storagePath(n.X); p != "" {
			return p + "." + n.Sel.Name
		}
	case *ast.SliceExpr:
		return storagePath(n.X)
	case *ast.StarExpr:
		return storagePath(n.X)
	case *ast.CallExpr:
		if id, ok := ast.Unparen(n.Fun).(*ast.Ident); ok && id.Name == "append" && len(n.Args) > 0 {
			return storagePath(n.Args[0])
		}
	}
	return ""
}

// aliasParams: pointer parameters (and the receiver) of one pointee type may be equal - the caller decides.
func (x *Exec) aliasParams(sig *types.Signature) {
	var ps []*types.Var
	if sig.Recv() != nil {
		ps = append(ps, sig.Recv())
	}
	for i := 0; i < sig.Params().Len(); i++ {
		ps = append(ps, sig.Params().At(i))
	}
	for i := range ps {
		pi, ok := ps[i].Type().Underlying().(*types.Pointer)
		if !ok {
			continue
		}
		for j := i + 1; j < len(ps); j++ {
			if pj, ok := ps[j].Type().Underlying().(*types.Pointer); ok && types.Identical(pi.Elem(), pj.Elem()) {
				x.c.alias.union(ps[i], ps[j])
			}
		}
	}
}

// storageComponents: the types through which a value of type t can share storage with another value.
func storageComponents(t types.Type) map[string]bool {
	out := map[string]bool{}
	var rec func(t types.Type, depth int)
	rec = func(t types.Type, depth int) {
		if t == nil || depth > 6 {
			return
		}
		k, ok := safeClassify(t)
		if !ok {
			out["*"] = true // a type the engine has no model for: may share with anything
			return
		}
		switch k {
		case kObj, kRef:
			return
		}
		switch u := t.Underlying().(type) {
		case *types.Slice:
			out["elem:"+types.TypeString(u.Elem(), nil)] = true
			rec(u.Elem(), depth+1)
		case *types.Array:
			out["elem:"+types.TypeString(u.Elem(), nil)] = true
			rec(u.Elem(), depth+1)
		case *types.Map:
			out["map:"+types.TypeString(u, nil)] = true
			rec(u.Elem(), depth+1)
		case *types.Pointer:
			out["ptr:"+types.TypeString(u.Elem(), nil)] = true
			rec(u.Elem(), depth+1)
		case *types.Struct:
			for i := 0; i < u.NumFields(); i++ {
				rec(u.Field(i).Type(), depth+1)
			}
		}
	}
	rec(t, 0)
	return out
}

func intersects(a, b map[string]bool) bool {
	if a["*"] || b["*"] {
		return true
	}
	for k := range a {
		if b[k] {
			return true
		}
	}
	return false
}

// safeClassify: classify, for types the engine may have no model for (it panics on those).
func safeClassify(t types.Type) (k tyKind, ok bool) {
	defer func() {
		if r := recover(); r != nil {
			ok = false
		}
	}()
	if t == nil {
		return 0, false
	}
	k, _ = classify(t)
	return k, true
}
