package main

import (
	"fmt"
	"go/ast"
	"go/constant"
	"go/token"
	"go/types"
	"math/big"
	"reflect"
	"sort"
	"strings"
)

func (x *Exec) intLit(n int64) string {
	if x.c.bv {
		return bvLit(n)
	}
	return tInt(n)
}

func bvLit(n int64) string {
	return fmt.Sprintf("(_ bv%d 64)", uint64(n))
}

func (x *Exec) constVal(cv constant.Value, t types.Type) Val {
	k, _ := classify(t)
	switch cv.Kind() {
	case constant.Bool:
		if constant.BoolVal(cv) {
			return scBool(tTrue)
		}
		return scBool(tFalse)
	case constant.String:
		return Sc{x.c.strLit(constant.StringVal(cv)), SStr}
	case constant.Int:
		if k == kReal {
			f, _ := constant.Float64Val(cv)
			return Sc{realLit(f), SReal}
		}
		if n, ok := constant.Int64Val(cv); ok {
			return Sc{x.intLit(n), x.c.intSort()}
		}
		if u, ok := constant.Uint64Val(cv); ok {
			if x.c.bv {
				return Sc{fmt.Sprintf("(_ bv%d 64)", u), SBV}
			}
			return Sc{fmt.Sprint(u), SInt}
		}
	case constant.Float:
		if k == kInt {
			if n, ok := constant.Int64Val(constant.ToInt(cv)); ok {
				return Sc{x.intLit(n), x.c.intSort()}
			}
		}
		r, _ := new(big.Rat).SetString(cv.ExactString())
		if r != nil {
			return Sc{ratLit(r), SReal}
		}
	}
	panic(unsupported("constant %v", cv))
}

func realLit(f float64) string {
	r := new(big.Rat)
	r.SetFloat64(f)
	return ratLit(r)
}

func ratLit(r *big.Rat) string {
	neg := r.Sign() < 0
	a := new(big.Rat).Abs(r)
	var s string
	if a.IsInt() {
		s = a.Num().String() + ".0"
	} else {
		s = "(/ " + a.Num().String() + ".0 " + a.Denom().String() + ".0)"
	}
	if neg {
		return "(- " + s + ")"
	}
	return s
}

// eval evaluates a single-valued expression.
func (x *Exec) eval(e ast.Expr, st *State) (Val, *State) {
	v, st2 := x.evalMulti(e, st)
	if st2 == nil {
		return nil, nil
	}
	if t, ok := v.(Tup); ok && len(t.E) == 1 {
		return t.E[0], st2
	}
	return v, st2
}

func (x *Exec) evalMulti(e ast.Expr, st *State) (Val, *State) {
	if st == nil {
		return nil, nil
	}
	saved := x.c.curPC
	x.c.curPC = st.pc
	defer func() { x.c.curPC = saved }()
	// constants
	if tv, ok := x.info.Types[e]; ok && tv.Value != nil {
		return x.constVal(tv.Value, tv.Type), st
	}
	switch n := e.(type) {
	case *ast.ParenExpr:
		return x.evalMulti(n.X, st)
	case *ast.Ident:
		return x.evalIdent(n, st), st
	case *ast.BasicLit:
		panic(unsupported("literal %s", n.Value))
	case *ast.CompositeLit:
		return x.evalComposite(n, x.typeOf(n), st)
	case *ast.FuncLit:
		return Fn{Kind: "closure", Sig: x.typeOf(n).(*types.Signature), Data: n}, st
	case *ast.UnaryExpr:
		return x.evalUnary(n, st)
	case *ast.BinaryExpr:
		return x.evalBinary(n, st)
	case *ast.StarExpr:
		p, st2 := x.eval(n.X, st)
		st = st2
		switch pv := p.(type) {
		case Pt:
			x.c.obligeAssume("nil", "", st.pc, tNot(pv.Nil), n.Pos(), "nil dereference")
			return pv.Elem, st
		}
		panic(unsupported("dereference of %T", p))
	case *ast.SelectorExpr:
		return x.evalSelector(n, st)
	case *ast.IndexExpr:
		return x.evalIndex(n, st, false)
	case *ast.SliceExpr:
		return x.evalSliceExpr(n, st)
	case *ast.CallExpr:
		return x.evalCall(n, st)
	case *ast.TypeAssertExpr:
		panic(unsupported("type assertion"))
	case *ast.KeyValueExpr:
		panic(unsupported("key-value outside literal"))
	}
	panic(unsupported("expression %T", e))
}

func (x *Exec) evalIdent(n *ast.Ident, st *State) Val {
	if n.Name == "nil" {
		return nil // typed by context (convertTo)
	}
	obj := x.info.Uses[n]
	if obj == nil {
		obj = x.info.Defs[n]
	}
	if obj == nil {
		panic(unsupported("unresolved identifier %s", n.Name))
	}
	switch o := obj.(type) {
	case *types.Var:
		if v, ok := st.vars[o]; ok {
			return v
		}
		if o.Parent() == o.Pkg().Scope() {
			return x.globalVal(o, st)
		}
		panic(unsupported("variable %s not in state (captured or declared in unsupported construct)", n.Name))
	case *types.Const:
		return x.constVal(o.Val(), o.Type())
	case *types.Func:
		return Fn{Kind: "func", Data: o}
	case *types.Nil:
		return nil
	}
	panic(unsupported("identifier %s (%T)", n.Name, obj))
}

func (x *Exec) evalUnary(n *ast.UnaryExpr, st *State) (Val, *State) {
	switch n.Op {
	case token.AND:
		// &CompositeLit or &var
		if cl, ok := ast.Unparen(n.X).(*ast.CompositeLit); ok {
			t := x.typeOf(n)
			if k, name := classify(t); k == kRef {
				return x.allocRef(name, cl, st)
			} else if k == kObj {
				return x.c.zeroObj(name), st
			}
			v, st2 := x.evalComposite(cl, x.typeOf(cl), st)
			return Pt{tFalse, v, x.typeOf(cl)}, st2
		}
		v, st2 := x.eval(n.X, st)
		if o, isObj := v.(Obj); isObj {
			return o, st2
		}
		// address of a variable: value-mode pointer snapshot (writes through it are
		// only supported via call-by-contract with `modifies`)
		return Pt{tFalse, v, x.typeOf(n.X)}, st2
	case token.NOT:
		v, st2 := x.eval(n.X, st)
		return scBool(tNot(v.(Sc).T)), st2
	case token.SUB:
		v, st2 := x.eval(n.X, st)
		s := v.(Sc)
		if s.S == SReal {
			return Sc{app("-", s.T), SReal}, st2
		}
		if x.c.bv {
			return Sc{app("bvneg", s.T), SBV}, st2
		}
		return Sc{tSub("0", s.T), SInt}, st2
	case token.ADD:
		return x.eval(n.X, st)
	case token.XOR:
		v, st2 := x.eval(n.X, st)
		s := v.(Sc)
		if x.c.bv {
			return Sc{app("bvnot", s.T), SBV}, st2
		}
		// ^x == -x-1 for signed; for unsigned bytes 255-x
		if lo, hi, ok := intRange(x.typeOf(n)); ok && lo == 0 {
			return Sc{tSub(tInt(hi), s.T), SInt}, st2
		}
		return Sc{tSub(tSub("0", s.T), "1"), SInt}, st2
	}
	panic(unsupported("unary %s", n.Op))
}

func (x *Exec) evalBinary(n *ast.BinaryExpr, st *State) (Val, *State) {
	switch n.Op {
	case token.LAND, token.LOR:
		l, st2 := x.eval(n.X, st)
		st = st2
		lt := l.(Sc).T
		// evaluate the right operand under the guard so that its safety
		// obligations carry the short-circuit condition
		guard := lt
		if n.Op == token.LOR {
			guard = tNot(lt)
		}
		sub := st.clone()
		sub.pc = x.c.define("pc.sc", SBool, tAnd(st.pc, guard))
		r, sub2 := x.eval(n.Y, sub)
		if sub2 == nil {
			// the right operand never returns: only the short-circuit path continues
			skip := st.clone()
			skip.pc = x.c.define("pc.sk", SBool, tAnd(st.pc, tNot(guard)))
			return scBool(lt), skip
		}
		if x.stateChanged(st, sub2) {
			x.c.notes = append(x.c.notes, "short-circuit operand with effects: "+x.c.posOf(n))
			// the right operand has effects (a call that writes the heap, a trace, a ghost): the state afterwards is the join
			// of the path that evaluated it and the path that skipped it
			skip := st.clone()
			skip.pc = x.c.define("pc.sk", SBool, tAnd(st.pc, tNot(guard)))
			st = x.merge([]*State{sub2, skip})
		}
		if n.Op == token.LAND {
			return scBool(tAnd(lt, r.(Sc).T)), st
		}
		return scBool(tOr(lt, r.(Sc).T)), st
	}
	l, st2 := x.eval(n.X, st)
	r, st3 := x.eval(n.Y, st2)
	st = st3
	if st == nil {
		return nil, nil
	}
	lt, rt := x.typeOf(n.X), x.typeOf(n.Y)
	switch n.Op {
	case token.EQL:
		return scBool(x.goEq2(l, r, lt, rt, st)), st
	case token.NEQ:
		return scBool(tNot(x.goEq2(l, r, lt, rt, st))), st
	}
	k, _ := classify(lt)
	if k == kStr {
		switch n.Op {
		case token.ADD:
			return x.strConcat(l, r, st), st
		}
		panic(unsupported("string operator %s", n.Op))
	}
	ls, rs := l.(Sc), r.(Sc)
	if k == kReal || ls.S == SReal || rs.S == SReal {
		a, b := toReal(ls), toReal(rs)
		switch n.Op {
		case token.LSS:
			return scBool(tLt(a, b)), st
		case token.LEQ:
			return scBool(tLe(a, b)), st
		case token.GTR:
			return scBool(tGt(a, b)), st
		case token.GEQ:
			return scBool(tGe(a, b)), st
		}
		return Sc{x.arithReal(n.Op.String(), a, b), SReal}, st
	}
	switch n.Op {
	case token.LSS, token.LEQ, token.GTR, token.GEQ:
		if x.c.bv {
			op := map[token.Token]string{token.LSS: "bvslt", token.LEQ: "bvsle", token.GTR: "bvsgt", token.GEQ: "bvsge"}[n.Op]
			return scBool(app(op, ls.T, rs.T)), st
		}
		op := map[token.Token]string{token.LSS: "<", token.LEQ: "<=", token.GTR: ">", token.GEQ: ">="}[n.Op]
		return scBool(app(op, ls.T, rs.T)), st
	}
	resT := x.typeOf(n)
	if n.Op == token.QUO || n.Op == token.REM {
		if !x.c.bv {
			x.c.obligeAssume("div0", "", st.pc, tNot(tEq(rs.T, "0")), n.Pos(), "division by zero")
		}
	}
	res := x.arithE(n.Op.String(), ls.T, rs.T, resT, n.X, n.Y)
	x.overflowCheck(n.Op.String(), res, resT, st, n.Pos(), x.src(n))
	return Sc{res, ls.S}, st
}

func toReal(s Sc) string {
	if s.S == SReal {
		return s.T
	}
	if n, ok := isIntLit(s.T); ok {
		return realLit(float64(n))
	}
	return app("to_real", s.T)
}

func (x *Exec) arithReal(op, a, b string) string {
	switch op {
	case "+", "-", "*":
		return app(op, a, b)
	case "/":
		return app("/", a, b)
	}
	panic(unsupported("float operator %s", op))
}

func (x *Exec) arith(op, a, b string, t types.Type) string {
	return x.arithE(op, a, b, t, nil, nil)
}

// nonNegSyntactic reports whether e is syntactically non-negative (len, literal >= 0).
func (x *Exec) nonNegSyntactic(e ast.Expr) bool {
	if e == nil {
		return false
	}
	e = ast.Unparen(e)
	if cv, ok := x.constOf(e); ok {
		if n, ok := constant.Int64Val(cv); ok {
			return n >= 0
		}
	}
	switch n := e.(type) {
	case *ast.CallExpr:
		if id, ok := n.Fun.(*ast.Ident); ok && (id.Name == "len" || id.Name == "cap") {
			return true
		}
	case *ast.BinaryExpr:
		switch n.Op {
		case token.ADD, token.MUL, token.QUO, token.REM:
			return x.nonNegSyntactic(n.X) && x.nonNegSyntactic(n.Y)
		}
	}
	if t := x.typeOf(e); t != nil {
		if lo, _, ok := intRange(t); ok && lo == 0 {
			return true
		}
	}
	return false
}

func pow2term(s string) string {
	if n, ok := isIntLit(s); ok && n >= 0 && n < 62 {
		return tInt(1 << uint(n))
	}
	// ite chain for 0..15 (shift amounts in this code base are tiny)
	t := "65536"
	for i := 15; i >= 0; i-- {
		t = tIte(tEq(s, tInt(int64(i))), tInt(1<<uint(i)), t)
	}
	return t
}

// byteBits encodes a bitwise operation on values known to be in 0..255 in
// linear arithmetic through constant div/mod.
func byteBitop(op, a, b string) string {
	var terms []string
	for i := 0; i < 8; i++ {
		p := tInt(1 << uint(i))
		ba := app("mod", app("div", a, p), "2")
		bb := app("mod", app("div", b, p), "2")
		var bit string
		switch op {
		case "|":
			bit = tIte(tOr(tEq(ba, "1"), tEq(bb, "1")), "1", "0")
		case "&":
			bit = tIte(tAnd(tEq(ba, "1"), tEq(bb, "1")), "1", "0")
		case "^":
			bit = tIte(tEq(ba, bb), "0", "1")
		case "&^":
			bit = tIte(tAnd(tEq(ba, "1"), tEq(bb, "0")), "1", "0")
		}
		terms = append(terms, tMul(p, bit))
	}
	return app("+", terms...)
}

func (x *Exec) arithE(op, a, b string, t types.Type, ea, eb ast.Expr) string {
	if x.c.bv {
		m := map[string]string{"+": "bvadd", "-": "bvsub", "*": "bvmul", "&": "bvand", "|": "bvor", "^": "bvxor",
			"<<": "bvshl", ">>": "bvashr", "/": "bvsdiv", "%": "bvsrem"}
		if op == "&^" {
			return app("bvand", a, app("bvnot", b))
		}
		if o, ok := m[op]; ok {
			return app(o, a, b)
		}
		panic(unsupported("bv operator %s", op))
	}
	var r string
	lo, hi, bounded := int64(0), int64(0), false
	if t != nil {
		lo, hi, bounded = intRange(t)
	}
	switch op {
	case "+":
		r = tAdd(a, b)
	case "-":
		r = tSub(a, b)
	case "*":
		_, la := isIntLit(a)
		_, lb := isIntLit(b)
		if !la && !lb {
			// product of two symbolic values: uninterpreted imul with linear lemma axioms (specs/05arith.spec)
			x.c.used["imul"] = true
			r = app("imul", a, b)
		} else {
			r = tMul(a, b)
		}
	case "/":
		if _, lb := isIntLit(b); !lb {
			x.c.used["idiv"] = true
			x.c.used["imod"] = true
			r = app("idiv", a, b)
			break
		}
		if nb, ok := isIntLit(b); ok && nb > 0 && !x.nonNegSyntactic(ea) {
			r = tIte(tGe(a, "0"), app("div", a, b), tSub("0", app("div", tSub("0", a), b)))
		} else if x.nonNegSyntactic(ea) && x.nonNegSyntactic(eb) {
			r = app("div", a, b)
		} else {
			// Go truncates toward zero
			r = tIte(tGe(a, "0"), tIte(tGt(b, "0"), app("div", a, b), tSub("0", app("div", a, tSub("0", b)))),
				tIte(tGt(b, "0"), tSub("0", app("div", tSub("0", a), b)), app("div", tSub("0", a), tSub("0", b))))
		}
	case "%":
		if _, lb := isIntLit(b); !lb {
			x.c.used["idiv"] = true
			x.c.used["imod"] = true
			r = app("imod", a, b)
			break
		}
		if nb, ok := isIntLit(b); ok && nb > 0 && !x.nonNegSyntactic(ea) {
			r = tIte(tGe(a, "0"), app("mod", a, b), tSub("0", app("mod", tSub("0", a), b)))
		} else if x.nonNegSyntactic(ea) && x.nonNegSyntactic(eb) {
			r = app("mod", a, b)
		} else {
			r = tIte(tGe(a, "0"), app("mod", a, app("abs", b)), tSub("0", app("mod", tSub("0", a), app("abs", b))))
		}
	case "<<":
		r = tMul(a, pow2term(b))
	case ">>":
		if n, ok := isIntLit(b); ok && n >= 0 && n < 62 {
			r = app("div", a, tInt(1<<uint(n)))
		} else {
			r = app("div", a, pow2term(b))
		}
	case "&":
		// x & (2^k-1) == x mod 2^k for any x (two's complement) when the mask is a literal
		if n, ok := isIntLit(b); ok && n > 0 && (n&(n+1)) == 0 {
			r = app("mod", a, tInt(n+1))
		} else if n, ok := isIntLit(a); ok && n > 0 && (n&(n+1)) == 0 {
			r = app("mod", b, tInt(n+1))
		} else if bounded && lo == 0 && hi == 255 {
			r = byteBitop("&", a, b)
		} else {
			panic(unsupported("bitwise & on non-byte operands (use `mode bv`)"))
		}
	case "|", "^", "&^":
		if bounded && lo == 0 && hi == 255 {
			r = byteBitop(op, a, b)
		} else {
			panic(unsupported("bitwise %s on non-byte operands (use `mode bv`)", op))
		}
	default:
		panic(unsupported("operator %s", op))
	}
	if bounded {
		// wrap-around of fixed-width types
		if lo == 0 {
			switch op {
			case "&", "|", "^", "&^", ">>", "/", "%":
				return r
			}
			return app("mod", r, tInt(hi+1))
		}
		// signed narrow types do not occur in arithmetic here
		x.c.notes = append(x.c.notes, "signed narrow integer arithmetic treated as mathematical")
	}
	return r
}

// goEq2 compares two Go values where either side may be the untyped nil.
func (x *Exec) goEq2(l, r Val, lt, rt types.Type, st *State) string {
	if l == nil && r == nil {
		return tTrue
	}
	if l == nil {
		return x.isNil(r)
	}
	if r == nil {
		return x.isNil(l)
	}
	t := lt
	if k, _ := classify(lt); k == kAny {
		t = rt
	}
	return x.goEq(l, r, t, st)
}

func (x *Exec) isNil(v Val) string {
	switch p := v.(type) {
	case Pt:
		return p.Nil
	case Sl:
		return p.Nil
	case Sc:
		if p.S == SInt {
			return tEq(p.T, "0")
		}
		if p.S == SDyn {
			return tEq(p.T, "dyn!nil")
		}
	case Obj:
		if n, ok := p.F["isnil"]; ok {
			return n.(Sc).T
		}
		return tFalse
	case Mp:
		return p.Nil
	case Fn:
		if p.Kind == "nil" {
			return tTrue
		}
		return tFalse
	}
	panic(unsupported("nil comparison of %T", v))
}

func (x *Exec) goEq(l, r Val, t types.Type, st *State) string {
	switch a := l.(type) {
	case Sc:
		b := r.(Sc)
		if a.S == SReal || b.S == SReal {
			return tEq(toReal(a), toReal(b))
		}
		if a.S == SStr {
			return x.strEq(a.T, b.T)
		}
		return tEq(a.T, b.T)
	case Ar:
		b := r.(Ar)
		var cs []string
		for i := int64(0); i < a.N; i++ {
			cs = append(cs, x.goEq(vSelect(a.Arr, tInt(i)), vSelect(b.Arr, tInt(i)), a.Elem, st))
		}
		return tAnd(cs...)
	case St:
		b := r.(St)
		var cs []string
		for i := range a.F {
			cs = append(cs, x.goEq(a.F[i], b.F[i], a.T.Field(i).Type(), st))
		}
		return tAnd(cs...)
	}
	panic(unsupported("== on %T", l))
}

// strEq: equality of Str values. Comparisons against literals are expanded to
// length + bytes, which is complete without the extensionality axiom.
func (x *Exec) strEq(a, b string) string {
	lit := func(s string) (string, bool) {
		if s == "str!empty" {
			return "", true
		}
		for k, v := range x.c.strLits {
			if v == s {
				return k, true
			}
		}
		return "", false
	}
	if s, ok := lit(b); ok {
		a, b = b, a
		_ = s
	}
	if s, ok := lit(a); ok {
		if s2, ok2 := lit(b); ok2 {
			if s == s2 {
				return tTrue
			}
			return tFalse
		}
		cs := []string{tEq(app("slen", b), tInt(int64(len(s))))}
		for i := 0; i < len(s); i++ {
			cs = append(cs, tEq(app("sat", b, tInt(int64(i))), tInt(int64(s[i]))))
		}
		x.c.usesStr = true
		return tAnd(cs...)
	}
	x.c.usesStr = true
	// strings are determined by their bytes: the instance of extensionality for this pair (the general
	// axiom, triggered on every pair of string terms, swamps the solver when many strings are around)
	key := "strext:" + a + "|" + b
	bound := strings.Contains(a+" "+b, "q!") || strings.Contains(a+" "+b, "p!") // under a quantifier / in a spec function body: no instance
	if _, done := x.c.strLits[key]; !done && !bound {
		x.c.strLits[key] = "1"
		x.c.assumeDef(tImp(tAnd(tEq(app("slen", a), app("slen", b)),
			tForall([][2]string{{"i!e", SInt}}, tImp(tAnd(tLe("0", "i!e"), tLt("i!e", app("slen", a))), tEq(app("sat", a, "i!e"), app("sat", b, "i!e"))))),
			tEq(a, b)))
	}
	return tEq(a, b)
}

// strConcat builds a fresh Str equal to the concatenation.
func (x *Exec) strConcat(l, r Val, st *State) Val {
	c := x.c
	a, b := l.(Sc).T, r.(Sc).T
	n := c.fresh("cat", SStr)
	c.assumeDef(tEq(app("slen", n), tAdd(app("slen", a), app("slen", b))))
	c.assumeDef(tForall([][2]string{{"i!c", SInt}},
		tEq(app("sat", n, "i!c"), tIte(tLt("i!c", app("slen", a)), app("sat", a, "i!c"), app("sat", b, tSub("i!c", app("slen", a))))),
		app("sat", n, "i!c")))
	c.assumeDef(tEq(app("str!cat", a, b), n))
	c.used["str!cat"] = true
	return Sc{n, SStr}
}

// convertTo adapts a value to the static destination type (nil literals,
// interface wrapping of objects, etc.).
func (x *Exec) convertTo(v Val, from, to types.Type, st *State) Val {
	if to == nil {
		return v
	}
	if v == nil {
		return x.c.zeroVal(to, nil)
	}
	if sc, ok := v.(Sc); ok {
		k, _ := classify(to)
		if k == kReal && sc.S != SReal {
			return Sc{toReal(sc), SReal}
		}
	}
	if kt, kind := classify(to); kt == kObj && kind == "io.Reader" {
		if src, ok := v.(Obj); ok && src.Kind == "bytes.Buffer" {
			// an in-memory buffer passed where an io.Reader is expected: a reader whose stream is the buffer's content and never faults
			c := x.c
			out := c.normView(src.F["out"].(Sl))
			c.declareFun("rd!in", []string{SInt}, arrSort(SInt, SInt))
			c.declareFun("rd!end", []string{SInt}, SInt)
			c.declareFun("rd!fault", []string{SInt}, SBool)
			c.declareFun("rd!forever", []string{SInt}, SBool)
			c.declareFun("rd!err", []string{SInt}, SInt)
			id := c.fresh("memrd.id", SInt)
			c.assumeDef(tAnd(tEq(app("rd!end", id), out.Len), tNot(app("rd!fault", id)), tEq(app("rd!in", id), out.Arr.(Sc).T)))
			return Obj{"io.Reader", map[string]Val{"id": scInt(id), "consumed": scInt("0"), "membuf": out}}
		}
	}
	if kt, _ := classify(to); kt == kAny && from != nil {
		if kf, _ := classify(from); kf != kAny {
			// boxing into an interface value: a non-nil token that determines the dynamic type and the value
			// (dyn!ty / dyn!i / dyn!r / dyn!s / dyn!ba / dyn!bl are the projections, see smtText)
			if tok, ok := x.box(v, from); ok {
				return Sc{tok, SDyn}
			}
			b := x.c.fresh("boxed", SDyn)
			x.c.assumeHere(tNot(tEq(b, "dyn!nil")))
			return Sc{b, SDyn}
		}
	}
	return v
}

// ---- selectors, indexing, slicing ----

func (x *Exec) evalSelector(n *ast.SelectorExpr, st *State) (Val, *State) {
	sel := x.info.Selections[n]
	if sel == nil {
		// qualified identifier
		obj := x.info.Uses[n.Sel]
		switch o := obj.(type) {
		case *types.Var:
			if v, ok := st.vars[o]; ok {
				return v, st
			}
			if o.Pkg() != nil && o.Pkg().Path() == "io" {
				switch o.Name() {
				case "EOF":
					return scInt(errEOF), st
				case "ErrUnexpectedEOF":
					return scInt(errUnexpectedEOF), st
				}
			}
			return x.globalVal(o, st), st
		case *types.Const:
			return x.constVal(o.Val(), o.Type()), st
		case *types.Func:
			return Fn{Kind: "func", Data: o}, st
		}
		panic(unsupported("qualified identifier %s", n.Sel.Name))
	}
	if sel.Kind() != types.FieldVal {
		panic(unsupported("method value %s", n.Sel.Name))
	}
	base, st2 := x.eval(n.X, st)
	st = st2
	return x.fieldOf(base, x.typeOf(n.X), n.Sel.Name, st, n.Pos()), st
}

func (x *Exec) fieldOf(base Val, bt types.Type, name string, st *State, pos token.Pos) Val {
	switch b := base.(type) {
	case St:
		for i := 0; i < b.T.NumFields(); i++ {
			if b.T.Field(i).Name() == name {
				return b.F[i]
			}
		}
	case Pt:
		x.c.obligeAssume("nil", "", st.pc, tNot(b.Nil), pos, "nil dereference ."+name)
		return x.fieldOf(b.Elem, b.T, name, st, pos)
	case Sc:
		if k, tn := classify(bt); k == kRef {
			x.c.obligeAssume("nil", "", st.pc, tNot(tEq(b.T, "0")), pos, "nil dereference ."+name)
			return vSelect(x.heapField(st, tn+"."+name), b.T)
		}
	case Obj:
		if v, ok := b.F[name]; ok {
			return v
		}
	}
	panic(unsupported("field %s of %T", name, base))
}

func (x *Exec) heapField(st *State, key string) Val {
	if v, ok := st.heap[key]; ok {
		return v
	}
	// the entry heap: created lazily, shared with the entry snapshot
	if x.entry != nil {
		if v, ok := x.entry.heap[key]; ok {
			st.heap[key] = v
			return v
		}
	}
	ft := x.c.eng.heapFieldType(key)
	v := x.c.freshVal("heap."+key, ft, []string{SInt})
	if x.entry != nil {
		x.entry.heap[key] = v
	}
	st.heap[key] = v
	return v
}

func (x *Exec) evalIndex(n *ast.IndexExpr, st *State, commaOk bool) (Val, *State) {
	base, st2 := x.eval(n.X, st)
	idx, st3 := x.eval(n.Index, st2)
	st = st3
	switch b := base.(type) {
	case Sl:
		i := idx.(Sc).T
		x.c.obligeAssume("idx", "", st.pc, tAnd(tLe("0", i), tLt(i, b.Len)), n.Pos(), "index in range: "+x.src(n))
		return vSelect(b.Arr, tAdd(b.Off, i)), st
	case Ar:
		i := idx.(Sc).T
		x.c.obligeAssume("idx", "", st.pc, tAnd(tLe("0", i), tLt(i, tInt(b.N))), n.Pos(), "index in range: "+x.src(n))
		return vSelect(b.Arr, i), st
	case Mp:
		k := encodeKey(idx)
		has := tSel(b.Has, k)
		v := vSelect(b.Val, k)
		zero := x.c.zeroVal(b.V, nil)
		val := vIte(has, v, zero)
		if commaOk {
			return Tup{[]Val{val, scBool(has)}}, st
		}
		return val, st
	case Sc:
		if b.S == SStr {
			i := idx.(Sc).T
			x.c.obligeAssume("idx", "", st.pc, tAnd(tLe("0", i), tLt(i, app("slen", b.T))), n.Pos(), "index in range: "+x.src(n))
			return scInt(app("sat", b.T, i)), st
		}
	}
	panic(unsupported("index of %T", base))
}

func (x *Exec) src(n ast.Node) string {
	return x.c.eng.nodeSrc(n)
}

func (x *Exec) evalSliceExpr(n *ast.SliceExpr, st *State) (Val, *State) {
	base, st2 := x.eval(n.X, st)
	st = st2
	var lo, hi string
	if n.Low != nil {
		v, s := x.eval(n.Low, st)
		st = s
		lo = v.(Sc).T
	} else {
		lo = "0"
	}
	if n.Slice3 {
		panic(unsupported("3-index slice"))
	}
	switch b := base.(type) {
	case Sl:
		if n.High != nil {
			v, s := x.eval(n.High, st)
			st = s
			hi = v.(Sc).T
		} else {
			hi = b.Len
		}
		// NOTE: Go allows hi up to cap(s); the engine requires hi <= len(s)
		// unless the slice was built by make with a larger capacity (not needed here).
		x.c.obligeAssume("slice", "", st.pc, tAnd(tLe("0", lo), tLe(lo, hi), tLe(hi, b.Len)), n.Pos(), "slice bounds: "+x.src(n))
		return Sl{b.Arr, tAdd(b.Off, lo), tSub(hi, lo), tAnd(b.Nil), b.Elem}, st
	case Ar:
		if n.High != nil {
			v, s := x.eval(n.High, st)
			st = s
			hi = v.(Sc).T
		} else {
			hi = tInt(b.N)
		}
		x.c.obligeAssume("slice", "", st.pc, tAnd(tLe("0", lo), tLe(lo, hi), tLe(hi, tInt(b.N))), n.Pos(), "slice bounds: "+x.src(n))
		return Sl{b.Arr, lo, tSub(hi, lo), tFalse, b.Elem}, st
	case Sc:
		if b.S == SStr {
			if n.High != nil {
				v, s := x.eval(n.High, st)
				st = s
				hi = v.(Sc).T
			} else {
				hi = app("slen", b.T)
			}
			x.c.obligeAssume("slice", "", st.pc, tAnd(tLe("0", lo), tLe(lo, hi), tLe(hi, app("slen", b.T))), n.Pos(), "slice bounds: "+x.src(n))
			return Sc{x.substr(b.T, lo, hi), SStr}, st
		}
	}
	panic(unsupported("slice of %T", base))
}

// substr returns a fresh Str equal to s[lo:hi].
func (x *Exec) substr(s, lo, hi string) string {
	c := x.c
	if lo == "0" && hi == app("slen", s) {
		return s
	}
	n := c.fresh("sub", SStr)
	// only for a valid range: callers that slice (s[lo:hi]) have emitted the bounds obligation; externs that merely
	// compute a candidate (TrimSuffix on a string shorter than the suffix) must not make the state inconsistent
	valid := tAnd(tLe("0", lo), tLe(lo, hi), tLe(hi, app("slen", s)))
	c.assumeHere(tImp(valid, tEq(app("slen", n), tSub(hi, lo))))
	c.assumeHere(tForall([][2]string{{"i!s", SInt}},
		tImp(tAnd(valid, tLe("0", "i!s"), tLt("i!s", tSub(hi, lo))), tEq(app("sat", n, "i!s"), app("sat", s, tAdd(lo, "i!s")))),
		app("sat", n, "i!s")))
	c.assumeHere(tImp(valid, tEq(app("str!sub", s, lo, hi), n)))
	c.used["str!sub"] = true
	return n
}

// ---- assignment ----

func (x *Exec) assign(lhs ast.Expr, v Val, st *State) *State {
	if st == nil {
		return nil
	}
	switch n := lhs.(type) {
	case *ast.ParenExpr:
		return x.assign(n.X, v, st)
	case *ast.Ident:
		if n.Name == "_" {
			return st
		}
		obj := x.info.Uses[n]
		if obj == nil {
			obj = x.info.Defs[n]
		}
		if obj == nil {
			panic(unsupported("assignment to unresolved %s", n.Name))
		}
		if v == nil {
			v = x.c.zeroVal(obj.Type(), nil)
		}
		if gv, ok := obj.(*types.Var); ok && gv.Pkg() != nil && gv.Parent() == gv.Pkg().Scope() {
			x.c.globalWrites = append(x.c.globalWrites, gv.Name())
			x.c.globalWritePos = n.Pos()
		}
		if _, isPt := v.(Pt); !isPt {
			x.havocAddrAliases(st, obj)
		}
		st.vars[obj] = v
		return st
	case *ast.IndexExpr:
		base, st2 := x.eval(n.X, st)
		idx, st3 := x.eval(n.Index, st2)
		st = st3
		switch b := base.(type) {
		case Sl:
			i := idx.(Sc).T
			x.c.obligeAssume("idx", "", st.pc, tAnd(tLe("0", i), tLt(i, b.Len)), n.Pos(), "index in range: "+x.src(n))
			x.frameStore(n.X, b, i, st, n.Pos())
			nb := Sl{vStore(b.Arr, tAdd(b.Off, i), v), b.Off, b.Len, b.Nil, b.Elem}
			x.havocAliases(st, b, n.X, "")
			return x.assign(n.X, nb, st)
		case Ar:
			i := idx.(Sc).T
			x.c.obligeAssume("idx", "", st.pc, tAnd(tLe("0", i), tLt(i, tInt(b.N))), n.Pos(), "index in range: "+x.src(n))
			x.havocAliases(st, b, n.X, "")
			return x.assign(n.X, Ar{vStore(b.Arr, i, v), b.N, b.Elem}, st)
		case Mp:
			k := encodeKey(idx)
			had := tSel(b.Has, k)
			x.c.obligeAssume("nilmap", "", st.pc, tNot(b.Nil), n.Pos(), "assignment to entry in nil map: "+x.src(n))
			if id, ok := ast.Unparen(n.X).(*ast.Ident); ok {
				if pv, ok := x.info.Uses[id].(*types.Var); ok && x.depth == 0 && (x.isParam(pv) || (x.sig.Recv() != nil && pv == x.sig.Recv())) {
					if x.contract == nil || !x.contract.Modifies[id.Name] {
						x.c.oblige("frame:"+id.Name, "", st.pc, tFalse, n.Pos(), "store into the caller's map "+id.Name+" (maps are shared with the caller; not declared in modifies)")
					}
				}
			}
			nm := Mp{tSto(b.Has, k, tTrue), vStore(b.Val, k, v), tIte(had, b.Len, tAdd(b.Len, "1")), b.K, b.V, b.KS, tFalse}
			x.havocAliases(st, b, n.X, "")
			return x.assign(n.X, nm, st)
		}
		panic(unsupported("store into %T", base))
	case *ast.SelectorExpr:
		sel := x.info.Selections[n]
		if sel == nil {
			obj := x.info.Uses[n.Sel]
			if gv, ok := obj.(*types.Var); ok {
				x.c.globalWrites = append(x.c.globalWrites, gv.Pkg().Name()+"."+gv.Name())
				x.c.globalWritePos = n.Pos()
			}
			st.vars[obj] = v
			return st
		}
		base, st2 := x.eval(n.X, st)
		st = st2
		bt := x.typeOf(n.X)
		if v == nil {
			v = x.c.zeroVal(sel.Obj().Type(), nil)
		}
		switch b := base.(type) {
		case St:
			return x.assign(n.X, setField(b, n.Sel.Name, v), st)
		case Pt:
			x.c.obligeAssume("nil", "", st.pc, tNot(b.Nil), n.Pos(), "nil dereference ."+n.Sel.Name)
			ns := setField(b.Elem.(St), n.Sel.Name, v)
			x.havocPtrAliases(st, b.T, x.rootObj(n.X))
			return x.assign(n.X, Pt{b.Nil, ns, b.T}, st)
		case Sc:
			if k, tn := classify(bt); k == kRef {
				x.c.obligeAssume("nil", "", st.pc, tNot(tEq(b.T, "0")), n.Pos(), "nil dereference ."+n.Sel.Name)
				key := tn + "." + n.Sel.Name
				x.noteHeapWrite(key, n.Pos())
				st.heap[key] = vStore(x.heapField(st, key), b.T, v)
				return st
			}
		case Obj:
			nf := map[string]Val{}
			for k, fv := range b.F {
				nf[k] = fv
			}
			nf[n.Sel.Name] = v
			return x.assign(n.X, Obj{b.Kind, nf}, st)
		}
		panic(unsupported("field store into %T", base))
	case *ast.StarExpr:
		p, st2 := x.eval(n.X, st)
		st = st2
		pv, ok := p.(Pt)
		if !ok {
			panic(unsupported("store through %T", p))
		}
		x.c.obligeAssume("nil", "", st.pc, tNot(pv.Nil), n.Pos(), "nil dereference")
		x.havocPtrAliases(st, pv.T, x.rootObj(n.X))
		return x.assign(n.X, Pt{pv.Nil, v, pv.T}, st)
	case *ast.SliceExpr:
		panic(unsupported("assignment to slice expression"))
	}
	panic(unsupported("assignment to %T", lhs))
}

func setField(s St, name string, v Val) St {
	nf := make([]Val, len(s.F))
	copy(nf, s.F)
	for i := 0; i < s.T.NumFields(); i++ {
		if s.T.Field(i).Name() == name {
			nf[i] = v
			return St{nf, s.T}
		}
	}
	panic("setField: no field " + name)
}

// frameStore: a store into a slice derived from a parameter must not touch the
// caller-visible prefix (append-only frame, DESIGN 3.3), unless `modifies`.
func (x *Exec) frameStore(target ast.Expr, b Sl, i string, st *State, pos token.Pos) {
	id, ok := ast.Unparen(target).(*ast.Ident)
	if !ok {
		return
	}
	obj := x.info.Uses[id]
	pv, isParam := obj.(*types.Var)
	if !isParam || x.entry == nil {
		return
	}
	ev, wasParam := x.entry.vars[pv]
	if !wasParam || !x.isParam(pv) {
		// a local slice: if its backing array is a term over the storage a slice parameter held on entry (c := p[1:]; c[0] = v),
		// the same frame condition applies, relative to that parameter's original contents
		if x.depth == 0 {
			if arr, ok := b.Arr.(Sc); ok {
				for eobj, pev := range x.entry.vars {
					ppv, ok := eobj.(*types.Var)
					if !ok || !x.isParam(ppv) {
						continue
					}
					pes, ok := pev.(Sl)
					if !ok {
						continue
					}
					pa, ok := pes.Arr.(Sc)
					if !ok || !x.c.isArrayConst(pa.T) || !containsToken(arr.T, pa.T) {
						continue
					}
					if x.contract != nil && x.contract.Modifies[ppv.Name()] {
						continue
					}
					x.c.oblige("frame:"+ppv.Name(), "", st.pc, tGe(tAdd(b.Off, i), tAdd(pes.Off, pes.Len)), pos,
						fmt.Sprintf("store through %s, which shares the storage of parameter %s, stays outside the parameter's original contents", id.Name, ppv.Name()))
				}
			}
		}
		return
	}
	if x.contract != nil && x.contract.Modifies[id.Name] {
		return
	}
	es, ok := ev.(Sl)
	if !ok {
		return
	}
	x.c.oblige("frame:"+id.Name, "", st.pc, tGe(tAdd(b.Off, i), tAdd(es.Off, es.Len)), pos,
		fmt.Sprintf("store into parameter %s stays outside its original contents", id.Name))
}

// containsToken: name occurs in term as a whole SMT symbol.
func containsToken(term, name string) bool {
	isSym := func(c byte) bool {
		return c == '!' || c == '.' || c == '_' || (c >= '0' && c <= '9') || (c >= 'a' && c <= 'z') || (c >= 'A' && c <= 'Z')
	}
	for i := strings.Index(term, name); i >= 0; {
		if (i == 0 || !isSym(term[i-1])) && (i+len(name) == len(term) || !isSym(term[i+len(name)])) {
			return true
		}
		j := strings.Index(term[i+1:], name)
		if j < 0 {
			break
		}
		i += 1 + j
	}
	return false
}

func (x *Exec) isParam(v *types.Var) bool {
	for i := 0; i < x.sig.Params().Len(); i++ {
		if x.sig.Params().At(i) == v {
			return true
		}
	}
	for _, p := range x.outerParams {
		if p == v {
			return true
		}
	}
	return false
}

func (x *Exec) noteHeapWrite(key string, pos token.Pos) {
	x.c.eng.heapWrites[x.c.fn] = append(x.c.eng.heapWrites[x.c.fn], key)
}

// ---- composite literals ----

func (x *Exec) evalComposite(n *ast.CompositeLit, t types.Type, st *State) (Val, *State) {
	c := x.c
	k, name := classify(t)
	switch k {
	case kStruct:
		stt := t.Underlying().(*types.Struct)
		v := c.zeroVal(t, nil).(St)
		for i, el := range n.Elts {
			if kv, ok := el.(*ast.KeyValueExpr); ok {
				fname := kv.Key.(*ast.Ident).Name
				var fv Val
				ft := fieldType(stt, fname)
				fv, st = x.evalElt(kv.Value, ft, st)
				v = setField(v, fname, x.convertTo(fv, x.typeOf(kv.Value), ft, st))
			} else {
				var fv Val
				fv, st = x.evalElt(el, stt.Field(i).Type(), st)
				nf := make([]Val, len(v.F))
				copy(nf, v.F)
				nf[i] = x.convertTo(fv, x.typeOf(el), stt.Field(i).Type(), st)
				v = St{nf, stt}
			}
		}
		return v, st
	case kArray:
		at := t.Underlying().(*types.Array)
		v := c.zeroVal(t, nil).(Ar)
		for i, el := range n.Elts {
			if _, ok := el.(*ast.KeyValueExpr); ok {
				panic(unsupported("keyed array literal"))
			}
			var ev Val
			ev, st = x.evalElt(el, at.Elem(), st)
			v = Ar{vStore(v.Arr, tInt(int64(i)), x.convertTo(ev, x.typeOf(el), at.Elem(), st)), v.N, v.Elem}
		}
		return v, st
	case kSlice:
		et := t.Underlying().(*types.Slice).Elem()
		arr := c.zeroVal(et, []string{SInt})
		for i, el := range n.Elts {
			if _, ok := el.(*ast.KeyValueExpr); ok {
				panic(unsupported("keyed slice literal"))
			}
			var ev Val
			ev, st = x.evalElt(el, et, st)
			arr = vStore(arr, tInt(int64(i)), x.convertTo(ev, x.typeOf(el), et, st))
		}
		return Sl{arr, "0", tInt(int64(len(n.Elts))), tFalse, et}, st
	case kMap:
		mt := t.Underlying().(*types.Map)
		m := c.zeroVal(t, nil).(Mp)
		m.Nil = tFalse
		m.Len = tInt(int64(len(n.Elts))) // Go rejects duplicate constant keys at compile time
		for _, el := range n.Elts {
			kv := el.(*ast.KeyValueExpr)
			var kval, vval Val
			kval, st = x.evalElt(kv.Key, mt.Key(), st)
			vval, st = x.evalElt(kv.Value, mt.Elem(), st)
			ke := encodeKey(kval)
			m.Has = tSto(m.Has, ke, tTrue)
			m.Val = vStore(m.Val, ke, x.convertTo(vval, x.typeOf(kv.Value), mt.Elem(), st))
		}
		return m, st
	case kObj:
		return c.zeroObj(name), st
	}
	panic(unsupported("composite literal of %s", typeName(t)))
}

// evalElt evaluates a literal element; nested literals may omit their type.
func (x *Exec) evalElt(e ast.Expr, t types.Type, st *State) (Val, *State) {
	if cl, ok := e.(*ast.CompositeLit); ok && cl.Type == nil {
		if k, name := classify(t); k == kRef {
			return x.allocRef(name, cl, st)
		} else if k == kPtr {
			pt := t.Underlying().(*types.Pointer).Elem()
			v, st2 := x.evalComposite(cl, pt, st)
			return Pt{tFalse, v, pt}, st2
		}
		return x.evalComposite(cl, t, st)
	}
	return x.eval(e, st)
}

func fieldType(st *types.Struct, name string) types.Type {
	for i := 0; i < st.NumFields(); i++ {
		if st.Field(i).Name() == name {
			return st.Field(i).Type()
		}
	}
	panic("no field " + name)
}

// allocRef allocates a fresh heap object of a reference type.
func (x *Exec) allocRef(tname string, cl *ast.CompositeLit, st *State) (Val, *State) {
	c := x.c
	top := "0"
	if a, ok := st.ghost["alloc"]; ok {
		top = a.(Sc).T
	} else if ea, ok := func() (Val, bool) {
		if x.entry == nil {
			return nil, false
		}
		v, ok := x.entry.ghost["alloc"]
		return v, ok
	}(); ok {
		top = ea.(Sc).T // the entry bound was already named by a contract clause
	} else {
		top = c.fresh("alloc0", SInt)
		c.assumeHere(tGe(top, "0"))
		if x.entry != nil {
			x.entry.ghost["alloc"] = scInt(top)
		}
	}
	ref := c.define("ref", SInt, tAdd(top, "1"))
	st.ghost["alloc"] = scInt(ref)
	stt := c.eng.structOf(tname)
	// initialise fields
	vals := map[string]Val{}
	for i := 0; i < stt.NumFields(); i++ {
		vals[stt.Field(i).Name()] = c.zeroVal(stt.Field(i).Type(), nil)
	}
	if cl != nil {
		for i, el := range cl.Elts {
			if kv, ok := el.(*ast.KeyValueExpr); ok {
				fname := kv.Key.(*ast.Ident).Name
				var fv Val
				fv, st = x.evalElt(kv.Value, fieldType(stt, fname), st)
				vals[fname] = x.convertTo(fv, x.typeOf(kv.Value), fieldType(stt, fname), st)
			} else {
				var fv Val
				fv, st = x.evalElt(el, stt.Field(i).Type(), st)
				vals[stt.Field(i).Name()] = x.convertTo(fv, x.typeOf(el), stt.Field(i).Type(), st)
			}
		}
	}
	for i := 0; i < stt.NumFields(); i++ {
		key := tname + "." + stt.Field(i).Name()
		st.heap[key] = vStore(x.heapField(st, key), ref, vals[stt.Field(i).Name()])
	}
	return scInt(ref), st
}

// globalVal returns the value of a package-level variable: defined by its
// initializer when it is never assigned elsewhere, otherwise fresh under the
// declared global invariants.
func (x *Exec) globalVal(o *types.Var, st *State) Val {
	c := x.c
	key := o.Pkg().Path() + "." + o.Name()
	if x.entry != nil {
		if v, ok := x.entry.vars[o]; ok {
			st.vars[o] = v
			return v
		}
	}
	gi := c.eng.globals[key]
	var v Val
	inInit := strings.Contains(c.fn, ".init") && gi != nil && gi.pkg == x.pkg
	if inInit && gi.init == nil {
		v = c.zeroVal(o.Type(), nil)
	} else if gi != nil && gi.init != nil && (!gi.assigned || inInit) && !(gi.establishedBy == "initializer" && c.fn != "global:"+key) {
		// value defined by the initializer expression (evaluated in the declaring package)
		sub := &Exec{c: c, pkg: gi.pkg, info: gi.pkg.info, entry: nil, sig: types.NewSignatureType(nil, nil, nil, nil, nil, false), loopOrd: new(int)}
		tmp := &State{vars: map[types.Object]Val{}, heap: map[string]Val{}, ghost: map[string]Val{}, pc: tTrue}
		v, _ = sub.eval(gi.init, tmp)
		c.notes = append(c.notes, "global "+key+" defined by its initializer (never assigned elsewhere)")
	} else {
		v = c.freshVal("g."+o.Name(), o.Type(), nil)
		if gi != nil {
			for _, inv := range gi.invs {
				if strings.HasSuffix(c.fn, "."+gi.establishedBy) && gi.pkg == x.pkg {
					continue
				}
				env := &SpecEnv{x: x, st: &State{vars: map[types.Object]Val{o: v}, heap: map[string]Val{}, ghost: map[string]Val{}, pc: tTrue},
					names: map[string]Val{o.Name(): v}}
				c.assumeHere(env.evalBool(inv.E))
			}
			if len(gi.invs) > 0 {
				c.notes = append(c.notes, "global "+key+" assumed under its invariant (established by "+gi.establishedBy+")")
			}
		}
	}
	if x.entry != nil {
		x.entry.vars[o] = v
	}
	st.vars[o] = v
	return v
}

// overflowCheck: + - * on 64-bit signed integers must stay within int64 (Go
// wraps silently; the engine computes in mathematical integers, so a wrap
// would make the proof say nothing about the real code). Lengths are assumed
// <= 2^56 (address space), every other int64 value may be extreme.
func (x *Exec) overflowCheck(op, res string, t types.Type, st *State, pos token.Pos, src string) {
	if !x.c.eng.ovf || x.c.bv || st == nil || t == nil {
		return
	}
	if op != "+" && op != "-" && op != "*" {
		return
	}
	b, ok := t.Underlying().(*types.Basic)
	if !ok || (b.Kind() != types.Int && b.Kind() != types.Int64) {
		return
	}
	if _, lit := isIntLit(res); lit {
		return
	}
	x.c.obligeAssume("ovf", "", st.pc, tAnd(tLe("(- 9223372036854775808)", res), tLe(res, "9223372036854775807")), pos, "no int64 overflow: "+src)
}

// dynamic type codes of boxed values (interface values): the five types the repository stores in `any`
// have fixed codes (used by the spec builtins dynbyte/dynint/...), other types get codes from 10 upwards.
var dynCodes = map[string]int{"uint8": 1, "int": 2, "float64": 3, "string": 4, "[]uint8": 5}

func dynCode(t types.Type) int {
	name := types.TypeString(types.Unalias(t), nil)
	if name == "byte" {
		name = "uint8"
	}
	if name == "[]byte" {
		name = "[]uint8"
	}
	if c, ok := dynCodes[name]; ok {
		return c
	}
	c := 10 + len(dynCodes)
	dynCodes[name] = c
	return c
}

// box renders the interface value holding v (of static type t) as an application of an injective constructor.
func (x *Exec) box(v Val, t types.Type) (string, bool) {
	c := x.c
	code := tInt(int64(dynCode(t)))
	k, _ := classify(t)
	switch vv := v.(type) {
	case Sc:
		switch {
		case k == kInt && vv.S == SInt:
			c.used["dyn!"] = true
			return app("box!i", code, vv.T), true
		case k == kReal:
			c.used["dyn!"] = true
			return app("box!r", code, toReal(vv)), true
		case k == kStr && vv.S == SStr:
			c.used["dyn!"] = true
			c.usesStr = true
			return app("box!s", code, vv.T), true
		}
	case Sl:
		if a, ok := vv.Arr.(Sc); ok && a.S == arrSort(SInt, SInt) {
			n := c.normView(vv)
			c.used["dyn!"] = true
			return app("box!b", code, n.Arr.(Sc).T, n.Len), true
		}
	}
	return "", false
}

// unbox gives the value of dynamic type t held by the interface token tok.
func (x *Exec) unbox(tok string, t types.Type) (Val, bool) {
	c := x.c
	c.used["dyn!"] = true
	k, _ := classify(t)
	switch k {
	case kInt:
		return scInt(app("dyn!i", tok)), true
	case kReal:
		return Sc{app("dyn!r", tok), SReal}, true
	case kStr:
		c.usesStr = true
		return Sc{app("dyn!s", tok), SStr}, true
	case kSlice:
		if sl, ok := types.Unalias(t).Underlying().(*types.Slice); ok {
			if b, ok := sl.Elem().Underlying().(*types.Basic); ok && b.Kind() == types.Uint8 {
				return Sl{Sc{app("dyn!ba", tok), arrSort(SInt, SInt)}, "0", app("dyn!bl", tok), tFalse, sl.Elem()}, true
			}
		}
	}
	return nil, false
}

// stateChanged reports whether evaluating an operand changed anything of the state but its path condition.
func (x *Exec) stateChanged(a, b *State) bool {
	if len(a.vars) != len(b.vars) || len(a.ghost) != len(b.ghost) {
		return true
	}
	for k, v := range b.vars {
		if w, ok := a.vars[k]; !ok || !sameVal(v, w) {
			return true
		}
	}
	for k, v := range b.ghost {
		if w, ok := a.ghost[k]; !ok || !sameVal(v, w) {
			return true
		}
	}
	for k := range b.heap {
		if !sameVal(x.heapField(a, k), x.heapField(b, k)) {
			return true
		}
	}
	for k := range a.heap {
		if _, ok := b.heap[k]; !ok {
			return true
		}
	}
	return false
}

// ---- aliasing (DESIGN 3.3, 11.2 item 12) ----
// Slices, arrays, maps and value-mode pointers are modelled as values. Two variables that share storage (t := s[1:], n := m,
// q := p, s := buf[:]) are therefore two copies, and a write through one would not be seen through the other. The engine does
// not track sharing precisely; instead every write havocs what any OTHER variable (or heap field) may see of the written
// storage: for slices, arrays and maps the array-sorted leaves that mention one of the array constants of the written value,
// for pointers the pointees of all other pointers of the same type. A read through a stale alias then yields an arbitrary value,
// so nothing false can be proved from it (sound), and code that never reads the other alias after the write is unaffected.

// rootObj: the variable an l-value or storage expression is rooted at.
func (x *Exec) rootObj(e ast.Expr) types.Object {
	for {
		switch n := ast.Unparen(e).(type) {
		case *ast.Ident:
			if o := x.info.Uses[n]; o != nil {
				return o
			}
			return x.info.Defs[n]
		case *ast.IndexExpr:
			e = n.X
		case *ast.SliceExpr:
			e = n.X
		case *ast.StarExpr:
			e = n.X
		case *ast.SelectorExpr:
			if sel := x.info.Selections[n]; sel == nil {
				return x.info.Uses[n.Sel]
			}
			e = n.X
		default:
			return nil
		}
	}
}

// staleStorage returns v with every storage leaf of one of the given sorts replaced by a fresh constant. keepBelow != "":
// the fresh array agrees with the old one at indices below keepBelow (append writes at or above the end of its operand).
func (x *Exec) staleStorage(v Val, sorts map[string]bool, hint, keepBelow string) (Val, bool) {
	changed := false
	c := x.c
	var rec func(v Val, storage bool) Val
	rec = func(v Val, storage bool) Val {
		switch n := v.(type) {
		case Sc:
			if storage && sorts[n.S] {
				changed = true
				f := c.fresh(hint, n.S)
				if keepBelow != "" && strings.HasPrefix(n.S, "(Array Int") {
					c.assumeDef(tForall([][2]string{{"i!s", SInt}}, tImp(tLt("i!s", keepBelow), tEq(tSel(f, "i!s"), tSel(n.T, "i!s"))), tSel(f, "i!s")))
				}
				return Sc{f, n.S}
			}
			return n
		case Sl:
			return Sl{rec(n.Arr, true), n.Off, n.Len, n.Nil, n.Elem}
		case Ar:
			return Ar{rec(n.Arr, true), n.N, n.Elem}
		case Mp:
			if sorts["map:"+n.KS] {
				changed = true
				nl := c.fresh(hint+".len", SInt)
				c.assumeDef(tGe(nl, "0"))
				nv := mapValSc(n.Val, func(s Sc) Sc { return Sc{c.fresh(hint, s.S), s.S} })
				return Mp{c.fresh(hint, arrSort(n.KS, SBool)), nv, nl, n.K, n.V, n.KS, n.Nil}
			}
			return n
		case St:
			nf := make([]Val, len(n.F))
			for i := range n.F {
				nf[i] = rec(n.F[i], storage)
			}
			return St{nf, n.T}
		case Pt:
			return Pt{n.Nil, rec(n.Elem, storage), n.T}
		case Tup:
			ne := make([]Val, len(n.E))
			for i := range n.E {
				ne[i] = rec(n.E[i], storage)
			}
			return Tup{ne}
		}
		return v
	}
	out := rec(v, false)
	return out, changed
}

// mapValSc applies f to every scalar leaf, keeping the shape.
func mapValSc(v Val, f func(Sc) Sc) Val {
	switch n := v.(type) {
	case Sc:
		return f(n)
	case Sl:
		return Sl{mapValSc(n.Arr, f), n.Off, n.Len, n.Nil, n.Elem}
	case Ar:
		return Ar{mapValSc(n.Arr, f), n.N, n.Elem}
	case St:
		nf := make([]Val, len(n.F))
		for i := range n.F {
			nf[i] = mapValSc(n.F[i], f)
		}
		return St{nf, n.T}
	case Pt:
		return Pt{n.Nil, mapValSc(n.Elem, f), n.T}
	case Tup:
		ne := make([]Val, len(n.E))
		for i := range n.E {
			ne[i] = mapValSc(n.E[i], f)
		}
		return Tup{ne}
	}
	return v
}

// storageSorts: the SMT sorts of the storage leaves of v.
func storageSorts(v Val) map[string]bool {
	out := map[string]bool{}
	var rec func(v Val, storage bool)
	rec = func(v Val, storage bool) {
		switch n := v.(type) {
		case Sc:
			if storage {
				out[n.S] = true
			}
		case Sl:
			rec(n.Arr, true)
		case Ar:
			rec(n.Arr, true)
		case Mp:
			out["map:"+n.KS] = true
		case St:
			for _, f := range n.F {
				rec(f, storage)
			}
		case Pt:
			rec(n.Elem, storage)
		}
	}
	rec(v, false)
	return out
}

// havocAliases: after a write into the storage of `written` (its value before the write) through the l-value or operand
// `target`, what the variables that may share that storage (alias.go) see of it is arbitrary: their storage leaves of the
// written sorts are replaced by fresh constants. The variable the write goes through gets the new value from the caller.
func (x *Exec) havocAliases(st *State, written Val, target ast.Expr, keepBelow string) {
	root := x.rootObj(target)
	if root == nil {
		return
	}
	sorts := storageSorts(written)
	if len(sorts) == 0 {
		return
	}
	objs := x.sharers(st, root)
	// the variable the write goes through: other paths inside it may share the written storage only if the function lets
	// two of its paths share (alias.go: self); the operand of an append keeps its own view of the storage, which the
	// append may overwrite at or above the operand's end
	if x.c.alias.self[root] {
		objs = append(objs, root)
	} else if keepBelow != "" {
		if rv, ok := st.vars[root]; ok {
			exact := map[string]bool{}
			for _, l := range storageLeaves(written) {
				exact[l] = true
			}
			if nv, ch := x.staleExact(rv, exact, "alias."+root.Name(), keepBelow); ch {
				st.vars[root] = nv
			}
		}
	}
	for _, o := range objs {
		if nv, ch := x.staleStorage(st.vars[o], sorts, "alias."+o.Name(), keepBelow); ch {
			st.vars[o] = nv
			x.c.notes = append(x.c.notes, "write into storage that "+o.Name()+" may share ("+x.c.posOf(target)+"): "+o.Name()+"'s view of it is arbitrary afterwards")
		}
	}
	// storage copied out of a field of a heap object and written through the copy: the heap component is stale
	// (a write that goes through the field itself is a store into the heap component, which the heap model handles)
	if x.c.alias.same(root, x.c.alias.heapObj) && !x.throughHeap(target) {
		var hk []string
		for k := range st.heap {
			hk = append(hk, k)
		}
		sort.Strings(hk)
		for _, k := range hk {
			if nv, ch := x.staleStorage(st.heap[k], sorts, "alias.heap", keepBelow); ch {
				st.heap[k] = nv
			}
		}
	}
}

// havocPtrAliases: after a store through a value-mode pointer to T, the pointee of every other pointer that may point to
// the same storage (alias.go: same may-share class) is arbitrary, and so is every variable of the class that is not a
// pointer (p := &x, p := &q.f: the variable holds the storage pointed to).
func (x *Exec) havocPtrAliases(st *State, T types.Type, except types.Object) {
	for _, o := range x.sharers(st, except) {
		old := st.vars[o]
		switch n := old.(type) {
		case Pt:
			st.vars[o] = Pt{n.Nil, x.keepObjs(n.Elem, x.c.freshVal("alias."+o.Name(), n.T, nil), "alias."+o.Name()), n.T}
		case Obj, Fn, nil:
			continue
		default:
			if k, _ := classify(o.Type()); k == kObj || k == kRef {
				continue
			}
			if !x.c.alias.addr[o] {
				continue // its address is never taken: no pointer points into it
			}
			st.vars[o] = x.keepObjs(old, x.c.freshVal("alias."+o.Name(), o.Type(), nil), "alias."+o.Name())
		}
		x.c.notes = append(x.c.notes, "store through a pointer that may point into "+o.Name()+": "+o.Name()+" is arbitrary afterwards")
	}
}

// havocAddrAliases: after an assignment to (part of) variable root, the pointee of every value-mode pointer that may point
// into it (p := &root, p := &root.f) is arbitrary.
func (x *Exec) havocAddrAliases(st *State, root types.Object) {
	if root == nil {
		return
	}
	if !x.c.alias.addr[root] {
		return // its address is never taken: no pointer points into it
	}
	for _, o := range x.sharers(st, root) {
		if n, ok := st.vars[o].(Pt); ok {
			st.vars[o] = Pt{n.Nil, x.keepObjs(n.Elem, x.c.freshVal("alias."+o.Name(), n.T, nil), "alias."+o.Name()), n.T}
			x.c.notes = append(x.c.notes, "assignment to "+root.Name()+", which "+o.Name()+" may point into: "+o.Name()+"'s pointee is arbitrary afterwards")
		}
	}
}

// havocLoopAliases: the loop-head counterpart of havocAliases. Every variable whose storage the loop writes (element
// stores, append, copy, delete, in-place sorts) may be shared with other variables; what those see of it is arbitrary at the
// loop head (the written variables themselves are havocked by the ordinary loop rule). Likewise for stores through pointers.
func (x *Exec) havocLoopAliases(entry, head *State, nodes ...ast.Node) {
	var targets []ast.Expr
	var ptrTargets []ast.Expr
	note := func(e ast.Expr) {
		if e != nil {
			targets = append(targets, e)
		}
	}
	var lhs func(e ast.Expr)
	lhs = func(e ast.Expr) {
		switch n := ast.Unparen(e).(type) {
		case *ast.IndexExpr:
			note(n.X)
			lhs(n.X)
		case *ast.SelectorExpr:
			if sel := x.info.Selections[n]; sel != nil {
				if _, isPtr := x.typeOf(n.X).Underlying().(*types.Pointer); isPtr {
					if k, _ := classify(x.typeOf(n.X)); k != kRef {
						ptrTargets = append(ptrTargets, n.X)
					}
				}
				lhs(n.X)
			}
		case *ast.StarExpr:
			ptrTargets = append(ptrTargets, n.X)
			lhs(n.X)
		}
	}
	for _, nd := range nodes {
		if nd == nil || (reflect.ValueOf(nd).Kind() == reflect.Ptr && reflect.ValueOf(nd).IsNil()) {
			continue
		}
		ast.Inspect(nd, func(n ast.Node) bool {
			switch s := n.(type) {
			case *ast.FuncLit:
				return false
			case *ast.AssignStmt:
				for _, l := range s.Lhs {
					lhs(l)
				}
			case *ast.IncDecStmt:
				lhs(s.X)
			case *ast.CallExpr:
				if id, ok := ast.Unparen(s.Fun).(*ast.Ident); ok && len(s.Args) > 0 {
					if _, isB := x.info.Uses[id].(*types.Builtin); isB && (id.Name == "append" || id.Name == "copy" || id.Name == "delete") {
						note(s.Args[0])
					}
				}
				if se, ok := ast.Unparen(s.Fun).(*ast.SelectorExpr); ok && len(s.Args) > 0 {
					if pid, ok := ast.Unparen(se.X).(*ast.Ident); ok {
						if pn, ok := x.info.Uses[pid].(*types.PkgName); ok && (pn.Imported().Path() == "sort" || pn.Imported().Path() == "slices") {
							note(s.Args[0])
						}
					}
				}
			}
			return true
		})
	}
	for _, t := range targets {
		root := x.rootObj(t)
		if root == nil {
			continue
		}
		v, ok := entry.vars[root]
		if !ok {
			continue
		}
		sorts := storageSorts(v)
		if len(sorts) == 0 {
			continue
		}
		for _, o := range x.sharers(head, root) {
			if nv, ch := x.staleStorage(head.vars[o], sorts, "alias."+o.Name(), ""); ch {
				head.vars[o] = nv
				x.c.notes = append(x.c.notes, "loop writes into storage that "+o.Name()+" may share ("+x.c.posOf(t)+"): "+o.Name()+"'s view of it is arbitrary at the loop head")
			}
		}
	}
	for _, t := range ptrTargets {
		root := x.rootObj(t)
		pt, ok := x.typeOf(t).Underlying().(*types.Pointer)
		if !ok {
			continue
		}
		x.havocPtrAliases(head, pt.Elem(), root)
	}
}

// storageLeaves: the terms of the storage leaves of v.
func storageLeaves(v Val) []string {
	var out []string
	var rec func(v Val, storage bool)
	rec = func(v Val, storage bool) {
		switch n := v.(type) {
		case Sc:
			if storage {
				out = append(out, n.T)
			}
		case Sl:
			rec(n.Arr, true)
		case Ar:
			rec(n.Arr, true)
		case St:
			for _, f := range n.F {
				rec(f, storage)
			}
		case Pt:
			rec(n.Elem, storage)
		}
	}
	rec(v, false)
	return out
}

// staleExact: like staleStorage, for the storage leaves that are literally one of the given terms.
func (x *Exec) staleExact(v Val, terms map[string]bool, hint, keepBelow string) (Val, bool) {
	changed := false
	c := x.c
	var rec func(v Val, storage bool) Val
	rec = func(v Val, storage bool) Val {
		switch n := v.(type) {
		case Sc:
			if storage && terms[n.T] && strings.HasPrefix(n.S, "(Array Int") {
				changed = true
				f := c.fresh(hint, n.S)
				c.assumeDef(tForall([][2]string{{"i!s", SInt}}, tImp(tLt("i!s", keepBelow), tEq(tSel(f, "i!s"), tSel(n.T, "i!s"))), tSel(f, "i!s")))
				return Sc{f, n.S}
			}
			return n
		case Sl:
			return Sl{rec(n.Arr, true), n.Off, n.Len, n.Nil, n.Elem}
		case Ar:
			return Ar{rec(n.Arr, true), n.N, n.Elem}
		case St:
			nf := make([]Val, len(n.F))
			for i := range n.F {
				nf[i] = rec(n.F[i], storage)
			}
			return St{nf, n.T}
		case Pt:
			return Pt{n.Nil, rec(n.Elem, storage), n.T}
		}
		return v
	}
	out := rec(v, false)
	return out, changed
}

// throughHeap: the storage expression reaches its storage through a field of a heap object.
func (x *Exec) throughHeap(e ast.Expr) bool {
	for {
		switch n := ast.Unparen(e).(type) {
		case *ast.IndexExpr:
			e = n.X
		case *ast.SliceExpr:
			e = n.X
		case *ast.StarExpr:
			e = n.X
		case *ast.SelectorExpr:
			if sel := x.info.Selections[n]; sel == nil {
				return false
			}
			if k, _ := classify(x.typeOf(n.X)); k == kRef {
				return true
			}
			e = n.X
		default:
			return false
		}
	}
}
