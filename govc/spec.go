package main

import (
	"fmt"
	"strconv"
	"strings"
	"unicode"
)

// Spec expression language (see DESIGN.md Appendix A): Go-like expressions plus
// forall/exists, ==>, <==>, c ? a : b, old(e), result, result.k.

type SExpr interface{}

type (
	SLit   struct{ Kind, Val string } // Kind: int, real, char, string, bool, nil
	SIdent struct{ Name string }
	SUn    struct {
		Op string
		X  SExpr
	}
	SBin struct {
		Op   string
		X, Y SExpr
	}
	STern  struct{ C, A, B SExpr }
	SQuant struct {
		Forall  bool
		Vars    [][2]string // name, type
		Body    SExpr
		Pats    []SExpr
		AltPats [][]SExpr
	}
	SIndex struct{ X, I SExpr }
	SSlice struct{ X, Lo, Hi SExpr }
	SField struct {
		X    SExpr
		Name string
	}
	SCall struct {
		Fn   string
		Args []SExpr
	}
)

type specTok struct {
	kind string // id, int, real, char, str, op, eof
	s    string
	pos  int
}

func lexSpec(src string) ([]specTok, error) {
	var toks []specTok
	i := 0
	for i < len(src) {
		c := src[i]
		switch {
		case c == ' ' || c == '\t' || c == '\n' || c == '\r':
			i++
		case unicode.IsLetter(rune(c)) || c == '_':
			j := i
			for j < len(src) && (unicode.IsLetter(rune(src[j])) || unicode.IsDigit(rune(src[j])) || src[j] == '_' || src[j] == '!') {
				j++
			}
			toks = append(toks, specTok{"id", src[i:j], i})
			i = j
		case c >= '0' && c <= '9':
			j := i
			isReal := false
			if c == '0' && j+1 < len(src) && (src[j+1] == 'x' || src[j+1] == 'X') {
				j += 2
				for j < len(src) && strings.IndexByte("0123456789abcdefABCDEF", src[j]) >= 0 {
					j++
				}
			} else {
				for j < len(src) && (src[j] >= '0' && src[j] <= '9') {
					j++
				}
				if j+1 < len(src) && src[j] == '.' && src[j+1] >= '0' && src[j+1] <= '9' {
					isReal = true
					j++
					for j < len(src) && (src[j] >= '0' && src[j] <= '9') {
						j++
					}
				}
			}
			k := "int"
			if isReal {
				k = "real"
			}
			toks = append(toks, specTok{k, src[i:j], i})
			i = j
		case c == '\'':
			j := i + 1
			for j < len(src) && src[j] != '\'' {
				if src[j] == '\\' {
					j++
				}
				j++
			}
			if j >= len(src) {
				return nil, fmt.Errorf("unterminated char literal at %d", i)
			}
			toks = append(toks, specTok{"char", src[i : j+1], i})
			i = j + 1
		case c == '"':
			j := i + 1
			for j < len(src) && src[j] != '"' {
				if src[j] == '\\' {
					j++
				}
				j++
			}
			if j >= len(src) {
				return nil, fmt.Errorf("unterminated string literal at %d", i)
			}
			toks = append(toks, specTok{"str", src[i : j+1], i})
			i = j + 1
		default:
			ops := []string{"<==>", "==>", "::", "==", "!=", "<=", ">=", "&&", "||", "<<", ">>", "&^"}
			matched := false
			for _, op := range ops {
				if strings.HasPrefix(src[i:], op) {
					toks = append(toks, specTok{"op", op, i})
					i += len(op)
					matched = true
					break
				}
			}
			if !matched {
				if strings.IndexByte("+-*/%<>!()[]{}.,:?&|^", c) >= 0 {
					toks = append(toks, specTok{"op", string(c), i})
					i++
				} else {
					return nil, fmt.Errorf("bad character %q at %d", c, i)
				}
			}
		}
	}
	toks = append(toks, specTok{"eof", "", len(src)})
	return toks, nil
}

type specParser struct {
	toks []specTok
	p    int
	src  string
}

func parseSpec(src string) (e SExpr, err error) {
	toks, err := lexSpec(src)
	if err != nil {
		return nil, err
	}
	ps := &specParser{toks: toks, src: src}
	defer func() {
		if r := recover(); r != nil {
			if pe, ok := r.(specErr); ok {
				err = fmt.Errorf("%s in %q", string(pe), src)
				return
			}
			panic(r)
		}
	}()
	e = ps.expr()
	if ps.peek().kind != "eof" {
		ps.fail("unexpected %q", ps.peek().s)
	}
	return e, nil
}

type specErr string

func (ps *specParser) fail(f string, a ...interface{}) {
	panic(specErr(fmt.Sprintf("spec parse error at %d: ", ps.peek().pos) + fmt.Sprintf(f, a...)))
}
func (ps *specParser) peek() specTok { return ps.toks[ps.p] }
func (ps *specParser) next() specTok { t := ps.toks[ps.p]; ps.p++; return t }
func (ps *specParser) isOp(s string) bool {
	t := ps.peek()
	return t.kind == "op" && t.s == s
}
func (ps *specParser) accept(s string) bool {
	if ps.isOp(s) {
		ps.p++
		return true
	}
	return false
}
func (ps *specParser) expect(s string) {
	if !ps.accept(s) {
		ps.fail("expected %q, got %q", s, ps.peek().s)
	}
}

func (ps *specParser) expr() SExpr {
	t := ps.peek()
	if t.kind == "id" && (t.s == "forall" || t.s == "exists") {
		ps.next()
		q := &SQuant{Forall: t.s == "forall"}
		for {
			n := ps.next()
			if n.kind != "id" {
				ps.fail("expected bound variable name")
			}
			names := []string{n.s}
			for ps.accept(",") {
				n2 := ps.next()
				names = append(names, n2.s)
			}
			ty := ps.next()
			if ty.kind != "id" {
				ps.fail("expected type of bound variable")
			}
			for _, nm := range names {
				q.Vars = append(q.Vars, [2]string{nm, ty.s})
			}
			if ps.accept("::") {
				break
			}
			ps.expect(",")
		}
		// optional patterns { e, e }
		// each brace group is one multi-pattern; several groups are alternatives
		for ps.isOp("{") {
			ps.next()
			grp := []SExpr{ps.expr()}
			for ps.accept(",") {
				grp = append(grp, ps.expr())
			}
			ps.expect("}")
			if q.Pats == nil {
				q.Pats = grp
			} else {
				q.AltPats = append(q.AltPats, grp)
			}
		}
		q.Body = ps.expr()
		return q
	}
	return ps.iff()
}

func (ps *specParser) iff() SExpr {
	x := ps.impl()
	for ps.accept("<==>") {
		y := ps.impl()
		x = &SBin{"<==>", x, y}
	}
	return x
}

func (ps *specParser) impl() SExpr {
	x := ps.tern()
	if ps.accept("==>") {
		var y SExpr
		t := ps.peek()
		if t.kind == "id" && (t.s == "forall" || t.s == "exists") {
			y = ps.expr()
		} else {
			y = ps.impl()
		}
		return &SBin{"==>", x, y}
	}
	return x
}

func (ps *specParser) tern() SExpr {
	c := ps.or()
	if ps.accept("?") {
		a := ps.tern()
		ps.expect(":")
		b := ps.tern()
		return &STern{c, a, b}
	}
	return c
}

func (ps *specParser) or() SExpr {
	x := ps.and()
	for ps.accept("||") {
		x = &SBin{"||", x, ps.and()}
	}
	return x
}

func (ps *specParser) and() SExpr {
	x := ps.cmp()
	for ps.accept("&&") {
		t := ps.peek()
		if t.kind == "id" && (t.s == "forall" || t.s == "exists") {
			x = &SBin{"&&", x, ps.expr()}
			return x
		}
		x = &SBin{"&&", x, ps.cmp()}
	}
	return x
}

func (ps *specParser) cmp() SExpr {
	x := ps.add()
	for _, op := range []string{"==", "!=", "<=", ">=", "<", ">"} {
		if ps.accept(op) {
			y := ps.add()
			r := SExpr(&SBin{op, x, y})
			// chained comparison a <= b < c
			for _, op2 := range []string{"<=", "<", ">=", ">"} {
				if ps.accept(op2) {
					z := ps.add()
					r = &SBin{"&&", r, &SBin{op2, y, z}}
					break
				}
			}
			return r
		}
	}
	return x
}

func (ps *specParser) add() SExpr {
	x := ps.mul()
	for {
		switch {
		case ps.accept("+"):
			x = &SBin{"+", x, ps.mul()}
		case ps.accept("-"):
			x = &SBin{"-", x, ps.mul()}
		case ps.accept("|"):
			x = &SBin{"|", x, ps.mul()}
		case ps.accept("^"):
			x = &SBin{"^", x, ps.mul()}
		default:
			return x
		}
	}
}

func (ps *specParser) mul() SExpr {
	x := ps.unary()
	for {
		switch {
		case ps.accept("*"):
			x = &SBin{"*", x, ps.unary()}
		case ps.accept("/"):
			x = &SBin{"/", x, ps.unary()}
		case ps.accept("%"):
			x = &SBin{"%", x, ps.unary()}
		case ps.accept("<<"):
			x = &SBin{"<<", x, ps.unary()}
		case ps.accept(">>"):
			x = &SBin{">>", x, ps.unary()}
		case ps.accept("&^"):
			x = &SBin{"&^", x, ps.unary()}
		case ps.accept("&"):
			x = &SBin{"&", x, ps.unary()}
		default:
			return x
		}
	}
}

func (ps *specParser) unary() SExpr {
	switch {
	case ps.accept("!"):
		return &SUn{"!", ps.unary()}
	case ps.accept("-"):
		return &SUn{"-", ps.unary()}
	case ps.accept("*"):
		return &SUn{"*", ps.unary()}
	case ps.accept("^"):
		return &SUn{"^", ps.unary()}
	}
	return ps.postfix()
}

func (ps *specParser) postfix() SExpr {
	x := ps.primary()
	for {
		switch {
		case ps.accept("["):
			var lo, hi SExpr
			if ps.isOp(":") {
				ps.next()
				if !ps.isOp("]") {
					hi = ps.expr()
				}
				ps.expect("]")
				x = &SSlice{x, nil, hi}
				continue
			}
			lo = ps.expr()
			if ps.accept(":") {
				if !ps.isOp("]") {
					hi = ps.expr()
				}
				ps.expect("]")
				x = &SSlice{x, lo, hi}
				continue
			}
			ps.expect("]")
			x = &SIndex{x, lo}
		case ps.accept("."):
			t := ps.next()
			if t.kind != "id" && t.kind != "int" {
				ps.fail("expected field name")
			}
			x = &SField{x, t.s}
		case ps.isOp("("):
			id, ok := x.(*SIdent)
			if !ok {
				ps.fail("call of non-identifier")
			}
			ps.next()
			var args []SExpr
			if !ps.isOp(")") {
				args = append(args, ps.expr())
				for ps.accept(",") {
					args = append(args, ps.expr())
				}
			}
			ps.expect(")")
			x = &SCall{id.Name, args}
		default:
			return x
		}
	}
}

func (ps *specParser) primary() SExpr {
	t := ps.next()
	switch t.kind {
	case "int":
		n, err := strconv.ParseInt(t.s, 0, 64)
		if err != nil {
			u, err2 := strconv.ParseUint(t.s, 0, 64)
			if err2 != nil {
				ps.fail("bad int %s", t.s)
			}
			return &SLit{"int", strconv.FormatUint(u, 10)}
		}
		return &SLit{"int", strconv.FormatInt(n, 10)}
	case "real":
		return &SLit{"real", t.s}
	case "char":
		v, _, _, err := strconv.UnquoteChar(t.s[1:len(t.s)-1], '\'')
		if err != nil {
			ps.fail("bad char %s", t.s)
		}
		return &SLit{"int", strconv.Itoa(int(v))}
	case "str":
		v, err := strconv.Unquote(t.s)
		if err != nil {
			ps.fail("bad string %s", t.s)
		}
		return &SLit{"string", v}
	case "id":
		switch t.s {
		case "true", "false":
			return &SLit{"bool", t.s}
		case "nil":
			return &SLit{"nil", ""}
		case "forall", "exists":
			ps.p--
			return ps.expr()
		}
		return &SIdent{t.s}
	case "op":
		if t.s == "(" {
			e := ps.expr()
			ps.expect(")")
			return e
		}
	}
	ps.p--
	ps.fail("unexpected %q", t.s)
	return nil
}
