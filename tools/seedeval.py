#!/usr/bin/env python3
"""Evaluates seeded defects: for each /tmp/seed-out/<ID>-<k>/ (patch.diff, demo_test.go) confirm in a scratch worktree that
the suite passes with the patch, the demo fails with it and passes without it; then run ./check <ID> against the patched tree.
usage: seedeval.py [dir ...]   (default: all under /tmp/seed-out)"""
import json, os, re, shutil, subprocess, sys, glob
V = os.path.dirname(os.path.dirname(os.path.abspath(__file__)))
OUT = os.environ.get("SEED_OUT", "/tmp/seed-out")
PKGDIR = {"fasta": "formats/fasta", "fastq": "formats/fastq", "sam": "formats/sam", "bed": "formats/bed", "newick": "formats/newick",
          "smtext": "formats/smtext", "align": "align", "mash": "mash", "regions": "regions", "sequtil": "sequtil", "trie": "trie"}
ENV = dict(os.environ, GOFLAGS="-mod=readonly", GOPROXY="off", GOSUMDB="off", GOTOOLCHAIN="local")
def sh(cmd, cwd=None, env=ENV, timeout=900):
    p = subprocess.run(cmd, shell=True, cwd=cwd, env=env, capture_output=True, text=True, timeout=timeout)
    return p.returncode, p.stdout + p.stderr
def main():
    dirs = sys.argv[1:] or sorted(d for d in glob.glob(OUT + "/C*-*") if os.path.isdir(d))
    wt = os.path.join(os.path.expanduser("~"), ".cache", "verif-scratch", "wt-eval-%d" % os.getpid())
    sh(f"git -C /repo worktree remove --force {wt}")
    shutil.rmtree(wt, ignore_errors=True)
    rc, out = sh(f"git -C /repo worktree add --detach {wt} HEAD")
    assert rc == 0, out
    results = []
    try:
        for d in dirs:
            name = os.path.basename(d)
            prop = name.split("-")[0]
            patch = os.path.join(d, "patch.diff")
            demo = os.path.join(d, "demo_test.go")
            r = {"id": name, "property": prop}
            if not os.path.exists(patch):
                r["error"] = "no patch"; results.append(r); continue
            src = open(demo).read() if os.path.exists(demo) else ""
            m = re.search(r"^package\s+(\w+)", src, re.M)
            pkg = m.group(1).replace("_test", "") if m else None
            pdir = PKGDIR.get(pkg)
            rc, out = sh(f"git apply {patch}", cwd=wt)
            if rc != 0:
                r["error"] = "patch does not apply: " + out[-200:]; results.append(r); continue
            rc, out = sh("go build ./... && go test -vet=off -count=1 ./...", cwd=wt)
            r["suite_passes_with_patch"] = rc == 0
            if pdir:
                dst = os.path.join(wt, pdir, "zz_demo_seed_test.go")
                shutil.copy(demo, dst)
                rc, out = sh(f"go test -vet=off -count=1 -run Demo ./{pdir}", cwd=wt)
                r["demo_fails_with_patch"] = rc != 0
                r["demo_tail"] = out[-300:]
                os.remove(dst)
            # run the property's check against the patched tree
            # evidence and replay files of runs against a patched tree go to a scratch directory, not to /verif
            env = dict(os.environ, VERIF_REPO=wt, VERIF_EVIDENCE_DIR=os.path.join(OUT, "evidence"), VERIF_REPLAYS_DIR=os.path.join(OUT, "replays"))
            rc, out = sh(f"./check {prop} --tier quick", cwd=V, env=env, timeout=1800)
            r["check_exit"] = rc
            r["check_lines"] = [l[:300] for l in out.splitlines() if l.startswith(("VIOLATION", "UNDECIDED", "engine error", "KNOWN"))][:6]
            vio = [l for l in out.splitlines() if l.startswith("VIOLATION")]
            r["detected"] = rc == 1 and bool(vio)
            r["detected_by"] = []
            for l in vio[:4]:
                mm = re.search(r"replay=(\S+)", l)
                if mm and os.path.exists(mm.group(1)):
                    rep = json.load(open(mm.group(1)))
                    r["detected_by"].append((rep.get("obligation") or ("bounded:" + str(rep.get("clause")))) + (" [no-failing-input-found]" if "no-failing-input-found" in l else ""))
            sh("git checkout -- . && git clean -fdq", cwd=wt)
            if pdir:
                dst = os.path.join(wt, pdir, "zz_demo_seed_test.go")
                shutil.copy(demo, dst)
                rc, out = sh(f"go test -vet=off -count=1 -run Demo ./{pdir}", cwd=wt)
                r["demo_passes_without_patch"] = rc == 0
                os.remove(dst)
            results.append(r)
            print(json.dumps({k: r[k] for k in r if k not in ("demo_tail",)}))
            sys.stdout.flush()
    finally:
        sh(f"git -C /repo worktree remove --force {wt}")
        shutil.rmtree(wt, ignore_errors=True)
    json.dump(results, open(os.path.join(OUT, "eval.json"), "w"), indent=1)
main()
