#!/usr/bin/env python3
"""Re-runs ./check <property> --tier quick against every seeded defect under /verif/seeded (scratch worktree of /repo
HEAD + patch.diff) and records what detects it NOW in meta.json (detected_now, detected_by_now).
usage: seedreeval.py [ids...]   -> prints one line per seed and writes seeded/reeval.json"""
import json, os, re, shutil, subprocess, sys, glob
V = os.path.dirname(os.path.dirname(os.path.abspath(__file__)))
def sh(cmd, **kw):
    p = subprocess.run(cmd, shell=True, capture_output=True, text=True, **kw)
    return p.returncode, p.stdout + p.stderr
def main():
    want = set(sys.argv[1:])
    dirs = sorted(d for d in glob.glob(os.path.join(V, "seeded", "C*-*")) if os.path.isdir(d))
    scratch = os.path.join(os.path.expanduser("~"), ".cache", "verif-scratch")
    wt = os.path.join(scratch, "wt-reeval-%d" % os.getpid())
    out = os.path.join(scratch, "reeval-out-%d" % os.getpid())
    rc, o = sh(f"git -C /repo worktree add --detach {wt} HEAD -q")
    assert rc == 0, o
    res = {}
    try:
        for d in dirs:
            name = os.path.basename(d)
            if want and name not in want:
                continue
            prop = name.split("-")[0]
            rc, o = sh(f"git -C {wt} apply {d}/patch.diff")
            if rc != 0:
                print(name, "PATCH DOES NOT APPLY", o[-200:]); res[name] = {"error": "patch does not apply"}; continue
            env = dict(os.environ, VERIF_REPO=wt, VERIF_EVIDENCE_DIR=out + "/evidence", VERIF_REPLAYS_DIR=out + "/replays")
            p = subprocess.run([os.path.join(V, "check"), prop, "--tier", "quick"], env=env, capture_output=True, text=True)
            lines = (p.stdout + p.stderr).splitlines()
            vio = [l for l in lines if l.startswith("VIOLATION")]
            by = []
            for l in vio:
                m = re.search(r"replay=(\S+)", l)
                if m and os.path.exists(m.group(1)):
                    rep = json.load(open(m.group(1)))
                    by.append((rep.get("obligation") or ("bounded:" + str(rep.get("clause")))) + (" [no-failing-input-found]" if "no-failing-input-found" in l else ""))
            und = [l[:200] for l in lines if l.startswith("UNDECIDED")]
            # the bounded clauses that failed, from the evidence file written for this run
            bounded = []
            try:
                ev = json.load(open(os.path.join(out, "evidence", prop + ".json")))
                txt = json.dumps(ev)
                bounded = sorted(set(re.findall(r"bounded:([\w-]+)", txt)))
            except Exception:
                pass
            r = {"detected": p.returncode == 1 and bool(vio), "by": by, "undecided": und}
            res[name] = r
            ded = [b for b in by if not b.startswith("bounded:")]
            bnd = [b for b in by if b.startswith("bounded:")]
            print(name, "DET" if r["detected"] else "MISS", "deductive:", ded[:3], "bounded:", bnd[:3], und[:1]); sys.stdout.flush()
            mp = os.path.join(d, "meta.json")
            if os.path.exists(mp):
                meta = json.load(open(mp))
                meta["detected_now"] = r["detected"]
                meta["detected_by_now"] = by
                json.dump(meta, open(mp, "w"), indent=1)
            sh("git checkout -- . && git clean -fdq", cwd=wt)
    finally:
        sh(f"git -C /repo worktree remove --force {wt}")
        shutil.rmtree(wt, ignore_errors=True)
    prev = {}
    rp = os.path.join(V, "seeded", "reeval.json")
    if os.path.exists(rp):
        prev = json.load(open(rp))
    prev.update(res)
    json.dump(prev, open(rp, "w"), indent=1)
main()
