#!/usr/bin/env python3
"""Runs ./check <property> against a scratch worktree of /repo with one seeded patch applied (no confirmation of the demo;
see seedeval.py for that). usage: seedcheck.py <seed dir containing patch.diff> [property] [--tier quick|thorough]"""
import os, subprocess, sys, shutil
V = os.path.dirname(os.path.dirname(os.path.abspath(__file__)))
d = os.path.abspath(sys.argv[1])
rest = sys.argv[2:]
prop = rest[0] if rest and not rest[0].startswith("-") else os.path.basename(d).split("-")[0]
extra = [a for a in rest if a != prop]
wt = os.path.join(os.path.expanduser("~"), ".cache", "verif-scratch", "wt-sc-%d" % os.getpid())
subprocess.run(f"git -C /repo worktree add --detach {wt} HEAD -q", shell=True, check=True)
try:
    # the working tree's contracts (possibly uncommitted) are what is being tested
    subprocess.run(f"cd /repo && git diff HEAD | git -C {wt} apply --allow-empty 2>/dev/null", shell=True)
    subprocess.run(f"git -C {wt} apply {d}/patch.diff", shell=True, check=True)
    scratch = os.path.join(os.path.expanduser("~"), ".cache", "verif-scratch", "sc-out")
    env = dict(os.environ, VERIF_REPO=wt, VERIF_EVIDENCE_DIR=scratch + "/evidence", VERIF_REPLAYS_DIR=scratch + "/replays")
    p = subprocess.run([os.path.join(V, "check"), prop] + extra, env=env, capture_output=True, text=True)
    for l in (p.stdout + p.stderr).splitlines():
        if l.startswith(("VIOLATION", "UNDECIDED", "KNOWN", "engine")) or l.startswith(prop):
            print(l[:400])
    print("exit", p.returncode)
finally:
    subprocess.run(f"git -C /repo worktree remove --force {wt}", shell=True)
    shutil.rmtree(wt, ignore_errors=True)
