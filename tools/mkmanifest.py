#!/usr/bin/env python3
"""Regenerates /verif/MANIFEST.json from props.json (claimed checks) and properties.jsonl."""
import json, os, subprocess
V = os.path.dirname(os.path.dirname(os.path.abspath(__file__)))
props = json.load(open(os.path.join(V, "props.json")))
allp = [json.loads(l)["id"] for l in open(os.path.join(V, "properties.jsonl")) if l.strip()]
hooks = subprocess.run(["git", "-C", "/repo", "log", "--format=%H %s"], capture_output=True, text=True).stdout.splitlines()
hook_commits = [l.split()[0] for l in hooks if " verif hooks" in l]
NOTE = ("Trusted: the govc VC generator (AST to SMT translation), the SMT solvers (z3 4.8.12, z3 5.1.0, cvc5 1.0 raced), int as "
        "mathematical integer, float64 as real, value semantics of slices (no aliasing of spare capacity), and the assumed contracts "
        "of standard-library / third-party functions listed in the evidence file. Bounded stand-ins are labelled bounded and never counted as proved.")
checks = []
for pid in sorted(props):
    c = props[pid]
    checks.append({"property_id": pid, "quick_cmd": f"./check {pid} --tier quick", "thorough_cmd": f"./check {pid} --tier thorough",
                   "evidence_file": f"/verif/evidence/{pid}.json", "replay_cmd_template": "./check replay {path}", "engine": "govc",
                   "level_claimed": {"category": c["level"], "text": c.get("claim", c.get("explanation", "")), "design_ref": "DESIGN.md section 6, " + pid},
                   "level_note": NOTE + (" " + c["level_note"] if c.get("level_note") else ""),
                   "technique": c.get("technique", "contract-based deductive verification: VC generation over the typed Go AST from //@ contracts, SMT discharge (z3/cvc5); counterexamples replayed on the real code")})
na = json.load(open(os.path.join(V, "not_applicable.json"))) if os.path.exists(os.path.join(V, "not_applicable.json")) else {}
m = {"version": 1,
     "setup_cmd": "cd /verif/govc && GOFLAGS=-mod=mod GOPROXY=off GOSUMDB=off GOTOOLCHAIN=local go build -o ../bin/govc .",
     "hooks": {"guard": "verif",
               "enable": "go build -tags verif: the hooks are contract files (*_verif.go: //@ comments only) and theorem files (never-called client functions); govc loads /repo with -tags=verif. No existing code is instrumented.",
               "baseline_off_cmd": "cd /repo && GOFLAGS=-mod=readonly GOPROXY=off GOSUMDB=off go test -json -vet=off -count=1 -timeout 25m ./...",
               "source_commits": hook_commits, "add_only": True},
     "engines": [{"name": "govc", "path": "/verif/govc", "serves_properties": sorted(props),
                  "kind_free_text": "deductive verifier for a Go subset: contracts as //@ comments in guarded files, VC generation by symbolic execution over go/ast+go/types, SMT (z3 4.8/5.1, cvc5)"},
                 {"name": "replay", "path": "/verif/replay", "serves_properties": sorted(props),
                  "kind_free_text": "in-package harnesses injected with go test -overlay: replay of verifier counterexamples and bounded stand-ins on the real code"}],
     "checks": checks,
     "not_applicable": [{"property_id": p, "reason": na.get(p, "no check registered at this commit (machinery for this property not built yet)")} for p in allp if p not in props],
     "notes": "See DESIGN.md. ./check <id> [--tier quick|thorough] exits 0 (held) / 1 (VIOLATION lines) / 2 (engine error)."}
json.dump(m, open(os.path.join(V, "MANIFEST.json"), "w"), indent=1)
print("MANIFEST.json:", len(checks), "checks,", len(m["not_applicable"]), "not applicable")
