#!/bin/bash
# Runs every registered check (quick by default) and prints one line each.
cd "$(dirname "$0")/.."
tier="${1:-quick}"
fail=0
for p in $(python3 -c "import json;print(' '.join(sorted(json.load(open('props.json')))))"); do
  out=$(./check "$p" --tier "$tier" 2>&1); rc=$?
  echo "$out" | grep -E "^(VIOLATION|KNOWN-FINDING|UNDECIDED|engine error)" | cut -c1-200
  echo "$out" | tail -1
  [ $rc -ne 0 ] && fail=1 && echo "   ^^^ exit $rc"
done
exit $fail
