#!/usr/bin/env python3
"""Semantics litmus for the verifier: selftest/litmus is a small Go package of function pairs okX / badX with one contract
each. The contract of badX is false for the Go semantics (it must NOT be proved: some obligation of badX fails, or the
function is outside the subset); the contract of okX is true (it should be proved; an unproved okX is reported as
INCOMPLETE, which is a limitation, not an unsoundness). Exit 1 if any badX is proved.
usage: litmus.py [govc binary]"""
import json, os, subprocess, sys
V = os.path.dirname(os.path.dirname(os.path.abspath(__file__)))
# okX functions the value model cannot prove (a write through one of two names of the same storage makes the other arbitrary)
EXPECTED_INCOMPLETE = {"okAlias", "okPtrAlias", "okMap", "okConv", "okAnd", "okOr", "okGlobal", "okBigShift"}
def main():
    govc = sys.argv[1] if len(sys.argv) > 1 else os.path.join(V, "bin", "govc")
    out = os.path.join(os.path.expanduser("~"), ".cache", "verif-scratch", "litmus.json")
    os.makedirs(os.path.dirname(out), exist_ok=True)
    p = subprocess.run([govc, "-repo", os.path.join(V, "selftest", "litmus"), "-specs", os.path.join(V, "specs"), "-func", "litmus.", "-out", out],
                       capture_output=True, text=True)
    r = json.load(open(out))
    funcs = {}
    for f in r["functions"]:
        nm = f["name"].split(".")[-1]
        funcs.setdefault(nm, {"status": f["status"], "fails": []})
    for o in r["obligations"]:
        nm = o["func"].split(".")[-1]
        if o["result"]["status"] not in ("proved", "ok", "unreachable"):
            funcs.setdefault(nm, {"status": "?", "fails": []})["fails"].append(o["name"].split("/")[-1] + ":" + o["result"]["status"])
    bad = 0
    for nm in sorted(funcs):
        f = funcs[nm]
        decided_ok = f["status"] in ("generated",) and not f["fails"]
        if nm.startswith("bad"):
            if decided_ok:
                print(f"{nm:22s} PROVED (!) - the engine accepts a false contract"); bad += 1
            else:
                print(f"{nm:22s} rejected  {(f['fails'] or [f['status']])[:2]}")
        elif nm.startswith("ok"):
            if decided_ok:
                print(f"{nm:22s} proved")
            elif nm in EXPECTED_INCOMPLETE:
                print(f"{nm:22s} incomplete (expected) {(f['fails'] or [f['status']])[:2]}")
            else:
                print(f"{nm:22s} INCOMPLETE {(f['fails'] or [f['status']])[:2]}")
    print(f"litmus: {sum(1 for n in funcs if n.startswith('bad'))} false contracts, {bad} accepted")
    sys.exit(1 if bad else 0)
main()
