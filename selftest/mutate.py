#!/usr/bin/env python3
"""Engine self-test: apply each tests-blind mutant to a scratch copy of /repo and
check that govc (obligations only, no bounded stand-in) refutes / fails to prove
at least one obligation of the expected property.  usage: mutate.py [ids...]"""
import json, os, shutil, subprocess, sys, tempfile
HERE = os.path.dirname(os.path.abspath(__file__))
VERIF = os.path.dirname(HERE)
REPO = os.environ.get("VERIF_REPO", "/repo")
def main():
    muts = json.load(open(os.path.join(HERE, "mutants.json")))
    want = set(sys.argv[1:])
    base = os.path.join(os.path.expanduser("~"), ".cache", "verif-scratch")
    os.makedirs(base, exist_ok=True)
    scratch = tempfile.mkdtemp(prefix="mut", dir=base)
    try:
        dst = os.path.join(scratch, "repo")
        shutil.copytree(REPO, dst, ignore=shutil.ignore_patterns(".git"))
        res = {}
        for m in muts:
            if want and m["id"] not in want:
                continue
            path = os.path.join(dst, m["file"])
            orig = open(path).read()
            if m["old"] not in orig:
                print(f"{m['id']}: STALE mutant (pattern not found)"); res[m["id"]] = "stale"; continue
            open(path, "w").write(orig.replace(m["old"], m["new"], 1))
            try:
                out = os.path.join(scratch, "out.json")
                cmd = [os.path.join(VERIF, "bin", "govc"), "-repo", dst, "-specs", os.path.join(VERIF, "specs"),
                       "-props", ",".join(m["props"]), "-out", out]
                # a change in one package can only invalidate obligations of that package's functions and theorems (callers in
                # other packages use the contracts, not the bodies): restrict the run to them
                pkg = os.path.basename(os.path.dirname(m["file"]))
                cmd += ["-func", pkg + "."]
                p = subprocess.run(cmd, capture_output=True, text=True)
                if p.returncode != 0:
                    print(f"{m['id']}: ENGINE ERROR {p.stderr[-300:]}"); res[m["id"]] = "error"; continue
                r = json.load(open(out))
                bad = [o["name"] + ":" + o["result"]["status"] for o in r["obligations"]
                       if o["result"]["status"] not in ("proved", "ok", "unreachable")]
                badf = [f["name"] + ":" + f["status"] for f in r["functions"] if f["status"] not in ("generated", "trusted")]
                kind = "KILLED" if bad else ("UNDECIDED" if badf else "SURVIVED")
                res[m["id"]] = kind
                print(f"{m['id']:6s} {kind:9s} {m['desc'][:60]:60s} {(bad+badf)[:3]}")
            finally:
                open(path, "w").write(orig)
        json.dump(res, open(os.path.join(HERE, "last_result.json"), "w"), indent=1)
    finally:
        shutil.rmtree(scratch, ignore_errors=True)
main()
