#!/usr/bin/env python3
"""Must-pass corpus: edits under which every property still holds. Applies each to a scratch copy of /repo and runs the
full ./check (deductive + bounded) for the listed properties: every run must exit 0 (no VIOLATION)."""
import json, os, shutil, subprocess, sys, tempfile
HERE = os.path.dirname(os.path.abspath(__file__)); V = os.path.dirname(HERE)
def main():
    muts = json.load(open(os.path.join(HERE, "harmless.json")))
    want = set(sys.argv[1:])
    base = os.path.join(os.path.expanduser("~"), ".cache", "verif-scratch"); os.makedirs(base, exist_ok=True)
    scratch = tempfile.mkdtemp(prefix="harm", dir=base)
    bad = 0
    try:
        dst = os.path.join(scratch, "repo")
        shutil.copytree("/repo", dst, ignore=shutil.ignore_patterns(".git"))
        for m in muts:
            if want and m["id"] not in want: continue
            path = os.path.join(dst, m["file"]); orig = open(path).read()
            if m["old"] not in orig:
                print(m["id"], "STALE pattern"); bad += 1; continue
            open(path, "w").write(orig.replace(m["old"], m["new"], 1))
            try:
                p = subprocess.run("go build ./... && go test -vet=off -count=1 ./... >/dev/null", shell=True, cwd=dst, capture_output=True, text=True,
                                   env=dict(os.environ, GOFLAGS="-mod=mod", GOPROXY="off", GOSUMDB="off"))
                if p.returncode != 0:
                    print(m["id"], "edit does not build / pass the suite:", p.stderr[-200:]); bad += 1; continue
                for prop in m["props"]:
                    r = subprocess.run(["./check", prop], cwd=V, capture_output=True, text=True, env=dict(os.environ, VERIF_REPO=dst, VERIF_EVIDENCE_DIR=os.path.join(scratch, "evidence"), VERIF_REPLAYS_DIR=os.path.join(scratch, "replays")))
                    lines = [l[:160] for l in r.stdout.splitlines() if l.startswith(("VIOLATION", "UNDECIDED", "engine"))]
                    ok = r.returncode == 0
                    if not ok: bad += 1
                    print(f"{m['id']:4s} {prop} {'PASS' if ok else 'ALARM exit='+str(r.returncode)}  {m['desc'][:70]}  {lines[:2]}")
            finally:
                open(path, "w").write(orig)
    finally:
        shutil.rmtree(scratch, ignore_errors=True)
    sys.exit(1 if bad else 0)
main()
