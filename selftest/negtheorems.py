#!/usr/bin/env python3
"""Vacuity / over-strong-assumption test for the theorems: drop one hypothesis that the argument on paper needs and check
that the theorem no longer goes through (some obligation fails or the function becomes undecided). A theorem that still
discharges without the hypothesis would mean that the engine or a callee contract assumes too much.
usage: negtheorems.py [ids...]"""
import json, os, re, subprocess, sys, shutil
V = os.path.dirname(os.path.dirname(os.path.abspath(__file__)))
CASES = [
 ("n01", "regions/theorems_verif.go", "C16.index", "//@   requires gN() == len(starts) && gStarts() == arr(starts) && gEnds() == arr(ends)\n", "", "ghost lists not bound to the arguments"),
 ("n02", "formats/sam/theorems_verif.go", "C03.readerRoundtrip", "//@   requires len(s.Qname) > 0 ==> s.Qname[0] != '@'\n", "", "record name may start with '@' (would be read as a header)"),
 ("n03", "formats/fastq/theorems_verif.go", "C02.readerRoundtrip2", "//@   requires forall j int :: 0 <= j && j < len(f1.Sequence) ==> f1.Sequence[j] != 10 && f1.Sequence[j] != 13\n", "", "sequence of the first record may contain line breaks"),
 ("n04", "formats/fasta/theorems_verif.go", "C01.readerRoundtrip", " && f.Sequence[j] != '>'", "", "sequence may contain '>'"),
 ("n05", "formats/bed/theorems_verif.go", "C04.readerIsRead", "//@   requires bedOK(x, 0)\n", "", "line need not be acceptable"),
 ("n06", "formats/sam/theorems_verif.go", "C11.acceptedInDomain", "//@   requires len(x) > 0 && x[0] != '@'\n", "//@   requires len(x) > 0\n", "line may be a header"),
 ("n07", "trie/theorems_verif.go", "C15.deleteKeepsDiverging", " && tree(heaphas(t.m), heapval(t.m), alloc, t)\n", "\n", "heap need not be tree shaped"),
 ("n08", "trie/theorems_verif.go", "C15.addAddsOnlyPrefixes", " && tree(heaphas(t.m), heapval(t.m), alloc, t)\n", "\n", "heap need not be tree shaped"),
 ("n09", "trie/theorems_verif.go", "C15.addThenHas", "//@   requires closed(heaphas(t.m), heapval(t.m), alloc)\n", "", "children of live nodes need not be live"),
 ("n10", "formats/fastq/theorems_verif.go", "C06.crlf", "//@   requires f != nil && len(f.Sequence) == len(f.Quals)\n", "//@   requires f != nil\n", "sequence and qualities of different lengths"),
 ("n11", "formats/newick/theorems_verif.go", "C06.tokenCRLF", " && !nwSep(x[k])", "", "token may contain separators"),
 ("n13", "trie/theorems_verif.go", "C15.deletePrunesPrefixes", " && tree(heaphas(t.m), heapval(t.m), alloc, t)\n", "\n", "heap need not be tree shaped"),
 ("n12", "formats/sam/theorems_verif.go", "C03.recordRoundtrip", "//@   requires forall k string :: has(s.Tags, k) ==> tagDomain(k, s.Tags[k])\n", "", "optional fields outside the domain"),
]
def main():
    want = set(sys.argv[1:])
    base = os.path.join(os.path.expanduser("~"), ".cache", "verif-scratch")
    wt = os.path.join(base, "wt-negthm-%d" % os.getpid())
    subprocess.run(f"git -C /repo worktree add --detach {wt} HEAD -q", shell=True, check=True)
    bad = 0
    try:
        subprocess.run(f"cd /repo && git diff HEAD | git -C {wt} apply --allow-empty 2>/dev/null", shell=True)
        for cid, rel, thm, old, new, desc in CASES:
            if want and cid not in want: continue
            path = os.path.join(wt, rel); src = open(path).read()
            i = src.find("//@ theorem " + thm + "\n")
            if i < 0 or old not in src[i:]:
                print(cid, "STALE (pattern not found)", thm); bad += 1; continue
            mod = src[:i] + src[i:].replace(old, new, 1)
            open(path, "w").write(mod)
            try:
                out = os.path.join(base, "negthm.json")
                p = subprocess.run([os.path.join(V, "bin", "govc"), "-repo", wt, "-specs", os.path.join(V, "specs"), "-func", thm, "-out", out], capture_output=True, text=True)
                r = json.load(open(out))
                fails = [o["name"].split("/")[-1] + ":" + o["result"]["status"] for o in r["obligations"] if o["func"].endswith(thm) and o["result"]["status"] not in ("proved", "ok", "unreachable")]
                und = [f["status"] for f in r["functions"] if f["name"].endswith(thm) and f["status"] not in ("generated", "trusted")]
                ok = bool(fails or und)
                if not ok: bad += 1
                print(f"{cid} {'FAILS-AS-IT-SHOULD' if ok else 'STILL PROVED (!)'} {thm}: {desc} {(fails + und)[:3]}")
            finally:
                open(path, "w").write(src)
    finally:
        subprocess.run(f"git -C /repo worktree remove --force {wt}", shell=True)
        shutil.rmtree(wt, ignore_errors=True)
    sys.exit(1 if bad else 0)
main()
