//go:build verif

package litmus

//@ func bump
//@   modifies g
//@   ensures g == old(g) + 1 && result

//@ func okAnd
//@   modifies g
//@   ensures result == (a ? 1 : 0)
//@ func badAnd
//@   modifies g
//@   ensures result == 0
//@ func okOr
//@   modifies g
//@   ensures result == (a ? 0 : 1)
//@ func badOr
//@   modifies g
//@   ensures result == 0

//@ func okSwap
//@   ensures result.0 == b && result.1 == a
//@ func badSwap
//@   ensures result.0 == b && result.1 == b

//@ func okOpAssign
//@   requires 0 <= a && a < 1000
//@   ensures result == (a + 2) * 3
//@ func badOpAssign
//@   requires 0 <= a && a < 1000
//@   ensures result == (a + 2) * 3 - 1

//@ func okDiv
//@   ensures result.0 == 0 - 3 && result.1 == 0 - 1
//@ func badDiv
//@   ensures result.0 == 0 - 4 && result.1 == 1

//@ func okShift
//@   ensures result == x % 128
//@ func badShift
//@   ensures result == x

//@ func okWrap
//@   ensures result == (x + 200) % 256
//@ func badWrap
//@   ensures result == x + 200

//@ func okConv
//@   requires x == 200
//@   ensures result == 0 - 56
//@ func badConv
//@   requires x == 200
//@   ensures result == 200

//@ func okAlias
//@   requires len(s) >= 2
//@   modifies s
//@   ensures result == 7
//@ func badAlias
//@   requires len(s) >= 2
//@   modifies s
//@   ensures result == old(s[1])

//@ func badAppendNoAlias
//@   requires len(s) >= 2
//@   modifies s
//@   ensures result == old(s[1])
//@ func badAppendAlias
//@   requires len(s) >= 2
//@   modifies s
//@   ensures result == 9

//@ func okStructCopy
//@   ensures result == p.a
//@ func badStructCopy
//@   ensures result == 5
//@ func okPtrAlias
//@   requires p != nil
//@   modifies p
//@   ensures result == 5
//@ func badPtrAlias
//@   requires p != nil
//@   modifies p
//@   ensures result == old(p.a)
//@ func okArrayCopy
//@   ensures result == 1
//@ func badArrayCopy
//@   ensures result == 9
//@ func okValueRecv
//@   ensures result == p.a
//@ func badValueRecv
//@   ensures result == 9

//@ func okMap
//@   ensures result == 12
//@ func badMap
//@   ensures result == 22

//@ func okSwitch
//@   ensures result == (x > 10 ? 1 : (x > 5 ? 2 : 3))
//@ func badSwitch
//@   ensures x > 10 ==> result == 2
//@ func okSwitchTag
//@   ensures result == (x == 1 || x == 2 ? 10 : (x == 3 ? 20 : 30))
//@ func badSwitchTag
//@   ensures x == 2 ==> result == 30

//@ func okLoop
//@   requires n >= 0
//@   ensures result == (n < 3 ? n : 3)
//@   loop 1
//@     invariant 0 <= i && i <= n && i <= 3 && c == i
//@ func badLoop
//@   requires n >= 0
//@   ensures result == n
//@   loop 1
//@     invariant 0 <= i && i <= n && c == i

//@ func okRangeCopy
//@   ensures len(s) > 0 ==> result == s[0]
//@ func badRangeCopy
//@   ensures len(s) > 0 ==> result == 0

//@ func okNamed
//@   requires x < 1000
//@   ensures result == (x > 0 ? x + 1 : 7)
//@ func badNamed
//@   requires x < 1000
//@   ensures result == (x > 0 ? x : 7)

//@ func okStr
//@   ensures result
//@ func badStr
//@   ensures !result

//@ func inc
//@   requires x < 1000
//@   ensures result > x
//@ func okCall
//@   requires x < 1000
//@   ensures result > x
//@ func badCall
//@   requires x < 1000
//@   ensures result == x + 1

//@ func setG
//@   modifies g
//@   ensures g == 5
//@ func okGlobal
//@   modifies g
//@   ensures result == 5
//@ func badGlobal
//@   modifies g
//@   ensures result == 1

//@ func okCopy
//@   modifies d
//@   ensures result == (len(d) < len(s) ? len(d) : len(s))
//@ func badCopy
//@   modifies d
//@   ensures result == len(s)

//@ func cnt.bump
//@   requires c != nil && c.n < 1000
//@   modifies c
//@   ensures c.n == old(c.n) + 1 && result
//@ func okAndP
//@   requires c != nil
//@   modifies c
//@   ensures result == (a ? 1 : 0)
//@ func badAndP
//@   requires c != nil
//@   modifies c
//@   ensures result == 0
//@ func badOrP
//@   requires c != nil
//@   modifies c
//@   ensures result == 0

//@ func badInlineWrite
//@   requires len(s) > 0
//@   modifies s
//@   ensures result == old(s[0])

//@ func badArraySlice
//@   ensures result == 0

//@ func badMergeAlias
//@   requires len(s) >= 3
//@   modifies s
//@   ensures result == old(s[2])
//@ func badLoopAlias
//@   modifies s
//@   ensures len(s) > 0 ==> result == old(s[0])
//@   loop 1
//@     invariant 0 <= i && i <= len(t)

//@ func zero
//@   modifies p
//@   ensures forall j int :: 0 <= j && j < len(p) ==> p[j] == 0
//@   loop 1
//@     invariant 0 <= i && i <= len(p) && forall j int :: 0 <= j && j < i ==> p[j] == 0
//@ func okCallModifies
//@   modifies s
//@   ensures len(s) > 0 ==> result == 0
//@ func badCallModifies
//@   modifies s
//@   ensures len(s) > 0 ==> result == old(s[0])
//@ func badCallModifiesAlias
//@   modifies s
//@   ensures len(s) > 0 ==> result == old(s[0])

//@ func okShadow
//@   ensures result == 1
//@ func badShadow
//@   ensures c ==> result == 2
//@ func badRangeString
//@   ensures result == 2
//@ func badDefer
//@   ensures result == 1
//@ func badClosure
//@   ensures result == 1
//@ func okLabeled
//@   ensures result == 3
//@   loop 1
//@     invariant 0 <= i && i <= 3 && c == i
//@   loop 2
//@     invariant 0 <= j && j <= 1 && c == i + j
//@ func badLabeled
//@   ensures result == 6
//@   loop 1
//@     invariant 0 <= i && i <= 3
//@   loop 2
//@     invariant 0 <= j && j <= 3
//@ func okStructEq
//@   ensures result <==> (p.a == q.a && p.b == q.b)
//@ func badStructEq
//@   ensures result <==> p.a == q.a
//@ func okConvU
//@   requires x == 300
//@   ensures result == 44
//@ func badConvU
//@   requires x == 300
//@   ensures result == 300
//@ func okBits
//@   requires x == 165
//@   ensures result == 170
//@ func badBits
//@   requires x == 165
//@   ensures result == 165
//@ func okNil
//@   ensures result == 1
//@ func badNil
//@   ensures result == 0
//@ func badDivZero
//@   ensures true
//@ func badIndex
//@   ensures true
//@ func okLoopVar
//@   ensures result == 6
//@   loop 1
//@     invariant 0 <= i && i <= 3 && s == i * (i + 1) / 2
//@ func badLoopVar
//@   ensures result == 3
//@   loop 1
//@     invariant 0 <= i && i <= 3
//@ func badCopyOverlap
//@   requires len(s) >= 3
//@   modifies s
//@   ensures result == old(s[2])

//@ func badRangeOnce
//@   requires len(s) == 3
//@   ensures result == 1
//@ func badRangeArrayCopy
//@   ensures result == 13
//@ func badRangeSliceLive
//@   ensures result == 6
//@ func badFallthrough
//@   ensures x == 1 ==> result == 1
//@ func okSwapElems
//@   requires len(s) >= 2
//@   modifies s
//@   ensures result == old(s[1])
//@ func badSwapElems
//@   requires len(s) >= 2
//@   modifies s
//@   ensures result == old(s[1])
//@ func badIndexOrder
//@   requires len(s) >= 2
//@   modifies s
//@   ensures result == 5
//@ func badAddrLocal
//@   ensures result == 1
//@ func badAddrField
//@   ensures result == 0
//@ func okAddrRecv
//@   ensures result == 4
//@ func badAddrRecv
//@   ensures result == 0
//@ func badStrLen
//@   ensures result == 1
//@ func okStrLess
//@   ensures result
//@ func badStrLess
//@   ensures !result
//@ func okTyped
//@   ensures result == 44
//@ func badTyped
//@   ensures result == 300
//@ func okShr
//@   requires x == 0 - 8
//@   ensures result == 0 - 4
//@ func badShr
//@   requires x == 0 - 7
//@   ensures result == 0 - 3
//@ func okBigShift
//@   requires n >= 64
//@   ensures result == 0
//@ func badBigShift
//@   requires n == 64
//@   ensures result == x
//@ func badMapAppend
//@   ensures result == 1

//@ func okElemField
//@   requires len(s) > 0
//@   modifies s
//@   ensures result == 5
//@ func badElemField
//@   requires len(s) > 0
//@   modifies s
//@   ensures result == 6
//@ func okBreakOuter
//@   ensures result == 3
//@   loop 1
//@     invariant 0 <= i && i <= 1 && c == 3 * i
//@   loop 2
//@     invariant 0 <= j && j <= 3 && i <= 1 && (i == 0 ==> c == j) && (i == 1 ==> c == 3 && j == 0)
//@ func badBreakOuter
//@   ensures result == 6
//@   loop 1
//@     invariant 0 <= i && i <= 3
//@   loop 2
//@     invariant 0 <= j && j <= 3
//@ func okBytesOfString
//@   requires len(s) > 0
//@   ensures result == s[0]
//@ func badBytesOfString
//@   requires len(s) > 0
//@   ensures result == 'x'
//@ func badStringOfBytes
//@   requires len(b) > 0
//@   modifies b
//@   ensures result == 'x'
//@ func okCommaOk
//@   ensures result == (has(m, "a") ? m["a"] : 0 - 1)
//@ func badCommaOk
//@   ensures result == m["a"]
//@ func setPairA
//@   ensures result.a == 9 && result.b == p.b
//@ func okByValue
//@   requires 0 <= p.a && p.a < 100
//@   ensures result == p.a + 9
//@ func badByValue
//@   requires 0 <= p.a && p.a < 100
//@   ensures result == 18
//@ func okRangeWrite
//@   requires forall j int :: 0 <= j && j < len(s) ==> 0 <= s[j] && s[j] < 100
//@   modifies s
//@   ensures len(s) > 0 ==> result == old(s[0]) + 1
//@   loop 1
//@     invariant forall j int :: 0 <= j && j < K ==> s[j] == old(s[j]) + 1
//@     invariant forall j int :: K <= j && j < len(s) ==> s[j] == old(s[j])
//@ func badRangeWrite
//@   requires forall j int :: 0 <= j && j < len(s) ==> 0 <= s[j] && s[j] < 100
//@   modifies s
//@   ensures len(s) > 0 ==> result == old(s[0])
//@   loop 1
//@     invariant true

//@ func same
//@   ensures len(result) == len(s) && forall j int :: 0 <= j && j < len(s) ==> result[j] == s[j]
//@ func badCallResultAlias
//@   requires len(s) > 0
//@   modifies s
//@   ensures result == old(s[0])
//@ func badShallowCopy
//@   requires len(p.buf) > 0
//@   modifies p
//@   ensures result == old(p.buf[0])
//@ func badSpread
//@   requires len(s) > 0
//@   modifies s
//@   ensures result == old(s[0])
