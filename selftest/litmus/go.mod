module github.com/fluhus/biostuff/litmus

go 1.23
