// Package litmus: small functions that pin down the Go semantics the verifier
// govc implements. For every okX there is a contract that is true (it should be
// proved) and for every badX one that is false (it must NOT be proved).
package litmus

var g int

func bump() bool { g++; return true }

// ---- short-circuit operands with effects
func okAnd(a bool) int {
	g = 0
	if a && bump() {
	}
	return g
}
func badAnd(a bool) int {
	g = 0
	if a && bump() {
	}
	return g
}
func okOr(a bool) int {
	g = 0
	if a || bump() {
	}
	return g
}
func badOr(a bool) int {
	g = 0
	if a || bump() {
	}
	return g
}

// ---- op-assign, inc/dec, evaluation order of multi-assign
func okSwap(a, b int) (int, int) {
	a, b = b, a
	return a, b
}
func badSwap(a, b int) (int, int) {
	a, b = b, a
	return a, b
}
func okOpAssign(a int) int {
	x := a
	x += 2
	x *= 3
	x -= 1
	x++
	return x
}
func badOpAssign(a int) int {
	x := a
	x += 2
	x *= 3
	x -= 1
	x++
	return x
}

// ---- integer division and remainder truncate toward zero
func okDiv() (int, int) {
	a, b := -7, 2
	return a / b, a % b
}
func badDiv() (int, int) {
	a, b := -7, 2
	return a / b, a % b
}

// ---- shifts and bit operations
func okShift(x uint8) uint8 { return x << 1 >> 1 }
func badShift(x uint8) uint8 { return x << 1 >> 1 }

// ---- unsigned wrap-around, signed conversion
func okWrap(x uint8) uint8 { return x + 200 }
func badWrap(x uint8) uint8 { return x + 200 }
func okConv(x int) int8  { return int8(x) }
func badConv(x int) int8 { return int8(x) }

// ---- slices share storage: a write through one is seen through the other
func okAlias(s []int) int {
	t := s[1:]
	t[0] = 7
	return s[1]
}
func badAlias(s []int) int {
	t := s[1:]
	t[0] = 7
	return s[1]
}

// ---- append within capacity writes into shared storage, beyond it may not: nothing may be assumed either way
func badAppendNoAlias(s []int) int {
	t := append(s[:1], 9)
	_ = t
	return s[1]
}
func badAppendAlias(s []int) int {
	t := append(s[:1], 9)
	_ = t
	return s[1]
}

// ---- arrays and structs are values, pointers alias
type pair struct{ a, b int }

func okStructCopy(p pair) int {
	q := p
	q.a = 5
	return p.a
}
func badStructCopy(p pair) int {
	q := p
	q.a = 5
	return p.a
}
func okPtrAlias(p *pair) int {
	q := p
	q.a = 5
	return p.a
}
func badPtrAlias(p *pair) int {
	q := p
	q.a = 5
	return p.a
}
func okArrayCopy() int {
	a := [3]int{1, 2, 3}
	b := a
	b[0] = 9
	return a[0]
}
func badArrayCopy() int {
	a := [3]int{1, 2, 3}
	b := a
	b[0] = 9
	return a[0]
}
func (p pair) setA(v int) { p.a = v }
func (p *pair) setAP(v int) { p.a = v }
func okValueRecv(p pair) int {
	p.setA(9)
	return p.a
}
func badValueRecv(p pair) int {
	p.setA(9)
	return p.a
}

// ---- maps: reference semantics, len, delete, missing key
func okMap() int {
	m := map[string]int{}
	n := m
	n["a"] = 1
	n["a"] = 2
	n["b"] = 3
	delete(n, "c")
	delete(n, "b")
	return len(m)*10 + m["a"] + m["zz"]
}
func badMap() int {
	m := map[string]int{}
	n := m
	n["a"] = 1
	n["a"] = 2
	n["b"] = 3
	delete(n, "c")
	delete(n, "b")
	return len(m)*10 + m["a"] + m["zz"]
}

// ---- switch: no fallthrough by default, default clause, first match wins
func okSwitch(x int) int {
	r := 0
	switch {
	case x > 10:
		r = 1
	case x > 5:
		r = 2
	default:
		r = 3
	}
	return r
}
func badSwitch(x int) int {
	r := 0
	switch {
	case x > 10:
		r = 1
	case x > 5:
		r = 2
	default:
		r = 3
	}
	return r
}
func okSwitchTag(x int) int {
	switch x {
	case 1, 2:
		return 10
	case 3:
		return 20
	}
	return 30
}
func badSwitchTag(x int) int {
	switch x {
	case 1, 2:
		return 10
	case 3:
		return 20
	}
	return 30
}

// ---- loops: break leaves only the innermost loop, continue skips the rest of the body
func okLoop(n int) int {
	c := 0
	for i := 0; i < n; i++ {
		if i == 3 {
			break
		}
		c++
	}
	return c
}
func badLoop(n int) int {
	c := 0
	for i := 0; i < n; i++ {
		if i == 3 {
			break
		}
		c++
	}
	return c
}
func okRangeCopy(s []int) int {
	for _, v := range s {
		v = 0
		_ = v
	}
	if len(s) > 0 {
		return s[0]
	}
	return 0
}
func badRangeCopy(s []int) int {
	for _, v := range s {
		v = 0
		_ = v
	}
	if len(s) > 0 {
		return s[0]
	}
	return 0
}

// ---- named results and bare return
func okNamed(x int) (r int) {
	r = x
	if x > 0 {
		r++
		return
	}
	return 7
}
func badNamed(x int) (r int) {
	r = x
	if x > 0 {
		r++
		return
	}
	return 7
}

// ---- strings: bytes, len, slicing, comparison
func okStr(s string) bool {
	t := s + "x"
	return t[len(t)-1] == 'x' && len(t) == len(s)+1
}
func badStr(s string) bool {
	t := s + "x"
	return t[len(t)-1] == 'x' && len(t) == len(s)+1
}

// ---- a call by contract: only the contract of the callee is known
func inc(x int) int { return x + 1 }
func okCall(x int) int  { return inc(x) }
func badCall(x int) int { return inc(x) }

// ---- global state across a call
func setG() { g = 5 }
func okGlobal() int {
	g = 1
	setG()
	return g
}
func badGlobal() int {
	g = 1
	setG()
	return g
}

// ---- copy: min of the lengths, overlapping storage
func okCopy(d, s []int) int {
	return copy(d, s)
}
func badCopy(d, s []int) int {
	return copy(d, s)
}

// ---- effects in short-circuit operands, through a pointer
type cnt struct{ n int }

func (c *cnt) bump() bool { c.n++; return true }
func okAndP(a bool, c *cnt) int {
	c.n = 0
	if a && c.bump() {
	}
	return c.n
}
func badAndP(a bool, c *cnt) int {
	c.n = 0
	if a && c.bump() {
	}
	return c.n
}
func badOrP(a bool, c *cnt) int {
	c.n = 0
	if a || c.bump() {
	}
	return c.n
}

// ---- a helper without contract (executed inline) writes into its operand
func fill(p []int) { p[0] = 1 }
func badInlineWrite(s []int) int {
	fill(s)
	return s[0]
}

// ---- a slice of an array variable shares the array
func badArraySlice() int {
	var buf [4]int
	s := buf[:]
	s[0] = 5
	return buf[0]
}

// ---- sharing survives a join of paths and a loop
func badMergeAlias(s []int, c bool) int {
	t := s[1:]
	if c {
		t[0] = 1
	}
	t[1] = 2
	return s[2]
}
func badLoopAlias(s []int) int {
	t := s
	for i := 0; i < len(t); i++ {
		t[i] = 0
	}
	if len(s) > 0 {
		return s[0]
	}
	return 0
}

// ---- a callee that declares `modifies` for a slice parameter
func zero(p []int) {
	for i := 0; i < len(p); i++ {
		p[i] = 0
	}
}
func okCallModifies(s []int) int {
	zero(s)
	if len(s) > 0 {
		return s[0]
	}
	return 0
}
func badCallModifies(s []int) int {
	zero(s)
	if len(s) > 0 {
		return s[0]
	}
	return 0
}
func badCallModifiesAlias(s []int) int {
	t := s
	zero(t)
	if len(s) > 0 {
		return s[0]
	}
	return 0
}

// ---- := in an inner scope declares a new variable
func okShadow(c bool) int {
	x := 1
	if c {
		x := 2
		_ = x
	}
	return x
}
func badShadow(c bool) int {
	x := 1
	if c {
		x := 2
		_ = x
	}
	return x
}

// ---- range over a string yields runes, not bytes
func badRangeString() int {
	n := 0
	for range "é" {
		n++
	}
	return n
}

// ---- deferred calls run at return, after the result is set
func badDefer() (r int) {
	defer func() { r = 2 }()
	return 1
}

// ---- closures capture variables by reference
func badClosure() int {
	x := 1
	f := func() { x = 2 }
	f()
	return x
}

// ---- labeled continue
func okLabeled() int {
	c := 0
outer:
	for i := 0; i < 3; i++ {
		for j := 0; j < 3; j++ {
			if j == 1 {
				continue outer
			}
			c++
		}
	}
	return c
}
func badLabeled() int {
	c := 0
outer:
	for i := 0; i < 3; i++ {
		for j := 0; j < 3; j++ {
			if j == 1 {
				continue outer
			}
			c++
		}
	}
	return c
}

// ---- struct equality is fieldwise
func okStructEq(p, q pair) bool  { return p == q }
func badStructEq(p, q pair) bool { return p == q }

// ---- conversions between integer types
func okConvU(x int) uint8  { return uint8(x) }
func badConvU(x int) uint8 { return uint8(x) }

// ---- bit clear and complement
func okBits(x uint8) uint8  { return x&^0x0f | ^x&0x0f }
func badBits(x uint8) uint8 { return x&^0x0f | ^x&0x0f }

// ---- nil slices and maps
func okNil() int {
	var s []int
	var m map[string]int
	s = append(s, 1)
	return len(s) + len(m) + m["a"]
}
func badNil() int {
	var s []int
	var m map[string]int
	s = append(s, 1)
	return len(s) + len(m) + m["a"]
}

// ---- division by zero and index out of range panic
func badDivZero(a, b int) int { return a / b }
func badIndex(s []int, i int) int { return s[i] }

// ---- a variable declared in the loop body is new in every iteration; the loop variable of a 3-clause loop is per iteration
func okLoopVar() int {
	s := 0
	for i := 0; i < 3; i++ {
		x := i
		x++
		s += x
	}
	return s
}
func badLoopVar() int {
	s := 0
	for i := 0; i < 3; i++ {
		x := i
		x++
		s += x
	}
	return s
}

// ---- copy with overlapping operands behaves like memmove
func badCopyOverlap(s []int) int {
	copy(s[1:], s)
	return s[2]
}

// ---- range evaluates its operand once; over an array it ranges over a copy
func badRangeOnce(s []int) int {
	n := 0
	for range s {
		s = s[:0]
		n++
	}
	return n
}
func badRangeArrayCopy() int {
	a := [3]int{1, 2, 3}
	sum := 0
	for _, v := range a {
		a[2] = 10
		sum += v
	}
	return sum
}
func badRangeSliceLive() int {
	a := []int{1, 2, 3}
	sum := 0
	for _, v := range a {
		a[2] = 10
		sum += v
	}
	return sum
}

// ---- fallthrough
func badFallthrough(x int) int {
	r := 0
	switch x {
	case 1:
		r += 1
		fallthrough
	case 2:
		r += 2
	}
	return r
}

// ---- operands of a tuple assignment are evaluated before any assignment
func okSwapElems(s []int) int {
	s[0], s[1] = s[1], s[0]
	return s[0]
}
func badSwapElems(s []int) int {
	s[0], s[1] = s[1], s[0]
	return s[1]
}
func badIndexOrder(s []int) int {
	i := 0
	i, s[i] = 1, 5
	return s[1]
}

// ---- a pointer to a local variable
func badAddrLocal() int {
	x := 1
	p := &x
	*p = 3
	return x
}
func badAddrField() int {
	var q pair
	p := &q.a
	*p = 3
	return q.a
}

// ---- a pointer-receiver method called on an addressable value changes it
func okAddrRecv() int {
	var q pair
	q.setAP(4)
	return q.a
}
func badAddrRecv() int {
	var q pair
	q.setAP(4)
	return q.a
}

// ---- strings
func badStrLen() int       { return len("é") }
func okStrLess() bool      { return "ab" < "b" }
func badStrLess() bool     { return "ab" < "b" }

// ---- typed arithmetic and shifts
func okTyped() uint8 {
	var a uint8 = 200
	return a + 100
}
func badTyped() uint8 {
	var a uint8 = 200
	return a + 100
}
func okShr(x int) int  { return x >> 1 }
func badShr(x int) int { return x >> 1 }
func okBigShift(x uint64, n uint) uint64  { return x << n }
func badBigShift(x uint64, n uint) uint64 { return x << n }

// ---- map of slices
func badMapAppend() int {
	m := map[string][]int{}
	m["a"] = append(m["a"], 1)
	m["a"] = append(m["a"], 2)
	return len(m["a"])
}

// ---- elements of a slice of structs
func okElemField(s []pair) int {
	s[0].a = 5
	t := s[0]
	t.a = 6
	return s[0].a
}
func badElemField(s []pair) int {
	s[0].a = 5
	t := s[0]
	t.a = 6
	return s[0].a
}

// ---- break out of an outer loop
func okBreakOuter() int {
	c := 0
outer:
	for i := 0; i < 3; i++ {
		for j := 0; j < 3; j++ {
			if i == 1 {
				break outer
			}
			c++
		}
	}
	return c
}
func badBreakOuter() int {
	c := 0
outer:
	for i := 0; i < 3; i++ {
		for j := 0; j < 3; j++ {
			if i == 1 {
				break outer
			}
			c++
		}
	}
	return c
}

// ---- []byte(s) copies, string(b) copies
func okBytesOfString(s string) byte {
	b := []byte(s)
	b[0] = 'x'
	return s[0]
}
func badBytesOfString(s string) byte {
	b := []byte(s)
	b[0] = 'x'
	return s[0]
}
func badStringOfBytes(b []byte) byte {
	s := string(b)
	b[0] = 'x'
	return s[0]
}

// ---- if with init and comma-ok
func okCommaOk(m map[string]int) int {
	if v, ok := m["a"]; ok {
		return v
	}
	return -1
}
func badCommaOk(m map[string]int) int {
	if v, ok := m["a"]; ok {
		return v
	}
	return -1
}

// ---- a struct passed by value to a callee under contract
func setPairA(p pair) pair { p.a = 9; return p }
func okByValue(p pair) int {
	q := setPairA(p)
	return p.a + q.a
}
func badByValue(p pair) int {
	q := setPairA(p)
	return p.a + q.a
}

// ---- writing the slice being ranged over: the value was read before the write
func okRangeWrite(s []int) int {
	for i, v := range s {
		s[i] = v + 1
	}
	if len(s) > 0 {
		return s[0]
	}
	return 0
}
func badRangeWrite(s []int) int {
	for i, v := range s {
		s[i] = v + 1
	}
	if len(s) > 0 {
		return s[0]
	}
	return 0
}

// ---- a callee that returns its operand: the result shares its storage
func same(s []int) []int { return s }
func badCallResultAlias(s []int) int {
	t := same(s)
	t[0] = 1
	return s[0]
}

// ---- a struct that holds a slice is copied shallowly
type holder struct{ buf []int }

func badShallowCopy(p holder) int {
	q := p
	q.buf[0] = 1
	return p.buf[0]
}

// ---- f(s...) passes the slice itself
func first1(v ...int) { v[0] = 1 }
func badSpread(s []int) int {
	first1(s...)
	return s[0]
}
