package sequtil

// Replay / bounded harness of package sequtil (see /verif/replay/README.md).
// Injected with `go test -overlay`; not part of the repository.
//
// Function -> clause map (input keys = Go parameter names):
//
//	func sequtil.ReverseComplement(dst, src)       -> clause C12/revcomp-spec      {dst, src}
//	func sequtil.ReverseComplementString(s)        -> clause C12/revcomp-spec      (s = string(src))
//	func sequtil.complementByte(b)                 -> clause C12/complement-bytes  {b}
//	func sequtil.CanonicalSubsequences(seq, k)     -> clause C12/canonical         {seq, k}
//	func sequtil.DNATo2Bit(dst, src)               -> clause C13/to2bit            {dst, src}
//	func sequtil.DNAFrom2Bit(dst, src)             -> clause C13/from2bit          {dst, src}
//	func sequtil.Ntoi(nuc)                         -> clause C13/ntoi-iton         {nuc}   ("b" accepted as an alias)
//	func sequtil.Iton(num)                         -> clause C13/ntoi-iton         {num}
//	func sequtil.Translate(dst, src)               -> clause C14/translate         {dst, src}
//	func sequtil.TranslateReadingFrames(seq)       -> clause C14/frames            {seq}
//	func sequtil.AminoName(aa)                     -> clause C14/aminoname         {aa}
//	func sequtil.CanonicalSubsequences(seq, k)     -> clause C18/canonical-stop    {seq, k, stop}
//	func sequtil.CanonicalSubsequences(seq, k) x 2 -> clause C12/canonical-interleaved {seq1, seq2, k}
//	                                                  (two iterators consumed interleaved / nested; the same Run is also registered as C18/canonical-interleaved)
//
// All oracles below are written from the property statements in
// /verif/properties.jsonl (complement switch, base-4 positional packing, NCBI
// table-1 string in TCAG order), not from the implementation.

import (
	"bytes"
	"fmt"
	"iter"
	"math/rand"
	"testing"
)

func TestVerif(t *testing.T) { vrMain(t, vzClauses()) }

// ---------------------------------------------------------------------------
// Oracles
// ---------------------------------------------------------------------------

const (
	vzAlpha10 = "aAcCgGtTnN"
	vzAlpha8  = "aAcCgGtT"
	// NCBI translation table 1, codons in TCAG order (TTT, TTC, TTA, TTG, TCT, ...).
	vzNCBI1 = "FFLLSSSSYY**CC*WLLLLPPPPHHQQRRRRIIIMTTTTNNKKSSRRVVVVAAAADDEEGGGG"
)

// vzComp is the base-wise, case-preserving complement of the statement of C12.
func vzComp(b byte) (byte, bool) {
	switch b {
	case 'a':
		return 't', true
	case 'A':
		return 'T', true
	case 'c':
		return 'g', true
	case 'C':
		return 'G', true
	case 'g':
		return 'c', true
	case 'G':
		return 'C', true
	case 't':
		return 'a', true
	case 'T':
		return 'A', true
	case 'n':
		return 'n', true
	case 'N':
		return 'N', true
	}
	return 0, false
}

// vzRevComp returns the reverse complement and the index of the first byte
// outside aAcCgGtTnN (-1 if none).
func vzRevComp(src []byte) ([]byte, int) {
	out := make([]byte, len(src))
	for i, b := range src {
		c, ok := vzComp(b)
		if !ok {
			return nil, i
		}
		out[len(src)-1-i] = c
	}
	return out, -1
}

// vzCanon lists the canonical k-mers of seq (k >= 1, seq over the 10 letters).
func vzCanon(seq []byte, k int) [][]byte {
	var out [][]byte
	for i := 0; i <= len(seq)-k; i++ {
		w := append([]byte(nil), seq[i:i+k]...)
		rc, _ := vzRevComp(w)
		if vzLess(rc, w) {
			w = rc
		}
		out = append(out, w)
	}
	return out
}

// vzLess: a lexicographically (bytewise) smaller than b.
func vzLess(a, b []byte) bool {
	for i := 0; i < len(a) && i < len(b); i++ {
		if a[i] != b[i] {
			return a[i] < b[i]
		}
	}
	return len(a) < len(b)
}

// vzBase4 is A=0 C=1 G=2 T=3 in either case, -1 otherwise.
func vzBase4(b byte) int {
	switch b {
	case 'a', 'A':
		return 0
	case 'c', 'C':
		return 1
	case 'g', 'G':
		return 2
	case 't', 'T':
		return 3
	}
	return -1
}

// vzTo2Bit packs four bases per byte, first base most significant, as a
// base-4 positional number; missing bases count as 0.
func vzTo2Bit(src []byte) ([]byte, int) {
	var out []byte
	for i := 0; i < len(src); i += 4 {
		v := 0
		for j := 0; j < 4; j++ {
			d := 0
			if i+j < len(src) {
				d = vzBase4(src[i+j])
				if d < 0 {
					return nil, i + j
				}
			}
			v = v*4 + d
		}
		out = append(out, byte(v))
	}
	return out, -1
}

func vzFrom2Bit(src []byte) []byte {
	const l = "ACGT"
	var out []byte
	for _, p := range src {
		v := int(p)
		out = append(out, l[v/64], l[(v/16)%4], l[(v/4)%4], l[v%4])
	}
	return out
}

// vzUpperDNA upper-cases a string over aAcCgGtT.
func vzUpperDNA(src []byte) []byte {
	out := make([]byte, len(src))
	for i, b := range src {
		out[i] = "ACGT"[vzBase4(b)]
	}
	return out
}

func vzTCAG(b byte) int {
	switch b {
	case 't', 'T':
		return 0
	case 'c', 'C':
		return 1
	case 'a', 'A':
		return 2
	case 'g', 'G':
		return 3
	}
	return -1
}

// vzTranslate returns the translation, or why == "" / a reason for the panic
// required by the statement of C14.
func vzTranslate(src []byte) (out []byte, why string) {
	if len(src)%3 != 0 {
		return nil, fmt.Sprintf("len(src)=%d not divisible by 3", len(src))
	}
	for i := 0; i < len(src); i += 3 {
		a, b, c := vzTCAG(src[i]), vzTCAG(src[i+1]), vzTCAG(src[i+2])
		if a < 0 || b < 0 || c < 0 {
			return nil, fmt.Sprintf("codon %q at %d has a byte outside aAcCgGtT", src[i:i+3], i)
		}
		out = append(out, vzNCBI1[16*a+4*b+c])
	}
	return out, ""
}

func vzOver(s []byte, alphabet string) bool {
	for _, b := range s {
		if bytes.IndexByte([]byte(alphabet), b) < 0 {
			return false
		}
	}
	return true
}

// ---------------------------------------------------------------------------
// Helpers
// ---------------------------------------------------------------------------

func vzFail(obs, exp string) vrResult {
	return vrResult{OK: false, Observed: obs, Expected: exp, Signature: "generic"}
}

func vzCat(a, b []byte) []byte {
	r := make([]byte, 0, len(a)+len(b))
	r = append(r, a...)
	return append(r, b...)
}

// vzAppendCall calls f(d, s) where d is a copy of dst whose backing array has
// `spare` extra bytes of garbage (0xFF) capacity and s is a copy of src.
// viol is non-empty if the first len(dst) bytes of the caller's d or any byte
// of s were modified (checked after a return and after a panic alike).
func vzAppendCall(f func(dst, src []byte) []byte, dst, src []byte, spare int) (got []byte, pan any, viol string) {
	var backing, d []byte
	if len(dst) > 0 || spare > 0 {
		backing = make([]byte, len(dst)+spare)
		copy(backing, dst)
		for i := len(dst); i < len(backing); i++ {
			backing[i] = 0xFF
		}
		d = backing[:len(dst):len(backing)]
	}
	s := append(make([]byte, 0, len(src)+2), src...)
	pan = vrCatch(func() { got = f(d, s) })
	if !bytes.Equal(backing[:len(dst)], dst) {
		viol = fmt.Sprintf("existing content of dst changed to %q (spare cap %d)", backing[:len(dst)], spare)
	} else if !bytes.Equal(s, src) {
		viol = fmt.Sprintf("src changed to %q (spare cap %d)", s, spare)
	}
	return
}

// vzSpares: capacities to try: none, one byte (forces a reallocation midway),
// and enough for the whole result (result aliases the caller's array).
func vzSpares(appendLen int) []int {
	return []int{0, 1, appendLen + 3}
}

func vzSkew(r *rand.Rand, max int) int {
	// mostly short, sometimes long
	switch r.Intn(4) {
	case 0:
		return r.Intn(max + 1)
	case 1:
		return r.Intn(max/4 + 1)
	default:
		return r.Intn(min(max, 12) + 1)
	}
}

func vzRandDst(r *rand.Rand) []byte {
	if r.Intn(2) == 0 {
		return nil
	}
	b := make([]byte, 1+r.Intn(6))
	for i := range b {
		switch r.Intn(3) {
		case 0:
			b[i] = byte(r.Intn(256))
		case 1:
			b[i] = "ACGTacgtNn*"[r.Intn(11)]
		default:
			b[i] = []byte{0, 0xFF, 0x80, 'x'}[r.Intn(4)]
		}
	}
	return b
}

// vzBadBytes are bytes that case-folding tricks (|0x20, &^0x20, -32, +32,
// &0x7F) could map onto nucleotide letters, plus neighbours of the letters.
func vzBadBytes(ok string) []byte {
	var out []byte
	seen := map[byte]bool{}
	add := func(v int) {
		b := byte(v)
		if bytes.IndexByte([]byte(ok), b) < 0 && !seen[b] {
			seen[b] = true
			out = append(out, b)
		}
	}
	for _, l := range []byte("ACGTNUacgtnu") {
		for _, d := range []int{0, 1, -1, 32, -32, 64, -64, 128, 128 + 32, 128 - 32} {
			add(int(l) + d)
		}
	}
	for _, v := range []int{0, 1, ' ', '@', '[', '`', '{', '*', '-', '\n', 0x7F, 0x80, 0x81, 0xFF, 'B', 'b', 'R', 'Y', 'X'} {
		add(v)
	}
	return out
}

// vzInject returns base with b inserted at / replacing position pos.
func vzReplace(base []byte, pos int, b byte) []byte {
	r := append([]byte(nil), base...)
	r[pos] = b
	return r
}

func vzDS(dst, src []byte) map[string]any {
	return map[string]any{"dst": vrB(dst), "src": vrB(src)}
}

// ---------------------------------------------------------------------------
// C12
// ---------------------------------------------------------------------------

func vzRunRevcomp(in map[string]any) vrResult {
	dst, src := vrBytes(in["dst"]), vrBytes(in["src"])
	want, bad := vzRevComp(src)
	triv := len(src) == 0
	expPanic := ""
	if bad >= 0 {
		expPanic = fmt.Sprintf("panic: src[%d]=%#x is outside aAcCgGtTnN", bad, src[bad])
	}
	for _, spare := range vzSpares(len(src)) {
		got, pan, viol := vzAppendCall(ReverseComplement, dst, src, spare)
		if viol != "" {
			return vzFail(viol, "src and the existing content of dst untouched")
		}
		if bad >= 0 {
			if pan == nil {
				return vzFail(fmt.Sprintf("ReverseComplement returned %q (spare cap %d)", got, spare), expPanic)
			}
			continue
		}
		exp := vzCat(dst, want)
		if pan != nil {
			return vzFail(fmt.Sprintf("ReverseComplement panic: %v (spare cap %d)", pan, spare), fmt.Sprintf("%q", exp))
		}
		if !bytes.Equal(got, exp) {
			return vzFail(fmt.Sprintf("ReverseComplement = %q (spare cap %d)", got, spare), fmt.Sprintf("%q", exp))
		}
		// involution
		var back []byte
		if p := vrCatch(func() { back = ReverseComplement(nil, got[len(dst):]) }); p != nil {
			return vzFail(fmt.Sprintf("second ReverseComplement panic: %v", p), fmt.Sprintf("%q", src))
		}
		if !bytes.Equal(back, src) {
			return vzFail(fmt.Sprintf("ReverseComplement applied twice = %q", back), fmt.Sprintf("%q", src))
		}
	}
	var gs string
	pan := vrCatch(func() { gs = ReverseComplementString(string(src)) })
	if bad >= 0 {
		if pan == nil {
			return vzFail(fmt.Sprintf("ReverseComplementString returned %q", gs), expPanic)
		}
	} else {
		if pan != nil {
			return vzFail(fmt.Sprintf("ReverseComplementString panic: %v", pan), fmt.Sprintf("%q", want))
		}
		if gs != string(want) {
			return vzFail(fmt.Sprintf("ReverseComplementString = %q", gs), fmt.Sprintf("%q", want))
		}
	}
	return vrResult{OK: true, Trivial: triv}
}

func vzGenRevcomp(g *vrGen) {
	alpha := []byte(vzAlpha10)
	L := 4
	if g.Thorough() {
		L = 5
	}
	complete := vrWords(alpha, L, func(w []byte) bool {
		if g.Expired() {
			return false
		}
		g.Case(vzDS(nil, w))
		return true
	})
	g.Exhaustive(complete)
	// dst prefixes
	for _, dst := range [][]byte{[]byte("x"), {0, 0xFF, 'A'}, []byte("ACGTNacgtn"), {0x80}} {
		vrWords(alpha, L-2, func(w []byte) bool {
			g.Case(vzDS(dst, w))
			return !g.Expired()
		})
	}
	// every byte value at every position of short contexts
	for _, ctx := range []string{"A", "ac", "NgT", "tTaAc"} {
		for pos := 0; pos < len(ctx); pos++ {
			for v := 0; v < 256; v++ {
				g.Case(vzDS(nil, vzReplace([]byte(ctx), pos, byte(v))))
			}
		}
	}
	maxLen := 60
	if g.Thorough() {
		maxLen = 400
	}
	bad := vzBadBytes(vzAlpha10)
	for !g.Expired() {
		src := vrRandWord(g.Rand, alpha, vzSkew(g.Rand, maxLen))
		if len(src) > 0 && g.Rand.Intn(4) == 0 {
			b := bad[g.Rand.Intn(len(bad))]
			if g.Rand.Intn(3) == 0 {
				b = byte(g.Rand.Intn(256))
			}
			src[g.Rand.Intn(len(src))] = b
		}
		g.Case(vzDS(vzRandDst(g.Rand), src))
	}
}

func vzRunComplementByte(in map[string]any) vrResult {
	v := vrInt(in["b"])
	if v < 0 || v > 255 {
		return vrResult{OK: true, Trivial: true, Observed: "b is not a byte value: outside the statement"}
	}
	b := byte(v)
	want, ok := vzComp(b)
	exp := fmt.Sprintf("panic: %#x is outside aAcCgGtTnN", b)
	if ok {
		exp = fmt.Sprintf("%q", []byte{want})
	}
	var got []byte
	pan := vrCatch(func() { got = ReverseComplement(nil, []byte{b}) })
	var gs string
	pans := vrCatch(func() { gs = ReverseComplementString(string([]byte{b})) })
	if ok {
		if pan != nil {
			return vzFail(fmt.Sprintf("ReverseComplement panic: %v", pan), exp)
		}
		if len(got) != 1 || got[0] != want {
			return vzFail(fmt.Sprintf("ReverseComplement = %q", got), exp)
		}
		if pans != nil {
			return vzFail(fmt.Sprintf("ReverseComplementString panic: %v", pans), exp)
		}
		if gs != string([]byte{want}) {
			return vzFail(fmt.Sprintf("ReverseComplementString = %q", gs), exp)
		}
	} else {
		if pan == nil {
			return vzFail(fmt.Sprintf("ReverseComplement = %q", got), exp)
		}
		if pans == nil {
			return vzFail(fmt.Sprintf("ReverseComplementString = %q", gs), exp)
		}
	}
	return vrResult{OK: true}
}

// vzCollect runs the iterator to the end (guarded) and copies the items.
func vzCollect(seq []byte, k int) (items [][]byte, pan any, runaway bool) {
	limit := len(seq) + 8
	pan = vrCatch(func() {
		for b := range CanonicalSubsequences(seq, k) {
			if len(items) >= limit {
				runaway = true
				break
			}
			items = append(items, append([]byte(nil), b...))
		}
	})
	return
}

func vzItems(items [][]byte) string {
	var sb bytes.Buffer
	fmt.Fprintf(&sb, "%d items [", len(items))
	for i, it := range items {
		if i > 0 {
			sb.WriteByte(' ')
		}
		if i >= 40 {
			sb.WriteString("...")
			break
		}
		fmt.Fprintf(&sb, "%q", it)
	}
	sb.WriteByte(']')
	return sb.String()
}

func vzSameItems(a, b [][]byte) bool {
	if len(a) != len(b) {
		return false
	}
	for i := range a {
		if !bytes.Equal(a[i], b[i]) {
			return false
		}
	}
	return true
}

func vzRunCanonical(in map[string]any) vrResult {
	seq, k := vrBytes(in["seq"]), vrInt(in["k"])
	if k < 1 {
		return vrResult{OK: true, Trivial: true, Observed: "k < 1: outside the statement"}
	}
	if !vzOver(seq, vzAlpha10) {
		return vrResult{OK: true, Trivial: true, Observed: "seq not over aAcCgGtTnN: outside the statement"}
	}
	want := vzCanon(seq, k)
	triv := len(want) == 0
	s := append([]byte(nil), seq...)
	got, pan, runaway := vzCollect(s, k)
	if pan != nil {
		return vzFail(fmt.Sprintf("panic: %v", pan), vzItems(want))
	}
	if runaway || !vzSameItems(got, want) {
		return vzFail(vzItems(got), vzItems(want))
	}
	if !bytes.Equal(s, seq) {
		return vzFail(fmt.Sprintf("seq changed to %q", s), "seq untouched")
	}
	// strand symmetry: items of the reverse complement are the same, reversed
	rc, _ := vzRevComp(seq)
	rev := make([][]byte, len(want))
	for i := range want {
		rev[len(want)-1-i] = want[i]
	}
	got2, pan, runaway := vzCollect(rc, k)
	if pan != nil {
		return vzFail(fmt.Sprintf("on the reverse complement %q: panic: %v", rc, pan), vzItems(rev))
	}
	if runaway || !vzSameItems(got2, rev) {
		return vzFail(fmt.Sprintf("on the reverse complement %q: %s", rc, vzItems(got2)), vzItems(rev))
	}
	return vrResult{OK: true, Trivial: triv}
}

func vzSK(seq []byte, k int) map[string]any {
	return map[string]any{"seq": vrB(seq), "k": k}
}

func vzGenCanonical(g *vrGen) {
	L10, L4 := 3, 6
	if g.Thorough() {
		L10, L4 = 4, 7
	}
	c1 := vrWords([]byte(vzAlpha10), L10, func(w []byte) bool {
		for k := 1; k <= len(w)+1; k++ {
			g.Case(vzSK(w, k))
		}
		return !g.Expired()
	})
	c2 := vrWords([]byte("ACGT"), L4, func(w []byte) bool {
		for k := 1; k <= len(w)+1; k++ {
			g.Case(vzSK(w, k))
		}
		return !g.Expired()
	})
	g.Exhaustive(c1 && c2)
	maxLen := 60
	if g.Thorough() {
		maxLen = 300
	}
	alphas := [][]byte{[]byte(vzAlpha10), []byte("ACGT"), []byte("acgtACGT"), []byte("AT"), []byte("ACGTN")}
	for !g.Expired() {
		seq := vrRandWord(g.Rand, alphas[g.Rand.Intn(len(alphas))], vzSkew(g.Rand, maxLen))
		if len(seq) > 3 && g.Rand.Intn(3) == 0 {
			// palindromic / self-overlapping content: append own reverse complement
			rc, _ := vzRevComp(seq)
			seq = append(seq, rc...)
		}
		var k int
		switch g.Rand.Intn(6) {
		case 0:
			k = len(seq) + g.Rand.Intn(3)
		case 1:
			k = 1 + g.Rand.Intn(len(seq)+1)
		case 2:
			k = len(seq) + 1 + g.Rand.Intn(1000)
		default:
			k = 1 + g.Rand.Intn(min(len(seq), 9)+1)
		}
		if k < 1 {
			k = 1
		}
		g.Case(vzSK(seq, k))
	}
}

// ---------------------------------------------------------------------------
// C13
// ---------------------------------------------------------------------------

func vzRunTo2Bit(in map[string]any) vrResult {
	dst, src := vrBytes(in["dst"]), vrBytes(in["src"])
	want, bad := vzTo2Bit(src)
	expPanic := ""
	if bad >= 0 {
		expPanic = fmt.Sprintf("panic: src[%d]=%#x is outside aAcCgGtT", bad, src[bad])
	}
	for _, spare := range vzSpares((len(src) + 3) / 4) {
		got, pan, viol := vzAppendCall(DNATo2Bit, dst, src, spare)
		if viol != "" {
			return vzFail(viol, "src and the existing content of dst untouched")
		}
		if bad >= 0 {
			if pan == nil {
				return vzFail(fmt.Sprintf("DNATo2Bit returned %v (spare cap %d)", got, spare), expPanic)
			}
			continue
		}
		exp := vzCat(dst, want)
		if pan != nil {
			return vzFail(fmt.Sprintf("DNATo2Bit panic: %v (spare cap %d)", pan, spare), fmt.Sprintf("%v", exp))
		}
		if !bytes.Equal(got, exp) {
			return vzFail(fmt.Sprintf("DNATo2Bit = %v (spare cap %d, garbage 0xFF in the spare capacity)", got, spare),
				fmt.Sprintf("%v (dst ++ %d packed bytes, first base most significant)", exp, len(want)))
		}
		// back to text: upper(src) + 'A' padding
		text := vzUpperDNA(src)
		for len(text)%4 != 0 {
			text = append(text, 'A')
		}
		var back []byte
		if p := vrCatch(func() { back = DNAFrom2Bit(nil, got[len(dst):]) }); p != nil {
			return vzFail(fmt.Sprintf("DNAFrom2Bit(DNATo2Bit(src)) panic: %v", p), fmt.Sprintf("%q", text))
		}
		if !bytes.Equal(back, text) {
			return vzFail(fmt.Sprintf("DNAFrom2Bit(DNATo2Bit(src)) = %q", back), fmt.Sprintf("%q", text))
		}
	}
	return vrResult{OK: true, Trivial: len(src) == 0}
}

func vzGenTo2Bit(g *vrGen) {
	alpha := []byte(vzAlpha8)
	L8, L4 := 4, 7
	if g.Thorough() {
		L8, L4 = 6, 9
	}
	c1 := vrWords(alpha, L8, func(w []byte) bool {
		g.Case(vzDS(nil, w))
		return !g.Expired()
	})
	c2 := vrWords([]byte("ACGT"), L4, func(w []byte) bool {
		if len(w) > L8 {
			g.Case(vzDS(nil, w))
		}
		return !g.Expired()
	})
	g.Exhaustive(c1 && c2)
	for _, dst := range [][]byte{{0}, {0xFF}, {0x1B, 0xE4, 0x55}, []byte("ACGT"), {1, 2, 3, 4, 5}} {
		vrWords(alpha, 3, func(w []byte) bool {
			g.Case(vzDS(dst, w))
			return !g.Expired()
		})
		vrWords([]byte("ACGT"), 5, func(w []byte) bool {
			if len(w) > 3 {
				g.Case(vzDS(dst, w))
			}
			return !g.Expired()
		})
	}
	for _, ctx := range []string{"A", "Tt", "gCa", "ACGT", "TTTTT", "acgtacgt", "CCCCCCCCC"} {
		for pos := 0; pos < len(ctx); pos++ {
			for v := 0; v < 256; v++ {
				g.Case(vzDS(nil, vzReplace([]byte(ctx), pos, byte(v))))
			}
		}
	}
	maxLen := 60
	if g.Thorough() {
		maxLen = 400
	}
	bad := vzBadBytes(vzAlpha8)
	for !g.Expired() {
		src := vrRandWord(g.Rand, alpha, vzSkew(g.Rand, maxLen))
		if len(src) > 0 && g.Rand.Intn(4) == 0 {
			b := bad[g.Rand.Intn(len(bad))]
			if g.Rand.Intn(3) == 0 {
				b = byte(g.Rand.Intn(256))
			}
			src[g.Rand.Intn(len(src))] = b
		}
		g.Case(vzDS(vzRandDst(g.Rand), src))
	}
}

func vzRunFrom2Bit(in map[string]any) vrResult {
	dst, src := vrBytes(in["dst"]), vrBytes(in["src"])
	want := vzFrom2Bit(src)
	exp := vzCat(dst, want)
	for _, spare := range vzSpares(4 * len(src)) {
		got, pan, viol := vzAppendCall(DNAFrom2Bit, dst, src, spare)
		if viol != "" {
			return vzFail(viol, "src and the existing content of dst untouched")
		}
		if pan != nil {
			return vzFail(fmt.Sprintf("DNAFrom2Bit panic: %v (spare cap %d)", pan, spare), fmt.Sprintf("%q", exp))
		}
		if !bytes.Equal(got, exp) {
			return vzFail(fmt.Sprintf("DNAFrom2Bit = %q (spare cap %d)", got, spare), fmt.Sprintf("%q", exp))
		}
	}
	// p -> text -> p
	var back []byte
	pan := vrCatch(func() { back = DNATo2Bit(nil, DNAFrom2Bit(nil, append([]byte(nil), src...))) })
	if pan != nil {
		return vzFail(fmt.Sprintf("DNATo2Bit(DNAFrom2Bit(p)) panic: %v", pan), fmt.Sprintf("%v", src))
	}
	if !bytes.Equal(back, src) {
		return vzFail(fmt.Sprintf("DNATo2Bit(DNAFrom2Bit(p)) = %v", back), fmt.Sprintf("%v", src))
	}
	return vrResult{OK: true, Trivial: len(src) == 0}
}

func vzGenFrom2Bit(g *vrGen) {
	g.Case(vzDS(nil, nil))
	for v := 0; v < 256; v++ {
		g.Case(vzDS(nil, []byte{byte(v)}))
	}
	complete := true
	for v := 0; v < 65536 && complete; v++ {
		g.Case(vzDS(nil, []byte{byte(v >> 8), byte(v)}))
		if v%256 == 255 && g.Expired() {
			complete = false
		}
	}
	g.Exhaustive(complete)
	for _, dst := range [][]byte{[]byte("x"), {0, 0xFF}, []byte("ACGTA")} {
		for v := 0; v < 256; v++ {
			g.Case(vzDS(dst, []byte{byte(v)}))
		}
	}
	maxLen := 30
	if g.Thorough() {
		maxLen = 150
	}
	for !g.Expired() {
		src := make([]byte, vzSkew(g.Rand, maxLen))
		g.Rand.Read(src)
		g.Case(vzDS(vzRandDst(g.Rand), src))
	}
}

func vzRunNtoiIton(in map[string]any) vrResult {
	_, hasNuc := in["nuc"]
	_, hasB := in["b"]
	_, hasNum := in["num"]
	if !hasNuc && !hasB && !hasNum {
		panic("harness: ntoi-iton needs key nuc (alias b) or num")
	}
	if hasNuc || hasB {
		v := vrInt(in["nuc"])
		if !hasNuc {
			v = vrInt(in["b"])
		}
		if v < 0 || v > 255 {
			return vrResult{OK: true, Trivial: true, Observed: "nuc is not a byte value: outside the statement"}
		}
		b := byte(v)
		want := vzBase4(b)
		var got int
		if p := vrCatch(func() { got = Ntoi(b) }); p != nil {
			return vzFail(fmt.Sprintf("Ntoi(%#x) panic: %v", b, p), fmt.Sprint(want))
		}
		if got != want {
			return vzFail(fmt.Sprintf("Ntoi(%#x) = %d", b, got), fmt.Sprint(want))
		}
		if want >= 0 {
			// inverse up to case: Iton(Ntoi(b)) is the upper-case letter
			up := "ACGT"[want]
			var back byte
			if p := vrCatch(func() { back = Iton(got) }); p != nil {
				return vzFail(fmt.Sprintf("Iton(Ntoi(%q)) panic: %v", b, p), fmt.Sprintf("%q", up))
			}
			if back != up {
				return vzFail(fmt.Sprintf("Iton(Ntoi(%q)) = %q", b, back), fmt.Sprintf("%q", up))
			}
		}
	}
	if hasNum {
		num := vrInt(in["num"])
		want := byte('N')
		if num >= 0 && num <= 3 {
			want = "ACGT"[num]
		}
		var got byte
		if p := vrCatch(func() { got = Iton(num) }); p != nil {
			return vzFail(fmt.Sprintf("Iton(%d) panic: %v", num, p), fmt.Sprintf("%q", want))
		}
		if got != want {
			return vzFail(fmt.Sprintf("Iton(%d) = %q", num, got), fmt.Sprintf("%q", want))
		}
		if num >= 0 && num <= 3 {
			var back int
			if p := vrCatch(func() { back = Ntoi(got) }); p != nil {
				return vzFail(fmt.Sprintf("Ntoi(Iton(%d)) panic: %v", num, p), fmt.Sprint(num))
			}
			if back != num {
				return vzFail(fmt.Sprintf("Ntoi(Iton(%d)) = %d", num, back), fmt.Sprint(num))
			}
		}
	}
	return vrResult{OK: true}
}

func vzGenNtoiIton(g *vrGen) {
	for v := 0; v < 256; v++ {
		g.Case(map[string]any{"nuc": v})
	}
	for n := -3; n <= 8; n++ {
		g.Case(map[string]any{"num": n})
	}
	g.Exhaustive(true)
	for _, n := range []int{-1 << 62, -1 << 32, -1 << 31, -256, -4, 'A', 'T', 255, 256, 259, 1 << 31, 1<<32 + 1, 1<<32 + 3, 1 << 62} {
		g.Case(map[string]any{"num": n})
	}
}

// ---------------------------------------------------------------------------
// C14
// ---------------------------------------------------------------------------

func vzRunTranslate(in map[string]any) vrResult {
	dst, src := vrBytes(in["dst"]), vrBytes(in["src"])
	want, why := vzTranslate(src)
	for _, spare := range vzSpares(len(src) / 3) {
		got, pan, viol := vzAppendCall(Translate, dst, src, spare)
		if viol != "" {
			return vzFail(viol, "src and the existing content of dst untouched")
		}
		if why != "" {
			if pan == nil {
				return vzFail(fmt.Sprintf("Translate returned %q (spare cap %d)", got, spare), "panic: "+why)
			}
			continue
		}
		exp := vzCat(dst, want)
		if pan != nil {
			return vzFail(fmt.Sprintf("Translate panic: %v (spare cap %d)", pan, spare), fmt.Sprintf("%q", exp))
		}
		if !bytes.Equal(got, exp) {
			return vzFail(fmt.Sprintf("Translate = %q (spare cap %d)", got, spare), fmt.Sprintf("%q (NCBI table 1)", exp))
		}
	}
	if why == "" {
		// concatenation law at (up to 6) codon boundaries
		nc := len(src) / 3
		step := max(1, nc/6)
		for c := 0; c <= nc; c += step {
			var got []byte
			pan := vrCatch(func() {
				d := append([]byte(nil), dst...)
				got = Translate(Translate(d, src[:3*c]), src[3*c:])
			})
			exp := vzCat(dst, want)
			if pan != nil {
				return vzFail(fmt.Sprintf("Translate(Translate(dst, src[:%d]), src[%d:]) panic: %v", 3*c, 3*c, pan), fmt.Sprintf("%q", exp))
			}
			if !bytes.Equal(got, exp) {
				return vzFail(fmt.Sprintf("Translate(Translate(dst, src[:%d]), src[%d:]) = %q", 3*c, 3*c, got), fmt.Sprintf("%q", exp))
			}
		}
	}
	return vrResult{OK: true, Trivial: len(src) == 0}
}

// vzCodons calls f with all 64 codons x 8 case patterns (512 strings).
func vzCodons(f func(c []byte)) {
	const l = "TCAG"
	for i := 0; i < 64; i++ {
		for m := 0; m < 8; m++ {
			c := []byte{l[i/16], l[(i/4)%4], l[i%4]}
			for j := 0; j < 3; j++ {
				if m&(1<<j) != 0 {
					c[j] += 'a' - 'A'
				}
			}
			f(c)
		}
	}
}

func vzGenTranslate(g *vrGen) {
	g.Case(vzDS(nil, nil))
	vzCodons(func(c []byte) { g.Case(vzDS(nil, c)) })
	g.Exhaustive(true)
	for _, dst := range [][]byte{[]byte("M"), {0, 0xFF, '*'}, []byte("ACGTacgt")} {
		vzCodons(func(c []byte) { g.Case(vzDS(dst, c)) })
	}
	// every byte value at every codon position, several contexts
	for _, ctx := range []string{"AAA", "ctg", "TgA", "ATGGCC", "ttttttaaa"} {
		for pos := 0; pos < len(ctx); pos++ {
			for v := 0; v < 256; v++ {
				g.Case(vzDS(nil, vzReplace([]byte(ctx), pos, byte(v))))
			}
		}
	}
	// bad lengths
	vrWords([]byte("ACGTacgt"), 2, func(w []byte) bool {
		g.Case(vzDS(nil, w))
		g.Case(vzDS([]byte("K"), w))
		return true
	})
	vrWords([]byte("AcGt"), 5, func(w []byte) bool {
		if len(w) >= 4 {
			g.Case(vzDS(nil, w))
		}
		return true
	})
	// codon triples over confusable bytes (could all three fold onto letters?)
	conf := []byte{'A', 't', '@', '[', '`', '{', 'u', 'U', 0x01, 0x21, 0x81, 0xC1, 0xE1, 0xF4, 0x54 + 0x80, 'N', 'n'}
	vrWords(conf, 3, func(w []byte) bool {
		if len(w) == 3 {
			g.Case(vzDS(nil, w))
		}
		return true
	})
	// all codon pairs, upper case, then random case (concatenation law)
	if g.Thorough() {
		vrWords([]byte("TCAG"), 6, func(w []byte) bool {
			if len(w) == 6 {
				g.Case(vzDS(nil, w))
			}
			return !g.Expired()
		})
	}
	maxLen := 30
	if g.Thorough() {
		maxLen = 150
	}
	bad := vzBadBytes(vzAlpha8)
	for !g.Expired() {
		n := 3 * vzSkew(g.Rand, maxLen)
		switch g.Rand.Intn(8) {
		case 0:
			n++
		case 1:
			n += 2
		}
		src := vrRandWord(g.Rand, []byte(vzAlpha8), n)
		if len(src) > 0 && g.Rand.Intn(4) == 0 {
			b := bad[g.Rand.Intn(len(bad))]
			if g.Rand.Intn(3) == 0 {
				b = byte(g.Rand.Intn(256))
			}
			src[g.Rand.Intn(len(src))] = b
		}
		g.Case(vzDS(vzRandDst(g.Rand), src))
	}
}

func vzRunFrames(in map[string]any) vrResult {
	seq := vrBytes(in["seq"])
	var want [3][]byte
	expPanic := ""
	for i := 0; i < 3; i++ {
		var sub []byte
		if i <= len(seq) {
			sub = seq[i:]
		}
		sub = sub[:len(sub)-len(sub)%3]
		w, why := vzTranslate(sub)
		if why != "" && expPanic == "" {
			expPanic = fmt.Sprintf("panic: frame %d: %s", i, why)
		}
		want[i] = w
	}
	sig := func(panicked bool) string {
		if len(seq) < 2 && panicked {
			return "sequtil:frames-len-lt-2"
		}
		return "generic"
	}
	fmtFrames := func(f [3][]byte) string { return fmt.Sprintf("[%q %q %q]", f[0], f[1], f[2]) }
	s := append(make([]byte, 0, len(seq)+4), seq...)
	var got [3][]byte
	pan := vrCatch(func() { got = TranslateReadingFrames(s) })
	if !bytes.Equal(s, seq) {
		return vzFail(fmt.Sprintf("seq changed to %q", s), "seq untouched")
	}
	if expPanic != "" {
		if pan == nil {
			return vzFail("returned "+fmtFrames(got), expPanic)
		}
		return vrResult{OK: true}
	}
	if pan != nil {
		return vrResult{OK: false, Observed: fmt.Sprintf("panic: %v (len(seq)=%d)", pan, len(seq)),
			Expected: fmtFrames(want) + " (any length incl. 0, 1, 2 must work)", Signature: sig(true)}
	}
	for i := 0; i < 3; i++ {
		if !bytes.Equal(got[i], want[i]) {
			return vrResult{OK: false, Observed: fmtFrames(got), Expected: fmtFrames(want), Signature: sig(false)}
		}
	}
	return vrResult{OK: true}
}

func vzGenFrames(g *vrGen) {
	L4, L8 := 7, 3
	if g.Thorough() {
		L4, L8 = 9, 5
	}
	c1 := vrWords([]byte("ACGT"), L4, func(w []byte) bool {
		g.Case(map[string]any{"seq": vrB(w)})
		return !g.Expired()
	})
	c2 := vrWords([]byte(vzAlpha8), L8, func(w []byte) bool {
		if !vzOver(w, "ACGT") { // upper-case words were enumerated above
			g.Case(map[string]any{"seq": vrB(w)})
		}
		return !g.Expired()
	})
	g.Exhaustive(c1 && c2)
	// bad bytes at every position of lengths 1..7 (lengths 1, 2: nothing is translated, so no panic expected)
	for n := 1; n <= 7; n++ {
		base := []byte("AcGtTgC")[:n]
		for pos := 0; pos < n; pos++ {
			for _, b := range vzBadBytes(vzAlpha8) {
				g.Case(map[string]any{"seq": vrB(vzReplace(base, pos, b))})
			}
		}
	}
	maxLen := 60
	if g.Thorough() {
		maxLen = 400
	}
	bad := vzBadBytes(vzAlpha8)
	for !g.Expired() {
		// lengths 0 and 1 are covered exhaustively above
		seq := vrRandWord(g.Rand, []byte(vzAlpha8), 2+vzSkew(g.Rand, maxLen))
		if g.Rand.Intn(6) == 0 {
			seq[g.Rand.Intn(len(seq))] = bad[g.Rand.Intn(len(bad))]
		}
		g.Case(map[string]any{"seq": vrB(seq)})
	}
}

func vzRunAminoName(in map[string]any) vrResult {
	v := vrInt(in["aa"])
	if v < 0 || v > 255 {
		return vrResult{OK: true, Trivial: true, Observed: "aa is not a byte value: outside the statement"}
	}
	aa := byte(v)
	// accepted: the letters listed in AminoAcids, in either case
	accept := false
	for i := 0; i < len(AminoAcids); i++ {
		l := AminoAcids[i]
		if aa == l {
			accept = true
		}
		if l >= 'A' && l <= 'Z' && aa == l+('a'-'A') {
			accept = true
		}
	}
	var code, name string
	pan := vrCatch(func() { code, name = AminoName(aa) })
	if accept {
		if pan != nil {
			return vzFail(fmt.Sprintf("AminoName(%q) panic: %v", aa, pan), "a non-empty code and name (letter is listed in AminoAcids)")
		}
		if code == "" || name == "" {
			return vzFail(fmt.Sprintf("AminoName(%q) = (%q, %q)", aa, code, name), "a non-empty code and name")
		}
		// either case gives the same answer
		if aa >= 'a' && aa <= 'z' {
			var c2, n2 string
			if p := vrCatch(func() { c2, n2 = AminoName(aa - ('a' - 'A')) }); p == nil && (c2 != code || n2 != name) {
				return vzFail(fmt.Sprintf("AminoName(%q) = (%q, %q) but upper case gives (%q, %q)", aa, code, name, c2, n2), "same result in either case")
			}
		}
		return vrResult{OK: true}
	}
	if pan == nil {
		return vzFail(fmt.Sprintf("AminoName(%#x) = (%q, %q)", aa, code, name), fmt.Sprintf("panic: %#x is not a letter of AminoAcids %q", aa, AminoAcids))
	}
	return vrResult{OK: true}
}

// ---------------------------------------------------------------------------
// C18
// ---------------------------------------------------------------------------

// Encoding of the stopping position: the consumer accepts `stop` items
// (returns true) and declines (returns false) on the next item it is handed,
// exactly like `n := 0; for x := range it { if n == stop { break }; n++ }`.
// stop >= number of items: never declines.
func vzRunCanonicalStop(in map[string]any) vrResult {
	seq, k, stop := vrBytes(in["seq"]), vrInt(in["k"]), vrInt(in["stop"])
	if k < 1 || stop < 0 {
		return vrResult{OK: true, Trivial: true, Observed: "k < 1 or stop < 0: outside the statement"}
	}
	if !vzOver(seq, vzAlpha10) {
		return vrResult{OK: true, Trivial: true, Observed: "seq not over aAcCgGtTnN: outside the statement"}
	}
	full, pan, runaway := vzCollect(append([]byte(nil), seq...), k)
	if pan != nil || runaway {
		return vzFail(fmt.Sprintf("uninterrupted run: panic=%v runaway=%v", pan, runaway), "a finite run without panic")
	}
	wantN := min(len(full), stop+1)
	exp := fmt.Sprintf("%d callbacks, items = first %d of the uninterrupted run %s, no callback after the consumer returned false, no panic",
		wantN, wantN, vzItems(full))
	var seen [][]byte
	after := 0
	declined := false
	s := append([]byte(nil), seq...)
	pan = vrCatch(func() {
		CanonicalSubsequences(s, k)(func(b []byte) bool {
			if declined {
				after++
				return false
			}
			seen = append(seen, append([]byte(nil), b...))
			if len(seen) > stop || len(seen) > len(seq)+8 {
				declined = true
				return false
			}
			return true
		})
	})
	if pan != nil {
		return vzFail(fmt.Sprintf("panic: %v after %d callbacks", pan, len(seen)), exp)
	}
	if after > 0 {
		return vzFail(fmt.Sprintf("%d further callback(s) after the consumer returned false at item %d", after, len(seen)-1), exp)
	}
	if !vzSameItems(seen, full[:wantN]) {
		return vzFail(vzItems(seen), exp)
	}
	if !bytes.Equal(s, seq) {
		return vzFail(fmt.Sprintf("seq changed to %q", s), "seq untouched")
	}
	// the same with a real range-over-func loop and break (the runtime panics
	// if the iterator continues after break)
	n := 0
	pan = vrCatch(func() {
		for range CanonicalSubsequences(s, k) {
			if n == stop {
				break
			}
			n++
			if n > len(seq)+8 {
				break
			}
		}
	})
	if pan != nil {
		return vzFail(fmt.Sprintf("for-range with break after %d items: panic: %v", stop, pan), exp)
	}
	if n != min(len(full), stop) {
		return vzFail(fmt.Sprintf("for-range with break after %d items: loop body completed %d times", stop, n), exp)
	}
	return vrResult{OK: true, Trivial: len(full) == 0}
}

func vzGenCanonicalStop(g *vrGen) {
	L10, L4 := 3, 5
	if g.Thorough() {
		L10, L4 = 4, 7
	}
	all := func(w []byte) bool {
		for k := 1; k <= len(w)+1; k++ {
			n := max(0, len(w)-k+1)
			for stop := 0; stop <= n; stop++ {
				g.Case(map[string]any{"seq": vrB(w), "k": k, "stop": stop})
			}
		}
		return !g.Expired()
	}
	c1 := vrWords([]byte(vzAlpha10), L10, all)
	c2 := vrWords([]byte("ACGT"), L4, func(w []byte) bool {
		if len(w) <= L10 {
			return true
		}
		return all(w)
	})
	g.Exhaustive(c1 && c2)
	maxLen := 40
	if g.Thorough() {
		maxLen = 200
	}
	for !g.Expired() {
		seq := vrRandWord(g.Rand, []byte(vzAlpha10), 1+vzSkew(g.Rand, maxLen))
		k := 1 + g.Rand.Intn(min(len(seq), 9))
		n := len(seq) - k + 1
		// every stopping position for short runs, a sample for long ones
		if n <= 12 {
			for stop := 0; stop <= n; stop++ {
				g.Case(map[string]any{"seq": vrB(seq), "k": k, "stop": stop})
			}
		} else {
			for _, stop := range []int{0, 1, g.Rand.Intn(n), n - 1, n, n + 1 + g.Rand.Intn(5)} {
				g.Case(map[string]any{"seq": vrB(seq), "k": k, "stop": stop})
			}
		}
	}
}

// ---------------------------------------------------------------------------
// C12 / C18: two CanonicalSubsequences iterators alive at the same time
// ---------------------------------------------------------------------------

const vzSigShared = "sequtil:canonical-iterators-share-state"

// vzRange ranges once over the iterator VALUE it and copies the items on receipt.
func vzRange(it iter.Seq[[]byte], limit int) (items [][]byte, runaway bool) {
	for b := range it {
		if len(items) >= limit {
			return items, true
		}
		items = append(items, append([]byte(nil), b...))
	}
	return items, false
}

func vzRunCanonicalInterleaved(in map[string]any) vrResult {
	seq1, seq2, k := vrBytes(in["seq1"]), vrBytes(in["seq2"]), vrInt(in["k"])
	if k < 1 {
		return vrResult{OK: true, Trivial: true, Observed: "k < 1: outside the statement"}
	}
	if !vzOver(seq1, vzAlpha10) || !vzOver(seq2, vzAlpha10) {
		return vrResult{OK: true, Trivial: true, Observed: "seq1/seq2 not over aAcCgGtTnN: outside the statement"}
	}
	want1, want2 := vzCanon(seq1, k), vzCanon(seq2, k)
	s1, s2 := append([]byte(nil), seq1...), append([]byte(nil), seq2...)
	limit := len(seq1) + len(seq2) + 8
	exp := fmt.Sprintf("first iterator: %s; second iterator: %s", vzItems(want1), vzItems(want2))
	res := vrResult{OK: true, Trivial: len(want1) == 0 || len(want2) == 0}
	where := ""
	bad := func(sig, obs string) {
		res = vrResult{OK: false, Observed: where + ": " + obs, Expected: exp, Signature: sig}
	}
	// check compares one complete pass with the oracle.
	check := func(sig, which string, got [][]byte, runaway bool, want [][]byte) bool {
		if runaway || !vzSameItems(got, want) {
			bad(sig, fmt.Sprintf("%s iterator yields %s (runaway=%v)", which, vzItems(got), runaway))
			return false
		}
		return true
	}
	pan := vrCatch(func() {
		// Each sequence alone (a failure here does not need two iterators).
		where = "one iterator at a time"
		g1, r1 := vzRange(CanonicalSubsequences(s1, k), limit)
		if !check("generic", "first", g1, r1, want1) {
			return
		}
		g2, r2 := vzRange(CanonicalSubsequences(s2, k), limit)
		if !check("generic", "second", g2, r2, want2) {
			return
		}
		// Interleaved: both iterators created first, then pulled alternately.
		where = "two iterators created, then pulled alternately (iter.Pull)"
		it1, it2 := CanonicalSubsequences(s1, k), CanonicalSubsequences(s2, k)
		next1, stop1 := iter.Pull(it1)
		defer stop1()
		next2, stop2 := iter.Pull(it2)
		defer stop2()
		var a, b [][]byte
		done1, done2 := false, false
		for n := 0; (!done1 || !done2) && n < limit; n++ {
			if !done1 {
				if x, ok := next1(); ok {
					a = append(a, append([]byte(nil), x...))
				} else {
					done1 = true
				}
			}
			if !done2 {
				if x, ok := next2(); ok {
					b = append(b, append([]byte(nil), x...))
				} else {
					done2 = true
				}
			}
		}
		if !check(vzSigShared, "first", a, !done1, want1) || !check(vzSigShared, "second", b, !done2, want2) {
			return
		}
		// Nested: for every item of the first, a complete pass over the second
		// (the same iterator value it2 every time).
		where = "nested: for each item of the first iterator a complete range over the second iterator value"
		a = nil
		for x := range it1 {
			if len(a) >= limit {
				bad(vzSigShared, "first iterator does not end")
				return
			}
			a = append(a, append([]byte(nil), x...))
			inner, ri := vzRange(it2, limit)
			if !check(vzSigShared, fmt.Sprintf("second (inner pass %d)", len(a)), inner, ri, want2) {
				return
			}
		}
		if !check(vzSigShared, "first (outer)", a, false, want1) {
			return
		}
		// The other way round, with fresh iterator values.
		where = "nested: for each item of the second iterator a complete range over a fresh first iterator"
		b = nil
		for x := range CanonicalSubsequences(s2, k) {
			if len(b) >= limit {
				bad(vzSigShared, "second iterator does not end")
				return
			}
			b = append(b, append([]byte(nil), x...))
			inner, ri := vzRange(CanonicalSubsequences(s1, k), limit)
			if !check(vzSigShared, fmt.Sprintf("first (inner pass %d)", len(b)), inner, ri, want1) {
				return
			}
		}
		if !check(vzSigShared, "second (outer)", b, false, want2) {
			return
		}
		// The same iterator value ranged twice more.
		where = "the same iterator value ranged again after all of the above"
		g1, r1 = vzRange(it1, limit)
		if !check(vzSigShared, "first", g1, r1, want1) {
			return
		}
		g1, r1 = vzRange(it1, limit)
		if !check(vzSigShared, "first (again)", g1, r1, want1) {
			return
		}
		g2, r2 = vzRange(it2, limit)
		if !check(vzSigShared, "second", g2, r2, want2) {
			return
		}
		if !bytes.Equal(s1, seq1) || !bytes.Equal(s2, seq2) {
			where = "at the end"
			bad("generic", fmt.Sprintf("seq1 = %q, seq2 = %q", s1, s2))
		}
	})
	if pan != nil {
		return vrResult{OK: false, Observed: fmt.Sprintf("%s: panic: %v", where, pan), Expected: exp + "; no panic", Signature: "generic"}
	}
	return res
}

func vzGenCanonicalInterleaved(g *vrGen) {
	cs := func(a, b []byte, k int) {
		g.Case(map[string]any{"seq1": vrB(a), "seq2": vrB(b), "k": k})
	}
	// Exhaustive: every ordered pair of sequences over ACGT, the longer one of
	// length 0..L1, the shorter one of length 0..L2 (so seq2 is shorter than,
	// as long as, and longer than seq1), every k in 1..3.
	L1, L2 := 3, 2
	if g.Thorough() {
		L1, L2 = 4, 3
	}
	var seconds [][]byte
	vrWords([]byte("ACGT"), L2, func(w []byte) bool {
		seconds = append(seconds, append([]byte(nil), w...))
		return true
	})
	done := vrWords([]byte("ACGT"), L1, func(w []byte) bool {
		for _, v := range seconds {
			for k := 1; k <= 3; k++ {
				cs(w, v, k)
				if len(v) <= L1 && len(w) > L2 { // the mirrored pair is not enumerated otherwise
					cs(v, w, k)
				}
			}
		}
		return !g.Expired()
	})
	g.Exhaustive(done)
	maxLen := 40
	if g.Thorough() {
		maxLen = 200
	}
	for !g.Expired() {
		a := vrRandWord(g.Rand, []byte(vzAlpha10), 1+vzSkew(g.Rand, maxLen))
		var n int
		switch g.Rand.Intn(4) {
		case 0: // shorter
			n = g.Rand.Intn(len(a))
		case 1: // equal length
			n = len(a)
		case 2: // longer
			n = len(a) + 1 + g.Rand.Intn(maxLen)
		default:
			n = vzSkew(g.Rand, maxLen)
		}
		b := vrRandWord(g.Rand, []byte(vzAlpha10), n)
		if n > 0 && g.Rand.Intn(4) == 0 { // related content: the reverse complement of a (cut or extended)
			rc, _ := vzRevComp(a)
			copy(b, rc)
		}
		cs(a, b, 1+g.Rand.Intn(5))
	}
}

// ---------------------------------------------------------------------------
// C12/extern-compare: conformance of the assumed contract of bytes.Compare
// (lexcmp / lexd in /verif/specs/00base.spec) with the real standard library.
// The clause does not call the repository.
//
// Input: {"x":[..],"y":[..]} (the two byte strings; every placement is tried), or
// {"a":[..],"ao":n,"an":n,"b":[..],"bo":n,"bn":n,"same":bool} (one window of each
// buffer; with "same" the second window is taken from the array of a, b is ignored).

var vzxAlpha = []byte{0x00, 'a', 0xff}

// vzxAxioms evaluates every lexcmp/lexd axiom on a[ao:ao+an], b[bo:bo+bn] (the
// windows must lie inside the buffers). It returns the violated axiom with the
// observed values, or "".
func vzxAxioms(a []byte, ao, an int, b []byte, bo, bn int) string {
	lexcmp := bytes.Compare(a[ao:ao+an], b[bo:bo+bn])
	// lexd has no library counterpart: by lexUnique its only admissible value is
	// the length of the longest common prefix.
	lexd := 0
	for lexd < an && lexd < bn && a[ao+lexd] == b[bo+lexd] {
		lexd++
	}
	where := func() string {
		return fmt.Sprintf("bytes.Compare(%q, %q) = %d (ao=%d an=%d bo=%d bn=%d, lexd=%d)", a[ao:ao+an], b[bo:bo+bn], lexcmp, ao, an, bo, bn, lexd)
	}
	// (1) sign set
	if !(lexcmp == 0-1 || lexcmp == 0 || lexcmp == 1) {
		return "axiom (1) result in {-1,0,1}: " + where()
	}
	// (2) [lexd] bounds and first difference (hypothesis an >= 0 && bn >= 0 holds)
	if !(0 <= lexd && lexd <= an && lexd <= bn && (!(lexd < an && lexd < bn) || a[ao+lexd] != b[bo+lexd])) {
		return "axiom (2) [lexd] bounds / first difference: " + where()
	}
	// (3) [lexd] forall x: ao <= x && x < ao + lexd ==> a[x] == b[x - ao + bo]
	for x := ao; x < ao+lexd; x++ {
		if !(a[x] == b[x-ao+bo]) {
			return fmt.Sprintf("axiom (3) [lexd] common prefix at x=%d: %s", x, where())
		}
	}
	// (4) [lexd] forall x: bo <= x && x < bo + lexd ==> a[x - bo + ao] == b[x]
	for x := bo; x < bo+lexd; x++ {
		if !(a[x-bo+ao] == b[x]) {
			return fmt.Sprintf("axiom (4) [lexd] common prefix at x=%d: %s", x, where())
		}
	}
	// (5) [lexcmp] decided at the first difference, else by the lengths
	want := 0
	if lexd < an && lexd < bn {
		if int(a[ao+lexd]) < int(b[bo+lexd]) {
			want = 0 - 1
		} else {
			want = 1
		}
	} else if an < bn {
		want = 0 - 1
	} else if an > bn {
		want = 1
	}
	if !(lexcmp == want) {
		return fmt.Sprintf("axiom (5) [lexcmp] the axiom gives %d: %s", want, where())
	}
	return ""
}

func vzxRunCompare(in map[string]any) vrResult {
	const exp = "every lexcmp/lexd axiom of /verif/specs/00base.spec holds for the real bytes.Compare"
	fail := func(obs string) vrResult {
		return vrResult{Observed: obs, Expected: exp, Signature: "extern:compare"}
	}
	if _, ok := in["x"]; ok {
		x, y := vrBytes(in["x"]), vrBytes(in["y"])
		for _, p := range vzxAlpha {
			for ao := 0; ao <= 2; ao++ {
				for bo := 0; bo <= 2; bo++ {
					pad := func(n int) []byte { return bytes.Repeat([]byte{p}, n) }
					// separate arrays
					a := append(append(pad(ao), x...), p)
					b := append(append(pad(bo), y...), p)
					// one array: x's window, bo fill bytes, y's window
					s := append(append(append(append(pad(ao), x...), pad(bo)...), y...), p)
					var obs string
					if pn := vrCatch(func() {
						obs = vzxAxioms(a, ao, len(x), b, bo, len(y))
						if obs == "" {
							if obs = vzxAxioms(s, ao, len(x), s, ao+len(x)+bo, len(y)); obs != "" {
								obs = "both windows in one array: " + obs
							}
						}
					}); pn != nil {
						return fail(fmt.Sprintf("panic: %v", pn))
					}
					if obs != "" {
						return fail(fmt.Sprintf("fill byte %#x: %s", p, obs))
					}
				}
			}
		}
		return vrResult{OK: true, Trivial: len(x) == 0 && len(y) == 0}
	}
	a, b := vrBytes(in["a"]), vrBytes(in["b"])
	if vrBool(in["same"]) {
		b = a
	}
	ao, an, bo, bn := vrInt(in["ao"]), vrInt(in["an"]), vrInt(in["bo"]), vrInt(in["bn"])
	if ao < 0 || an < 0 || bo < 0 || bn < 0 || ao+an > len(a) || bo+bn > len(b) {
		return vrResult{OK: true, Trivial: true}
	}
	var obs string
	if pn := vrCatch(func() { obs = vzxAxioms(a, ao, an, b, bo, bn) }); pn != nil {
		return fail(fmt.Sprintf("panic: %v", pn))
	}
	if obs != "" {
		return fail(obs)
	}
	return vrResult{OK: true, Trivial: an == 0 && bn == 0}
}

func vzxGenCompare(g *vrGen) {
	maxLen := 4
	if g.Thorough() {
		maxLen = 5
	}
	var words [][]byte
	vrWords(vzxAlpha, maxLen, func(w []byte) bool {
		words = append(words, append([]byte(nil), w...))
		return true
	})
	for _, x := range words {
		for _, y := range words {
			g.Case(map[string]any{"x": vrB(x), "y": vrB(y)})
		}
	}
	g.Exhaustive(true)
	r := g.Rand
	alpha := []byte{0x00, 'a', 0xff, 'b', 0x7f, 0x80}
	window := func(n int) (int, int) {
		o := r.Intn(n + 1)
		return o, r.Intn(n - o + 1)
	}
	max := 12000
	if g.Thorough() {
		max = 300000
	}
	for i := 0; i < max && !g.Expired(); i++ {
		n := r.Intn(49)
		if r.Intn(4) == 0 {
			n = r.Intn(301)
		}
		a := vrRandWord(r, alpha[:2+r.Intn(5)], n)
		ao, an := window(len(a))
		switch r.Intn(3) {
		case 0: // unrelated b
			b := vrRandWord(r, alpha, r.Intn(n+2))
			bo, bn := window(len(b))
			g.Case(map[string]any{"a": vrB(a), "ao": ao, "an": an, "b": vrB(b), "bo": bo, "bn": bn, "same": false})
		case 1: // b = fill + copy of a with at most one byte changed; windows aligned on the same content
			sh := r.Intn(4)
			b := append(vrRandWord(r, alpha, sh), a...)
			if len(a) > 0 && r.Intn(3) > 0 {
				b[sh+r.Intn(len(a))] = alpha[r.Intn(len(alpha))]
			}
			bo, bn := ao+sh, an
			switch r.Intn(3) {
			case 0:
				bn = r.Intn(len(b) - bo + 1)
			case 1:
				if an > 0 {
					an = r.Intn(an + 1)
				}
			}
			g.Case(map[string]any{"a": vrB(a), "ao": ao, "an": an, "b": vrB(b), "bo": bo, "bn": bn, "same": false})
		default: // both windows in the array of a
			bo, bn := window(len(a))
			g.Case(map[string]any{"a": vrB(a), "ao": ao, "an": an, "b": vrB(nil), "bo": bo, "bn": bn, "same": true})
		}
	}
}

// ---------------------------------------------------------------------------

func vzClauses() []vrClause {
	const interBound = "exhaustive: every ordered pair (seq1, seq2) over ACGT with the longer one of length 0..3 (thorough 0..4) and the shorter one of length 0..2 (0..3), every k in 1..3; then random seq1 over aAcCgGtTnN of length 1..41 / 1..201 with seq2 shorter, equal, longer or of unrelated length (1 in 4 carrying the reverse complement of seq1), k in 1..5"
	const interRule = "trivial: one of the two sequences has no k-mer, k < 1, or a sequence not over aAcCgGtTnN. Items are copied when received; every item must be the oracle's canonical k-mer of its OWN sequence when (a) two iterators are pulled alternately through iter.Pull, (b) for each item of one the other is ranged completely (same value, and fresh values the other way round), (c) the same iterator value is ranged again"
	return []vrClause{
		{Prop: "C12", Name: "revcomp-spec",
			Bound: "exhaustive: every src over aAcCgGtTnN of length 0..4 (thorough 0..5) with empty dst; plus 4 dst prefixes x length 0..2 (3), every byte value 0..255 at every position of 4 short contexts, then random src (length <= 60 / 400, 1 in 4 with one byte outside the alphabet) x random dst until the time share is used; each case is run with 0, 1 and ample spare capacity in dst",
			Rule:  "trivial: len(src) == 0",
			Gen:   vzGenRevcomp, Run: vzRunRevcomp},
		{Prop: "C12", Name: "complement-bytes",
			Bound: "exhaustive: all 256 byte values b as src = [b] (ReverseComplement and ReverseComplementString)",
			Rule:  "trivial: b outside 0..255",
			Gen: func(g *vrGen) {
				for v := 0; v < 256; v++ {
					g.Case(map[string]any{"b": v})
				}
				g.Exhaustive(true)
			}, Run: vzRunComplementByte},
		{Prop: "C12", Name: "canonical",
			Bound: "exhaustive: every seq over aAcCgGtTnN of length 0..3 (thorough 0..4) and over ACGT of length 0..6 (0..7), every k in 1..len+1; then random seq (5 alphabets, length <= 60 / 300, 1 in 3 made reverse-palindromic) x k (small, near len, or far beyond len); k <= 0 is outside the statement and not generated",
			Rule:  "trivial: k > len(seq) (no items), k < 1, or seq not over aAcCgGtTnN",
			Gen:   vzGenCanonical, Run: vzRunCanonical},
		{Prop: "C12", Name: "canonical-interleaved",
			Bound: interBound, Rule: interRule,
			Gen: vzGenCanonicalInterleaved, Run: vzRunCanonicalInterleaved},

		{Prop: "C12", Name: "extern-compare",
			Bound: "exhaustive: every ordered pair (x, y) of byte strings over {0x00, 'a', 0xff} of length 0..4 (thorough 0..5; 121 x 121 pairs), each pair compared in 54 placements (one evaluation per pair): x = A[ao:ao+len x], y = B[bo:bo+len y] for every ao, bo in 0..2 and every fill byte p in {0x00, 'a', 0xff} for all bytes of A and B outside the windows (one byte after each window), once with A and B separate arrays and once with both windows in ONE array (y's window bo bytes after x's window); then 12000 (thorough 300000) random cases, fewer if the time share ends first: random windows (ao, an), (bo, bn) of random buffers a over a 2..6-letter prefix of {0x00, 'a', 0xff, 'b', 0x7f, 0x80} of length 0..48 (1 in 4: 0..300, for the vectorised paths of bytes.Compare), b unrelated / a shifted copy of a with at most one byte changed / the same array as a (overlapping windows)",
			Rule:  "conformance of the ASSUMED contract of bytes.Compare (/verif/specs/00base.spec) with the real standard library; the repository is not called. lexcmp := bytes.Compare(a[ao:ao+an], b[bo:bo+bn]) of the real library; lexd := length of the longest common prefix of the two windows (by lemma lexUnique the only value the axioms allow), then every axiom is evaluated literally, quantifiers by looping: (1) lexcmp == -1 || lexcmp == 0 || lexcmp == 1; (2) [lexd] 0 <= lexd <= an, lexd <= bn, (lexd < an && lexd < bn ==> a[ao+lexd] != b[bo+lexd]); (3) [lexd] forall x, ao <= x < ao+lexd: a[x] == b[x-ao+bo]; (4) [lexd] forall x, bo <= x < bo+lexd: a[x-bo+ao] == b[x]; (5) [lexcmp] lexcmp == ((lexd < an && lexd < bn) ? (a[ao+lexd] < b[bo+lexd] ? -1 : 1) : (an < bn ? -1 : (an > bn ? 1 : 0))), bytes compared as the integers 0..255. trivial: both windows empty, or a window outside its buffer",
			Gen:   vzxGenCompare, Run: vzxRunCompare},

		{Prop: "C13", Name: "to2bit",
			Bound: "exhaustive: every src over aAcCgGtT of length 0..4 (thorough 0..6) and over ACGT up to length 7 (9), empty dst; plus 5 dst prefixes x short src, every byte value at every position of 7 contexts (lengths 1..9), then random src (length <= 60 / 400, 1 in 4 with a bad byte) x random dst; spare capacity of dst is pre-filled with 0xFF",
			Rule:  "trivial: len(src) == 0",
			Gen:   vzGenTo2Bit, Run: vzRunTo2Bit},
		{Prop: "C13", Name: "from2bit",
			Bound: "exhaustive (both tiers): the empty string, all 256 single bytes and all 65536 byte pairs with empty dst; plus 3 dst prefixes x all single bytes, then random byte strings (length <= 30 / 150) x random dst",
			Rule:  "trivial: len(src) == 0",
			Gen:   vzGenFrom2Bit, Run: vzRunFrom2Bit},
		{Prop: "C13", Name: "ntoi-iton",
			Bound: "exhaustive: Ntoi on all 256 byte values, Iton on -3..8, mutual inverse on the four bases; plus 14 extreme ints for Iton",
			Rule:  "trivial: nuc outside 0..255",
			Gen:   vzGenNtoiIton, Run: vzRunNtoiIton},

		{Prop: "C14", Name: "translate",
			Bound: "exhaustive: all 64 codons x 8 case patterns against the NCBI table-1 string (empty dst); plus the same with 3 dst prefixes, every byte value at every position of 5 contexts, every length-1/2/4/5 string (bad length), all triples over 17 confusable bytes, thorough: all 4096 upper-case codon pairs; then random src (<= 30 / 150 codons, mixed case, 1 in 4 bad length, 1 in 4 bad byte) x random dst, with the concatenation law checked at up to 7 codon boundaries",
			Rule:  "trivial: len(src) == 0",
			Gen:   vzGenTranslate, Run: vzRunTranslate},
		{Prop: "C14", Name: "frames",
			Bound: "exhaustive: every seq over ACGT of length 0..7 (thorough 0..9) and over aAcCgGtT of length 0..3 (0..5); plus a bad byte at every position of lengths 1..7, then random mixed-case seq of length 2..62 / 2..402 (1 in 6 with a bad byte)",
			Rule:  "no case is trivial (lengths 0, 1, 2 are explicitly in the statement)",
			Gen:   vzGenFrames, Run: vzRunFrames},
		{Prop: "C14", Name: "aminoname",
			Bound: "exhaustive: all 256 byte values",
			Rule:  "trivial: aa outside 0..255",
			Gen: func(g *vrGen) {
				for v := 0; v < 256; v++ {
					g.Case(map[string]any{"aa": v})
				}
				g.Exhaustive(true)
			}, Run: vzRunAminoName},

		{Prop: "C18", Name: "canonical-stop",
			Bound: "exhaustive: every seq over aAcCgGtTnN of length 0..3 (thorough 0..4) and over ACGT up to length 5 (7), every k in 1..len+1, every stopping position 0..N (consumer accepts `stop` items and declines the next); then random seq (length <= 41 / 201) with every stopping position when N <= 12, else 6 positions",
			Rule:  "trivial: the uninterrupted run has no items, or k < 1 / stop < 0 / seq not over aAcCgGtTnN",
			Gen:   vzGenCanonicalStop, Run: vzRunCanonicalStop},
		{Prop: "C18", Name: "canonical-interleaved",
			Bound: interBound, Rule: interRule,
			Gen: vzGenCanonicalInterleaved, Run: vzRunCanonicalInterleaved},
	}
}
