package trie

// Replay / bounded harness of package trie (see /verif/replay/README.md).
// Injected through `go test -overlay`; not part of the repository.
//
// Mapping (functions -> clauses):
//   func (*Trie).Add, Has, Delete, ForEach, MarshalJSON, UnmarshalJSON, New
//        -> clause C15/history       input {"ops":[{"op":"add"|"del","b":[bytes]}, ...]}
//   func (*Trie).ForEach (early stop)
//        -> clause C18/foreach-stop  input {"members":[[bytes], ...], "stop": n}
//   func (*Trie).ForEach (deep tries: traversal stack of more than 8/16/32 entries)
//        -> clause C18/foreach-deep  input {"members":[[bytes], ...], "stop": "never" | n}
//
// Oracle of C15 (written from the statement, independent of the code): a set M
// of byte strings ("maximal sequences").
//   Add(b):    b empty -> nothing; b a prefix of (or equal to) a member -> nothing;
//              else drop the members that are proper prefixes of b, insert b.
//   Delete(b): (b non-empty) drop every member that has prefix b; result = there was one.
//   Has(x):    x empty, or x a prefix of a member.
//   ForEach:   every member exactly once, nothing else.
//   JSON:      json.Marshal -> json.Unmarshal into New() (and into a zero &Trie{})
//              gives a trie with the same observations, now and under the
//              remaining updates of the history.

import (
	"bytes"
	"encoding/json"
	"fmt"
	"math/rand"
	"sort"
	"strings"
	"testing"
)

func TestVerif(t *testing.T) { vrMain(t, vtClauses) }

var vtClauses = []vrClause{
	{
		Prop: "C15", Name: "history",
		Bound: "quick: every history of <= 4 Add/Delete ops over the 6 strings of length 1..2 on {a,b} (12 choices per step, 22621 histories), " +
			"full observation after EVERY step (Has on all 31 words of length <= 4 over {a,b} plus foreign-byte probes, ForEach multiset, Delete result, " +
			"and the same on tries rebuilt through JSON into New() and into &Trie{} at every step, each rebuilt trie then receiving the remaining ops, with Delete results checked on the way and the same observations at the end of the history); " +
			"thorough: additionally every history of <= 3 ops over the 14 strings of length 1..3 on {a,b} (28 choices per step) and every history of exactly 5 ops over the 6 strings of length 1..2 whose first operand begins with 'a' (124416 histories; the other half is their a<->b mirror image); " +
			"a fixed history with branches at depths 7..65 (members up to 70 bytes) and two fixed histories using every byte value 0..255 as an edge label (256 one-byte members; 104 two-byte members and 3 deletes); then random histories of 200 ops on a 4-letter alphabet (every third one on the 8 bytes 00 22 7f 80 bf c0 c3 ff) with strings of length 1..5 (cheaper observation after each step: " +
			"Delete result, ForEach multiset, Has on the prefixes/extensions of the operand and a few pseudo-random words, direct JSON rebuild at every step, " +
			"plus two tries that are JSON-round-tripped after every op), alternating with random 'deep' histories of 60 ops in which half of the fresh operands " +
			"have length 8..40 and extensions grow up to 40 bytes (Delete/Has/ForEach/JSON on deep paths), until the time budget ends",
		Rule: "trivial = empty history or a history containing Delete(empty) (outside the statement)",
		Gen:  vtGenHistory,
		Run:  vtRunHistory,
	},
	{
		Prop: "C18", Name: "foreach-stop",
		Bound: "quick: every set of <= 4 members out of the 14 strings of length 1..3 on {a,b}, every stop position 0..N; " +
			"thorough: every one of the 16384 subsets, every stop position 0..N; " +
			"then random sets of up to 30 members of length 1..6 on a 4-letter alphabet, every stop position 0..N, until the time budget ends",
		Rule: "trivial = no member is reported by the uninterrupted run (empty trie)",
		Gen:  vtGenStop,
		Run:  vtRunStop,
	},
	{
		Prop: "C18", Name: "foreach-deep",
		Bound: "tries with LONG members (traversal stack deeper than 8, 16 and 32 entries), ForEach compared with the reference set model: " +
			"every single chain of length 1..40 (stop never, 0); every pair of members of length L = 2..40 sharing a prefix of length L-1 (stop never, 0, 1); " +
			"combs: a spine of length 40 with a side branch leaving at every depth of a set of depths around 7..9, 15..17, 31..33 (stop never and every position); " +
			"then random sets of 1..12 members of length 1..40 on a 4-letter alphabet, a third of them branching late off an earlier member " +
			"(stop never, 0, 1, N/2, N-1), until the time budget ends",
		Rule: "trivial = no member (empty trie)",
		Gen:  vtGenDeep,
		Run:  vtRunDeep,
	},
}

// ---------------------------------------------------------------------------
// reference model

// vtModel is the set M, kept as a sorted slice of distinct strings.
type vtModel struct{ l []string }

func (m *vtModel) clone() *vtModel { return &vtModel{append([]string(nil), m.l...)} }

// has: x is empty or a prefix of a member. The members with prefix x are
// contiguous in sorted order and start at the first member >= x.
func (m *vtModel) has(x string) bool {
	if len(x) == 0 {
		return true
	}
	i := sort.SearchStrings(m.l, x)
	return i < len(m.l) && strings.HasPrefix(m.l[i], x)
}

func (m *vtModel) add(b string) {
	if len(b) == 0 || m.has(b) { // empty, or a prefix of (or equal to) a member
		return
	}
	keep := m.l[:0]
	for _, k := range m.l {
		if !strings.HasPrefix(b, k) { // proper prefixes of b are absorbed
			keep = append(keep, k)
		}
	}
	i := sort.SearchStrings(keep, b)
	keep = append(keep, "")
	copy(keep[i+1:], keep[i:])
	keep[i] = b
	m.l = keep
}

func (m *vtModel) del(b string) bool {
	keep := m.l[:0]
	found := false
	for _, k := range m.l {
		if strings.HasPrefix(k, b) {
			found = true
		} else {
			keep = append(keep, k)
		}
	}
	m.l = keep
	return found
}

// sorted returns the members in ascending order (read-only view).
func (m *vtModel) sorted() []string { return m.l }

func (m *vtModel) size() int { return len(m.l) }

// ---------------------------------------------------------------------------
// C15/history

type vtOp struct {
	del bool
	b   []byte
}

func (o vtOp) String() string {
	arg := fmt.Sprintf("%q", o.b)
	if len(o.b) > 32 {
		arg = fmt.Sprintf("%q...(%d bytes)", o.b[:32], len(o.b))
	}
	if o.del {
		return "Delete(" + arg + ")"
	}
	return "Add(" + arg + ")"
}

func vtDecodeOps(in map[string]any) []vtOp {
	l := vrList(in["ops"])
	ops := make([]vtOp, len(l))
	for i, e := range l {
		m := vrMap(e)
		switch s, _ := m["op"].(string); s {
		case "add":
		case "del":
			ops[i].del = true
		default:
			panic(fmt.Sprintf("harness: bad op %v", m["op"]))
		}
		ops[i].b = vrBytes(m["b"])
	}
	return ops
}

func vtEncodeOps(ops []vtOp) map[string]any {
	l := make([]any, len(ops))
	for i, o := range ops {
		name := "add"
		if o.del {
			name = "del"
		}
		l[i] = map[string]any{"op": name, "b": vrB(o.b)}
	}
	return map[string]any{"ops": l}
}

// vtCollect runs an uninterrupted ForEach and returns the (copied) items.
// The callback count is guarded so that a broken iterator cannot run away.
func vtCollect(t *Trie, limit int) (items []string, overrun bool) {
	t.ForEach(func(b []byte) bool {
		if len(items) >= limit {
			overrun = true
			return false
		}
		items = append(items, string(b)) // copy: the slice may be overwritten
		return true
	})
	return items, overrun
}

// vtObserver holds the probe words of one history.
type vtObserver struct {
	full     bool
	alphabet []byte
	words    []string // full mode: fixed probe words
}

func vtNewObserver(ops []vtOp) *vtObserver {
	var seen [256]bool
	var alpha []byte
	for _, o := range ops {
		for _, c := range o.b {
			if !seen[c] {
				seen[c] = true
				alpha = append(alpha, c)
			}
		}
	}
	sort.Slice(alpha, func(i, j int) bool { return alpha[i] < alpha[j] })
	ob := &vtObserver{alphabet: alpha}
	ob.full = len(ops) <= 8 && len(alpha) <= 3
	if ob.full {
		if len(alpha) == 0 {
			alpha = []byte{'a'}
		}
		vrWords(alpha, 4, func(w []byte) bool {
			ob.words = append(ob.words, string(w))
			return true
		})
		// Foreign bytes: two bytes that do not occur in the history.
		var foreign []byte
		for _, c := range []byte{0, 0xff, 'z', 'y', 'x'} {
			if !seen[c] && len(foreign) < 2 {
				foreign = append(foreign, c)
			}
		}
		vrWords(alpha, 2, func(w []byte) bool {
			for _, f := range foreign {
				ob.words = append(ob.words, string(w)+string([]byte{f}))
				if len(w) > 0 {
					ob.words = append(ob.words, string([]byte{f})+string(w))
				}
			}
			return true
		})
	}
	return ob
}

// observe compares Has and ForEach of t with the model. last is the operand of
// the latest op (cheap mode probes around it); salt makes the pseudo-random
// probes of the cheap mode deterministic.
func (ob *vtObserver) observe(t *Trie, m *vtModel, last []byte, salt int64) (obs, exp string) {
	want := m.sorted()
	got, overrun := vtCollect(t, 4*len(want)+64)
	sort.Strings(got)
	same := !overrun && len(got) == len(want)
	if same {
		for i := range got {
			if got[i] != want[i] {
				same = false
				break
			}
		}
	}
	if !same {
		return fmt.Sprintf("ForEach reported %q (overrun=%v)", got, overrun), fmt.Sprintf("ForEach reports exactly %q", want)
	}
	check := func(x string) bool {
		g := t.Has([]byte(x))
		if w := m.has(x); g != w {
			obs, exp = fmt.Sprintf("Has(%q) = %v with M = %q", x, g, want), fmt.Sprintf("Has(%q) = %v", x, w)
			return false
		}
		return true
	}
	if ob.full {
		for _, x := range ob.words {
			if !check(x) {
				return
			}
		}
		return
	}
	// cheap mode
	if !check("") {
		return
	}
	for i := 1; i <= len(last); i++ {
		if !check(string(last[:i])) {
			return
		}
	}
	for _, c := range ob.alphabet {
		if !check(string(last) + string([]byte{c})) {
			return
		}
	}
	if !check(string(last) + "\x00") {
		return
	}
	r := rand.New(rand.NewSource(salt))
	for k := 0; k < 6 && len(ob.alphabet) > 0; k++ {
		if !check(string(vrRandWord(r, ob.alphabet, 1+r.Intn(5)))) {
			return
		}
	}
	// a member and one of its extensions
	if len(want) > 0 {
		x := want[r.Intn(len(want))]
		if !check(x) || !check(x[:1+r.Intn(len(x))]) || !check(x+string([]byte{ob.alphabet[r.Intn(len(ob.alphabet))]})) {
			return
		}
	}
	return "", ""
}

func vtShorten(s string) string {
	if len(s) > 260 {
		return s[:120] + " ... " + s[len(s)-120:]
	}
	return s
}

// vtSigJSONDepth: encoding/json refuses documents nested deeper than 10000; a
// sequence of n bytes is n+1 nested tries = 2(n+1) nesting levels, so the JSON
// round trip returns an error as soon as a member has >= 5000 bytes.
const vtSigJSONDepth = "trie:json-max-depth-sequence-5000-or-longer"

// vtJSONErrSig classifies a JSON error from the state of the model.
func vtJSONErrSig(m *vtModel) string {
	for _, k := range m.l {
		if len(k) >= 5000 {
			return vtSigJSONDepth
		}
	}
	return "generic"
}

// vtRebuild returns the trie rebuilt from the JSON form of t.
func vtRebuild(t *Trie, intoZero bool) (*Trie, error) {
	data, err := json.Marshal(t)
	if err != nil {
		return nil, fmt.Errorf("json.Marshal: %s", vtShorten(err.Error()))
	}
	var r *Trie
	if intoZero {
		r = &Trie{}
	} else {
		r = New()
	}
	if err := json.Unmarshal(data, r); err != nil {
		if len(data) > 200 {
			data = append(data[:200:200], fmt.Sprintf("...(%d bytes)", len(data))...)
		}
		return nil, fmt.Errorf("json.Unmarshal(%s): %s", data, vtShorten(err.Error()))
	}
	return r, nil
}

// vtApply performs op on the real trie t; wantDel is the model's result for a
// Delete. Returns a non-empty description if Delete's result differs.
func vtApply(t *Trie, op vtOp, wantDel bool) (obs, exp string) {
	arg := append([]byte(nil), op.b...)
	if op.del {
		if got := t.Delete(arg); got != wantDel {
			obs, exp = fmt.Sprintf("%v returned %v", op, got), fmt.Sprintf("%v returns %v", op, wantDel)
		}
	} else {
		t.Add(arg)
	}
	// The trie must not depend on the caller's slice afterwards.
	for i := range arg {
		arg[i] ^= 0x55
	}
	return
}

// vtApplyModel performs op on the model and returns Delete's expected result.
func vtApplyModel(m *vtModel, op vtOp) bool {
	if op.del {
		return m.del(string(op.b))
	}
	m.add(string(op.b))
	return false
}

func vtTargetName(zero bool) string {
	if zero {
		return "&Trie{}"
	}
	return "New()"
}

func vtRunHistory(in map[string]any) (res vrResult) {
	ops := vtDecodeOps(in)
	for _, o := range ops {
		if o.del && len(o.b) == 0 {
			return vrResult{OK: true, Trivial: true, Observed: "history contains Delete(empty): outside the statement"}
		}
	}
	res = vrResult{OK: true, Trivial: len(ops) == 0}
	fail := func(where, obs, exp string) {
		res = vrResult{OK: false, Observed: where + ": " + obs, Expected: exp, Signature: "generic"}
	}
	where := "start"
	p := vrCatch(func() {
		ob := vtNewObserver(ops)
		// Pass 1: the plain history, no JSON (so that a failure that does not
		// need JSON is reported as such).
		t := New()
		m := &vtModel{}
		if o, e := ob.observe(t, m, nil, 1); o != "" {
			fail("New()", o, e)
			return
		}
		for k, op := range ops {
			where = fmt.Sprintf("step %d %v", k, op)
			wantDel := vtApplyModel(m, op)
			if o, e := vtApply(t, op, wantDel); o != "" {
				fail(where, o, e)
				return
			}
			if o, e := ob.observe(t, m, op.b, int64(k)*31+5); o != "" {
				fail(where, o, e)
				return
			}
		}
		// Pass 2: a fresh trie, marshalled after every step (marshalling must
		// not disturb it), with the rebuilt tries observed as well.
		t = New()
		m = &vtModel{}
		// Cheap mode: two tries that are JSON-round-tripped after every op
		// (chain[0] always into New(), chain[1] always into &Trie{}).
		var chain [2]*Trie
		if !ob.full {
			chain[0], chain[1] = New(), New()
		}
		for k, op := range ops {
			step := fmt.Sprintf("step %d %v", k, op)
			where = step
			wantDel := vtApplyModel(m, op)
			if o, e := vtApply(t, op, wantDel); o != "" {
				fail(where, o, e)
				return
			}
			if o, e := ob.observe(t, m, op.b, int64(k)*31+7); o != "" {
				fail(where, o, e)
				return
			}
			for z := 0; z < 2; z++ {
				zero := z == 1
				w2 := fmt.Sprintf("%s, then JSON round trip into %s", step, vtTargetName(zero))
				where = w2
				r, err := vtRebuild(t, zero)
				if err != nil {
					fail(w2, err.Error(), "JSON round trip succeeds")
					res.Signature = vtJSONErrSig(m)
					return
				}
				if o, e := ob.observe(r, m, op.b, int64(k)*31+11); o != "" {
					fail(w2, o, e)
					return
				}
				if ob.full {
					// The rebuilt trie receives the remaining ops.
					m2 := m.clone()
					for k2 := k + 1; k2 < len(ops); k2++ {
						where = fmt.Sprintf("%s, then step %d %v on the rebuilt trie", w2, k2, ops[k2])
						wd := vtApplyModel(m2, ops[k2])
						if o, e := vtApply(r, ops[k2], wd); o != "" {
							fail(where, o, e)
							return
						}
						// Observed at the end of the history only: the intermediate
						// states are the end states of the shorter histories.
						if k2 < len(ops)-1 {
							continue
						}
						if o, e := ob.observe(r, m2, ops[k2].b, int64(k2)*31+13); o != "" {
							fail(where, o, e)
							return
						}
					}
					continue
				}
				where = fmt.Sprintf("step %d %v on the trie that is JSON-round-tripped into %s after every op", k, op, vtTargetName(zero))
				if o, e := vtApply(chain[z], op, wantDel); o != "" {
					fail(where, o, e)
					return
				}
				c, err := vtRebuild(chain[z], zero)
				if err != nil {
					fail(where, err.Error(), "JSON round trip succeeds")
					res.Signature = vtJSONErrSig(m)
					return
				}
				chain[z] = c
				if o, e := ob.observe(c, m, op.b, int64(k)*31+17); o != "" {
					fail(where, o, e)
					return
				}
			}
			where = step
		}
		if len(ops) > 0 {
			// Marshalling did not disturb the original.
			where = "end of the history, after the last json.Marshal"
			if o, e := ob.observe(t, m, ops[len(ops)-1].b, 3); o != "" {
				fail(where, o, e)
			}
		}
	})
	if p != nil {
		return vrResult{OK: false, Observed: fmt.Sprintf("%s: panic: %v", where, p), Expected: "no panic", Signature: "generic"}
	}
	return res
}

// vtWordList returns the words of length 1..maxLen over alphabet.
func vtWordList(alphabet []byte, maxLen int) [][]byte {
	var l [][]byte
	vrWords(alphabet, maxLen, func(w []byte) bool {
		if len(w) > 0 {
			l = append(l, append([]byte(nil), w...))
		}
		return true
	})
	return l
}

// vtEnumHistories runs every history of exactly n ops (n in lens) whose
// operands come from words (firstA: only those whose first operand begins with
// 'a'). Returns false if the time budget ran out.
func vtEnumHistories(g *vrGen, words [][]byte, lens []int, firstA bool) bool {
	choices := make([]vtOp, 0, 2*len(words))
	for _, w := range words {
		choices = append(choices, vtOp{false, w}, vtOp{true, w})
	}
	for _, n := range lens {
		idx := make([]int, n)
		ops := make([]vtOp, n)
		count := 0
		for {
			for i, c := range idx {
				ops[i] = choices[c]
			}
			if !firstA || n == 0 || ops[0].b[0] == 'a' {
				g.Case(vtEncodeOps(ops))
				count++
			}
			if count%512 == 0 && g.Expired() {
				g.out.Stopped = fmt.Sprintf("time budget ended inside the exhaustive phase (histories of %d ops over %d words)", n, len(words))
				return false
			}
			// next
			i := n - 1
			for i >= 0 {
				idx[i]++
				if idx[i] < len(choices) {
					break
				}
				idx[i] = 0
				i--
			}
			if i < 0 {
				break
			}
		}
	}
	return true
}

func vtGenHistory(g *vrGen) {
	ab := []byte("ab")
	w2 := vtWordList(ab, 2) // 6 words
	w3 := vtWordList(ab, 3) // 14 words
	// Observation after every step makes the histories of exactly n ops cover
	// all their prefixes; the shorter ones are enumerated first anyway so that
	// the smallest failing history is reported.
	// Deep members first (always run): branches at depths around 16, 32 and 64, where an implementation that keeps
	// its traversal state in a growing slice reallocates.
	{
		var deep []vtOp
		long := bytes.Repeat([]byte{'a'}, 70)
		for _, d := range []int{7, 8, 15, 16, 17, 31, 32, 33, 63, 64, 65} {
			deep = append(deep, vtOp{b: append(append([]byte(nil), long[:d]...), 'b')}, vtOp{b: append(append([]byte(nil), long[:d]...), 'c', 'd')})
		}
		deep = append(deep, vtOp{b: long}, vtOp{del: true, b: append(append([]byte(nil), long[:16]...), 'b')}, vtOp{del: true, b: long[:40]})
		g.Case(vtEncodeOps(deep))
	}
	// Every byte value as an edge label (the JSON form must keep all 256 apart), alone and below / above other bytes.
	{
		var all, pairs []vtOp
		for b := 0; b < 256; b++ {
			all = append(all, vtOp{b: []byte{byte(b)}})
		}
		for b := 0; b < 256; b += 5 {
			pairs = append(pairs, vtOp{b: []byte{byte(b), byte(255 - b)}}, vtOp{b: []byte{'k', byte(b)}})
		}
		pairs = append(pairs, vtOp{del: true, b: []byte{0x80}}, vtOp{del: true, b: []byte{0xc3}}, vtOp{del: true, b: []byte{'k', 0xff}})
		g.Case(vtEncodeOps(all))
		g.Case(vtEncodeOps(pairs))
	}
	done := vtEnumHistories(g, w2, []int{0, 1, 2, 3, 4}, false)
	if done && g.Thorough() {
		done = vtEnumHistories(g, w3, []int{1, 2, 3}, false) && vtEnumHistories(g, w2, []int{5}, true)
	}
	g.Exhaustive(done)
	// Random long histories.
	// Every second history is "deep": half of the fresh operands have length
	// 8..40 and extensions may grow up to 40 bytes, so that Delete, Has, ForEach
	// and the JSON round trip work on deep paths (shorter histories: the
	// observation cost grows with the depth).
	for round := 0; !g.Expired(); round++ {
		deep := round%2 == 1
		alpha := []byte("acgt")
		if round%3 == 2 { // arbitrary byte values, including the ones JSON has to escape
			alpha = []byte{0x00, '"', 0x7f, 0x80, 0xbf, 0xc0, 0xc3, 0xff}
		}
		nops, maxLen := 200, 5
		if deep {
			nops, maxLen = 60, 40
		}
		fresh := func() []byte {
			if deep && g.Rand.Intn(2) == 0 {
				return vrRandWord(g.Rand, alpha, 8+g.Rand.Intn(33))
			}
			return vrRandWord(g.Rand, alpha, 1+g.Rand.Intn(5))
		}
		m := &vtModel{}
		ops := make([]vtOp, 0, nops)
		var pool [][]byte // operands used so far
		for len(ops) < nops {
			var b []byte
			switch r := g.Rand.Intn(10); {
			case r < 4 || len(pool) == 0:
				b = fresh()
			case r < 7: // a prefix of an earlier operand
				w := pool[g.Rand.Intn(len(pool))]
				b = append([]byte(nil), w[:1+g.Rand.Intn(len(w))]...)
			case r < 9: // an extension of an earlier operand
				w := pool[g.Rand.Intn(len(pool))]
				b = append([]byte(nil), w...)
				for len(b) < maxLen && g.Rand.Intn(2) == 0 {
					b = append(b, alpha[g.Rand.Intn(len(alpha))])
				}
				if deep && len(b) < maxLen && g.Rand.Intn(3) == 0 { // a long extension
					b = append(b, vrRandWord(g.Rand, alpha, 1+g.Rand.Intn(maxLen-len(b)))...)
				}
			default: // a current member, or a prefix of one
				if l := m.sorted(); len(l) > 0 {
					w := l[g.Rand.Intn(len(l))]
					b = []byte(w[:1+g.Rand.Intn(len(w))])
				} else {
					b = fresh()
				}
			}
			// Deletes are rarer than adds so that the set grows.
			op := vtOp{del: g.Rand.Intn(100) < 35, b: b}
			vtApplyModel(m, op)
			pool = append(pool, b)
			ops = append(ops, op)
		}
		g.Case(vtEncodeOps(ops))
	}
}

// ---------------------------------------------------------------------------
// C18/foreach-stop

func vtRunStop(in map[string]any) vrResult {
	var members [][]byte
	for _, e := range vrList(in["members"]) {
		members = append(members, vrBytes(e))
	}
	stop := vrInt(in["stop"])
	if stop < 0 {
		panic("harness: negative stop")
	}
	var res vrResult
	where := "building the trie"
	p := vrCatch(func() {
		t := New()
		for _, b := range members {
			t.Add(append([]byte(nil), b...))
		}
		// The full result: an uninterrupted run on the same trie.
		where = "uninterrupted ForEach"
		bound := 0
		for _, b := range members {
			bound += len(b) + 1
		}
		full, overrun := vtCollect(t, bound+16)
		if overrun {
			res = vrResult{OK: false, Observed: fmt.Sprintf("uninterrupted ForEach made more than %d calls", bound+16),
				Expected: "at most one call per member", Signature: "generic"}
			return
		}
		fullSet := map[string]int{}
		for _, x := range full {
			fullSet[x]++
		}
		n := len(full)
		wantCalls := stop + 1
		if wantCalls > n {
			wantCalls = n
		}
		where = fmt.Sprintf("ForEach stopped at call %d", stop)
		calls := 0
		var seen []string
		t.ForEach(func(b []byte) bool {
			calls++
			if calls > n+bound+16 {
				panic("harness: runaway ForEach")
			}
			seen = append(seen, string(b))
			return calls <= stop // false on call number stop+1
		})
		res = vrResult{OK: true, Trivial: n == 0}
		exp := fmt.Sprintf("%d call(s), distinct members of the full result %q", wantCalls, full)
		if calls != wantCalls {
			res = vrResult{OK: false, Observed: fmt.Sprintf("%d calls (items %q) with f returning false on call %d", calls, seen, stop+1),
				Expected: exp, Signature: "generic"}
			return
		}
		dup := map[string]bool{}
		for _, x := range seen {
			if fullSet[x] == 0 || dup[x] {
				res = vrResult{OK: false, Observed: fmt.Sprintf("items seen %q", seen), Expected: exp, Signature: "generic"}
				return
			}
			dup[x] = true
		}
	})
	if p != nil {
		return vrResult{OK: false, Observed: fmt.Sprintf("%s: panic: %v", where, p), Expected: "no panic", Signature: "generic"}
	}
	return res
}

func vtStopCases(g *vrGen, members [][]byte) {
	m := &vtModel{}
	enc := make([]any, len(members))
	for i, b := range members {
		m.add(string(b))
		enc[i] = vrB(b)
	}
	// N is the number of maximal members; stop positions 0..N (N = never stops).
	for stop := 0; stop <= m.size(); stop++ {
		g.Case(map[string]any{"members": enc, "stop": stop})
	}
}

func vtGenStop(g *vrGen) {
	words := vtWordList([]byte("ab"), 3) // 14 words
	maxSize := 4
	if g.Thorough() {
		maxSize = len(words)
	}
	done := true
	count := 0
	for mask := 0; mask < 1<<len(words) && done; mask++ {
		var ms [][]byte
		for i, w := range words {
			if mask&(1<<i) != 0 {
				ms = append(ms, w)
			}
		}
		if len(ms) > maxSize {
			continue
		}
		vtStopCases(g, ms)
		count++
		if count%256 == 0 && g.Expired() {
			g.out.Stopped = "time budget ended inside the exhaustive phase"
			done = false
		}
	}
	g.Exhaustive(done)
	alpha := []byte("acgt")
	for !g.Expired() {
		n := g.Rand.Intn(31)
		ms := make([][]byte, n)
		for i := range ms {
			ms[i] = vrRandWord(g.Rand, alpha, 1+g.Rand.Intn(6))
		}
		vtStopCases(g, ms)
	}
}

// ---------------------------------------------------------------------------
// C18/foreach-deep

// vtDecodeStop decodes "stop": the string "never", or the number n of calls
// answered true (f returns false on call n+1).
func vtDecodeStop(v any) (stop int, never bool) {
	if s, ok := v.(string); ok && s == "never" {
		return 0, true
	}
	stop = vrInt(v)
	if stop < 0 {
		panic("harness: negative stop")
	}
	return stop, false
}

func vtRunDeep(in map[string]any) vrResult {
	var members [][]byte
	for _, e := range vrList(in["members"]) {
		members = append(members, vrBytes(e))
	}
	stop, never := vtDecodeStop(in["stop"])
	// Expected result, from the reference set model.
	m := &vtModel{}
	bound := 0
	for _, b := range members {
		m.add(string(b))
		bound += len(b) + 1
	}
	want := m.sorted()
	wantSet := map[string]bool{}
	for _, x := range want {
		wantSet[x] = true
	}
	res := vrResult{OK: true, Trivial: len(want) == 0}
	where := "building the trie"
	p := vrCatch(func() {
		t := New()
		for _, b := range members {
			t.Add(append([]byte(nil), b...))
		}
		if never {
			where = "uninterrupted ForEach"
			got, overrun := vtCollect(t, bound+16)
			sort.Strings(got)
			same := !overrun && len(got) == len(want)
			for i := 0; same && i < len(got); i++ {
				same = got[i] == want[i]
			}
			if !same {
				res = vrResult{OK: false, Observed: fmt.Sprintf("ForEach reported %q (sorted; more than %d calls: %v)", got, bound+16, overrun),
					Expected: fmt.Sprintf("ForEach reports exactly %q, each once", want), Signature: "generic"}
			}
			return
		}
		wantCalls := stop + 1
		if wantCalls > len(want) {
			wantCalls = len(want)
		}
		where = fmt.Sprintf("ForEach with f returning false on call %d", stop+1)
		calls := 0
		var seen []string
		t.ForEach(func(b []byte) bool {
			calls++
			if calls > bound+16 {
				panic("harness: runaway ForEach")
			}
			seen = append(seen, string(b)) // copy: the slice may be overwritten
			return calls <= stop
		})
		exp := fmt.Sprintf("%d call(s), distinct members of %q", wantCalls, want)
		if calls != wantCalls {
			res = vrResult{OK: false, Observed: fmt.Sprintf("%d calls (items %q) with f returning false on call %d", calls, seen, stop+1),
				Expected: exp, Signature: "generic"}
			return
		}
		dup := map[string]bool{}
		for _, x := range seen {
			if !wantSet[x] || dup[x] {
				res = vrResult{OK: false, Observed: fmt.Sprintf("items seen %q", seen), Expected: exp, Signature: "generic"}
				return
			}
			dup[x] = true
		}
	})
	if p != nil {
		return vrResult{OK: false, Observed: fmt.Sprintf("%s: panic: %v", where, p), Expected: "no panic", Signature: "generic"}
	}
	return res
}

// vtDeepCases runs members with stop = never and the given stop positions
// (all positions 0..N-1 if stops is nil; positions >= N are skipped except 0).
func vtDeepCases(g *vrGen, members [][]byte, stops []int) {
	m := &vtModel{}
	enc := make([]any, len(members))
	for i, b := range members {
		m.add(string(b))
		enc[i] = vrB(b)
	}
	g.Case(map[string]any{"members": enc, "stop": "never"})
	n := m.size()
	if stops == nil {
		for s := 0; s < n; s++ {
			stops = append(stops, s)
		}
	}
	done := map[int]bool{}
	for _, s := range stops {
		if s < 0 || (s >= n && s != 0) || done[s] {
			continue
		}
		done[s] = true
		g.Case(map[string]any{"members": enc, "stop": s})
	}
}

func vtGenDeep(g *vrGen) {
	alpha := []byte("acgt")
	// chain(n, salt): a fixed word of length n that is not periodic with a short period.
	chain := func(n, salt int) []byte {
		b := make([]byte, n)
		for i := range b {
			b[i] = alpha[(i*i+i/3+salt)%4]
		}
		return b
	}
	// Single chains of every length.
	for l := 1; l <= 40; l++ {
		vtDeepCases(g, [][]byte{chain(l, 0)}, []int{0})
	}
	// Two members of length l sharing a prefix of length l-1.
	for l := 2; l <= 40; l++ {
		a := chain(l, 1)
		b := append([]byte(nil), a...)
		if a[l-1] == 'a' {
			b[l-1] = 'c'
		} else {
			b[l-1] = 'a'
		}
		vtDeepCases(g, [][]byte{a, b}, []int{0, 1})
		vtDeepCases(g, [][]byte{b, a}, []int{0, 1})
	}
	// Combs: a spine of length 40 with side branches leaving late.
	spine := chain(40, 2)
	other := func(c byte, k int) byte { // a letter different from c
		for i := 0; ; i++ {
			if x := alpha[(k+i)%4]; x != c {
				return x
			}
		}
	}
	branch := func(depth, tail, k int) []byte { // shares spine[:depth], then differs
		b := append([]byte(nil), spine[:depth]...)
		b = append(b, other(spine[depth], k))
		return append(b, chain(tail, k)...)
	}
	for _, depths := range [][]int{{7, 8, 9}, {15, 16, 17}, {31, 32, 33}, {7, 8, 9, 15, 16, 17, 31, 32, 33}, {8, 16, 32}, {39}, {38, 39}} {
		for _, tail := range []int{0, 1, 6} {
			ms := [][]byte{spine}
			for k, d := range depths {
				ms = append(ms, branch(d, tail, k))
				if k%2 == 1 { // a second branch at the same depth
					ms = append(ms, branch(d, tail+1, k+1))
				}
			}
			vtDeepCases(g, ms, nil)
			// the same members, spine last
			rev := append(append([][]byte(nil), ms[1:]...), spine)
			vtDeepCases(g, rev, nil)
		}
	}
	g.Exhaustive(true)
	// Random.
	for !g.Expired() {
		n := 1 + g.Rand.Intn(12)
		ms := make([][]byte, 0, n)
		for len(ms) < n {
			if len(ms) > 0 && g.Rand.Intn(3) == 0 { // branch late off an earlier member
				w := ms[g.Rand.Intn(len(ms))]
				cut := len(w) - 1 - g.Rand.Intn(4)
				if cut < 0 {
					cut = 0
				}
				b := append([]byte(nil), w[:cut]...)
				b = append(b, vrRandWord(g.Rand, alpha, 1+g.Rand.Intn(40-cut))...)
				ms = append(ms, b)
				continue
			}
			ms = append(ms, vrRandWord(g.Rand, alpha, 1+g.Rand.Intn(40)))
		}
		mm := &vtModel{}
		for _, b := range ms {
			mm.add(string(b))
		}
		k := mm.size() // N, the number of maximal members
		vtDeepCases(g, ms, []int{0, 1, k / 2, k - 1})
	}
}
