package mash

// Replay / bounded harness of package mash (see /verif/replay/README.md).
// Injected with `go test -overlay`; not part of the repository.
//
// Function -> clause map (input keys = Go parameter names):
//
//	func mash.Sequences(n, k, seqs...)     -> clause C17/sketch-oracle   {n, k, seqs [, seed]}
//	func mash.Add(mh, k, seqs...)          -> clause C17/invariances     {n, k, seqs, perm [, n1]}  (mh = minhash.New(n) or a previous sketch)
//	func mash.Distance(mh1, mh2, k)        -> clause C17/distance-laws   {n, k, seqs1, seqs2}       (mhX = Sequences(n, k, seqsX...))
//	func mash.FromJaccard(jac, k)          -> clause C17/fromjaccard     {jac, k [, jac2]}
//
// `seqs` is a JSON list of byte strings (each an array of ints). `seed`
// (optional, default 0) is assigned to the package variable mash.Seed for the
// duration of the case. `perm` seeds the deterministic choice of the
// strand/case/order/partition variants. The oracle is a brute force written
// from the statement of C17: own upper-casing, own reverse complement, own
// canonical k-mer, murmur3 64-bit hash with mash.Seed, own sort.

import (
	"fmt"
	"math"
	"math/rand"
	"sort"
	"testing"

	"github.com/fluhus/gostuff/minhash"
	"github.com/spaolacci/murmur3"
)

func TestVerif(t *testing.T) { vrMain(t, vzClauses()) }

// ---------------------------------------------------------------------------
// Oracle
// ---------------------------------------------------------------------------

const vzAlpha10 = "aAcCgGtTnN"

func vzValidSeq(s []byte) bool {
	for _, b := range s {
		switch b {
		case 'a', 'A', 'c', 'C', 'g', 'G', 't', 'T', 'n', 'N':
		default:
			return false
		}
	}
	return true
}

func vzValidSeqs(seqs [][]byte) bool {
	for _, s := range seqs {
		if !vzValidSeq(s) {
			return false
		}
	}
	return true
}

func vzUpper(b byte) byte {
	if b >= 'a' && b <= 'z' {
		return b - ('a' - 'A')
	}
	return b
}

// vzCompUpper: complement of an upper-case letter of ACGTN.
func vzCompUpper(b byte) byte {
	switch b {
	case 'A':
		return 'T'
	case 'C':
		return 'G'
	case 'G':
		return 'C'
	case 'T':
		return 'A'
	}
	return 'N'
}

// vzRevCompKeepCase is the case-preserving reverse complement (for variants).
func vzRevCompKeepCase(s []byte) []byte {
	out := make([]byte, len(s))
	for i, b := range s {
		c := vzCompUpper(vzUpper(b))
		if b >= 'a' && b <= 'z' {
			c += 'a' - 'A'
		}
		out[len(s)-1-i] = c
	}
	return out
}

func vzLess(a, b []byte) bool {
	for i := 0; i < len(a) && i < len(b); i++ {
		if a[i] != b[i] {
			return a[i] < b[i]
		}
	}
	return len(a) < len(b)
}

// vzHashSet: the set of hash values of the canonical upper-cased k-mers.
func vzHashSet(k int, seqs [][]byte) map[uint64]struct{} {
	set := map[uint64]struct{}{}
	for _, s := range seqs {
		up := make([]byte, len(s))
		for i, b := range s {
			up[i] = vzUpper(b)
		}
		for i := 0; i <= len(up)-k; i++ {
			w := up[i : i+k]
			rc := make([]byte, k)
			for j, b := range w {
				rc[k-1-j] = vzCompUpper(b)
			}
			if vzLess(rc, w) {
				w = rc
			}
			h := murmur3.New64WithSeed(Seed)
			h.Write(w)
			set[h.Sum64()] = struct{}{}
		}
	}
	return set
}

// vzBottom: the n smallest values of set, in descending order.
func vzBottom(n int, set map[uint64]struct{}) []uint64 {
	all := make([]uint64, 0, len(set))
	for v := range set {
		all = append(all, v)
	}
	sort.Slice(all, func(i, j int) bool { return all[i] < all[j] })
	if len(all) > n {
		all = all[:n]
	}
	for i, j := 0, len(all)-1; i < j; i, j = i+1, j-1 {
		all[i], all[j] = all[j], all[i]
	}
	return all
}

func vzFormula(j float64, k int) float64 {
	if j == 0 {
		return 1
	}
	d := -math.Log(2*j/(1+j)) / float64(k)
	if d > 1 {
		d = 1
	}
	if d == 0 {
		d = 0 // -0 -> +0 (cosmetic: the value is printed in Expected)
	}
	return d
}

// ---------------------------------------------------------------------------
// Helpers
// ---------------------------------------------------------------------------

func vzFail(obs, exp string) vrResult {
	return vrResult{OK: false, Observed: obs, Expected: exp, Signature: "generic"}
}

func vzSeqs(v any) [][]byte {
	l := vrList(v)
	out := make([][]byte, len(l))
	for i, e := range l {
		out[i] = vrBytes(e)
	}
	return out
}

func vzEncSeqs(seqs [][]byte) []any {
	out := make([]any, len(seqs))
	for i, s := range seqs {
		out[i] = vrB(s)
	}
	return out
}

func vzClone(seqs [][]byte) [][]byte {
	out := make([][]byte, len(seqs))
	for i, s := range seqs {
		out[i] = append([]byte(nil), s...)
	}
	return out
}

func vzSameSeqs(a, b [][]byte) bool {
	if len(a) != len(b) {
		return false
	}
	for i := range a {
		if string(a[i]) != string(b[i]) {
			return false
		}
	}
	return true
}

func vzEq(a, b []uint64) bool {
	if len(a) != len(b) {
		return false
	}
	for i := range a {
		if a[i] != b[i] {
			return false
		}
	}
	return true
}

func vzShow(v []uint64) string {
	if len(v) > 12 {
		return fmt.Sprintf("%d values %v...%v", len(v), v[:6], v[len(v)-4:])
	}
	return fmt.Sprintf("%d values %v", len(v), v)
}

// vzSketch calls Sequences on a private copy and returns a copy of View().
func vzSketch(n, k int, seqs [][]byte) (mh *minhash.MinHash[uint64], view []uint64, pan any) {
	pan = vrCatch(func() {
		mh = Sequences(n, k, vzClone(seqs)...)
		view = append([]uint64(nil), mh.View()...)
	})
	return
}

func vzOutside(why string) vrResult {
	return vrResult{OK: true, Trivial: true, Observed: why + ": outside the statement"}
}

func vzWithSeed(in map[string]any) func() {
	old := Seed
	if v, ok := in["seed"]; ok {
		Seed = uint32(vrInt(v))
	}
	return func() { Seed = old }
}

// ---------------------------------------------------------------------------
// C17/sketch-oracle
// ---------------------------------------------------------------------------

func vzRunSketch(in map[string]any) vrResult {
	n, k, seqs := vrInt(in["n"]), vrInt(in["k"]), vzSeqs(in["seqs"])
	if n < 1 || k < 1 {
		return vzOutside("n < 1 or k < 1")
	}
	if !vzValidSeqs(seqs) {
		return vzOutside("a sequence is not over aAcCgGtTnN")
	}
	defer vzWithSeed(in)()
	set := vzHashSet(k, seqs)
	want := vzBottom(n, set)
	exp := vzShow(want) + fmt.Sprintf(" (the %d smallest of %d distinct canonical k-mer hashes, descending)", n, len(set))
	work := vzClone(seqs)
	var got []uint64
	pan := vrCatch(func() { got = append([]uint64(nil), Sequences(n, k, work...).View()...) })
	if pan != nil {
		return vzFail(fmt.Sprintf("panic: %v", pan), exp)
	}
	if !vzEq(got, want) {
		return vzFail(vzShow(got), exp)
	}
	if !vzSameSeqs(work, seqs) {
		return vzFail("the input sequences were modified", "inputs untouched")
	}
	return vrResult{OK: true, Trivial: len(set) == 0}
}

type vzShape struct {
	maxSeqs, maxLen, maxK, maxN int
}

// vzRandSeqs draws a list of sequences; mixed alphabets so that small k gives
// many repeated k-mers and large k few.
func vzRandSeqs(r *rand.Rand, sh vzShape) [][]byte {
	alphas := []string{"ACGT", "acgtACGT", "ACGT", "AC", vzAlpha10, "ACGTN"}
	ns := r.Intn(sh.maxSeqs + 1)
	seqs := make([][]byte, ns)
	for i := range seqs {
		var l int
		switch r.Intn(4) {
		case 0:
			l = r.Intn(sh.maxLen + 1)
		case 1:
			l = r.Intn(6)
		default:
			l = r.Intn(sh.maxLen/3 + 1)
		}
		seqs[i] = vrRandWord(r, []byte(alphas[r.Intn(len(alphas))]), l)
		if i > 0 && r.Intn(5) == 0 {
			// repeat (part of) an earlier sequence, possibly on the other strand
			src := seqs[r.Intn(i)]
			if len(src) > 0 {
				a := r.Intn(len(src))
				part := append([]byte(nil), src[a:a+r.Intn(len(src)-a+1)]...)
				if r.Intn(2) == 0 {
					part = vzRevCompKeepCase(part)
				}
				seqs[i] = append(seqs[i], part...)
			}
		}
	}
	return seqs
}

func vzRandNK(r *rand.Rand, sh vzShape) (n, k int) {
	switch r.Intn(3) {
	case 0:
		k = 1 + r.Intn(4)
	case 1:
		k = 1 + r.Intn(sh.maxK)
	default:
		k = 3 + r.Intn(8)
	}
	switch r.Intn(3) {
	case 0:
		n = 1 + r.Intn(4)
	default:
		n = 1 + r.Intn(sh.maxN)
	}
	return
}

func vzShapeOf(g *vrGen) vzShape {
	if g.Thorough() {
		return vzShape{maxSeqs: 6, maxLen: 300, maxK: 32, maxN: 200}
	}
	return vzShape{maxSeqs: 4, maxLen: 80, maxK: 21, maxN: 40}
}

func vzGenSketch(g *vrGen) {
	L := 4
	if g.Thorough() {
		L = 6
	}
	// exhaustive: one sequence over ACGT up to length L, k 1..3, n 1..3
	c1 := vrWords([]byte("ACGT"), L, func(w []byte) bool {
		for k := 1; k <= 3; k++ {
			for n := 1; n <= 3; n++ {
				g.Case(map[string]any{"n": n, "k": k, "seqs": vzEncSeqs([][]byte{w})})
			}
		}
		return !g.Expired()
	})
	// exhaustive: two sequences over {A,C,g,N} up to length 2 each
	c2 := vrWords([]byte("ACgN"), 2, func(a []byte) bool {
		a = append([]byte(nil), a...)
		return vrWords([]byte("ACgN"), 2, func(b []byte) bool {
			for k := 1; k <= 2; k++ {
				for n := 1; n <= 3; n++ {
					g.Case(map[string]any{"n": n, "k": k, "seqs": vzEncSeqs([][]byte{a, b})})
				}
			}
			return !g.Expired()
		})
	})
	g.Exhaustive(c1 && c2)
	g.Case(map[string]any{"n": 1, "k": 1, "seqs": []any{}})
	sh := vzShapeOf(g)
	for !g.Expired() {
		n, k := vzRandNK(g.Rand, sh)
		in := map[string]any{"n": n, "k": k, "seqs": vzEncSeqs(vzRandSeqs(g.Rand, sh))}
		if g.Rand.Intn(4) == 0 {
			in["seed"] = []int{1, 42, 0x7fffffff, 0xffffffff}[g.Rand.Intn(4)]
		}
		g.Case(in)
	}
}

// ---------------------------------------------------------------------------
// C17/invariances
// ---------------------------------------------------------------------------

func vzRunInvariances(in map[string]any) vrResult {
	n, k, seqs := vrInt(in["n"]), vrInt(in["k"]), vzSeqs(in["seqs"])
	if n < 1 || k < 1 {
		return vzOutside("n < 1 or k < 1")
	}
	if !vzValidSeqs(seqs) {
		return vzOutside("a sequence is not over aAcCgGtTnN")
	}
	defer vzWithSeed(in)()
	r := rand.New(rand.NewSource(int64(vrInt(in["perm"]))))
	_, base, pan := vzSketch(n, k, seqs)
	if pan != nil {
		return vzFail(fmt.Sprintf("Sequences panic: %v", pan), "a sketch")
	}
	exp := vzShow(base) + " (= Sequences(n, k, seqs...).View())"
	check := func(what string, view []uint64, pan any) *vrResult {
		if pan != nil {
			res := vzFail(fmt.Sprintf("%s: panic: %v", what, pan), exp)
			return &res
		}
		if !vzEq(view, base) {
			res := vzFail(fmt.Sprintf("%s: %s", what, vzShow(view)), exp)
			return &res
		}
		return nil
	}
	// (a) reverse-complement a random non-empty subset (and all)
	mask := make([]bool, len(seqs))
	for i := range mask {
		mask[i] = r.Intn(2) == 0
	}
	if len(mask) > 0 {
		mask[r.Intn(len(mask))] = true
	}
	rcSome, rcAll := vzClone(seqs), vzClone(seqs)
	for i := range seqs {
		rcAll[i] = vzRevCompKeepCase(seqs[i])
		if mask[i] {
			rcSome[i] = rcAll[i]
		}
	}
	_, v, pan := vzSketch(n, k, rcSome)
	if f := check(fmt.Sprintf("reverse-complementing the sequences with mask %v", mask), v, pan); f != nil {
		return *f
	}
	_, v, pan = vzSketch(n, k, rcAll)
	if f := check("reverse-complementing every sequence", v, pan); f != nil {
		return *f
	}
	// (b) letter case
	lower, upper, flip := vzClone(seqs), vzClone(seqs), vzClone(seqs)
	for i := range seqs {
		for j, b := range seqs[i] {
			u := vzUpper(b)
			upper[i][j] = u
			lower[i][j] = u + ('a' - 'A')
			if r.Intn(2) == 0 {
				flip[i][j] = b ^ 0x20
			}
		}
	}
	for _, c := range []struct {
		what string
		s    [][]byte
	}{{"lower-casing", lower}, {"upper-casing", upper}, {"flipping the case of random letters", flip}} {
		_, v, pan = vzSketch(n, k, c.s)
		if f := check(c.what, v, pan); f != nil {
			return *f
		}
	}
	// (c) order
	order := r.Perm(len(seqs))
	shuf := make([][]byte, len(seqs))
	for i, p := range order {
		shuf[i] = seqs[p]
	}
	_, v, pan = vzSketch(n, k, shuf)
	if f := check(fmt.Sprintf("reordering the sequences as %v", order), v, pan); f != nil {
		return *f
	}
	// (d) incremental: one Add per sequence on an empty MinHash
	pan = vrCatch(func() {
		mh := minhash.New[uint64](n)
		for _, s := range vzClone(seqs) {
			Add(mh, k, s)
		}
		if len(seqs) == 0 {
			Add(mh, k)
		}
		v = append([]uint64(nil), mh.View()...)
	})
	if f := check("one Add call per sequence on minhash.New(n)", v, pan); f != nil {
		return *f
	}
	// (e) regrouping: Sequences on the first group, Add for each further group
	var cuts []int
	pan = vrCatch(func() {
		work := vzClone(shuf)
		c := 0
		if len(work) > 0 {
			c = r.Intn(len(work) + 1)
		}
		cuts = append(cuts, c)
		mh := Sequences(n, k, work[:c]...)
		for c < len(work) {
			c2 := c + r.Intn(len(work)-c+1)
			cuts = append(cuts, c2)
			Add(mh, k, work[c:c2]...)
			c = c2
			if len(cuts) > 2*len(work)+4 { // empty groups are fine, but stay finite
				Add(mh, k, work[c:]...)
				break
			}
		}
		v = append([]uint64(nil), mh.View()...)
	})
	if f := check(fmt.Sprintf("regrouping the (reordered %v) sequences into Sequences+Add calls cut at %v", order, cuts), v, pan); f != nil {
		return *f
	}
	// (f) everything at once: other strand, other case, other order, incremental
	pan = vrCatch(func() {
		mh := minhash.New[uint64](n)
		for _, p := range order {
			s := append([]byte(nil), flip[p]...)
			if mask[p] {
				s = vzRevCompKeepCase(s)
			}
			Add(mh, k, s)
		}
		v = append([]uint64(nil), mh.View()...)
	})
	if len(seqs) > 0 {
		if f := check("strand + case + order + incremental variant", v, pan); f != nil {
			return *f
		}
	}
	// (g) a smaller sketch is the tail of the larger one
	if _, ok := in["n1"]; ok {
		n1 := vrInt(in["n1"])
		if n1 >= 1 && n1 <= n {
			_, small, pan := vzSketch(n1, k, seqs)
			tail := base
			if len(tail) > n1 {
				tail = tail[len(tail)-n1:]
			}
			e := vzShow(tail) + fmt.Sprintf(" (the last %d of the size-%d sketch)", n1, n)
			if pan != nil {
				return vzFail(fmt.Sprintf("Sequences(n1=%d) panic: %v", n1, pan), e)
			}
			if !vzEq(small, tail) {
				return vzFail(fmt.Sprintf("Sequences(n1=%d): %s", n1, vzShow(small)), e)
			}
		}
	}
	return vrResult{OK: true, Trivial: len(base) == 0}
}

func vzGenInvariances(g *vrGen) {
	L := 3
	if g.Thorough() {
		L = 5
	}
	// exhaustive: two sequences, the first over aCgTn up to length L, the second
	// a fixed partner; k 1..2, n 2..3, n1 1..n
	c1 := vrWords([]byte("aCgTN"), L, func(w []byte) bool {
		for _, other := range []string{"", "Ac", "gNt"} {
			for k := 1; k <= 2; k++ {
				for n := 2; n <= 3; n++ {
					g.Case(map[string]any{"n": n, "k": k, "seqs": vzEncSeqs([][]byte{w, []byte(other)}),
						"perm": len(w) + k + n, "n1": 1 + (len(w)+k)%n})
				}
			}
		}
		return !g.Expired()
	})
	g.Exhaustive(c1)
	sh := vzShapeOf(g)
	for !g.Expired() {
		n, k := vzRandNK(g.Rand, sh)
		in := map[string]any{"n": n, "k": k, "seqs": vzEncSeqs(vzRandSeqs(g.Rand, sh)),
			"perm": g.Rand.Intn(1 << 30), "n1": 1 + g.Rand.Intn(n)}
		if g.Rand.Intn(6) == 0 {
			in["seed"] = []int{1, 42, 0xffffffff}[g.Rand.Intn(3)]
		}
		g.Case(in)
	}
}

// ---------------------------------------------------------------------------
// C17/distance-laws
// ---------------------------------------------------------------------------

const vzTol = 1e-12

func vzRunDistance(in map[string]any) vrResult {
	n, k := vrInt(in["n"]), vrInt(in["k"])
	seqs1, seqs2 := vzSeqs(in["seqs1"]), vzSeqs(in["seqs2"])
	if n < 1 || k < 1 {
		return vzOutside("n < 1 or k < 1")
	}
	if !vzValidSeqs(seqs1) || !vzValidSeqs(seqs2) {
		return vzOutside("a sequence is not over aAcCgGtTnN")
	}
	defer vzWithSeed(in)()
	set1, set2 := vzHashSet(k, seqs1), vzHashSet(k, seqs2)
	if len(set1) < n || len(set2) < n {
		return vzOutside(fmt.Sprintf("a sketch is not full (%d and %d distinct k-mers, n=%d)", len(set1), len(set2), n))
	}
	b1, b2 := vzBottom(n, set1), vzBottom(n, set2)
	// j: shared fraction among the n smallest values of the union
	in1, in2 := map[uint64]bool{}, map[uint64]bool{}
	union := map[uint64]struct{}{}
	for _, v := range b1 {
		in1[v] = true
		union[v] = struct{}{}
	}
	for _, v := range b2 {
		in2[v] = true
		union[v] = struct{}{}
	}
	shared := 0
	for _, v := range vzBottom(n, union) {
		if in1[v] && in2[v] {
			shared++
		}
	}
	j := float64(shared) / float64(n)
	want := vzFormula(j, k)
	exp := fmt.Sprintf("%v (j = %d/%d, k = %d)", want, shared, n, k)

	mh1, v1, pan1 := vzSketch(n, k, seqs1)
	mh2, v2, pan2 := vzSketch(n, k, seqs2)
	if pan1 != nil || pan2 != nil {
		return vzFail(fmt.Sprintf("Sequences panic: %v / %v", pan1, pan2), "two sketches")
	}
	if len(v1) != n || len(v2) != n {
		return vzFail(fmt.Sprintf("sketch sizes %d and %d", len(v1), len(v2)), fmt.Sprintf("two full sketches of %d values", n))
	}
	var d12, d21, d11, d22 float64
	if p := vrCatch(func() {
		d12 = Distance(mh1, mh2, k)
		d21 = Distance(mh2, mh1, k)
		d11 = Distance(mh1, mh1, k)
		d22 = Distance(mh2, mh2, k)
	}); p != nil {
		return vzFail(fmt.Sprintf("Distance panic: %v", p), exp)
	}
	if math.IsNaN(d12) || math.Abs(d12-want) > vzTol {
		return vzFail(fmt.Sprintf("Distance(mh1, mh2, k) = %v", d12), exp)
	}
	if math.IsNaN(d21) || math.Abs(d21-d12) > vzTol {
		return vzFail(fmt.Sprintf("Distance(mh2, mh1, k) = %v but Distance(mh1, mh2, k) = %v", d21, d12), "symmetric")
	}
	if !(d12 >= 0 && d12 <= 1) || !(d21 >= 0 && d21 <= 1) {
		return vzFail(fmt.Sprintf("Distance = %v / %v", d12, d21), "in [0,1]")
	}
	if shared == 0 && d12 != 1 {
		return vzFail(fmt.Sprintf("Distance = %v with j = 0", d12), "1")
	}
	if d11 != 0 || d22 != 0 {
		return vzFail(fmt.Sprintf("Distance(mh1, mh1, k) = %v, Distance(mh2, mh2, k) = %v", d11, d22), "0")
	}
	// identical k-mer content, different presentation: other strand, other order
	alt := make([][]byte, len(seqs1))
	for i := range seqs1 {
		alt[len(seqs1)-1-i] = vzRevCompKeepCase(seqs1[i])
	}
	mh3, _, pan3 := vzSketch(n, k, alt)
	if pan3 != nil {
		return vzFail(fmt.Sprintf("Sequences on the reverse complements panic: %v", pan3), "a sketch")
	}
	var d13 float64
	if p := vrCatch(func() { d13 = Distance(mh1, mh3, k) }); p != nil {
		return vzFail(fmt.Sprintf("Distance panic: %v", p), "0")
	}
	if d13 != 0 {
		return vzFail(fmt.Sprintf("Distance(sketch(seqs1), sketch(reverse complements of seqs1 in reverse order)) = %v", d13), "0 (identical k-mer content)")
	}
	if len(set1) == len(set2) && shared == n {
		same := true
		for v := range set1 {
			if _, ok := set2[v]; !ok {
				same = false
				break
			}
		}
		if same && d12 != 0 {
			return vzFail(fmt.Sprintf("Distance = %v for identical k-mer content", d12), "0")
		}
	}
	return vrResult{OK: true}
}

func vzMutate(r *rand.Rand, s []byte, rate float64) []byte {
	out := append([]byte(nil), s...)
	for i := range out {
		if r.Float64() < rate {
			out[i] = "ACGT"[r.Intn(4)]
		}
	}
	return out
}

func vzGenDistance(g *vrGen) {
	L := 2
	if g.Thorough() {
		L = 3
	}
	// exhaustive: all pairs of single sequences over ACGT up to length L, n and k in 1..2
	c1 := vrWords([]byte("ACGT"), L, func(a []byte) bool {
		a = append([]byte(nil), a...)
		return vrWords([]byte("ACGT"), L, func(b []byte) bool {
			for k := 1; k <= 2; k++ {
				for n := 1; n <= 2; n++ {
					g.Case(map[string]any{"n": n, "k": k, "seqs1": vzEncSeqs([][]byte{a}), "seqs2": vzEncSeqs([][]byte{b})})
				}
			}
			return !g.Expired()
		})
	})
	g.Exhaustive(c1)
	maxLen, maxN := 120, 24
	if g.Thorough() {
		maxLen, maxN = 400, 100
	}
	alphas := []string{"ACGT", "acgtACGT", "ACGTN"}
	for !g.Expired() {
		r := g.Rand
		k := 1 + r.Intn(12)
		if r.Intn(3) == 0 {
			k = 2 + r.Intn(4)
		}
		l := 20 + r.Intn(maxLen)
		// number of distinct canonical k-mers is at most about min(l-k+1, 4^k/2)
		capK := l - k + 1
		if k < 8 {
			capK = min(capK, (1<<(2*uint(k)))/2)
		}
		n := 1 + r.Intn(max(1, min(maxN, capK*2/3)))
		a := vrRandWord(r, []byte(alphas[r.Intn(len(alphas))]), l)
		var s1, s2 [][]byte
		s1 = [][]byte{a}
		if r.Intn(3) == 0 && len(a) > 2*k {
			c := k + r.Intn(len(a)-2*k+1)
			s1 = [][]byte{a[:c], a[c:]}
		}
		switch r.Intn(6) {
		case 0: // unrelated
			s2 = [][]byte{vrRandWord(r, []byte("ACGT"), l)}
		case 1: // same content, other presentation
			s2 = [][]byte{vzRevCompKeepCase(a)}
		case 2: // shares a part
			c := r.Intn(len(a))
			s2 = [][]byte{vrRandWord(r, []byte("ACGT"), l/2), a[c:]}
		case 3: // superset
			s2 = [][]byte{a, vrRandWord(r, []byte("acgt"), l/2)}
		default: // point mutations
			s2 = [][]byte{vzMutate(r, a, []float64{0.01, 0.03, 0.1, 0.3}[r.Intn(4)])}
		}
		if r.Intn(2) == 0 {
			s1, s2 = s2, s1
		}
		g.Case(map[string]any{"n": n, "k": k, "seqs1": vzEncSeqs(s1), "seqs2": vzEncSeqs(s2)})
	}
}

// ---------------------------------------------------------------------------
// C17/fromjaccard
// ---------------------------------------------------------------------------

func vzRunFromJaccard(in map[string]any) vrResult {
	jac, k := vrFloat(in["jac"]), vrInt(in["k"])
	if math.IsNaN(jac) || jac < 0 || jac > 1 || k < 1 {
		return vzOutside("jac outside [0,1] or k < 1")
	}
	call := func(j float64) (d float64, pan any) {
		pan = vrCatch(func() { d = FromJaccard(j, k) })
		return
	}
	want := vzFormula(jac, k)
	d, pan := call(jac)
	if pan != nil {
		return vzFail(fmt.Sprintf("panic: %v", pan), fmt.Sprint(want))
	}
	if math.IsNaN(d) || math.Abs(d-want) > vzTol {
		return vzFail(fmt.Sprintf("FromJaccard(%v, %d) = %v", jac, k, d), fmt.Sprintf("%v = min(1, -ln(2j/(1+j))/k), 1 at j = 0", want))
	}
	if !(d >= 0 && d <= 1) {
		return vzFail(fmt.Sprintf("FromJaccard(%v, %d) = %v", jac, k, d), "in [0,1]")
	}
	if jac == 1 && d != 0 {
		return vzFail(fmt.Sprintf("FromJaccard(1, %d) = %v", k, d), "0")
	}
	if jac == 0 && d != 1 {
		return vzFail(fmt.Sprintf("FromJaccard(0, %d) = %v", k, d), "1")
	}
	// non-increasing in jac: compare with derived neighbours and the optional jac2
	others := []float64{0, 1, math.Nextafter(jac, 2), math.Nextafter(jac, -1), jac / 2, (jac + 1) / 2, jac * 0.999, jac + 1e-9, jac - 1e-9, jac * jac, math.Sqrt(jac)}
	if v, ok := in["jac2"]; ok {
		others = append(others, vrFloat(v))
	}
	for _, o := range others {
		if math.IsNaN(o) || o < 0 || o > 1 || o == jac {
			continue
		}
		do, pan := call(o)
		if pan != nil {
			return vzFail(fmt.Sprintf("FromJaccard(%v, %d) panic: %v", o, k, pan), "a value")
		}
		lo, hi, dlo, dhi := jac, o, d, do
		if o < jac {
			lo, hi, dlo, dhi = o, jac, do, d
		}
		// tolerance: the floating-point evaluation of 2j/(1+j) may wobble by an ulp
		if math.IsNaN(dhi) || dhi > dlo+vzTol {
			return vzFail(fmt.Sprintf("FromJaccard(%v, %d) = %v > FromJaccard(%v, %d) = %v", hi, k, dhi, lo, k, dlo), "non-increasing in jac")
		}
	}
	return vrResult{OK: true}
}

func vzGenFromJaccard(g *vrGen) {
	steps := 1000
	ks := []int{1, 2, 3, 4, 5, 7, 11, 16, 21, 31, 32, 64, 1000, 1 << 31}
	if g.Thorough() {
		steps = 10000
	}
	// a grid over a real interval is a sample, not an exhaustive bound: g.Exhaustive stays false
grid:
	for _, k := range ks {
		for i := 0; i <= steps; i++ {
			g.Case(map[string]any{"jac": vrF(float64(i) / float64(steps)), "k": k})
			if g.Expired() {
				break grid
			}
		}
	}
	// edges of the clamp: -ln(2j/(1+j))/k = 1  <=>  j = 1/(2e^k - 1)
	for k := 1; k <= 40; k++ {
		j := 1 / (2*math.Exp(float64(k)) - 1)
		for _, jj := range []float64{j, math.Nextafter(j, 0), math.Nextafter(j, 1), j * 0.99, j * 1.01} {
			g.Case(map[string]any{"jac": vrF(jj), "k": k})
		}
	}
	for _, j := range []float64{math.SmallestNonzeroFloat64, 1e-300, 1e-100, 1e-17, 1e-16, math.Nextafter(1, 0), 0.5, 1.0 / 3} {
		for _, k := range ks {
			g.Case(map[string]any{"jac": vrF(j), "k": k})
		}
	}
	for !g.Expired() {
		r := g.Rand
		var j1 float64
		switch r.Intn(4) {
		case 0:
			j1 = math.Pow(10, -r.Float64()*20)
		case 1:
			j1 = 1 - math.Pow(10, -r.Float64()*16)
		case 2:
			j1 = float64(r.Intn(1001)) / 1000 // sketch-like fractions
		default:
			j1 = r.Float64()
		}
		j2 := j1 + (1-j1)*r.Float64()
		if r.Intn(3) == 0 {
			j2 = math.Nextafter(j1, 2)
		}
		if j1 < 0 || j1 > 1 {
			continue
		}
		k := 1 + r.Intn(32)
		if r.Intn(8) == 0 {
			k = 1 + r.Intn(100000)
		}
		g.Case(map[string]any{"jac": vrF(j1), "jac2": vrF(j2), "k": k})
	}
}

// ---------------------------------------------------------------------------

func vzClauses() []vrClause {
	return []vrClause{
		{Prop: "C17", Name: "sketch-oracle",
			Bound: "exhaustive: one sequence over ACGT of length 0..4 (thorough 0..6) x k 1..3 x n 1..3, and all pairs of sequences over {A,C,g,N} of length 0..2 x k 1..2 x n 1..3; then random lists of 0..4 (6) sequences over 6 alphabets incl. n/N and mixed case, length <= 80 (300), with repeated / reverse-complemented parts, k <= 21 (32), n <= 40 (200), 1 in 4 with a non-zero mash.Seed",
			Rule:  "trivial: no k-mer at all (every sequence shorter than k), or n < 1 / k < 1 / bytes outside aAcCgGtTnN",
			Gen:   vzGenSketch, Run: vzRunSketch},
		{Prop: "C17", Name: "invariances",
			Bound: "exhaustive: first sequence over {a,C,g,T,N} of length 0..3 (thorough 0..5) x 3 partner sequences x k 1..2 x n 2..3 (one perm and n1 per case); then random lists as in sketch-oracle with a random variant seed `perm` and random n1 <= n. Variants per case: reverse complement of a random subset / of all, lower / upper / random case, random order, one Add per sequence, regrouping into Sequences+Add calls, all combined, and the size-n1 sketch vs the tail of the size-n sketch",
			Rule:  "trivial: the sketch is empty, or n < 1 / k < 1 / bytes outside aAcCgGtTnN",
			Gen:   vzGenInvariances, Run: vzRunInvariances},
		{Prop: "C17", Name: "distance-laws",
			Bound: "exhaustive: all pairs of single sequences over ACGT of length 0..2 (thorough 0..3) x k 1..2 x n 1..2; then random pairs (length 20..140 / 20..420, k 1..12, n <= 24 / 100): unrelated, same content on the other strand, sharing a part, superset, point mutations at 1..30 %; only pairs of FULL sketches are evaluated",
			Rule:  "trivial: one of the two sketches is not full (fewer than n distinct canonical k-mers), or n < 1 / k < 1 / bytes outside aAcCgGtTnN",
			Gen:   vzGenDistance, Run: vzRunDistance},
		{Prop: "C17", Name: "fromjaccard",
			Bound: "not exhaustive (real-valued domain); grid: jac = i/1000 (thorough i/10000), i = 0..steps, x 14 values of k (1..64, 1000, 2^31), each compared with 0, 1, both neighbouring floats and 7 other derived points for monotonicity; plus the clamp edge j = 1/(2e^k-1) for k 1..40, tiny / near-1 values, then random pairs jac < jac2 (incl. adjacent floats) x k <= 32 (sometimes <= 100000)",
			Rule:  "trivial: jac outside [0,1] (or NaN) or k < 1",
			Gen:   vzGenFromJaccard, Run: vzRunFromJaccard},
	}
}
