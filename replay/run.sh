#!/bin/bash
# Development helper: run the harness of one package against /repo through an overlay.
# usage: VERIF_MODE=bounded VERIF_PROP=C12 VERIF_OUT=/path/out.json replay/run.sh sequtil [go test args]
set -euo pipefail
pkg="$1"; shift
here="$(cd "$(dirname "$0")" && pwd)"
repo="${VERIF_REPO:-/repo}"
scratch="$(mktemp -d "${HOME}/.cache/verif-ov.XXXXXX")"
trap 'rm -rf "$scratch"' EXIT
name="$(sed -n 's/^package \([A-Za-z0-9_]*\).*/\1/p' "$here/$pkg/zz_verif_test.go" | head -1)"
sed "s/PKG/$name/g" "$here/common/common_test.go.tmpl" > "$scratch/common_test.go"
cat > "$scratch/ov.json" <<J
{"Replace": {"$repo/$pkg/zz_verif_test.go": "$here/$pkg/zz_verif_test.go",
             "$repo/$pkg/zz_verif_common_test.go": "$scratch/common_test.go"}}
J
cd "$repo/$pkg"
export GOFLAGS=-mod=readonly GOPROXY=off GOSUMDB=off GOTOOLCHAIN=local
exec_args=(-overlay "$scratch/ov.json" -vet=off -count=1 -timeout "${VERIF_TIMEOUT:-120s}" -run '^TestVerif$')
go test "${exec_args[@]}" "$@" .
