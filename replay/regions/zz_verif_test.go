package regions

// Replay / bounded harness of package regions (see /verif/replay/README.md).
// Injected through `go test -overlay`; not part of the repository.
//
// Mapping (functions -> clauses):
//   func NewIndex(starts, ends []int) + func (*Index).At(i int)
//        -> clause C16/at-oracle       input {"starts":[...], "ends":[...], "i": n}
//   func (*Index).At (returned slices are private, index is read-only, concurrent readers)
//        -> clause C16/readonly        input {"starts":[...], "ends":[...], "queries":[...]}
//   func NewIndex (length check)
//        -> clause C16/newindex-panic  input {"starts":[...], "ends":[...]}
//
// Integers beyond +-2^53 are encoded as decimal strings (vrInt parses them), so
// that math.MinInt64 / math.MaxInt64 survive the JSON normalisation.
//
// Oracle of at-oracle (from the statement, independent of the code): brute-force
// scan, x ascending, x reported iff starts[x] <= i && i < ends[x]. nil vs empty
// result is not a difference.

import (
	"fmt"
	"math"
	"strconv"
	"sync"
	"testing"
)

func TestVerif(t *testing.T) { vrMain(t, vgClauses) }

const vgSigInverted = "regions:empty-or-inverted-interval"

var vgClauses = []vrClause{
	{
		Prop: "C16", Name: "at-oracle",
		Bound: "lists of intervals are ordered, with duplicates, start==end and start>end included. " +
			"quick: every list of <= 2 intervals with start and end in 0..4, every query position i in -1..6, and every list of <= 3 intervals with start and end in 0..3, every i in -1..5 (plus the nil/nil lists); " +
			"thorough: additionally every list of exactly 3 intervals over 0..4 (15625 lists), every i in -1..6, and every list of exactly 4 intervals over 0..3 (65536 lists), every i in -1..5; " +
			"then random lists of 0..12 intervals with small, negative and extreme coordinates (math.MinInt64, math.MaxInt64 and neighbours), " +
			"queried at every coordinate, its predecessor and successor (when representable), i.e. including min-1 and max+1, until the time budget ends",
		Rule: "trivial = no interval at all; signature " + vgSigInverted + " iff some starts[x] >= ends[x] and the failure disappears when those intervals are dropped, else generic",
		Gen:  vgGenAt,
		Run:  vgRunAt,
	},
	{
		Prop: "C16", Name: "readonly",
		Bound: "every list of <= 2 intervals with start and end in 0..3, queries -1..5; then random lists of up to 10 intervals (small, negative, extreme coordinates) with up to 12 queries, until the time budget ends. " +
			"Per case: the first answers are the baseline; returned slices are overwritten, appended to and re-sliced and At is re-queried; the caller's starts/ends are overwritten after NewIndex and At is re-queried; " +
			"4 goroutines query (and scribble over their results) concurrently 20 rounds each and every answer is compared with the baseline. " +
			"The race detector is NOT available through this interface: concurrent readers are only compared by value",
		Rule: "trivial = every baseline answer is empty (nothing to mutate); compares the index with itself, so the empty/inverted-interval defect does not show here",
		Gen:  vgGenReadonly,
		Run:  vgRunReadonly,
	},
	{
		Prop: "C16", Name: "newindex-panic",
		Bound: "every pair of lists of length 0..3 over the coordinates {0,1,2} (1600 pairs) plus nil/empty combinations; then random pairs of lengths 0..40 with arbitrary (also extreme) coordinates until the time budget ends",
		Rule:  "NewIndex panics iff len(starts) != len(ends); trivial = both lists empty",
		Gen:   vgGenPanic,
		Run:   vgRunPanic,
	},
}

// ---------------------------------------------------------------------------
// encoding

func vgEncInt(v int) any {
	if v > 1<<53 || v < -(1<<53) {
		return strconv.Itoa(v)
	}
	return v
}

func vgEncInts(a []int) any {
	if a == nil {
		return nil
	}
	r := make([]any, len(a))
	for i, v := range a {
		r[i] = vgEncInt(v)
	}
	return r
}

func vgEqual(a, b []int) bool {
	if len(a) != len(b) {
		return false
	}
	for i := range a {
		if a[i] != b[i] {
			return false
		}
	}
	return true
}

func vgCopy(a []int) []int {
	if a == nil {
		return nil
	}
	return append([]int{}, a...)
}

// ---------------------------------------------------------------------------
// C16/at-oracle

func vgOracle(starts, ends []int, i int) []int {
	var r []int
	for x := range starts {
		if starts[x] <= i && i < ends[x] {
			r = append(r, x)
		}
	}
	return r
}

// vgAt builds the index and queries it; a panic is returned as a string.
func vgAt(starts, ends []int, i int) (got []int, pan string) {
	if p := vrCatch(func() { got = NewIndex(vgCopy(starts), vgCopy(ends)).At(i) }); p != nil {
		return nil, fmt.Sprint(p)
	}
	return got, ""
}

func vgRunAt(in map[string]any) vrResult {
	starts, ends, i := vrInts(in["starts"]), vrInts(in["ends"]), vrInt(in["i"])
	if len(starts) != len(ends) {
		return vrResult{OK: true, Trivial: true, Observed: "lists of different lengths: outside this clause (see newindex-panic)"}
	}
	want := vgOracle(starts, ends, i)
	got, pan := vgAt(starts, ends, i)
	if pan == "" && vgEqual(got, want) {
		return vrResult{OK: true, Trivial: len(starts) == 0}
	}
	res := vrResult{OK: false, Expected: fmt.Sprintf("At(%d) = %v", i, want), Signature: "generic"}
	if pan != "" {
		res.Observed = "panic: " + pan
	} else {
		res.Observed = fmt.Sprintf("At(%d) = %v", i, got)
	}
	// Classification: does the failure need an empty or inverted interval?
	var s2, e2, orig []int
	for x := range starts {
		if starts[x] < ends[x] {
			s2, e2, orig = append(s2, starts[x]), append(e2, ends[x]), append(orig, x)
		}
	}
	if len(s2) < len(starts) {
		want2 := vgOracle(s2, e2, i)
		got2, pan2 := vgAt(s2, e2, i)
		if pan2 == "" && vgEqual(got2, want2) {
			res.Signature = vgSigInverted
		}
	}
	return res
}

func vgAtCase(g *vrGen, starts, ends []int, i int) {
	g.Case(map[string]any{"starts": vgEncInts(starts), "ends": vgEncInts(ends), "i": vgEncInt(i)})
}

// vgEnumLists calls f with every list of exactly n intervals over coordinates 0..c-1.
func vgEnumLists(n, c int, f func(starts, ends []int) bool) bool {
	starts, ends := make([]int, n), make([]int, n)
	idx := make([]int, n)
	for {
		for k, v := range idx {
			starts[k], ends[k] = v/c, v%c
		}
		if !f(starts, ends) {
			return false
		}
		k := n - 1
		for k >= 0 {
			idx[k]++
			if idx[k] < c*c {
				break
			}
			idx[k] = 0
			k--
		}
		if k < 0 {
			return true
		}
	}
}

var vgExtremes = []int{math.MinInt64, math.MinInt64 + 1, math.MinInt64 + 2, math.MaxInt64 - 2, math.MaxInt64 - 1, math.MaxInt64,
	0, -1, 1, math.MinInt32, math.MaxInt32, -(1 << 53) - 1, 1<<53 + 1}

func vgRandCoord(g *vrGen, style int) int {
	switch style {
	case 0: // small
		return g.Rand.Intn(9) - 4
	case 1: // extremes
		return vgExtremes[g.Rand.Intn(len(vgExtremes))]
	case 2: // anything
		return int(g.Rand.Uint64())
	default: // mixture
		return vgRandCoord(g, g.Rand.Intn(3))
	}
}

func vgRandLists(g *vrGen, maxN int) (starts, ends []int) {
	n := g.Rand.Intn(maxN + 1)
	style := g.Rand.Intn(4)
	starts, ends = make([]int, n), make([]int, n)
	for k := range starts {
		a, b := vgRandCoord(g, style), vgRandCoord(g, style)
		switch r := g.Rand.Intn(10); {
		case r < 7: // well-formed (or empty when a == b)
			if a > b {
				a, b = b, a
			}
		case r < 8 && k > 0: // duplicate of an earlier interval
			j := g.Rand.Intn(k)
			a, b = starts[j], ends[j]
		}
		starts[k], ends[k] = a, b
	}
	return
}

func vgGenAt(g *vrGen) {
	g.Case(map[string]any{"starts": nil, "ends": nil, "i": 0})
	g.Case(map[string]any{"starts": []any{}, "ends": nil, "i": -1})
	done := true
	count := 0
	// enum: every list of exactly n intervals over coordinates 0..c-1, every i in -1..c+1.
	enum := func(n, c int) {
		if !done {
			return
		}
		done = vgEnumLists(n, c, func(starts, ends []int) bool {
			for i := -1; i <= c+1; i++ {
				vgAtCase(g, starts, ends, i)
			}
			count++
			if count%128 == 0 && g.Expired() {
				g.out.Stopped = fmt.Sprintf("time budget ended inside the exhaustive phase (%d intervals over 0..%d)", n, c-1)
				return false
			}
			return true
		})
	}
	for n := 0; n <= 2; n++ {
		enum(n, 5) // 651 lists x 8 positions
	}
	for n := 0; n <= 3; n++ {
		enum(n, 4) // 4369 lists x 7 positions
	}
	if g.Thorough() {
		enum(3, 5) // 15625 lists x 8 positions
		enum(4, 4) // 65536 lists x 7 positions
	}
	g.Exhaustive(done)
	for !g.Expired() {
		starts, ends := vgRandLists(g, 12)
		qs := map[int]struct{}{0: {}}
		for _, l := range [][]int{starts, ends} {
			for _, c := range l {
				qs[c] = struct{}{}
				if c > math.MinInt64 {
					qs[c-1] = struct{}{}
				}
				if c < math.MaxInt64 {
					qs[c+1] = struct{}{}
				}
			}
		}
		for _, q := range vgSortedKeys(qs) {
			vgAtCase(g, starts, ends, q)
		}
	}
}

func vgSortedKeys(m map[int]struct{}) []int {
	r := make([]int, 0, len(m))
	for k := range m {
		r = append(r, k)
	}
	// insertion sort: small, and keeps the harness free of the package's own helpers
	for i := 1; i < len(r); i++ {
		for j := i; j > 0 && r[j] < r[j-1]; j-- {
			r[j], r[j-1] = r[j-1], r[j]
		}
	}
	return r
}

// ---------------------------------------------------------------------------
// C16/readonly

func vgRunReadonly(in map[string]any) vrResult {
	starts, ends, queries := vrInts(in["starts"]), vrInts(in["ends"]), vrInts(in["queries"])
	if len(starts) != len(ends) {
		return vrResult{OK: true, Trivial: true, Observed: "lists of different lengths: outside this clause"}
	}
	res := vrResult{OK: true}
	where := "NewIndex"
	p := vrCatch(func() {
		s, e := vgCopy(starts), vgCopy(ends)
		idx := NewIndex(s, e)
		where = "first queries"
		base := make([][]int, len(queries))
		nonEmpty := false
		for k, q := range queries {
			base[k] = vgCopy(idx.At(q))
			nonEmpty = nonEmpty || len(base[k]) > 0
		}
		res.Trivial = !nonEmpty
		recheck := func(stage string) bool {
			for k, q := range queries {
				if got := idx.At(q); !vgEqual(got, base[k]) {
					res = vrResult{OK: false, Signature: "generic",
						Observed: fmt.Sprintf("after %s: At(%d) = %v", stage, q, got),
						Expected: fmt.Sprintf("At(%d) = %v as in the first query", q, base[k])}
					return false
				}
			}
			return true
		}
		scribble := func(r []int, salt int) {
			for j := range r {
				r[j] = -777 - salt - j
			}
			r = append(r, 4242+salt)               // append beyond the length
			r = append(r[:0], 31337, 31338, 31339) // overwrite from the front, within or beyond the capacity
			if cap(r) > len(r) {
				r = r[:cap(r)]
				for j := range r {
					r[j] = -999 - salt
				}
			}
		}
		// 1. mutate returned slices
		where = "mutating returned slices"
		for k, q := range queries {
			r1 := idx.At(q)
			r2 := idx.At(q)
			scribble(r1, k)
			if !vgEqual(r2, base[k]) {
				res = vrResult{OK: false, Signature: "generic",
					Observed: fmt.Sprintf("two results of At(%d) share memory: after overwriting the first, the second is %v", q, r2),
					Expected: fmt.Sprintf("%v (private copies)", base[k])}
				return
			}
			scribble(r2, k+1)
		}
		if !recheck("overwriting/appending to the slices returned by At") {
			return
		}
		// 2. mutate the caller's lists
		where = "mutating the caller's starts/ends"
		for j := range s {
			s[j], e[j] = e[j]+1000, s[j]-1000
		}
		if !recheck("overwriting the starts/ends passed to NewIndex") {
			return
		}
		for j := range s {
			s[j], e[j] = 0, 0
		}
		if !recheck("zeroing the starts/ends passed to NewIndex") {
			return
		}
		// 3. concurrent readers (compared by value; no race detector here)
		where = "concurrent readers"
		const workers, rounds = 4, 20
		var wg sync.WaitGroup
		errs := make([]string, workers)
		for w := 0; w < workers; w++ {
			wg.Add(1)
			go func(w int) {
				defer wg.Done()
				defer func() {
					if r := recover(); r != nil {
						errs[w] = fmt.Sprintf("panic in a concurrent reader: %v", r)
					}
				}()
				for round := 0; round < rounds; round++ {
					for k0 := range queries {
						k := (k0 + w*3) % len(queries)
						got := idx.At(queries[k])
						if !vgEqual(got, base[k]) {
							if errs[w] == "" {
								errs[w] = fmt.Sprintf("concurrent At(%d) = %v, first query gave %v", queries[k], got, base[k])
							}
							return
						}
						scribble(got, w)
					}
				}
			}(w)
		}
		wg.Wait()
		for _, msg := range errs {
			if msg != "" {
				res = vrResult{OK: false, Signature: "generic", Observed: msg, Expected: "the same answers as the first queries"}
				return
			}
		}
		recheck("concurrent readers")
	})
	if p != nil {
		return vrResult{OK: false, Signature: "generic", Observed: fmt.Sprintf("%s: panic: %v", where, p), Expected: "no panic"}
	}
	return res
}

func vgGenReadonly(g *vrGen) {
	small := []int{-1, 0, 1, 2, 3, 4, 5}
	done := true
	for n := 0; n <= 2 && done; n++ {
		done = vgEnumLists(n, 4, func(starts, ends []int) bool {
			g.Case(map[string]any{"starts": vgEncInts(starts), "ends": vgEncInts(ends), "queries": vgEncInts(small)})
			if g.Expired() {
				g.out.Stopped = "time budget ended inside the exhaustive phase"
				return false
			}
			return true
		})
	}
	g.Exhaustive(done)
	for !g.Expired() {
		starts, ends := vgRandLists(g, 10)
		var pool []int
		for _, l := range [][]int{starts, ends} {
			for _, c := range l {
				pool = append(pool, c)
				if c > math.MinInt64 {
					pool = append(pool, c-1)
				}
				if c < math.MaxInt64 {
					pool = append(pool, c+1)
				}
			}
		}
		pool = append(pool, 0, math.MinInt64, math.MaxInt64)
		nq := 1 + g.Rand.Intn(12)
		qs := make([]int, nq)
		for k := range qs {
			qs[k] = pool[g.Rand.Intn(len(pool))]
		}
		g.Case(map[string]any{"starts": vgEncInts(starts), "ends": vgEncInts(ends), "queries": vgEncInts(qs)})
	}
}

// ---------------------------------------------------------------------------
// C16/newindex-panic

func vgRunPanic(in map[string]any) vrResult {
	starts, ends := vrInts(in["starts"]), vrInts(in["ends"])
	p := vrCatch(func() { NewIndex(vgCopy(starts), vgCopy(ends)) })
	wantPanic := len(starts) != len(ends)
	if (p != nil) == wantPanic {
		return vrResult{OK: true, Trivial: len(starts) == 0 && len(ends) == 0}
	}
	res := vrResult{OK: false, Signature: "generic"}
	if wantPanic {
		res.Observed = fmt.Sprintf("NewIndex with %d starts and %d ends returned normally", len(starts), len(ends))
		res.Expected = "panic (lists of different lengths)"
	} else {
		res.Observed = fmt.Sprintf("NewIndex with %d starts and %d ends panicked: %v", len(starts), len(ends), p)
		res.Expected = "no panic (lists of equal length)"
	}
	return res
}

func vgGenPanic(g *vrGen) {
	for _, pr := range [][2]any{{nil, nil}, {nil, []any{}}, {[]any{}, nil}, {[]any{}, []any{}}, {nil, []any{0}}, {[]any{0}, nil}} {
		g.Case(map[string]any{"starts": pr[0], "ends": pr[1]})
	}
	var lists [][]int
	vgEnumSeqs(3, 3, func(l []int) { lists = append(lists, append([]int{}, l...)) })
	done := true
	for _, a := range lists {
		for _, b := range lists {
			g.Case(map[string]any{"starts": vgEncInts(a), "ends": vgEncInts(b)})
		}
		if g.Expired() {
			g.out.Stopped = "time budget ended inside the exhaustive phase"
			done = false
			break
		}
	}
	g.Exhaustive(done)
	for !g.Expired() {
		la := g.Rand.Intn(41)
		lb := la
		if g.Rand.Intn(3) > 0 {
			lb = g.Rand.Intn(41)
		}
		a, b := make([]int, la), make([]int, lb)
		style := g.Rand.Intn(4)
		for k := range a {
			a[k] = vgRandCoord(g, style)
		}
		for k := range b {
			b[k] = vgRandCoord(g, style)
		}
		g.Case(map[string]any{"starts": vgEncInts(a), "ends": vgEncInts(b)})
	}
}

// vgEnumSeqs calls f with every sequence of length 0..maxLen over 0..c-1.
func vgEnumSeqs(maxLen, c int, f func([]int)) {
	var rec func(l []int, n int)
	rec = func(l []int, n int) {
		if len(l) == n {
			f(l)
			return
		}
		for v := 0; v < c; v++ {
			rec(append(l, v), n)
		}
	}
	for n := 0; n <= maxLen; n++ {
		rec(make([]int, 0, n), n)
	}
}
