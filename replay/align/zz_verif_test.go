package align

// Replay / bounded harness of package align (see /verif/replay/README.md).
// Injected through `go test -overlay`; not part of the repository.
//
// Clause table (input keys are the Go parameter names):
//
//	func align.Global(a, b, m)              -> C08/global-valid, C09/global-optimal, C10/global-optimal-affine   input {a, b, m}
//	func align.Local(a, b, m)               -> C08/local-valid,  C09/local-optimal,  C10/local-optimal-affine    input {a, b, m}
//	vars PAM*/BLOSUM*/Levenshtein + Global/Local -> C09/shipped-tables                                           input {name, a, b}
//	func (m SubstitutionMatrix) Symmetrical -> C20/symmetrical                                                   input {m}
//	func (m SubstitutionMatrix) GoString    -> C20/gostring                                                      input {m}
//
// a, b: byte strings (JSON arrays of ints 0..254; byte 255 is the gap symbol and is excluded
// by the property statements: an input containing it is "precondition not met" = OK/trivial).
//
// Matrix encoding (`m`), one of
//
//	{"pairs":[[x,y,score],...]}      x,y byte values 0..255; 255 = Gap; [255,255,s] = gap-open.
//	                                 (x,255) is the score of aligning x of `a` with a gap (Deletion),
//	                                 (255,y) of aligning y of `b` with a gap (Insertion).
//	                                 A key may occur only once.
//	{"shipped":"PAM120"|"PAM160"|"PAM250"|"BLOSUM45"|"BLOSUM62"|"BLOSUM80"|"Levenshtein"}
//	                                 the package variable itself is handed to the code under test.
//	{"match":s1,"mismatch":s2,"gap":g,"open":o,"alphabet":[bytes]}
//	                                 compact form, expanded by the harness to: (x,x)=s1, (x,y)=s2 for x!=y,
//	                                 (x,Gap)=(Gap,x)=g for every x of the alphabet, (Gap,Gap)=o.
//
// Scores are JSON numbers (README float convention). The generators only produce integer-valued
// matrices for the alignment clauses, so that score comparison is exact; if a replayed case has
// non-integer scores the comparison uses a relative tolerance of 1e-9.
//
// Preconditions of the alignment clauses (otherwise the case is OK + trivial, "precondition not met"):
// no byte 255 in a or b; all scores finite; the matrix defines (x,y) for every x in a, y in b,
// (x,Gap) for every x in a, (Gap,y) for every y in b, and (Gap,Gap).
// Local clauses additionally: those gap scores <= 0 and gap-open <= 0 (the statement only covers
// non-positive gap scores for Local; a positive gap-open is treated the same way, conservatively).
// C09 clauses: gap-open == 0. C10 clauses: gap-open != 0 and the gap scores <= 0.
//
// Oracles (independent of the implementation): a re-scorer of step lists, a three-state (Gotoh)
// DP for the optimum with per-run gap-open (a Deletion run directly followed by an Insertion run
// are two runs), cross-checked inside every case against the plain NW / SW recurrence when
// gap-open is 0 and against brute-force enumeration of all alignments when both lengths are <= 4;
// an integer edit-distance routine (cross-checked against the recursive definition for lengths <= 4).
// What is NOT checked, because the statements do not fix it: which of several optimal alignments
// is returned, which maximal cell Local picks, the values of ai/bi when Local returns no steps,
// nil vs empty step slices.

import (
	"fmt"
	"go/ast"
	"go/constant"
	"go/parser"
	"go/token"
	"go/types"
	"math"
	"math/rand"
	"sort"
	"strings"
	"testing"
	"time"
)

func TestVerif(t *testing.T) { vrMain(t, vrClauses) }

const vrSigAffine = "align:affine-gap-suboptimal"

var vrClauses = []vrClause{
	{Prop: "C08", Name: "global-valid",
		Bound: "exhaustive: all pairs (a,b) of words of length 0..4 over a 2-letter (quick) / 3-letter (thorough) alphabet x the fixed matrix set (zero/non-zero/positive gap-open, asymmetric, zero and positive gap scores, Levenshtein, BLOSUM62, PAM250); random: integer matrices over 2..5 letters (symmetric and asymmetric, gap-open -3..2), shipped tables with protein sequences, related and unrelated pairs up to length 60, until the time budget",
		Rule:  "trivial: both sequences empty, or precondition not met",
		Gen:   func(g *vrGen) { vrGenAlign(g, vrKindGlobalValid) }, Run: vrRunGlobalValid},
	{Prop: "C08", Name: "local-valid",
		Bound: "as global-valid, restricted to matrices with gap scores <= 0 and gap-open <= 0",
		Rule:  "trivial: both sequences empty, or precondition not met",
		Gen:   func(g *vrGen) { vrGenAlign(g, vrKindLocalValid) }, Run: vrRunLocalValid},
	{Prop: "C09", Name: "global-optimal",
		Bound: "exhaustive: all pairs of words of length 0..4 over 2 (quick) / 3 (thorough) letters x the fixed matrices with gap-open 0 (incl. Levenshtein, BLOSUM62, PAM250, positive gap scores); random: integer matrices with gap-open 0, every shipped table with protein sequences, Levenshtein with arbitrary bytes 0..254, lengths up to 60",
		Rule:  "trivial: both sequences empty, or precondition not met (gap-open != 0)",
		Gen:   func(g *vrGen) { vrGenAlign(g, vrKindGlobalOpt0) }, Run: func(in map[string]any) vrResult { return vrRunGlobalOptimal(in, false) }},
	{Prop: "C09", Name: "local-optimal",
		Bound: "as C09/global-optimal, restricted to gap scores <= 0",
		Rule:  "trivial: both sequences empty, or precondition not met",
		Gen:   func(g *vrGen) { vrGenAlign(g, vrKindLocalOpt0) }, Run: func(in map[string]any) vrResult { return vrRunLocalOptimal(in, false) }},
	{Prop: "C09", Name: "shipped-tables",
		Bound: "exhaustive: every entry of the 7 shipped tables (6 x 24x24 over the 23 letters + Gap: present, symmetric, gap-open 0; Levenshtein: all 65536 entries); random: protein sequence pairs (arbitrary byte strings 0..254 for Levenshtein) up to length 60 (thorough 150) aligned both ways round with Global and Local",
		Rule:  "trivial: never",
		Gen:   vrGenShipped, Run: vrRunShipped},
	{Prop: "C10", Name: "global-optimal-affine",
		Bound: "exhaustive: all pairs of words of length 0..4 over 2 (quick) / 3 (thorough) letters x the fixed matrices with gap-open < 0 and gap scores <= 0; random: integer matrices with gap-open in -3..-1, lengths up to 60",
		Rule:  "trivial: both sequences empty, or precondition not met (gap-open == 0 or a positive gap score)",
		Gen:   func(g *vrGen) { vrGenAlign(g, vrKindGlobalAffine) }, Run: func(in map[string]any) vrResult { return vrRunGlobalOptimal(in, true) }},
	{Prop: "C10", Name: "local-optimal-affine",
		Bound: "exhaustive: all pairs of words of length 0..4 over 2 (quick) / 3 (thorough) letters x the fixed matrices with gap-open < 0 and gap scores <= 0; random: integer matrices with gap-open in -3..-1, lengths up to 60",
		Rule:  "trivial: both sequences empty, or precondition not met",
		Gen:   func(g *vrGen) { vrGenAlign(g, vrKindLocalAffine) }, Run: func(in map[string]any) vrResult { return vrRunLocalOptimal(in, true) }},
	{Prop: "C20", Name: "symmetrical",
		Bound: "exhaustive: all partial matrices over the 9 keys of {a,b,Gap}^2 with each key absent / 0 / 1 (3^9 = 19683); random: up to 40 pairs over arbitrary bytes, integer and fractional scores, with and without mirrored conflicts; thorough also the 7 shipped tables",
		Rule:  "trivial: empty matrix",
		Gen:   vrGenSymmetrical, Run: vrRunSymmetrical},
	{Prop: "C20", Name: "gostring",
		Bound: "exhaustive: for every byte c the matrix {(c,c):1, (c,^c):-1.5, (Gap,c):0.25} (every byte value in both key positions); the empty matrix; the shipped PAM/BLOSUM tables (thorough: also Levenshtein); random: up to 60 pairs over arbitrary bytes (quote, backslash, 0x00, 0x7f, 0x80, 0xfe, Gap), integer, fractional, huge and tiny scores",
		Rule:  "trivial: empty matrix",
		Gen:   vrGenGoString, Run: vrRunGoString},
}

// ---------------------------------------------------------------------------
// matrices
// ---------------------------------------------------------------------------

var vrShippedNames = []string{"PAM120", "PAM160", "PAM250", "BLOSUM45", "BLOSUM62", "BLOSUM80"}

const vrProteinAlphabet = "ABCDEFGHIKLMNPQRSTVWXYZ" // the 23 letters of the shipped tables
const vrStandardAminos = "ACDEFGHIKLMNPQRSTVWY"

func vrShipped(name string) SubstitutionMatrix {
	switch name {
	case "Levenshtein":
		return Levenshtein
	case "PAM120":
		return PAM120
	case "PAM160":
		return PAM160
	case "PAM250":
		return PAM250
	case "BLOSUM45":
		return BLOSUM45
	case "BLOSUM62":
		return BLOSUM62
	case "BLOSUM80":
		return BLOSUM80
	}
	panic("harness: unknown shipped matrix " + name)
}

// Copies of the shipped PAM/BLOSUM tables taken at first use (the oracle's view of them).
var vrPristine = map[string]map[[2]byte]float64{}

func vrPristineOf(name string) map[[2]byte]float64 {
	if p, ok := vrPristine[name]; ok {
		return p
	}
	src := vrShipped(name)
	p := make(map[[2]byte]float64, len(src))
	for k, v := range src {
		p[k] = v
	}
	vrPristine[name] = p
	return p
}

func vrLev(x, y byte) float64 {
	if x == y {
		return 0
	}
	return -1
}

// vrMat is a decoded matrix: the map handed to the code under test plus the oracle's own view.
type vrMat struct {
	m       SubstitutionMatrix
	snap    map[[2]byte]float64 // oracle copy; nil for Levenshtein (formula vrLev instead)
	shipped string
}

func (vm *vrMat) get(x, y byte) (float64, bool) {
	if vm.snap == nil {
		return vrLev(x, y), true
	}
	v, ok := vm.snap[[2]byte{x, y}]
	return v, ok
}

// unchanged reports (as a non-empty description) a difference between the map handed to the
// code under test and the oracle copy. For Levenshtein (65536 entries) the cheap version checks
// the size and the entries over the given symbols; full=true checks everything.
func (vm *vrMat) unchanged(syms []byte, full bool) string {
	if vm.snap != nil {
		return vrDiff(vm.m, vm.snap)
	}
	if len(vm.m) != 65536 {
		return fmt.Sprintf("Levenshtein has %d entries", len(vm.m))
	}
	if full {
		for i := 0; i < 256; i++ {
			for j := 0; j < 256; j++ {
				if v, ok := vm.m[[2]byte{byte(i), byte(j)}]; !ok || v != vrLev(byte(i), byte(j)) {
					return fmt.Sprintf("Levenshtein[%d,%d]=%v,%v", i, j, v, ok)
				}
			}
		}
		return ""
	}
	var seen [256]bool
	var u []byte
	for _, c := range append([]byte{Gap}, syms...) {
		if !seen[c] {
			seen[c] = true
			u = append(u, c)
		}
	}
	for _, x := range u {
		for _, y := range u {
			if v, ok := vm.m[[2]byte{x, y}]; !ok || v != vrLev(x, y) {
				return fmt.Sprintf("Levenshtein[%d,%d]=%v,%v", x, y, v, ok)
			}
		}
	}
	return ""
}

func vrDiff(got SubstitutionMatrix, want map[[2]byte]float64) string {
	if len(got) != len(want) {
		return fmt.Sprintf("%d entries, want %d", len(got), len(want))
	}
	for k, v := range want {
		g, ok := got[k]
		if !ok {
			return fmt.Sprintf("pair (%d,%d) missing", k[0], k[1])
		}
		if g != v && !(g != g && v != v) {
			return fmt.Sprintf("pair (%d,%d) = %v, want %v", k[0], k[1], g, v)
		}
	}
	return ""
}

func vrDecodeMatrix(v any) *vrMat {
	spec := vrMap(v)
	if spec == nil {
		panic("harness: matrix missing")
	}
	if name, ok := spec["shipped"]; ok {
		n, _ := name.(string)
		vm := &vrMat{m: vrShipped(n), shipped: n}
		if n != "Levenshtein" {
			vm.snap = vrPristineOf(n)
		}
		return vm
	}
	m := SubstitutionMatrix{}
	if pl, ok := spec["pairs"]; ok {
		for _, e := range vrList(pl) {
			t := vrList(e)
			if len(t) != 3 {
				panic("harness: matrix pair must be [x,y,score]")
			}
			x, y := vrInt(t[0]), vrInt(t[1])
			if x < 0 || x > 255 || y < 0 || y > 255 {
				panic("harness: matrix key out of byte range")
			}
			k := [2]byte{byte(x), byte(y)}
			if _, dup := m[k]; dup {
				panic("harness: duplicate matrix key")
			}
			m[k] = vrFloat(t[2])
		}
	} else if _, ok := spec["alphabet"]; ok {
		al := vrBytes(spec["alphabet"])
		match, mismatch, gap, open := vrFloat(spec["match"]), vrFloat(spec["mismatch"]), vrFloat(spec["gap"]), vrFloat(spec["open"])
		for _, x := range al {
			if x == Gap {
				panic("harness: Gap in alphabet")
			}
			for _, y := range al {
				if x == y {
					m[[2]byte{x, y}] = match
				} else {
					m[[2]byte{x, y}] = mismatch
				}
			}
			m[[2]byte{x, Gap}] = gap
			m[[2]byte{Gap, x}] = gap
		}
		m[[2]byte{Gap, Gap}] = open
	} else {
		panic("harness: matrix needs pairs, shipped or alphabet")
	}
	snap := make(map[[2]byte]float64, len(m))
	for k, v := range m {
		snap[k] = v
	}
	return &vrMat{m: m, snap: snap}
}

// vrPairsJSON encodes a matrix in the "pairs" form, keys ascending.
func vrPairsJSON(m map[[2]byte]float64) map[string]any {
	keys := make([][2]byte, 0, len(m))
	for k := range m {
		keys = append(keys, k)
	}
	sort.Slice(keys, func(i, j int) bool {
		if keys[i][0] != keys[j][0] {
			return keys[i][0] < keys[j][0]
		}
		return keys[i][1] < keys[j][1]
	})
	l := make([]any, len(keys))
	for i, k := range keys {
		l[i] = []any{int(k[0]), int(k[1]), vrF(m[k])}
	}
	return map[string]any{"pairs": l}
}

func vrCompact(match, mismatch, gap, open float64, alphabet string) map[string]any {
	return map[string]any{"match": match, "mismatch": mismatch, "gap": gap, "open": open, "alphabet": vrS(alphabet)}
}

// ---------------------------------------------------------------------------
// the alignment problem as the oracle sees it (indices only)
// ---------------------------------------------------------------------------

type vrProb struct {
	la, lb     int
	s          [][]float64 // s[i][j]: score of aligning a[i] with b[j]
	gd         []float64   // gd[i]: score of aligning a[i] with a gap (Deletion)
	gi         []float64   // gi[j]: score of aligning b[j] with a gap (Insertion)
	open       float64     // gap-open, once per maximal run of equal gap steps
	integral   bool
	gapsNonPos bool
}

// vrProblem builds the oracle's view; why != "" when a precondition is not met.
func vrProblem(a, b []byte, vm *vrMat) (p *vrProb, why string) {
	for _, c := range a {
		if c == Gap {
			return nil, "byte 255 in a"
		}
	}
	for _, c := range b {
		if c == Gap {
			return nil, "byte 255 in b"
		}
	}
	p = &vrProb{la: len(a), lb: len(b), integral: true, gapsNonPos: true}
	use := func(v float64, ok bool, x, y byte) float64 {
		if !ok && why == "" {
			why = fmt.Sprintf("matrix does not define pair (%d,%d)", x, y)
		}
		if (math.IsNaN(v) || math.IsInf(v, 0)) && why == "" {
			why = "non-finite score"
		}
		if v != math.Trunc(v) || math.Abs(v) > 1<<40 {
			p.integral = false
		}
		return v
	}
	v, ok := vm.get(Gap, Gap)
	p.open = use(v, ok, Gap, Gap)
	p.gd = make([]float64, len(a))
	p.gi = make([]float64, len(b))
	p.s = make([][]float64, len(a))
	for i, x := range a {
		v, ok := vm.get(x, Gap)
		p.gd[i] = use(v, ok, x, Gap)
		if v > 0 {
			p.gapsNonPos = false
		}
		p.s[i] = make([]float64, len(b))
		for j, y := range b {
			v, ok := vm.get(x, y)
			p.s[i][j] = use(v, ok, x, y)
		}
	}
	for j, y := range b {
		v, ok := vm.get(Gap, y)
		p.gi[j] = use(v, ok, Gap, y)
		if v > 0 {
			p.gapsNonPos = false
		}
	}
	if why != "" {
		return nil, why
	}
	return p, ""
}

func (p *vrProb) eq(x, y float64) bool {
	if x == y {
		return true
	}
	if p.integral {
		return false
	}
	return math.Abs(x-y) <= 1e-9*math.Max(1, math.Max(math.Abs(x), math.Abs(y)))
}

// rescore walks steps from offsets (ai,bi) and returns their score under the documented
// scoring and the end position; bad != "" if a step value is not 1..3 or the walk leaves a or b.
func (p *vrProb) rescore(steps []Step, ai, bi int) (score float64, ea, eb int, bad string) {
	if ai < 0 || bi < 0 || ai > p.la || bi > p.lb {
		return 0, ai, bi, fmt.Sprintf("start offsets (%d,%d) outside the sequences (lengths %d,%d)", ai, bi, p.la, p.lb)
	}
	i, j := ai, bi
	var prev Step
	for k, st := range steps {
		switch st {
		case Match:
			if i >= p.la || j >= p.lb {
				return 0, i, j, fmt.Sprintf("step %d (match) runs past the end of a or b", k)
			}
			score += p.s[i][j]
			i++
			j++
		case Deletion:
			if i >= p.la {
				return 0, i, j, fmt.Sprintf("step %d (deletion) runs past the end of a", k)
			}
			score += p.gd[i]
			if prev != Deletion {
				score += p.open
			}
			i++
		case Insertion:
			if j >= p.lb {
				return 0, i, j, fmt.Sprintf("step %d (insertion) runs past the end of b", k)
			}
			score += p.gi[j]
			if prev != Insertion {
				score += p.open
			}
			j++
		default:
			return 0, i, j, fmt.Sprintf("step %d has value %d", k, st)
		}
		prev = st
	}
	return score, i, j, ""
}

func vrMax3(x, y, z float64) float64 { return math.Max(x, math.Max(y, z)) }

// gotoh computes the optimal global (local=false) or local score with three states per cell:
// best alignment of the prefixes ending in a match / a deletion / an insertion.
func (p *vrProb) gotoh(local bool) float64 {
	ninf := math.Inf(-1)
	la, lb := p.la, p.lb
	w := lb + 1
	M := make([]float64, (la+1)*w)
	D := make([]float64, (la+1)*w)
	I := make([]float64, (la+1)*w)
	best := 0.0
	for i := 0; i <= la; i++ {
		for j := 0; j <= lb; j++ {
			c := i*w + j
			M[c], D[c], I[c] = ninf, ninf, ninf
			if i == 0 && j == 0 {
				M[c] = 0 // the empty alignment; "no previous step"
				continue
			}
			fresh := ninf // an alignment starting here (local only)
			if local {
				fresh = 0
			}
			if i > 0 && j > 0 {
				q := c - w - 1
				M[c] = math.Max(vrMax3(M[q], D[q], I[q]), fresh) + p.s[i-1][j-1]
			}
			if i > 0 {
				q := c - w
				D[c] = math.Max(D[q]+p.gd[i-1], math.Max(math.Max(M[q], I[q]), fresh)+p.gd[i-1]+p.open)
			}
			if j > 0 {
				q := c - 1
				I[c] = math.Max(I[q]+p.gi[j-1], math.Max(math.Max(M[q], D[q]), fresh)+p.gi[j-1]+p.open)
			}
			if local {
				best = math.Max(best, vrMax3(M[c], D[c], I[c]))
			}
		}
	}
	if local {
		return best
	}
	c := la*w + lb
	return vrMax3(M[c], D[c], I[c])
}

// plain is the single-table NW (local=false) / SW recurrence, exact only when gap-open is 0.
func (p *vrProb) plain(local bool) float64 {
	la, lb := p.la, p.lb
	w := lb + 1
	H := make([]float64, (la+1)*w)
	best := 0.0
	for i := 0; i <= la; i++ {
		for j := 0; j <= lb; j++ {
			if i == 0 && j == 0 {
				continue
			}
			c := i*w + j
			v := math.Inf(-1)
			if i > 0 && j > 0 {
				v = math.Max(v, H[c-w-1]+p.s[i-1][j-1])
			}
			if i > 0 {
				v = math.Max(v, H[c-w]+p.gd[i-1])
			}
			if j > 0 {
				v = math.Max(v, H[c-1]+p.gi[j-1])
			}
			if local && v < 0 {
				v = 0
			}
			H[c] = v
			best = math.Max(best, v)
		}
	}
	if local {
		return best
	}
	return H[la*w+lb]
}

// brute enumerates every alignment (global: of a and b; local: of every pair of substrings,
// including the empty ones) and returns the best score.
func (p *vrProb) brute(local bool) float64 {
	best := math.Inf(-1)
	var rec func(i, j int, prev Step, sc float64)
	rec = func(i, j int, prev Step, sc float64) {
		if local || (i == p.la && j == p.lb) {
			if sc > best {
				best = sc
			}
		}
		if i < p.la && j < p.lb {
			rec(i+1, j+1, Match, sc+p.s[i][j])
		}
		if i < p.la {
			d := p.gd[i]
			if prev != Deletion {
				d += p.open
			}
			rec(i+1, j, Deletion, sc+d)
		}
		if j < p.lb {
			d := p.gi[j]
			if prev != Insertion {
				d += p.open
			}
			rec(i, j+1, Insertion, sc+d)
		}
	}
	if !local {
		rec(0, 0, 0, 0)
		return best
	}
	for i := 0; i <= p.la; i++ {
		for j := 0; j <= p.lb; j++ {
			rec(i, j, 0, 0)
		}
	}
	return best
}

// optimum returns the best achievable score, cross-checking the oracle's own routines
// (a disagreement is a harness bug and panics -> signature "harness-panic").
func (p *vrProb) optimum(local bool) float64 {
	g := p.gotoh(local)
	if p.open == 0 {
		if h := p.plain(local); !p.eq(g, h) {
			panic(fmt.Sprintf("oracle self-check: gotoh %v != plain %v (local=%v)", g, h, local))
		}
	}
	if p.la <= 4 && p.lb <= 4 {
		if h := p.brute(local); !p.eq(g, h) {
			panic(fmt.Sprintf("oracle self-check: gotoh %v != brute force %v (local=%v)", g, h, local))
		}
	}
	return g
}

// vrEditDistance is the unit-cost edit distance (insert, delete, substitute).
func vrEditDistance(a, b []byte) int {
	prev := make([]int, len(b)+1)
	cur := make([]int, len(b)+1)
	for j := range prev {
		prev[j] = j
	}
	for i := 1; i <= len(a); i++ {
		cur[0] = i
		for j := 1; j <= len(b); j++ {
			c := prev[j-1]
			if a[i-1] != b[j-1] {
				c++
			}
			if prev[j]+1 < c {
				c = prev[j] + 1
			}
			if cur[j-1]+1 < c {
				c = cur[j-1] + 1
			}
			cur[j] = c
		}
		prev, cur = cur, prev
	}
	d := prev[len(b)]
	if len(a) <= 4 && len(b) <= 4 {
		if r := vrEditRec(a, b); r != d {
			panic(fmt.Sprintf("oracle self-check: edit distance %d != recursive %d", d, r))
		}
	}
	return d
}

func vrEditRec(a, b []byte) int {
	if len(a) == 0 {
		return len(b)
	}
	if len(b) == 0 {
		return len(a)
	}
	c := vrEditRec(a[1:], b[1:])
	if a[0] != b[0] {
		c++
	}
	if d := vrEditRec(a[1:], b) + 1; d < c {
		c = d
	}
	if d := vrEditRec(a, b[1:]) + 1; d < c {
		c = d
	}
	return c
}

// ---------------------------------------------------------------------------
// Run functions of the alignment clauses
// ---------------------------------------------------------------------------

func vrPre(why string) vrResult {
	return vrResult{OK: true, Trivial: true, Observed: "precondition not met: " + why}
}

func vrFail(sig, expected, format string, args ...any) vrResult {
	return vrResult{OK: false, Signature: sig, Expected: expected, Observed: fmt.Sprintf(format, args...)}
}

// vrHung is set when a call into the package did not return in time; the goroutine keeps
// spinning, so generators stop producing cases (and do not claim exhaustiveness) once it is set.
var vrHung bool

const vrCallTimeout = 10 * time.Second

// vrGuard runs f (a call into the package under test) with panic capture and a watchdog.
func vrGuard(f func()) (pv any, hung bool) {
	if vrHung {
		return nil, true
	}
	ch := make(chan any, 1)
	go func() { ch <- vrCatch(f) }()
	tm := time.NewTimer(vrCallTimeout)
	defer tm.Stop()
	select {
	case pv = <-ch:
		return pv, false
	case <-tm.C:
		vrHung = true
		return nil, true
	}
}

// vrCall is vrGuard for calls that must neither panic nor hang; nil when the call returned normally.
func vrCall(what string, f func()) *vrResult {
	pv, hung := vrGuard(f)
	if hung {
		r := vrFail("generic", "termination", "%s did not return within %v", what, vrCallTimeout)
		return &r
	}
	if pv != nil {
		r := vrFail("generic", "no panic", "%s panicked: %v", what, pv)
		return &r
	}
	return nil
}

type vrAlignCase struct {
	a, b, a0, b0 []byte
	vm           *vrMat
	p            *vrProb
}

func vrAlignCaseOf(in map[string]any) (*vrAlignCase, string) {
	c := &vrAlignCase{a: vrBytes(in["a"]), b: vrBytes(in["b"]), vm: vrDecodeMatrix(in["m"])}
	c.a0 = append([]byte(nil), c.a...)
	c.b0 = append([]byte(nil), c.b...)
	var why string
	c.p, why = vrProblem(c.a, c.b, c.vm)
	return c, why
}

// inputsIntact: "" or a description of a modified input.
func (c *vrAlignCase) inputsIntact() string {
	if string(c.a) != string(c.a0) {
		return fmt.Sprintf("a modified: %v -> %v", c.a0, c.a)
	}
	if string(c.b) != string(c.b0) {
		return fmt.Sprintf("b modified: %v -> %v", c.b0, c.b)
	}
	if d := c.vm.unchanged(append(append([]byte(nil), c.a0...), c.b0...), false); d != "" {
		return "matrix modified: " + d
	}
	return ""
}

func (c *vrAlignCase) trivial() bool { return len(c.a0) == 0 && len(c.b0) == 0 }

func vrRunGlobalValid(in map[string]any) vrResult {
	c, why := vrAlignCaseOf(in)
	if why != "" {
		return vrPre(why)
	}
	var steps []Step
	var score float64
	if r := vrCall("Global", func() { steps, score = Global(c.a, c.b, c.vm.m) }); r != nil {
		return *r
	}
	if d := c.inputsIntact(); d != "" {
		return vrFail("generic", "inputs not modified", "%s", d)
	}
	re, ea, eb, bad := c.p.rescore(steps, 0, 0)
	if bad != "" {
		return vrFail("generic", "steps of values 1..3 consuming exactly a and b", "steps %v: %s", steps, bad)
	}
	if ea != c.p.la || eb != c.p.lb {
		return vrFail("generic", fmt.Sprintf("steps consume %d of a and %d of b", c.p.la, c.p.lb),
			"steps %v consume %d of a and %d of b", steps, ea, eb)
	}
	if !c.p.eq(score, re) {
		return vrFail("generic", fmt.Sprintf("score == score of the returned steps = %v", re),
			"Global returned score %v with steps %v", score, steps)
	}
	return vrResult{OK: true, Trivial: c.trivial()}
}

func vrRunLocalValid(in map[string]any) vrResult {
	c, why := vrAlignCaseOf(in)
	if why != "" {
		return vrPre(why)
	}
	if !c.p.gapsNonPos || c.p.open > 0 {
		return vrPre("Local: positive gap score or gap-open")
	}
	var steps []Step
	var ai, bi int
	var score float64
	if r := vrCall("Local", func() { steps, ai, bi, score = Local(c.a, c.b, c.vm.m) }); r != nil {
		return *r
	}
	if d := c.inputsIntact(); d != "" {
		return vrFail("generic", "inputs not modified", "%s", d)
	}
	best := c.p.optimum(true)
	if len(steps) == 0 {
		// ai, bi are not specified when there are no steps.
		if score != 0 {
			return vrFail("generic", "score 0 for an empty alignment", "Local returned no steps and score %v", score)
		}
		return vrResult{OK: true, Trivial: c.trivial()}
	}
	if best == 0 {
		return vrFail("generic", "no steps and score 0 (no positive-scoring local alignment exists)",
			"Local returned steps %v at (%d,%d) score %v", steps, ai, bi, score)
	}
	re, _, _, bad := c.p.rescore(steps, ai, bi)
	if bad != "" {
		return vrFail("generic", "steps of values 1..3 staying inside a and b from (ai,bi)",
			"steps %v from (%d,%d): %s", steps, ai, bi, bad)
	}
	if !c.p.eq(score, re) {
		return vrFail("generic", fmt.Sprintf("score == score of the returned steps from (ai,bi) = %v", re),
			"Local returned score %v with steps %v at (%d,%d)", score, steps, ai, bi)
	}
	return vrResult{OK: true, Trivial: c.trivial()}
}

// classify gives the signature of an optimality failure.
func vrOptSignature(p *vrProb, score, opt float64, achieved bool) string {
	if p.open != 0 && achieved && score < opt {
		return vrSigAffine
	}
	return "generic"
}

func vrRunGlobalOptimal(in map[string]any, affine bool) vrResult {
	c, why := vrAlignCaseOf(in)
	if why != "" {
		return vrPre(why)
	}
	if !affine && c.p.open != 0 {
		return vrPre("C09 needs gap-open == 0")
	}
	if affine && (c.p.open == 0 || !c.p.gapsNonPos) {
		return vrPre("C10 needs gap-open != 0 and gap scores <= 0")
	}
	var steps []Step
	var score float64
	if r := vrCall("Global", func() { steps, score = Global(c.a, c.b, c.vm.m) }); r != nil {
		return *r
	}
	opt := c.p.optimum(false)
	if !c.p.eq(score, opt) {
		re, ea, eb, bad := c.p.rescore(steps, 0, 0)
		achieved := bad == "" && ea == c.p.la && eb == c.p.lb && c.p.eq(re, score)
		note := ""
		if !achieved {
			note = " (and the returned steps do not achieve the returned score)"
		}
		return vrFail(vrOptSignature(c.p, score, opt, achieved),
			fmt.Sprintf("score %v (optimum over all alignments of a and b)", opt),
			"Global returned score %v, steps %v%s", score, steps, note)
	}
	if c.vm.shipped == "Levenshtein" {
		if d := vrEditDistance(c.a0, c.b0); score != -float64(d) {
			return vrFail("generic", fmt.Sprintf("score %d = -(edit distance)", -d), "Global returned score %v", score)
		}
	}
	return vrResult{OK: true, Trivial: c.trivial()}
}

func vrRunLocalOptimal(in map[string]any, affine bool) vrResult {
	c, why := vrAlignCaseOf(in)
	if why != "" {
		return vrPre(why)
	}
	if !c.p.gapsNonPos || c.p.open > 0 {
		return vrPre("Local: positive gap score or gap-open")
	}
	if !affine && c.p.open != 0 {
		return vrPre("C09 needs gap-open == 0")
	}
	if affine && c.p.open == 0 {
		return vrPre("C10 needs gap-open != 0")
	}
	var steps []Step
	var ai, bi int
	var score float64
	if r := vrCall("Local", func() { steps, ai, bi, score = Local(c.a, c.b, c.vm.m) }); r != nil {
		return *r
	}
	opt := c.p.optimum(true)
	if !c.p.eq(score, opt) {
		achieved := false
		if len(steps) == 0 {
			achieved = score == 0
		} else {
			re, _, _, bad := c.p.rescore(steps, ai, bi)
			achieved = bad == "" && c.p.eq(re, score)
		}
		note := ""
		if !achieved {
			note = " (and the returned steps do not achieve the returned score)"
		}
		return vrFail(vrOptSignature(c.p, score, opt, achieved),
			fmt.Sprintf("score %v (optimum over all alignments of all substring pairs)", opt),
			"Local returned score %v, steps %v at (%d,%d)%s", score, steps, ai, bi, note)
	}
	return vrResult{OK: true, Trivial: c.trivial()}
}

// ---------------------------------------------------------------------------
// C09/shipped-tables
// ---------------------------------------------------------------------------

func vrRunShipped(in map[string]any) vrResult {
	name, _ := in["name"].(string)
	m := vrShipped(name)
	a, b := vrBytes(in["a"]), vrBytes(in["b"])
	for _, c := range append(append([]byte(nil), a...), b...) {
		if c == Gap {
			return vrPre("byte 255 in a sequence")
		}
	}
	if name == "Levenshtein" {
		vm := &vrMat{m: m, shipped: name}
		if d := vm.unchanged(nil, true); d != "" {
			return vrFail("generic", "65536 entries: 0 on the diagonal, -1 elsewhere", "%s", d)
		}
	} else {
		var in256 [256]bool
		for k := range m {
			in256[k[0]], in256[k[1]] = true, true
		}
		var al []byte
		for c := 0; c < 256; c++ {
			if in256[c] {
				al = append(al, byte(c))
			}
		}
		for _, c := range []byte(vrStandardAminos) {
			if !in256[c] {
				return vrFail("generic", "all 20 standard amino acids in the alphabet", "%s has no entry for %q", name, c)
			}
		}
		if !in256[Gap] {
			return vrFail("generic", "entries against the gap", "%s has no Gap entry", name)
		}
		for _, x := range al {
			for _, y := range al {
				v, ok := m[[2]byte{x, y}]
				if !ok {
					return vrFail("generic", "defined for every pair over its alphabet and the gap", "%s lacks pair (%q,%q)", name, x, y)
				}
				if w, ok2 := m[[2]byte{y, x}]; !ok2 || w != v {
					return vrFail("generic", "symmetric", "%s: (%q,%q)=%v but (%q,%q)=%v (present %v)", name, x, y, v, y, x, w, ok2)
				}
				if v != v || math.IsInf(v, 0) {
					return vrFail("generic", "finite scores", "%s: (%q,%q)=%v", name, x, y, v)
				}
			}
		}
		if v := m[[2]byte{Gap, Gap}]; v != 0 {
			return vrFail("generic", "gap-open 0", "%s: (Gap,Gap)=%v", name, v)
		}
		for _, c := range append(append([]byte(nil), a...), b...) {
			if !in256[c] {
				return vrPre(fmt.Sprintf("sequence byte %q not in the alphabet of %s", c, name))
			}
		}
	}
	var s1, s2, l1, l2 float64
	if r := vrCall("aligning with "+name, func() {
		_, s1 = Global(a, b, m)
		_, s2 = Global(b, a, m)
		_, _, _, l1 = Local(a, b, m)
		_, _, _, l2 = Local(b, a, m)
	}); r != nil {
		return *r
	}
	if s1 != s2 {
		return vrFail("generic", "Global(a,b) score == Global(b,a) score", "%v vs %v", s1, s2)
	}
	if l1 != l2 {
		return vrFail("generic", "Local(a,b) score == Local(b,a) score", "%v vs %v", l1, l2)
	}
	return vrResult{OK: true}
}

func vrGenShipped(g *vrGen) {
	names := append([]string{"Levenshtein"}, vrShippedNames...)
	for _, n := range names {
		if !vrHung {
			g.Case(map[string]any{"name": n, "a": vrB(nil), "b": vrB(nil)})
		}
	}
	g.Exhaustive(!vrHung) // every table entry is checked by each of these cases
	maxLen := 60
	if g.Thorough() {
		maxLen = 150
	}
	for i := 0; !g.Expired() && !vrHung; i++ {
		n := names[i%len(names)]
		if n == "Levenshtein" && i%3 != 0 { // its full table check is slow; fewer cases
			n = names[1+g.Rand.Intn(len(names)-1)]
		}
		var a, b []byte
		if n == "Levenshtein" {
			al := vrRandBytes(g.Rand, 1+g.Rand.Intn(6))
			a, b = vrRandPair(g.Rand, al, maxLen)
		} else {
			al := []byte(vrStandardAminos)
			if g.Rand.Intn(4) == 0 {
				al = []byte(vrProteinAlphabet)
			}
			a, b = vrRandPair(g.Rand, al, maxLen)
		}
		g.Case(map[string]any{"name": n, "a": vrB(a), "b": vrB(b)})
	}
}

// ---------------------------------------------------------------------------
// generators of the alignment clauses
// ---------------------------------------------------------------------------

const (
	vrKindGlobalValid = iota
	vrKindLocalValid
	vrKindGlobalOpt0
	vrKindLocalOpt0
	vrKindGlobalAffine
	vrKindLocalAffine
)

type vrFixedMatrix struct {
	m     map[string]any
	alpha string // enumeration alphabet (quick uses the first two letters)
}

func vrAsym(open float64) map[string]any {
	al := []byte("abc")
	s := [3][3]float64{{2, -1, -2}, {0, 1, -3}, {-1, -2, 3}}
	del := [3]float64{-1, -2, -1}
	ins := [3]float64{-2, -1, -3}
	m := map[[2]byte]float64{{Gap, Gap}: open}
	for i, x := range al {
		for j, y := range al {
			m[[2]byte{x, y}] = s[i][j]
		}
		m[[2]byte{x, Gap}] = del[i]
		m[[2]byte{Gap, x}] = ins[i]
	}
	return vrPairsJSON(m)
}

var vrFixedSet = []vrFixedMatrix{
	{vrCompact(1, -1, -1, 0, "abc"), "abc"},
	{vrCompact(2, -1, -2, 0, "abc"), "abc"},
	{vrCompact(1, -1, 0, 0, "abc"), "abc"},   // free gaps: many ties and zero cells
	{vrCompact(3, 0, -1, 0, "abc"), "abc"},   // zero mismatch
	{vrCompact(1, -2, 1, 0, "abc"), "abc"},   // positive gap score (Global only)
	{vrCompact(-1, -2, -1, 0, "abc"), "abc"}, // nothing positive: Local must return nothing
	{vrAsym(0), "abc"},
	{map[string]any{"shipped": "Levenshtein"}, "abc"},
	{map[string]any{"shipped": "BLOSUM62"}, "AWC"},
	{map[string]any{"shipped": "PAM250"}, "CXW"},
	{vrCompact(1, -1, -1, -1, "abc"), "abc"}, // the suite's own test matrix shape
	{vrCompact(2, -3, -1, -2, "abc"), "abc"},
	{vrCompact(5, -4, -1, -10, "abc"), "abc"},
	{vrCompact(1, -1, 0, -1, "abc"), "abc"}, // pure gap-open cost
	{vrAsym(-1), "abc"},
	{vrAsym(-3), "abc"},
	{vrCompact(1, -1, -1, 2, "abc"), "abc"}, // positive gap-open (Global only)
}

// vrAdmits reports whether a matrix (as seen over the alphabet al) is in the domain of a clause kind.
func vrAdmits(kind int, mj map[string]any, al []byte) bool {
	vm := vrDecodeMatrix(mj)
	p, why := vrProblem(al, al, vm)
	if why != "" {
		panic("harness: generator matrix incomplete: " + why)
	}
	switch kind {
	case vrKindGlobalValid:
		return true
	case vrKindLocalValid:
		return p.gapsNonPos && p.open <= 0
	case vrKindGlobalOpt0:
		return p.open == 0
	case vrKindLocalOpt0:
		return p.open == 0 && p.gapsNonPos
	case vrKindGlobalAffine: // Run also accepts a positive gap-open; not generated (the statement speaks of gap penalties)
		return p.open < 0 && p.gapsNonPos
	case vrKindLocalAffine:
		return p.open < 0 && p.gapsNonPos
	}
	return false
}

func vrGenAlign(g *vrGen, kind int) {
	// exhaustive small scope
	nl := 2
	if g.Thorough() {
		nl = 3
	}
	for _, fm := range vrFixedSet {
		al := []byte(fm.alpha)[:nl]
		if vrHung || !vrAdmits(kind, fm.m, []byte(fm.alpha)) {
			continue
		}
		vrWords(al, 4, func(a []byte) bool {
			aj := vrB(a)
			return vrWords(al, 4, func(b []byte) bool {
				g.Case(map[string]any{"a": aj, "b": vrB(b), "m": fm.m})
				return !vrHung
			})
		})
	}
	g.Exhaustive(!vrHung)
	// random phase
	r := g.Rand
	for !g.Expired() && !vrHung {
		maxLen := []int{6, 12, 30, 60}[r.Intn(4)]
		var mj map[string]any
		var al []byte
		switch c := r.Intn(10); {
		case c < 2 && (kind == vrKindGlobalValid || kind == vrKindLocalValid || kind == vrKindGlobalOpt0 || kind == vrKindLocalOpt0):
			mj = map[string]any{"shipped": vrShippedNames[r.Intn(len(vrShippedNames))]}
			al = []byte(vrStandardAminos)
			if r.Intn(3) == 0 {
				al = []byte(vrProteinAlphabet)
			}
		case c == 2 && (kind == vrKindGlobalValid || kind == vrKindLocalValid || kind == vrKindGlobalOpt0 || kind == vrKindLocalOpt0):
			mj = map[string]any{"shipped": "Levenshtein"}
			al = vrRandBytes(r, 1+r.Intn(6))
		default:
			al = vrRandBytes(r, 2+r.Intn(4))
			mj = vrRandMatrix(r, kind, al)
		}
		a, b := vrRandPair(r, al, maxLen)
		g.Case(map[string]any{"a": vrB(a), "b": vrB(b), "m": mj})
	}
}

// vrRandBytes returns n distinct random bytes in 0..254.
func vrRandBytes(r *rand.Rand, n int) []byte {
	var seen [256]bool
	var out []byte
	for len(out) < n {
		var c byte
		if r.Intn(2) == 0 {
			c = "acgtACGTxyz\x00\x7f\x80\xfe"[r.Intn(15)]
		} else {
			c = byte(r.Intn(255))
		}
		if !seen[c] {
			seen[c] = true
			out = append(out, c)
		}
	}
	return out
}

// vrRandMatrix draws an integer-valued matrix over al inside the domain of the clause kind.
func vrRandMatrix(r *rand.Rand, kind int, al []byte) map[string]any {
	var open float64
	switch kind {
	case vrKindGlobalValid:
		open = float64(r.Intn(6) - 3) // -3..2
	case vrKindLocalValid:
		open = -float64(r.Intn(4)) // -3..0
	case vrKindGlobalOpt0, vrKindLocalOpt0:
		open = 0
	case vrKindGlobalAffine, vrKindLocalAffine:
		open = -float64(1 + r.Intn(3))
	}
	posGaps := (kind == vrKindGlobalValid || kind == vrKindGlobalOpt0) && r.Intn(5) == 0
	gap := func() float64 {
		if posGaps {
			return float64(r.Intn(6) - 3) // -3..2
		}
		return -float64(r.Intn(4)) // -3..0
	}
	if r.Intn(3) == 0 { // compact, symmetric
		return map[string]any{"match": float64(r.Intn(5)), "mismatch": float64(r.Intn(5) - 4), "gap": gap(), "open": open, "alphabet": vrB(al)}
	}
	sym := r.Intn(2) == 0
	m := map[[2]byte]float64{{Gap, Gap}: open}
	g0 := gap()
	perSym := r.Intn(2) == 0
	for i, x := range al {
		for j, y := range al {
			switch {
			case i == j:
				m[[2]byte{x, y}] = float64(r.Intn(6)) // 0..5
			case sym && j < i:
				m[[2]byte{x, y}] = m[[2]byte{y, x}]
			default:
				m[[2]byte{x, y}] = float64(r.Intn(7) - 4) // -4..2
			}
		}
		d, in := g0, g0
		if perSym {
			d = gap()
			in = d
			if !sym {
				in = gap()
			}
		}
		m[[2]byte{x, Gap}] = d
		m[[2]byte{Gap, x}] = in
	}
	return vrPairsJSON(m)
}

// vrRandPair returns two sequences over al, related by random edits most of the time.
func vrRandPair(r *rand.Rand, al []byte, maxLen int) (a, b []byte) {
	a = vrRandWord(r, al, r.Intn(maxLen+1))
	if r.Intn(10) < 3 {
		return a, vrRandWord(r, al, r.Intn(maxLen+1))
	}
	rate := []int{5, 15, 35}[r.Intn(3)]
	for i := 0; i < len(a); i++ {
		if r.Intn(100) >= rate {
			b = append(b, a[i])
			continue
		}
		switch r.Intn(3) {
		case 0: // substitution
			b = append(b, al[r.Intn(len(al))])
		case 1: // deletion of a run
			i += r.Intn(3)
		case 2: // insertion of a run
			for k := r.Intn(3); k >= 0; k-- {
				b = append(b, al[r.Intn(len(al))])
			}
			b = append(b, a[i])
		}
	}
	if len(b) > maxLen {
		b = b[:maxLen]
	}
	if r.Intn(2) == 0 {
		a, b = b, a
	}
	return a, b
}

// ---------------------------------------------------------------------------
// C20/symmetrical
// ---------------------------------------------------------------------------

func vrRunSymmetrical(in map[string]any) vrResult {
	vm := vrDecodeMatrix(in["m"])
	m := vm.m
	ref := make(map[[2]byte]float64, len(m))
	for k, v := range m {
		if v != v || math.IsInf(v, 0) {
			return vrPre("non-finite score")
		}
		ref[k] = v
	}
	conflict := ""
	want := make(map[[2]byte]float64, 2*len(ref))
	for k, v := range ref {
		flip := [2]byte{k[1], k[0]}
		if v2, ok := ref[flip]; ok && v2 != v && conflict == "" {
			conflict = fmt.Sprintf("(%d,%d)=%v vs (%d,%d)=%v", k[0], k[1], v, k[1], k[0], v2)
		}
		want[k] = v
		want[flip] = v
	}
	var res SubstitutionMatrix
	pv, hung := vrGuard(func() { res = m.Symmetrical() })
	if hung {
		return vrFail("generic", "termination", "Symmetrical did not return within %v", vrCallTimeout)
	}
	if d := vrDiff(m, ref); d != "" {
		return vrFail("generic", "receiver unchanged", "receiver after Symmetrical: %s", d)
	}
	triv := len(ref) == 0
	if conflict != "" {
		if pv == nil {
			return vrFail("generic", "panic: mirrored pairs with different scores "+conflict, "no panic, result has %d entries", len(res))
		}
		return vrResult{OK: true, Trivial: triv}
	}
	if pv != nil {
		return vrFail("generic", "no panic (no two mirrored pairs carry different scores)", "panic: %v", pv)
	}
	if d := vrDiff(res, want); d != "" {
		return vrFail("generic", "every original pair and its mirror image with the original score and nothing else", "result: %s", d)
	}
	if res != nil {
		// "a new matrix": writing to the result must not show through in the receiver.
		for k := range res {
			res[k] = res[k] + 1
		}
		res[[2]byte{1, 2}] = 12345
		res[[2]byte{2, 1}] = 12345
		if d := vrDiff(m, ref); d != "" {
			return vrFail("generic", "a new matrix, not sharing storage with the receiver", "after writing to the result the receiver changed: %s", d)
		}
	}
	return vrResult{OK: true, Trivial: triv}
}

func vrGenSymmetrical(g *vrGen) {
	syms := []byte{'a', 'b', Gap}
	var keys [][2]byte
	for _, x := range syms {
		for _, y := range syms {
			keys = append(keys, [2]byte{x, y})
		}
	}
	n := 1
	for range keys {
		n *= 3
	}
	for code := 0; code < n; code++ {
		m := map[[2]byte]float64{}
		c := code
		for _, k := range keys {
			switch c % 3 {
			case 1:
				m[k] = 0
			case 2:
				m[k] = 1
			}
			c /= 3
		}
		g.Case(map[string]any{"m": vrPairsJSON(m)})
		if vrHung {
			return
		}
	}
	g.Exhaustive(true)
	if g.Thorough() {
		for _, nme := range append([]string{"Levenshtein"}, vrShippedNames...) {
			g.Case(map[string]any{"m": map[string]any{"shipped": nme}})
		}
	}
	r := g.Rand
	pool := []float64{0, 0, 1, -1, 2, -2, 0.5, -0.25, 7, 1e9, 0.1}
	for !g.Expired() && !vrHung {
		al := vrRandBytes(r, 1+r.Intn(6))
		if r.Intn(3) == 0 {
			al = append(al, Gap)
		}
		np := r.Intn(41)
		m := map[[2]byte]float64{}
		mode := r.Intn(3) // 0: no conflicts, 1: exactly one conflict, 2: free
		for i := 0; i < np; i++ {
			k := [2]byte{al[r.Intn(len(al))], al[r.Intn(len(al))]}
			v := pool[r.Intn(len(pool))]
			if mode != 2 {
				if w, ok := m[[2]byte{k[1], k[0]}]; ok {
					v = w
				}
			}
			m[k] = v
		}
		if mode == 1 {
			for _, v := range vrSortedPairs(m) {
				if v[0] != v[1] {
					kk := [2]byte{v[0], v[1]}
					m[[2]byte{v[1], v[0]}] = m[kk] + []float64{1, -1, 0.5}[r.Intn(3)]
					if r.Intn(2) == 0 { // conflict where one side is 0
						m[kk] = 0
						m[[2]byte{v[1], v[0]}] = []float64{1, -3}[r.Intn(2)]
					} else if r.Intn(2) == 0 {
						m[[2]byte{v[1], v[0]}] = 0
						m[kk] = []float64{2, -1}[r.Intn(2)]
					}
					break
				}
			}
		}
		g.Case(map[string]any{"m": vrPairsJSON(m)})
	}
}

// vrSortedPairs returns the keys of m in ascending order (deterministic iteration).
func vrSortedPairs(m map[[2]byte]float64) [][2]byte {
	keys := make([][2]byte, 0, len(m))
	for k := range m {
		keys = append(keys, k)
	}
	sort.Slice(keys, func(i, j int) bool {
		if keys[i][0] != keys[j][0] {
			return keys[i][0] < keys[j][0]
		}
		return keys[i][1] < keys[j][1]
	})
	return keys
}

// ---------------------------------------------------------------------------
// C20/gostring
// ---------------------------------------------------------------------------

type vrParsedPair struct {
	k [2]byte
	v float64
}

// vrEvalGoString compiles (parses + type-checks) the text as the value of a
// SubstitutionMatrix variable and returns the key/value pairs in source order.
func vrEvalGoString(text string) ([]vrParsedPair, error) {
	src := "package p\nconst Gap = 255\ntype SubstitutionMatrix map[[2]byte]float64\nvar M = " + text
	fset := token.NewFileSet()
	f, err := parser.ParseFile(fset, "m.go", src, 0)
	if err != nil {
		return nil, fmt.Errorf("does not parse: %v", err)
	}
	info := &types.Info{Types: map[ast.Expr]types.TypeAndValue{}}
	var terrs []string
	conf := types.Config{Error: func(e error) {
		if len(terrs) < 3 {
			terrs = append(terrs, e.Error())
		}
	}}
	conf.Check("p", fset, []*ast.File{f}, info)
	if len(terrs) > 0 {
		return nil, fmt.Errorf("does not type-check: %s", strings.Join(terrs, "; "))
	}
	var lit *ast.CompositeLit
	for _, d := range f.Decls {
		gd, ok := d.(*ast.GenDecl)
		if !ok || gd.Tok != token.VAR {
			continue
		}
		for _, sp := range gd.Specs {
			vs := sp.(*ast.ValueSpec)
			if len(vs.Names) == 1 && vs.Names[0].Name == "M" && len(vs.Values) == 1 {
				lit, _ = vs.Values[0].(*ast.CompositeLit)
			}
		}
	}
	if lit == nil {
		return nil, fmt.Errorf("not a single composite literal")
	}
	if id, ok := lit.Type.(*ast.Ident); !ok || id.Name != "SubstitutionMatrix" {
		return nil, fmt.Errorf("literal type is not SubstitutionMatrix")
	}
	out := make([]vrParsedPair, 0, len(lit.Elts))
	for _, e := range lit.Elts {
		kv, ok := e.(*ast.KeyValueExpr)
		if !ok {
			return nil, fmt.Errorf("element without key")
		}
		kl, ok := kv.Key.(*ast.CompositeLit)
		if !ok || len(kl.Elts) != 2 {
			return nil, fmt.Errorf("key is not a two-element literal")
		}
		var pp vrParsedPair
		for i, ke := range kl.Elts {
			tv, ok := info.Types[ke]
			if !ok || tv.Value == nil || tv.Value.Kind() != constant.Int {
				return nil, fmt.Errorf("key element is not an integer constant")
			}
			n, exact := constant.Int64Val(tv.Value)
			if !exact || n < 0 || n > 255 {
				return nil, fmt.Errorf("key element %v out of byte range", tv.Value)
			}
			pp.k[i] = byte(n)
		}
		tv, ok := info.Types[kv.Value]
		if !ok || tv.Value == nil {
			return nil, fmt.Errorf("score is not a constant")
		}
		pp.v, _ = constant.Float64Val(tv.Value)
		out = append(out, pp)
	}
	return out, nil
}

func vrRunGoString(in map[string]any) vrResult {
	vm := vrDecodeMatrix(in["m"])
	m := vm.m
	ref := make(map[[2]byte]float64, len(m))
	for k, v := range m {
		if v != v || math.IsInf(v, 0) {
			return vrPre("non-finite score")
		}
		ref[k] = v
	}
	var text string
	if r := vrCall("GoString", func() { text = m.GoString() }); r != nil {
		return *r
	}
	if d := vrDiff(m, ref); d != "" {
		return vrFail("generic", "receiver unchanged", "receiver after GoString: %s", d)
	}
	pairs, err := vrEvalGoString(text)
	if err != nil {
		return vrFail("generic", "Go source of a SubstitutionMatrix literal", "generated text %v: %q", err, vrTrunc(text))
	}
	for i, pp := range pairs {
		if i > 0 {
			q := pairs[i-1].k
			if !(q[0] < pp.k[0] || (q[0] == pp.k[0] && q[1] < pp.k[1])) {
				return vrFail("generic", "every pair exactly once in ascending key order",
					"entry %d has key (%d,%d) after (%d,%d)", i, pp.k[0], pp.k[1], q[0], q[1])
			}
		}
		w, ok := ref[pp.k]
		if !ok {
			return vrFail("generic", "only pairs of the matrix", "entry %d has key (%d,%d) which is not in the matrix", i, pp.k[0], pp.k[1])
		}
		if w != pp.v {
			return vrFail("generic", fmt.Sprintf("exact score %v for (%d,%d)", w, pp.k[0], pp.k[1]), "generated source gives %v", pp.v)
		}
	}
	if len(pairs) != len(ref) {
		// strictly ascending keys that all exist: fewer means some pair is missing
		return vrFail("generic", fmt.Sprintf("%d pairs", len(ref)), "%d pairs listed", len(pairs))
	}
	return vrResult{OK: true, Trivial: len(ref) == 0}
}

func vrGenGoString(g *vrGen) {
	g.Case(map[string]any{"m": vrPairsJSON(nil)})
	for c := 0; c < 256; c++ {
		x := byte(c)
		m := map[[2]byte]float64{{x, x}: 1, {x, ^x}: -1.5, {Gap, x}: 0.25}
		g.Case(map[string]any{"m": vrPairsJSON(m)})
	}
	for _, n := range vrShippedNames {
		g.Case(map[string]any{"m": map[string]any{"shipped": n}})
	}
	if g.Thorough() {
		g.Case(map[string]any{"m": map[string]any{"shipped": "Levenshtein"}})
	}
	g.Exhaustive(!vrHung)
	r := g.Rand
	pool := []float64{0, 1, -1, 4, -11, 0.5, -0.25, 0.1, -0.3, 1.0 / 3, 1e21, -1e21, 1e20, 1e-5, -2.5e-7,
		123456789, 1 << 53, math.MaxFloat64, -math.MaxFloat64, math.SmallestNonzeroFloat64, 17.125, 100000, 1e6}
	special := []byte{'\'', '"', '\\', 0, 0x7f, 0x80, 0xfe, Gap, '\n', '\t', '`', ' ', '{', '}', ',', ':', 0xa0, 0xad}
	for !g.Expired() && !vrHung {
		var al []byte
		for n := 1 + r.Intn(8); n > 0; n-- {
			if r.Intn(2) == 0 {
				al = append(al, special[r.Intn(len(special))])
			} else {
				al = append(al, byte(r.Intn(256)))
			}
		}
		m := map[[2]byte]float64{}
		for np := r.Intn(61); np > 0; np-- {
			v := pool[r.Intn(len(pool))]
			if r.Intn(4) == 0 {
				v = float64(r.Intn(2001)-1000) / 8
			}
			if r.Intn(8) == 0 {
				v = r.NormFloat64() * 10
			}
			m[[2]byte{al[r.Intn(len(al))], al[r.Intn(len(al))]}] = v
		}
		g.Case(map[string]any{"m": vrPairsJSON(m)})
	}
}
