package fastq

// Bounded / replay harness of formats/fastq (see /verif/replay/README.md).
// Injected with `go test -overlay`; not part of the repository.
//
// func (*Fastq).Write       -> clauses C02/roundtrip, C02/marshal-list, C07/write-fault
// func (*Fastq).MarshalText -> clauses C02/roundtrip, C02/marshal-list
// func Reader               -> clauses C02/roundtrip, C02/malformed, C02/marshal-list, C06/chunking, C06/crlf,
//                              C07/read-fault, C11/total, C18/stop
// func File                 -> clauses C06/file, C18/stop
//
// Input conventions: byte strings are JSON arrays of ints; every byte string
// (data, name, seq, quals, repl) may alternatively be the compact object
// {"pat":[bytes],"len":N} = pat repeated cyclically up to N bytes (used for
// inputs of 64 KiB .. MiB so that cases stay small and replayable).
// A record is {"name":bytes,"seq":bytes,"quals":bytes}.

import (
	"bufio"
	"bytes"
	"compress/gzip"
	"errors"
	"fmt"
	"io"
	"iter"
	"math"
	"math/rand"
	"os"
	"path/filepath"
	"strings"
	"testing"
)

func TestVerif(t *testing.T) { vrMain(t, vfClauses) }

// ---------------------------------------------------------------- helpers

type vfRec struct{ Name, Seq, Quals []byte }

// vfItem is one callback of an iterator, copied at callback time.
type vfItem struct {
	IsErr  bool // err != nil
	NilRec bool // record pointer was nil
	ErrTxt string
	Rec    vfRec
}

var errVfFault = errors.New("verif: injected fault")

const vfMaxLen = 64 << 20

// vfRnd drives a random phase: until the clause's time budget ends, or until
// the (estimated) JSON size of the cases emitted reaches vfMaxRandBytes (the
// common helper keeps every case key in memory).
type vfRnd struct {
	g    *vrGen
	used int
}

const vfMaxRandBytes = 256 << 20

func (r *vfRnd) more() bool { return !r.g.Expired() && r.used < vfMaxRandBytes }

func (r *vfRnd) emit(in map[string]any, size int) {
	r.g.Case(in)
	r.used += 4*size + 120
}

func vfSize(rs []vfRec) int {
	n := 0
	for _, r := range rs {
		n += len(r.Name) + 2*len(r.Seq) + 8
	}
	return n
}

const vfSigLong = "fastq:line-longer-than-65535"

func vfBytes(v any) []byte {
	if m, ok := v.(map[string]any); ok {
		pat := vrBytes(m["pat"])
		n := vrInt(m["len"])
		if n <= 0 {
			return nil
		}
		if len(pat) == 0 || n > vfMaxLen {
			panic("harness: bad compact byte string")
		}
		out := make([]byte, n)
		for i := range out {
			out[i] = pat[i%len(pat)]
		}
		return out
	}
	return vrBytes(v)
}

func vfPat(pat string, n int) map[string]any {
	return map[string]any{"pat": vrS(pat), "len": n}
}

func vfRecs(v any) []vfRec {
	var out []vfRec
	for _, e := range vrList(v) {
		m := vrMap(e)
		out = append(out, vfRec{vfBytes(m["name"]), vfBytes(m["seq"]), vfBytes(m["quals"])})
	}
	return out
}

func vfRecIn(r vfRec) map[string]any {
	return map[string]any{"name": vrB(r.Name), "seq": vrB(r.Seq), "quals": vrB(r.Quals)}
}

func vfRecsIn(rs []vfRec) []any {
	out := make([]any, len(rs))
	for i, r := range rs {
		out[i] = vfRecIn(r)
	}
	return out
}

func vfHasAny(b []byte, set string) bool { return bytes.ContainsAny(b, set) }

func vfClean(r vfRec) bool {
	return !vfHasAny(r.Name, "\r\n") && !vfHasAny(r.Seq, "\r\n") && !vfHasAny(r.Quals, "\r\n")
}

// vfInDomain: name, sequence, qualities free of CR/LF; len(seq) == len(quals).
func vfInDomain(rs []vfRec) bool {
	for _, r := range rs {
		if !vfClean(r) || len(r.Seq) != len(r.Quals) {
			return false
		}
	}
	return true
}

// vfLongLine: some line (bytes between LFs) of text is longer than 65535 bytes.
func vfLongLine(text []byte) bool {
	for len(text) > 0 {
		i := bytes.IndexByte(text, '\n')
		if i < 0 {
			i = len(text)
		}
		if i > 65535 {
			return true
		}
		if i == len(text) {
			break
		}
		text = text[i+1:]
	}
	return false
}

func vfMkItem(f *Fastq, err error) vfItem {
	it := vfItem{}
	if err != nil {
		it.IsErr = true
		it.ErrTxt = fmt.Sprint(err)
	}
	if f == nil {
		it.NilRec = true
	} else {
		it.Rec = vfRec{bytes.Clone(f.Name), bytes.Clone(f.Sequence), bytes.Clone(f.Quals)}
	}
	return it
}

// vfDrive runs seq with a consumer that stops (returns false) at its stop-th
// item (stop <= 0: never stops). The run is cut at limit items (overflow).
// extra counts callbacks made after the consumer had returned false.
func vfDrive(seq iter.Seq2[*Fastq, error], stop, limit int) (items []vfItem, extra int, overflow bool, pan any) {
	stopped := false
	pan = vrCatch(func() {
		seq(func(f *Fastq, err error) bool {
			if stopped {
				extra++
				if extra > 1000 {
					panic("verif: iterator keeps calling back after the consumer stopped")
				}
				return false
			}
			items = append(items, vfMkItem(f, err))
			if stop > 0 && len(items) >= stop {
				stopped = true
				return false
			}
			if len(items) >= limit {
				overflow = true
				stopped = true
				return false
			}
			return true
		})
	})
	return
}

// vfAll: uninterrupted run (consumer keeps going past errors), capped.
func vfAll(seq iter.Seq2[*Fastq, error], limit int) (items []vfItem, bad string) {
	items, _, overflow, pan := vfDrive(seq, 0, limit)
	if pan != nil {
		return items, fmt.Sprintf("panic: %v", pan)
	}
	if overflow {
		return items, fmt.Sprintf("iteration did not end within %d items", limit)
	}
	return items, ""
}

func vfSameItem(a, b vfItem) bool {
	if a.IsErr != b.IsErr {
		return false
	}
	if a.IsErr {
		return true // error texts are not compared
	}
	return a.NilRec == b.NilRec && bytes.Equal(a.Rec.Name, b.Rec.Name) &&
		bytes.Equal(a.Rec.Seq, b.Rec.Seq) && bytes.Equal(a.Rec.Quals, b.Rec.Quals)
}

// vfDiff returns "" if the two item sequences are the same, else a description.
func vfDiff(got, want []vfItem) string {
	for i := 0; i < len(got) && i < len(want); i++ {
		if !vfSameItem(got[i], want[i]) {
			return fmt.Sprintf("item %d differs: got %s, want %s", i, vfShowItem(got[i]), vfShowItem(want[i]))
		}
	}
	if len(got) != len(want) {
		return fmt.Sprintf("%d items, want %d", len(got), len(want))
	}
	return ""
}

func vfItemsOf(rs []vfRec) []vfItem {
	out := make([]vfItem, len(rs))
	for i, r := range rs {
		out[i] = vfItem{Rec: r}
	}
	return out
}

func vfShort(b []byte) string {
	if len(b) > 40 {
		return fmt.Sprintf("%q...(%d bytes)", b[:40], len(b))
	}
	return fmt.Sprintf("%q", b)
}

func vfShowItem(it vfItem) string {
	if it.IsErr {
		e := it.ErrTxt
		if len(e) > 100 {
			e = e[:100] + "..."
		}
		return fmt.Sprintf("err(%s)", e)
	}
	if it.NilRec {
		return "(nil,nil)"
	}
	return fmt.Sprintf("rec(name=%s seq=%s quals=%s)", vfShort(it.Rec.Name), vfShort(it.Rec.Seq), vfShort(it.Rec.Quals))
}

func vfShow(items []vfItem) string {
	var sb strings.Builder
	fmt.Fprintf(&sb, "%d items:", len(items))
	for i, it := range items {
		if i >= 8 {
			sb.WriteString(" ...")
			break
		}
		sb.WriteString(" " + vfShowItem(it))
	}
	return sb.String()
}

func vfFail(obs, exp string) vrResult {
	return vrResult{OK: false, Observed: obs, Expected: exp, Signature: "generic"}
}

// vfEncode is the reference writer: exactly four lines '@'name, seq, '+', quals.
func vfEncode(r vfRec, nl string) []byte {
	out := make([]byte, 0, 8+len(r.Name)+len(r.Seq)+len(r.Quals))
	out = append(out, '@')
	out = append(out, r.Name...)
	out = append(out, nl...)
	out = append(out, r.Seq...)
	out = append(out, nl...)
	out = append(out, '+')
	out = append(out, nl...)
	out = append(out, r.Quals...)
	out = append(out, nl...)
	return out
}

func vfEncodeAll(rs []vfRec, nl string) []byte {
	var out []byte
	for _, r := range rs {
		out = append(out, vfEncode(r, nl)...)
	}
	return out
}

// vfChunkReader returns data in the given chunk sizes (cycled).
type vfChunkReader struct {
	data    []byte
	pos     int
	sizes   []int
	i       int
	eofData bool
}

func (c *vfChunkReader) Read(p []byte) (int, error) {
	if c.pos >= len(c.data) {
		return 0, io.EOF
	}
	if len(p) == 0 {
		return 0, nil
	}
	n := 1
	if len(c.sizes) > 0 {
		n = c.sizes[c.i%len(c.sizes)]
		c.i++
	}
	if n < 1 {
		n = 1
	}
	if n > len(p) {
		n = len(p)
	}
	if n > len(c.data)-c.pos {
		n = len(c.data) - c.pos
	}
	copy(p, c.data[c.pos:c.pos+n])
	c.pos += n
	if c.pos == len(c.data) && c.eofData {
		return n, io.EOF
	}
	return n, nil
}

// vfFaultReader delivers data, then fails (once then EOF, or forever).
type vfFaultReader struct {
	data    []byte
	pos     int
	chunk   int
	forever bool
	fired   bool
}

func (f *vfFaultReader) Read(p []byte) (int, error) {
	if len(p) == 0 {
		return 0, nil
	}
	if f.pos < len(f.data) {
		n := len(f.data) - f.pos
		if f.chunk > 0 && n > f.chunk {
			n = f.chunk
		}
		if n > len(p) {
			n = len(p)
		}
		copy(p, f.data[f.pos:f.pos+n])
		f.pos += n
		return n, nil
	}
	if !f.fired || f.forever {
		f.fired = true
		return 0, errVfFault
	}
	return 0, io.EOF
}

// vfLimitWriter accepts left bytes in total, then fails.
type vfLimitWriter struct{ left int }

func (w *vfLimitWriter) Write(p []byte) (int, error) {
	if len(p) <= w.left {
		w.left -= len(p)
		return len(p), nil
	}
	n := w.left
	w.left = 0
	return n, errVfFault
}

// vfRandField: any bytes except CR/LF, biased towards the format's own markers.
func vfRandField(r *rand.Rand, n int) []byte {
	b := make([]byte, n)
	for i := range b {
		switch r.Intn(4) {
		case 0:
			b[i] = "@+@+ \tIA%"[r.Intn(9)]
		case 1:
			b[i] = "ACGTN!#5I~"[r.Intn(10)]
		default:
			c := byte(r.Intn(256))
			for c == '\r' || c == '\n' {
				c = byte(r.Intn(256))
			}
			b[i] = c
		}
	}
	return b
}

func vfRandRec(r *rand.Rand) vfRec {
	var n int
	switch r.Intn(3) {
	case 0:
		n = r.Intn(4)
	case 1:
		n = r.Intn(12)
	default:
		n = r.Intn(300)
	}
	return vfRec{vfRandField(r, r.Intn(4)*r.Intn(4)), vfRandField(r, n), vfRandField(r, n)}
}

func vfRandRecs(r *rand.Rand, maxN int) []vfRec {
	n := r.Intn(maxN + 1)
	rs := make([]vfRec, n)
	for i := range rs {
		rs[i] = vfRandRec(r)
	}
	return rs
}

// vfSmallRecs: 4 names x 6 (seq,quals) pairs = 24 records, with '@' and '+' in
// every position where they could confuse a line-oriented parser.
func vfSmallRecs() []vfRec {
	var out []vfRec
	for _, n := range []string{"", "@", "x", "+x"} {
		for _, sq := range [][2]string{{"", ""}, {"A", "I"}, {"A", "+"}, {"@", "@"}, {"+A", "I+"}, {"AC", "@I"}} {
			out = append(out, vfRec{[]byte(n), []byte(sq[0]), []byte(sq[1])})
		}
	}
	return out
}

// vfLists enumerates all lists of minN..maxN elements of set.
func vfLists(set []vfRec, minN, maxN int, f func([]vfRec) bool) bool {
	cur := make([]vfRec, 0, maxN)
	var rec func(n int) bool
	rec = func(n int) bool {
		if len(cur) == n {
			return f(cur)
		}
		for _, r := range set {
			cur = append(cur, r)
			ok := rec(n)
			cur = cur[:len(cur)-1]
			if !ok {
				return false
			}
		}
		return true
	}
	for n := minN; n <= maxN; n++ {
		if !rec(n) {
			return false
		}
	}
	return true
}

// vfCompositions enumerates all compositions (ordered partitions) of n >= 1.
func vfCompositions(n int, f func([]int) bool) bool {
	var cur []int
	var rec func(rest int) bool
	rec = func(rest int) bool {
		if rest == 0 {
			return f(cur)
		}
		for k := 1; k <= rest; k++ {
			cur = append(cur, k)
			ok := rec(rest - k)
			cur = cur[:len(cur)-1]
			if !ok {
				return false
			}
		}
		return true
	}
	if n <= 0 {
		return f([]int{1})
	}
	return rec(n)
}

var vfAlphabet = []byte{'@', '+', '\n', '\r', 'A'}

var vfLineTokens = []string{"@a", "", "A", "+", "I", "AC", "II"}

// vfLineTexts enumerates all texts of 0..maxLines lines drawn from the first
// nTok of vfLineTokens, every line LF-terminated.
func vfLineTexts(nTok, maxLines int, f func(text []byte) bool) bool {
	var cur []byte
	var rec func(left int) bool
	rec = func(left int) bool {
		if left == 0 {
			return f(cur)
		}
		for _, t := range vfLineTokens[:nTok] {
			n := len(cur)
			cur = append(append(cur, t...), '\n')
			ok := rec(left - 1)
			cur = cur[:n]
			if !ok {
				return false
			}
		}
		return true
	}
	for n := 0; n <= maxLines; n++ {
		if !rec(n) {
			return false
		}
	}
	return true
}

// vfWellFormed: a corpus of small well-formed files (all decode without error).
func vfWellFormed() [][]byte {
	rs := func(r ...vfRec) []vfRec { return r }
	R := func(n, s, q string) vfRec { return vfRec{[]byte(n), []byte(s), []byte(q)} }
	var out [][]byte
	lists := [][]vfRec{
		rs(R("a", "ACGT", "IIII")),
		rs(R("", "", "")),
		rs(R("", "", ""), R("", "", "")),
		rs(R("a", "", ""), R("b b", "G", "!")),
		rs(R("@a@", "@C", "@+"), R("+", "+", "+"), R("c", "", "")),
		rs(R("x", "ACGTACGTAC", "IIIIIIIII#"), R("y", "+A", "+I"), R("z", "A", "@")),
	}
	for _, l := range lists {
		out = append(out, vfEncodeAll(l, "\n"))
	}
	out = append(out, vfEncodeAll(lists[3], "\r\n"))
	out = append(out, []byte("@a\nAC\n+a\nII\n@b\nG\n+b comment\nI")) // '+' line repeating the name; no final newline
	return out
}

// vfBadFiles: files with a malformed record after valid ones.
func vfBadFiles() [][]byte {
	return [][]byte{
		[]byte("@a\nA\n+\nI\nxx\n@b\nC\n+\nI\n"),
		[]byte("@a\nA\n+\nI\n@b\nC\n-\nI\n@c\nC\n+\nI\n"),
		[]byte("@a\nA\n+\nI\n@b\nCC\n+\nI\n@c\nC\n+\nI\n"),
		[]byte("@a\nA\n+\nI\n@b\nC\n+\n"),
		[]byte("a\nA\n+\nI\n"),
	}
}

func vfMutate(r *rand.Rand, data []byte) []byte {
	out := bytes.Clone(data)
	for k := 1 + r.Intn(3); k > 0; k-- {
		c := vfAlphabet[r.Intn(len(vfAlphabet))]
		if r.Intn(3) == 0 {
			c = byte(r.Intn(256))
		}
		switch op := r.Intn(3); {
		case op == 0 && len(out) > 0:
			out[r.Intn(len(out))] = c
		case op == 1 && len(out) > 0:
			i := r.Intn(len(out))
			out = append(out[:i], out[i+1:]...)
		default:
			i := r.Intn(len(out) + 1)
			out = append(out[:i], append([]byte{c}, out[i:]...)...)
		}
	}
	return out
}

// vfRandData: arbitrary / near-valid bytes.
func vfRandData(r *rand.Rand) []byte {
	switch r.Intn(5) {
	case 0:
		return vrRandWord(r, vfAlphabet, r.Intn(24))
	case 1:
		b := make([]byte, r.Intn(40))
		for i := range b {
			b[i] = byte(r.Intn(256))
		}
		return b
	case 2:
		return vfMutate(r, vfEncodeAll(vfRandRecs(r, 3), "\n"))
	case 3:
		var b []byte
		for k := r.Intn(10); k > 0; k-- {
			b = append(append(b, vfLineTokens[r.Intn(len(vfLineTokens))]...), "\n\n\r\n"[2*r.Intn(2):][:1+r.Intn(2)]...)
		}
		return b
	default:
		nl := "\n"
		if r.Intn(2) == 0 {
			nl = "\r\n"
		}
		d := vfEncodeAll(vfRandRecs(r, 3), nl)
		if r.Intn(2) == 0 && len(d) > 0 {
			d = d[:len(d)-len(nl)]
		}
		return d
	}
}

// vfBigWellFormed: n records of 10007 bytes each (lines longer than the
// scanner's initial 4096-byte buffer).
func vfBigWellFormed(n int) map[string]any {
	rec := vfEncode(vfRec{[]byte("r"), bytes.Repeat([]byte("ACGTG"), 1000), bytes.Repeat([]byte("I#5"), 1667)[:5000]}, "\n")
	return map[string]any{"pat": vrB(rec), "len": n * len(rec)}
}

func vfTempDir() string {
	dir, err := os.MkdirTemp("", "verif-fastq-")
	if err != nil {
		panic("harness: " + err.Error())
	}
	return dir
}

func vfWriteFile(dir, base string, data []byte, gz bool) string {
	path := filepath.Join(dir, base)
	if gz {
		path += ".gz"
		var zb bytes.Buffer
		zw := gzip.NewWriter(&zb)
		if _, err := zw.Write(data); err != nil {
			panic("harness: " + err.Error())
		}
		if err := zw.Close(); err != nil {
			panic("harness: " + err.Error())
		}
		data = zb.Bytes()
	}
	if err := os.WriteFile(path, data, 0o600); err != nil {
		panic("harness: " + err.Error())
	}
	return path
}

// ---------------------------------------------------------------- clauses

var vfClauses = []vrClause{
	{
		Prop: "C02", Name: "roundtrip",
		Bound: "exhaustive: all lists of <=2 (thorough <=3) records from a set of 24 small records ('@'/'+' in every field position); " +
			"every single record with read length 0..330 (thorough 0..3000) and 65534,65535,65536,70000, a 70000-byte name (thorough also reads of 1 MiB and 3 MiB+7); the texts %, 50%, %d, %s%s, 100%%, %!, a%vb as name, as sequence and qualities, and in all three fields; then random lists of <=5 records over all bytes of the domain until the budget ends",
		Rule: "Write to a buffer has err==nil and emits exactly '@'name LF seq LF '+' LF quals LF; MarshalText bytes == Write bytes; " +
			"Reader over the concatenation yields exactly the written records in order and no error. " +
			"Signature fastq:line-longer-than-65535 iff the read-back fails and some line of the written text is longer than 65535 bytes",
		Gen: vfGenRoundtrip,
		Run: vfRunRoundtrip,
	},
	{
		Prop: "C02", Name: "malformed",
		Bound: "exhaustive: all lists of 1..2 (thorough 1..3) records from 6 small records x every record position x every corruption: no-at; no-plus; bad-plus with 5 replacement lines; qual-len delta in {-2,-1,1,2}; cut at every (line,pos) of the record; then random records and corruptions until the budget ends",
		Rule: "valid file with record `which` corrupted (kind no-at: leading '@' dropped; no-plus: '+' line removed; bad-plus: '+' line replaced by repl not starting with '+'; qual-len: qualities shortened/lengthened by delta; " +
			"cut: file ends inside line `line` after `pos` bytes of it): the first `which` items are the preceding records intact and item number `which` is an error, not a record. " +
			"Corruptions that leave a valid file are skipped (name starting with '@' for no-at, qualities starting with '+' for no-plus, cut at a record boundary, cut at the end of the qualities)",
		Gen: vfGenMalformed,
		Run: vfRunMalformed,
	},
	{
		Prop: "C02", Name: "marshal-list",
		Bound: "exhaustive: all ordered pairs of the 24 small records ('@'/'+' in every field position); all ordered pairs of marked records with the read lengths 0,1,2,3,7,40,41,100,255,256; " +
			"the 10 marked records in increasing, decreasing and alternating length order (windows of 6); then random lists of 2..6 records of pairwise different sizes over all bytes of the domain until the budget ends",
		Rule: "MarshalText is called on every record of the list first and the returned slices are kept untouched; afterwards each kept slice is byte-identical to what Write of that record puts into a fresh buffer " +
			"(a result is not clobbered by later MarshalText/Write calls); Reader over the kept slices joined yields exactly the records in order; " +
			"Write of all records into one shared buffer emits the concatenation of those bytes and reads back as the same list. " +
			"Signature fastq:line-longer-than-65535 iff a read-back fails and some line of the text read is longer than 65535 bytes",
		Gen: vfGenMarshalList,
		Run: vfRunMarshalList,
	},
	{
		Prop: "C02", Name: "extern-scanlines",
		Bound: "exhaustive: every byte string over {LF, CR, 'a', 0x00} of length 0..6 (thorough 0..9); 60 long streams: one of the patterns 'a', 'abcdefg' CR LF, LF, CR, CR LF repeated and cut to 4095, 4096, 4097, 8191, 8192, 8193 bytes followed by '' or LF 'b' (around the 4096-byte initial buffer of bufio.Scanner and its first doubling); 18 streams of one line of 65535, 65536, 70000 'a' bytes (beyond the default 64 KiB token limit) followed by '', LF, CR LF, CR, LF 'b', CR LF 'b' LF; " +
			"then 4000 (thorough 300000) random streams, fewer if the time share ends first: length 0..200 (1 in 64: 0..9000) over {LF, LF, CR, 'a', 'b', 0x00, 0xff, ' '}, 1 in 4 with every LF preceded by CR",
		Rule: "conformance of the ASSUMED contract of bufio.Scanner + ScanLines over an in-memory stream (/verif/specs/00base.spec, lnN/lnS/lnT/lnE; /verif/govc/extern.go) with the real standard library; the repository is not called. " +
			"The stream in[0..end) is scanned three times after s.Buffer(nil, math.MaxInt): from bytes.NewReader, from bytes.NewBuffer, and from bytes.NewReader with a split function that calls bufio.ScanLines and records the advance of every token; all three must deliver the same tokens, Err() == nil (Scan never fails), Scan stays false after it returned false. " +
			"Spec functions from the real result: lnN := number of tokens; lnS(0) := 0, lnS(k+1) := lnS(k) + recorded advance of token k; lnE(k) := lnS(k) + len(token k); lnT(k) := lnS(k+1)-1 if that position is >= lnS(k) and holds LF, else lnS(k+1). Then every axiom is evaluated literally, quantifiers by looping: " +
			"(1) lnN >= 0 && lnS(0) == 0 && lnS(lnN) == end; (2) 0 <= k < lnN ==> 0 <= lnS(k) < end; (3) 0 <= k < lnN ==> lnS(k) <= lnT(k) <= end && (lnT(k) < end ==> in[lnT(k)] == 10) && lnS(k+1) == (lnT(k) < end ? lnT(k)+1 : end) && lnE(k) == ((lnT(k) > lnS(k) && in[lnT(k)-1] == 13) ? lnT(k)-1 : lnT(k)); " +
			"(4) 0 <= k < lnN && lnS(k) <= j < lnT(k) ==> in[j] != 10; (5) 0 <= k <= lnN && lnS(k) < end ==> k < lnN; (6, extern.go) token k has length lnE(k)-lnS(k) and its byte j is in[lnS(k)+j]. trivial: the empty stream",
		Gen: vfxGenScanLines,
		Run: vfxRunScanLines,
	},
	{
		Prop: "C06", Name: "chunking",
		Bound: "exhaustive: all byte strings over {'@','+',LF,CR,'A'} of length <=4 (thorough <=5) x every partition into successive reads x EOF with/without the last data; " +
			"all texts of <=4 lines from {'@a','','A','+','I'} (thorough <=5 lines, also 'AC','II') with chunk sizes [1],[2],[3],[1,2],[whole]; well-formed and malformed corpus incl. 20 KB and 70 KB inputs at sizes around the scanner buffer; then random",
		Rule: "Reader over a reader delivering the given chunk sizes (cycled; optionally the last chunk together with io.EOF) yields the same record/error sequence as Reader over bytes.NewReader(data)",
		Gen:  vfGenChunking,
		Run:  vfRunChunking,
	},
	{
		Prop: "C06", Name: "crlf",
		Bound: "exhaustive: all lists of <=2 records from the 24 small records; single records of every read length 0..170 and 65533, 65535; then random record lists",
		Rule:  "the reference encoding with LF and the same text with every LF replaced by CRLF decode to the same item sequence. Signature fastq:line-longer-than-65535 iff some line of the CRLF text (CR included) is longer than 65535 bytes",
		Gen:   vfGenCRLF,
		Run:   vfRunCRLF,
	},
	{
		Prop: "C06", Name: "file",
		Bound: "exhaustive: all byte strings over {'@','+',LF,CR,'A'} of length <=3 x {plain, .gz}; missing path x {plain name, .gz name}; well-formed and malformed corpus incl. 20 KB and 70 KB files; then random data",
		Rule:  "File(path) on a temp file holding data (plain, or gzip-compressed and named *.gz) yields the same item sequence as Reader(bytes.NewReader(data)); File(nonexistent path) yields exactly one item and it carries a non-nil error",
		Gen:   vfGenFile,
		Run:   vfRunFile,
	},
	{
		Prop: "C07", Name: "read-fault",
		Bound: "exhaustive: every fault offset 0..len of each file of a fixed corpus of 8 small well-formed files x {once,forever} x {whole, 1-byte reads}; offsets around 4096, 8192 and the record boundaries of a 30 KB file (thorough: also every offset of a 9021-byte file of 3 records); then every offset of random well-formed files until the budget ends",
		Rule: "reader delivers data[:offset] then a non-EOF error (once then EOF / forever): no panic, ends within len(data)+10 items although the consumer keeps going, " +
			"the i-th record item equals the i-th record of the fault-free decode, and at least one non-nil error item appears",
		Gen: vfGenReadFault,
		Run: vfRunReadFault,
	},
	{
		Prop: "C07", Name: "write-fault",
		Bound: "exhaustive: names {'', 'a', '@x y'} x read lengths 0..40 (thorough 0..150) x every k in 0..len(output)+1; " +
			"name 'a' x read lengths {2100, 4097, 5000} (outputs of 4207, 8201, 10007 bytes) x k in the last 4200 bytes of the output .. len(output)+1 (length 2100: every k; 4097 and 5000: every 5th k and every k in the last 256 bytes) and every 97th k before; then random records with random k",
		Rule: "Write to a writer that accepts k bytes in total and then fails returns a non-nil error iff k < the number of bytes Write emits to a writer that never fails; no panic",
		Gen:  vfGenWriteFault,
		Run:  vfRunWriteFault,
	},
	{
		Prop: "C11", Name: "total",
		Bound: "exhaustive: all byte strings over {'@','+',LF,CR,'A'} of length <=6 (thorough <=8) and all texts of <=5 (thorough <=6) lines from {'@a','','A','+','I','AC','II'}; then random bytes, random alphabet words, random line texts, mutated well-formed files until the budget ends",
		Rule: "Reader on arbitrary bytes: no panic, ends within len(data)+10 items, every item is a record (non-nil, err==nil) or an error; every accepted record with name, sequence and qualities free of CR/LF " +
			"is written by Write without error and read back as exactly that one record",
		Gen: vfGenTotal,
		Run: vfRunTotal,
	},
	{
		Prop: "C18", Name: "stop",
		Bound: "exhaustive: all byte strings over {'@','+',LF,CR,'A'} of length <=4 (thorough <=5), all texts of <=4 lines from {'@a','','A','+','I'} (thorough <=5 lines, also 'AC','II'), and a corpus of well-formed and malformed files (up to 12 records) x every stop position 0..N+1, for Reader and File; File on a missing path stopped at its error item; " +
			"failing underlying reader (Reader only): 6 small files of the corpus (4 well-formed, 2 with a malformed record) x every fault offset 0..len x {fails once then EOF, fails forever} x every stop position 0..N+1 (N = items of the uninterrupted run with that fault); then random data x every stop (no fault)",
		Rule: "consumer returns false at item number stop: no further callback, no panic, items seen = first stop items of the uninterrupted run; in the uninterrupted run an error item is the last item. " +
			"Checked for Reader(bytes) and for File(temp file); with \"fault\" >= 0 instead for Reader over a reader that delivers data[:fault] and then fails with a non-EOF error (\"forever\": every time, else once and then io.EOF), " +
			"a fresh such reader for the uninterrupted and for the stopped run",
		Gen: vfGenStop,
		Run: vfRunStop,
	},
}

// ---------------------------------------------------------------- C02/roundtrip

func vfRunRoundtrip(in map[string]any) vrResult {
	recs := vfRecs(in["records"])
	if !vfInDomain(recs) {
		return vrResult{OK: true, Trivial: true, Observed: "outside the domain"}
	}
	var all []byte
	for i, r := range recs {
		f := &Fastq{Name: bytes.Clone(r.Name), Sequence: bytes.Clone(r.Seq), Quals: bytes.Clone(r.Quals)}
		var buf bytes.Buffer
		var werr error
		if p := vrCatch(func() { werr = f.Write(&buf) }); p != nil {
			return vfFail(fmt.Sprintf("record %d: Write panicked: %v", i, p), "no panic")
		}
		if werr != nil {
			return vfFail(fmt.Sprintf("record %d: Write to a bytes.Buffer returned %v", i, werr), "nil error")
		}
		var mt []byte
		var merr error
		if p := vrCatch(func() { mt, merr = f.MarshalText() }); p != nil {
			return vfFail(fmt.Sprintf("record %d: MarshalText panicked: %v", i, p), "no panic")
		}
		if merr != nil {
			return vfFail(fmt.Sprintf("record %d: MarshalText returned %v", i, merr), "nil error")
		}
		if !bytes.Equal(mt, buf.Bytes()) {
			return vfFail(fmt.Sprintf("record %d: MarshalText %s != Write %s", i, vfShort(mt), vfShort(buf.Bytes())), "identical bytes")
		}
		if want := vfEncode(r, "\n"); !bytes.Equal(buf.Bytes(), want) {
			return vfFail(fmt.Sprintf("record %d: Write emitted %s", i, vfShort(buf.Bytes())), "exactly four lines '@'name, sequence, '+', qualities: "+vfShort(want))
		}
		all = append(all, buf.Bytes()...)
	}
	sig := "generic"
	if vfLongLine(all) {
		sig = vfSigLong
	}
	got, bad := vfAll(Reader(bytes.NewReader(all)), len(recs)+10)
	if bad != "" {
		return vrResult{OK: false, Observed: bad + "; " + vfShow(got), Expected: "the written records", Signature: sig}
	}
	if d := vfDiff(got, vfItemsOf(recs)); d != "" {
		return vrResult{OK: false, Observed: d + "; " + vfShow(got), Expected: vfShow(vfItemsOf(recs)), Signature: sig}
	}
	return vrResult{OK: true, Trivial: len(recs) == 0}
}

func vfLongRec(name string, n int) map[string]any {
	return map[string]any{"name": vrS(name), "seq": vfPat("ACGTTGCAN", n), "quals": vfPat("I#5~!@+", n)}
}

// vfPercentTexts: texts that a writer using a field as a printf format would mangle.
var vfPercentTexts = []string{"%", "50%", "%d", "%s%s", "100%%", "%!", "a%vb"}

func vfGenRoundtrip(g *vrGen) {
	complete := true
	emit := func(recs []any) bool {
		if g.Expired() {
			complete = false
			return false
		}
		g.Case(map[string]any{"records": recs})
		return true
	}
	maxN, maxLen := 2, 330
	if g.Thorough() {
		maxN, maxLen = 3, 3000
	}
	// fixed lengths first (cheap, and the >64 KiB case must always run)
	for _, n := range []int{65534, 65535, 65536, 70000} {
		emit([]any{vfLongRec("long", n)})
	}
	emit([]any{vfLongRec("first", 3), vfLongRec("long", 70000), vfLongRec("last", 2)})
	// printf-verb look-alikes in every field
	for _, w := range vfPercentTexts {
		q := bytes.Repeat([]byte("%"), len(w))
		emit(vfRecsIn([]vfRec{{[]byte(w), []byte("ACGT"), []byte("IIII")}}))
		emit(vfRecsIn([]vfRec{{[]byte("r"), []byte(w), []byte(w)}}))
		emit(vfRecsIn([]vfRec{{[]byte(w), []byte(w), q}, {[]byte("next"), []byte("AC"), []byte("II")}}))
	}
	emit([]any{map[string]any{"name": vfPat("nm @", 65534), "seq": vrS("ACGT"), "quals": vrS("IIII")}})
	emit([]any{map[string]any{"name": vfPat("nm @", 70000), "seq": vrS("ACGT"), "quals": vrS("IIII")}})
	if g.Thorough() {
		emit([]any{vfLongRec("mib", 1<<20)})
		emit([]any{vfLongRec("mib3", 3<<20+7), vfLongRec("next", 2)})
	}
	for n := 0; n <= maxLen; n++ {
		name := ""
		if n%2 == 1 {
			name = fmt.Sprintf("s%d", n)
		}
		if !emit([]any{vfLongRec(name, n)}) {
			break
		}
	}
	vfLists(vfSmallRecs(), 0, maxN, func(l []vfRec) bool { return emit(vfRecsIn(l)) })
	g.Exhaustive(complete)
	for rnd := (&vfRnd{g: g}); rnd.more(); {
		l := vfRandRecs(g.Rand, 5)
		rnd.emit(map[string]any{"records": vfRecsIn(l)}, vfSize(l))
	}
}

// ---------------------------------------------------------------- C02/malformed

func vfRunMalformed(in map[string]any) vrResult {
	recs := vfRecs(in["records"])
	which := vrInt(in["which"])
	kind, _ := in["kind"].(string)
	skip := func(why string) vrResult { return vrResult{OK: true, Trivial: true, Observed: "skipped: " + why} }
	if !vfInDomain(recs) {
		return skip("outside the domain")
	}
	if which < 0 || which >= len(recs) {
		return skip("no such record")
	}
	r := recs[which]
	lines := [][]byte{append([]byte{'@'}, r.Name...), r.Seq, []byte("+"), r.Quals}
	withSuffix := true
	join := func(ls [][]byte) []byte {
		var b []byte
		for _, l := range ls {
			b = append(append(b, l...), '\n')
		}
		return b
	}
	var mid []byte
	switch kind {
	case "no-at":
		if len(r.Name) > 0 && r.Name[0] == '@' {
			return skip("name starts with '@': the line is still a valid header")
		}
		lines[0] = r.Name
		mid = join(lines)
	case "no-plus":
		if len(r.Quals) > 0 && r.Quals[0] == '+' {
			return skip("qualities start with '+': they would act as the separator")
		}
		mid = join([][]byte{lines[0], lines[1], lines[3]})
	case "bad-plus":
		repl := vfBytes(in["repl"])
		if vfHasAny(repl, "\r\n") || (len(repl) > 0 && repl[0] == '+') {
			return skip("replacement line starts with '+' or contains CR/LF")
		}
		lines[2] = repl
		mid = join(lines)
	case "qual-len":
		delta := vrInt(in["delta"])
		n := len(r.Quals) + delta
		if delta == 0 || n < 0 || delta > 1<<20 {
			return skip("delta does not change the length")
		}
		if delta < 0 {
			lines[3] = r.Quals[:n]
		} else {
			lines[3] = append(bytes.Clone(r.Quals), bytes.Repeat([]byte{'I'}, delta)...)
		}
		mid = join(lines)
	case "cut":
		line, pos := vrInt(in["line"]), vrInt(in["pos"])
		if line < 0 || line > 3 || pos < 0 || pos > len(lines[line]) {
			return skip("no such cut position")
		}
		if line == 0 && pos == 0 {
			return skip("cut at a record boundary leaves a valid file")
		}
		if line == 3 && pos == len(lines[3]) {
			return skip("cut at the end of the qualities (only the final newline missing)")
		}
		mid = append(join(lines[:line]), lines[line][:pos]...)
		withSuffix = false
	default:
		panic("harness: unknown corruption kind " + kind)
	}
	text := append(vfEncodeAll(recs[:which], "\n"), mid...)
	if withSuffix {
		text = append(text, vfEncodeAll(recs[which+1:], "\n")...)
	}
	got, bad := vfAll(Reader(bytes.NewReader(text)), len(text)+10)
	exp := fmt.Sprintf("%d intact records (%s), then an error for record %d", which, vfShow(vfItemsOf(recs[:which])), which)
	if bad != "" {
		return vfFail(bad+"; text "+vfShort(text), exp)
	}
	if len(got) <= which {
		return vfFail(fmt.Sprintf("no item for the corrupted record: %s; text %s", vfShow(got), vfShort(text)), exp)
	}
	if d := vfDiff(got[:which], vfItemsOf(recs[:which])); d != "" {
		return vfFail("preceding records: "+d+"; "+vfShow(got)+"; text "+vfShort(text), exp)
	}
	if !got[which].IsErr {
		return vfFail(fmt.Sprintf("item %d is a fabricated record %s; text %s", which, vfShowItem(got[which]), vfShort(text)), exp)
	}
	return vrResult{OK: true}
}

func vfGenMalformed(g *vrGen) {
	complete := true
	emit := func(recs []any, which int, kind string, extra map[string]any) bool {
		if g.Expired() {
			complete = false
			return false
		}
		in := map[string]any{"records": recs, "which": which, "kind": kind, "line": 0}
		for k, v := range extra {
			in[k] = v
		}
		g.Case(in)
		return true
	}
	allCorruptions := func(l []vfRec, which int) bool {
		enc := vfRecsIn(l)
		r := l[which]
		ok := emit(enc, which, "no-at", nil) && emit(enc, which, "no-plus", map[string]any{"line": 2})
		for _, repl := range []string{"", "x", "-+", "@", "I"} {
			ok = ok && emit(enc, which, "bad-plus", map[string]any{"line": 2, "repl": vrS(repl)})
		}
		for _, d := range []int{-2, -1, 1, 2} {
			ok = ok && emit(enc, which, "qual-len", map[string]any{"line": 3, "delta": d})
		}
		lens := []int{1 + len(r.Name), len(r.Seq), 1, len(r.Quals)}
		for line := 0; line < 4; line++ {
			for pos := 0; pos <= lens[line]; pos++ {
				ok = ok && emit(enc, which, "cut", map[string]any{"line": line, "pos": pos})
			}
		}
		return ok
	}
	R := func(n, s, q string) vfRec { return vfRec{[]byte(n), []byte(s), []byte(q)} }
	set := []vfRec{R("a", "AC", "II"), R("", "", ""), R("@x", "+A", "@+"), R("n", "A", "I"), R("p", "AB", "+I"), R("+", "@", "+")}
	maxN := 2
	if g.Thorough() {
		maxN = 3
	}
	ok := vfLists(set, 1, maxN, func(l []vfRec) bool {
		for which := range l {
			if !allCorruptions(l, which) {
				return false
			}
		}
		return true
	})
	g.Exhaustive(complete && ok)
	r := g.Rand
	for used := 0; !g.Expired() && used < vfMaxRandBytes; {
		l := vfRandRecs(r, 4)
		if len(l) == 0 {
			continue
		}
		used += 4*vfSize(l) + 200
		which := r.Intn(len(l))
		enc := vfRecsIn(l)
		switch r.Intn(5) {
		case 0:
			emit(enc, which, "no-at", nil)
		case 1:
			emit(enc, which, "no-plus", map[string]any{"line": 2})
		case 2:
			emit(enc, which, "bad-plus", map[string]any{"line": 2, "repl": vrB(vfRandField(r, r.Intn(4)))})
		case 3:
			d := 1 + r.Intn(3)
			if r.Intn(2) == 0 {
				d = -d
			}
			emit(enc, which, "qual-len", map[string]any{"line": 3, "delta": d})
		default:
			line := r.Intn(4)
			n := []int{1 + len(l[which].Name), len(l[which].Seq), 1, len(l[which].Quals)}[line]
			emit(enc, which, "cut", map[string]any{"line": line, "pos": r.Intn(n + 1)})
		}
	}
}

// ---------------------------------------------------------------- C02/marshal-list

func vfRunMarshalList(in map[string]any) vrResult {
	recs := vfRecs(in["records"])
	if !vfInDomain(recs) {
		return vrResult{OK: true, Trivial: true, Observed: "outside the domain"}
	}
	fs := make([]*Fastq, len(recs))
	for i, r := range recs {
		fs[i] = &Fastq{Name: bytes.Clone(r.Name), Sequence: bytes.Clone(r.Seq), Quals: bytes.Clone(r.Quals)}
	}
	// 1. every MarshalText call first; the results are kept as returned (not
	// copied, not touched between the calls).
	kept := make([][]byte, len(fs))
	for i, f := range fs {
		var merr error
		if p := vrCatch(func() { kept[i], merr = f.MarshalText() }); p != nil {
			return vfFail(fmt.Sprintf("record %d: MarshalText panicked: %v", i, p), "no panic")
		}
		if merr != nil {
			return vfFail(fmt.Sprintf("record %d: MarshalText returned %v", i, merr), "nil error")
		}
	}
	// 2. only now the reference bytes: Write of each record into a fresh buffer
	// (all of them before the first comparison).
	refs := make([][]byte, len(fs))
	for i, f := range fs {
		var buf bytes.Buffer
		var werr error
		if p := vrCatch(func() { werr = f.Write(&buf) }); p != nil {
			return vfFail(fmt.Sprintf("record %d: Write panicked: %v", i, p), "no panic")
		}
		if werr != nil {
			return vfFail(fmt.Sprintf("record %d: Write to a bytes.Buffer returned %v", i, werr), "nil error")
		}
		refs[i] = buf.Bytes()
	}
	for i := range fs {
		if !bytes.Equal(kept[i], refs[i]) {
			return vfFail(fmt.Sprintf("record %d of %d: the slice MarshalText returned holds %s after the later calls, Write emits %s", i, len(fs), vfShort(kept[i]), vfShort(refs[i])),
				"identical bytes (a MarshalText result is not changed by later MarshalText/Write calls)")
		}
	}
	want := vfItemsOf(recs)
	readBack := func(what string, text []byte) (vrResult, bool) {
		sig := "generic"
		if vfLongLine(text) {
			sig = vfSigLong
		}
		got, bad := vfAll(Reader(bytes.NewReader(text)), len(recs)+10)
		if bad != "" {
			return vrResult{OK: false, Observed: what + ": " + bad + "; " + vfShow(got), Expected: "the records", Signature: sig}, false
		}
		if d := vfDiff(got, want); d != "" {
			return vrResult{OK: false, Observed: what + ": " + d + "; " + vfShow(got), Expected: vfShow(want), Signature: sig}, false
		}
		return vrResult{}, true
	}
	// 3. the kept slices joined read back as the list.
	if res, ok := readBack("joined MarshalText results", bytes.Join(kept, nil)); !ok {
		return res
	}
	// 4. all records written one after another into one shared buffer.
	var shared bytes.Buffer
	for i, f := range fs {
		var werr error
		if p := vrCatch(func() { werr = f.Write(&shared) }); p != nil {
			return vfFail(fmt.Sprintf("record %d: Write to the shared buffer panicked: %v", i, p), "no panic")
		}
		if werr != nil {
			return vfFail(fmt.Sprintf("record %d: Write to the shared bytes.Buffer returned %v", i, werr), "nil error")
		}
	}
	if !bytes.Equal(shared.Bytes(), bytes.Join(refs, nil)) {
		return vfFail(fmt.Sprintf("sequential Write calls into one buffer emitted %s", vfShort(shared.Bytes())),
			"the concatenation of what each Write emits into a fresh buffer: "+vfShort(bytes.Join(refs, nil)))
	}
	if res, ok := readBack("shared buffer", shared.Bytes()); !ok {
		return res
	}
	return vrResult{OK: true, Trivial: len(recs) < 2}
}

var vfMarkLens = []int{0, 1, 2, 3, 7, 40, 41, 100, 255, 256}

// vfMarkedRec: record number k of a list; the name starts with a byte that is
// different for every k (so that the encodings differ from the second byte on)
// and the read has the given length.
func vfMarkedRec(k, n int) vfRec {
	mark := byte('a' + k%26)
	return vfRec{[]byte(fmt.Sprintf("%c%d", mark, n)), bytes.Repeat([]byte{"ACGTN"[k%5], mark}, (n+1)/2)[:n],
		bytes.Repeat([]byte{"I#5~!"[k%5], mark}, (n+1)/2)[:n]}
}

func vfGenMarshalList(g *vrGen) {
	complete := true
	emit := func(l []vfRec) bool {
		if g.Expired() {
			complete = false
			return false
		}
		g.Case(map[string]any{"records": vfRecsIn(l)})
		return true
	}
	ok := true
	// marked records of different lengths: shorter before longer and vice versa
	for i, a := range vfMarkLens {
		for j, b := range vfMarkLens {
			ok = ok && emit([]vfRec{vfMarkedRec(i, a), vfMarkedRec(len(vfMarkLens)+j, b)})
		}
	}
	var up, down, alt []vfRec
	for i, n := range vfMarkLens {
		up = append(up, vfMarkedRec(i, n))
		down = append(down, vfMarkedRec(i, vfMarkLens[len(vfMarkLens)-1-i]))
		if i%2 == 0 {
			alt = append(alt, vfMarkedRec(i, vfMarkLens[len(vfMarkLens)-1-i/2]))
		} else {
			alt = append(alt, vfMarkedRec(i, vfMarkLens[i/2]))
		}
	}
	for _, l := range [][]vfRec{up, down, alt} {
		for i := 0; i+6 <= len(l); i++ {
			ok = ok && emit(l[i:i+6])
		}
	}
	ok = ok && vfLists(vfSmallRecs(), 2, 2, emit)
	g.Exhaustive(complete && ok)
	r := g.Rand
	for rnd := (&vfRnd{g: g}); rnd.more(); {
		l := make([]vfRec, 2+r.Intn(5))
		sizes := map[int]bool{}
		for i := range l {
			for try := 0; ; try++ {
				l[i] = vfRandRec(r)
				if r.Intn(2) == 0 { // marker byte in front of the name
					l[i].Name = append([]byte{byte('a' + i)}, l[i].Name...)
				}
				if sz := len(l[i].Name) + 2*len(l[i].Seq); !sizes[sz] || try >= 20 {
					sizes[sz] = true
					break
				}
			}
		}
		rnd.emit(map[string]any{"records": vfRecsIn(l)}, vfSize(l))
	}
}

// ---------------------------------------------------------------- C06/chunking

func vfRunChunking(in map[string]any) vrResult {
	data := vfBytes(in["data"])
	sizes := vrInts(in["chunks"])
	limit := len(data) + 10
	want, bad := vfAll(Reader(bytes.NewReader(data)), limit)
	if bad != "" {
		return vfFail("plain reader: "+bad, "termination without panic")
	}
	got, bad := vfAll(Reader(&vfChunkReader{data: data, sizes: sizes, eofData: vrBool(in["eof_with_data"])}), limit)
	if bad != "" {
		return vfFail("chunked reader: "+bad+"; "+vfShow(got), vfShow(want))
	}
	if d := vfDiff(got, want); d != "" {
		return vfFail("chunked: "+d+"; "+vfShow(got), "as with bytes.NewReader: "+vfShow(want))
	}
	return vrResult{OK: true, Trivial: len(data) == 0}
}

func vfGenChunking(g *vrGen) {
	complete := true
	emit := func(data any, sizes []int, eofData bool) bool {
		if g.Expired() {
			complete = false
			return false
		}
		g.Case(map[string]any{"data": data, "chunks": vrI(sizes), "eof_with_data": eofData})
		return true
	}
	maxAll, nTok, maxLines := 4, 5, 4
	if g.Thorough() {
		maxAll, nTok, maxLines = 5, 7, 5
	}
	ok := true
	for _, d := range append(vfWellFormed(), vfBadFiles()...) {
		for _, s := range [][]int{{1}, {2}, {3, 1}, {7}} {
			for _, e := range []bool{false, true} {
				ok = ok && emit(vrB(d), s, e)
			}
		}
	}
	for _, n := range []int{2, 7} {
		for _, s := range [][]int{{1}, {4095}, {4096}, {4097}, {4096, 1}, {100, 3996}, {5003}, {1 << 20}} {
			for _, e := range []bool{false, true} {
				ok = ok && emit(vfBigWellFormed(n), s, e)
			}
		}
	}
	ok = ok && vrWords(vfAlphabet, maxAll, func(w []byte) bool {
		d := vrB(w)
		return vfCompositions(len(w), func(c []int) bool { return emit(d, c, false) && emit(d, c, true) })
	})
	ok = ok && vfLineTexts(nTok, maxLines, func(t []byte) bool {
		d := vrB(t)
		for _, s := range [][]int{{1}, {2}, {3}, {1, 2}, {len(t) + 1}} {
			if !(emit(d, s, false) && emit(d, s, true)) {
				return false
			}
		}
		return true
	})
	g.Exhaustive(complete && ok)
	r := g.Rand
	for rnd := (&vfRnd{g: g}); rnd.more(); {
		s := make([]int, 1+r.Intn(4))
		for i := range s {
			s[i] = 1 + r.Intn(1+r.Intn(20))
		}
		d := vfRandData(r)
		rnd.emit(map[string]any{"data": vrB(d), "chunks": vrI(s), "eof_with_data": r.Intn(2) == 0}, len(d))
	}
}

// ---------------------------------------------------------------- C06/crlf

func vfRunCRLF(in map[string]any) vrResult {
	recs := vfRecs(in["records"])
	if !vfInDomain(recs) {
		return vrResult{OK: true, Trivial: true, Observed: "outside the domain"}
	}
	lf := vfEncodeAll(recs, "\n")
	crlf := vfEncodeAll(recs, "\r\n")
	sig := "generic"
	if vfLongLine(crlf) {
		sig = vfSigLong
	}
	a, bad := vfAll(Reader(bytes.NewReader(lf)), len(recs)+10)
	if bad != "" {
		return vrResult{OK: false, Observed: "LF text: " + bad, Expected: "termination without panic", Signature: sig}
	}
	b, bad := vfAll(Reader(bytes.NewReader(crlf)), len(recs)+10)
	if bad != "" {
		return vrResult{OK: false, Observed: "CRLF text: " + bad, Expected: vfShow(a), Signature: sig}
	}
	if d := vfDiff(b, a); d != "" {
		return vrResult{OK: false, Observed: "CRLF decode vs LF decode: " + d + "; CRLF " + vfShow(b), Expected: "LF " + vfShow(a), Signature: sig}
	}
	return vrResult{OK: true, Trivial: len(recs) == 0}
}

func vfGenCRLF(g *vrGen) {
	complete := true
	emit := func(recs []any) bool {
		if g.Expired() {
			complete = false
			return false
		}
		g.Case(map[string]any{"records": recs})
		return true
	}
	ok := true
	// 65535-byte lines fit the scanner with LF but not with CRLF (known long-line defect)
	emit([]any{vfLongRec("s", 65533)})
	emit([]any{vfLongRec("s", 65535)})
	for n := 0; n <= 170 && ok; n++ {
		ok = emit([]any{vfLongRec("s", n)})
	}
	ok = ok && vfLists(vfSmallRecs(), 0, 2, func(l []vfRec) bool { return emit(vfRecsIn(l)) })
	g.Exhaustive(complete && ok)
	for rnd := (&vfRnd{g: g}); rnd.more(); {
		l := vfRandRecs(g.Rand, 5)
		rnd.emit(map[string]any{"records": vfRecsIn(l)}, vfSize(l))
	}
}

// ---------------------------------------------------------------- C06/file

func vfRunFile(in map[string]any) vrResult {
	data := vfBytes(in["data"])
	gz := vrBool(in["gz"])
	dir := vfTempDir()
	defer os.RemoveAll(dir)
	if vrBool(in["missing"]) {
		path := filepath.Join(dir, "nonexistent.fq")
		if gz {
			path += ".gz"
		}
		got, bad := vfAll(File(path), 10)
		if bad != "" {
			return vfFail("missing path: "+bad+"; "+vfShow(got), "exactly one item, with a non-nil error")
		}
		if len(got) != 1 || !got[0].IsErr {
			return vfFail("missing path: "+vfShow(got), "exactly one item, with a non-nil error")
		}
		return vrResult{OK: true}
	}
	path := vfWriteFile(dir, "data.fq", data, gz)
	limit := len(data) + 10
	want, bad := vfAll(Reader(bytes.NewReader(data)), limit)
	if bad != "" {
		return vfFail("Reader: "+bad, "termination without panic")
	}
	got, bad := vfAll(File(path), limit)
	if bad != "" {
		return vfFail("File: "+bad+"; "+vfShow(got), vfShow(want))
	}
	if d := vfDiff(got, want); d != "" {
		return vfFail("File: "+d+"; "+vfShow(got), "as Reader on the bytes: "+vfShow(want))
	}
	return vrResult{OK: true, Trivial: len(data) == 0}
}

func vfGenFile(g *vrGen) {
	complete := true
	emit := func(data any, gz, missing bool) bool {
		if g.Expired() {
			complete = false
			return false
		}
		g.Case(map[string]any{"data": data, "gz": gz, "missing": missing})
		return true
	}
	ok := emit(vrB(nil), false, true) && emit(vrB(nil), true, true)
	for _, d := range append(vfWellFormed(), vfBadFiles()...) {
		ok = ok && emit(vrB(d), false, false) && emit(vrB(d), true, false)
	}
	for _, n := range []int{2, 7} {
		ok = ok && emit(vfBigWellFormed(n), false, false) && emit(vfBigWellFormed(n), true, false)
	}
	ok = ok && vrWords(vfAlphabet, 3, func(w []byte) bool {
		return emit(vrB(w), false, false) && emit(vrB(w), true, false)
	})
	g.Exhaustive(complete && ok)
	for rnd := (&vfRnd{g: g}); rnd.more(); {
		d := vfRandData(g.Rand)
		rnd.emit(map[string]any{"data": vrB(d), "gz": g.Rand.Intn(2) == 0, "missing": false}, len(d))
	}
}

// ---------------------------------------------------------------- C07/read-fault

func vfRunReadFault(in map[string]any) vrResult {
	data := vfBytes(in["data"])
	off := vrInt(in["offset"])
	if off < 0 {
		off = 0
	}
	if off > len(data) {
		off = len(data)
	}
	mode := "once"
	if s, ok := in["mode"].(string); ok {
		mode = s
	}
	if mode != "once" && mode != "forever" {
		panic("harness: bad mode " + mode)
	}
	limit := len(data) + 10
	ref, bad := vfAll(Reader(bytes.NewReader(data)), limit)
	if bad != "" {
		return vfFail("fault-free decode: "+bad, "termination without panic")
	}
	var refRecs []vfItem
	for _, it := range ref {
		if !it.IsErr {
			refRecs = append(refRecs, it)
		}
	}
	fr := &vfFaultReader{data: data[:off], chunk: vrInt(in["chunk"]), forever: mode == "forever"}
	got, bad := vfAll(Reader(fr), limit)
	exp := fmt.Sprintf("leading records of the fault-free decode (%s), then a non-nil error, finitely many items", vfShow(refRecs))
	if bad != "" {
		return vfFail(bad+"; "+vfShow(got), exp)
	}
	nrec, nerr := 0, 0
	for i, it := range got {
		if it.IsErr {
			nerr++
			continue
		}
		if nrec >= len(refRecs) || !vfSameItem(it, refRecs[nrec]) {
			return vfFail(fmt.Sprintf("item %d is %s, not record %d of the fault-free decode; %s", i, vfShowItem(it), nrec, vfShow(got)), exp)
		}
		nrec++
	}
	if nerr == 0 {
		return vfFail("iteration ended without any error item; "+vfShow(got), exp)
	}
	return vrResult{OK: true}
}

func vfGenReadFault(g *vrGen) {
	complete := true
	emit := func(data any, off int, mode string, chunk int) bool {
		if g.Expired() {
			complete = false
			return false
		}
		in := map[string]any{"data": data, "offset": off, "mode": mode}
		if chunk > 0 {
			in["chunk"] = chunk
		}
		g.Case(in)
		return true
	}
	allOffsets := func(d []byte) bool {
		enc := vrB(d)
		for off := 0; off <= len(d); off++ {
			for _, m := range []string{"once", "forever"} {
				if !(emit(enc, off, m, 0) && emit(enc, off, m, 1)) {
					return false
				}
			}
		}
		return true
	}
	ok := true
	for _, d := range vfWellFormed() {
		ok = ok && allOffsets(d)
	}
	big := vfBigWellFormed(3) // 30021 bytes, records of 10007
	for _, off := range []int{4094, 4095, 4096, 4097, 4098, 5003, 5004, 5005, 5006, 5007, 8191, 8192, 8193, 10005, 10006, 10007, 10008, 10009,
		15011, 16384, 20013, 20014, 20015, 25020, 30019, 30020, 30021} {
		for _, m := range []string{"once", "forever"} {
			ok = ok && emit(big, off, m, 0) && emit(big, off, m, 4096)
		}
	}
	if g.Thorough() {
		// 3 records of 3007 bytes (1500-base reads): every offset
		rec := vfEncode(vfRec{[]byte("r"), bytes.Repeat([]byte("ACGTG"), 300), bytes.Repeat([]byte("I#5"), 500)}, "\n")
		mid := map[string]any{"pat": vrB(rec), "len": 3 * len(rec)}
		for off := 0; off <= 3*len(rec) && ok; off++ {
			ok = emit(mid, off, "once", 0) && emit(mid, off, "forever", 0)
		}
	}
	g.Exhaustive(complete && ok)
	for used := 0; !g.Expired() && used < vfMaxRandBytes; {
		nl := "\n"
		if g.Rand.Intn(3) == 0 {
			nl = "\r\n"
		}
		d := vfEncodeAll(vfRandRecs(g.Rand, 4), nl)
		if g.Rand.Intn(3) == 0 && len(d) > 0 && d[len(d)-len(nl)-1] != '\n' {
			d = d[:len(d)-len(nl)] // no final newline (only if the qualities are not empty)
		}
		if len(d) > 400 {
			continue // every offset repeats the whole data in the case key: keep the files small
		}
		enc := vrB(d)
		for off := 0; off <= len(d); off++ {
			if !emit(enc, off, []string{"once", "forever"}[g.Rand.Intn(2)], []int{0, 0, 1, 7}[g.Rand.Intn(4)]) {
				break
			}
		}
		used += (4*len(d) + 120) * (len(d) + 1)
	}
}

// ---------------------------------------------------------------- C07/write-fault

func vfRunWriteFault(in map[string]any) vrResult {
	m := vrMap(in["record"])
	r := vfRec{vfBytes(m["name"]), vfBytes(m["seq"]), vfBytes(m["quals"])}
	k := vrInt(in["k"])
	if k < 0 {
		k = 0
	}
	f := &Fastq{Name: bytes.Clone(r.Name), Sequence: bytes.Clone(r.Seq), Quals: bytes.Clone(r.Quals)}
	// full = number of bytes Write emits when nothing fails (the statement's
	// "everything was accepted"), measured rather than derived from a layout.
	var all bytes.Buffer
	var err error
	if p := vrCatch(func() { err = f.Write(&all) }); p != nil {
		return vfFail(fmt.Sprintf("Write to a bytes.Buffer panicked: %v", p), "no panic")
	}
	if err != nil {
		return vfFail(fmt.Sprintf("Write to a bytes.Buffer returned %v", err), "nil error")
	}
	full := all.Len()
	if p := vrCatch(func() { err = f.Write(&vfLimitWriter{left: k}) }); p != nil {
		return vfFail(fmt.Sprintf("Write panicked: %v", p), "no panic")
	}
	if k < full && err == nil {
		return vfFail(fmt.Sprintf("Write returned nil although the writer failed after %d of %d bytes", k, full), "non-nil error")
	}
	if k >= full && err != nil {
		return vfFail(fmt.Sprintf("Write returned %v although the writer accepts %d >= %d bytes", err, k, full), "nil error")
	}
	return vrResult{OK: true}
}

func vfGenWriteFault(g *vrGen) {
	complete := true
	allK := func(r vfRec) bool {
		full := len(vfEncode(r, "\n"))
		enc := vfRecIn(r)
		for k := 0; k <= full+1; k++ {
			if g.Expired() {
				complete = false
				return false
			}
			g.Case(map[string]any{"record": enc, "k": k})
		}
		return true
	}
	maxLen := 40
	if g.Thorough() {
		maxLen = 150
	}
	ok := true
	for _, name := range []string{"", "a", "@x y"} {
		for n := 0; n <= maxLen; n++ {
			ok = ok && allK(vfRec{[]byte(name), bytes.Repeat([]byte("ACGTN"), 60)[:n], bytes.Repeat([]byte("I#5+@"), 60)[:n]})
		}
	}
	// long reads (a writer that buffers internally must still report a fault
	// that only its last flush meets): k in the last 4200 bytes of the output
	// (and one past it; length 2100: every k, lengths 4097 and 5000: every 5th k
	// and every k in the last 256 bytes), every 97th k before.
	for _, n := range []int{2100, 4097, 5000} {
		full := 7 + 2*n // '@' 'a' LF seq LF '+' LF quals LF
		enc := map[string]any{"name": vrS("a"), "seq": vfPat("ACGTN", n), "quals": vfPat("I#5+@", n)}
		for k := 0; k <= full+1 && ok; k++ {
			if k < full-4200 && k%97 != 0 {
				continue
			}
			if n != 2100 && k >= full-4200 && k < full-256 && k%5 != 0 {
				continue
			}
			if g.Expired() {
				complete, ok = false, false
				break
			}
			g.Case(map[string]any{"record": enc, "k": k})
		}
	}
	g.Exhaustive(complete && ok)
	for rnd := (&vfRnd{g: g}); rnd.more(); {
		r := vfRandRec(g.Rand)
		full := len(vfEncode(r, "\n"))
		rnd.emit(map[string]any{"record": vfRecIn(r), "k": g.Rand.Intn(full + 3)}, full)
	}
}

// ---------------------------------------------------------------- C11/total

func vfRunTotal(in map[string]any) vrResult {
	data := vfBytes(in["data"])
	got, bad := vfAll(Reader(bytes.NewReader(data)), len(data)+10)
	if bad != "" {
		return vfFail(bad+"; "+vfShow(got), "termination without panic")
	}
	for i, it := range got {
		if it.IsErr {
			continue
		}
		if it.NilRec {
			return vfFail(fmt.Sprintf("item %d is (nil record, nil error); %s", i, vfShow(got)), "only records and errors")
		}
		r := it.Rec
		if !vfClean(r) {
			continue
		}
		f := &Fastq{Name: bytes.Clone(r.Name), Sequence: bytes.Clone(r.Seq), Quals: bytes.Clone(r.Quals)}
		var buf bytes.Buffer
		var werr error
		if p := vrCatch(func() { werr = f.Write(&buf) }); p != nil {
			return vfFail(fmt.Sprintf("Write of accepted record %d (%s) panicked: %v", i, vfShowItem(it), p), "no panic")
		}
		if werr != nil {
			return vfFail(fmt.Sprintf("Write of accepted record %d returned %v", i, werr), "nil error")
		}
		back, bad := vfAll(Reader(bytes.NewReader(buf.Bytes())), 10)
		if bad != "" {
			return vfFail(fmt.Sprintf("re-reading accepted record %d: %s", i, bad), "fixed point")
		}
		if d := vfDiff(back, []vfItem{{Rec: r}}); d != "" {
			return vfFail(fmt.Sprintf("accepted record %d %s written as %s reads back as %s", i, vfShowItem(it), vfShort(buf.Bytes()), vfShow(back)), "exactly the same record")
		}
	}
	return vrResult{OK: true, Trivial: len(data) == 0}
}

func vfGenTotal(g *vrGen) {
	complete := true
	maxL, maxLines := 6, 5
	if g.Thorough() {
		maxL, maxLines = 8, 6
	}
	emit := func(w []byte) bool {
		if g.Expired() {
			complete = false
			return false
		}
		g.Case(map[string]any{"data": vrB(w)})
		return true
	}
	ok := vfLineTexts(7, maxLines, emit)
	ok = ok && vrWords(vfAlphabet, maxL, emit)
	g.Exhaustive(complete && ok)
	for rnd := (&vfRnd{g: g}); rnd.more(); {
		d := vfRandData(g.Rand)
		rnd.emit(map[string]any{"data": vrB(d)}, len(d))
	}
}

// ---------------------------------------------------------------- C18/stop

func vfCheckStop(what string, mk func() iter.Seq2[*Fastq, error], stop, limit int) (res vrResult, n int) {
	full, bad := vfAll(mk(), limit)
	if bad != "" {
		return vfFail(what+" uninterrupted: "+bad, "termination without panic"), 0
	}
	for i, it := range full {
		if it.IsErr && i != len(full)-1 {
			return vfFail(fmt.Sprintf("%s uninterrupted: error item %d is followed by more items; %s", what, i, vfShow(full)), "an error item is the last item"), len(full)
		}
	}
	if stop <= 0 {
		return vrResult{OK: true, Trivial: true}, len(full)
	}
	got, extra, _, pan := vfDrive(mk(), stop, limit)
	want := full
	if stop < len(full) {
		want = full[:stop]
	}
	exp := fmt.Sprintf("no callback after the consumer stopped at item %d, no panic, items = %s", stop, vfShow(want))
	if pan != nil {
		return vfFail(fmt.Sprintf("%s stop=%d: panic: %v (after %d items, %d further callbacks)", what, stop, pan, len(got), extra), exp), len(full)
	}
	if extra > 0 {
		return vfFail(fmt.Sprintf("%s stop=%d: %d further callbacks after the consumer returned false", what, stop, extra), exp), len(full)
	}
	if d := vfDiff(got, want); d != "" {
		return vfFail(fmt.Sprintf("%s stop=%d: %s; %s", what, stop, d, vfShow(got)), exp), len(full)
	}
	return vrResult{OK: true}, len(full)
}

func vfRunStop(in map[string]any) vrResult {
	data := vfBytes(in["data"])
	stop := vrInt(in["stop"])
	limit := len(data) + 10
	if v, ok := in["fault"]; ok && v != nil && vrInt(v) >= 0 {
		// failing underlying reader: delivers data[:fault], then a non-EOF error
		// (once and then io.EOF, or forever). Reader only; gz and missing do not apply.
		off := vrInt(v)
		if off > len(data) {
			off = len(data)
		}
		forever := vrBool(in["forever"])
		what := fmt.Sprintf("Reader(reader failing after %d of %d bytes, forever=%v)", off, len(data), forever)
		res, _ := vfCheckStop(what, func() iter.Seq2[*Fastq, error] {
			return Reader(&vfFaultReader{data: data[:off], forever: forever})
		}, stop, limit)
		return res
	}
	dir := vfTempDir()
	defer os.RemoveAll(dir)
	if vrBool(in["missing"]) {
		path := filepath.Join(dir, "nonexistent.fq")
		res, _ := vfCheckStop("File(missing)", func() iter.Seq2[*Fastq, error] { return File(path) }, stop, limit)
		return res
	}
	res, n := vfCheckStop("Reader", func() iter.Seq2[*Fastq, error] { return Reader(bytes.NewReader(data)) }, stop, limit)
	if !res.OK {
		return res
	}
	path := vfWriteFile(dir, "data.fq", data, vrBool(in["gz"]))
	res2, _ := vfCheckStop("File", func() iter.Seq2[*Fastq, error] { return File(path) }, stop, limit)
	if !res2.OK {
		return res2
	}
	res2.Trivial = res2.Trivial || n == 0
	return res2
}

func vfGenStop(g *vrGen) {
	complete := true
	allStops := func(d []byte, gz bool) bool {
		items, _ := vfAll(Reader(bytes.NewReader(d)), len(d)+10)
		enc := vrB(d)
		for stop := 0; stop <= len(items)+1; stop++ {
			if g.Expired() {
				complete = false
				return false
			}
			in := map[string]any{"data": enc, "stop": stop}
			if gz {
				in["gz"] = true
			}
			g.Case(in)
		}
		return true
	}
	ok := true
	for stop := 0; stop <= 2; stop++ {
		g.Case(map[string]any{"data": vrB(nil), "stop": stop, "missing": true})
	}
	for _, d := range append(vfWellFormed(), vfBadFiles()...) {
		ok = ok && allStops(d, false)
	}
	many := bytes.Repeat([]byte("@r\nACGT\n+\nII#I\n"), 12)
	ok = ok && allStops(many, false) && allStops(many, true) && allStops(append(bytes.Clone(many), "@bad\n"...), false)
	maxL, nTok, maxLines := 4, 5, 4
	if g.Thorough() {
		maxL, nTok, maxLines = 5, 7, 5
	}
	ok = ok && vfLineTexts(nTok, maxLines, func(t []byte) bool { return allStops(t, false) })
	ok = ok && vrWords(vfAlphabet, maxL, func(w []byte) bool { return allStops(w, false) })
	// failing underlying reader: every fault offset x {once, forever} x every stop position
	allFaultStops := func(d []byte) bool {
		enc := vrB(d)
		for off := 0; off <= len(d); off++ {
			for _, forever := range []bool{false, true} {
				items, _ := vfAll(Reader(&vfFaultReader{data: d[:off], forever: forever}), len(d)+10)
				for stop := 0; stop <= len(items)+1; stop++ {
					if g.Expired() {
						complete = false
						return false
					}
					g.Case(map[string]any{"data": enc, "stop": stop, "fault": off, "forever": forever})
				}
			}
		}
		return true
	}
	wf, bad := vfWellFormed(), vfBadFiles()
	for _, d := range [][]byte{wf[0], wf[3], wf[4], wf[7], bad[0], bad[3]} {
		ok = ok && allFaultStops(d)
	}
	g.Exhaustive(complete && ok)
	for used := 0; !g.Expired() && used < vfMaxRandBytes; {
		d := vfRandData(g.Rand)
		allStops(d, g.Rand.Intn(4) == 0)
		used += (4*len(d) + 120) * 4
	}
}

// ---------------------------------------------------------------- C02/extern-scanlines
//
// Conformance of the assumed contract of bufio.Scanner + ScanLines (lnN / lnS /
// lnT / lnE in /verif/specs/00base.spec) with the real standard library. The
// clause does not call the repository. Input: {"pre":bytes,"data":bytes} (the
// stream is pre followed by data; both accept the compact form).

// vfxScan scans src with ScanLines after Buffer(nil, math.MaxInt). With wrap the
// split function is a wrapper around bufio.ScanLines that records the advance
// of every token. The tokens are copied when delivered.
func vfxScan(src io.Reader, wrap bool, limit int) (lines [][]byte, advs []int, err error, bad string) {
	sc := bufio.NewScanner(src)
	sc.Buffer(nil, math.MaxInt)
	if wrap {
		sc.Split(func(data []byte, atEOF bool) (int, []byte, error) {
			adv, tok, e := bufio.ScanLines(data, atEOF)
			if tok != nil || adv != 0 {
				advs = append(advs, adv)
			}
			return adv, tok, e
		})
	}
	if p := vrCatch(func() {
		for sc.Scan() {
			if len(lines) >= limit {
				bad = fmt.Sprintf("more than %d tokens", limit)
				return
			}
			lines = append(lines, append([]byte{}, sc.Bytes()...))
		}
		err = sc.Err()
		if sc.Scan() {
			bad = "Scan returns true after it returned false"
		}
	}); p != nil {
		bad = fmt.Sprintf("panic: %v", p)
	}
	return
}

func vfxSameLines(a, b [][]byte) bool {
	if len(a) != len(b) {
		return false
	}
	for i := range a {
		if !bytes.Equal(a[i], b[i]) {
			return false
		}
	}
	return true
}

func vfxRunScanLines(in map[string]any) vrResult {
	data := append(vfBytes(in["pre"]), vfBytes(in["data"])...)
	end := len(data)
	const exp = "every lnN/lnS/lnT/lnE axiom of /verif/specs/00base.spec holds for the real bufio.Scanner with ScanLines, and Err() == nil"
	fail := func(f string, a ...any) vrResult {
		return vrResult{Observed: fmt.Sprintf("stream %s: ", vfShort(data)) + fmt.Sprintf(f, a...), Expected: exp, Signature: "extern:scanlines"}
	}
	limit := end + 2
	lines, _, err, bad := vfxScan(bytes.NewReader(data), false, limit)
	if bad != "" || err != nil {
		return fail("bytes.Reader: %s, Err() = %v", bad, err)
	}
	lines2, _, err, bad := vfxScan(bytes.NewBuffer(append([]byte(nil), data...)), false, limit)
	if bad != "" || err != nil {
		return fail("bytes.Buffer: %s, Err() = %v", bad, err)
	}
	lines3, advs, err, bad := vfxScan(bytes.NewReader(data), true, limit)
	if bad != "" || err != nil {
		return fail("recording split function: %s, Err() = %v", bad, err)
	}
	if !vfxSameLines(lines, lines2) || !vfxSameLines(lines, lines3) {
		return fail("the three scans deliver different tokens (%d, %d, %d tokens)", len(lines), len(lines2), len(lines3))
	}
	if len(advs) != len(lines) {
		return fail("%d tokens but %d recorded advances", len(lines), len(advs))
	}
	at := func(j int) int { // in[j]; -1 outside the stream
		if j < 0 || j >= end {
			return -1
		}
		return int(data[j])
	}
	// the spec functions, from the real result
	lnN := len(lines)
	lnS := make([]int, lnN+1)
	lnT := make([]int, lnN)
	lnE := make([]int, lnN)
	for k := 0; k < lnN; k++ {
		lnS[k+1] = lnS[k] + advs[k]
		lnE[k] = lnS[k] + len(lines[k])
		lnT[k] = lnS[k+1]
		if lnT[k]-1 >= lnS[k] && at(lnT[k]-1) == 10 {
			lnT[k]--
		}
	}
	// (1) end >= 0 ==> lnN >= 0 && lnS(0) == 0 && lnS(lnN) == end
	if !(lnN >= 0 && lnS[0] == 0 && lnS[lnN] == end) {
		return fail("axiom (1): lnN = %d, lnS(0) = %d, lnS(lnN) = %d, end = %d", lnN, lnS[0], lnS[lnN], end)
	}
	for k := 0; k < lnN; k++ {
		// (2) 0 <= k < lnN ==> 0 <= lnS(k) && lnS(k) < end
		if !(0 <= lnS[k] && lnS[k] < end) {
			return fail("axiom (2): k = %d, lnS(k) = %d, end = %d", k, lnS[k], end)
		}
		// (3)
		next := end
		if lnT[k] < end {
			next = lnT[k] + 1
		}
		e := lnT[k]
		if lnT[k] > lnS[k] && at(lnT[k]-1) == 13 {
			e = lnT[k] - 1
		}
		if !(lnS[k] <= lnT[k] && lnT[k] <= end && (!(lnT[k] < end) || at(lnT[k]) == 10) && lnS[k+1] == next && lnE[k] == e) {
			return fail("axiom (3): k = %d, lnS(k) = %d, lnT(k) = %d, lnE(k) = %d, lnS(k+1) = %d, end = %d, token %s", k, lnS[k], lnT[k], lnE[k], lnS[k+1], end, vfShort(lines[k]))
		}
		// (4) lnS(k) <= j < lnT(k) ==> in[j] != 10
		for j := lnS[k]; j < lnT[k]; j++ {
			if !(at(j) != 10) {
				return fail("axiom (4): k = %d, LF at j = %d inside [lnS(k), lnT(k)) = [%d, %d)", k, j, lnS[k], lnT[k])
			}
		}
		// (6) token k is in[lnS(k):lnE(k)]
		for j := 0; j < len(lines[k]); j++ {
			if !(int(lines[k][j]) == at(lnS[k]+j)) {
				return fail("token %d differs from in[lnS(k)+j] at j = %d (lnS(k) = %d): token %s", k, j, lnS[k], vfShort(lines[k]))
			}
		}
	}
	// (5) 0 <= k <= lnN && lnS(k) < end ==> k < lnN
	for k := 0; k <= lnN; k++ {
		if !(!(lnS[k] < end) || k < lnN) {
			return fail("axiom (5): k = %d = lnN, lnS(k) = %d < end = %d", k, lnS[k], end)
		}
	}
	return vrResult{OK: true, Trivial: end == 0}
}

func vfxGenScanLines(g *vrGen) {
	maxLen := 6
	if g.Thorough() {
		maxLen = 9
	}
	vrWords([]byte{'\n', '\r', 'a', 0x00}, maxLen, func(w []byte) bool {
		g.Case(map[string]any{"pre": vrB(nil), "data": vrB(w)})
		return true
	})
	for _, pat := range []string{"a", "abcdefg\r\n", "\n", "\r", "\r\n"} {
		for _, n := range []int{4095, 4096, 4097, 8191, 8192, 8193} {
			for _, tail := range []string{"", "\nb"} {
				g.Case(map[string]any{"pre": vfPat(pat, n), "data": vrS(tail)})
			}
		}
	}
	for _, n := range []int{65535, 65536, 70000} {
		for _, tail := range []string{"", "\n", "\r\n", "\r", "\nb", "\r\nb\n"} {
			g.Case(map[string]any{"pre": vfPat("a", n), "data": vrS(tail)})
		}
	}
	g.Exhaustive(true)
	max := 4000
	if g.Thorough() {
		max = 300000
	}
	alpha := []byte{'\n', '\n', '\r', 'a', 'b', 0x00, 0xff, ' '}
	rnd := &vfRnd{g: g}
	for i := 0; i < max && rnd.more(); i++ {
		n := g.Rand.Intn(201)
		if g.Rand.Intn(64) == 0 {
			n = g.Rand.Intn(9001)
		}
		w := vrRandWord(g.Rand, alpha, n)
		if g.Rand.Intn(4) == 0 {
			w = bytes.ReplaceAll(w, []byte("\n"), []byte("\r\n"))
		}
		rnd.emit(map[string]any{"pre": vrB(nil), "data": vrB(w)}, len(w))
	}
}
