package fasta

// Bounded / replay harness of formats/fasta (see /verif/replay/README.md).
// Injected with `go test -overlay`; not part of the repository.
//
// func (*Fasta).Write       -> clauses C01/roundtrip, C01/marshal-list, C07/write-fault
// func (*Fasta).MarshalText -> clauses C01/roundtrip, C01/marshal-list
// func Reader               -> clauses C01/roundtrip, C01/layout, C01/marshal-list, C06/chunking, C06/crlf,
//                              C07/read-fault, C11/total, C18/stop
// func File                 -> clauses C06/file, C18/stop
//
// Input conventions: byte strings are JSON arrays of ints; every byte string
// (data, name, seq) may alternatively be the compact object
// {"pat":[bytes],"len":N} = pat repeated cyclically up to N bytes (used for
// inputs of 64 KiB .. MiB so that cases stay small and replayable).
// A record is {"name":bytes,"seq":bytes}.

import (
	"bytes"
	"compress/gzip"
	"errors"
	"fmt"
	"io"
	"iter"
	"math/rand"
	"os"
	"path/filepath"
	"strings"
	"testing"
)

func TestVerif(t *testing.T) { vrMain(t, vfClauses) }

// ---------------------------------------------------------------- helpers

type vfRec struct{ Name, Seq []byte }

// vfItem is one callback of an iterator, copied at callback time.
type vfItem struct {
	IsErr  bool // err != nil
	NilRec bool // record pointer was nil
	ErrTxt string
	Rec    vfRec
}

var errVfFault = errors.New("verif: injected fault")

const vfMaxLen = 64 << 20

// vfRnd drives a random phase: until the clause's time budget ends, or until
// the (estimated) JSON size of the cases emitted reaches vfMaxRandBytes (the
// common helper keeps every case key in memory).
type vfRnd struct {
	g    *vrGen
	used int
}

const vfMaxRandBytes = 256 << 20

func (r *vfRnd) more() bool { return !r.g.Expired() && r.used < vfMaxRandBytes }

func (r *vfRnd) emit(in map[string]any, size int) {
	r.g.Case(in)
	r.used += 4*size + 120
}

func vfSize(rs []vfRec) int {
	n := 0
	for _, r := range rs {
		n += len(r.Name) + len(r.Seq) + 8
	}
	return n
}

func vfBytes(v any) []byte {
	if m, ok := v.(map[string]any); ok {
		pat := vrBytes(m["pat"])
		n := vrInt(m["len"])
		if n <= 0 {
			return nil
		}
		if len(pat) == 0 || n > vfMaxLen {
			panic("harness: bad compact byte string")
		}
		out := make([]byte, n)
		for i := range out {
			out[i] = pat[i%len(pat)]
		}
		return out
	}
	return vrBytes(v)
}

func vfPat(pat string, n int) map[string]any {
	return map[string]any{"pat": vrS(pat), "len": n}
}

func vfRecs(v any) []vfRec {
	var out []vfRec
	for _, e := range vrList(v) {
		m := vrMap(e)
		out = append(out, vfRec{vfBytes(m["name"]), vfBytes(m["seq"])})
	}
	return out
}

func vfRecIn(r vfRec) map[string]any {
	return map[string]any{"name": vrB(r.Name), "seq": vrB(r.Seq)}
}

func vfRecsIn(rs []vfRec) []any {
	out := make([]any, len(rs))
	for i, r := range rs {
		out[i] = vfRecIn(r)
	}
	return out
}

func vfHasAny(b []byte, set string) bool { return bytes.ContainsAny(b, set) }

// vfInDomain: names and sequences free of CR/LF, sequences free of '>'.
func vfInDomain(rs []vfRec) bool {
	for _, r := range rs {
		if vfHasAny(r.Name, "\r\n") || vfHasAny(r.Seq, "\r\n>") {
			return false
		}
	}
	return true
}

func vfMkItem(f *Fasta, err error) vfItem {
	it := vfItem{}
	if err != nil {
		it.IsErr = true
		it.ErrTxt = fmt.Sprint(err)
	}
	if f == nil {
		it.NilRec = true
	} else {
		it.Rec = vfRec{bytes.Clone(f.Name), bytes.Clone(f.Sequence)}
	}
	return it
}

// vfDrive runs seq with a consumer that stops (returns false) at its stop-th
// item (stop <= 0: never stops). The run is cut at limit items (overflow).
// extra counts callbacks made after the consumer had returned false.
func vfDrive(seq iter.Seq2[*Fasta, error], stop, limit int) (items []vfItem, extra int, overflow bool, pan any) {
	stopped := false
	pan = vrCatch(func() {
		seq(func(f *Fasta, err error) bool {
			if stopped {
				extra++
				if extra > 1000 {
					panic("verif: iterator keeps calling back after the consumer stopped")
				}
				return false
			}
			items = append(items, vfMkItem(f, err))
			if stop > 0 && len(items) >= stop {
				stopped = true
				return false
			}
			if len(items) >= limit {
				overflow = true
				stopped = true
				return false
			}
			return true
		})
	})
	return
}

// vfAll: uninterrupted run (consumer keeps going past errors), capped.
func vfAll(seq iter.Seq2[*Fasta, error], limit int) (items []vfItem, bad string) {
	items, _, overflow, pan := vfDrive(seq, 0, limit)
	if pan != nil {
		return items, fmt.Sprintf("panic: %v", pan)
	}
	if overflow {
		return items, fmt.Sprintf("iteration did not end within %d items", limit)
	}
	return items, ""
}

func vfSameItem(a, b vfItem) bool {
	if a.IsErr != b.IsErr {
		return false
	}
	if a.IsErr {
		return true // error texts are not compared
	}
	return a.NilRec == b.NilRec && bytes.Equal(a.Rec.Name, b.Rec.Name) && bytes.Equal(a.Rec.Seq, b.Rec.Seq)
}

// vfDiff returns "" if the two item sequences are the same, else a description.
func vfDiff(got, want []vfItem) string {
	for i := 0; i < len(got) && i < len(want); i++ {
		if !vfSameItem(got[i], want[i]) {
			return fmt.Sprintf("item %d differs: got %s, want %s", i, vfShowItem(got[i]), vfShowItem(want[i]))
		}
	}
	if len(got) != len(want) {
		return fmt.Sprintf("%d items, want %d", len(got), len(want))
	}
	return ""
}

func vfItemsOf(rs []vfRec) []vfItem {
	out := make([]vfItem, len(rs))
	for i, r := range rs {
		out[i] = vfItem{Rec: r}
	}
	return out
}

func vfShort(b []byte) string {
	if len(b) > 40 {
		return fmt.Sprintf("%q...(%d bytes)", b[:40], len(b))
	}
	return fmt.Sprintf("%q", b)
}

func vfShowItem(it vfItem) string {
	if it.IsErr {
		return fmt.Sprintf("err(%s)", it.ErrTxt)
	}
	if it.NilRec {
		return "(nil,nil)"
	}
	return fmt.Sprintf("rec(name=%s seq=%s)", vfShort(it.Rec.Name), vfShort(it.Rec.Seq))
}

func vfShow(items []vfItem) string {
	var sb strings.Builder
	fmt.Fprintf(&sb, "%d items:", len(items))
	for i, it := range items {
		if i >= 8 {
			sb.WriteString(" ...")
			break
		}
		sb.WriteString(" " + vfShowItem(it))
	}
	return sb.String()
}

func vfFail(obs, exp string) vrResult {
	return vrResult{OK: false, Observed: obs, Expected: exp, Signature: "generic"}
}

// vfEncode is the reference writer: '>' name, then the sequence in lines of 80.
func vfEncode(r vfRec, nl string) []byte {
	out := append([]byte{'>'}, r.Name...)
	out = append(out, nl...)
	for i := 0; i < len(r.Seq); i += 80 {
		to := i + 80
		if to > len(r.Seq) {
			to = len(r.Seq)
		}
		out = append(out, r.Seq[i:to]...)
		out = append(out, nl...)
	}
	return out
}

func vfEncodeAll(rs []vfRec, nl string) []byte {
	var out []byte
	for _, r := range rs {
		out = append(out, vfEncode(r, nl)...)
	}
	return out
}

// vfCheckLayout checks the writer layout the statement fixes: a '>' name line,
// then LF-terminated sequence lines of at most 80 characters that concatenate
// to the sequence. (r in the domain.)
func vfCheckLayout(out []byte, r vfRec) string {
	head := append(append([]byte{'>'}, r.Name...), '\n')
	if !bytes.HasPrefix(out, head) {
		return "output does not start with the line '>'+name"
	}
	body := out[len(head):]
	if len(body) > 0 && body[len(body)-1] != '\n' {
		return "last sequence line is not newline-terminated"
	}
	cat := make([]byte, 0, len(r.Seq))
	for len(body) > 0 {
		i := bytes.IndexByte(body, '\n')
		if i > 80 {
			return fmt.Sprintf("sequence line of %d > 80 characters", i)
		}
		cat = append(cat, body[:i]...)
		body = body[i+1:]
	}
	if !bytes.Equal(cat, r.Seq) {
		return "sequence lines do not concatenate to the sequence"
	}
	return ""
}

// vfLayout lays the records out with the given line widths (cycled), blank
// lines between lines (counts cycled), line terminator and final newline.
func vfLayout(rs []vfRec, widths, blank []int, crlf, finalNL bool) []byte {
	var lines [][]byte
	wi := 0
	for _, r := range rs {
		lines = append(lines, append([]byte{'>'}, r.Name...))
		for s := r.Seq; len(s) > 0; {
			w := widths[wi%len(widths)]
			wi++
			if w > len(s) {
				w = len(s)
			}
			lines = append(lines, s[:w])
			s = s[w:]
		}
	}
	nl := "\n"
	if crlf {
		nl = "\r\n"
	}
	var out []byte
	for i, l := range lines {
		out = append(out, l...)
		if i < len(lines)-1 {
			out = append(out, nl...)
			if len(blank) > 0 {
				for k := 0; k < blank[i%len(blank)]; k++ {
					out = append(out, nl...)
				}
			}
		} else if finalNL {
			out = append(out, nl...)
		}
	}
	return out
}

// vfChunkReader returns data in the given chunk sizes (cycled).
type vfChunkReader struct {
	data    []byte
	pos     int
	sizes   []int
	i       int
	eofData bool
}

func (c *vfChunkReader) Read(p []byte) (int, error) {
	if c.pos >= len(c.data) {
		return 0, io.EOF
	}
	if len(p) == 0 {
		return 0, nil
	}
	n := 1
	if len(c.sizes) > 0 {
		n = c.sizes[c.i%len(c.sizes)]
		c.i++
	}
	if n < 1 {
		n = 1
	}
	if n > len(p) {
		n = len(p)
	}
	if n > len(c.data)-c.pos {
		n = len(c.data) - c.pos
	}
	copy(p, c.data[c.pos:c.pos+n])
	c.pos += n
	if c.pos == len(c.data) && c.eofData {
		return n, io.EOF
	}
	return n, nil
}

// vfFaultReader delivers data, then fails (once then EOF, or forever).
type vfFaultReader struct {
	data    []byte
	pos     int
	chunk   int
	forever bool
	fired   bool
}

func (f *vfFaultReader) Read(p []byte) (int, error) {
	if len(p) == 0 {
		return 0, nil
	}
	if f.pos < len(f.data) {
		n := len(f.data) - f.pos
		if f.chunk > 0 && n > f.chunk {
			n = f.chunk
		}
		if n > len(p) {
			n = len(p)
		}
		copy(p, f.data[f.pos:f.pos+n])
		f.pos += n
		return n, nil
	}
	if !f.fired || f.forever {
		f.fired = true
		return 0, errVfFault
	}
	return 0, io.EOF
}

// vfLimitWriter accepts left bytes in total, then fails.
type vfLimitWriter struct{ left int }

func (w *vfLimitWriter) Write(p []byte) (int, error) {
	if len(p) <= w.left {
		w.left -= len(p)
		return len(p), nil
	}
	n := w.left
	w.left = 0
	return n, errVfFault
}

func vfRandName(r *rand.Rand, n int) []byte {
	b := make([]byte, n)
	for i := range b {
		switch r.Intn(4) {
		case 0:
			b[i] = ">> \t@+|a%"[r.Intn(9)]
		default:
			c := byte(r.Intn(256))
			for c == '\r' || c == '\n' {
				c = byte(r.Intn(256))
			}
			b[i] = c
		}
	}
	return b
}

func vfRandSeq(r *rand.Rand, n int) []byte {
	b := make([]byte, n)
	for i := range b {
		if r.Intn(2) == 0 {
			b[i] = "ACGTNacgt-*%"[r.Intn(12)]
			continue
		}
		c := byte(r.Intn(256))
		for c == '\r' || c == '\n' || c == '>' {
			c = byte(r.Intn(256))
		}
		b[i] = c
	}
	return b
}

var vfLens = []int{0, 1, 2, 79, 80, 81, 159, 160, 161, 239, 240, 241}

func vfRandRec(r *rand.Rand) vfRec {
	var n int
	switch r.Intn(3) {
	case 0:
		n = vfLens[r.Intn(len(vfLens))]
	case 1:
		n = r.Intn(8)
	default:
		n = r.Intn(260)
	}
	return vfRec{vfRandName(r, r.Intn(4)*r.Intn(4)), vfRandSeq(r, n)}
}

func vfRandRecs(r *rand.Rand, maxN int) []vfRec {
	n := r.Intn(maxN + 1)
	rs := make([]vfRec, n)
	for i := range rs {
		rs[i] = vfRandRec(r)
	}
	return rs
}

// vfSmallRecs: names over {'>','x'} of length <= 2, sequences A^0..A^3 (28 records).
func vfSmallRecs() []vfRec {
	var out []vfRec
	vrWords([]byte{'>', 'x'}, 2, func(w []byte) bool {
		for l := 0; l <= 3; l++ {
			out = append(out, vfRec{bytes.Clone(w), bytes.Repeat([]byte{'A'}, l)})
		}
		return true
	})
	return out
}

// vfLists enumerates all lists of 0..maxN elements of set.
func vfLists(set []vfRec, maxN int, f func([]vfRec) bool) bool {
	cur := make([]vfRec, 0, maxN)
	var rec func(n int) bool
	rec = func(n int) bool {
		if len(cur) == n {
			return f(cur)
		}
		for _, r := range set {
			cur = append(cur, r)
			ok := rec(n)
			cur = cur[:len(cur)-1]
			if !ok {
				return false
			}
		}
		return true
	}
	for n := 0; n <= maxN; n++ {
		if !rec(n) {
			return false
		}
	}
	return true
}

// vfCompositions enumerates all compositions (ordered partitions) of n >= 1.
func vfCompositions(n int, f func([]int) bool) bool {
	var cur []int
	var rec func(rest int) bool
	rec = func(rest int) bool {
		if rest == 0 {
			return f(cur)
		}
		for k := 1; k <= rest; k++ {
			cur = append(cur, k)
			ok := rec(rest - k)
			cur = cur[:len(cur)-1]
			if !ok {
				return false
			}
		}
		return true
	}
	if n <= 0 {
		return f([]int{1})
	}
	return rec(n)
}

var vfAlphabet = []byte{'>', '\n', '\r', 'A'}

// vfWellFormed: a corpus of small well-formed files.
func vfWellFormed() [][]byte {
	rs := func(r ...vfRec) []vfRec { return r }
	s := func(n int) []byte { return bytes.Repeat([]byte("ACGT"), (n+3)/4)[:n] }
	var out [][]byte
	lists := [][]vfRec{
		rs(vfRec{[]byte("a"), []byte("ACGT")}),
		rs(vfRec{nil, nil}),
		rs(vfRec{nil, nil}, vfRec{nil, nil}),
		rs(vfRec{[]byte("a"), nil}, vfRec{[]byte("b b"), []byte("G")}),
		rs(vfRec{[]byte(">a>"), []byte("AC")}, vfRec{nil, []byte("T")}, vfRec{[]byte("c"), nil}),
		rs(vfRec{[]byte("w"), s(81)}, vfRec{[]byte("v"), s(80)}),
		rs(vfRec{[]byte("w"), s(161)}),
	}
	for _, l := range lists {
		out = append(out, vfEncodeAll(l, "\n"))
	}
	out = append(out, vfEncodeAll(lists[3], "\r\n"))
	out = append(out, vfLayout(lists[4], []int{1, 2}, []int{1, 0}, false, false))
	out = append(out, []byte("ACGT\nAC\n>b\nG\n")) // first record without a name line
	return out
}

func vfMutate(r *rand.Rand, data []byte) []byte {
	out := bytes.Clone(data)
	for k := 1 + r.Intn(3); k > 0; k-- {
		c := vfAlphabet[r.Intn(len(vfAlphabet))]
		if r.Intn(3) == 0 {
			c = byte(r.Intn(256))
		}
		switch op := r.Intn(3); {
		case op == 0 && len(out) > 0:
			out[r.Intn(len(out))] = c
		case op == 1 && len(out) > 0:
			i := r.Intn(len(out))
			out = append(out[:i], out[i+1:]...)
		default:
			i := r.Intn(len(out) + 1)
			out = append(out[:i], append([]byte{c}, out[i:]...)...)
		}
	}
	return out
}

// vfRandData: arbitrary / near-valid bytes.
func vfRandData(r *rand.Rand) []byte {
	switch r.Intn(4) {
	case 0:
		return vrRandWord(r, vfAlphabet, r.Intn(24))
	case 1:
		b := make([]byte, r.Intn(40))
		for i := range b {
			b[i] = byte(r.Intn(256))
		}
		return b
	case 2:
		return vfMutate(r, vfEncodeAll(vfRandRecs(r, 3), "\n"))
	default:
		return vfLayout(vfRandRecs(r, 3), []int{1 + r.Intn(90)}, []int{r.Intn(2)}, r.Intn(2) == 0, r.Intn(2) == 0)
	}
}

func vfTempDir() string {
	dir, err := os.MkdirTemp("", "verif-fasta-")
	if err != nil {
		panic("harness: " + err.Error())
	}
	return dir
}

func vfWriteFile(dir, base string, data []byte, gz bool) string {
	path := filepath.Join(dir, base)
	if gz {
		path += ".gz"
		var zb bytes.Buffer
		zw := gzip.NewWriter(&zb)
		if _, err := zw.Write(data); err != nil {
			panic("harness: " + err.Error())
		}
		if err := zw.Close(); err != nil {
			panic("harness: " + err.Error())
		}
		data = zb.Bytes()
	}
	if err := os.WriteFile(path, data, 0o600); err != nil {
		panic("harness: " + err.Error())
	}
	return path
}

// ---------------------------------------------------------------- clauses

var vfClauses = []vrClause{
	{
		Prop: "C01", Name: "roundtrip",
		Bound: "exhaustive: all lists of <=2 (thorough <=3) records with name in {'>','x'}^<=2 and seq in A^0..3; " +
			"every single record with seq length 0..330 (thorough 0..2000) and 65535,65536,65537,70000 (thorough also 1 MiB, 3 MiB+7); " +
			"one file holding the lengths 0,1,2,79,80,81,159,160,161,239,240,241; the texts %, 50%, %d, %s%s, 100%%, %!, a%vb as name, as sequence, and as name with the text repeated 30 times as sequence; then random lists of <=5 records over all bytes of the domain until the budget ends",
		Rule: "Write to a buffer has err==nil, MarshalText bytes == Write bytes, output = '>'name LF then LF-terminated lines of <=80 chars concatenating to seq; " +
			"Reader over the concatenation yields exactly the written names/sequences in order and no error",
		Gen: vfGenRoundtrip,
		Run: vfRunRoundtrip,
	},
	{
		Prop: "C01", Name: "layout",
		Bound: "exhaustive: a single record (name 'n') of every seq length 3900..4100 and 7900..8100 in 80-column CRLF lines with final newline (texts crossing one and two 4096-byte buffer fills at every alignment of the CRs); " +
			"single records (name '' or 'n>') with seq length 0..6 (thorough 0..9) at every composition of the length into line widths x blank in {none,[1],[0,2]} x LF/CRLF x final newline or not; " +
			"all pairs of 5 small records at widths [1],[2],[80]; then random records/widths/blank counts (incl. one 70000-char single line) until the budget ends",
		Rule: "Reader over the re-laid-out text (widths cycled, blank lines only between lines, CRLF, optional final newline) yields exactly the records, no error",
		Gen:  vfGenLayout,
		Run:  vfRunLayout,
	},
	{
		Prop: "C01", Name: "marshal-list",
		Bound: "exhaustive: all ordered pairs of the 28 small records (name in {'>','x'}^<=2, seq in A^0..3); all ordered pairs of marked records with the sequence lengths 0,1,2,79,80,81,159,160,161,239,240,241; " +
			"the 12 marked records in increasing, decreasing and alternating length order (windows of 6); then random lists of 2..6 records of pairwise different sizes over all bytes of the domain until the budget ends",
		Rule: "MarshalText is called on every record of the list first and the returned slices are kept untouched; afterwards each kept slice is byte-identical to what Write of that record puts into a fresh buffer " +
			"(a result is not clobbered by later MarshalText/Write calls); Reader over the kept slices joined yields exactly the records in order; " +
			"Write of all records into one shared buffer emits the concatenation of those bytes and reads back as the same list",
		Gen: vfGenMarshalList,
		Run: vfRunMarshalList,
	},
	{
		Prop: "C06", Name: "chunking",
		Bound: "exhaustive: all byte strings over {'>',LF,CR,'A'} of length <=4 (thorough <=6) x every partition into successive reads x EOF with/without the last data; " +
			"length 5 (thorough 7) with chunk sizes [1],[2],[3],[1,2],[whole]; well-formed corpus incl. >4096 and >64 KiB inputs at sizes around the bufio buffer; then random",
		Rule: "Reader over a reader delivering the given chunk sizes (cycled; optionally the last chunk together with io.EOF) yields the same record/error sequence as Reader over bytes.NewReader(data)",
		Gen:  vfGenChunking,
		Run:  vfRunChunking,
	},
	{
		Prop: "C06", Name: "crlf",
		Bound: "exhaustive: all lists of <=2 records with name in {'>','x'}^<=2, seq in A^0..3; single records of every length 0..170 and (name 'n') 3900..4100, 7900..8100 (CRLF texts crossing one and two 4096-byte buffer fills at every alignment); 4 small lists x 6 blank-line patterns (after every line, after some lines, trailing); then random record lists, a third of them with random blank-line patterns",
		Rule:  "the reference encoding with LF (with optional \"blank\": blank[i mod len] extra empty lines after its i-th line, also after the last) and the same text with every LF replaced by CRLF decode to the same item sequence",
		Gen:   vfGenCRLF,
		Run:   vfRunCRLF,
	},
	{
		Prop: "C06", Name: "file",
		Bound: "exhaustive: all byte strings over {'>',LF,CR,'A'} of length <=3 x {plain, .gz}; missing path x {plain name, .gz name}; well-formed corpus incl. 5000-byte and 70000-byte files; then random data",
		Rule:  "File(path) on a temp file holding data (plain, or gzip-compressed and named *.gz) yields the same item sequence as Reader(bytes.NewReader(data)); File(nonexistent path) yields exactly one item and it carries a non-nil error",
		Gen:   vfGenFile,
		Run:   vfRunFile,
	},
	{
		Prop: "C07", Name: "read-fault",
		Bound: "exhaustive: every fault offset 0..len of each file of a fixed corpus of 10 small well-formed files x {once,forever} x {whole, 1-byte reads}; offsets around 4096 and 8192 of a 9000-byte file; then every offset of random well-formed files until the budget ends",
		Rule: "reader delivers data[:offset] then a non-EOF error (once then EOF / forever): no panic, ends within len(data)+10 items although the consumer keeps going, " +
			"the i-th record item equals the i-th record of the fault-free decode, and at least one non-nil error item appears",
		Gen: vfGenReadFault,
		Run: vfRunReadFault,
	},
	{
		Prop: "C07", Name: "write-fault",
		Bound: "exhaustive: names {'', 'a', '>x y'} x seq lengths {0,1,2,79,80,81,160,161} (thorough every length 0..250) x every k in 0..len(output)+1; " +
			"name 'a' x seq lengths {4097, 5000, 10000} x k in the last 4200 bytes of the output .. len(output)+1 (length 5000: every k; 4097 and 10000: every 5th k and every k in the last 256 bytes) and every 97th k before; then random records with random k",
		Rule: "Write to a writer that accepts k bytes in total and then fails returns a non-nil error iff k < the number of bytes Write emits to a writer that never fails; no panic",
		Gen:  vfGenWriteFault,
		Run:  vfRunWriteFault,
	},
	{
		Prop: "C11", Name: "total",
		Bound: "exhaustive: all byte strings over {'>',LF,CR,'A'} of length <=7 (thorough <=9); then random bytes, random alphabet words, mutated well-formed files and random layouts until the budget ends",
		Rule: "Reader on arbitrary bytes: no panic, ends within len(data)+10 items, every item is a record (non-nil, err==nil) or an error; every accepted record with name free of CR/LF and " +
			"sequence free of CR/LF/'>' is written by Write without error and read back as exactly that one record",
		Gen: vfGenTotal,
		Run: vfRunTotal,
	},
	{
		Prop: "C18", Name: "stop",
		Bound: "exhaustive: all byte strings over {'>',LF,CR,'A'} of length <=4 (thorough <=5) and a corpus of well-formed files (up to 12 records) x every stop position 0..N+1, for Reader and File; File on a missing path stopped at its error item; " +
			"failing underlying reader (Reader only): 5 small well-formed files of the corpus x every fault offset 0..len x {fails once then EOF, fails forever} x every stop position 0..N+1 (N = items of the uninterrupted run with that fault); then random data x every stop (no fault)",
		Rule: "consumer returns false at item number stop: no further callback, no panic, items seen = first stop items of the uninterrupted run; in the uninterrupted run an error item is the last item. " +
			"Checked for Reader(bytes) and for File(temp file); with \"fault\" >= 0 instead for Reader over a reader that delivers data[:fault] and then fails with a non-EOF error (\"forever\": every time, else once and then io.EOF), " +
			"a fresh such reader for the uninterrupted and for the stopped run",
		Gen: vfGenStop,
		Run: vfRunStop,
	},
}

// ---------------------------------------------------------------- C01/roundtrip

func vfRunRoundtrip(in map[string]any) vrResult {
	recs := vfRecs(in["records"])
	if !vfInDomain(recs) {
		return vrResult{OK: true, Trivial: true, Observed: "outside the domain"}
	}
	var all []byte
	for i, r := range recs {
		f := &Fasta{Name: bytes.Clone(r.Name), Sequence: bytes.Clone(r.Seq)}
		var buf bytes.Buffer
		var werr error
		if p := vrCatch(func() { werr = f.Write(&buf) }); p != nil {
			return vfFail(fmt.Sprintf("record %d: Write panicked: %v", i, p), "no panic")
		}
		if werr != nil {
			return vfFail(fmt.Sprintf("record %d: Write to a bytes.Buffer returned %v", i, werr), "nil error")
		}
		var mt []byte
		var merr error
		if p := vrCatch(func() { mt, merr = f.MarshalText() }); p != nil {
			return vfFail(fmt.Sprintf("record %d: MarshalText panicked: %v", i, p), "no panic")
		}
		if merr != nil {
			return vfFail(fmt.Sprintf("record %d: MarshalText returned %v", i, merr), "nil error")
		}
		if !bytes.Equal(mt, buf.Bytes()) {
			return vfFail(fmt.Sprintf("record %d: MarshalText %s != Write %s", i, vfShort(mt), vfShort(buf.Bytes())), "identical bytes")
		}
		if msg := vfCheckLayout(buf.Bytes(), r); msg != "" {
			return vfFail(fmt.Sprintf("record %d: %s; output %s", i, msg, vfShort(buf.Bytes())), "'>'name line, then sequence lines of at most 80 characters")
		}
		all = append(all, buf.Bytes()...)
	}
	got, bad := vfAll(Reader(bytes.NewReader(all)), len(recs)+10)
	if bad != "" {
		return vfFail(bad+"; "+vfShow(got), "the written records")
	}
	if d := vfDiff(got, vfItemsOf(recs)); d != "" {
		return vfFail(d+"; "+vfShow(got), vfShow(vfItemsOf(recs)))
	}
	return vrResult{OK: true, Trivial: len(recs) == 0}
}

// vfPercentTexts: texts that a writer using a field as a printf format would mangle.
var vfPercentTexts = []string{"%", "50%", "%d", "%s%s", "100%%", "%!", "a%vb"}

func vfGenRoundtrip(g *vrGen) {
	complete := true
	emit := func(recs []any) bool {
		if g.Expired() {
			complete = false
			return false
		}
		g.Case(map[string]any{"records": recs})
		return true
	}
	maxN, maxLen := 2, 330
	if g.Thorough() {
		maxN, maxLen = 3, 2000
	}
	// fixed lengths first (cheap, and the >64 KiB case must always run)
	for _, n := range []int{65535, 65536, 65537, 70000} {
		emit([]any{map[string]any{"name": vrS("long"), "seq": vfPat("ACGTTGCAN", n)}})
	}
	emit([]any{map[string]any{"name": vfPat("nm >", 70000), "seq": vrS("ACGT")}})
	// printf-verb look-alikes as name, as sequence, and as both
	for _, w := range vfPercentTexts {
		emit(vfRecsIn([]vfRec{{[]byte(w), []byte("ACGT")}}))
		emit(vfRecsIn([]vfRec{{[]byte("r"), []byte(w)}}))
		emit(vfRecsIn([]vfRec{{[]byte(w), bytes.Repeat([]byte(w), 30)}, {[]byte("next"), []byte("AC")}}))
	}
	{
		var l []any
		for _, n := range vfLens {
			l = append(l, map[string]any{"name": vrS(fmt.Sprintf("len%d", n)), "seq": vfPat("ACGTTGCAN", n)})
		}
		emit(l)
	}
	if g.Thorough() {
		emit([]any{map[string]any{"name": vrS("mib"), "seq": vfPat("ACGTTGCAN", 1<<20)}})
		emit([]any{map[string]any{"name": vrS("mib3"), "seq": vfPat("ACGTTGCANN", 3<<20+7)},
			map[string]any{"name": vrS("next"), "seq": vrS("AC")}})
	}
	for n := 0; n <= maxLen; n++ {
		name := ""
		if n%2 == 1 {
			name = fmt.Sprintf("s%d", n)
		}
		if !emit([]any{map[string]any{"name": vrS(name), "seq": vfPat("ACGTTGCAN", n)}}) {
			break
		}
	}
	vfLists(vfSmallRecs(), maxN, func(l []vfRec) bool { return emit(vfRecsIn(l)) })
	g.Exhaustive(complete)
	for rnd := (&vfRnd{g: g}); rnd.more(); {
		l := vfRandRecs(g.Rand, 5)
		rnd.emit(map[string]any{"records": vfRecsIn(l)}, vfSize(l))
	}
}

// ---------------------------------------------------------------- C01/layout

func vfRunLayout(in map[string]any) vrResult {
	recs := vfRecs(in["records"])
	widths := vrInts(in["widths"])
	blank := vrInts(in["blank"])
	if !vfInDomain(recs) {
		return vrResult{OK: true, Trivial: true, Observed: "outside the domain"}
	}
	if len(widths) == 0 {
		widths = []int{80}
	}
	for _, w := range widths {
		if w < 1 {
			return vrResult{OK: true, Trivial: true, Observed: "line width < 1"}
		}
	}
	for _, b := range blank {
		if b < 0 || b > 1000 {
			return vrResult{OK: true, Trivial: true, Observed: "blank count out of range"}
		}
	}
	text := vfLayout(recs, widths, blank, vrBool(in["crlf"]), vrBool(in["final_newline"]))
	got, bad := vfAll(Reader(bytes.NewReader(text)), len(recs)+10)
	if bad != "" {
		return vfFail(bad+"; text "+vfShort(text), "the records")
	}
	if d := vfDiff(got, vfItemsOf(recs)); d != "" {
		return vfFail(d+"; text "+vfShort(text)+"; "+vfShow(got), vfShow(vfItemsOf(recs)))
	}
	return vrResult{OK: true, Trivial: len(recs) == 0}
}

// vfBoundaryLens: the sequence lengths 3900..4100 and 7900..8100 (402 lengths):
// a one-record text of 80-column lines whose size crosses one resp. two
// 4096-byte buffer fills, at every alignment of its line ends to the boundary.
func vfBoundaryLens() []int {
	var out []int
	for _, base := range []int{3900, 7900} {
		for L := base; L <= base+200; L++ {
			out = append(out, L)
		}
	}
	return out
}

func vfGenLayout(g *vrGen) {
	complete := true
	emit := func(recs []any, widths, blank []int, crlf, fin bool) bool {
		if g.Expired() {
			complete = false
			return false
		}
		g.Case(map[string]any{"records": recs, "widths": vrI(widths), "blank": vrI(blank), "crlf": crlf, "final_newline": fin})
		return true
	}
	blanks := [][]int{{}, {1}, {0, 2}}
	flags := func(f func(blank []int, crlf, fin bool) bool) bool {
		for _, b := range blanks {
			for _, crlf := range []bool{false, true} {
				for _, fin := range []bool{true, false} {
					if !f(b, crlf, fin) {
						return false
					}
				}
			}
		}
		return true
	}
	// CRLF texts crossing one and two 4096-byte (bufio) boundaries at every
	// alignment: every length shifts the CRs relative to the boundary. First, so
	// that they always run.
	for _, L := range vfBoundaryLens() {
		emit([]any{map[string]any{"name": vrS("n"), "seq": vfPat("ACGTTGCAN", L)}}, []int{80}, nil, true, true)
	}
	emit([]any{map[string]any{"name": vrS("one line"), "seq": vfPat("ACGTTGCAN", 70000)}}, []int{100000}, nil, false, true)
	emit([]any{map[string]any{"name": vrS("one line"), "seq": vfPat("ACGTTGCAN", 70000)},
		map[string]any{"name": vrS("b"), "seq": vrS("AC")}}, []int{69999, 1}, []int{1}, true, false)
	maxL := 6
	if g.Thorough() {
		maxL = 9
	}
	ok := true
	for L := 0; L <= maxL && ok; L++ {
		for _, name := range []string{"", "n>"} {
			rec := []any{map[string]any{"name": vrS(name), "seq": vrB([]byte("ACGTACGTACGT")[:L])}}
			ok = ok && vfCompositions(L, func(ws []int) bool {
				return flags(func(b []int, crlf, fin bool) bool { return emit(rec, ws, b, crlf, fin) })
			})
		}
	}
	five := []vfRec{{nil, nil}, {[]byte("a"), []byte("AC")}, {[]byte(">"), []byte("A")}, {[]byte("b"), nil}, {nil, []byte("ACG")}}
	for _, a := range five {
		for _, b := range five {
			for _, ws := range [][]int{{1}, {2}, {80}} {
				ok = ok && flags(func(bl []int, crlf, fin bool) bool { return emit(vfRecsIn([]vfRec{a, b}), ws, bl, crlf, fin) })
			}
		}
	}
	g.Exhaustive(complete && ok)
	r := g.Rand
	for rnd := (&vfRnd{g: g}); rnd.more(); {
		ws := make([]int, 1+r.Intn(4))
		for i := range ws {
			switch r.Intn(4) {
			case 0:
				ws[i] = 1 + r.Intn(3)
			case 1:
				ws[i] = 79 + r.Intn(3)
			case 2:
				ws[i] = 1 << 20
			default:
				ws[i] = 1 + r.Intn(120)
			}
		}
		bl := make([]int, r.Intn(4))
		for i := range bl {
			bl[i] = r.Intn(3)
		}
		l := vfRandRecs(r, 4)
		rnd.emit(map[string]any{"records": vfRecsIn(l), "widths": vrI(ws), "blank": vrI(bl),
			"crlf": r.Intn(2) == 0, "final_newline": r.Intn(2) == 0}, vfSize(l))
	}
}

// ---------------------------------------------------------------- C01/marshal-list

func vfRunMarshalList(in map[string]any) vrResult {
	recs := vfRecs(in["records"])
	if !vfInDomain(recs) {
		return vrResult{OK: true, Trivial: true, Observed: "outside the domain"}
	}
	fs := make([]*Fasta, len(recs))
	for i, r := range recs {
		fs[i] = &Fasta{Name: bytes.Clone(r.Name), Sequence: bytes.Clone(r.Seq)}
	}
	// 1. every MarshalText call first; the results are kept as returned (not
	// copied, not touched between the calls).
	kept := make([][]byte, len(fs))
	for i, f := range fs {
		var merr error
		if p := vrCatch(func() { kept[i], merr = f.MarshalText() }); p != nil {
			return vfFail(fmt.Sprintf("record %d: MarshalText panicked: %v", i, p), "no panic")
		}
		if merr != nil {
			return vfFail(fmt.Sprintf("record %d: MarshalText returned %v", i, merr), "nil error")
		}
	}
	// 2. only now the reference bytes: Write of each record into a fresh buffer
	// (all of them before the first comparison).
	refs := make([][]byte, len(fs))
	for i, f := range fs {
		var buf bytes.Buffer
		var werr error
		if p := vrCatch(func() { werr = f.Write(&buf) }); p != nil {
			return vfFail(fmt.Sprintf("record %d: Write panicked: %v", i, p), "no panic")
		}
		if werr != nil {
			return vfFail(fmt.Sprintf("record %d: Write to a bytes.Buffer returned %v", i, werr), "nil error")
		}
		refs[i] = buf.Bytes()
	}
	for i := range fs {
		if !bytes.Equal(kept[i], refs[i]) {
			return vfFail(fmt.Sprintf("record %d of %d: the slice MarshalText returned holds %s after the later calls, Write emits %s", i, len(fs), vfShort(kept[i]), vfShort(refs[i])),
				"identical bytes (a MarshalText result is not changed by later MarshalText/Write calls)")
		}
	}
	want := vfItemsOf(recs)
	// 3. the kept slices joined read back as the list.
	joined := bytes.Join(kept, nil)
	got, bad := vfAll(Reader(bytes.NewReader(joined)), len(recs)+10)
	if bad != "" {
		return vfFail("joined MarshalText results: "+bad+"; "+vfShow(got), "the records")
	}
	if d := vfDiff(got, want); d != "" {
		return vfFail("joined MarshalText results: "+d+"; "+vfShow(got), vfShow(want))
	}
	// 4. all records written one after another into one shared buffer.
	var shared bytes.Buffer
	for i, f := range fs {
		var werr error
		if p := vrCatch(func() { werr = f.Write(&shared) }); p != nil {
			return vfFail(fmt.Sprintf("record %d: Write to the shared buffer panicked: %v", i, p), "no panic")
		}
		if werr != nil {
			return vfFail(fmt.Sprintf("record %d: Write to the shared bytes.Buffer returned %v", i, werr), "nil error")
		}
	}
	if !bytes.Equal(shared.Bytes(), bytes.Join(refs, nil)) {
		return vfFail(fmt.Sprintf("sequential Write calls into one buffer emitted %s", vfShort(shared.Bytes())),
			"the concatenation of what each Write emits into a fresh buffer: "+vfShort(bytes.Join(refs, nil)))
	}
	got, bad = vfAll(Reader(bytes.NewReader(shared.Bytes())), len(recs)+10)
	if bad != "" {
		return vfFail("shared buffer: "+bad+"; "+vfShow(got), "the records")
	}
	if d := vfDiff(got, want); d != "" {
		return vfFail("shared buffer: "+d+"; "+vfShow(got), vfShow(want))
	}
	return vrResult{OK: true, Trivial: len(recs) < 2}
}

// vfMarkedRec: record number k of a list; the name starts with a byte that is
// different for every k (so that the encodings differ from the second byte on)
// and the sequence has the given length.
func vfMarkedRec(k, n int) vfRec {
	mark := byte('a' + k%26)
	return vfRec{[]byte(fmt.Sprintf("%c%d", mark, n)), bytes.Repeat([]byte{"ACGTN"[k%5], mark}, (n+1)/2)[:n]}
}

func vfGenMarshalList(g *vrGen) {
	complete := true
	emit := func(l []vfRec) bool {
		if g.Expired() {
			complete = false
			return false
		}
		g.Case(map[string]any{"records": vfRecsIn(l)})
		return true
	}
	ok := true
	// marked records of different lengths: shorter before longer and vice versa
	for i, a := range vfLens {
		for j, b := range vfLens {
			ok = ok && emit([]vfRec{vfMarkedRec(i, a), vfMarkedRec(12+j, b)})
		}
	}
	var up, down, alt []vfRec
	for i, n := range vfLens {
		up = append(up, vfMarkedRec(i, n))
		down = append(down, vfMarkedRec(i, vfLens[len(vfLens)-1-i]))
		if i%2 == 0 {
			alt = append(alt, vfMarkedRec(i, vfLens[len(vfLens)-1-i/2]))
		} else {
			alt = append(alt, vfMarkedRec(i, vfLens[i/2]))
		}
	}
	for _, l := range [][]vfRec{up, down, alt} {
		for i := 0; i+6 <= len(l); i++ {
			ok = ok && emit(l[i:i+6])
		}
	}
	small := vfSmallRecs()
	for _, a := range small {
		for _, b := range small {
			ok = ok && emit([]vfRec{a, b})
		}
	}
	g.Exhaustive(complete && ok)
	r := g.Rand
	for rnd := (&vfRnd{g: g}); rnd.more(); {
		l := make([]vfRec, 2+r.Intn(5))
		sizes := map[int]bool{}
		for i := range l {
			for try := 0; ; try++ {
				l[i] = vfRandRec(r)
				if r.Intn(2) == 0 { // marker byte in front of the name
					l[i].Name = append([]byte{byte('a' + i)}, l[i].Name...)
				}
				if sz := len(l[i].Name) + len(l[i].Seq); !sizes[sz] || try >= 20 {
					sizes[sz] = true
					break
				}
			}
		}
		rnd.emit(map[string]any{"records": vfRecsIn(l)}, vfSize(l))
	}
}

// ---------------------------------------------------------------- C06/chunking

func vfRunChunking(in map[string]any) vrResult {
	data := vfBytes(in["data"])
	sizes := vrInts(in["chunks"])
	limit := len(data) + 10
	want, bad := vfAll(Reader(bytes.NewReader(data)), limit)
	if bad != "" {
		return vfFail("plain reader: "+bad, "termination without panic")
	}
	got, bad := vfAll(Reader(&vfChunkReader{data: data, sizes: sizes, eofData: vrBool(in["eof_with_data"])}), limit)
	if bad != "" {
		return vfFail("chunked reader: "+bad+"; "+vfShow(got), vfShow(want))
	}
	if d := vfDiff(got, want); d != "" {
		return vfFail("chunked: "+d+"; "+vfShow(got), "as with bytes.NewReader: "+vfShow(want))
	}
	return vrResult{OK: true, Trivial: len(data) == 0}
}

func vfBigWellFormed(n int) map[string]any {
	// records of 162 bytes each: ">r\n" + 80 + LF + 77 + LF
	rec := vfEncode(vfRec{[]byte("r"), bytes.Repeat([]byte("ACGTG"), 200)[:157]}, "\n")
	return map[string]any{"pat": vrB(rec), "len": (n/len(rec) + 1) * len(rec)}
}

func vfGenChunking(g *vrGen) {
	complete := true
	emit := func(data any, sizes []int, eofData bool) bool {
		if g.Expired() {
			complete = false
			return false
		}
		g.Case(map[string]any{"data": data, "chunks": vrI(sizes), "eof_with_data": eofData})
		return true
	}
	maxAll, maxSome := 4, 5
	if g.Thorough() {
		maxAll, maxSome = 6, 7
	}
	ok := true
	// well-formed corpus at a few schedules
	for _, d := range vfWellFormed() {
		for _, s := range [][]int{{1}, {2}, {3, 1}, {7}, {80}, {81}} {
			for _, e := range []bool{false, true} {
				ok = ok && emit(vrB(d), s, e)
			}
		}
	}
	for _, n := range []int{5000, 70000} {
		for _, s := range [][]int{{1}, {4095}, {4096}, {4097}, {4096, 1}, {100, 3996}, {1 << 20}} {
			for _, e := range []bool{false, true} {
				ok = ok && emit(vfBigWellFormed(n), s, e)
			}
		}
	}
	ok = ok && vrWords(vfAlphabet, maxAll, func(w []byte) bool {
		d := vrB(w)
		return vfCompositions(len(w), func(c []int) bool { return emit(d, c, false) && emit(d, c, true) })
	})
	ok = ok && vrWords(vfAlphabet, maxSome, func(w []byte) bool {
		if len(w) <= maxAll {
			return true
		}
		d := vrB(w)
		for _, s := range [][]int{{1}, {2}, {3}, {1, 2}, {len(w)}} {
			if !(emit(d, s, false) && emit(d, s, true)) {
				return false
			}
		}
		return true
	})
	g.Exhaustive(complete && ok)
	r := g.Rand
	for rnd := (&vfRnd{g: g}); rnd.more(); {
		s := make([]int, 1+r.Intn(4))
		for i := range s {
			s[i] = 1 + r.Intn(1+r.Intn(20))
		}
		d := vfRandData(r)
		rnd.emit(map[string]any{"data": vrB(d), "chunks": vrI(s), "eof_with_data": r.Intn(2) == 0}, len(d))
	}
}

// ---------------------------------------------------------------- C06/crlf

func vfRunCRLF(in map[string]any) vrResult {
	recs := vfRecs(in["records"])
	if !vfInDomain(recs) {
		return vrResult{OK: true, Trivial: true, Observed: "outside the domain"}
	}
	lf := vfEncodeAll(recs, "\n")
	if blank := vrInts(in["blank"]); len(blank) > 0 {
		// blank[i mod len] extra empty lines after the i-th line (also after the last one)
		for _, b := range blank {
			if b < 0 || b > 1000 {
				return vrResult{OK: true, Trivial: true, Observed: "blank count out of range"}
			}
		}
		var out []byte
		i := 0
		for _, c := range lf {
			out = append(out, c)
			if c == '\n' {
				out = append(out, bytes.Repeat([]byte{'\n'}, blank[i%len(blank)])...)
				i++
			}
		}
		lf = out
	}
	crlf := bytes.ReplaceAll(lf, []byte("\n"), []byte("\r\n"))
	a, bad := vfAll(Reader(bytes.NewReader(lf)), len(recs)+10)
	if bad != "" {
		return vfFail("LF text: "+bad, "termination without panic")
	}
	b, bad := vfAll(Reader(bytes.NewReader(crlf)), len(recs)+10)
	if bad != "" {
		return vfFail("CRLF text: "+bad, vfShow(a))
	}
	if d := vfDiff(b, a); d != "" {
		return vfFail("CRLF decode vs LF decode: "+d+"; CRLF "+vfShow(b), "LF "+vfShow(a))
	}
	return vrResult{OK: true, Trivial: len(recs) == 0}
}

func vfGenCRLF(g *vrGen) {
	complete := true
	emit := func(recs []any) bool {
		if g.Expired() {
			complete = false
			return false
		}
		g.Case(map[string]any{"records": recs})
		return true
	}
	ok := true
	// texts crossing one and two 4096-byte buffer fills at every alignment
	for _, n := range vfBoundaryLens() {
		ok = ok && emit([]any{map[string]any{"name": vrS("n"), "seq": vfPat("ACGTTGCAN", n)}})
	}
	for n := 0; n <= 170 && ok; n++ {
		ok = emit([]any{map[string]any{"name": vrS("s"), "seq": vfPat("ACGTTGCAN", n)}})
	}
	// blank lines (in the CRLF text: CR LF CR LF) after every line, after some
	// lines, and trailing only
	withBlank := func(recs []any, blank []int) bool {
		if g.Expired() {
			complete = false
			return false
		}
		g.Case(map[string]any{"records": recs, "blank": vrI(blank)})
		return true
	}
	for _, l := range [][]vfRec{
		{{[]byte("a"), []byte("ACGT")}},
		{{[]byte("a"), nil}, {[]byte("b b"), []byte("G")}},
		{{nil, nil}, {nil, []byte("T")}},
		{{[]byte("w"), bytes.Repeat([]byte("ACGT"), 41)[:161]}, {[]byte("v"), bytes.Repeat([]byte("ACGT"), 20)}},
	} {
		for _, bl := range [][]int{{1}, {2}, {0, 1}, {1, 0}, {0, 2, 1}, {0, 0, 0, 0, 0, 0, 3}} {
			ok = ok && withBlank(vfRecsIn(l), bl)
		}
	}
	ok = ok && vfLists(vfSmallRecs(), 2, func(l []vfRec) bool { return emit(vfRecsIn(l)) })
	g.Exhaustive(complete && ok)
	for rnd := (&vfRnd{g: g}); rnd.more(); {
		l := vfRandRecs(g.Rand, 5)
		in := map[string]any{"records": vfRecsIn(l)}
		if g.Rand.Intn(3) == 0 {
			bl := make([]int, 1+g.Rand.Intn(4))
			for i := range bl {
				bl[i] = g.Rand.Intn(3)
			}
			in["blank"] = vrI(bl)
		}
		rnd.emit(in, vfSize(l))
	}
}

// ---------------------------------------------------------------- C06/file

func vfRunFile(in map[string]any) vrResult {
	data := vfBytes(in["data"])
	gz := vrBool(in["gz"])
	dir := vfTempDir()
	defer os.RemoveAll(dir)
	if vrBool(in["missing"]) {
		path := filepath.Join(dir, "nonexistent.fa")
		if gz {
			path += ".gz"
		}
		got, bad := vfAll(File(path), 10)
		if bad != "" {
			return vfFail("missing path: "+bad+"; "+vfShow(got), "exactly one item, with a non-nil error")
		}
		if len(got) != 1 || !got[0].IsErr {
			return vfFail("missing path: "+vfShow(got), "exactly one item, with a non-nil error")
		}
		return vrResult{OK: true}
	}
	path := vfWriteFile(dir, "data.fa", data, gz)
	limit := len(data) + 10
	want, bad := vfAll(Reader(bytes.NewReader(data)), limit)
	if bad != "" {
		return vfFail("Reader: "+bad, "termination without panic")
	}
	got, bad := vfAll(File(path), limit)
	if bad != "" {
		return vfFail("File: "+bad+"; "+vfShow(got), vfShow(want))
	}
	if d := vfDiff(got, want); d != "" {
		return vfFail("File: "+d+"; "+vfShow(got), "as Reader on the bytes: "+vfShow(want))
	}
	return vrResult{OK: true, Trivial: len(data) == 0}
}

func vfGenFile(g *vrGen) {
	complete := true
	emit := func(data any, gz, missing bool) bool {
		if g.Expired() {
			complete = false
			return false
		}
		g.Case(map[string]any{"data": data, "gz": gz, "missing": missing})
		return true
	}
	ok := emit(vrB(nil), false, true) && emit(vrB(nil), true, true)
	for _, d := range vfWellFormed() {
		ok = ok && emit(vrB(d), false, false) && emit(vrB(d), true, false)
	}
	for _, n := range []int{5000, 70000} {
		ok = ok && emit(vfBigWellFormed(n), false, false) && emit(vfBigWellFormed(n), true, false)
	}
	ok = ok && vrWords(vfAlphabet, 3, func(w []byte) bool {
		return emit(vrB(w), false, false) && emit(vrB(w), true, false)
	})
	g.Exhaustive(complete && ok)
	for rnd := (&vfRnd{g: g}); rnd.more(); {
		d := vfRandData(g.Rand)
		rnd.emit(map[string]any{"data": vrB(d), "gz": g.Rand.Intn(2) == 0, "missing": false}, len(d))
	}
}

// ---------------------------------------------------------------- C07/read-fault

func vfRunReadFault(in map[string]any) vrResult {
	data := vfBytes(in["data"])
	off := vrInt(in["offset"])
	if off < 0 {
		off = 0
	}
	if off > len(data) {
		off = len(data)
	}
	mode := "once"
	if s, ok := in["mode"].(string); ok {
		mode = s
	}
	if mode != "once" && mode != "forever" {
		panic("harness: bad mode " + mode)
	}
	limit := len(data) + 10
	ref, bad := vfAll(Reader(bytes.NewReader(data)), limit)
	if bad != "" {
		return vfFail("fault-free decode: "+bad, "termination without panic")
	}
	var refRecs []vfItem
	for _, it := range ref {
		if !it.IsErr {
			refRecs = append(refRecs, it)
		}
	}
	fr := &vfFaultReader{data: data[:off], chunk: vrInt(in["chunk"]), forever: mode == "forever"}
	got, bad := vfAll(Reader(fr), limit)
	exp := fmt.Sprintf("leading records of the fault-free decode (%s), then a non-nil error, finitely many items", vfShow(refRecs))
	if bad != "" {
		return vfFail(bad+"; "+vfShow(got), exp)
	}
	nrec, nerr := 0, 0
	for i, it := range got {
		if it.IsErr {
			nerr++
			continue
		}
		if nrec >= len(refRecs) || !vfSameItem(it, refRecs[nrec]) {
			return vfFail(fmt.Sprintf("item %d is %s, not record %d of the fault-free decode; %s", i, vfShowItem(it), nrec, vfShow(got)), exp)
		}
		nrec++
	}
	if nerr == 0 {
		return vfFail("iteration ended without any error item; "+vfShow(got), exp)
	}
	return vrResult{OK: true}
}

func vfGenReadFault(g *vrGen) {
	complete := true
	emit := func(data any, off int, mode string, chunk int) bool {
		if g.Expired() {
			complete = false
			return false
		}
		in := map[string]any{"data": data, "offset": off, "mode": mode}
		if chunk > 0 {
			in["chunk"] = chunk
		}
		g.Case(in)
		return true
	}
	allOffsets := func(d []byte) bool {
		enc := vrB(d)
		for off := 0; off <= len(d); off++ {
			for _, m := range []string{"once", "forever"} {
				if !(emit(enc, off, m, 0) && emit(enc, off, m, 1)) {
					return false
				}
			}
		}
		return true
	}
	ok := true
	for _, d := range vfWellFormed() {
		ok = ok && allOffsets(d)
	}
	big := vfBigWellFormed(9000)
	for _, off := range []int{4094, 4095, 4096, 4097, 4098, 4212, 8190, 8191, 8192, 8193, 8194, 9071, 9072} {
		for _, m := range []string{"once", "forever"} {
			ok = ok && emit(big, off, m, 0) && emit(big, off, m, 4096)
		}
	}
	if g.Thorough() {
		for off := 0; off <= 9072 && ok; off++ {
			ok = emit(big, off, "once", 0) && emit(big, off, "forever", 0)
		}
	}
	g.Exhaustive(complete && ok)
	for used := 0; !g.Expired() && used < vfMaxRandBytes; {
		var d []byte
		if g.Rand.Intn(2) == 0 {
			d = vfEncodeAll(vfRandRecs(g.Rand, 4), "\n")
		} else {
			d = vfLayout(vfRandRecs(g.Rand, 3), []int{1 + g.Rand.Intn(90)}, []int{g.Rand.Intn(2)}, g.Rand.Intn(2) == 0, g.Rand.Intn(2) == 0)
		}
		if len(d) > 400 {
			continue // every offset repeats the whole data in the case key: keep the files small
		}
		enc := vrB(d)
		for off := 0; off <= len(d); off++ {
			if !emit(enc, off, []string{"once", "forever"}[g.Rand.Intn(2)], []int{0, 0, 1, 7}[g.Rand.Intn(4)]) {
				break
			}
		}
		used += (4*len(d) + 120) * (len(d) + 1)
	}
}

// ---------------------------------------------------------------- C07/write-fault

func vfRunWriteFault(in map[string]any) vrResult {
	m := vrMap(in["record"])
	r := vfRec{vfBytes(m["name"]), vfBytes(m["seq"])}
	k := vrInt(in["k"])
	if k < 0 {
		k = 0
	}
	f := &Fasta{Name: bytes.Clone(r.Name), Sequence: bytes.Clone(r.Seq)}
	// full = number of bytes Write emits when nothing fails (the statement's
	// "everything was accepted"), measured rather than derived from a layout.
	var all bytes.Buffer
	var err error
	if p := vrCatch(func() { err = f.Write(&all) }); p != nil {
		return vfFail(fmt.Sprintf("Write to a bytes.Buffer panicked: %v", p), "no panic")
	}
	if err != nil {
		return vfFail(fmt.Sprintf("Write to a bytes.Buffer returned %v", err), "nil error")
	}
	full := all.Len()
	if p := vrCatch(func() { err = f.Write(&vfLimitWriter{left: k}) }); p != nil {
		return vfFail(fmt.Sprintf("Write panicked: %v", p), "no panic")
	}
	if k < full && err == nil {
		return vfFail(fmt.Sprintf("Write returned nil although the writer failed after %d of %d bytes", k, full), "non-nil error")
	}
	if k >= full && err != nil {
		return vfFail(fmt.Sprintf("Write returned %v although the writer accepts %d >= %d bytes", err, k, full), "nil error")
	}
	return vrResult{OK: true}
}

func vfGenWriteFault(g *vrGen) {
	complete := true
	allK := func(r vfRec) bool {
		full := len(vfEncode(r, "\n"))
		enc := vfRecIn(r)
		for k := 0; k <= full+1; k++ {
			if g.Expired() {
				complete = false
				return false
			}
			g.Case(map[string]any{"record": enc, "k": k})
		}
		return true
	}
	lens := []int{0, 1, 2, 79, 80, 81, 160, 161}
	if g.Thorough() {
		lens = nil
		for n := 0; n <= 250; n++ {
			lens = append(lens, n)
		}
	}
	ok := true
	for _, name := range []string{"", "a", ">x y"} {
		for _, n := range lens {
			ok = ok && allK(vfRec{[]byte(name), bytes.Repeat([]byte("ACGTN"), 60)[:n]})
		}
	}
	// long sequences (a writer that buffers internally must still report a fault
	// that only its last flush meets): k in the last 4200 bytes of the output
	// (and one past it; length 5000: every k, lengths 4097 and 10000: every 5th k
	// and every k in the last 256 bytes), every 97th k before.
	for _, n := range []int{5000, 4097, 10000} {
		full := 3 + n + (n+79)/80 // '>' 'a' LF, the sequence, one LF per line of 80
		enc := map[string]any{"name": vrS("a"), "seq": vfPat("ACGTN", n)}
		for k := 0; k <= full+1 && ok; k++ {
			if k < full-4200 && k%97 != 0 {
				continue
			}
			if n != 5000 && k >= full-4200 && k < full-256 && k%5 != 0 {
				continue
			}
			if g.Expired() {
				complete, ok = false, false
				break
			}
			g.Case(map[string]any{"record": enc, "k": k})
		}
	}
	g.Exhaustive(complete && ok)
	for rnd := (&vfRnd{g: g}); rnd.more(); {
		r := vfRandRec(g.Rand)
		full := len(vfEncode(r, "\n"))
		rnd.emit(map[string]any{"record": vfRecIn(r), "k": g.Rand.Intn(full + 3)}, full)
	}
}

// ---------------------------------------------------------------- C11/total

func vfRunTotal(in map[string]any) vrResult {
	data := vfBytes(in["data"])
	got, bad := vfAll(Reader(bytes.NewReader(data)), len(data)+10)
	if bad != "" {
		return vfFail(bad+"; "+vfShow(got), "termination without panic")
	}
	for i, it := range got {
		if it.IsErr {
			continue
		}
		if it.NilRec {
			return vfFail(fmt.Sprintf("item %d is (nil record, nil error); %s", i, vfShow(got)), "only records and errors")
		}
		r := it.Rec
		if vfHasAny(r.Name, "\r\n") || vfHasAny(r.Seq, "\r\n>") {
			continue
		}
		f := &Fasta{Name: bytes.Clone(r.Name), Sequence: bytes.Clone(r.Seq)}
		var buf bytes.Buffer
		var werr error
		if p := vrCatch(func() { werr = f.Write(&buf) }); p != nil {
			return vfFail(fmt.Sprintf("Write of accepted record %d (%s) panicked: %v", i, vfShowItem(it), p), "no panic")
		}
		if werr != nil {
			return vfFail(fmt.Sprintf("Write of accepted record %d returned %v", i, werr), "nil error")
		}
		back, bad := vfAll(Reader(bytes.NewReader(buf.Bytes())), 10)
		if bad != "" {
			return vfFail(fmt.Sprintf("re-reading accepted record %d: %s", i, bad), "fixed point")
		}
		if d := vfDiff(back, []vfItem{{Rec: r}}); d != "" {
			return vfFail(fmt.Sprintf("accepted record %d %s written as %s reads back as %s", i, vfShowItem(it), vfShort(buf.Bytes()), vfShow(back)), "exactly the same record")
		}
	}
	return vrResult{OK: true, Trivial: len(data) == 0}
}

func vfGenTotal(g *vrGen) {
	complete := true
	maxL := 7
	if g.Thorough() {
		maxL = 9
	}
	ok := vrWords(vfAlphabet, maxL, func(w []byte) bool {
		if g.Expired() {
			complete = false
			return false
		}
		g.Case(map[string]any{"data": vrB(w)})
		return true
	})
	g.Exhaustive(complete && ok)
	for rnd := (&vfRnd{g: g}); rnd.more(); {
		d := vfRandData(g.Rand)
		rnd.emit(map[string]any{"data": vrB(d)}, len(d))
	}
}

// ---------------------------------------------------------------- C18/stop

func vfCheckStop(what string, mk func() iter.Seq2[*Fasta, error], stop, limit int) (res vrResult, n int) {
	full, bad := vfAll(mk(), limit)
	if bad != "" {
		return vfFail(what+" uninterrupted: "+bad, "termination without panic"), 0
	}
	for i, it := range full {
		if it.IsErr && i != len(full)-1 {
			return vfFail(fmt.Sprintf("%s uninterrupted: error item %d is followed by more items; %s", what, i, vfShow(full)), "an error item is the last item"), len(full)
		}
	}
	if stop <= 0 {
		return vrResult{OK: true, Trivial: true}, len(full)
	}
	got, extra, _, pan := vfDrive(mk(), stop, limit)
	want := full
	if stop < len(full) {
		want = full[:stop]
	}
	exp := fmt.Sprintf("no callback after the consumer stopped at item %d, no panic, items = %s", stop, vfShow(want))
	if pan != nil {
		return vfFail(fmt.Sprintf("%s stop=%d: panic: %v (after %d items, %d further callbacks)", what, stop, pan, len(got), extra), exp), len(full)
	}
	if extra > 0 {
		return vfFail(fmt.Sprintf("%s stop=%d: %d further callbacks after the consumer returned false", what, stop, extra), exp), len(full)
	}
	if d := vfDiff(got, want); d != "" {
		return vfFail(fmt.Sprintf("%s stop=%d: %s; %s", what, stop, d, vfShow(got)), exp), len(full)
	}
	return vrResult{OK: true}, len(full)
}

func vfRunStop(in map[string]any) vrResult {
	data := vfBytes(in["data"])
	stop := vrInt(in["stop"])
	limit := len(data) + 10
	if v, ok := in["fault"]; ok && v != nil && vrInt(v) >= 0 {
		// failing underlying reader: delivers data[:fault], then a non-EOF error
		// (once and then io.EOF, or forever). Reader only; gz and missing do not apply.
		off := vrInt(v)
		if off > len(data) {
			off = len(data)
		}
		forever := vrBool(in["forever"])
		what := fmt.Sprintf("Reader(reader failing after %d of %d bytes, forever=%v)", off, len(data), forever)
		res, _ := vfCheckStop(what, func() iter.Seq2[*Fasta, error] {
			return Reader(&vfFaultReader{data: data[:off], forever: forever})
		}, stop, limit)
		return res
	}
	dir := vfTempDir()
	defer os.RemoveAll(dir)
	if vrBool(in["missing"]) {
		path := filepath.Join(dir, "nonexistent.fa")
		res, _ := vfCheckStop("File(missing)", func() iter.Seq2[*Fasta, error] { return File(path) }, stop, limit)
		return res
	}
	res, n := vfCheckStop("Reader", func() iter.Seq2[*Fasta, error] { return Reader(bytes.NewReader(data)) }, stop, limit)
	if !res.OK {
		return res
	}
	path := vfWriteFile(dir, "data.fa", data, vrBool(in["gz"]))
	res2, _ := vfCheckStop("File", func() iter.Seq2[*Fasta, error] { return File(path) }, stop, limit)
	if !res2.OK {
		return res2
	}
	res2.Trivial = res2.Trivial || n == 0
	return res2
}

func vfGenStop(g *vrGen) {
	complete := true
	allStops := func(d []byte, gz bool) bool {
		items, _ := vfAll(Reader(bytes.NewReader(d)), len(d)+10)
		enc := vrB(d)
		for stop := 0; stop <= len(items)+1; stop++ {
			if g.Expired() {
				complete = false
				return false
			}
			in := map[string]any{"data": enc, "stop": stop}
			if gz {
				in["gz"] = true
			}
			g.Case(in)
		}
		return true
	}
	ok := true
	for stop := 0; stop <= 2; stop++ {
		g.Case(map[string]any{"data": vrB(nil), "stop": stop, "missing": true})
	}
	for _, d := range vfWellFormed() {
		ok = ok && allStops(d, false)
	}
	many := bytes.Repeat([]byte(">r\nACGT\n"), 12)
	ok = ok && allStops(many, false) && allStops(many, true)
	maxL := 4
	if g.Thorough() {
		maxL = 5
	}
	ok = ok && vrWords(vfAlphabet, maxL, func(w []byte) bool { return allStops(w, false) })
	// failing underlying reader: every fault offset x {once, forever} x every stop position
	allFaultStops := func(d []byte) bool {
		enc := vrB(d)
		for off := 0; off <= len(d); off++ {
			for _, forever := range []bool{false, true} {
				items, _ := vfAll(Reader(&vfFaultReader{data: d[:off], forever: forever}), len(d)+10)
				for stop := 0; stop <= len(items)+1; stop++ {
					if g.Expired() {
						complete = false
						return false
					}
					g.Case(map[string]any{"data": enc, "stop": stop, "fault": off, "forever": forever})
				}
			}
		}
		return true
	}
	wf := vfWellFormed()
	for _, d := range [][]byte{wf[0], wf[3], wf[4], wf[7], wf[9]} {
		ok = ok && allFaultStops(d)
	}
	g.Exhaustive(complete && ok)
	for used := 0; !g.Expired() && used < vfMaxRandBytes; {
		d := vfRandData(g.Rand)
		allStops(d, g.Rand.Intn(4) == 0)
		used += (4*len(d) + 120) * 4
	}
}
