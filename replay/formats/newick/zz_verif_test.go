package newick

// Replay / bounded harness of package formats/newick (see /verif/replay/README.md).
// Injected through `go test -overlay`; not part of the repository.
//
// Function -> clause mapping
//   func nameToText / nameFromText (+ tokenizer)      -> C05/name-codec      {s}
//   func (*Node).MarshalText, (*Node).Write, Reader   -> C05/tree-roundtrip  {tree}
//   several Write calls + Reader                      -> C05/multi-tree      {trees, sep, trailing?}
//   MarshalText x n, then Write x n, Reader           -> C05/marshal-list    {trees}
//   func Reader (read schedule)                       -> C06/chunking        {data, chunks, eof_with_data}
//   func Reader (LF vs CRLF)                          -> C06/crlf            {trees, wrap?}
//   func File                                         -> C06/file            {data, gz, missing}
//   func Reader (failing io.Reader)                   -> C07/read-fault      {data, offset, mode, err_with_data?}
//   func (*Node).Write (failing io.Writer)            -> C07/write-fault     {tree, k}
//   func Reader (arbitrary bytes)                     -> C11/total           {data}
//   func Reader / File (early stop)                   -> C18/stop            {data, stop, api}
//   func (*Node).PreOrder / PostOrder (early stop)    -> C18/traverse-stop   {tree, pre, stop}
//   func (*Node).PreOrder / PostOrder                 -> C19/traversal       {tree}
//   func (*Node).PreOrder / PostOrder (one iterator value ranged several times; two iterators interleaved)
//                                                     -> C19/reiterate       {tree, pre, stop}
//
// Tree encodings accepted for every "tree" input (nwTree):
//   {"name":[ints], "dist": number|"NaN"|"+Inf"|"-Inf", "children":[tree...]}   nested form
//   {"parents":[-1,0,0,1,...], "names":[[ints]...]?, "dists":[...]?}            flat form, parents[i] < i,
//                                                       node 0 is the root, children in index order
//   {"chain": n, "name":[ints]?, "dist": x?}            n nodes, each the only child of the previous one
//   {"star": n, "name":[ints]?, "dist": x?}             a root with n leaf children
// (the last three exist because encoding/json refuses documents nested deeper than 10000 levels).

import (
	"bytes"
	"compress/gzip"
	"errors"
	"fmt"
	"io"
	"iter"
	"math"
	"math/rand"
	"os"
	"path/filepath"
	"reflect"
	"strings"
	"testing"
	"time"
)

func TestVerif(t *testing.T) { vrMain(t, nwClauses()) }

// Set to true to make C11/total also flag accepted trees that are not fixed
// points when one of their names contains TAB/CR/LF. The statement of C11
// exempts "records whose text fields [contain] the format's own delimiter
// bytes: TAB, CR, LF", so by default such trees are not checked.
const nwC11CheckDelimiterNames = false

const (
	nwSigLinebreak = "newick:name-with-linebreak-unquoted"
	nwSigInf       = "newick:inf-distance"
	nwQuotingSet   = "(),:;'_\t"
)

// ---------------------------------------------------------------------------
// tree input decoding / encoding
// ---------------------------------------------------------------------------

func nwTree(v any) *Node {
	m := vrMap(v)
	if m == nil {
		panic("harness: tree is not an object")
	}
	if c, ok := m["chain"]; ok {
		n := vrInt(c)
		if n < 1 {
			n = 1
		}
		name, dist := vrStr(m["name"]), vrFloat(m["dist"])
		root := &Node{Name: name, Distance: dist}
		cur := root
		for i := 1; i < n; i++ {
			nn := &Node{Name: name, Distance: dist}
			cur.Children = []*Node{nn}
			cur = nn
		}
		return root
	}
	if c, ok := m["star"]; ok {
		n := vrInt(c)
		name, dist := vrStr(m["name"]), vrFloat(m["dist"])
		root := &Node{Name: name, Distance: dist}
		for i := 0; i < n; i++ {
			root.Children = append(root.Children, &Node{Name: name, Distance: dist})
		}
		return root
	}
	if p, ok := m["parents"]; ok {
		parents := vrInts(p)
		if len(parents) == 0 {
			panic("harness: empty parents")
		}
		names, dists := vrList(m["names"]), vrList(m["dists"])
		nodes := make([]*Node, len(parents))
		for i := range parents {
			nodes[i] = &Node{}
			if i < len(names) {
				nodes[i].Name = vrStr(names[i])
			}
			if i < len(dists) {
				nodes[i].Distance = vrFloat(dists[i])
			}
			if i > 0 {
				pi := parents[i]
				if pi < 0 || pi >= i {
					panic("harness: parents[i] must be in 0..i-1")
				}
				nodes[pi].Children = append(nodes[pi].Children, nodes[i])
			}
		}
		return nodes[0]
	}
	n := &Node{Name: vrStr(m["name"]), Distance: vrFloat(m["dist"])}
	for _, c := range vrList(m["children"]) {
		n.Children = append(n.Children, nwTree(c))
	}
	return n
}

func nwTrees(v any) []*Node {
	var r []*Node
	for _, e := range vrList(v) {
		r = append(r, nwTree(e))
	}
	return r
}

// nwEnc encodes a (not too deep) tree in the nested form.
func nwEnc(n *Node) map[string]any {
	ch := make([]any, 0, len(n.Children))
	for _, c := range n.Children {
		ch = append(ch, nwEnc(c))
	}
	return map[string]any{"name": vrS(n.Name), "dist": vrF(n.Distance), "children": ch}
}

func nwEncList(ts []*Node) []any {
	r := make([]any, 0, len(ts))
	for _, t := range ts {
		r = append(r, nwEnc(t))
	}
	return r
}

// nwNodes lists the nodes in pre-order without recursion.
func nwNodes(root *Node) []*Node {
	var out []*Node
	stack := []*Node{root}
	for len(stack) > 0 {
		n := stack[len(stack)-1]
		stack = stack[:len(stack)-1]
		out = append(out, n)
		for i := len(n.Children) - 1; i >= 0; i-- {
			stack = append(stack, n.Children[i])
		}
	}
	return out
}

func nwCopy(root *Node) *Node {
	type pr struct{ src, dst *Node }
	res := &Node{}
	stack := []pr{{root, res}}
	for len(stack) > 0 {
		p := stack[len(stack)-1]
		stack = stack[:len(stack)-1]
		p.dst.Name, p.dst.Distance = p.src.Name, p.src.Distance
		for _, c := range p.src.Children {
			d := &Node{}
			p.dst.Children = append(p.dst.Children, d)
			stack = append(stack, pr{c, d})
		}
	}
	return res
}

func nwFloatEq(a, b float64) bool {
	if math.IsNaN(a) || math.IsNaN(b) {
		return math.IsNaN(a) && math.IsNaN(b)
	}
	return a == b // -0 == 0: "0 means none"
}

// nwDiff compares two trees structurally (shape, names, distances; NaN equals
// NaN; nil and empty child lists are the same). Returns "" when equal.
func nwDiff(want, got *Node) string {
	if want == nil || got == nil {
		if want == got {
			return ""
		}
		return fmt.Sprintf("nil-ness differs: want nil=%v got nil=%v", want == nil, got == nil)
	}
	type pr struct {
		a, b *Node
		path string
	}
	stack := []pr{{want, got, "root"}}
	steps := 0
	for len(stack) > 0 {
		p := stack[len(stack)-1]
		stack = stack[:len(stack)-1]
		steps++
		if p.a.Name != p.b.Name {
			return fmt.Sprintf("%s: name want %q got %q", p.path, p.a.Name, p.b.Name)
		}
		if !nwFloatEq(p.a.Distance, p.b.Distance) {
			return fmt.Sprintf("%s: distance want %v got %v", p.path, p.a.Distance, p.b.Distance)
		}
		if len(p.a.Children) != len(p.b.Children) {
			return fmt.Sprintf("%s: %d children wanted, got %d", p.path, len(p.a.Children), len(p.b.Children))
		}
		for i := range p.a.Children {
			path := ""
			if steps < 2000 {
				path = fmt.Sprintf("%s.%d", p.path, i)
			} else {
				path = "(deep)"
			}
			if p.a.Children[i] == nil || p.b.Children[i] == nil {
				return path + ": nil child"
			}
			stack = append(stack, pr{p.a.Children[i], p.b.Children[i], path})
		}
	}
	return ""
}

func nwLinebreakName(s string) bool {
	return strings.ContainsAny(s, "\n\r") && !strings.ContainsAny(s, nwQuotingSet)
}

func nwHasLinebreakName(ts []*Node) bool {
	for _, t := range ts {
		for _, n := range nwNodes(t) {
			if nwLinebreakName(n.Name) {
				return true
			}
		}
	}
	return false
}

func nwHasDelimiterName(t *Node) bool {
	for _, n := range nwNodes(t) {
		if strings.ContainsAny(n.Name, "\t\r\n") {
			return true
		}
	}
	return false
}

func nwHasInf(ts []*Node) bool {
	for _, t := range ts {
		for _, n := range nwNodes(t) {
			if math.IsInf(n.Distance, 0) {
				return true
			}
		}
	}
	return false
}

var nwNoBreaks = strings.NewReplacer("\n", "x", "\r", "x")

// nwNeutralise returns copies of the trees in which the names that trigger the
// known line-break defect have their line breaks replaced (breaks) and/or the
// infinite distances are replaced by +-1 (infs).
func nwNeutralise(ts []*Node, breaks, infs bool) []*Node {
	out := make([]*Node, len(ts))
	for i, t := range ts {
		c := nwCopy(t)
		for _, n := range nwNodes(c) {
			if breaks && nwLinebreakName(n.Name) {
				n.Name = nwNoBreaks.Replace(n.Name)
			}
			if infs && math.IsInf(n.Distance, 0) {
				n.Distance = math.Copysign(1, n.Distance)
			}
		}
		out[i] = c
	}
	return out
}

// nwClassify computes the signature of a failure of check(ts): a special
// signature is given only if the failure disappears when the special feature
// is removed from the input.
func nwClassify(ts []*Node, check func([]*Node) string) string {
	if nwHasLinebreakName(ts) {
		if check(nwNeutralise(ts, true, false)) == "" {
			return nwSigLinebreak
		}
		ts = nwNeutralise(ts, true, false)
	}
	if nwHasInf(ts) {
		if check(nwNeutralise(ts, false, true)) == "" {
			return nwSigInf
		}
	}
	return "generic"
}

// ---------------------------------------------------------------------------
// iteration helpers
// ---------------------------------------------------------------------------

type nwItem struct {
	n   *Node
	err error
}

// nwCollect runs the iterator to its end (or until max items), calling it
// directly so that callbacks after a refusal can be observed.
func nwCollect(seq iter.Seq2[*Node, error], max int) (items []nwItem, overflow bool, pan any) {
	pan = vrCatch(func() {
		stopped := false
		seq(func(n *Node, err error) bool {
			if stopped {
				overflow = true
				return false
			}
			items = append(items, nwItem{n, err})
			if len(items) >= max {
				overflow = true
				stopped = true
				return false
			}
			return true
		})
	})
	return
}

func nwDecode(data []byte) (items []nwItem, overflow bool, pan any) {
	return nwCollect(Reader(bytes.NewReader(data)), len(data)+8)
}

func nwItemString(it nwItem) string {
	if it.err != nil {
		if it.n != nil {
			return fmt.Sprintf("tree+error(%v)", it.err)
		}
		return fmt.Sprintf("error(%v)", it.err)
	}
	if it.n == nil {
		return "(nil,nil)"
	}
	var b strings.Builder
	nwSketch(it.n, &b, 0)
	return b.String()
}

// nwSketch renders a tree for messages with an independent, unambiguous syntax.
func nwSketch(n *Node, b *strings.Builder, depth int) {
	if b.Len() > 300 || depth > 50 {
		b.WriteString("...")
		return
	}
	fmt.Fprintf(b, "%q", n.Name)
	if n.Distance != 0 || math.Signbit(n.Distance) {
		fmt.Fprintf(b, ":%v", n.Distance)
	}
	if len(n.Children) > 0 {
		b.WriteString("[")
		for i, c := range n.Children {
			if i > 0 {
				b.WriteString(" ")
			}
			if c == nil {
				b.WriteString("<nil>")
				continue
			}
			nwSketch(c, b, depth+1)
		}
		b.WriteString("]")
	}
}

func nwItemsString(items []nwItem) string {
	var parts []string
	for i, it := range items {
		if i >= 8 {
			parts = append(parts, fmt.Sprintf("...(%d items)", len(items)))
			break
		}
		parts = append(parts, nwItemString(it))
	}
	return "[" + strings.Join(parts, " | ") + "]"
}

// nwItemDiff compares two items; kind is "" (equal), "item" (tree / error
// presence differs) or "errtext" (both errors, different text).
func nwItemDiff(a, b nwItem) (kind, msg string) {
	if (a.err != nil) != (b.err != nil) {
		return "item", fmt.Sprintf("%s vs %s", nwItemString(a), nwItemString(b))
	}
	if a.err != nil {
		if a.err.Error() != b.err.Error() {
			return "errtext", fmt.Sprintf("error %q vs %q", a.err.Error(), b.err.Error())
		}
		return "", ""
	}
	if d := nwDiff(a.n, b.n); d != "" {
		return "item", d
	}
	return "", ""
}

// nwSeqDiff compares two complete item sequences.
func nwSeqDiff(a, b []nwItem) (kind, msg string) {
	for i := 0; i < len(a) && i < len(b); i++ {
		if k, m := nwItemDiff(a[i], b[i]); k == "item" {
			return k, fmt.Sprintf("item %d: %s", i, m)
		}
	}
	if len(a) != len(b) {
		return "item", fmt.Sprintf("%d items vs %d items", len(a), len(b))
	}
	for i := range a {
		if k, m := nwItemDiff(a[i], b[i]); k != "" {
			return k, fmt.Sprintf("item %d: %s", i, m)
		}
	}
	return "", ""
}

// nwOutOfScope: the plain, uninterrupted Reader run on the whole input
// panics or does not end. That is what C11/total checks; the comparison
// clauses (C06, C07, C18) have nothing to compare with and do not flag it.
func nwOutOfScope(pan any, over bool) vrResult {
	return vrResult{OK: true, Trivial: true, Observed: fmt.Sprintf("not checked: plain decode panic=%v overflow=%v (see C11/total)", pan, over)}
}

func nwFail(sig, observed, expected string) vrResult {
	return vrResult{OK: false, Observed: observed, Expected: expected, Signature: sig}
}

// ---------------------------------------------------------------------------
// independent scanner for the "condensed" clause
// ---------------------------------------------------------------------------

// nwOutsideQuotes calls f for every byte of a written tree that is outside a
// quoted name; f returns false to stop. Quote-aware: a doubled quote inside quotes
// is an escaped quote.
func nwOutsideQuotes(b []byte, f func(i int, c byte) bool) {
	inq := false
	for i := 0; i < len(b); i++ {
		c := b[i]
		if inq {
			if c == '\'' {
				if i+1 < len(b) && b[i+1] == '\'' {
					i++
					continue
				}
				inq = false
			}
			continue
		}
		if c == '\'' {
			inq = true
			continue
		}
		if !f(i, c) {
			return
		}
	}
}

// nwFirstBareWhitespace returns the index of the first whitespace byte
// (space, TAB, LF, CR) outside quoted names, or -1.
func nwFirstBareWhitespace(b []byte) int {
	r := -1
	nwOutsideQuotes(b, func(i int, c byte) bool {
		if c == ' ' || c == '\t' || c == '\n' || c == '\r' {
			r = i
			return false
		}
		return true
	})
	return r
}

// ---------------------------------------------------------------------------
// shape enumeration and generators' material
// ---------------------------------------------------------------------------

var nwForestMemo = map[int][]string{}

// nwForests returns all ordered forests with m nodes as balanced-paren strings.
func nwForests(m int) []string {
	if m == 0 {
		return []string{""}
	}
	if r, ok := nwForestMemo[m]; ok {
		return r
	}
	var r []string
	for k := 1; k <= m; k++ {
		for _, inner := range nwForests(k - 1) {
			for _, rest := range nwForests(m - k) {
				r = append(r, "("+inner+")"+rest)
			}
		}
	}
	nwForestMemo[m] = r
	return r
}

// nwShapes returns all ordered trees with exactly n nodes.
func nwShapes(n int) []string {
	var r []string
	for _, f := range nwForests(n - 1) {
		r = append(r, "("+f+")")
	}
	return r
}

// nwFromShape builds the tree; node i (pre-order) is named "n<i>".
func nwFromShape(s string) *Node {
	var root *Node
	var stack []*Node
	i := 0
	for _, c := range s {
		if c == '(' {
			n := &Node{Name: fmt.Sprintf("n%d", i)}
			i++
			if len(stack) > 0 {
				p := stack[len(stack)-1]
				p.Children = append(p.Children, n)
			} else {
				root = n
			}
			stack = append(stack, n)
		} else {
			stack = stack[:len(stack)-1]
		}
	}
	return root
}

func nwAllShapes(maxNodes int) []string {
	var r []string
	for n := 1; n <= maxNodes; n++ {
		r = append(r, nwShapes(n)...)
	}
	return r
}

// nwNameAlphabet: the bytes the codec treats specially, an ordinary letter, and
// bytes that a reader or writer might wrongly treat as white space or as a
// format directive (VT, FF, NUL, DEL, 0x85 = NEL, 0xa0 = NBSP, 0xff, '%').
var nwNameAlphabet = []byte{' ', '_', '\'', '(', ')', ',', ':', ';', '\t', '\n', '\r', 'a', 0x80,
	0x0b, 0x0c, 0x00, 0x7f, 0x85, 0xa0, 0xff, '%'}

var nwNames = []string{
	"", "a", "n1", "a b", " ", "  a ", "_", "a_b", "'", "''", "a'b", "'a'", "(", ")", "(a,b)c:1;",
	",", ":", ";", "a:1", "\t", "a\tb", "\n", "a\nb", "\r", "a\r\nb", "a\n'b", "\n_", "\x80", "\xc3\xa9",
	"1.5", "NaN", "[x]", "-", "x;y\nz", "\"q\"", "a\x00b",
	"\v", "a\vb", "\f", "a\fb \x85\xa0", "50%", "%d", "%s%s", "100%%",
}

var nwDists = []float64{0, 1, -1.5, 1e21, 5e-324, math.NaN(), 1e-7, 123456789.125, math.Inf(1), math.Inf(-1),
	math.Copysign(0, -1), math.MaxFloat64, 0.1, 100000000, -2.5e-300}

func nwRandName(r *rand.Rand) string {
	switch r.Intn(10) {
	case 0:
		return nwNames[r.Intn(len(nwNames))]
	case 1:
		b := make([]byte, r.Intn(6))
		for i := range b {
			b[i] = byte(r.Intn(256))
		}
		return string(b)
	case 2, 3:
		return string(vrRandWord(r, []byte("abc xyz019.-"), r.Intn(6)))
	}
	return string(vrRandWord(r, nwNameAlphabet, r.Intn(5)))
}

func nwRandDist(r *rand.Rand) float64 {
	switch r.Intn(6) {
	case 0:
		return 0
	case 1:
		return math.Float64frombits(r.Uint64())
	case 2:
		return float64(r.Intn(2000)-1000) / 8
	case 3:
		return r.NormFloat64() * math.Pow(10, float64(r.Intn(40)-20))
	}
	return nwDists[r.Intn(len(nwDists))]
}

// nwRandTree builds a random tree with n nodes; deepBias in [0,1] is the
// probability of attaching a new node to the most recently added node.
func nwRandTree(r *rand.Rand, n int, deepBias float64, decorate bool) *Node {
	nodes := make([]*Node, 0, n)
	for i := 0; i < n; i++ {
		nd := &Node{Name: fmt.Sprintf("n%d", i)}
		if decorate {
			nd.Name, nd.Distance = nwRandName(r), nwRandDist(r)
		}
		if i > 0 {
			p := nodes[i-1]
			if r.Float64() >= deepBias {
				p = nodes[r.Intn(i)]
			}
			p.Children = append(p.Children, nd)
		}
		nodes = append(nodes, nd)
	}
	return nodes[0]
}

// nwFlat encodes a tree in the flat "parents" form (children order preserved:
// nodes are numbered in breadth-first order, so children of a node are
// consecutive and in slice order).
func nwFlat(root *Node, withNames bool) map[string]any {
	idx := map[*Node]int{root: 0}
	queue := []*Node{root}
	parents := []int{-1}
	for qi := 0; qi < len(queue); qi++ {
		n := queue[qi]
		for _, c := range n.Children {
			idx[c] = len(queue)
			queue = append(queue, c)
			parents = append(parents, idx[n])
		}
	}
	m := map[string]any{"parents": vrI(parents)}
	if withNames {
		names := make([]any, len(queue))
		dists := make([]any, len(queue))
		for i, n := range queue {
			names[i], dists[i] = vrS(n.Name), vrF(n.Distance)
		}
		m["names"], m["dists"] = names, dists
	}
	return m
}

func nwHead(b []byte) []byte {
	if len(b) > 120 {
		return b[:120]
	}
	return b
}

func nwMarshal(t *Node) []byte {
	b, err := t.MarshalText()
	if err != nil {
		panic("harness: MarshalText failed: " + err.Error())
	}
	return b
}

// ---------------------------------------------------------------------------
// C05
// ---------------------------------------------------------------------------

// nwNameTokenCheck: nameToText(s)+";" must decode to exactly one node named s.
func nwNameTokenCheck(s string) string {
	txt := nameToText(s)
	items, over, pan := nwDecode([]byte(txt + ";"))
	if pan != nil {
		return fmt.Sprintf("panic: %v", pan)
	}
	if over || len(items) != 1 || items[0].err != nil || items[0].n == nil {
		return fmt.Sprintf("text %q decodes to %s", txt+";", nwItemsString(items))
	}
	if d := nwDiff(&Node{Name: s}, items[0].n); d != "" {
		return fmt.Sprintf("text %q decodes to %s (%s)", txt+";", nwItemsString(items), d)
	}
	return ""
}

func nwRunNameCodec(in map[string]any) vrResult {
	s := vrStr(in["s"])
	var back string
	if p := vrCatch(func() { back = nameFromText(nameToText(s)) }); p != nil {
		return nwFail("newick:name-codec-panic", fmt.Sprintf("panic: %v", p), "no panic")
	}
	if back != s {
		return nwFail("newick:name-codec-not-inverse",
			fmt.Sprintf("nameToText(%q)=%q, nameFromText of that=%q", s, nameToText(s), back),
			fmt.Sprintf("nameFromText(nameToText(s)) == %q", s))
	}
	if msg := nwNameTokenCheck(s); msg != "" {
		sig := "generic"
		if nwLinebreakName(s) && nwNameTokenCheck(nwNoBreaks.Replace(s)) == "" {
			sig = nwSigLinebreak
		}
		return nwFail(sig, msg, fmt.Sprintf("a single node named %q", s))
	}
	return vrResult{OK: true, Trivial: s == ""}
}

func nwGenNameCodec(g *vrGen) {
	maxLen := 3
	if g.Thorough() {
		maxLen = 4
	}
	done := vrWords(nwNameAlphabet, maxLen, func(w []byte) bool {
		g.Case(map[string]any{"s": vrB(w)})
		return !g.Expired()
	})
	for _, s := range nwNames {
		g.Case(map[string]any{"s": vrS(s)})
	}
	// all single bytes and all pairs (special byte, any byte)
	for c := 0; c < 256; c++ {
		g.Case(map[string]any{"s": vrB([]byte{byte(c)})})
	}
	for _, a := range nwNameAlphabet {
		for c := 0; c < 256 && !g.Expired(); c++ {
			g.Case(map[string]any{"s": vrB([]byte{a, byte(c)})})
			g.Case(map[string]any{"s": vrB([]byte{byte(c), a})})
		}
	}
	g.Exhaustive(done && !g.Expired())
	n := 20000
	if g.Thorough() {
		n = 400000
	}
	for i := 0; i < n && !g.Expired(); i++ {
		var w []byte
		if i%4 == 0 {
			w = []byte(nwRandName(g.Rand))
		} else {
			w = vrRandWord(g.Rand, nwNameAlphabet, 4+g.Rand.Intn(9))
		}
		g.Case(map[string]any{"s": vrB(w)})
	}
}

// nwWriteAll writes the trees one after another with Write, sep after each
// tree but the last (and after the last too if trailing).
func nwWriteAll(ts []*Node, sep []byte, trailing bool) ([]byte, string) {
	var buf bytes.Buffer
	for i, t := range ts {
		var err error
		if p := vrCatch(func() { err = t.Write(&buf) }); p != nil {
			return nil, fmt.Sprintf("Write panicked: %v", p)
		}
		if err != nil {
			return nil, fmt.Sprintf("Write to a bytes.Buffer returned error %v", err)
		}
		if i < len(ts)-1 || trailing {
			buf.Write(sep)
		}
	}
	return buf.Bytes(), ""
}

// nwReadBackCheck: data must decode to exactly the trees ts.
func nwReadBackCheck(ts []*Node, data []byte) string {
	items, over, pan := nwCollect(Reader(bytes.NewReader(data)), len(ts)+4)
	if pan != nil {
		return fmt.Sprintf("Reader panicked: %v", pan)
	}
	show := func() string {
		d := data
		if len(d) > 200 {
			d = d[:200]
		}
		return fmt.Sprintf("text %q decodes to %s", d, nwItemsString(items))
	}
	if over {
		return show() + " (too many items)"
	}
	for i, it := range items {
		if it.err != nil || it.n == nil {
			return fmt.Sprintf("%s: item %d is not a tree", show(), i)
		}
		if i >= len(ts) {
			return fmt.Sprintf("%s: %d trees written, more read", show(), len(ts))
		}
		if d := nwDiff(ts[i], it.n); d != "" {
			return fmt.Sprintf("%s: tree %d differs: %s", show(), i, d)
		}
	}
	if len(items) != len(ts) {
		return fmt.Sprintf("%s: %d trees written, %d read", show(), len(ts), len(items))
	}
	return ""
}

// nwSingleTreeCheck is the oracle of C05/tree-roundtrip. Returns (kind, message).
func nwSingleTreeCheck(t *Node) (string, string) {
	var m []byte
	var merr error
	if p := vrCatch(func() { m, merr = t.MarshalText() }); p != nil {
		return "panic", fmt.Sprintf("MarshalText panicked: %v", p)
	}
	if merr != nil {
		return "write-error", fmt.Sprintf("MarshalText returned error %v", merr)
	}
	w, msg := nwWriteAll([]*Node{t}, nil, false)
	if msg != "" {
		return "write-error", msg
	}
	if !bytes.Equal(m, w) {
		return "write-vs-marshal", fmt.Sprintf("MarshalText %q but Write wrote %q", m, w)
	}
	if len(m) == 0 || m[len(m)-1] != ';' {
		return "no-semicolon", fmt.Sprintf("written form %q does not end with ';'", m)
	}
	if msg := nwReadBackCheck([]*Node{t}, m); msg != "" {
		return "roundtrip", msg
	}
	if i := nwFirstBareWhitespace(m); i >= 0 {
		return "not-condensed", fmt.Sprintf("written form %q has whitespace byte %q outside quoted names at offset %d", nwHead(m), m[i], i)
	}
	return "", ""
}

func nwRunTreeRoundtrip(in map[string]any) vrResult {
	t := nwTree(in["tree"])
	kind, msg := nwSingleTreeCheck(t)
	if kind == "" {
		return vrResult{OK: true, Trivial: len(t.Children) == 0 && t.Name == "" && t.Distance == 0}
	}
	sig := nwClassify([]*Node{t}, func(ts []*Node) string { k, _ := nwSingleTreeCheck(ts[0]); return k })
	if sig == "generic" && kind == "write-vs-marshal" {
		sig = "newick:write-differs-from-marshaltext"
	}
	return nwFail(sig, kind+": "+msg, "Write==MarshalText bytes, ends with ';', no whitespace outside quoted names, reads back as the identical tree")
}

func nwGenTreeRoundtrip(g *vrGen) {
	maxNodes := 4
	if g.Thorough() {
		maxNodes = 5
	}
	emit := func(t *Node) { g.Case(map[string]any{"tree": nwEnc(t)}) }
	complete := true
	shapes := nwAllShapes(maxNodes)
	// (a) every shape, every node position, every name x every distance at that position
	for _, sh := range shapes {
		n := len(sh) / 2
		for p := 0; p < n && complete; p++ {
			for ni, name := range nwNames {
				for di, d := range nwDists {
					// quick: every name with the first 3 distances, every distance with the first 3 names, 1/5 of the other pairs; thorough: all pairs
					if !g.Thorough() && (ni+di)%5 != 0 && ni > 2 && di > 2 {
						continue
					}
					t := nwFromShape(sh)
					nd := nwNodes(t)[p]
					nd.Name, nd.Distance = name, d
					emit(t)
				}
				if g.Expired() {
					complete = false
					break
				}
			}
		}
	}
	// (b) every shape with the same name / distance on all nodes
	for _, sh := range shapes {
		for _, name := range nwNames {
			t := nwFromShape(sh)
			for _, nd := range nwNodes(t) {
				nd.Name = name
			}
			emit(t)
		}
		for _, d := range nwDists {
			t := nwFromShape(sh)
			for _, nd := range nwNodes(t) {
				nd.Distance = d
			}
			emit(t)
		}
		if g.Expired() {
			complete = false
			break
		}
	}
	// (c) trees of <= 3 nodes (<= 2 in quick) with every assignment of names
	small := 2
	if g.Thorough() {
		small = 3
	}
	for _, sh := range nwAllShapes(small) {
		n := len(sh) / 2
		idx := make([]int, n)
		for complete {
			t := nwFromShape(sh)
			for i, nd := range nwNodes(t) {
				nd.Name = nwNames[idx[i]]
				nd.Distance = nwDists[(idx[i]+i)%len(nwDists)]
			}
			emit(t)
			k := 0
			for k < n {
				idx[k]++
				if idx[k] < len(nwNames) {
					break
				}
				idx[k] = 0
				k++
			}
			if k == n {
				break
			}
			if g.Expired() {
				complete = false
			}
		}
	}
	g.Exhaustive(complete)
	if g.Thorough() {
		for _, name := range []string{"", "a", "a b", "it's", "a\nb"} {
			for _, d := range []float64{0, 1.5} {
				g.Case(map[string]any{"tree": map[string]any{"chain": 10000, "name": vrS(name), "dist": vrF(d)}})
				g.Case(map[string]any{"tree": map[string]any{"star": 10000, "name": vrS(name), "dist": vrF(d)}})
			}
		}
	}
	// (d) random trees
	maxRand, count := 12, 12000
	if g.Thorough() {
		maxRand, count = 200, 60000
	}
	for i := 0; i < count && !g.Expired(); i++ {
		n := 1 + g.Rand.Intn(maxRand)
		if i%3 == 0 {
			n = 1 + g.Rand.Intn(6)
		}
		emit(nwRandTree(g.Rand, n, g.Rand.Float64(), true))
	}
}

func nwIsWhitespace(b []byte) bool {
	for _, c := range b {
		if c != ' ' && c != '\t' && c != '\n' && c != '\r' {
			return false
		}
	}
	return true
}

func nwMultiCheck(ts []*Node, sep []byte, trailing bool) string {
	data, msg := nwWriteAll(ts, sep, trailing)
	if msg != "" {
		return msg
	}
	return nwReadBackCheck(ts, data)
}

func nwRunMultiTree(in map[string]any) vrResult {
	ts := nwTrees(in["trees"])
	sep := vrBytes(in["sep"])
	trailing := vrBool(in["trailing"])
	if !nwIsWhitespace(sep) {
		return vrResult{OK: true, Trivial: true, Observed: "precondition: sep must consist of whitespace bytes"}
	}
	msg := nwMultiCheck(ts, sep, trailing)
	if msg == "" {
		return vrResult{OK: true, Trivial: len(ts) < 2}
	}
	sig := nwClassify(ts, func(x []*Node) string { return nwMultiCheck(x, sep, trailing) })
	if sig == "generic" && trailing && len(sep) > 0 && nwMultiCheck(ts, sep, false) == "" {
		sig = "newick:trailing-separator"
	}
	return nwFail(sig, msg, "the same sequence of trees")
}

func nwMultiPool() []*Node {
	mk := func(sh string, names []string, dists []float64) *Node {
		t := nwFromShape(sh)
		for i, nd := range nwNodes(t) {
			nd.Name, nd.Distance = names[i%len(names)], dists[i%len(dists)]
		}
		return t
	}
	return []*Node{
		mk("()", []string{""}, []float64{0}),
		mk("()", []string{"a"}, []float64{0}),
		mk("()", []string{"a b"}, []float64{1.5}),
		mk("()", []string{"it's;"}, []float64{0}),
		mk("()", []string{""}, []float64{-2}),
		mk("(())", []string{"", ""}, []float64{0}),
		mk("(()())", []string{"r", "x", "(y)"}, []float64{0, 1, 1e21}),
		mk("(()())", []string{"", "", ""}, []float64{0}),
		mk("((()))", []string{"a_b", " ", "\t"}, []float64{math.NaN(), 0, 5e-324}),
		mk("()", []string{"a\nb"}, []float64{0}),
		mk("(())", []string{"'", "''"}, []float64{0, 1}),
		mk("()", []string{"x\n;"}, []float64{0}),
	}
}

func nwGenMultiTree(g *vrGen) {
	pool := nwMultiPool()
	seps := []string{"", "\n", " ", "\r\n", "\t", " \n\n "}
	maxLen := 2
	if g.Thorough() {
		maxLen = 3
	}
	complete := true
	idx := make([]byte, len(pool))
	for i := range idx {
		idx[i] = byte(i)
	}
	vrWords(idx, maxLen, func(w []byte) bool {
		ts := make([]*Node, len(w))
		for i, k := range w {
			ts[i] = pool[k]
		}
		enc := nwEncList(ts)
		for _, sep := range seps {
			g.Case(map[string]any{"trees": enc, "sep": vrS(sep), "trailing": false})
			if sep != "" {
				g.Case(map[string]any{"trees": enc, "sep": vrS(sep), "trailing": true})
			}
		}
		if g.Expired() {
			complete = false
		}
		return complete
	})
	g.Exhaustive(complete)
	count := 5000
	if g.Thorough() {
		count = 30000
	}
	for i := 0; i < count && !g.Expired(); i++ {
		k := g.Rand.Intn(6)
		ts := make([]*Node, k)
		for j := range ts {
			ts[j] = nwRandTree(g.Rand, 1+g.Rand.Intn(8), g.Rand.Float64(), true)
		}
		sep := vrRandWord(g.Rand, []byte(" \t\n\r"), g.Rand.Intn(4))
		g.Case(map[string]any{"trees": nwEncList(ts), "sep": vrB(sep), "trailing": g.Rand.Intn(2) == 0})
	}
}

// nwMarshalListCheck is the oracle of C05/marshal-list; "" when it holds.
func nwMarshalListCheck(ts []*Node) string {
	// 1. every MarshalText call first; the results are kept as returned (not
	// copied, not touched between the calls).
	kept := make([][]byte, len(ts))
	for i, t := range ts {
		var merr error
		if p := vrCatch(func() { kept[i], merr = t.MarshalText() }); p != nil {
			return fmt.Sprintf("tree %d: MarshalText panicked: %v", i, p)
		}
		if merr != nil {
			return fmt.Sprintf("tree %d: MarshalText returned error %v", i, merr)
		}
	}
	// 2. only now the reference bytes: Write of each tree into a fresh buffer
	// (all of them before the first comparison: Write may itself go through
	// MarshalText).
	refs := make([][]byte, len(ts))
	for i, t := range ts {
		w, msg := nwWriteAll([]*Node{t}, nil, false)
		if msg != "" {
			return fmt.Sprintf("tree %d: %s", i, msg)
		}
		refs[i] = w
	}
	for i := range ts {
		if !bytes.Equal(kept[i], refs[i]) {
			return fmt.Sprintf("tree %d of %d: the slice MarshalText returned holds %q after the later calls, but Write wrote %q", i, len(ts), nwHead(kept[i]), nwHead(refs[i]))
		}
	}
	// 3. the kept slices joined read back as the list.
	if msg := nwReadBackCheck(ts, bytes.Join(kept, nil)); msg != "" {
		return "joined MarshalText results: " + msg
	}
	// 4. all trees written one after another into one shared buffer.
	shared, msg := nwWriteAll(ts, nil, false)
	if msg != "" {
		return "shared buffer: " + msg
	}
	if want := bytes.Join(refs, nil); !bytes.Equal(shared, want) {
		return fmt.Sprintf("sequential Write calls into one buffer emitted %q, the Write calls into fresh buffers %q", nwHead(shared), nwHead(want))
	}
	if msg := nwReadBackCheck(ts, shared); msg != "" {
		return "shared buffer: " + msg
	}
	return ""
}

func nwRunMarshalList(in map[string]any) vrResult {
	ts := nwTrees(in["trees"])
	msg := nwMarshalListCheck(ts)
	if msg == "" {
		return vrResult{OK: true, Trivial: len(ts) < 2}
	}
	return nwFail(nwClassify(ts, nwMarshalListCheck), msg,
		"MarshalText results stay equal to the Write bytes after later calls; joined / written into one buffer they read back as the same sequence of trees")
}

// nwMarkedStar: tree number k of a list, a root with n leaves; every name
// starts with a letter that is different for every k.
func nwMarkedStar(k, n int) *Node {
	mark := string(rune('a' + k%26))
	root := &Node{Name: fmt.Sprintf("%s%d", mark, n), Distance: float64(k)}
	for i := 0; i < n; i++ {
		root.Children = append(root.Children, &Node{Name: mark, Distance: float64(i % 3)})
	}
	return root
}

// nwTreeSize: nodes + name bytes (a proxy of the written length).
func nwTreeSize(t *Node) int {
	n := 0
	for _, nd := range nwNodes(t) {
		n += 1 + len(nd.Name)
	}
	return n
}

func nwGenMarshalList(g *vrGen) {
	complete := true
	emit := func(ts []*Node) bool {
		if g.Expired() {
			complete = false
			return false
		}
		g.Case(map[string]any{"trees": nwEncList(ts)})
		return true
	}
	ok := true
	leaves := []int{0, 1, 2, 5, 17, 60}
	var up, down []*Node
	for i, a := range leaves {
		for j, b := range leaves {
			ok = ok && emit([]*Node{nwMarkedStar(i, a), nwMarkedStar(len(leaves)+j, b)})
		}
		up = append(up, nwMarkedStar(i, a))
		down = append(down, nwMarkedStar(i, leaves[len(leaves)-1-i]))
	}
	ok = ok && emit(up) && emit(down)
	pool := nwMultiPool()
	for _, a := range pool {
		for _, b := range pool {
			ok = ok && emit([]*Node{a, b})
		}
	}
	g.Exhaustive(complete && ok)
	r := g.Rand
	for !g.Expired() {
		ts := make([]*Node, 2+r.Intn(5))
		sizes := map[int]bool{}
		for i := range ts {
			for try := 0; ; try++ {
				ts[i] = nwRandTree(r, 1+r.Intn(8), r.Float64(), true)
				if r.Intn(2) == 0 { // marker byte in front of every name
					for _, nd := range nwNodes(ts[i]) {
						nd.Name = string(rune('a'+i)) + nd.Name
					}
				}
				if sz := nwTreeSize(ts[i]); !sizes[sz] || try >= 20 {
					sizes[sz] = true
					break
				}
			}
		}
		emit(ts)
	}
}

// ---------------------------------------------------------------------------
// C06
// ---------------------------------------------------------------------------

// nwChunkReader delivers data in reads of the given sizes (cycled; sizes < 1
// count as 1; no sizes = everything at once), optionally returning io.EOF
// together with the final bytes.
type nwChunkReader struct {
	data        []byte
	chunks      []int
	i, pos      int
	eofWithData bool
}

func (r *nwChunkReader) Read(p []byte) (int, error) {
	if r.pos >= len(r.data) {
		return 0, io.EOF
	}
	if len(p) == 0 {
		return 0, nil
	}
	n := len(r.data) - r.pos
	if len(r.chunks) > 0 {
		c := r.chunks[r.i%len(r.chunks)]
		r.i++
		if c < 1 {
			c = 1
		}
		if c < n {
			n = c
		}
	}
	if n > len(p) {
		n = len(p)
	}
	copy(p, r.data[r.pos:r.pos+n])
	r.pos += n
	if r.pos >= len(r.data) && r.eofWithData {
		return n, io.EOF
	}
	return n, nil
}

func nwCompareDecodes(what string, ref, got []nwItem, over bool, pan any) vrResult {
	if pan != nil {
		return nwFail("generic", fmt.Sprintf("%s panicked: %v", what, pan), "no panic")
	}
	if over {
		return nwFail("generic", what+" yields too many items: "+nwItemsString(got), nwItemsString(ref))
	}
	if kind, msg := nwSeqDiff(ref, got); kind != "" {
		sig := "generic"
		if kind == "errtext" {
			sig = "newick:error-text-differs"
		}
		return nwFail(sig, fmt.Sprintf("%s: %s; got %s", what, msg, nwItemsString(got)), "same items as Reader on the whole bytes: "+nwItemsString(ref))
	}
	return vrResult{OK: true}
}

func nwRunChunking(in map[string]any) vrResult {
	data := vrBytes(in["data"])
	ref, rover, rpan := nwDecode(data)
	if rpan != nil || rover {
		return nwOutOfScope(rpan, rover)
	}
	cr := &nwChunkReader{data: data, chunks: vrInts(in["chunks"]), eofWithData: vrBool(in["eof_with_data"])}
	got, over, pan := nwCollect(Reader(cr), len(data)+8)
	res := nwCompareDecodes("chunked decode", ref, got, over, pan)
	res.Trivial = len(data) < 2
	return res
}

// nwSampleData: well-formed and malformed inputs used by C06/C07/C18.
func nwSampleData(wellFormedOnly bool) [][]byte {
	good := []string{
		"", ";", "a;", "(a,b)c;", "'a''b';x;", "(a:1,b:2e3)c:-0.5;\n(d);\n", "  ( 'a b' , c_d ) e : 1.5 ;\r\n;;",
		"((a,b)c,(d,'e;f')g)h;(i)j;", "'(':1;')';", "a;b;c;d;", "(,(,),);\n\n", "('''':NaN,''''''):+Inf;",
	}
	bad := []string{
		"a", "(a,b", "a;b", "a;(b;c;", "a;);b;", "a b;c;", "a:x;b;", "'abc", "a;'abc", "a'b;", "(a)(b);", "a:1:2;", ",;", "a;  \n x",
		"a:;b;", "(a:);", "a:1e999;b;", "a;''x;",
	}
	var r [][]byte
	for _, s := range good {
		r = append(r, []byte(s))
	}
	if !wellFormedOnly {
		for _, s := range bad {
			r = append(r, []byte(s))
		}
	}
	return r
}

// nwBigData: several trees, > 2 bufio buffers long.
func nwBigData(r *rand.Rand, minLen int) []byte {
	var buf bytes.Buffer
	for buf.Len() < minLen {
		t := nwNeutralise([]*Node{nwRandTree(r, 1+r.Intn(60), r.Float64(), true)}, true, false)[0]
		buf.Write(nwMarshal(t))
		buf.WriteString([]string{"", "\n", "\r\n", " "}[r.Intn(4)])
	}
	return buf.Bytes()
}

func nwGenChunking(g *vrGen) {
	complete := true
	maxPart := 9
	if g.Thorough() {
		maxPart = 13
	}
	// every partition of short inputs
	for _, data := range nwSampleData(false) {
		n := len(data)
		if n == 0 || n > maxPart {
			continue
		}
		for mask := 0; mask < 1<<(n-1) && complete; mask++ {
			var chunks []int
			last := 0
			for i := 1; i < n; i++ {
				if mask&(1<<(i-1)) != 0 {
					chunks = append(chunks, i-last)
					last = i
				}
			}
			chunks = append(chunks, n-last)
			for _, e := range []bool{false, true} {
				g.Case(map[string]any{"data": vrB(data), "chunks": vrI(chunks), "eof_with_data": e})
			}
			if mask%64 == 0 && g.Expired() {
				complete = false
			}
		}
	}
	g.Exhaustive(complete)
	// fixed schedules on all samples and on long inputs
	datas := nwSampleData(false)
	datas = append(datas, nwBigData(g.Rand, 9000), append(nwBigData(g.Rand, 5000), []byte("(a,b")...))
	scheds := [][]int{{}, {1}, {2}, {3}, {7}, {1, 2, 3}, {4095}, {4096}, {4097}, {4096, 1}, {1, 4096}, {1000}}
	for _, data := range datas {
		for _, s := range scheds {
			if len(data) > 100 && len(s) == 1 && s[0] < 3 && !g.Thorough() {
				continue
			}
			for _, e := range []bool{false, true} {
				g.Case(map[string]any{"data": vrB(data), "chunks": vrI(s), "eof_with_data": e})
			}
		}
	}
	count := 1500
	if g.Thorough() {
		count = 20000
	}
	for i := 0; i < count && !g.Expired(); i++ {
		var data []byte
		switch g.Rand.Intn(3) {
		case 0:
			data = nwRandNearValid(g.Rand)
		case 1:
			data = nwBigData(g.Rand, 10+g.Rand.Intn(300))
		default:
			data = nwBigData(g.Rand, 4000+g.Rand.Intn(600))
		}
		chunks := make([]int, 1+g.Rand.Intn(5))
		for j := range chunks {
			chunks[j] = 1 + g.Rand.Intn(12)
			if g.Rand.Intn(4) == 0 {
				chunks[j] = 1 + g.Rand.Intn(5000)
			}
		}
		g.Case(map[string]any{"data": vrB(data), "chunks": vrI(chunks), "eof_with_data": g.Rand.Intn(2) == 0})
	}
}

// nwWithTerminators writes the trees, each followed by term; with wrap, term
// is also inserted after every ',' and ')' outside quoted names.
func nwWithTerminators(ts []*Node, term string, wrap bool) []byte {
	var buf bytes.Buffer
	for _, t := range ts {
		m := nwMarshal(t)
		if !wrap {
			buf.Write(m)
		} else {
			breakAfter := map[int]bool{}
			nwOutsideQuotes(m, func(i int, c byte) bool {
				if c == ',' || c == ')' {
					breakAfter[i] = true
				}
				return true
			})
			for i, c := range m {
				buf.WriteByte(c)
				if breakAfter[i] {
					buf.WriteString(term)
				}
			}
		}
		buf.WriteString(term)
	}
	return buf.Bytes()
}

func nwRunCRLF(in map[string]any) vrResult {
	ts := nwTrees(in["trees"])
	wrap := vrBool(in["wrap"])
	lf := nwWithTerminators(ts, "\n", wrap)
	crlf := nwWithTerminators(ts, "\r\n", wrap)
	ref, rover, rpan := nwDecode(lf)
	if rpan != nil || rover {
		return nwOutOfScope(rpan, rover)
	}
	got, over, pan := nwDecode(crlf)
	res := nwCompareDecodes("CRLF decode", ref, got, over, pan)
	res.Trivial = len(ts) == 0
	return res
}

func nwGenCRLF(g *vrGen) {
	pool := nwMultiPool()
	idx := make([]byte, len(pool))
	for i := range idx {
		idx[i] = byte(i)
	}
	complete := vrWords(idx, 2, func(w []byte) bool {
		ts := make([]*Node, len(w))
		for i, k := range w {
			ts[i] = pool[k]
		}
		for _, wrap := range []bool{false, true} {
			g.Case(map[string]any{"trees": nwEncList(ts), "wrap": wrap})
		}
		return !g.Expired()
	})
	g.Exhaustive(complete)
	count := 5000
	if g.Thorough() {
		count = 60000
	}
	for i := 0; i < count && !g.Expired(); i++ {
		ts := make([]*Node, g.Rand.Intn(5))
		for j := range ts {
			ts[j] = nwRandTree(g.Rand, 1+g.Rand.Intn(10), g.Rand.Float64(), true)
		}
		g.Case(map[string]any{"trees": nwEncList(ts), "wrap": g.Rand.Intn(2) == 0})
	}
}

// nwTempFile writes data (gzip-compressed if gz) into a fresh temp dir and
// returns the path and a cleanup function. With missing, nothing is written.
func nwTempFile(data []byte, gz, missing bool) (string, func()) {
	dir, err := os.MkdirTemp("", "verif-newick-")
	if err != nil {
		panic("harness: " + err.Error())
	}
	name := "trees.nwk"
	if gz {
		name += ".gz"
	}
	path := filepath.Join(dir, name)
	if !missing {
		content := data
		if gz {
			var buf bytes.Buffer
			zw := gzip.NewWriter(&buf)
			zw.Write(data)
			if err := zw.Close(); err != nil {
				panic("harness: " + err.Error())
			}
			content = buf.Bytes()
		}
		if err := os.WriteFile(path, content, 0o644); err != nil {
			os.RemoveAll(dir)
			panic("harness: " + err.Error())
		}
	}
	return path, func() { os.RemoveAll(dir) }
}

func nwRunFile(in map[string]any) vrResult {
	data := vrBytes(in["data"])
	gz, missing := vrBool(in["gz"]), vrBool(in["missing"])
	path, cleanup := nwTempFile(data, gz, missing)
	defer cleanup()
	got, over, pan := nwCollect(File(path), len(data)+8)
	if missing {
		if pan != nil {
			return nwFail("generic", fmt.Sprintf("File on a nonexistent path panicked: %v", pan), "one error item")
		}
		if over || len(got) != 1 || got[0].err == nil {
			return nwFail("generic", "File on a nonexistent path yields "+nwItemsString(got), "exactly one item, with a non-nil error")
		}
		return vrResult{OK: true}
	}
	ref, rover, rpan := nwDecode(data)
	if rpan != nil || rover {
		return nwOutOfScope(rpan, rover)
	}
	res := nwCompareDecodes("File decode", ref, got, over, pan)
	res.Trivial = len(data) == 0
	return res
}

func nwGenFile(g *vrGen) {
	for _, gz := range []bool{false, true} {
		g.Case(map[string]any{"data": []any{}, "gz": gz, "missing": true})
	}
	datas := nwSampleData(false)
	datas = append(datas, nwBigData(g.Rand, 9000), nwBigData(g.Rand, 70000))
	for _, data := range datas {
		for _, gz := range []bool{false, true} {
			g.Case(map[string]any{"data": vrB(data), "gz": gz, "missing": false})
		}
	}
	g.Exhaustive(true)
	count := 1000
	if g.Thorough() {
		count = 20000
	}
	for i := 0; i < count && !g.Expired(); i++ {
		var data []byte
		if g.Rand.Intn(2) == 0 {
			data = nwRandNearValid(g.Rand)
		} else {
			data = nwBigData(g.Rand, 1+g.Rand.Intn(6000))
		}
		g.Case(map[string]any{"data": vrB(data), "gz": g.Rand.Intn(2) == 0, "missing": false})
	}
}

// ---------------------------------------------------------------------------
// C07
// ---------------------------------------------------------------------------

var nwErrFault = errors.New("verif: injected read fault")

// nwFaultReader delivers data[:offset], then fails with a non-EOF error
// (mode "once": once, then io.EOF forever; mode "forever": every time).
type nwFaultReader struct {
	data        []byte
	offset, pos int
	forever     bool
	errWithData bool
	fired       bool
	reads       int
}

func (r *nwFaultReader) Read(p []byte) (int, error) {
	r.reads++
	if len(p) == 0 {
		return 0, nil
	}
	if r.pos < r.offset {
		n := copy(p, r.data[r.pos:r.offset])
		r.pos += n
		if r.pos == r.offset && r.errWithData {
			r.fired = true
			return n, nwErrFault
		}
		return n, nil
	}
	if !r.fired || r.forever {
		r.fired = true
		return 0, nwErrFault
	}
	return 0, io.EOF
}

func nwRunReadFault(in map[string]any) vrResult {
	data := vrBytes(in["data"])
	offset := vrInt(in["offset"])
	if offset < 0 {
		offset = 0
	}
	if offset > len(data) {
		offset = len(data)
	}
	mode := "once"
	if s, ok := in["mode"].(string); ok {
		mode = s
	}
	if mode != "once" && mode != "forever" {
		panic("harness: mode must be \"once\" or \"forever\"")
	}
	ref, rover, rpan := nwDecode(data)
	if rpan != nil || rover {
		return nwOutOfScope(rpan, rover)
	}
	var lead []*Node // leading trees of the fault-free decode
	for _, it := range ref {
		if it.err != nil || it.n == nil {
			break
		}
		lead = append(lead, it.n)
	}
	fr := &nwFaultReader{data: data, offset: offset, forever: mode == "forever", errWithData: vrBool(in["err_with_data"])}
	limit := len(data) + 8
	got, over, pan := nwCollect(Reader(fr), limit)
	expected := fmt.Sprintf("some of the leading trees of %s, then a non-nil error; finitely many items", nwItemsString(ref))
	if pan != nil {
		return nwFail("generic", fmt.Sprintf("panic: %v", pan), expected)
	}
	if over {
		return nwFail("newick:read-fault-unbounded-iteration", fmt.Sprintf("more than %d items: %s", limit, nwItemsString(got)), expected)
	}
	k, sawErr := 0, false
	for i, it := range got {
		if it.err != nil {
			sawErr = true
			continue
		}
		if it.n == nil {
			return nwFail("generic", fmt.Sprintf("item %d is (nil,nil): %s", i, nwItemsString(got)), expected)
		}
		if k >= len(lead) {
			return nwFail("newick:read-fault-extra-tree", fmt.Sprintf("tree %d is not in the fault-free decode: %s", k, nwItemsString(got)), expected)
		}
		if d := nwDiff(lead[k], it.n); d != "" {
			return nwFail("newick:read-fault-truncated-tree", fmt.Sprintf("tree %d differs from the fault-free decode (%s): %s", k, d, nwItemsString(got)), expected)
		}
		k++
	}
	if !sawErr {
		return nwFail("newick:read-fault-swallowed", fmt.Sprintf("iteration ended without an error item after %d reads: %s", fr.reads, nwItemsString(got)), expected)
	}
	return vrResult{OK: true, Trivial: len(data) == 0}
}

func nwGenReadFault(g *vrGen) {
	complete := true
	for _, data := range nwSampleData(true) {
		for off := 0; off <= len(data); off++ {
			for _, mode := range []string{"once", "forever"} {
				for _, wd := range []bool{false, true} {
					g.Case(map[string]any{"data": vrB(data), "offset": off, "mode": mode, "err_with_data": wd})
				}
			}
		}
		if g.Expired() {
			complete = false
			break
		}
	}
	g.Exhaustive(complete)
	count := 3000
	if g.Thorough() {
		count = 60000
	}
	var big []byte
	for i := 0; i < count && !g.Expired(); i++ {
		if i%50 == 0 {
			big = nwBigData(g.Rand, 10+g.Rand.Intn(9000))
		}
		off := g.Rand.Intn(len(big) + 1)
		switch g.Rand.Intn(4) {
		case 0:
			off = len(big) - g.Rand.Intn(3)
		case 1:
			off = 4096 + g.Rand.Intn(5) - 2
		}
		if off < 0 || off > len(big) {
			off = len(big)
		}
		g.Case(map[string]any{"data": vrB(big), "offset": off, "mode": []string{"once", "forever"}[g.Rand.Intn(2)], "err_with_data": g.Rand.Intn(2) == 0})
	}
}

var nwErrWrite = errors.New("verif: injected write fault")

// nwLimitWriter accepts k bytes in total, then fails (short write + error).
type nwLimitWriter struct {
	k   int
	got []byte
}

func (w *nwLimitWriter) Write(p []byte) (int, error) {
	room := w.k - len(w.got)
	if room >= len(p) {
		w.got = append(w.got, p...)
		return len(p), nil
	}
	if room < 0 {
		room = 0
	}
	w.got = append(w.got, p[:room]...)
	return room, nwErrWrite
}

func nwRunWriteFault(in map[string]any) vrResult {
	t := nwTree(in["tree"])
	k := vrInt(in["k"])
	if k < 0 {
		k = 0
	}
	full := nwMarshal(t)
	w := &nwLimitWriter{k: k}
	var err error
	if p := vrCatch(func() { err = t.Write(w) }); p != nil {
		return nwFail("generic", fmt.Sprintf("Write panicked: %v", p), "no panic")
	}
	if k < len(full) {
		if err == nil {
			return nwFail("newick:write-fault-swallowed", fmt.Sprintf("Write returned nil although the writer failed after %d of %d bytes", k, len(full)), "a non-nil error")
		}
		return vrResult{OK: true}
	}
	if err != nil {
		return nwFail("generic", fmt.Sprintf("Write returned %v although the writer accepted everything", err), "nil")
	}
	if !bytes.Equal(w.got, full) {
		return nwFail("generic", fmt.Sprintf("writer received %q", w.got), fmt.Sprintf("%q", full))
	}
	return vrResult{OK: true}
}

func nwGenWriteFault(g *vrGen) {
	trees := nwMultiPool()
	for i := 0; i < 6; i++ {
		trees = append(trees, nwRandTree(g.Rand, 2+g.Rand.Intn(12), g.Rand.Float64(), true))
	}
	if g.Thorough() {
		trees = append(trees, nwRandTree(g.Rand, 300, 0.3, true))
	}
	complete := true
	// long outputs (a writer that buffers internally must still report a fault
	// that only its last flush meets): stars of 80 and 160 leaves with a 60-byte
	// name (about 5 and 10 KB), every k in the last 4200 bytes .. len+1 (160
	// leaves: every 5th k there, every k in the last 256 bytes), every 97th k before
	for _, leaves := range []int{80, 160} {
		enc := map[string]any{"star": leaves, "name": vrS(strings.Repeat("leaf.name-", 6)), "dist": vrF(0)}
		n := len(nwMarshal(nwTree(enc)))
		for k := 0; k <= n+1 && complete; k++ {
			if k < n-4200 && k%97 != 0 {
				continue
			}
			if leaves == 160 && k >= n-4200 && k < n-256 && k%5 != 0 {
				continue
			}
			g.Case(map[string]any{"tree": enc, "k": k})
			if k%256 == 0 && g.Expired() {
				complete = false
			}
		}
	}
	for _, t := range trees {
		if !complete {
			break
		}
		n := len(nwMarshal(t))
		enc := nwEnc(t)
		for k := 0; k <= n+1; k++ {
			g.Case(map[string]any{"tree": enc, "k": k})
		}
		if g.Expired() {
			complete = false
			break
		}
	}
	g.Exhaustive(complete)
	count := 5000
	if g.Thorough() {
		count = 100000
	}
	for i := 0; i < count && !g.Expired(); i++ {
		t := nwRandTree(g.Rand, 1+g.Rand.Intn(40), g.Rand.Float64(), true)
		n := len(nwMarshal(t))
		g.Case(map[string]any{"tree": nwEnc(t), "k": g.Rand.Intn(n + 2)})
	}
}

// ---------------------------------------------------------------------------
// C11
// ---------------------------------------------------------------------------

// nwRandNearValid: grammar-aware random input: a valid text of random trees,
// then a few random byte-level mutations.
func nwRandNearValid(r *rand.Rand) []byte {
	alpha := []byte("();:,' \n\tab_1.5e-\v\f%")
	var data []byte
	switch r.Intn(8) {
	case 0:
		return vrRandWord(r, alpha, r.Intn(30))
	case 1:
		b := make([]byte, r.Intn(30))
		for i := range b {
			b[i] = byte(r.Intn(256))
		}
		return b
	default:
		k := 1 + r.Intn(3)
		for i := 0; i < k; i++ {
			data = append(data, nwMarshal(nwRandTree(r, 1+r.Intn(10), r.Float64(), true))...)
			data = append(data, []string{"", "\n", " ", "\r\n"}[r.Intn(4)]...)
		}
	}
	for m := r.Intn(4); m > 0 && len(data) > 0; m-- {
		i := r.Intn(len(data))
		c := alpha[r.Intn(len(alpha))]
		if r.Intn(10) == 0 {
			c = byte(r.Intn(256))
		}
		switch r.Intn(4) {
		case 0:
			data = append(data[:i:i], data[i+1:]...)
		case 1:
			data = append(data[:i:i], append([]byte{c}, data[i:]...)...)
		case 2:
			data = append([]byte(nil), data...)
			data[i] = c
		default:
			data = data[:i:i]
		}
	}
	return data
}

func nwRunTotal(in map[string]any) vrResult {
	data := vrBytes(in["data"])
	var items []nwItem
	var over bool
	var pan any
	done := make(chan struct{})
	go func() {
		defer close(done)
		items, over, pan = nwDecode(data)
	}()
	timer := time.NewTimer(20 * time.Second)
	select {
	case <-done:
		timer.Stop()
	case <-timer.C:
		return nwFail("newick:reader-does-not-terminate", "Reader still running after 20 s", "termination")
	}
	if pan != nil {
		return nwFail("newick:reader-panic", fmt.Sprintf("panic: %v", pan), "no panic")
	}
	if over {
		return nwFail("newick:reader-does-not-terminate", fmt.Sprintf("more than %d items for %d bytes", len(data)+7, len(data)), "finitely many items")
	}
	accepted := 0
	for i, it := range items {
		if it.n == nil && it.err == nil {
			return nwFail("generic", fmt.Sprintf("item %d is (nil, nil)", i), "a tree or an error")
		}
		if it.err != nil {
			continue
		}
		accepted++
		if !nwC11CheckDelimiterNames && nwHasDelimiterName(it.n) {
			continue // exempted by the statement of C11
		}
		check := func(ts []*Node) string {
			var m []byte
			if p := vrCatch(func() { m = nwMarshal(ts[0]) }); p != nil {
				return fmt.Sprintf("MarshalText panicked: %v", p)
			}
			return nwReadBackCheck(ts, m)
		}
		if msg := check([]*Node{it.n}); msg != "" {
			sig := nwClassify([]*Node{it.n}, check)
			if sig == "generic" {
				sig = "newick:accepted-tree-not-fixed-point"
			}
			return nwFail(sig, fmt.Sprintf("accepted tree %d (%s) is not a fixed point: %s", i, nwItemString(it), msg), "write + read reproduces the accepted tree")
		}
	}
	return vrResult{OK: true, Trivial: accepted == 0 && len(items) == 0}
}

// nwQuotedNameTexts: well-formed inputs whose names are QUOTED although most of
// them would not need it: for every byte c the texts 'c'; and 'acb'; and for the
// bytes of the name alphabet and all control bytes also a 3-node tree and the
// unquoted forms. (A reader that accepts such a name must get it back from the
// writer, which decides about quoting on its own.)
func nwQuotedNameTexts() [][]byte {
	var out [][]byte
	q := func(s string) string { return "'" + strings.ReplaceAll(s, "'", "''") + "'" }
	for c := 0; c < 256; c++ {
		b := string([]byte{byte(c)})
		out = append(out, []byte(q(b)+";"), []byte(q("a"+b+"b")+";"))
	}
	special := append([]byte(nil), nwNameAlphabet...)
	for c := 0; c < 0x20; c++ {
		special = append(special, byte(c))
	}
	for _, c := range special {
		b := string([]byte{c})
		out = append(out, []byte("("+q(b+"x")+":1,"+q("y"+b)+")"+q(b+b)+":2.5;"), []byte("a"+b+"b;"), []byte(b+";"))
	}
	for _, w := range []string{"50%", "%d", "%s%s", "100%%", "a\vb\fc", "\x85\xa0"} {
		out = append(out, []byte(q(w)+";"), []byte("("+q(w)+","+w+")"+w+";"))
	}
	return out
}

func nwGenTotal(g *vrGen) {
	// first (cheap, must always run): quoted names over every byte
	for _, d := range nwQuotedNameTexts() {
		g.Case(map[string]any{"data": vrB(d)})
	}
	alpha := []byte("(),:;'a1 _")
	maxLen := 4
	if g.Thorough() {
		maxLen = 6
	}
	complete := vrWords(alpha, maxLen, func(w []byte) bool {
		g.Case(map[string]any{"data": vrB(w)})
		return !g.Expired()
	})
	g.Exhaustive(complete)
	for _, d := range nwSampleData(false) {
		g.Case(map[string]any{"data": vrB(d)})
	}
	// pathological sizes
	for _, s := range []string{strings.Repeat("(", 100000), strings.Repeat("(", 50000) + strings.Repeat(")", 50000) + ";",
		strings.Repeat(";", 5000), "'" + strings.Repeat("''", 5000), strings.Repeat("a", 100000) + ";", strings.Repeat("(a,", 3000)} {
		g.Case(map[string]any{"data": vrS(s)})
	}
	count := 45000
	if g.Thorough() {
		count = 2000000
	}
	for i := 0; i < count && !g.Expired(); i++ {
		g.Case(map[string]any{"data": vrB(nwRandNearValid(g.Rand))})
	}
}

// ---------------------------------------------------------------------------
// C18
// ---------------------------------------------------------------------------

// stop = 0-based index of the item on which the consumer returns false;
// stop >= number of items: the consumer never stops.
func nwRunStop(in map[string]any) vrResult {
	data := vrBytes(in["data"])
	stop := vrInt(in["stop"])
	api := "Reader"
	if s, ok := in["api"].(string); ok {
		api = s
	}
	fault := -1
	if v, ok := in["fault"]; ok && v != nil {
		fault = vrInt(v)
	}
	if fault > len(data) {
		fault = len(data)
	}
	var mk func() iter.Seq2[*Node, error]
	switch api {
	case "Reader":
		mk = func() iter.Seq2[*Node, error] { return Reader(bytes.NewReader(data)) }
		if fault >= 0 {
			// failing underlying reader: delivers data[:fault], then a non-EOF error
			// (once and then io.EOF, or forever); a fresh one for every run.
			forever := vrBool(in["forever"])
			mk = func() iter.Seq2[*Node, error] {
				return Reader(&nwFaultReader{data: data, offset: fault, forever: forever})
			}
		}
	case "File":
		if fault >= 0 {
			panic("harness: fault needs api \"Reader\"")
		}
		path, cleanup := nwTempFile(data, false, false)
		defer cleanup()
		mk = func() iter.Seq2[*Node, error] { return File(path) }
	default:
		panic("harness: api must be \"Reader\" or \"File\"")
	}
	full, fover, fpan := nwCollect(mk(), len(data)+8)
	if fpan != nil || fover {
		return nwOutOfScope(fpan, fover)
	}
	for i, it := range full {
		if it.err != nil && i != len(full)-1 {
			return nwFail("newick:error-item-not-last", fmt.Sprintf("item %d of %d is an error: %s", i, len(full), nwItemsString(full)), "an error item is the last item")
		}
	}
	var got []nwItem
	after := 0
	stopped := false
	pan := vrCatch(func() {
		mk()(func(n *Node, err error) bool {
			if stopped {
				after++
				return false
			}
			got = append(got, nwItem{n, err})
			if len(got)-1 == stop || len(got) > len(full)+4 {
				stopped = true
				return false
			}
			return true
		})
	})
	expected := fmt.Sprintf("items 0..%d of %s, no further callback, no panic", stop, nwItemsString(full))
	if pan != nil {
		return nwFail("newick:panic-on-early-stop", fmt.Sprintf("panic: %v", pan), expected)
	}
	if after > 0 {
		return nwFail("newick:callback-after-stop", fmt.Sprintf("%d callbacks after the consumer returned false", after), expected)
	}
	want := full
	if stop >= 0 && stop < len(full) {
		want = full[:stop+1]
	}
	if kind, msg := nwSeqDiff(want, got); kind != "" {
		sig := "generic"
		if kind == "errtext" {
			sig = "newick:error-text-differs"
		}
		return nwFail(sig, fmt.Sprintf("%s; got %s", msg, nwItemsString(got)), expected)
	}
	return vrResult{OK: true, Trivial: len(full) == 0}
}

func nwGenStop(g *vrGen) {
	complete := true
	datas := nwSampleData(false)
	datas = append(datas, []byte(strings.Repeat("(a,b)c;\n", 40)), []byte(strings.Repeat("x;", 30)+"y"))
	for _, data := range datas {
		items, _, _ := nwDecode(data)
		for stop := 0; stop <= len(items); stop++ {
			for _, api := range []string{"Reader", "File"} {
				g.Case(map[string]any{"data": vrB(data), "stop": stop, "api": api})
			}
		}
		if g.Expired() {
			complete = false
			break
		}
	}
	// failing underlying reader (Reader only): every fault offset x {once, forever} x every stop
	for _, s := range []string{"a;", "(a,b)c;", "a;b;c;d;", "(a:1,b:2e3)c:-0.5;\n(d);\n", "'a''b';x;", "a;(b;c;", "a;  \n x"} {
		if !complete {
			break
		}
		data := []byte(s)
		for off := 0; off <= len(data); off++ {
			for _, forever := range []bool{false, true} {
				items, _, _ := nwCollect(Reader(&nwFaultReader{data: data, offset: off, forever: forever}), len(data)+8)
				for stop := 0; stop <= len(items); stop++ {
					g.Case(map[string]any{"data": vrB(data), "stop": stop, "api": "Reader", "fault": off, "forever": forever})
				}
			}
		}
		if g.Expired() {
			complete = false
		}
	}
	g.Exhaustive(complete)
	count := 2000
	if g.Thorough() {
		count = 40000
	}
	for i := 0; i < count && !g.Expired(); i++ {
		var data []byte
		if g.Rand.Intn(2) == 0 {
			data = nwRandNearValid(g.Rand)
		} else {
			data = nwBigData(g.Rand, 1+g.Rand.Intn(5000))
		}
		items, _, _ := nwDecode(data)
		g.Case(map[string]any{"data": vrB(data), "stop": g.Rand.Intn(len(items) + 1), "api": []string{"Reader", "File"}[g.Rand.Intn(2)]})
	}
}

func nwRefPre(n *Node, out *[]*Node) {
	*out = append(*out, n)
	for _, c := range n.Children {
		nwRefPre(c, out)
	}
}

func nwRefPost(n *Node, out *[]*Node) {
	for _, c := range n.Children {
		nwRefPost(c, out)
	}
	*out = append(*out, n)
}

func nwRunTraverseStop(in map[string]any) vrResult {
	t := nwTree(in["tree"])
	pre := vrBool(in["pre"])
	stop := vrInt(in["stop"])
	var ref []*Node
	var seq iter.Seq[*Node]
	if pre {
		nwRefPre(t, &ref)
		seq = t.PreOrder()
	} else {
		nwRefPost(t, &ref)
		seq = t.PostOrder()
	}
	var got []*Node
	after := 0
	stopped := false
	pan := vrCatch(func() {
		seq(func(n *Node) bool {
			if stopped {
				after++
				return false
			}
			got = append(got, n)
			if len(got)-1 == stop || len(got) > len(ref)+4 {
				stopped = true
				return false
			}
			return true
		})
	})
	expected := fmt.Sprintf("the first %d nodes of the %d-node traversal, no further callback, no panic", stop+1, len(ref))
	if pan != nil {
		return nwFail("newick:panic-on-early-stop", fmt.Sprintf("panic: %v", pan), expected)
	}
	if after > 0 {
		return nwFail("newick:callback-after-stop", fmt.Sprintf("%d callbacks after the consumer returned false (%d before)", after, len(got)), expected)
	}
	want := ref
	if stop >= 0 && stop < len(ref) {
		want = ref[:stop+1]
	}
	if len(got) != len(want) {
		return nwFail("generic", fmt.Sprintf("%d callbacks", len(got)), expected)
	}
	for i := range want {
		if got[i] != want[i] {
			return nwFail("generic", fmt.Sprintf("callback %d got node %q, reference order has %q", i, nwNodeName(got[i]), want[i].Name), expected)
		}
	}
	return vrResult{OK: true}
}

func nwNodeName(n *Node) string {
	if n == nil {
		return "<nil>"
	}
	return n.Name
}

func nwGenTraverseStop(g *vrGen) {
	maxNodes := 5
	if g.Thorough() {
		maxNodes = 7
	}
	complete := true
	for _, sh := range nwAllShapes(maxNodes) {
		n := len(sh) / 2
		enc := nwEnc(nwFromShape(sh))
		for _, pre := range []bool{true, false} {
			for stop := 0; stop <= n; stop++ {
				g.Case(map[string]any{"tree": enc, "pre": pre, "stop": stop})
			}
		}
		if g.Expired() {
			complete = false
			break
		}
	}
	g.Exhaustive(complete)
	for _, spec := range []map[string]any{{"chain": 3000}, {"star": 3000}} {
		for _, pre := range []bool{true, false} {
			for _, stop := range []int{0, 1, 2, 1499, 2998, 2999, 3000, 3001} {
				g.Case(map[string]any{"tree": spec, "pre": pre, "stop": stop})
			}
		}
	}
	count := 5000
	if g.Thorough() {
		count = 100000
	}
	for i := 0; i < count && !g.Expired(); i++ {
		n := 1 + g.Rand.Intn(300)
		t := nwRandTree(g.Rand, n, g.Rand.Float64(), false)
		g.Case(map[string]any{"tree": nwFlat(t, false), "pre": g.Rand.Intn(2) == 0, "stop": g.Rand.Intn(n + 1)})
	}
}

// ---------------------------------------------------------------------------
// C19
// ---------------------------------------------------------------------------

type nwSnap struct {
	n        *Node
	name     string
	dist     uint64
	ptr      uintptr
	len, cap int
	isNil    bool
	children []*Node
}

func nwSnapshot(nodes []*Node) []nwSnap {
	s := make([]nwSnap, len(nodes))
	for i, n := range nodes {
		s[i] = nwSnap{n: n, name: n.Name, dist: math.Float64bits(n.Distance), ptr: reflect.ValueOf(n.Children).Pointer(),
			len: len(n.Children), cap: cap(n.Children), isNil: n.Children == nil}
		if len(n.Children) > 0 {
			s[i].children = append([]*Node(nil), n.Children[:cap(n.Children)]...)
		}
	}
	return s
}

func nwSnapDiff(a, b []nwSnap) string {
	for i := range a {
		x, y := a[i], b[i]
		if x.name != y.name || x.dist != y.dist || x.ptr != y.ptr || x.len != y.len || x.cap != y.cap || x.isNil != y.isNil {
			return fmt.Sprintf("node %d (%q) changed: name/distance/Children header differ", i, x.name)
		}
		for j := range x.children {
			if x.children[j] != y.children[j] {
				return fmt.Sprintf("node %d (%q): Children backing array slot %d changed", i, x.name, j)
			}
		}
	}
	return ""
}

// nwReslice gives every node's Children slice spare capacity (so that a stray
// append inside the traversal would be visible) and makes some leaves have an
// empty non-nil slice. Deterministic.
func nwReslice(nodes []*Node) {
	for i, n := range nodes {
		k := len(n.Children)
		if k == 0 {
			if i%2 == 1 {
				n.Children = make([]*Node, 0, 1)
			}
			continue
		}
		c := make([]*Node, k, k+2)
		copy(c, n.Children)
		n.Children = c
	}
}

func nwRunTraversal(in map[string]any) vrResult {
	t := nwTree(in["tree"])
	var refPre, refPost []*Node
	nwRefPre(t, &refPre)
	nwReslice(refPre)
	nwRefPost(t, &refPost)
	before := nwSnapshot(refPre)
	index := make(map[*Node]int, len(refPre))
	for i, n := range refPre {
		index[n] = i
	}
	for _, pre := range []bool{true, false} {
		name, ref := "PostOrder", refPost
		if pre {
			name, ref = "PreOrder", refPre
		}
		var got []*Node
		limit := len(ref) + 4
		pan := vrCatch(func() {
			var seq iter.Seq[*Node]
			if pre {
				seq = t.PreOrder()
			} else {
				seq = t.PostOrder()
			}
			seq(func(n *Node) bool {
				got = append(got, n)
				return len(got) < limit
			})
		})
		expected := fmt.Sprintf("the classic recursive %s sequence of the %d nodes", name, len(ref))
		if pan != nil {
			return nwFail("generic", fmt.Sprintf("%s panicked: %v", name, pan), expected)
		}
		for i := 0; i < len(got) && i < len(ref); i++ {
			if got[i] != ref[i] {
				gi, ok := index[got[i]]
				return nwFail("generic", fmt.Sprintf("%s: position %d yields node #%d (pre-order number; known=%v), reference has node #%d", name, i, gi, ok, index[ref[i]]), expected)
			}
		}
		if len(got) != len(ref) {
			return nwFail("generic", fmt.Sprintf("%s yields %d nodes", name, len(got)), expected)
		}
		if d := nwSnapDiff(before, nwSnapshot(refPre)); d != "" {
			return nwFail("newick:traversal-modifies-tree", name+": "+d, "tree unchanged")
		}
	}
	return vrResult{OK: true, Trivial: len(refPre) == 1}
}

func nwGenTraversal(g *vrGen) {
	maxNodes := 6
	if g.Thorough() {
		maxNodes = 7
	}
	complete := true
	for _, sh := range nwAllShapes(maxNodes) {
		g.Case(map[string]any{"tree": nwEnc(nwFromShape(sh))})
		if g.Expired() {
			complete = false
			break
		}
	}
	g.Exhaustive(complete)
	chain := 100000
	if g.Thorough() {
		chain = 1000000
	}
	g.Case(map[string]any{"tree": map[string]any{"chain": chain}})
	g.Case(map[string]any{"tree": map[string]any{"star": 100000}})
	g.Case(map[string]any{"tree": map[string]any{"chain": 1000}})
	count, maxN := 6000, 400
	if g.Thorough() {
		count, maxN = 20000, 5000
	}
	for i := 0; i < count && !g.Expired(); i++ {
		n := 1 + g.Rand.Intn(maxN)
		if i%2 == 0 {
			n = 8 + g.Rand.Intn(40)
		}
		bias := g.Rand.Float64()
		if i%5 == 0 {
			bias = 0.97
		}
		g.Case(map[string]any{"tree": nwFlat(nwRandTree(g.Rand, n, bias, false), false)})
	}
}

// C19/reiterate: the iterator VALUE returned by PreOrder/PostOrder is ranged
// over several times, and two iterators over the same tree are consumed
// interleaved. Every complete pass must be the whole reference order again.

const (
	nwSigReuse      = "newick:traversal-iterator-value-not-reusable"
	nwSigInterleave = "newick:traversal-iterators-interfere"
)

// nwPass ranges over seq until the consumer has seen item #stop (0-based;
// stop < 0: never stops) and returns the nodes seen. The number of callbacks is
// guarded by limit.
func nwPass(seq iter.Seq[*Node], stop, limit int) (got []*Node, after int) {
	stopped := false
	seq(func(n *Node) bool {
		if stopped {
			after++
			return false
		}
		got = append(got, n)
		if len(got)-1 == stop || len(got) >= limit {
			stopped = true
			return false
		}
		return true
	})
	return got, after
}

// nwOrderDiff compares a complete pass with the reference order.
func nwOrderDiff(got, ref []*Node, index map[*Node]int) string {
	for i := 0; i < len(got) && i < len(ref); i++ {
		if got[i] != ref[i] {
			gi, ok := index[got[i]]
			return fmt.Sprintf("position %d yields node #%d (pre-order number; known=%v), reference has node #%d", i, gi, ok, index[ref[i]])
		}
	}
	if len(got) != len(ref) {
		return fmt.Sprintf("yields %d nodes instead of %d", len(got), len(ref))
	}
	return ""
}

func nwRunReiterate(in map[string]any) vrResult {
	t := nwTree(in["tree"])
	pre := vrBool(in["pre"])
	stop := vrInt(in["stop"])
	if stop < 0 {
		panic("harness: negative stop")
	}
	var refPre, ref []*Node
	nwRefPre(t, &refPre)
	name := "PreOrder"
	if pre {
		ref = refPre
	} else {
		name = "PostOrder"
		nwRefPost(t, &ref)
	}
	index := make(map[*Node]int, len(refPre))
	for i, n := range refPre {
		index[n] = i
	}
	mk := func() iter.Seq[*Node] {
		if pre {
			return t.PreOrder()
		}
		return t.PostOrder()
	}
	limit := len(ref) + 4
	expected := fmt.Sprintf("every complete pass is the classic recursive %s sequence of the %d nodes, from the start", name, len(ref))
	res := vrResult{OK: true, Trivial: len(ref) == 1}
	where := ""
	// full: a complete pass over seq; returns false (and sets res) if it is wrong.
	full := func(seq iter.Seq[*Node], sig string) bool {
		got, _ := nwPass(seq, -1, limit)
		if d := nwOrderDiff(got, ref, index); d != "" {
			res = nwFail(sig, where+": "+d, expected)
			return false
		}
		return true
	}
	// partial: a pass that stops at item #stop; the items seen must be a prefix
	// of the reference order, without callback after the stop.
	partial := func(seq iter.Seq[*Node], sig string) bool {
		got, after := nwPass(seq, stop, limit)
		want := ref
		if stop < len(ref) {
			want = ref[:stop+1]
		}
		if after > 0 {
			res = nwFail(sig, fmt.Sprintf("%s: %d callbacks after the consumer returned false", where, after), expected)
			return false
		}
		if d := nwOrderDiff(got, want, index); d != "" {
			res = nwFail(sig, where+" (first "+fmt.Sprint(len(want))+" nodes expected): "+d, expected)
			return false
		}
		return true
	}
	pan := vrCatch(func() {
		// (i) one value, two complete passes (then a stopped one and a third complete one).
		seq := mk()
		where = name + "(): first complete pass over a fresh iterator value"
		if !full(seq, "generic") {
			return
		}
		where = name + "(): second complete pass over the same iterator value"
		if !full(seq, nwSigReuse) {
			return
		}
		where = fmt.Sprintf("%s(): pass stopped at item #%d, after two complete passes over the same iterator value", name, stop)
		if !partial(seq, nwSigReuse) {
			return
		}
		where = fmt.Sprintf("%s(): complete pass after two complete passes and a pass stopped at item #%d, same iterator value", name, stop)
		if !full(seq, nwSigReuse) {
			return
		}
		// (ii) a fresh value: stopped pass first, then a complete one.
		seq2 := mk()
		where = fmt.Sprintf("%s(): pass stopped at item #%d over a fresh iterator value", name, stop)
		if !partial(seq2, "generic") {
			return
		}
		where = fmt.Sprintf("%s(): complete pass after a pass stopped at item #%d over the same iterator value", name, stop)
		if !full(seq2, nwSigReuse) {
			return
		}
		where = fmt.Sprintf("%s(): second pass stopped at item #%d over the same iterator value", name, stop)
		if !partial(seq2, nwSigReuse) {
			return
		}
		// (iii) two iterators from two calls, consumed interleaved: a is advanced
		// by min(stop, n) items, then a and b alternate.
		where = name + "() called twice, the two iterators pulled alternately"
		nextA, stopA := iter.Pull(mk())
		defer stopA()
		nextB, stopB := iter.Pull(mk())
		defer stopB()
		var gotA, gotB []*Node
		doneA, doneB := false, false
		pull := func(next func() (*Node, bool), got *[]*Node, done *bool) {
			if *done {
				return
			}
			n, ok := next()
			if !ok || len(*got) >= limit {
				*done = true
				return
			}
			*got = append(*got, n)
		}
		for i := 0; i < stop && !doneA; i++ {
			pull(nextA, &gotA, &doneA)
		}
		for !doneA || !doneB {
			pull(nextA, &gotA, &doneA)
			pull(nextB, &gotB, &doneB)
		}
		if d := nwOrderDiff(gotA, ref, index); d != "" {
			res = nwFail(nwSigInterleave, fmt.Sprintf("%s: first iterator (%d items ahead): %s", where, stop, d), expected)
			return
		}
		if d := nwOrderDiff(gotB, ref, index); d != "" {
			res = nwFail(nwSigInterleave, fmt.Sprintf("%s: second iterator (started when the first had yielded %d items): %s", where, stop, d), expected)
			return
		}
		// and both values once more, sequentially, after all of the above
		where = name + "(): complete pass over the first iterator value at the very end"
		full(seq, nwSigReuse)
	})
	if pan != nil {
		return nwFail("generic", fmt.Sprintf("%s: panic: %v", where, pan), expected+"; no panic")
	}
	return res
}

func nwGenReiterate(g *vrGen) {
	complete := true
	for _, sh := range nwAllShapes(5) {
		n := len(sh) / 2
		enc := nwEnc(nwFromShape(sh))
		for _, pre := range []bool{true, false} {
			for stop := 0; stop <= n; stop++ {
				g.Case(map[string]any{"tree": enc, "pre": pre, "stop": stop})
			}
		}
		if g.Expired() {
			complete = false
			break
		}
	}
	for _, pre := range []bool{true, false} {
		for _, stop := range []int{0, 1, 2, 15, 16, 17, 50, 98, 99, 100} {
			g.Case(map[string]any{"tree": map[string]any{"chain": 100}, "pre": pre, "stop": stop})
		}
	}
	g.Exhaustive(complete)
	count := 3000
	if g.Thorough() {
		count = 60000
	}
	for i := 0; i < count && !g.Expired(); i++ {
		n := 1 + g.Rand.Intn(60)
		bias := g.Rand.Float64()
		if i%4 == 0 {
			bias = 0.95
		}
		t := nwRandTree(g.Rand, n, bias, false)
		g.Case(map[string]any{"tree": nwFlat(t, false), "pre": g.Rand.Intn(2) == 0, "stop": g.Rand.Intn(n + 1)})
	}
}

// ---------------------------------------------------------------------------
// clause table
// ---------------------------------------------------------------------------

func nwClauses() []vrClause {
	return []vrClause{
		{Prop: "C05", Name: "extern-replaceall",
			Bound: "exhaustive: every string over {' a _} of length <= 9 (quick) / <= 11 (thorough); then random strings of length <= 60 over {' '' a ( : _}",
			Rule:  "assumed contract of strings.ReplaceAll on the two quoting patterns (specs/20newick.spec, dq / uq): ReplaceAll(ReplaceAll(s, \"'\", \"''\"), \"''\", \"'\") == s and len(ReplaceAll(s, \"'\", \"''\")) >= len(s) - checked on the real standard library",
			Gen:   nwGenExternReplaceAll, Run: nwRunExternReplaceAll},
		{Prop: "C05", Name: "name-codec",
			Bound: "all byte strings of length <= 3 (quick) / <= 4 (thorough) over {space _ ' ( ) , : ; TAB LF CR a 0x80 VT FF NUL DEL 0x85 0xa0 0xff %}; 44 literal names (incl. VT/FF inside names and the texts 50%, %d, %s%s, 100%%); all 1-byte names; all 2-byte names with one byte from that alphabet; then random names of length 4..12",
			Rule:  "nameFromText(nameToText(s)) == s, and Reader(nameToText(s)+\";\") yields exactly one childless node named s with distance 0",
			Gen:   nwGenNameCodec, Run: nwRunNameCodec},
		{Prop: "C05", Name: "tree-roundtrip",
			Bound: "all ordered trees <= 4 (quick) / <= 5 (thorough) nodes x every node position x 44 special names (incl. VT/FF inside names and the texts 50%, %d, %s%s, 100%%) x 15 distances at that position (quick: every name with 3 distances, every distance with 3 names, 1/5 of the other pairs); the same trees with one name / one distance on all nodes; trees <= 2 (quick) / <= 3 (thorough) nodes with every assignment of the 44 names; then random trees (<= 12 / <= 200 nodes, random byte names (a part over the name alphabet {space _ ' ( ) , : ; TAB LF CR a 0x80 VT FF NUL DEL 0x85 0xa0 0xff %}) and float64 bit patterns); thorough: chain and star of 10000 nodes",
			Rule:  "MarshalText err==nil; Write to a buffer writes the same bytes; last byte ';'; no space/TAB/LF/CR outside quoted names (independent quote-aware scan); Reader on the bytes yields exactly one tree of identical shape, names, distances (NaN==NaN, -0==0)",
			Gen:   nwGenTreeRoundtrip, Run: nwRunTreeRoundtrip},
		{Prop: "C05", Name: "multi-tree",
			Bound: "all sequences of <= 2 (quick) / <= 3 (thorough) trees from a pool of 12 x separators {none, LF, space, CRLF, TAB, mixed} x with/without separator after the last tree; then random sequences of <= 5 random trees with random whitespace separators",
			Rule:  "trees written one after another with Write (separator between them) are read back by Reader as the same sequence",
			Gen:   nwGenMultiTree, Run: nwRunMultiTree},
		{Prop: "C05", Name: "marshal-list",
			Bound: "all ordered pairs of trees from the pool of 12; all ordered pairs of marked star trees with 0,1,2,5,17,60 leaves (different written lengths), and these 6 in increasing and decreasing order; then random lists of 2..6 random trees (<= 8 nodes, random byte names and float64 bit patterns) of pairwise different sizes",
			Rule:  "MarshalText is called on every tree of the list first and the returned slices are kept untouched; afterwards each kept slice == the bytes Write of that tree puts into a fresh buffer (a result is not clobbered by later MarshalText/Write calls); Reader over the kept slices joined yields exactly the trees in order; Write of all trees into one shared buffer emits the concatenation of those bytes and reads back as the same sequence",
			Gen:   nwGenMarshalList, Run: nwRunMarshalList},
		{Prop: "C06", Name: "chunking",
			Bound: "every partition into reads, with and without EOF-with-data, of those of the 30 well-formed/malformed sample inputs that have <= 9 (quick) / <= 13 (thorough) bytes; fixed schedules {whole,1,2,3,7,1-2-3,4095,4096,4097,...} on all samples and on inputs > 2 bufio buffers; random near-valid inputs with random schedules",
			Rule:  "item sequence (trees structurally, errors by presence and text) of Reader(chunked reader) == Reader(bytes.Reader)",
			Gen:   nwGenChunking, Run: nwRunChunking},
		{Prop: "C06", Name: "crlf",
			Bound: "all sequences of <= 2 trees from a pool of 12, each tree terminated by the line terminator, optionally also wrapped after every ',' and ')'; random sequences of random trees",
			Rule:  "decode with LF terminators == decode with CRLF terminators",
			Gen:   nwGenCRLF, Run: nwRunCRLF},
		{Prop: "C06", Name: "file",
			Bound: "30 well-formed/malformed sample inputs + 2 large ones (9 kB, 70 kB) x {plain, .gz}; nonexistent path (plain and .gz name); random inputs",
			Rule:  "File(tmp) yields the same items as Reader on the bytes; nonexistent path: exactly one item, with non-nil error",
			Gen:   nwGenFile, Run: nwRunFile},
		{Prop: "C07", Name: "read-fault",
			Bound: "12 well-formed inputs (<= 60 bytes) x every offset 0..len x {once, forever} x {error after / together with the last bytes}; random offsets (incl. end of data and the 4096 buffer edge) in random multi-tree inputs up to 9 kB",
			Rule:  "every tree item equals the corresponding leading tree of the fault-free decode; at least one non-nil error item (also when the fault hits after the last ';'); at most len(data)+8 items",
			Gen:   nwGenReadFault, Run: nwRunReadFault},
		{Prop: "C07", Name: "write-fault",
			Bound: "stars of 80 and 160 leaves with a 60-byte name (outputs of about 5 and 10 KB) x every k in the last 4200 bytes of the output .. len(output)+1 (160 leaves: every 5th k there and every k in the last 256 bytes) and every 97th k before; 18 (thorough: 19) trees x every k in 0..len(output)+1; random trees with random k",
			Rule:  "Write to a writer that accepts k bytes then fails (short write + error): error != nil iff k < len(MarshalText()); when nil the writer received exactly MarshalText()",
			Gen:   nwGenWriteFault, Run: nwRunWriteFault},
		{Prop: "C11", Name: "total",
			Bound: "quoted-name texts: 'c'; and 'acb'; for every byte c, a 3-node tree with quoted names plus the unquoted forms acb; and c; for every byte of the name alphabet {space _ ' ( ) , : ; TAB LF CR a 0x80 VT FF NUL DEL 0x85 0xa0 0xff %} and every control byte, the texts 50%, %d, %s%s, 100%%, aVTbFFc, 0x85 0xa0 quoted and bare (about 690 texts); all byte strings of length <= 4 (quick) / <= 6 (thorough) over \"(),:;'a1 _\"; 30 samples; pathological sizes (100000 '(', 5000 ';', long quoted run, ...); random near-valid inputs (written random trees with <= 3 byte mutations over \"();:,' \\n\\tab_1.5e-\\v\\f%\" and random bytes; random names partly over the name alphabet incl. VT FF NUL DEL 0x85 0xa0 0xff %)",
			Rule:  "no panic; ends within len+8 items and 20 s; every item is a tree or an error; every accepted tree without TAB/CR/LF in its names (exemption of the statement) written with MarshalText reads back as exactly that tree",
			Gen:   nwGenTotal, Run: nwRunTotal},
		{Prop: "C18", Name: "stop",
			Bound: "32 well-formed/malformed inputs x every stop index 0..N x {Reader, File}; failing underlying reader (Reader only): 7 small inputs (5 well-formed, 2 with a malformed tail) x every fault offset 0..len x {fails once then EOF, fails forever} x every stop index 0..N (N = items of the uninterrupted run with that fault); random inputs with random stop (no fault)",
			Rule:  "consumer returns false on item #stop (0-based): no further callback, no panic, items seen == items 0..stop of the uninterrupted run; in the uninterrupted run an error item is the last item; with \"fault\" >= 0 every run uses a fresh reader that delivers data[:fault] and then fails with a non-EOF error (\"forever\": every time, else once and then io.EOF)",
			Gen:   nwGenStop, Run: nwRunStop},
		{Prop: "C18", Name: "traverse-stop",
			Bound: "all ordered trees <= 5 (quick) / <= 7 (thorough) nodes x {PreOrder, PostOrder} x every stop index 0..n; chain and star of 3000 nodes at 8 stop indices; random trees <= 300 nodes",
			Rule:  "consumer returns false on node #stop: no further callback, no panic, nodes seen (pointer identity) == first stop+1 nodes of the recursive reference order",
			Gen:   nwGenTraverseStop, Run: nwRunTraverseStop},
		{Prop: "C19", Name: "traversal",
			Bound: "all ordered trees <= 6 (quick) / <= 7 (thorough) nodes; chain of depth 10^5 (quick) / 10^6 (thorough); star with 10^5 children; random trees <= 400 (quick) / <= 5000 (thorough) nodes incl. deep-biased ones",
			Rule:  "PreOrder / PostOrder node pointer sequences == own recursive pre-/post-order; names, distances, Children slice pointer/len/cap/nil-ness and all backing-array slots unchanged afterwards",
			Gen:   nwGenTraversal, Run: nwRunTraversal},
		{Prop: "C19", Name: "reiterate",
			Bound: "all ordered trees <= 5 nodes x {PreOrder, PostOrder} x every stop index 0..n; chain of depth 100 at 10 stop indices; random trees <= 60 nodes (a quarter deep-biased) with random stop",
			Rule:  "ONE iterator value seq := root.PreOrder() (or PostOrder) ranged repeatedly: complete, complete, stopped at item #stop, complete; a fresh value: stopped at item #stop, complete, stopped; every complete pass == the recursive reference order from the start, every stopped pass == its first stop+1 nodes without further callback; two iterators from two calls pulled alternately through iter.Pull (the first one min(stop,n) items ahead) each yield the reference order; no panic",
			Gen:   nwGenReiterate, Run: nwRunReiterate},
	}
}

// ---------------------------------------------------------------------------
// C05/extern-replaceall: the assumed behaviour of strings.ReplaceAll behind the quoted-name theorem

func nwRunExternReplaceAll(in map[string]any) vrResult {
	s := vrStr(in["s"])
	d := strings.ReplaceAll(s, "'", "''")
	u := strings.ReplaceAll(d, "''", "'")
	if len(d) < len(s) {
		return vrResult{OK: false, Observed: fmt.Sprintf("len(dq(%q)) = %d < %d", s, len(d), len(s)), Expected: "len(dq(s)) >= len(s)", Signature: "extern:replaceall"}
	}
	if u != s {
		return vrResult{OK: false, Observed: fmt.Sprintf("uq(dq(%q)) = %q (dq = %q)", s, u, d), Expected: "uq(dq(s)) == s", Signature: "extern:replaceall"}
	}
	return vrResult{OK: true, Trivial: s == ""}
}

func nwGenExternReplaceAll(g *vrGen) {
	maxLen := 9
	if g.Thorough() {
		maxLen = 11
	}
	done := vrWords([]byte("'a_"), maxLen, func(w []byte) bool {
		g.Case(map[string]any{"s": vrB(w)})
		return !g.Expired()
	})
	g.Exhaustive(done)
	parts := []string{"'", "''", "a", "(", ":", "_"}
	for i := 0; i < 3000 && !g.Expired(); i++ {
		var b strings.Builder
		for n := g.Rand.Intn(30); n > 0; n-- {
			b.WriteString(parts[g.Rand.Intn(len(parts))])
		}
		g.Case(map[string]any{"s": vrS(b.String())})
	}
}
