package smtext

// Replay / bounded harness of package formats/smtext (see /verif/replay/README.md).
// Injected through `go test -overlay`; not part of the repository.
//
// Clause table:
//
//	func smtext.ReadNCBI(r) -> C20/readncbi       input = a table + layout (below); r = the rendered text
//	func smtext.ReadNCBI(r) -> C20/readncbi-bad   input {table: <as readncbi>, corruption: {...}}
//	func smtext.ReadNCBI(r) -> C11/readncbi-total input {data: [bytes]}; r = bytes.NewReader(data)
//
// Table + layout encoding (C20/readncbi input, and "table" of readncbi-bad). Strings may be given
// as JSON strings or as arrays of byte values:
//
//	rows, cols   : arrays of label bytes, printable ASCII 0x21..0x7e except '#'; 42 ('*') is the
//	               gap label and stands for matrix byte 255 (align.Gap). Row labels distinct,
//	               column labels distinct, at least one column.
//	scores       : len(rows) arrays of len(cols) finite numbers; scores[i][j] belongs to (rows[i], cols[j]).
//	seps         : token separators, used cyclically over all tokens of the text; non-empty strings
//	               of ' ' and '\t' (default [" "]).
//	lead, trail  : strings of ' ' and '\t' put before / after the tokens of table line k
//	               (k = 0 is the header), used cyclically (default [""]).
//	extra        : list of lists of lines; extra[k mod len] is inserted before table line k and
//	               extra[n mod len] after the last one (n = number of table lines). Each inserted line
//	               is "" or starts with '#' and contains no CR/LF (default: none).
//	eol          : "\n" (default) or "\r\n"; no_final_eol: true = the last line has no line end.
//	numfmt       : how score t (running count) is written, cyclically: "g" shortest %g (default),
//	               "f" shortest fixed, "e" shortest exponent form, "f1" one decimal if that is exact
//	               (else "g"). All of them parse back to exactly the same float64.
//
// Anything outside this grammar is "precondition not met" (OK, trivial). Whitespace-only lines,
// form feed / vertical tab separators, '#' labels, non-ASCII labels and duplicate labels are
// deliberately outside: the statement / package doc does not say what they mean.
//
// corruption: {"kind": k, "row": i, "col": j, "token": s}
//
//	"missing-value"  : the score of (row i, col j) is removed from its line
//	"extra-value"    : token s (a number, default "1") is inserted before the score at column j of row i
//	                   (j == len(cols): appended)
//	"non-numeric"    : the score of (row i, col j) is replaced by s, which must be clearly not a number
//	                   (a character that occurs in no float syntax, or one of a fixed list of malformed numerals)
//	"long-row-label" : the label of row i is replaced by s (2+ printable ASCII chars, no '#')
//	"long-col-label" : the label of column j is replaced by s
//
// Signatures: "smtext:line-longer-than-65535" when the rendered text has a physical line of 65536
// bytes or more (bufio.Scanner's token limit) and ReadNCBI failed to recover the table; "generic" otherwise.

import (
	"bytes"
	"fmt"
	"math"
	"math/rand"
	"strconv"
	"strings"
	"testing"
	"time"

	"github.com/fluhus/biostuff/align"
)

func TestVerif(t *testing.T) { vrMain(t, vrClauses) }

const vrSigLongLine = "smtext:line-longer-than-65535"

var vrClauses = []vrClause{
	{Prop: "C20", Name: "readncbi",
		Bound: "exhaustive: 5 fixed tables (2x2 with '*', 1x3, 3x1, 3x3 permuted rows, header only) x 4 separator sets x 3 leading x 3 trailing blanks x 4 comment/empty-line patterns x {LF,CRLF} x {final line end, none} x 3 number formats; random: tables of 1..8 (thorough 1..24) rows and columns over distinct printable labels incl. '*', integer and fractional scores, random layouts; plus two tables with a physical line longer than 64 KiB (whitespace run, comment)",
		Rule:  "trivial: no rows, or precondition not met",
		Gen:   vrGenRead, Run: vrRunRead},
	{Prop: "C20", Name: "readncbi-bad",
		Bound: "exhaustive: every single-token corruption (each score: missing / extra / 12 non-numeric tokens; each row and column label: 4 multi-character tokens) of 3 fixed tables in 4 layouts; random: one random corruption of a random table (as in readncbi)",
		Rule:  "trivial: precondition not met",
		Gen:   vrGenBad, Run: vrRunBad},
	{Prop: "C11", Name: "readncbi-total",
		Bound: "exhaustive: all byte strings of length 0..5 (thorough 0..6) over {A * 1 - . space LF #}; random: random bytes up to length 300, byte-level mutations (flip, delete, insert, dictionary splice, truncate) of valid tables, lines longer than 64 KiB",
		Rule:  "trivial: empty input",
		Gen:   vrGenTotal, Run: vrRunTotal},
}

// ---------------------------------------------------------------------------
// table model, rendering
// ---------------------------------------------------------------------------

type vrTable struct {
	rows, cols  []byte
	scores      [][]float64
	seps        []string
	lead, trail []string
	extra       [][]string
	eol         string
	noFinalEOL  bool
	numfmt      []string
}

func vrStrs(v any) []string {
	var out []string
	for _, e := range vrList(v) {
		out = append(out, vrStr(e))
	}
	return out
}

func vrBlank(s string) bool { return strings.Trim(s, " \t") == "" }

func vrLabelOK(c byte) bool { return c >= 0x21 && c <= 0x7e && c != '#' }

// vrDecodeTable decodes and validates; why != "" when outside the grammar.
func vrDecodeTable(in map[string]any) (t *vrTable, why string) {
	t = &vrTable{rows: vrBytes(in["rows"]), cols: vrBytes(in["cols"]), seps: vrStrs(in["seps"]), lead: vrStrs(in["lead"]),
		trail: vrStrs(in["trail"]), eol: vrStr(in["eol"]), noFinalEOL: vrBool(in["no_final_eol"]), numfmt: vrStrs(in["numfmt"])}
	for _, e := range vrList(in["extra"]) {
		t.extra = append(t.extra, vrStrs(e))
	}
	if len(t.seps) == 0 {
		t.seps = []string{" "}
	}
	if len(t.lead) == 0 {
		t.lead = []string{""}
	}
	if len(t.trail) == 0 {
		t.trail = []string{""}
	}
	if len(t.numfmt) == 0 {
		t.numfmt = []string{"g"}
	}
	if t.eol == "" {
		t.eol = "\n"
	}
	if len(t.cols) == 0 {
		return nil, "no columns"
	}
	var seen [256]bool
	for _, c := range t.cols {
		if !vrLabelOK(c) || seen[c] {
			return nil, "bad or duplicate column label"
		}
		seen[c] = true
	}
	seen = [256]bool{}
	for _, c := range t.rows {
		if !vrLabelOK(c) || seen[c] {
			return nil, "bad or duplicate row label"
		}
		seen[c] = true
	}
	sl := vrList(in["scores"])
	if len(sl) != len(t.rows) {
		return nil, "scores: wrong number of rows"
	}
	for _, r := range sl {
		rl := vrList(r)
		if len(rl) != len(t.cols) {
			return nil, "scores: wrong number of columns"
		}
		row := make([]float64, len(rl))
		for j, e := range rl {
			row[j] = vrFloat(e)
			if math.IsNaN(row[j]) || math.IsInf(row[j], 0) {
				return nil, "non-finite score"
			}
		}
		t.scores = append(t.scores, row)
	}
	for _, s := range t.seps {
		if s == "" || !vrBlank(s) {
			return nil, "separator not a non-empty run of space/tab"
		}
	}
	for _, s := range append(append([]string(nil), t.lead...), t.trail...) {
		if !vrBlank(s) {
			return nil, "lead/trail not space/tab"
		}
	}
	for _, ls := range t.extra {
		for _, l := range ls {
			if l != "" && l[0] != '#' || strings.ContainsAny(l, "\r\n") {
				return nil, "extra line neither empty nor a comment"
			}
		}
	}
	if t.eol != "\n" && t.eol != "\r\n" {
		return nil, "eol"
	}
	for _, f := range t.numfmt {
		switch f {
		case "g", "f", "e", "f1":
		default:
			return nil, "numfmt"
		}
	}
	return t, ""
}

func vrNum(x float64, f string) string {
	switch f {
	case "f":
		return strconv.FormatFloat(x, 'f', -1, 64)
	case "e":
		return strconv.FormatFloat(x, 'e', -1, 64)
	case "f1":
		if math.Abs(x) < 1e15 && x*10 == math.Trunc(x*10) {
			s := strconv.FormatFloat(x, 'f', 1, 64)
			if y, err := strconv.ParseFloat(s, 64); err == nil && y == x {
				return s
			}
		}
	}
	return strconv.FormatFloat(x, 'g', -1, 64)
}

// tokens returns the tokens of every table line (line 0 = header).
func (t *vrTable) tokens() [][]string {
	lines := make([][]string, 0, len(t.rows)+1)
	h := make([]string, len(t.cols))
	for j, c := range t.cols {
		h[j] = string([]byte{c})
	}
	lines = append(lines, h)
	n := 0
	for i, r := range t.rows {
		l := []string{string([]byte{r})}
		for _, x := range t.scores[i] {
			l = append(l, vrNum(x, t.numfmt[n%len(t.numfmt)]))
			n++
		}
		lines = append(lines, l)
	}
	return lines
}

// render lays the token lines out; also returns the length of the longest physical line.
func (t *vrTable) render(lines [][]string) (text []byte, longest int) {
	var phys []string
	addExtra := func(k int) {
		if len(t.extra) > 0 {
			phys = append(phys, t.extra[k%len(t.extra)]...)
		}
	}
	nsep := 0
	for k, toks := range lines {
		addExtra(k)
		var sb strings.Builder
		sb.WriteString(t.lead[k%len(t.lead)])
		for i, tok := range toks {
			if i > 0 {
				sb.WriteString(t.seps[nsep%len(t.seps)])
				nsep++
			}
			sb.WriteString(tok)
		}
		sb.WriteString(t.trail[k%len(t.trail)])
		phys = append(phys, sb.String())
	}
	addExtra(len(lines))
	var buf bytes.Buffer
	for i, l := range phys {
		buf.WriteString(l)
		n := len(l)
		if i < len(phys)-1 || !t.noFinalEOL {
			buf.WriteString(t.eol)
			n += len(t.eol) - 1 // a CR counts towards the scanner's token
		}
		if n > longest {
			longest = n
		}
	}
	return buf.Bytes(), longest
}

func vrKey(label byte) byte {
	if label == '*' {
		return align.Gap
	}
	return label
}

// vrHung is set when ReadNCBI did not return in time; the goroutine keeps running, so the
// generators stop producing cases (and do not claim exhaustiveness) once it is set.
var vrHung bool

// vrRead calls ReadNCBI with panic capture and a watchdog.
func vrRead(data []byte) (m align.SubstitutionMatrix, err error, pv any, timedOut bool) {
	if vrHung {
		return nil, nil, nil, true
	}
	type res struct {
		m   align.SubstitutionMatrix
		err error
		pv  any
	}
	ch := make(chan res, 1)
	go func() {
		var r res
		r.pv = vrCatch(func() { r.m, r.err = ReadNCBI(bytes.NewReader(data)) })
		ch <- r
	}()
	tm := time.NewTimer(20 * time.Second)
	defer tm.Stop()
	select {
	case r := <-ch:
		return r.m, r.err, r.pv, false
	case <-tm.C:
		vrHung = true
		return nil, nil, nil, true
	}
}

func vrFail(sig, expected, format string, args ...any) vrResult {
	return vrResult{OK: false, Signature: sig, Expected: expected, Observed: fmt.Sprintf(format, args...)}
}

func vrPre(why string) vrResult {
	return vrResult{OK: true, Trivial: true, Observed: "precondition not met: " + why}
}

// ---------------------------------------------------------------------------
// C20/readncbi
// ---------------------------------------------------------------------------

func vrRunRead(in map[string]any) vrResult {
	t, why := vrDecodeTable(in)
	if why != "" {
		return vrPre(why)
	}
	text, longest := t.render(t.tokens())
	sig := "generic"
	if longest >= 65536 {
		sig = vrSigLongLine
	}
	m, err, pv, to := vrRead(text)
	if to {
		return vrFail(sig, "termination", "ReadNCBI did not return within 20 s")
	}
	if pv != nil {
		return vrFail(sig, "no panic", "ReadNCBI panicked: %v", pv)
	}
	if err != nil {
		return vrFail(sig, "the table, no error", "error %q (matrix nil: %v) for text %q", err, m == nil, vrTrunc(string(text)))
	}
	want := map[[2]byte]float64{}
	for i, r := range t.rows {
		for j, c := range t.cols {
			want[[2]byte{vrKey(r), vrKey(c)}] = t.scores[i][j]
		}
	}
	if len(m) != len(want) {
		return vrFail(sig, fmt.Sprintf("exactly the %d (row,column) pairs of the table", len(want)), "%d pairs for text %q", len(m), vrTrunc(string(text)))
	}
	for k, v := range want {
		g, ok := m[k]
		if !ok {
			return vrFail(sig, fmt.Sprintf("pair (%d,%d) = %v", k[0], k[1], v), "pair missing; text %q", vrTrunc(string(text)))
		}
		if g != v {
			return vrFail(sig, fmt.Sprintf("pair (%d,%d) = %v", k[0], k[1], v), "%v; text %q", g, vrTrunc(string(text)))
		}
	}
	return vrResult{OK: true, Trivial: len(t.rows) == 0}
}

func vrTableJSON(rows, cols string, scores [][]float64) map[string]any {
	sc := make([]any, len(scores))
	for i, r := range scores {
		l := make([]any, len(r))
		for j, x := range r {
			l[j] = vrF(x)
		}
		sc[i] = l
	}
	return map[string]any{"rows": vrS(rows), "cols": vrS(cols), "scores": sc}
}

func vrAnyStrs(s ...string) []any {
	l := make([]any, len(s))
	for i, x := range s {
		l[i] = x
	}
	return l
}

func vrWith(base map[string]any, kv ...any) map[string]any {
	out := make(map[string]any, len(base)+len(kv)/2)
	for k, v := range base {
		out[k] = v
	}
	for i := 0; i+1 < len(kv); i += 2 {
		out[kv[i].(string)] = kv[i+1]
	}
	return out
}

var vrFixedTables = []map[string]any{
	vrTableJSON("A*", "A*", [][]float64{{1, -2}, {-2.5, 1}}),
	vrTableJSON("x", "ACG", [][]float64{{0, 7, -0.25}}),
	vrTableJSON("T*c", "g", [][]float64{{3}, {-4}, {0.5}}),
	vrTableJSON("TAC", "CTA", [][]float64{{1, 2, 3}, {4, 5, 6}, {7, 8, 9}}),
	vrTableJSON("", "AC*", nil),
}

var (
	vrSepSets   = [][]any{vrAnyStrs(" "), vrAnyStrs("\t"), vrAnyStrs("   ", " \t"), vrAnyStrs("\t\t ", " ", "  ")}
	vrLeadSets  = [][]any{vrAnyStrs(""), vrAnyStrs("   ", ""), vrAnyStrs("\t", " \t ")}
	vrTrailSets = [][]any{vrAnyStrs(""), vrAnyStrs(" ", ""), vrAnyStrs("\t \t", " ")}
	vrExtraSets = [][]any{
		nil,
		{vrAnyStrs("# comment", "")},
		{vrAnyStrs(), vrAnyStrs("", "#", "#A 1 2 3"), vrAnyStrs("")},
		{vrAnyStrs("", ""), vrAnyStrs("#\t*  -1 x"), vrAnyStrs(), vrAnyStrs("## A C G T")},
	}
	vrFmtSets = [][]any{vrAnyStrs("g"), vrAnyStrs("f1", "e"), vrAnyStrs("f", "g", "e")}
)

func vrGenRead(g *vrGen) {
	for _, tb := range vrFixedTables {
		for _, seps := range vrSepSets {
			for _, lead := range vrLeadSets {
				for _, trail := range vrTrailSets {
					for _, extra := range vrExtraSets {
						for _, eol := range []string{"\n", "\r\n"} {
							for _, nf := range []bool{false, true} {
								for _, fm := range vrFmtSets {
									in := vrWith(tb, "seps", seps, "lead", lead, "trail", trail, "eol", eol, "no_final_eol", nf, "numfmt", fm)
									if extra != nil {
										in["extra"] = extra
									}
									g.Case(in)
									if vrHung {
										return
									}
								}
							}
						}
					}
				}
			}
		}
	}
	g.Exhaustive(true)
	// Lines beyond bufio.Scanner's 64 KiB token limit ("whatever the amount of whitespace / comment lines").
	g.Case(vrWith(vrFixedTables[0], "seps", vrAnyStrs(" ", strings.Repeat(" ", 70000))))
	g.Case(vrWith(vrFixedTables[0], "extra", []any{vrAnyStrs("#" + strings.Repeat("x", 70000))}))
	g.Case(vrWith(vrFixedTables[0], "seps", vrAnyStrs(" ", strings.Repeat(" ", 65000)))) // just below the limit
	maxDim := 8
	if g.Thorough() {
		maxDim = 24
	}
	for !g.Expired() && !vrHung {
		g.Case(vrRandTable(g.Rand, maxDim, 0))
	}
}

func vrRandLabels(r *rand.Rand, n int, star bool) string {
	var pool []byte
	if r.Intn(2) == 0 {
		pool = []byte("ARNDCQEGHILKMFPSTWYVBZX")
	} else {
		for c := byte(0x21); c <= 0x7e; c++ {
			if c != '#' && c != '*' {
				pool = append(pool, c)
			}
		}
	}
	r.Shuffle(len(pool), func(i, j int) { pool[i], pool[j] = pool[j], pool[i] })
	if n > len(pool) {
		n = len(pool)
	}
	l := append([]byte(nil), pool[:n]...)
	if star && n > 0 {
		l[r.Intn(n)] = '*'
	}
	return string(l)
}

func vrRandBlank(r *rand.Rand, min int) string {
	n := min + r.Intn(4)
	b := make([]byte, n)
	for i := range b {
		b[i] = " \t"[r.Intn(2)]
		if r.Intn(3) > 0 {
			b[i] = ' '
		}
	}
	return string(b)
}

// vrRandTable draws a table with a random layout; minRows forces at least that many rows.
func vrRandTable(r *rand.Rand, maxDim, minRows int) map[string]any {
	nr := minRows + r.Intn(maxDim-minRows+1)
	nc := 1 + r.Intn(maxDim)
	rows := vrRandLabels(r, nr, r.Intn(2) == 0)
	cols := vrRandLabels(r, nc, r.Intn(2) == 0)
	if r.Intn(3) == 0 && nr > 0 { // square table with the same labels, permuted
		b := []byte(rows)
		r.Shuffle(len(b), func(i, j int) { b[i], b[j] = b[j], b[i] })
		cols = string(b)
	}
	kind := r.Intn(4)
	scores := make([][]float64, len(rows))
	for i := range scores {
		scores[i] = make([]float64, len(cols))
		for j := range scores[i] {
			switch kind {
			case 0:
				scores[i][j] = float64(r.Intn(41) - 20)
			case 1:
				scores[i][j] = float64(r.Intn(401)-200) / 8
			case 2:
				scores[i][j] = float64(r.Intn(401)-200) / 10
			default:
				scores[i][j] = []float64{0, -1, 1e6, 1e21, -1e-7, 0.1, 1.0 / 3, 123456.789, -17, 5e-324, 1.7976931348623157e308}[r.Intn(11)]
			}
		}
	}
	in := vrTableJSON(rows, cols, scores)
	blanks := func(n, min int) []any {
		l := make([]any, 1+r.Intn(n))
		for i := range l {
			l[i] = vrRandBlank(r, min)
		}
		return l
	}
	in["seps"] = blanks(5, 1)
	if r.Intn(2) == 0 {
		in["lead"] = blanks(3, 0)
	}
	if r.Intn(2) == 0 {
		in["trail"] = blanks(3, 0)
	}
	if r.Intn(3) > 0 {
		comments := []string{"", "", "#", "# Matrix made by matblas from blosum62.iij", "#  * column uses minimum score", "#A 1 2", "#\tx", "# \xe2\x82\xac \x80 \x00"}
		ex := make([]any, 1+r.Intn(4))
		for i := range ex {
			var ls []string
			for n := r.Intn(3); n > 0; n-- {
				ls = append(ls, comments[r.Intn(len(comments))])
			}
			ex[i] = vrAnyStrs(ls...)
		}
		in["extra"] = ex
	}
	if r.Intn(3) == 0 {
		in["eol"] = "\r\n"
	}
	if r.Intn(4) == 0 {
		in["no_final_eol"] = true
	}
	fm := make([]any, 1+r.Intn(3))
	for i := range fm {
		fm[i] = []string{"g", "g", "f", "e", "f1"}[r.Intn(5)]
	}
	in["numfmt"] = fm
	return in
}

// ---------------------------------------------------------------------------
// C20/readncbi-bad
// ---------------------------------------------------------------------------

var vrMalformedNumerals = map[string]bool{"-": true, ".": true, "+": true, "1e": true, "--1": true, "1.2.3": true,
	"1-": true, "1e+": true, "e5": true, "-.": true, "1..2": true, "0x": true}

// vrClearlyNotANumber: s has a character that occurs in no decimal/hex float, Inf/Infinity or NaN
// spelling, or is a listed malformed numeral.
func vrClearlyNotANumber(s string) bool {
	if s == "" || vrMalformedNumerals[s] {
		return s != ""
	}
	for i := 0; i < len(s); i++ {
		if !strings.ContainsRune("0123456789+-._eExXpPabcdfABCDFiInNtTyY", rune(s[i])) {
			return true
		}
	}
	return false
}

func vrPlainToken(s string) bool {
	if s == "" {
		return false
	}
	for i := 0; i < len(s); i++ {
		if !vrLabelOK(s[i]) {
			return false
		}
	}
	return true
}

func vrRunBad(in map[string]any) vrResult {
	t, why := vrDecodeTable(vrMap(in["table"]))
	if why != "" {
		return vrPre(why)
	}
	c := vrMap(in["corruption"])
	kind, _ := c["kind"].(string)
	i, j := vrInt(c["row"]), vrInt(c["col"])
	tok := ""
	if c["token"] != nil {
		tok = vrStr(c["token"])
	}
	lines := t.tokens()
	needCell := func(extraCol int) string {
		if i < 0 || i >= len(t.rows) || j < 0 || j >= len(t.cols)+extraCol {
			return "row/col outside the table"
		}
		return ""
	}
	switch kind {
	case "missing-value":
		if w := needCell(0); w != "" {
			return vrPre(w)
		}
		l := lines[i+1]
		lines[i+1] = append(append([]string(nil), l[:j+1]...), l[j+2:]...)
	case "extra-value":
		if w := needCell(1); w != "" {
			return vrPre(w)
		}
		if tok == "" {
			tok = "1"
		}
		if _, err := strconv.ParseFloat(tok, 64); err != nil || !vrPlainToken(tok) {
			return vrPre("extra-value token must be a number")
		}
		l := lines[i+1]
		lines[i+1] = append(append(append([]string(nil), l[:j+1]...), tok), l[j+1:]...)
	case "non-numeric":
		if w := needCell(0); w != "" {
			return vrPre(w)
		}
		if !vrPlainToken(tok) || !vrClearlyNotANumber(tok) {
			return vrPre("token is not clearly non-numeric")
		}
		lines[i+1][j+1] = tok
	case "long-row-label":
		if i < 0 || i >= len(t.rows) {
			return vrPre("row outside the table")
		}
		if len(tok) < 2 || !vrPlainToken(tok) {
			return vrPre("label token must have 2+ printable characters")
		}
		lines[i+1][0] = tok
	case "long-col-label":
		if j < 0 || j >= len(t.cols) {
			return vrPre("col outside the table")
		}
		if len(tok) < 2 || !vrPlainToken(tok) {
			return vrPre("label token must have 2+ printable characters")
		}
		lines[0][j] = tok
	default:
		panic("harness: unknown corruption kind " + kind)
	}
	text, _ := t.render(lines)
	m, err, pv, to := vrRead(text)
	if to {
		return vrFail("generic", "termination", "ReadNCBI did not return within 20 s")
	}
	if pv != nil {
		return vrFail("generic", "an error, no panic", "ReadNCBI panicked: %v", pv)
	}
	if err == nil {
		return vrFail("generic", "an error ("+kind+")", "no error, matrix with %d pairs for text %q", len(m), vrTrunc(string(text)))
	}
	if m != nil {
		return vrFail("generic", "nil matrix together with the error", "error %q and a matrix with %d pairs", err, len(m))
	}
	return vrResult{OK: true}
}

var vrBadNumerics = []string{"q", "hello", "1.2.3", "--1", "1,5", "-", ".", "1e", "1z", "4/2", "1e+", "0x"}
var vrLongLabels = []string{"AB", "**", "A*", "10"}

// vrAllCorruptions calls f for every single-token corruption of the table.
func vrAllCorruptions(tb map[string]any, f func(c map[string]any)) {
	nr, nc := len(vrList(tb["rows"])), len(vrList(tb["cols"]))
	for i := 0; i < nr; i++ {
		for j := 0; j < nc; j++ {
			f(map[string]any{"kind": "missing-value", "row": i, "col": j})
			for _, s := range vrBadNumerics {
				f(map[string]any{"kind": "non-numeric", "row": i, "col": j, "token": s})
			}
		}
		for j := 0; j <= nc; j++ {
			f(map[string]any{"kind": "extra-value", "row": i, "col": j, "token": []string{"1", "-2.5", "0"}[(i+j)%3]})
		}
		for _, s := range vrLongLabels {
			f(map[string]any{"kind": "long-row-label", "row": i, "token": s})
		}
	}
	for j := 0; j < nc; j++ {
		for _, s := range vrLongLabels {
			f(map[string]any{"kind": "long-col-label", "col": j, "token": s})
		}
	}
}

func vrGenBad(g *vrGen) {
	layouts := []map[string]any{
		{},
		{"seps": vrAnyStrs("\t", "  "), "lead": vrAnyStrs("  ", ""), "eol": "\r\n"},
		{"extra": []any{vrAnyStrs("# c", ""), vrAnyStrs()}, "trail": vrAnyStrs(" ", "\t"), "no_final_eol": true},
		{"seps": vrAnyStrs(" \t "), "extra": []any{vrAnyStrs(""), vrAnyStrs("#")}, "numfmt": vrAnyStrs("f1", "e")},
	}
	for _, tb := range vrFixedTables[:4] {
		if len(vrList(tb["rows"])) > 2 && len(vrList(tb["cols"])) > 2 { // keep 3 of the 4 non-empty tables
			continue
		}
		for _, lay := range layouts {
			var kv []any
			for k, v := range lay {
				kv = append(kv, k, v)
			}
			full := vrWith(tb, kv...)
			vrAllCorruptions(full, func(c map[string]any) {
				if !vrHung {
					g.Case(map[string]any{"table": full, "corruption": c})
				}
			})
		}
	}
	g.Exhaustive(!vrHung)
	maxDim := 8
	if g.Thorough() {
		maxDim = 24
	}
	r := g.Rand
	for !g.Expired() && !vrHung {
		tb := vrRandTable(r, maxDim, 1)
		var all []map[string]any
		vrAllCorruptions(tb, func(c map[string]any) { all = append(all, c) })
		for n := 0; n < 4; n++ {
			g.Case(map[string]any{"table": tb, "corruption": all[r.Intn(len(all))]})
		}
	}
}

// ---------------------------------------------------------------------------
// C11/readncbi-total
// ---------------------------------------------------------------------------

func vrRunTotal(in map[string]any) vrResult {
	data := vrBytes(in["data"])
	m, err, pv, to := vrRead(data)
	if to {
		return vrFail("generic", "termination", "ReadNCBI did not return within 20 s")
	}
	if pv != nil {
		return vrFail("generic", "no panic", "ReadNCBI panicked: %v", pv)
	}
	if err != nil && m != nil {
		return vrFail("generic", "a matrix or an error (nil matrix with an error)", "error %q and a matrix with %d pairs", err, len(m))
	}
	return vrResult{OK: true, Trivial: len(data) == 0}
}

func vrGenTotal(g *vrGen) {
	n := 5
	if g.Thorough() {
		n = 6
	}
	vrWords([]byte("A*1-. \n#"), n, func(w []byte) bool {
		g.Case(map[string]any{"data": vrB(w)})
		return !vrHung
	})
	g.Exhaustive(!vrHung)
	long := bytes.Repeat([]byte("A "), 40000)
	g.Case(map[string]any{"data": vrB(long)})
	g.Case(map[string]any{"data": vrB(append([]byte("A C\nA 1 2\n"), long...))})
	g.Case(map[string]any{"data": vrB(append([]byte("A C\nA 1 2\n#"), long...))})
	r := g.Rand
	dict := []string{"#", "*", "\r", "\n", "\r\n", "\t", "\v", "\f", "\x00", "\x80", "\xff", "\xc2\xa0", "\xe2\x80\x83", "NaN", "Inf", "-Inf",
		"1e999", "-", "+", ".", "0x1p-2", "1_0", "99999999999999999999999", "**", "A B", "\n\n", " \n", "#\n", "*\t*", "\n* 1"}
	for !g.Expired() && !vrHung {
		var data []byte
		switch r.Intn(4) {
		case 0: // raw random bytes
			data = make([]byte, r.Intn(301))
			for i := range data {
				data[i] = byte(r.Intn(256))
			}
		case 1: // random bytes from a table-like alphabet
			al := []byte("ACGT*#-.0123456789eE \t\t\n\n\r")
			data = vrRandWord(r, al, r.Intn(120))
		default: // mutated valid table
			t, why := vrDecodeTable(vrRandTable(r, 6, 0))
			if why != "" {
				panic("harness: generated table invalid: " + why)
			}
			data, _ = t.render(t.tokens())
			for k := 1 + r.Intn(4); k > 0 && len(data) > 0; k-- {
				p := r.Intn(len(data))
				switch r.Intn(5) {
				case 0:
					data[p] = byte(r.Intn(256))
				case 1:
					data = append(data[:p], data[p+1:]...)
				case 2:
					data = append(data[:p], append([]byte{byte(r.Intn(256))}, data[p:]...)...)
				case 3:
					d := dict[r.Intn(len(dict))]
					data = append(data[:p], append([]byte(d), data[p:]...)...)
				case 4:
					data = data[:p]
				}
			}
		}
		g.Case(map[string]any{"data": vrB(data)})
	}
}
