package bed

// Replay / bounded harness of package formats/bed (see /verif/replay/README.md).
// Injected through `go test -overlay`; not part of the repository.
//
// Mapping of API functions to clauses:
//   func (*BED) Write, (*BED) MarshalText, bed.Reader   -> C04/roundtrip, C04/file
//   func (*BED) MarshalText x n, then (*BED) Write x n, bed.Reader -> C04/marshal-list {records}
//   func bed.Reader (read schedules)                    -> C06/chunking, C06/crlf
//   func bed.File                                       -> C06/file
//   func bed.Reader (failing io.Reader)                 -> C07/read-fault
//   func (*BED) Write (failing io.Writer)               -> C07/write-fault
//   func bed.Reader (arbitrary bytes)                   -> C11/total
//   func bed.Reader, bed.File (early stop)              -> C18/stop
//
// Input encodings: byte strings are JSON arrays of ints; ints beyond 2^53 are
// decimal strings. A record is
//   {"n":N,"chrom":[..],"start":n,"end":n,"name":[..],"score":n,"strand":[..],"thickstart":n,
//    "thickend":n,"rgb":[r,g,b],"blockcount":n,"blocksizes":[..],"blockstarts":[..]}
// Compact form of a long byte string (accepted for chrom and name):
//   {"pat":[..],"len":n} = pat repeated and cut to n bytes.
//
// Signatures: "bed:dquote-in-text-field" (a '"' in chrom/name is needed for the
// failure: the same case with every '"' replaced by 'q' passes),
// "bed:File-yields-nothing" (C06/file: File yields no item although Reader
// yields at least one), "bed:line-longer-than-4095" / "bed:line-longer-than-65535"
// (C04: the failure needs a line of that length: the same case with chrom/name
// cut to 256 bytes passes; the second one if it also passes with them cut to
// 16000 bytes), "generic" otherwise.

import (
	"bufio"
	"bytes"
	"compress/gzip"
	"errors"
	"fmt"
	"io"
	"math"
	"math/rand"
	"os"
	"path/filepath"
	"sort"
	"strconv"
	"strings"
	"testing"
)

func TestVerif(t *testing.T) { vrMain(t, vbClauses) }

var vbClauses = []vrClause{
	{Prop: "C04", Name: "roundtrip",
		Bound: "systematic: every N in -1..14 and extreme N; for every N in 3..12 chrom (not starting with '#') and name over all words of length <=2 over {dquote,space,comma,0x01,0x80,a,#,:,%} and the texts %, 50%, %d, %s%s, 100%%, %!, 100%_identity, every int field over extreme values, every strand, RGB corners, block lists of 0..3; long lines (Name with N = 4 and 12, Chrom with N = 3, of 4000, 4096, 5000, 70000, 200000 bytes); then random records until the time budget",
		Rule:  "N in 3..12: Write ok, MarshalText == Write, one line of exactly N tab-separated fields, Reader gives back N and the first N fields, rest zero; otherwise Write/MarshalText refuse and emit nothing",
		Gen:   vbGenRoundtrip, Run: vbRunRoundtrip},
	{Prop: "C04", Name: "file",
		Bound: "fixed files for every N in 3..12 (one record; an all-zero record between two records); long lines: a record with a Name of 4000, 4096, 5000, 70000, 200000 bytes (N = 4, 6, 12) alone, twice, and between ordinary records, and a Chrom of those lengths (N = 3) between ordinary records; then random files of 0..5 records sharing one N (every N in 3..12) until the time budget",
		Rule:  "Reader gives back the records in order",
		Gen:   vbGenFile, Run: vbRunFile},
	{Prop: "C04", Name: "marshal-list",
		Bound: "exhaustive: for every N in 3..12 all ordered pairs of a pool of 8 records of pairwise different written lengths (empty / long text, extreme ints, 0..3 blocks); all ordered pairs (N1,N2) of base records with different N (byte checks only); the N=12 pool in increasing and decreasing length order (windows of 6); then random lists of 2..6 random records of pairwise different written lengths (3/4 sharing one N) until the time budget",
		Rule:  "every N in 3..12: MarshalText is called on every record of the list first and the returned slices are kept untouched; afterwards each kept slice == the bytes Write of that record puts into a fresh buffer (not clobbered by later MarshalText/Write calls); Write of all records into one shared buffer emits the concatenation of those bytes; if the records share one N, Reader over the kept slices joined and over the shared buffer gives back the records (first N fields) in order",
		Gen:   vbGenMarshalList, Run: vbRunMarshalList},
	{Prop: "C04", Name: "extern-split",
		Bound: "exhaustive: for sep TAB and ',' every s over {sep, 'a', 0x00, 0xff} of length 0..6 (thorough 0..8); then 6000 (thorough 200000) random cases, fewer if the time share ends first: sep TAB or ',' (1 in 2) or a random byte 0..255, s of length 0..40 (1 in 8: 0..400) over {sep, sep, 'a', 'b', 0x00, 0xff, 0x80, LF}",
		Rule:  "conformance of the ASSUMED contract of strings.Split with a one-byte separator (/verif/specs/00base.spec) with the real standard library; the repository is not called. fields := strings.Split(s, string([]byte{c})) of the real library; spec functions from the real result: splitN := len(fields), splitF(k) := fields[k], splitS(0) := 0, splitE(k) := splitS(k) + len(fields[k]), splitS(k+1) := splitE(k) + 1. Then every [splitN] axiom is evaluated literally, quantifiers by looping over all k and j: (1) splitN >= 1 && splitS(0) == 0 && splitE(splitN-1) == len(s); (2) 0 <= k < splitN ==> 0 <= splitS(k) <= splitE(k) <= len(s) && (k < splitN-1 ==> splitE(k) < len(s) && s[splitE(k)] == c && splitS(k+1) == splitE(k)+1) && (splitE(k) < len(s) ==> k < splitN-1); (3) 0 <= k < splitN && splitS(k) <= j < splitE(k) ==> s[j] != c; (4) len(splitF(k)) == splitE(k) - splitS(k); (5) 0 <= j < len(splitF(k)) ==> splitF(k)[j] == s[splitS(k)+j]. trivial: sep outside 0..255",
		Gen:   vbxGenSplit, Run: vbxRunSplit},
	{Prop: "C04", Name: "extern-itoa",
		Bound: "exhaustive: x in -300..300, MinInt64, MinInt64+1, MaxInt64-1, MaxInt64, +-(10^k - 1), +-10^k, +-(10^k + 1) for k in 1..18, the 14 extreme values of the int pool of C04/roundtrip; texts s for ParseUint(s, 0, 8): every string of length 0..3 (thorough 0..4) over {0,1,2,5,6,9,x,b,o,_,-,+,f,space} and 24 fixed texts (255, 256, 0xff, 0x100, 0377, 0400, 0b11111111, 0o377, 2_5_5, ...); then 4000 (thorough 200000) random ints (pool, full 64-bit range, 0..999, +-10^6), fewer if the time share ends first",
		Rule:  "conformance of the ASSUMED contracts of strconv.Itoa / Atoi / ParseUint(s, 0, 8) and of %v, %d of an int and of a byte (/verif/specs/00base.spec; extern.go renders %v/%d of int and byte operands as itoa) with the real standard library; the repository is not called. itoa(x) := strconv.Itoa(x); atoiOK(s), atoi(s) := (err == nil), value of strconv.Atoi(s); puintOK(s), puint(s) := (err == nil), value of strconv.ParseUint(s, 0, 8). Case {x}: fmt.Sprintf of %v and of %d of int x (and of byte(x) when 0 <= x <= 255) == itoa(x); axiom atoiOK(itoa(x)) && atoi(itoa(x)) == x; [itoa] len(itoa(x)) >= 1; [itoa] 0 <= j < len(itoa(x)) ==> itoa(x)[j] == '-' || '0' <= itoa(x)[j] <= '9'; puintOK(itoa(x)) ==> 0 <= puint(itoa(x)) <= 255; [puint] 0 <= x <= 255 ==> puintOK(itoa(x)) && puint(itoa(x)) == x. Case {s}: puintOK(s) ==> 0 <= puint(s) <= 255 (trivial when ParseUint fails)",
		Gen:   vbxGenItoa, Run: vbxRunItoa},
	{Prop: "C04", Name: "extern-trimsuffix",
		Bound: "exhaustive: every s over {LF, CR, 'a', 0x00} of length 0..6 (thorough 0..8); then 3000 (thorough 100000) random s of length 0..60 over {LF, CR, 'a', 0x00, 0xff, TAB}, 1 in 2 with one of LF, CR, CR LF, LF CR, LF LF appended, fewer if the time share ends first",
		Rule:  "conformance of the ASSUMED contract of strings.TrimSuffix(s, suf) for the constant suffixes LF and CR (/verif/govc/extern.go) with the real standard library; the repository is not called. For suf in {LF, CR}: hassuf := len(s) >= 1 && s[len(s)-1] == suf[0]; hassuf ==> TrimSuffix(s, suf) == s[0:len(s)-1]; !hassuf ==> TrimSuffix(s, suf) == s; and the composition used by the readers, TrimSuffix(TrimSuffix(s, LF), CR), equals the model applied twice",
		Gen:   vbxGenTrimSuffix, Run: vbxRunTrimSuffix},
	{Prop: "C04", Name: "extern-readstring",
		Bound: "exhaustive: every stream over {LF, CR, 'a', 0x00} of length 0..6 (thorough 0..8); 36 long streams: 'a' or 'ab' LF repeated and cut to 4095, 4096, 4097, 8192, 10000, 70000 bytes followed by '', LF, LF 'b' (around the 4096-byte buffer of bufio.Reader); then 3000 (thorough 100000) random streams of length 0..200 (1 in 64: 0..9000) over {LF, LF, CR, 'a', 'b', 0x00, 0xff, TAB}, fewer if the time share ends first",
		Rule:  "conformance of the ASSUMED contract of (*bufio.Reader).ReadString(LF) on an in-memory stream (/verif/govc/extern.go) with the real standard library; the repository is not called. The stream in[0..end) is read to its end three times: bufio.NewReader over bytes.NewReader, over bytes.NewBuffer, and bufio.NewReaderSize(.., 16) over bytes.NewReader. At every call with the model position pos: e := the position with pos <= e <= end, in[i] != LF for pos <= i < e, and (e < end ==> in[e] == LF); found := e < end; hi := found ? e+1 : end; the call must return exactly in[pos:hi] and the error nil if found, io.EOF if not; pos := hi. After the first io.EOF pos == end, the returned strings concatenated are the stream (successive calls partition it), and one more call returns the empty string and io.EOF",
		Gen:   vbxGenReadString, Run: vbxRunReadString},
	{Prop: "C04", Name: "extern-fprintf",
		Bound: "exhaustive over operand pools for 15 (format, operand types) pairs (all formats of bed.go, fastq.go, fasta.go, the tag and line-end formats of sam.go, and two mixed ones): '%v TAB %v'(string,int), '%v TAB %v TAB %v'(string,int,int), 'TAB %v'(string), 'TAB %v'(int), ',%v'(int), '%v'(int), 'TAB %v,%v,%v'(byte,byte,byte), '%s TAB %d'(string,int), '@%s LF %s LF + LF %s LF'([]byte x3), '>%s LF'([]byte), '%s LF'([]byte), 'TAB %s'(string), 'TAB', 'LF', '%s TAB %d TAB %s'(string,int,string); pools: strings and []byte = every word over {'%', 'a', TAB, LF, 0x00, 0xff} of length 0..3 when the format has one operand, 0..2 with two, 0..1 with three; int = {0, 1, -1, 9, 10, 255, 256, -300, 1000000, MaxInt64, MinInt64}; byte = {0, 1, 9, 10, 99, 100, 255}; then 4000 (thorough 200000) random cases: a format of the table with random operands (texts of length 0..12 over that alphabet and 'v', 'd', 's', '!', '('; ints from the pool / full range; bytes 0..255), fewer if the time share ends first",
		Rule:  "conformance of the ASSUMED contract of fmt.Fprintf with a constant format (/verif/govc/extern.go) with the real standard library; the repository is not called. The expected bytes are built without fmt: the literal parts of the format in order (%% = '%'), each verb replaced by its operand: string with %v/%s and []byte with %s verbatim, int and byte with %v/%d as strconv.Itoa. Fprintf to a counting writer must return len(expected), nil, have written exactly the expected bytes, in exactly ONE call of w.Write; and to a writer whose first Write accepts only half of the bytes and returns an error, Fprintf must return a non-nil error after exactly one Write call that was offered exactly the expected bytes. trivial: a (verb, operand type) pair outside the model",
		Gen:   vbxGenFprintf, Run: vbxRunFprintf},
	{Prop: "C06", Name: "chunking",
		Bound: "random well-formed / near-valid / random inputs x {every 2-chunk split, uniform chunk sizes 1..8, random schedules} x eof_with_data",
		Rule:  "items of Reader on the chunked stream == items on bytes.Reader",
		Gen:   vbGenChunking, Run: vbRunChunking},
	{Prop: "C06", Name: "crlf",
		Bound: "50 fixed texts of two records (N = 3, 6, 12) with blank lines (leading, between the records, one or two trailing, everywhere, next to comment lines; with and without the final terminator; blank lines only); then random well-formed files (LF), every third with 1..2 blank lines inserted at random line starts, re-terminated with CRLF",
		Rule:  "same items with LF and CRLF (the CRLF text is the LF text with every LF replaced by CRLF, so a blank line becomes CR LF)",
		Gen:   vbGenCRLF, Run: vbRunCRLF},
	{Prop: "C06", Name: "file",
		Bound: "random inputs x {plain, .gz} and a missing path",
		Rule:  "File == Reader on the file's bytes; missing path: exactly one item, an error",
		Gen:   vbGenFileAPI, Run: vbRunFileAPI},
	{Prop: "C07", Name: "read-fault",
		Bound: "random well-formed files x every byte offset 0..len x {once, forever}",
		Rule:  "only leading records of the fault-free decode, then a non-nil error, finitely many items",
		Gen:   vbGenReadFault, Run: vbRunReadFault},
	{Prop: "C07", Name: "write-fault",
		Bound: "2 long records (Name of 5000 bytes with N = 12, Chrom of 10000 bytes with N = 3) x k in the last 4200 bytes of the line .. len(output)+2 (5 KB line: every k; 10 KB line: every 5th k and every k in the last 256 bytes) and every 97th k before x {forever; once for every 5th of these k and the last 4}; the base record of every N and then random records (every N) x every k in 0..len(output)+1 x {forever, once}",
		Rule:  "Write returns non-nil error iff k < len(output)",
		Gen:   vbGenWriteFault, Run: vbRunWriteFault},
	{Prop: "C11", Name: "total",
		Bound: "fixed seed corpus + grammar-aware near-valid mutations of valid files + random field soups, until the time budget",
		Rule:  "no panic, terminates, only records/errors; accepted records (text free of TAB/CR/LF, chrom not starting with '#') are fixed points of Write->Reader",
		Gen:   vbGenTotal, Run: vbRunTotal},
	{Prop: "C18", Name: "stop",
		Bound: "4 fixed inputs and random inputs (valid, with bad lines) x {Reader, File} x every stop position 1..N+1; failing underlying reader (Reader only): 5 small fixed files (4 well-formed, 1 with a malformed last line) x every fault offset 0..len x {fails once then EOF, fails forever} x every stop position 1..N+1 (N = items of the uninterrupted run with that fault), cut short if the time budget ends first",
		Rule:  "no callback after the consumer stops, no panic, items == prefix of the uninterrupted run; an error item is the last item of an uninterrupted run; with \"fault\" >= 0 both runs use a fresh reader that delivers data[:fault] and then fails with a non-EOF error (\"forever\": every time, else once and then io.EOF)",
		Gen:   vbGenStop, Run: vbRunStop},
}

// ---------------------------------------------------------------------------
// encoding / decoding of inputs

func vbAnyStr(v any) string {
	if s, ok := v.(string); ok {
		return s
	}
	return vrStr(v)
}

// vbStr decodes a byte string: the usual forms of vrStr, or the compact form
// {"pat":[bytes],"len":n} (pat repeated and cut to n bytes).
func vbStr(v any) string {
	m, ok := v.(map[string]any)
	if !ok {
		return vrStr(v)
	}
	pat, n := vrBytes(m["pat"]), vrInt(m["len"])
	if n < 0 || (n > 0 && len(pat) == 0) || n > 1<<26 {
		panic("harness: bad compact string")
	}
	b := make([]byte, n)
	for i := range b {
		b[i] = pat[i%len(pat)]
	}
	return string(b)
}

// vbS encodes a byte string; strings of 512 bytes or more that are a repeated
// pattern of at most 16 bytes get the compact form, so that case files stay small.
func vbS(x string) any {
	if len(x) >= 512 {
	next:
		for p := 1; p <= 16; p++ {
			for i := p; i < len(x); i++ {
				if x[i] != x[i-p] {
					continue next
				}
			}
			return map[string]any{"pat": vrS(x[:p]), "len": len(x)}
		}
	}
	return vrS(x)
}

// vbRep returns pat repeated and cut to n bytes.
func vbRep(pat string, n int) string {
	return vbStr(map[string]any{"pat": pat, "len": n})
}

func vbEncInt(v int) any {
	if v > 1<<53 || v < -(1<<53) {
		return strconv.Itoa(v)
	}
	return v
}

func vbEncInts(a []int) []any {
	r := make([]any, len(a))
	for i, v := range a {
		r[i] = vbEncInt(v)
	}
	return r
}

func vbEncRec(b *BED) map[string]any {
	return map[string]any{
		"n": vbEncInt(b.N), "chrom": vbS(b.Chrom), "start": vbEncInt(b.ChromStart), "end": vbEncInt(b.ChromEnd),
		"name": vbS(b.Name), "score": vbEncInt(b.Score), "strand": vrS(b.Strand),
		"thickstart": vbEncInt(b.ThickStart), "thickend": vbEncInt(b.ThickEnd),
		"rgb":        []any{int(b.ItemRGB[0]), int(b.ItemRGB[1]), int(b.ItemRGB[2])},
		"blockcount": vbEncInt(b.BlockCount), "blocksizes": vbEncInts(b.BlockSizes), "blockstarts": vbEncInts(b.BlockStarts),
	}
}

func vbDecRec(v any) *BED {
	m := vrMap(v)
	b := &BED{N: vrInt(m["n"]), Chrom: vbStr(m["chrom"]), ChromStart: vrInt(m["start"]), ChromEnd: vrInt(m["end"]),
		Name: vbStr(m["name"]), Score: vrInt(m["score"]), Strand: vrStr(m["strand"]),
		ThickStart: vrInt(m["thickstart"]), ThickEnd: vrInt(m["thickend"]),
		BlockCount: vrInt(m["blockcount"]), BlockSizes: vrInts(m["blocksizes"]), BlockStarts: vrInts(m["blockstarts"])}
	for i, x := range vrInts(m["rgb"]) {
		if i < 3 {
			b.ItemRGB[i] = byte(x)
		}
	}
	return b
}

// ---------------------------------------------------------------------------
// domain, comparison, description

func vbClean(s string) bool { return !strings.ContainsAny(s, "\t\r\n") }

func vbValidStrand(s string) bool { return s == "" || s == "+" || s == "-" || s == "." }

// vbRestrict returns b restricted to its first n fields (x|N of the design):
// a field with index >= n is zero.
func vbRestrict(b *BED, n int) *BED {
	r := &BED{N: n, Chrom: b.Chrom, ChromStart: b.ChromStart, ChromEnd: b.ChromEnd}
	if n > 3 {
		r.Name = b.Name
	}
	if n > 4 {
		r.Score = b.Score
	}
	if n > 5 {
		r.Strand = b.Strand
	}
	if n > 6 {
		r.ThickStart = b.ThickStart
	}
	if n > 7 {
		r.ThickEnd = b.ThickEnd
	}
	if n > 8 {
		r.ItemRGB = b.ItemRGB
	}
	if n > 9 {
		r.BlockCount = b.BlockCount
	}
	if n > 10 {
		r.BlockSizes = b.BlockSizes
	}
	if n > 11 {
		r.BlockStarts = b.BlockStarts
	}
	return r
}

// vbInDomain: the domain of C04's round trip, for 3 <= b.N <= 12.
func vbInDomain(b *BED) bool {
	r := vbRestrict(b, b.N)
	return vbClean(r.Chrom) && !strings.HasPrefix(r.Chrom, "#") && vbClean(r.Name) && vbValidStrand(r.Strand) &&
		len(r.BlockSizes) == r.BlockCount && len(r.BlockStarts) == r.BlockCount
}

func vbHasDquote(b *BED) bool {
	return strings.Contains(b.Chrom, `"`) || (b.N > 3 && strings.Contains(b.Name, `"`))
}

func vbDequote(b *BED) *BED {
	c := *b
	c.Chrom = strings.ReplaceAll(c.Chrom, `"`, "q")
	c.Name = strings.ReplaceAll(c.Name, `"`, "q")
	return &c
}

// vbCut returns copies of recs with chrom and name cut to at most n bytes
// (changed reports whether anything was cut).
func vbCut(recs []*BED, n int) (r []*BED, changed bool) {
	r = make([]*BED, len(recs))
	for i, b := range recs {
		c := *b
		if len(c.Chrom) > n {
			c.Chrom, changed = c.Chrom[:n], true
		}
		if len(c.Name) > n {
			c.Name, changed = c.Name[:n], true
		}
		r[i] = &c
	}
	return r, changed
}

// vbLongLineSig classifies a failure of recs: if some rendered line has 4096
// bytes or more and the same case with chrom/name cut to 256 bytes passes, the
// failure needs the long line ("" otherwise). check evaluates the clause's oracle.
func vbLongLineSig(recs []*BED, check func([]*BED) bool) string {
	long := false
	for _, ln := range bytes.Split(vbRenderRecs(recs), []byte{'\n'}) {
		long = long || len(ln) >= 4096
	}
	if !long {
		return ""
	}
	short, changed := vbCut(recs, 256)
	if !changed || !check(short) {
		return ""
	}
	if mid, ch := vbCut(recs, 16000); ch && check(mid) {
		return "bed:line-longer-than-65535"
	}
	return "bed:line-longer-than-4095"
}

// vbLongLens: lengths of the long Name / Chrom strings (around the 4096-byte
// bufio buffer and beyond the 65536-byte bufio.Scanner token limit).
var vbLongLens = []int{4000, 4096, 5000, 70000, 200000}

func vbIntsEq(a, b []int) bool {
	if len(a) != len(b) {
		return false
	}
	for i := range a {
		if a[i] != b[i] {
			return false
		}
	}
	return true
}

// vbDiff returns "" when a and b are identical records (nil == empty list).
func vbDiff(a, b *BED) string {
	if a == nil || b == nil {
		if a == b {
			return ""
		}
		return "nil vs non-nil record"
	}
	type fld struct {
		n    string
		x, y any
	}
	for _, f := range []fld{{"N", a.N, b.N}, {"Chrom", a.Chrom, b.Chrom}, {"ChromStart", a.ChromStart, b.ChromStart},
		{"ChromEnd", a.ChromEnd, b.ChromEnd}, {"Name", a.Name, b.Name}, {"Score", a.Score, b.Score},
		{"Strand", a.Strand, b.Strand}, {"ThickStart", a.ThickStart, b.ThickStart}, {"ThickEnd", a.ThickEnd, b.ThickEnd},
		{"ItemRGB", a.ItemRGB, b.ItemRGB}, {"BlockCount", a.BlockCount, b.BlockCount}} {
		if f.x != f.y {
			return fmt.Sprintf("%s: %#v vs %#v", f.n, f.x, f.y)
		}
	}
	if !vbIntsEq(a.BlockSizes, b.BlockSizes) {
		return fmt.Sprintf("BlockSizes: %v vs %v", a.BlockSizes, b.BlockSizes)
	}
	if !vbIntsEq(a.BlockStarts, b.BlockStarts) {
		return fmt.Sprintf("BlockStarts: %v vs %v", a.BlockStarts, b.BlockStarts)
	}
	return ""
}

func vbRecDesc(b *BED) string {
	if b == nil {
		return "<nil>"
	}
	return fmt.Sprintf("{N:%d %q %d %d %q %d %q %d %d %v %d %v %v}", b.N, b.Chrom, b.ChromStart, b.ChromEnd, b.Name,
		b.Score, b.Strand, b.ThickStart, b.ThickEnd, b.ItemRGB, b.BlockCount, b.BlockSizes, b.BlockStarts)
}

// ---------------------------------------------------------------------------
// running the iterators

type vbItem struct {
	B   *BED
	Err error
}

func vbSeq(api string, r io.Reader, path string) func(func(vbItem) bool) {
	switch api {
	case "Reader":
		return func(y func(vbItem) bool) {
			Reader(r)(func(b *BED, e error) bool { return y(vbItem{B: b, Err: e}) })
		}
	case "File":
		return func(y func(vbItem) bool) {
			File(path)(func(b *BED, e error) bool { return y(vbItem{B: b, Err: e}) })
		}
	}
	panic("harness: unknown api " + api)
}

// vbCollect consumes the iterator. stop > 0: the consumer returns false on the
// stop-th item. limit: the consumer gives up (capped) at that many items.
// extra counts callbacks made after the consumer returned false.
func vbCollect(api string, r io.Reader, path string, stop, limit int) (items []vbItem, extra int, capped bool, p any) {
	done := false
	seq := vbSeq(api, r, path)
	p = vrCatch(func() {
		seq(func(it vbItem) bool {
			if done {
				extra++
				return false
			}
			items = append(items, it)
			if stop > 0 && len(items) >= stop {
				done = true
				return false
			}
			if len(items) >= limit {
				done, capped = true, true
				return false
			}
			return true
		})
	})
	return
}

func vbItemDiff(a, b vbItem) string {
	if (a.Err != nil) != (b.Err != nil) {
		return fmt.Sprintf("error %v vs error %v", a.Err, b.Err)
	}
	if a.Err != nil {
		return ""
	}
	return vbDiff(a.B, b.B)
}

func vbItemsDiff(a, b []vbItem) string {
	for i := 0; i < len(a) && i < len(b); i++ {
		if d := vbItemDiff(a[i], b[i]); d != "" {
			return fmt.Sprintf("item %d: %s", i, d)
		}
	}
	if len(a) != len(b) {
		return fmt.Sprintf("%d items vs %d items", len(a), len(b))
	}
	return ""
}

func vbItemsDesc(items []vbItem) string {
	var sb strings.Builder
	fmt.Fprintf(&sb, "%d items [", len(items))
	for i, it := range items {
		if i >= 6 {
			sb.WriteString(" ...")
			break
		}
		if i > 0 {
			sb.WriteString(" ")
		}
		if it.Err != nil {
			fmt.Fprintf(&sb, "err(%v)", it.Err)
		} else {
			sb.WriteString(vbRecDesc(it.B))
		}
	}
	sb.WriteString("]")
	return sb.String()
}

// ---------------------------------------------------------------------------
// independent renderer (used to build input data, never as an oracle for Write)

func vbJoinInts(a []int) string {
	s := make([]string, len(a))
	for i, v := range a {
		s[i] = strconv.Itoa(v)
	}
	return strings.Join(s, ",")
}

func vbRenderFields(b *BED) []string {
	f := []string{b.Chrom, strconv.Itoa(b.ChromStart), strconv.Itoa(b.ChromEnd), b.Name, strconv.Itoa(b.Score), b.Strand,
		strconv.Itoa(b.ThickStart), strconv.Itoa(b.ThickEnd),
		fmt.Sprintf("%d,%d,%d", b.ItemRGB[0], b.ItemRGB[1], b.ItemRGB[2]), strconv.Itoa(b.BlockCount),
		vbJoinInts(b.BlockSizes), vbJoinInts(b.BlockStarts)}
	n := b.N
	if n < 0 {
		n = 0
	}
	if n > 12 {
		n = 12
	}
	return f[:n]
}

func vbRenderRecs(recs []*BED) []byte {
	var buf bytes.Buffer
	for _, b := range recs {
		buf.WriteString(strings.Join(vbRenderFields(b), "\t"))
		buf.WriteByte('\n')
	}
	return buf.Bytes()
}

// ---------------------------------------------------------------------------
// generators of records / files

var vbAlphaQ = []byte{'"', ' ', ',', 0x01, 0x80, 0xff, 0x7f, 'a', 'Z', '0', '#', ':', '*', '\'', '\\', '+', '-', '.', '"', '%'}
var vbAlphaNQ = []byte{' ', ',', 0x01, 0x80, 0xff, 0x7f, 'a', 'Z', '0', '#', ':', '*', '\'', '\\', '+', '-', '.', '%'}
var vbTextPool = []string{"", "chr1", "chrX", "gene-1", "a b", "x,y", ".", "+", "0", "50%", "%d", "%s%s", "100%%"}

// vbPercentTexts: texts that a writer using a field as a printf format would mangle.
var vbPercentTexts = []string{"%", "50%", "%d", "%s%s", "100%%", "%!", "100%_identity"}
var vbQuotePool = []string{`"`, `""`, `a"b`, `"abc"`, `"a`, `a"`}
var vbIntPool = []int{0, 1, -1, 2, 1000, 255, 65535, 1<<31 - 1, -(1 << 31), 1 << 32, math.MaxInt64, math.MinInt64, math.MaxInt64 - 1, -12345}
var vbStrands = []string{"", "+", "-", "."}

func vbRandText(r *rand.Rand, quote bool) string {
	switch k := r.Intn(12); {
	case k < 3:
		return vbTextPool[r.Intn(len(vbTextPool))]
	case k == 3 && quote:
		return vbQuotePool[r.Intn(len(vbQuotePool))]
	}
	alpha := vbAlphaNQ
	if quote {
		alpha = vbAlphaQ
	}
	return string(vrRandWord(r, alpha, r.Intn(6)))
}

func vbRandInt(r *rand.Rand) int {
	switch r.Intn(4) {
	case 0:
		return vbIntPool[r.Intn(len(vbIntPool))]
	case 1:
		return int(r.Uint64())
	case 2:
		return r.Intn(1000)
	}
	return r.Intn(2000001) - 1000000
}

func vbRandInts(r *rand.Rand, n int) []int {
	a := make([]int, n)
	for i := range a {
		a[i] = vbRandInt(r)
	}
	return a
}

// vbRandRec returns a random in-domain record with n fields. Fields that are
// not written (index >= n) hold arbitrary garbage.
func vbRandRec(r *rand.Rand, n int, quote bool) *BED {
	b := &BED{N: n, Chrom: vbRandText(r, quote), ChromStart: vbRandInt(r), ChromEnd: vbRandInt(r), Name: vbRandText(r, quote),
		Score: vbRandInt(r), Strand: vbStrands[r.Intn(4)], ThickStart: vbRandInt(r), ThickEnd: vbRandInt(r)}
	if strings.HasPrefix(b.Chrom, "#") {
		b.Chrom = "c" + b.Chrom[1:]
	}
	for i := range b.ItemRGB {
		switch r.Intn(3) {
		case 0:
			b.ItemRGB[i] = 0
		case 1:
			b.ItemRGB[i] = 255
		default:
			b.ItemRGB[i] = byte(r.Intn(256))
		}
	}
	cnt := r.Intn(4)
	if r.Intn(10) == 0 {
		cnt = 10
	}
	b.BlockCount = cnt
	b.BlockSizes = vbRandInts(r, cnt)
	b.BlockStarts = vbRandInts(r, cnt)
	switch {
	case n <= 9: // block fields unwritten: anything goes
		if r.Intn(2) == 0 {
			b.BlockCount = vbRandInt(r)
			b.BlockStarts = vbRandInts(r, r.Intn(3))
		}
		if n <= 5 && r.Intn(2) == 0 {
			b.Strand = vbRandText(r, quote)
		}
	case n == 10: // count written, lists not
		b.BlockCount = 0
	case n == 11: // sizes written, starts not
		b.BlockCount = 0
		b.BlockSizes = nil
	}
	return b
}

func vbRandRecs(r *rand.Rand, quote bool, maxR int) []*BED {
	n := 3 + r.Intn(10)
	var recs []*BED
	for i, k := 0, r.Intn(maxR+1); i < k; i++ {
		recs = append(recs, vbRandRec(r, n, quote))
	}
	return recs
}

func vbMaxCases(g *vrGen, quick, thorough int) int {
	if g.Thorough() {
		return thorough
	}
	return quick
}

// ---------------------------------------------------------------------------
// C04/roundtrip

func vbBaseRec(n int) *BED {
	b := &BED{N: n, Chrom: "chr1", ChromStart: 100, ChromEnd: 200, Name: "feat", Score: 500, Strand: "+", ThickStart: 110,
		ThickEnd: 190, ItemRGB: [3]byte{255, 0, 7}, BlockCount: 2, BlockSizes: []int{10, 20}, BlockStarts: []int{0, 50}}
	if n == 10 || n == 11 {
		b.BlockCount, b.BlockSizes, b.BlockStarts = 0, nil, nil
	}
	return b
}

func vbGenRoundtrip(g *vrGen) {
	emit := func(b *BED) { g.Case(map[string]any{"record": vbEncRec(b)}) }
	// refusal: N outside 3..12
	for _, n := range []int{-1, 0, 1, 2, 13, 14, 100, -100, math.MaxInt64, math.MinInt64, 1 << 32, 1<<32 + 5} {
		b := vbBaseRec(12)
		b.N = n
		emit(b)
		z := &BED{N: n}
		emit(z)
	}
	sys := []byte{'"', ' ', ',', 0x01, 0x80, 'a', '#', ':', '%'}
	for n := 3; n <= 12; n++ {
		emit(vbBaseRec(n))
		emit(&BED{N: n})
		// printf-verb look-alikes as chrom and as name
		for _, w := range vbPercentTexts {
			b := vbBaseRec(n)
			b.Chrom = w
			emit(b)
			b = vbBaseRec(n)
			b.Name = w
			emit(b)
		}
		vrWords(sys, 2, func(w []byte) bool {
			if len(w) == 0 || w[0] != '#' {
				b := vbBaseRec(n)
				b.Chrom = string(w)
				emit(b)
			}
			b := vbBaseRec(n)
			b.Name = string(w)
			emit(b)
			return true
		})
		for _, v := range vbIntPool {
			for k := 0; k < 7; k++ {
				b := vbBaseRec(n)
				switch k {
				case 0:
					b.ChromStart = v
				case 1:
					b.ChromEnd = v
				case 2:
					b.Score = v
				case 3:
					b.ThickStart = v
				case 4:
					b.ThickEnd = v
				case 5:
					if n == 12 {
						b.BlockSizes = []int{v, 1}
					}
				case 6:
					if n == 12 {
						b.BlockStarts = []int{0, v}
					}
				}
				emit(b)
			}
		}
		for _, s := range vbStrands {
			b := vbBaseRec(n)
			b.Strand = s
			emit(b)
		}
		for m := 0; m < 8; m++ {
			b := vbBaseRec(n)
			for i := 0; i < 3; i++ {
				if m>>i&1 == 1 {
					b.ItemRGB[i] = 255
				} else {
					b.ItemRGB[i] = 0
				}
			}
			emit(b)
		}
		for c := 0; c <= 3; c++ {
			b := vbBaseRec(n)
			if n == 12 || n <= 9 {
				b.BlockCount = c
				b.BlockSizes = make([]int, c)
				b.BlockStarts = make([]int, c)
				for i := 0; i < c; i++ {
					b.BlockSizes[i], b.BlockStarts[i] = i+1, -i
				}
			}
			emit(b)
		}
	}
	// long lines: Name (N = 4 and 12) or Chrom (N = 3) of 4000..200000 bytes
	for _, n := range vbLongLens {
		for _, nf := range []int{4, 12} {
			b := vbBaseRec(nf)
			b.Name = vbRep("feature_", n)
			emit(b)
		}
		b := vbBaseRec(3)
		b.Chrom = vbRep("chrUn_", n)
		emit(b)
	}
	max := vbMaxCases(g, 40000, 200000)
	for i := 0; i < max && !g.Expired(); i++ {
		emit(vbRandRec(g.Rand, 3+g.Rand.Intn(10), g.Rand.Intn(3) == 0))
	}
}

// vbCheckRoundtrip evaluates the round-trip oracle on one in-domain record with 3 <= N <= 12.
func vbCheckRoundtrip(b *BED) (ok bool, obs, exp string) {
	var buf bytes.Buffer
	var werr error
	if p := vrCatch(func() { werr = b.Write(&buf) }); p != nil {
		return false, fmt.Sprintf("Write panics: %v", p), "no panic"
	}
	if werr != nil {
		return false, fmt.Sprintf("Write error: %v", werr), "nil error"
	}
	out := buf.Bytes()
	var mt []byte
	var merr error
	if p := vrCatch(func() { mt, merr = b.MarshalText() }); p != nil {
		return false, fmt.Sprintf("MarshalText panics: %v", p), "no panic"
	}
	if merr != nil || !bytes.Equal(mt, out) {
		return false, fmt.Sprintf("MarshalText = %q, %v", mt, merr), fmt.Sprintf("the bytes of Write: %q", out)
	}
	if bytes.Count(out, []byte{'\n'}) != 1 || out[len(out)-1] != '\n' || bytes.Count(out, []byte{'\t'}) != b.N-1 {
		return false, fmt.Sprintf("written text %q", out), fmt.Sprintf("one line of exactly %d tab-separated fields", b.N)
	}
	want := vbRestrict(b, b.N)
	items, _, capped, p := vbCollect("Reader", bytes.NewReader(out), "", 0, len(out)+20)
	exp = fmt.Sprintf("Reader(%q): exactly the record %s", out, vbRecDesc(want))
	if p != nil {
		return false, fmt.Sprintf("Reader panics: %v", p), exp
	}
	if capped {
		return false, "Reader does not terminate", exp
	}
	if d := vbItemsDiff(items, []vbItem{{B: want}}); d != "" {
		return false, fmt.Sprintf("%s; got %s", d, vbItemsDesc(items)), exp
	}
	return true, "", ""
}

func vbCheckRefusal(b *BED) (ok bool, obs, exp string) {
	exp = fmt.Sprintf("N = %d is outside 3..12: Write and MarshalText return an error and emit nothing", b.N)
	var buf bytes.Buffer
	var err error
	if p := vrCatch(func() { err = b.Write(&buf) }); p != nil {
		return false, fmt.Sprintf("Write panics: %v", p), exp
	}
	if err == nil || buf.Len() != 0 {
		return false, fmt.Sprintf("Write returns %v after emitting %q", err, buf.Bytes()), exp
	}
	var mt []byte
	if p := vrCatch(func() { mt, err = b.MarshalText() }); p != nil {
		return false, fmt.Sprintf("MarshalText panics: %v", p), exp
	}
	if err == nil || len(mt) != 0 {
		return false, fmt.Sprintf("MarshalText returns %q, %v", mt, err), exp
	}
	return true, "", ""
}

func vbRunRoundtrip(in map[string]any) vrResult {
	b := vbDecRec(in["record"])
	if b.N < 3 || b.N > 12 {
		ok, obs, exp := vbCheckRefusal(b)
		return vrResult{OK: ok, Observed: obs, Expected: exp}
	}
	if !vbInDomain(b) {
		return vrResult{OK: true, Trivial: true}
	}
	ok, obs, exp := vbCheckRoundtrip(b)
	if ok {
		return vrResult{OK: true}
	}
	sig := "generic"
	if vbHasDquote(b) {
		if ok2, _, _ := vbCheckRoundtrip(vbDequote(b)); ok2 {
			sig = "bed:dquote-in-text-field"
		}
	}
	if sig == "generic" {
		if ls := vbLongLineSig([]*BED{b}, func(l []*BED) bool { ok, _, _ := vbCheckRoundtrip(l[0]); return ok }); ls != "" {
			sig = ls
		}
	}
	return vrResult{Observed: obs, Expected: exp, Signature: sig}
}

// ---------------------------------------------------------------------------
// C04/file

func vbGenFile(g *vrGen) {
	emit := func(recs []*BED) {
		l := make([]any, len(recs))
		for i, b := range recs {
			l[i] = vbEncRec(b)
		}
		g.Case(map[string]any{"records": l})
	}
	emit(nil)
	for n := 3; n <= 12; n++ {
		emit([]*BED{vbBaseRec(n)})
		emit([]*BED{vbBaseRec(n), {N: n}, vbBaseRec(n)})
	}
	// long lines: a record with a Name of 4000..200000 bytes alone, twice, and
	// between ordinary records (N = 4, 6 and 12); a long Chrom (N = 3)
	for _, n := range vbLongLens {
		for _, nf := range []int{4, 6, 12} {
			long := vbBaseRec(nf)
			long.Name = vbRep("feature_", n)
			emit([]*BED{long})
			emit([]*BED{vbBaseRec(nf), long, vbBaseRec(nf)})
			emit([]*BED{long, long})
		}
		long := vbBaseRec(3)
		long.Chrom = vbRep("chrUn_", n)
		emit([]*BED{vbBaseRec(3), long, vbBaseRec(3)})
	}
	max := vbMaxCases(g, 30000, 150000)
	for i := 0; i < max && !g.Expired(); i++ {
		emit(vbRandRecs(g.Rand, g.Rand.Intn(4) == 0, 5))
	}
}

func vbCheckFile(recs []*BED) (ok bool, obs, exp string) {
	var buf bytes.Buffer
	var want []vbItem
	for _, b := range recs {
		var werr error
		if p := vrCatch(func() { werr = b.Write(&buf) }); p != nil || werr != nil {
			return false, fmt.Sprintf("Write: panic %v, error %v", p, werr), "record written"
		}
		want = append(want, vbItem{B: vbRestrict(b, b.N)})
	}
	data := buf.Bytes()
	items, _, capped, p := vbCollect("Reader", bytes.NewReader(data), "", 0, len(data)+20)
	exp = fmt.Sprintf("Reader(%q): %s", data, vbItemsDesc(want))
	if p != nil {
		return false, fmt.Sprintf("Reader panics: %v", p), exp
	}
	if capped {
		return false, "Reader does not terminate", exp
	}
	if d := vbItemsDiff(items, want); d != "" {
		return false, fmt.Sprintf("%s; got %s", d, vbItemsDesc(items)), exp
	}
	return true, "", ""
}

func vbRunFile(in map[string]any) vrResult {
	var recs []*BED
	for _, e := range vrList(in["records"]) {
		recs = append(recs, vbDecRec(e))
	}
	hasQ := false
	for _, b := range recs {
		if b.N < 3 || b.N > 12 || b.N != recs[0].N || !vbInDomain(b) {
			return vrResult{OK: true, Trivial: true}
		}
		hasQ = hasQ || vbHasDquote(b)
	}
	ok, obs, exp := vbCheckFile(recs)
	if ok {
		return vrResult{OK: true, Trivial: len(recs) == 0}
	}
	sig := "generic"
	if hasQ {
		dq := make([]*BED, len(recs))
		for i, b := range recs {
			dq[i] = vbDequote(b)
		}
		if ok2, _, _ := vbCheckFile(dq); ok2 {
			sig = "bed:dquote-in-text-field"
		}
	}
	if sig == "generic" {
		if ls := vbLongLineSig(recs, func(l []*BED) bool { ok, _, _ := vbCheckFile(l); return ok }); ls != "" {
			sig = ls
		}
	}
	return vrResult{Observed: obs, Expected: exp, Signature: sig}
}

// ---------------------------------------------------------------------------
// C04/marshal-list

// vbCheckMarshalList evaluates the oracle on a list of in-domain records with
// 3 <= N <= 12; the read-back part only if readBack (the records share one N).
func vbCheckMarshalList(recs []*BED, readBack bool) (ok bool, obs, exp string) {
	// 1. every MarshalText call first; the results are kept as returned (not
	// copied, not touched between the calls).
	kept := make([][]byte, len(recs))
	for i, b := range recs {
		var merr error
		if p := vrCatch(func() { kept[i], merr = b.MarshalText() }); p != nil {
			return false, fmt.Sprintf("record %d: MarshalText panics: %v", i, p), "no panic"
		}
		if merr != nil {
			return false, fmt.Sprintf("record %d: MarshalText error: %v", i, merr), "nil error"
		}
	}
	// 2. only now the reference bytes: Write of each record into a fresh buffer
	// (all of them before the first comparison).
	refs := make([][]byte, len(recs))
	for i, b := range recs {
		var buf bytes.Buffer
		var werr error
		if p := vrCatch(func() { werr = b.Write(&buf) }); p != nil {
			return false, fmt.Sprintf("record %d: Write panics: %v", i, p), "no panic"
		}
		if werr != nil {
			return false, fmt.Sprintf("record %d: Write error: %v", i, werr), "nil error"
		}
		refs[i] = buf.Bytes()
	}
	for i := range recs {
		if !bytes.Equal(kept[i], refs[i]) {
			return false, fmt.Sprintf("record %d of %d: the slice MarshalText returned holds %q after the later calls", i, len(recs), kept[i]),
				fmt.Sprintf("the bytes of Write: %q (a MarshalText result is not changed by later MarshalText/Write calls)", refs[i])
		}
	}
	want := make([]vbItem, len(recs))
	for i, b := range recs {
		want[i] = vbItem{B: vbRestrict(b, b.N)}
	}
	check := func(what string, data []byte) (bool, string, string) {
		items, _, capped, p := vbCollect("Reader", bytes.NewReader(data), "", 0, len(data)+20)
		exp := fmt.Sprintf("Reader(%q): %s", data, vbItemsDesc(want))
		if p != nil {
			return false, fmt.Sprintf("%s: Reader panics: %v", what, p), exp
		}
		if capped {
			return false, what + ": Reader does not terminate", exp
		}
		if d := vbItemsDiff(items, want); d != "" {
			return false, fmt.Sprintf("%s: %s; got %s", what, d, vbItemsDesc(items)), exp
		}
		return true, "", ""
	}
	// 3. the kept slices joined read back as the list.
	if readBack {
		if ok, obs, exp := check("joined MarshalText results", bytes.Join(kept, nil)); !ok {
			return false, obs, exp
		}
	}
	// 4. all records written one after another into one shared buffer.
	var shared bytes.Buffer
	for i, b := range recs {
		var werr error
		if p := vrCatch(func() { werr = b.Write(&shared) }); p != nil || werr != nil {
			return false, fmt.Sprintf("record %d: Write to the shared buffer: panic %v, error %v", i, p, werr), "record written"
		}
	}
	if !bytes.Equal(shared.Bytes(), bytes.Join(refs, nil)) {
		return false, fmt.Sprintf("sequential Write calls into one buffer emitted %q", shared.Bytes()),
			fmt.Sprintf("the concatenation of what each Write emits into a fresh buffer: %q", bytes.Join(refs, nil))
	}
	if readBack {
		return check("shared buffer", shared.Bytes())
	}
	return true, "", ""
}

func vbRunMarshalList(in map[string]any) vrResult {
	var recs []*BED
	for _, e := range vrList(in["records"]) {
		recs = append(recs, vbDecRec(e))
	}
	hasQ, sameN := false, true
	for _, b := range recs {
		if b.N < 3 || b.N > 12 || !vbInDomain(b) {
			return vrResult{OK: true, Trivial: true}
		}
		sameN = sameN && b.N == recs[0].N // the statement covers files of records sharing one N
		hasQ = hasQ || vbHasDquote(b)
	}
	ok, obs, exp := vbCheckMarshalList(recs, sameN)
	if ok {
		return vrResult{OK: true, Trivial: len(recs) < 2}
	}
	sig := "generic"
	if hasQ {
		dq := make([]*BED, len(recs))
		for i, b := range recs {
			dq[i] = vbDequote(b)
		}
		if ok2, _, _ := vbCheckMarshalList(dq, sameN); ok2 {
			sig = "bed:dquote-in-text-field"
		}
	}
	return vrResult{Observed: obs, Expected: exp, Signature: sig}
}

// vbWrittenLen: length of the record's line in the independent rendering.
func vbWrittenLen(b *BED) int { return len(strings.Join(vbRenderFields(b), "\t")) + 1 }

// vbMarshalPool: in-domain records with n fields, of pairwise different written
// lengths, whose lines differ from the first byte on (Chrom starts with a
// different letter).
func vbMarshalPool(n int) []*BED {
	var pool []*BED
	add := func(f func(b *BED)) {
		b := vbBaseRec(n)
		f(b)
		b.Chrom = string(rune('a'+len(pool))) + b.Chrom
		pool = append(pool, b)
	}
	add(func(b *BED) {})
	add(func(b *BED) { *b = BED{N: n} })
	add(func(b *BED) { b.Chrom, b.Name, b.Strand = "", "", "" })
	add(func(b *BED) { b.Chrom, b.Name = strings.Repeat("chr ", 40), strings.Repeat("n,\x80", 50) })
	add(func(b *BED) {
		b.ChromStart, b.ChromEnd, b.Score, b.ThickStart, b.ThickEnd = math.MinInt64, math.MaxInt64, -1, math.MinInt64, 1<<32
	})
	add(func(b *BED) {
		b.ChromStart, b.ChromEnd, b.Score, b.ThickStart, b.ThickEnd, b.ItemRGB = 0, 0, 0, 0, 0, [3]byte{}
	})
	add(func(b *BED) {
		if n == 12 || n <= 9 {
			b.BlockCount, b.BlockSizes, b.BlockStarts = 0, nil, nil
		}
		b.Strand = "."
	})
	add(func(b *BED) {
		if n == 12 || n <= 9 {
			b.BlockCount, b.BlockSizes, b.BlockStarts = 3, []int{1, -2, math.MaxInt64}, []int{0, math.MinInt64, 7}
		}
		b.Strand = "-"
	})
	seen := map[int]bool{}
	for _, b := range pool {
		for seen[vbWrittenLen(b)] {
			b.Chrom += "_"
		}
		seen[vbWrittenLen(b)] = true
	}
	return pool
}

func vbGenMarshalList(g *vrGen) {
	complete := true
	emit := func(recs []*BED) bool {
		if g.Expired() {
			complete = false
			return false
		}
		l := make([]any, len(recs))
		for i, b := range recs {
			l[i] = vbEncRec(b)
		}
		g.Case(map[string]any{"records": l})
		return true
	}
	ok := true
	for n := 3; n <= 12; n++ {
		pool := vbMarshalPool(n)
		for _, a := range pool {
			for _, b := range pool {
				ok = ok && emit([]*BED{a, b})
			}
		}
	}
	for n1 := 3; n1 <= 12; n1++ {
		for n2 := 3; n2 <= 12; n2++ {
			if n1 != n2 {
				a, b := vbBaseRec(n1), vbBaseRec(n2)
				a.Chrom, b.Chrom = "a"+a.Chrom, "b"+b.Chrom
				ok = ok && emit([]*BED{a, b})
			}
		}
	}
	up := vbMarshalPool(12)
	sort.SliceStable(up, func(i, j int) bool { return vbWrittenLen(up[i]) < vbWrittenLen(up[j]) })
	down := make([]*BED, len(up))
	for i, b := range up {
		down[len(up)-1-i] = b
	}
	for _, l := range [][]*BED{up, down} {
		for i := 0; i+6 <= len(l); i++ {
			ok = ok && emit(l[i:i+6])
		}
	}
	g.Exhaustive(complete && ok)
	r := g.Rand
	for !g.Expired() {
		quote := r.Intn(4) == 0
		mixed := r.Intn(4) == 0
		n := 3 + r.Intn(10)
		l := make([]*BED, 2+r.Intn(5))
		sizes := map[int]bool{}
		for i := range l {
			for try := 0; ; try++ {
				if mixed {
					n = 3 + r.Intn(10)
				}
				l[i] = vbRandRec(r, n, quote)
				if r.Intn(2) == 0 { // marker byte in front of the line
					l[i].Chrom = string(rune('a'+i)) + l[i].Chrom
				}
				if sz := vbWrittenLen(l[i]); !sizes[sz] || try >= 20 {
					sizes[sz] = true
					break
				}
			}
		}
		emit(l)
	}
}

// ---------------------------------------------------------------------------
// input data generators shared by C06 / C11 / C18

func vbMutate(r *rand.Rand, data []byte) []byte {
	special := []byte{'\t', '\n', '\r', '"', ',', '#', 0x80, ' ', '+', '-', '.', '*', '0', '9', 'x', 0}
	d := append([]byte(nil), data...)
	for k, n := 0, 1+r.Intn(3); k < n; k++ {
		if len(d) == 0 {
			d = append(d, special[r.Intn(len(special))])
			continue
		}
		i := r.Intn(len(d))
		switch r.Intn(6) {
		case 0:
			d[i] = special[r.Intn(len(special))]
		case 1:
			d = append(d[:i], append([]byte{special[r.Intn(len(special))]}, d[i:]...)...)
		case 2:
			d = append(d[:i], d[i+1:]...)
		case 3:
			d = d[:i]
		case 4:
			j := i + r.Intn(8)
			if j > len(d) {
				j = len(d)
			}
			d = append(d[:i], d[j:]...)
		case 5:
			j := i + r.Intn(12)
			if j > len(d) {
				j = len(d)
			}
			d = append(d[:j], append(append([]byte(nil), d[i:j]...), d[j:]...)...)
		}
	}
	return d
}

// vbSoup builds lines of random small fields.
func vbSoup(r *rand.Rand) []byte {
	var b bytes.Buffer
	small := []string{"", "a", "0", "-1", "+5", "x", "*", "+", "-", ".", "\"", "#c", "\"#c\"", "1.5", "9223372036854775808", "\x80",
		"a\"b", "\"q\"", "\"a\"\"b\"", "\"a\tb\"", " ", "1,2", "1,2,3", "0,0,0", "255,255,256", "0x10,010,1", "1,", ",", "2", "3", "00", "-0"}
	nf := 1 + r.Intn(14)
	for l, nl := 0, r.Intn(4); l <= nl; l++ {
		if r.Intn(4) == 0 {
			nf = 1 + r.Intn(14)
		}
		for i := 0; i < nf; i++ {
			if i > 0 {
				b.WriteByte('\t')
			}
			if r.Intn(2) == 0 {
				b.WriteString(small[r.Intn(len(small))])
			} else {
				b.WriteString(strconv.Itoa(r.Intn(4)))
			}
		}
		switch r.Intn(6) {
		case 0:
			b.WriteString("\r\n")
		case 1:
		default:
			b.WriteByte('\n')
		}
	}
	return b.Bytes()
}

func vbRandData(r *rand.Rand, quote bool) []byte {
	switch r.Intn(4) {
	case 0:
		return vbRenderRecs(vbRandRecs(r, quote, 4))
	case 1:
		return vbMutate(r, vbRenderRecs(vbRandRecs(r, quote, 4)))
	case 2:
		return vbSoup(r)
	}
	return vbMutate(r, vbSoup(r))
}

// ---------------------------------------------------------------------------
// C06/chunking

type vbChunkReader struct {
	data        []byte
	pos, i      int
	chunks      []int
	eofWithData bool
}

func (c *vbChunkReader) Read(p []byte) (int, error) {
	if c.pos >= len(c.data) {
		return 0, io.EOF
	}
	if len(p) == 0 {
		return 0, nil
	}
	n := 1
	if len(c.chunks) > 0 {
		n = c.chunks[c.i%len(c.chunks)]
		c.i++
	}
	if n < 1 {
		n = 1
	}
	if n > len(p) {
		n = len(p)
	}
	n = copy(p[:n], c.data[c.pos:])
	c.pos += n
	if c.pos >= len(c.data) && c.eofWithData {
		return n, io.EOF
	}
	return n, nil
}

func vbGenChunking(g *vrGen) {
	emit := func(data []byte, chunks []int, e bool) {
		g.Case(map[string]any{"data": vrB(data), "chunks": vrI(chunks), "eof_with_data": e})
	}
	max := vbMaxCases(g, 20000, 100000)
	n := 0
	for n < max && !g.Expired() {
		data := vbRandData(g.Rand, g.Rand.Intn(3) == 0)
		if len(data) > 400 {
			data = data[:400]
		}
		for _, e := range []bool{false, true} {
			for c := 1; c <= 8; c++ {
				emit(data, []int{c}, e)
				n++
			}
			for i := 1; i < len(data); i++ {
				emit(data, []int{i, len(data)}, e)
				n++
			}
			for k := 0; k < 4; k++ {
				ch := make([]int, 1+g.Rand.Intn(6))
				for j := range ch {
					ch[j] = 1 + g.Rand.Intn(12)
				}
				emit(data, ch, e)
				n++
			}
		}
	}
}

func vbRunChunking(in map[string]any) vrResult {
	data := vrBytes(in["data"])
	chunks := vrInts(in["chunks"])
	e := vrBool(in["eof_with_data"])
	limit := len(data) + 20
	ref, _, capped, p := vbCollect("Reader", bytes.NewReader(data), "", 0, limit)
	if p != nil || capped {
		return vrResult{Observed: fmt.Sprintf("Reader on bytes.Reader: panic %v, capped %v", p, capped), Expected: "terminates without panic"}
	}
	got, _, capped, p := vbCollect("Reader", &vbChunkReader{data: data, chunks: chunks, eofWithData: e}, "", 0, limit)
	exp := fmt.Sprintf("Reader: same as on bytes.Reader: %s", vbItemsDesc(ref))
	if p != nil || capped {
		return vrResult{Observed: fmt.Sprintf("Reader on chunked reader: panic %v, capped %v", p, capped), Expected: exp}
	}
	if d := vbItemsDiff(got, ref); d != "" {
		return vrResult{Observed: fmt.Sprintf("%s; got %s", d, vbItemsDesc(got)), Expected: exp}
	}
	return vrResult{OK: true, Trivial: len(data) == 0}
}

// ---------------------------------------------------------------------------
// C06/crlf

// vbBlankTexts: well-formed LF texts of two records (N = 3, 6, 12) with blank
// lines: leading, between the records, trailing (one and two), everywhere, next
// to a comment line, with and without the final line terminator, and texts of
// blank lines only.
func vbBlankTexts() [][]byte {
	var out [][]byte
	for _, n := range []int{3, 6, 12} {
		b2 := vbBaseRec(n)
		b2.Chrom, b2.Name = "chr2", "other"
		r1 := strings.Join(vbRenderFields(vbBaseRec(n)), "\t") + "\n"
		r2 := strings.Join(vbRenderFields(b2), "\t") + "\n"
		for _, t := range []string{
			r1 + "\n" + r2,
			r1 + r2 + "\n",
			r1 + r2 + "\n\n",
			"\n" + r1 + r2,
			"\n\n" + r1 + "\n\n" + r2 + "\n\n",
			"# comment\n\n" + r1 + "\n# comment\n\n" + r2 + "\n",
			r1 + "\n",
		} {
			out = append(out, []byte(t), []byte(strings.TrimSuffix(t, "\n")))
		}
	}
	for _, t := range []string{"\n", "\n\n", "\n\n\n", "# comment\n\n"} {
		out = append(out, []byte(t), []byte(strings.TrimSuffix(t, "\n")))
	}
	return out
}

// vbInsertBlanks inserts 1..2 extra line terminators (blank lines) at random
// line starts of an LF text (also in front and at the end).
func vbInsertBlanks(r *rand.Rand, data []byte) []byte {
	var out []byte
	blank := func() {
		if r.Intn(3) == 0 {
			out = append(out, "\n\n"[:1+r.Intn(2)]...)
		}
	}
	blank()
	for _, c := range data {
		out = append(out, c)
		if c == '\n' {
			blank()
		}
	}
	return out
}

func vbGenCRLF(g *vrGen) {
	for _, d := range vbBlankTexts() {
		g.Case(map[string]any{"data": vrB(d)})
	}
	max := vbMaxCases(g, 20000, 100000)
	for i := 0; i < max && !g.Expired(); i++ {
		data := vbRenderRecs(vbRandRecs(g.Rand, false, 5))
		if i%3 == 2 {
			data = vbInsertBlanks(g.Rand, data)
		}
		if g.Rand.Intn(4) == 0 && len(data) > 0 {
			data = data[:len(data)-1] // no final line terminator
		}
		g.Case(map[string]any{"data": vrB(data)})
	}
}

func vbRunCRLF(in map[string]any) vrResult {
	data := vrBytes(in["data"])
	if bytes.IndexByte(data, '\r') >= 0 {
		return vrResult{OK: true, Trivial: true}
	}
	crlf := bytes.ReplaceAll(data, []byte("\n"), []byte("\r\n"))
	ref, _, capped, p := vbCollect("Reader", bytes.NewReader(data), "", 0, len(data)+20)
	if p != nil || capped {
		return vrResult{Observed: fmt.Sprintf("Reader on LF data: panic %v, capped %v", p, capped), Expected: "terminates without panic"}
	}
	for _, it := range ref {
		if it.Err != nil {
			return vrResult{OK: true, Trivial: true} // not well-formed
		}
	}
	got, _, capped, p := vbCollect("Reader", bytes.NewReader(crlf), "", 0, len(crlf)+20)
	exp := fmt.Sprintf("Reader: same as with LF: %s", vbItemsDesc(ref))
	obs := ""
	if p != nil || capped {
		obs = fmt.Sprintf("Reader on CRLF data: panic %v, capped %v", p, capped)
	} else if d := vbItemsDiff(got, ref); d != "" {
		obs = fmt.Sprintf("%s; got %s", d, vbItemsDesc(got))
	}
	if obs != "" {
		sig := "generic"
		if bytes.IndexByte(data, '"') >= 0 {
			sig = "bed:dquote-in-text-field"
		}
		return vrResult{Observed: obs, Expected: exp, Signature: sig}
	}
	return vrResult{OK: true, Trivial: len(data) == 0}
}

// ---------------------------------------------------------------------------
// C06/file

func vbGenFileAPI(g *vrGen) {
	g.Case(map[string]any{"data": vrB(nil), "gz": false, "missing": true})
	g.Case(map[string]any{"data": vrB(nil), "gz": true, "missing": true})
	g.Case(map[string]any{"data": vrB(nil), "gz": false, "missing": false})
	g.Case(map[string]any{"data": vrB(nil), "gz": true, "missing": false})
	g.Case(map[string]any{"data": vrS("chr1\t1\t2\n"), "gz": false, "missing": false})
	g.Case(map[string]any{"data": vrS("chr1\t1\t2\n"), "gz": true, "missing": false})
	max := vbMaxCases(g, 3000, 30000)
	for i := 0; i < max && !g.Expired(); i++ {
		data := vbRandData(g.Rand, g.Rand.Intn(3) == 0)
		if g.Rand.Intn(20) == 0 { // a larger file (several buffers)
			var b bytes.Buffer
			n := 3 + g.Rand.Intn(10)
			for b.Len() < 10000 {
				b.Write(vbRenderRecs([]*BED{vbRandRec(g.Rand, n, false)}))
			}
			data = b.Bytes()
		}
		g.Case(map[string]any{"data": vrB(data), "gz": false, "missing": false})
		g.Case(map[string]any{"data": vrB(data), "gz": true, "missing": false})
	}
}

// vbTempFile writes data (gzip-compressed if gz) to a fresh temp dir.
func vbTempFile(data []byte, gz bool) (dir, path string) {
	dir, err := os.MkdirTemp("", "verif-bed-")
	if err != nil {
		panic(fmt.Sprintf("harness: %v", err))
	}
	path = filepath.Join(dir, "x.bed")
	content := data
	if gz {
		path += ".gz"
		var b bytes.Buffer
		zw := gzip.NewWriter(&b)
		zw.Write(data)
		zw.Close()
		content = b.Bytes()
	}
	if err := os.WriteFile(path, content, 0o644); err != nil {
		os.RemoveAll(dir)
		panic(fmt.Sprintf("harness: %v", err))
	}
	return dir, path
}

func vbRunFileAPI(in map[string]any) vrResult {
	data := vrBytes(in["data"])
	gz := vrBool(in["gz"])
	missing := vrBool(in["missing"])
	dir, path := vbTempFile(data, gz)
	defer os.RemoveAll(dir)
	if missing {
		path = filepath.Join(dir, "no-such-dir", filepath.Base(path))
	}
	limit := len(data) + 20
	got, _, capped, p := vbCollect("File", nil, path, 0, limit)
	if missing {
		exp := "File on a path that cannot be opened: exactly one item, a non-nil error"
		if p != nil || capped || len(got) != 1 || got[0].Err == nil {
			return vrResult{Observed: fmt.Sprintf("panic %v, capped %v, %s", p, capped, vbItemsDesc(got)), Expected: exp}
		}
		return vrResult{OK: true}
	}
	ref, _, rc, rp := vbCollect("Reader", bytes.NewReader(data), "", 0, limit)
	if rp != nil || rc {
		return vrResult{Observed: fmt.Sprintf("Reader: panic %v, capped %v", rp, rc), Expected: "terminates without panic"}
	}
	exp := fmt.Sprintf("File(file, gz=%v) == Reader(bytes): %s", gz, vbItemsDesc(ref))
	if p != nil || capped {
		return vrResult{Observed: fmt.Sprintf("File: panic %v, capped %v", p, capped), Expected: exp}
	}
	if d := vbItemsDiff(got, ref); d != "" {
		sig := "generic"
		if len(got) == 0 && len(ref) >= 1 {
			sig = "bed:File-yields-nothing"
		}
		return vrResult{Observed: fmt.Sprintf("%s; got %s", d, vbItemsDesc(got)), Expected: exp, Signature: sig}
	}
	return vrResult{OK: true, Trivial: len(ref) == 0}
}

// ---------------------------------------------------------------------------
// C07/read-fault

var vbErrInjected = errors.New("verif: injected I/O fault")

type vbFaultReader struct {
	data    []byte
	pos     int
	forever bool
	failed  bool
}

func (f *vbFaultReader) Read(p []byte) (int, error) {
	if len(p) == 0 {
		return 0, nil
	}
	if f.pos < len(f.data) {
		n := copy(p, f.data[f.pos:])
		f.pos += n
		return n, nil
	}
	if f.failed && !f.forever {
		return 0, io.EOF
	}
	f.failed = true
	return 0, vbErrInjected
}

func vbGenReadFault(g *vrGen) {
	max := vbMaxCases(g, 30000, 200000)
	n := 0
	for n < max && !g.Expired() {
		recs := vbRandRecs(g.Rand, false, 4)
		if len(recs) == 0 {
			recs = []*BED{vbBaseRec(3 + g.Rand.Intn(10))}
		}
		data := vbRenderRecs(recs)
		if g.Rand.Intn(5) == 0 {
			data = data[:len(data)-1]
		}
		for off := 0; off <= len(data); off++ {
			g.Case(map[string]any{"data": vrB(data), "offset": off, "mode": "once"})
			g.Case(map[string]any{"data": vrB(data), "offset": off, "mode": "forever"})
			n += 2
		}
	}
}

func vbRunReadFault(in map[string]any) vrResult {
	data := vrBytes(in["data"])
	off := vrInt(in["offset"])
	if off < 0 {
		off = 0
	}
	if off > len(data) {
		off = len(data)
	}
	mode := "once"
	if m, ok := in["mode"]; ok {
		mode = vbAnyStr(m)
	}
	if mode != "once" && mode != "forever" {
		panic("harness: bad mode " + mode)
	}
	limit := len(data) + 20
	ref, _, capped, p := vbCollect("Reader", bytes.NewReader(data), "", 0, limit)
	if p != nil || capped {
		return vrResult{Observed: fmt.Sprintf("Reader fault-free: panic %v, capped %v", p, capped), Expected: "terminates without panic"}
	}
	for _, it := range ref {
		if it.Err != nil {
			return vrResult{OK: true, Trivial: true} // not well-formed
		}
	}
	got, _, capped, p := vbCollect("Reader", &vbFaultReader{data: data[:off], forever: mode == "forever"}, "", 0, limit)
	exp := fmt.Sprintf("Reader with a read fault (%s) after %d of %d bytes: leading items of %s, then a non-nil error, then the end", mode, off, len(data), vbItemsDesc(ref))
	if p != nil {
		return vrResult{Observed: fmt.Sprintf("panic: %v", p), Expected: exp}
	}
	sawErr := false
	nrec := 0
	for i, it := range got {
		if it.Err != nil {
			sawErr = true
			continue
		}
		j := nrec
		nrec++
		if j >= len(ref) || vbItemDiff(it, ref[j]) != "" {
			return vrResult{Observed: fmt.Sprintf("item %d is not item %d of the fault-free decode; got %s", i, j, vbItemsDesc(got)), Expected: exp}
		}
	}
	if capped {
		return vrResult{Observed: fmt.Sprintf("does not terminate: more than %d items; first %s", limit, vbItemsDesc(got)), Expected: exp}
	}
	if !sawErr {
		return vrResult{Observed: fmt.Sprintf("no error reported; got %s", vbItemsDesc(got)), Expected: exp}
	}
	return vrResult{OK: true}
}

// ---------------------------------------------------------------------------
// C07/write-fault

type vbFaultWriter struct {
	limit   int
	once    bool
	failed  bool
	written int
}

func (w *vbFaultWriter) Write(p []byte) (int, error) {
	if w.failed && w.once {
		w.written += len(p)
		return len(p), nil
	}
	if w.failed {
		return 0, vbErrInjected
	}
	if w.written+len(p) <= w.limit {
		w.written += len(p)
		return len(p), nil
	}
	n := w.limit - w.written
	w.written += n
	w.failed = true
	return n, vbErrInjected
}

// vbLongFaultRecs: records whose written line is longer than a 4096-byte
// buffer: a Name of 5000 bytes with N = 12, a Chrom of 10000 bytes with N = 3.
func vbLongFaultRecs() []*BED {
	a := vbBaseRec(12)
	a.Name = vbRep("feature_", 5000)
	c := vbBaseRec(3)
	c.Chrom = vbRep("chrUn_", 10000)
	return []*BED{a, c}
}

func vbGenWriteFault(g *vrGen) {
	emit := func(b *BED) int {
		total := len(strings.Join(vbRenderFields(b), "\t")) + 3
		rec := vbEncRec(b)
		for k := 0; k <= total; k++ {
			g.Case(map[string]any{"record": rec, "k": k, "mode": "forever"})
			g.Case(map[string]any{"record": rec, "k": k, "mode": "once"})
		}
		return 2 * (total + 1)
	}
	// long records first (a writer that buffers internally must still report a
	// fault that only its last flush meets): k in the last 4200 bytes of the
	// line .. len+2 (the 5 KB line: every k; the 10 KB line: every 5th k and every
	// k in the last 256 bytes), every 97th k before; mode once: every 5th of
	// these k and the last 4
	for i, b := range vbLongFaultRecs() {
		total := vbWrittenLen(b)
		rec := vbEncRec(b)
		for j, k := 0, 0; k <= total+2 && !g.Expired(); k++ {
			if k < total-4200 && k%97 != 0 {
				continue
			}
			if i > 0 && k >= total-4200 && k < total-256 && k%5 != 0 {
				continue
			}
			g.Case(map[string]any{"record": rec, "k": k, "mode": "forever"})
			if j%5 == 0 || k >= total-1 {
				g.Case(map[string]any{"record": rec, "k": k, "mode": "once"})
			}
			j++
		}
	}
	n := 0
	for nn := 3; nn <= 12; nn++ {
		n += emit(vbBaseRec(nn))
	}
	max := vbMaxCases(g, 30000, 200000)
	for n < max && !g.Expired() {
		n += emit(vbRandRec(g.Rand, 3+g.Rand.Intn(10), g.Rand.Intn(3) == 0))
	}
}

func vbRunWriteFault(in map[string]any) vrResult {
	b := vbDecRec(in["record"])
	k := vrInt(in["k"])
	if k < 0 {
		k = 0
	}
	mode := "forever"
	if m, ok := in["mode"]; ok {
		mode = vbAnyStr(m)
	}
	if b.N < 3 || b.N > 12 {
		return vrResult{OK: true, Trivial: true}
	}
	var full bytes.Buffer
	var err error
	if p := vrCatch(func() { err = b.Write(&full) }); p != nil || err != nil {
		return vrResult{Observed: fmt.Sprintf("Write to bytes.Buffer: panic %v, error %v", p, err), Expected: "nil error"}
	}
	w := &vbFaultWriter{limit: k, once: mode == "once"}
	if p := vrCatch(func() { err = b.Write(w) }); p != nil {
		return vrResult{Observed: fmt.Sprintf("panic: %v", p), Expected: "no panic"}
	}
	wantErr := k < full.Len()
	if (err != nil) != wantErr {
		return vrResult{Observed: fmt.Sprintf("Write of %q to a writer failing (%s) after %d bytes returns %v", full.Bytes(), mode, k, err),
			Expected: fmt.Sprintf("non-nil error iff k < %d (the output length)", full.Len())}
	}
	return vrResult{OK: true}
}

// ---------------------------------------------------------------------------
// C11/total

var vbTotalSeeds = []string{
	"", "\n", "\r\n", "\t", "\"", "\"\n", "#", "#c\t1\t2\n", "a", "a\tb\n", "a\t1\n", "a\t1\t2", "a\t1\t2\n",
	"a\t1\t2\t\t\t\t\t\t\t\t\t\n", "a\t1\t2\t\t\t\t\t\t\t\t\t\t\n",
	"a\t1\t2\tn\t0\t*\n", "a\t1\t2\tn\t0\t+\t1\t2\t0,0,0\t2\t1,2\t3,4\n", "a\t1\t2\tn\t0\t+\t1\t2\t0,0,0\t2\t1,2\t3\n",
	"a\t1\t2\tn\t0\t+\t1\t2\t0,0,0\t2\n", "a\t1\t2\tn\t0\t+\t1\t2\t0,0,0\t0\t\n", "a\t1\t2\tn\t0\t+\t1\t2\t0,0,0\t-1\n",
	"a\t1\t2\tn\t0\t+\t1\t2\t0x10,010,1\n", "a\t1\t2\tn\t0\t+\t1\t2\t256,0,0\n", "a\t1\t2\tn\t0\t+\t1\t2\t1,2\n", "a\t1\t2\tn\t0\t+\t1\t2\t1,2,3,4\n",
	"a\t1\t2\tn\t0\t+\t1\t2\t\t\t\t\n", "a\t1\t2\tn\t0\t+\t1\t2\t\t1\t5,\t6\n", "a\t1\t2\tn\t0\t+\t1\t2\t\t1\t,\t6\n",
	"\"a\"\"b\"\t1\t2\n", "\"#c\"\t1\t2\n", "\"a\tb\"\t1\t2\n", "\"a\nb\"\t1\t2\n", "a\"b\t1\t2\n", "a\t1\t2\t\"n\n",
	"a\t+1\t-0\n", "a\t1\t2\n\nb\t3\t4\n", "a\t1\t2\nb\t3\t4\t5\n", "a\t1\t2\r\n\r\nb\t3\t4\r", "a\t1\t2\r\rx\n",
	"a\t99999999999999999999\t2\n", "\xff\xfe\t0\t1\t\x80\n", "\t0\t1\n", " \t0\t1\n",
}

func vbGenTotal(g *vrGen) {
	for _, s := range vbTotalSeeds {
		g.Case(map[string]any{"data": vrS(s)})
	}
	max := vbMaxCases(g, 60000, 300000)
	for i := 0; i < max && !g.Expired(); i++ {
		g.Case(map[string]any{"data": vrB(vbRandData(g.Rand, g.Rand.Intn(2) == 0))})
	}
}

func vbRunTotal(in map[string]any) vrResult {
	data := vrBytes(in["data"])
	limit := len(data) + 20
	items, _, capped, p := vbCollect("Reader", bytes.NewReader(data), "", 0, limit)
	if p != nil {
		return vrResult{Observed: fmt.Sprintf("Reader panics: %v", p), Expected: "no panic"}
	}
	if capped {
		return vrResult{Observed: fmt.Sprintf("Reader yields more than %d items", limit), Expected: "terminates"}
	}
	for i, it := range items {
		if it.Err == nil && it.B == nil {
			return vrResult{Observed: fmt.Sprintf("item %d: nil record with nil error", i), Expected: "only records and errors"}
		}
	}
	for _, it := range items {
		b := it.B
		if it.Err != nil || !vbClean(b.Chrom) || !vbClean(b.Name) || !vbClean(b.Strand) || strings.HasPrefix(b.Chrom, "#") {
			continue
		}
		var buf bytes.Buffer
		var err error
		p := vrCatch(func() { err = b.Write(&buf) })
		exp := fmt.Sprintf("accepted record %s is a fixed point of Write -> Reader", vbRecDesc(b))
		obs := ""
		if p != nil || err != nil {
			obs = fmt.Sprintf("Write: panic %v, error %v", p, err)
		} else {
			out := buf.Bytes()
			back, _, capped, p := vbCollect("Reader", bytes.NewReader(out), "", 0, len(out)+20)
			if p != nil || capped {
				obs = fmt.Sprintf("re-reading %q: panic %v, capped %v", out, p, capped)
			} else if d := vbItemsDiff(back, []vbItem{{B: b}}); d != "" {
				obs = fmt.Sprintf("re-reading %q: %s; got %s", out, d, vbItemsDesc(back))
			}
		}
		if obs != "" {
			sig := "generic"
			if strings.Contains(b.Chrom, `"`) || strings.Contains(b.Name, `"`) {
				sig = "bed:dquote-in-text-field"
			}
			return vrResult{Observed: obs, Expected: exp, Signature: sig}
		}
	}
	return vrResult{OK: true, Trivial: len(data) == 0}
}

// ---------------------------------------------------------------------------
// C18/stop

func vbGenStop(g *vrGen) {
	max := vbMaxCases(g, 20000, 100000)
	n := 0
	emit := func(data []byte) {
		items, _, _, _ := vbCollect("Reader", bytes.NewReader(data), "", 0, len(data)+20)
		for _, api := range []string{"Reader", "File"} {
			for stop := 1; stop <= len(items)+1; stop++ {
				g.Case(map[string]any{"data": vrB(data), "stop": stop, "api": api})
				n++
			}
		}
	}
	emit([]byte("a\t1\t2\nb\t3\t4\nbad line\nc\t5\t6\n"))
	emit([]byte("a\t1\t2\nb\t3\t4\nc\t5\t6\n"))
	emit([]byte("a\t1\n"))
	emit(nil)
	// failing underlying reader (Reader only; not counted in n): every fault
	// offset x {once, forever} x every stop position
	emitFault := func(data []byte) {
		for off := 0; off <= len(data) && !g.Expired(); off++ {
			for _, forever := range []bool{false, true} {
				items, _, _, _ := vbCollect("Reader", &vbFaultReader{data: data[:off], forever: forever}, "", 0, len(data)+20)
				for stop := 1; stop <= len(items)+1; stop++ {
					g.Case(map[string]any{"data": vrB(data), "stop": stop, "api": "Reader", "fault": off, "forever": forever})
				}
			}
		}
	}
	emitFault([]byte("a\t1\t2\n"))
	emitFault([]byte("a\t1\t2\nb\t3\t4\nc\t5\t6\n"))
	emitFault([]byte("chr1\t100\t200\tfeat\t500\t+\nchr2\t5\t6\tg\t0\t-"))
	emitFault([]byte("a\t1\t2\r\nb\t3\t4\r\n"))
	emitFault([]byte("a\t1\t2\nb\t3\t4\nbad line\n"))
	for n < max && !g.Expired() {
		var data []byte
		switch g.Rand.Intn(3) {
		case 0:
			data = vbRenderRecs(vbRandRecs(g.Rand, false, 6))
		case 1: // valid file with one line corrupted
			parts := bytes.SplitAfter(vbRenderRecs(vbRandRecs(g.Rand, false, 6)), []byte("\n"))
			if len(parts) > 1 {
				parts[g.Rand.Intn(len(parts)-1)] = []byte("oops\tx\ty\n")
			}
			data = bytes.Join(parts, nil)
		default:
			data = vbRandData(g.Rand, g.Rand.Intn(3) == 0)
		}
		if len(data) > 600 {
			data = data[:600]
		}
		if len(data) == 0 {
			continue
		}
		emit(data)
	}
}

func vbRunStop(in map[string]any) vrResult {
	data := vrBytes(in["data"])
	stop := vrInt(in["stop"])
	if stop < 1 {
		stop = 1
	}
	api := vbAnyStr(in["api"])
	what := api
	var r1, r2 io.Reader = bytes.NewReader(data), bytes.NewReader(data)
	if v, ok := in["fault"]; ok && v != nil && vrInt(v) >= 0 {
		// failing underlying reader: delivers data[:fault], then a non-EOF error
		// (once and then io.EOF, or forever); a fresh one for each of the two runs.
		if api != "Reader" {
			panic("harness: fault needs api Reader")
		}
		off := vrInt(v)
		if off > len(data) {
			off = len(data)
		}
		forever := vrBool(in["forever"])
		r1 = &vbFaultReader{data: data[:off], forever: forever}
		r2 = &vbFaultReader{data: data[:off], forever: forever}
		what = fmt.Sprintf("Reader(reader failing after %d of %d bytes, forever=%v)", off, len(data), forever)
	}
	path := ""
	if api == "File" {
		var dir string
		dir, path = vbTempFile(data, false)
		defer os.RemoveAll(dir)
	}
	limit := len(data) + 20
	full, _, capped, p := vbCollect(api, r1, path, 0, limit)
	if p != nil || capped {
		return vrResult{Observed: fmt.Sprintf("uninterrupted %s: panic %v, capped %v", what, p, capped), Expected: "terminates without panic"}
	}
	for i, it := range full {
		if it.Err != nil && i != len(full)-1 {
			return vrResult{Observed: fmt.Sprintf("uninterrupted %s: error item %d is followed by more items: %s", what, i, vbItemsDesc(full)),
				Expected: "an error item is the last item of the iteration"}
		}
	}
	got, extra, _, p := vbCollect(api, r2, path, stop, limit)
	n := stop
	if n > len(full) {
		n = len(full)
	}
	exp := fmt.Sprintf("%s stopped at item %d: no further callback, no panic, items == first %d of %s", what, stop, n, vbItemsDesc(full))
	if p != nil {
		return vrResult{Observed: fmt.Sprintf("panic after %d items (+%d callbacks after the stop): %v", len(got), extra, p), Expected: exp}
	}
	if extra > 0 {
		return vrResult{Observed: fmt.Sprintf("%d callbacks after the consumer stopped", extra), Expected: exp}
	}
	if d := vbItemsDiff(got, full[:n]); d != "" {
		return vrResult{Observed: fmt.Sprintf("%s; got %s", d, vbItemsDesc(got)), Expected: exp}
	}
	return vrResult{OK: true, Trivial: len(full) == 0}
}

// ---------------------------------------------------------------------------
// C04/extern-*: conformance of the ASSUMED standard-library contracts (axioms of
// /verif/specs/00base.spec, models of /verif/govc/extern.go) with the real
// standard library. These clauses do not call the repository; they live here
// because the proofs of C04 rest on these contracts.
//
// Inputs: extern-split {"s":[..],"sep":n}; extern-itoa {"x":n} or {"s":[..]};
// extern-trimsuffix {"s":[..]}; extern-readstring {"pre":bytes,"data":bytes}
// (stream = pre + data, compact form accepted); extern-fprintf
// {"fmt":"..","ops":"..","args":[..]} (ops: one letter per operand, s string,
// b []byte, i int, u byte; args: byte arrays / ints).

func vbxFail(sig, exp, f string, a ...any) vrResult {
	return vrResult{Observed: fmt.Sprintf(f, a...), Expected: exp, Signature: sig}
}

func vbxMax(g *vrGen, quick, thorough int) int { return vbMaxCases(g, quick, thorough) }

// ---- extern-split

var vbxSplitSeps = []byte{'\t', ','}

func vbxGenSplit(g *vrGen) {
	maxLen := 6
	if g.Thorough() {
		maxLen = 8
	}
	for _, c := range vbxSplitSeps {
		vrWords([]byte{c, 'a', 0x00, 0xff}, maxLen, func(w []byte) bool {
			g.Case(map[string]any{"s": vrB(w), "sep": int(c)})
			return true
		})
	}
	g.Exhaustive(true)
	r := g.Rand
	for i, max := 0, vbxMax(g, 6000, 200000); i < max && !g.Expired(); i++ {
		c := byte(r.Intn(256))
		if r.Intn(2) == 0 {
			c = vbxSplitSeps[r.Intn(len(vbxSplitSeps))]
		}
		n := r.Intn(41)
		if r.Intn(8) == 0 {
			n = r.Intn(401)
		}
		g.Case(map[string]any{"s": vrB(vrRandWord(r, []byte{c, c, 'a', 'b', 0x00, 0xff, 0x80, '\n'}, n)), "sep": int(c)})
	}
}

func vbxRunSplit(in map[string]any) vrResult {
	const exp = "every [splitN] axiom of /verif/specs/00base.spec holds for the real strings.Split"
	s := vrStr(in["s"])
	ci := vrInt(in["sep"])
	if ci < 0 || ci > 255 {
		return vrResult{OK: true, Trivial: true}
	}
	c := byte(ci)
	var fields []string
	if p := vrCatch(func() { fields = strings.Split(s, string([]byte{c})) }); p != nil {
		return vbxFail("extern:split", exp, "strings.Split(%q, %q) panics: %v", s, []byte{c}, p)
	}
	fail := func(f string, a ...any) vrResult {
		return vbxFail("extern:split", exp, "strings.Split(%q, %q) = %q: %s", s, []byte{c}, fields, fmt.Sprintf(f, a...))
	}
	// the spec functions, from the real result
	splitN := len(fields)
	splitF := fields
	splitS := make([]int, splitN+1)
	splitE := make([]int, splitN)
	for k := 0; k < splitN; k++ {
		splitE[k] = splitS[k] + len(fields[k])
		splitS[k+1] = splitE[k] + 1
	}
	at := func(j int) int { // s[j]; -1 outside s
		if j < 0 || j >= len(s) {
			return -1
		}
		return int(s[j])
	}
	// (1) splitN >= 1 && splitS(0) == 0 && splitE(splitN-1) == len(s)
	if !(splitN >= 1 && splitS[0] == 0 && splitE[splitN-1] == len(s)) {
		if splitN < 1 {
			return fail("axiom (1): splitN = %d", splitN)
		}
		return fail("axiom (1): splitN = %d, splitS(0) = %d, splitE(splitN-1) = %d, len(s) = %d", splitN, splitS[0], splitE[splitN-1], len(s))
	}
	for k := 0; k < splitN; k++ {
		// (2)
		if !(0 <= splitS[k] && splitS[k] <= splitE[k] && splitE[k] <= len(s) &&
			(!(k < splitN-1) || (splitE[k] < len(s) && at(splitE[k]) == int(c) && splitS[k+1] == splitE[k]+1)) &&
			(!(splitE[k] < len(s)) || k < splitN-1)) {
			return fail("axiom (2): k = %d, splitS(k) = %d, splitE(k) = %d, splitN = %d, len(s) = %d", k, splitS[k], splitE[k], splitN, len(s))
		}
		// (3) splitS(k) <= j < splitE(k) ==> s[j] != c
		for j := splitS[k]; j < splitE[k]; j++ {
			if !(at(j) != int(c)) {
				return fail("axiom (3): k = %d, separator at j = %d inside field [%d, %d)", k, j, splitS[k], splitE[k])
			}
		}
		// (4) len(splitF(k)) == splitE(k) - splitS(k)
		if !(len(splitF[k]) == splitE[k]-splitS[k]) {
			return fail("axiom (4): k = %d, len(splitF(k)) = %d, splitE(k) - splitS(k) = %d", k, len(splitF[k]), splitE[k]-splitS[k])
		}
		// (5) 0 <= j < len(splitF(k)) ==> splitF(k)[j] == s[splitS(k)+j]
		for j := 0; j < len(splitF[k]); j++ {
			if !(int(splitF[k][j]) == at(splitS[k]+j)) {
				return fail("axiom (5): k = %d, j = %d, splitF(k)[j] = %d, s[splitS(k)+j] = %d", k, j, splitF[k][j], at(splitS[k]+j))
			}
		}
	}
	return vrResult{OK: true}
}

// ---- extern-itoa

var vbxUintTexts = []string{"255", "256", "0255", "00255", "0xff", "0xFF", "0x100", "0Xff", "0377", "0400", "0b11111111", "0b100000000", "0o377", "0o400",
	"2_5_5", "0x_ff", "0_377", "1_000", "+255", "-0", "-1", "25 5", "18446744073709551615", "18446744073709551616"}

func vbxGenItoa(g *vrGen) {
	x := func(v int) { g.Case(map[string]any{"x": vbEncInt(v)}) }
	for v := -300; v <= 300; v++ {
		x(v)
	}
	for _, v := range []int{math.MinInt64, math.MinInt64 + 1, math.MaxInt64 - 1, math.MaxInt64} {
		x(v)
	}
	for k, p := 1, 10; k <= 18; k, p = k+1, p*10 {
		for _, v := range []int{p - 1, p, p + 1} {
			x(v)
			x(-v)
		}
	}
	for _, v := range vbIntPool {
		x(v)
	}
	maxLen := 3
	if g.Thorough() {
		maxLen = 4
	}
	vrWords([]byte("012569xbo_-+f "), maxLen, func(w []byte) bool {
		g.Case(map[string]any{"s": vrB(w)})
		return true
	})
	for _, t := range vbxUintTexts {
		g.Case(map[string]any{"s": vrS(t)})
	}
	g.Exhaustive(true)
	for i, max := 0, vbxMax(g, 4000, 200000); i < max && !g.Expired(); i++ {
		x(vbRandInt(g.Rand))
	}
}

func vbxRunItoa(in map[string]any) vrResult {
	const exp = "the itoa / atoi / puint axioms of /verif/specs/00base.spec hold for the real strconv.Itoa, Atoi, ParseUint(s, 0, 8) and %v, %d"
	// puintOK(s) ==> 0 <= puint(s) && puint(s) <= 255
	puintRange := func(s string) (vrResult, bool) {
		u, err := strconv.ParseUint(s, 0, 8)
		if err == nil && !(0 <= u && u <= 255) {
			return vbxFail("extern:itoa", exp, "axiom puintOK(s) ==> 0 <= puint(s) <= 255: ParseUint(%q, 0, 8) = %d, nil", s, u), false
		}
		return vrResult{OK: true, Trivial: err != nil}, true
	}
	if sv, ok := in["s"]; ok && sv != nil {
		r, _ := puintRange(vrStr(sv))
		return r
	}
	x := vrInt(in["x"])
	itoa := strconv.Itoa(x)
	fail := func(f string, a ...any) vrResult {
		return vbxFail("extern:itoa", exp, "x = %d, strconv.Itoa(x) = %q: %s", x, itoa, fmt.Sprintf(f, a...))
	}
	// %v and %d of an int, and of a byte, are rendered as itoa (extern.go, fprintf)
	if got := fmt.Sprintf("%v", x); got != itoa {
		return fail("%%v of the int renders %q", got)
	}
	if got := fmt.Sprintf("%d", x); got != itoa {
		return fail("%%d of the int renders %q", got)
	}
	if 0 <= x && x <= 255 {
		if got := fmt.Sprintf("%v", byte(x)); got != itoa {
			return fail("%%v of the byte renders %q", got)
		}
		if got := fmt.Sprintf("%d", byte(x)); got != itoa {
			return fail("%%d of the byte renders %q", got)
		}
	}
	// atoiOK(itoa(x)) && atoi(itoa(x)) == x
	if v, err := strconv.Atoi(itoa); !(err == nil && v == x) {
		return fail("axiom atoiOK(itoa(x)) && atoi(itoa(x)) == x: Atoi = %d, %v", v, err)
	}
	// [itoa] len(itoa(x)) >= 1
	if !(len(itoa) >= 1) {
		return fail("axiom [itoa] len(itoa(x)) >= 1")
	}
	// [itoa] 0 <= j < len(itoa(x)) ==> itoa(x)[j] == '-' || ('0' <= itoa(x)[j] && itoa(x)[j] <= '9')
	for j := 0; j < len(itoa); j++ {
		if !(itoa[j] == '-' || ('0' <= itoa[j] && itoa[j] <= '9')) {
			return fail("axiom [itoa] digits: byte %d at j = %d", itoa[j], j)
		}
	}
	// puintOK(itoa(x)) ==> 0 <= puint(itoa(x)) <= 255
	if r, ok := puintRange(itoa); !ok {
		return r
	}
	// [puint] 0 <= x && x <= 255 ==> puintOK(itoa(x)) && puint(itoa(x)) == x
	if 0 <= x && x <= 255 {
		if u, err := strconv.ParseUint(itoa, 0, 8); !(err == nil && int(u) == x) {
			return fail("axiom [puint]: ParseUint(itoa(x), 0, 8) = %d, %v", u, err)
		}
	}
	return vrResult{OK: true}
}

// ---- extern-trimsuffix

func vbxGenTrimSuffix(g *vrGen) {
	maxLen := 6
	if g.Thorough() {
		maxLen = 8
	}
	vrWords([]byte{'\n', '\r', 'a', 0x00}, maxLen, func(w []byte) bool {
		g.Case(map[string]any{"s": vrB(w)})
		return true
	})
	g.Exhaustive(true)
	r := g.Rand
	tails := []string{"\n", "\r", "\r\n", "\n\r", "\n\n"}
	for i, max := 0, vbxMax(g, 3000, 100000); i < max && !g.Expired(); i++ {
		w := string(vrRandWord(r, []byte{'\n', '\r', 'a', 0x00, 0xff, '\t'}, r.Intn(61)))
		if r.Intn(2) == 0 {
			w += tails[r.Intn(len(tails))]
		}
		g.Case(map[string]any{"s": vrS(w)})
	}
}

// vbxTrimModel is the model of strings.TrimSuffix(s, suf) for a one-byte suf (extern.go).
func vbxTrimModel(s string, suf byte) string {
	hassuf := len(s) >= 1 && s[len(s)-1] == suf
	if hassuf {
		return s[0 : len(s)-1]
	}
	return s
}

func vbxRunTrimSuffix(in map[string]any) vrResult {
	const exp = "TrimSuffix(s, suf) == s[0:len(s)-1] if len(s) >= 1 && s[len(s)-1] == suf[0], else s (suf = LF, CR)"
	s := vrStr(in["s"])
	for _, suf := range []string{"\n", "\r"} {
		if got, want := strings.TrimSuffix(s, suf), vbxTrimModel(s, suf[0]); !(got == want) {
			return vbxFail("extern:trimsuffix", exp, "strings.TrimSuffix(%q, %q) = %q, the model gives %q", s, suf, got, want)
		}
	}
	if got, want := strings.TrimSuffix(strings.TrimSuffix(s, "\n"), "\r"), vbxTrimModel(vbxTrimModel(s, '\n'), '\r'); !(got == want) {
		return vbxFail("extern:trimsuffix", exp, "TrimSuffix(TrimSuffix(%q, LF), CR) = %q, the model gives %q", s, got, want)
	}
	return vrResult{OK: true}
}

// ---- extern-readstring

func vbxGenReadString(g *vrGen) {
	maxLen := 6
	if g.Thorough() {
		maxLen = 8
	}
	vrWords([]byte{'\n', '\r', 'a', 0x00}, maxLen, func(w []byte) bool {
		g.Case(map[string]any{"pre": vrB(nil), "data": vrB(w)})
		return true
	})
	for _, pat := range []string{"a", "ab\n"} {
		for _, n := range []int{4095, 4096, 4097, 8192, 10000, 70000} {
			for _, tail := range []string{"", "\n", "\nb"} {
				g.Case(map[string]any{"pre": map[string]any{"pat": vrS(pat), "len": n}, "data": vrS(tail)})
			}
		}
	}
	g.Exhaustive(true)
	r := g.Rand
	for i, max := 0, vbxMax(g, 3000, 100000); i < max && !g.Expired(); i++ {
		n := r.Intn(201)
		if r.Intn(64) == 0 {
			n = r.Intn(9001)
		}
		g.Case(map[string]any{"pre": vrB(nil), "data": vrB(vrRandWord(r, []byte{'\n', '\n', '\r', 'a', 'b', 0x00, 0xff, '\t'}, n))})
	}
}

// vbxReadStringCheck reads the stream in through r to its end with
// ReadString('\n') and compares every call with the model; "" if all agree.
func vbxReadStringCheck(r *bufio.Reader, in []byte) string {
	end, pos := len(in), 0
	var all []byte
	for call := 0; ; call++ {
		if call > end+2 {
			return fmt.Sprintf("no io.EOF after %d calls", call)
		}
		var str string
		var err error
		if p := vrCatch(func() { str, err = r.ReadString('\n') }); p != nil {
			return fmt.Sprintf("call %d panics: %v", call, p)
		}
		// the model: e = the position with pos <= e <= end, in[i] != LF for pos <= i < e, e < end ==> in[e] == LF
		e := pos
		for e < end && in[e] != '\n' {
			e++
		}
		found := e < end
		hi := end
		var wantErr error = io.EOF
		if found {
			hi, wantErr = e+1, nil
		}
		if !(str == string(in[pos:hi]) && err == wantErr) {
			return fmt.Sprintf("call %d at position %d returns %s, %v; the model gives in[%d:%d] = %s, %v", call, pos,
				vbxShort(str), err, pos, hi, vbxShort(string(in[pos:hi])), wantErr)
		}
		all = append(all, str...)
		pos = hi
		if !found {
			break
		}
	}
	if !(pos == end && bytes.Equal(all, in)) {
		return fmt.Sprintf("the returned strings do not partition the stream: %d of %d bytes", len(all), end)
	}
	if str, err := r.ReadString('\n'); !(str == "" && err == io.EOF) {
		return fmt.Sprintf("a call after io.EOF returns %s, %v; the model gives \"\", EOF", vbxShort(str), err)
	}
	return ""
}

func vbxShort(s string) string {
	if len(s) > 60 {
		return fmt.Sprintf("%q...(%d bytes)", s[:60], len(s))
	}
	return fmt.Sprintf("%q", s)
}

func vbxRunReadString(in map[string]any) vrResult {
	const exp = "ReadString(LF) returns the bytes up to and including the next LF and nil, or the remaining bytes and io.EOF; successive calls partition the stream"
	data := []byte(vbStr(in["pre"]) + vbStr(in["data"]))
	for _, src := range []struct {
		what string
		r    *bufio.Reader
	}{
		{"bufio.NewReader(bytes.NewReader)", bufio.NewReader(bytes.NewReader(data))},
		{"bufio.NewReader(bytes.NewBuffer)", bufio.NewReader(bytes.NewBuffer(append([]byte(nil), data...)))},
		{"bufio.NewReaderSize(bytes.NewReader, 16)", bufio.NewReaderSize(bytes.NewReader(data), 16)},
	} {
		if obs := vbxReadStringCheck(src.r, data); obs != "" {
			return vbxFail("extern:readstring", exp, "stream %s, %s: %s", vbxShort(string(data)), src.what, obs)
		}
	}
	return vrResult{OK: true, Trivial: len(data) == 0}
}

// ---- extern-fprintf

type vbxFormat struct{ f, ops string }

// vbxFormats: the (format, operand types) pairs of the writers (bed.go,
// fastq.go, fasta.go, sam.go); ops has one letter per operand: s string,
// b []byte, i int, u byte.
var vbxFormats = []vbxFormat{
	{"%v\t%v", "si"}, {"%v\t%v\t%v", "sii"}, {"\t%v", "s"}, {"\t%v", "i"}, {",%v", "i"}, {"%v", "i"}, {"\t%v,%v,%v", "uuu"},
	{"%s\t%d", "si"}, {"@%s\n%s\n+\n%s\n", "bbb"}, {">%s\n", "b"}, {"%s\n", "b"}, {"\t%s", "s"}, {"\t", ""}, {"\n", ""},
	{"%s\t%d\t%s", "sis"},
}

var vbxFmtAlpha = []byte{'%', 'a', '\t', '\n', 0x00, 0xff}
var vbxFmtInts = []int{0, 1, -1, 9, 10, 255, 256, -300, 1000000, math.MaxInt64, math.MinInt64}
var vbxFmtBytes = []int{0, 1, 9, 10, 99, 100, 255}

func vbxGenFprintf(g *vrGen) {
	for _, ft := range vbxFormats {
		wl := 4 - len(ft.ops) // word length of text operands: 3, 2, 1
		if len(ft.ops) == 0 {
			wl = 0
		}
		var words []any
		vrWords(vbxFmtAlpha, wl, func(w []byte) bool {
			words = append(words, vrB(w))
			return true
		})
		pools := make([][]any, len(ft.ops))
		for i := range pools {
			switch ft.ops[i] {
			case 's', 'b':
				pools[i] = words
			case 'i':
				pools[i] = vbEncInts(vbxFmtInts)
			case 'u':
				pools[i] = vbEncInts(vbxFmtBytes)
			}
		}
		args := make([]any, len(pools))
		var rec func(i int)
		rec = func(i int) {
			if i == len(pools) {
				g.Case(map[string]any{"fmt": ft.f, "ops": ft.ops, "args": append([]any{}, args...)})
				return
			}
			for _, v := range pools[i] {
				args[i] = v
				rec(i + 1)
			}
		}
		rec(0)
	}
	g.Exhaustive(true)
	r := g.Rand
	alpha := append(append([]byte{}, vbxFmtAlpha...), 'v', 'd', 's', '!', '(')
	for i, max := 0, vbxMax(g, 4000, 200000); i < max && !g.Expired(); i++ {
		ft := vbxFormats[r.Intn(len(vbxFormats))]
		args := make([]any, len(ft.ops))
		for j := range args {
			switch ft.ops[j] {
			case 's', 'b':
				args[j] = vrB(vrRandWord(r, alpha, r.Intn(13)))
			case 'i':
				args[j] = vbEncInt(vbRandInt(r))
			case 'u':
				args[j] = r.Intn(256)
			}
		}
		g.Case(map[string]any{"fmt": ft.f, "ops": ft.ops, "args": args})
	}
}

// vbxRender builds the expected output without fmt, and the operands to pass
// to Fprintf; ok is false for a (verb, operand type) pair outside the model.
func vbxRender(f, ops string, args []any) (want []byte, operands []any, ok bool) {
	ai := 0
	for i := 0; i < len(f); i++ {
		if f[i] != '%' {
			want = append(want, f[i])
			continue
		}
		i++
		if i >= len(f) {
			return nil, nil, false
		}
		if f[i] == '%' {
			want = append(want, '%')
			continue
		}
		if ai >= len(ops) || ai >= len(args) {
			return nil, nil, false
		}
		verb := f[i]
		switch op := ops[ai]; {
		case op == 's' && (verb == 'v' || verb == 's'):
			t := vrStr(args[ai])
			want = append(want, t...)
			operands = append(operands, t)
		case op == 'b' && verb == 's':
			t := vrBytes(args[ai])
			want = append(want, t...)
			operands = append(operands, t)
		case op == 'i' && (verb == 'v' || verb == 'd'):
			x := vrInt(args[ai])
			want = append(want, strconv.Itoa(x)...)
			operands = append(operands, x)
		case op == 'u' && (verb == 'v' || verb == 'd'):
			x := vrInt(args[ai])
			if x < 0 || x > 255 {
				return nil, nil, false
			}
			want = append(want, strconv.Itoa(x)...)
			operands = append(operands, byte(x))
		default:
			return nil, nil, false
		}
		ai++
	}
	return want, operands, ai == len(ops) && ai == len(args)
}

// vbxCountWriter counts Write calls; failAfter >= 0: the first call accepts
// only failAfter bytes and returns an error.
type vbxCountWriter struct {
	buf       bytes.Buffer
	offered   []byte
	calls     int
	failAfter int
}

func (w *vbxCountWriter) Write(p []byte) (int, error) {
	w.calls++
	w.offered = append(w.offered, p...)
	if w.failAfter >= 0 {
		n := w.failAfter
		if n > len(p) {
			n = len(p)
		}
		w.buf.Write(p[:n])
		return n, vbErrInjected
	}
	w.buf.Write(p)
	return len(p), nil
}

func vbxRunFprintf(in map[string]any) vrResult {
	const exp = "Fprintf writes exactly the literal parts and the renderings (strings and []byte verbatim, ints and bytes as Itoa) in ONE Write call and returns its length and nil; a failing writer makes it return a non-nil error"
	f, ops := vbAnyStr(in["fmt"]), vbAnyStr(in["ops"])
	args := vrList(in["args"])
	want, operands, ok := vbxRender(f, ops, args)
	if !ok {
		return vrResult{OK: true, Trivial: true}
	}
	fail := func(ft string, a ...any) vrResult {
		return vbxFail("extern:fprintf", exp, "Fprintf(w, %q, %#v): %s", f, operands, fmt.Sprintf(ft, a...))
	}
	w := &vbxCountWriter{failAfter: -1}
	var n int
	var err error
	if p := vrCatch(func() { n, err = fmt.Fprintf(w, f, operands...) }); p != nil {
		return fail("panics: %v", p)
	}
	if !(err == nil && n == len(want) && bytes.Equal(w.buf.Bytes(), want) && w.calls == 1) {
		return fail("returns %d, %v after %d Write call(s) with %q; expected %d, nil after 1 Write call with %q", n, err, w.calls, w.buf.Bytes(), len(want), want)
	}
	fw := &vbxCountWriter{failAfter: len(want) / 2}
	if p := vrCatch(func() { n, err = fmt.Fprintf(fw, f, operands...) }); p != nil {
		return fail("failing writer: panics: %v", p)
	}
	if !(err != nil && fw.calls == 1 && bytes.Equal(fw.offered, want)) {
		return fail("failing writer: returns %d, %v after %d Write call(s) offering %q; expected a non-nil error after 1 Write call offering %q", n, err, fw.calls, fw.offered, want)
	}
	return vrResult{OK: true}
}
