package sam

// Replay / bounded harness of package formats/sam (see /verif/replay/README.md).
// Injected through `go test -overlay`; not part of the repository.
//
// Mapping of API functions to clauses:
//   func (Flag) Multiple..Supplementary, (*Flag) SetMultiple..SetSupplementary -> C03/flags
//   func (*SAM) Write, (*SAM) MarshalText, sam.Reader, sam.ReaderHeader          -> C03/record-roundtrip, C03/file
//   func (*SAM) MarshalText x n, then (*SAM) Write x n, sam.Reader, sam.ReaderHeader -> C03/marshal-list {records}
//   func sam.Reader, sam.ReaderHeader (read schedules)                           -> C06/chunking, C06/crlf
//   func sam.File, sam.FileHeader                                                -> C06/file
//   func sam.Reader, sam.ReaderHeader (failing io.Reader)                        -> C07/read-fault
//   func (*SAM) Write (failing io.Writer)                                        -> C07/write-fault
//   func sam.Reader, sam.ReaderHeader (arbitrary bytes)                          -> C11/total, C11/sam-line-isolation
//   func sam.Reader, sam.ReaderHeader, sam.File, sam.FileHeader (early stop)     -> C18/stop
//
// Input encodings: byte strings are JSON arrays of ints; ints beyond 2^53 are
// decimal strings; floats NaN/+Inf/-Inf are strings. A record is
//   {"qname":[..],"flag":n,"rname":[..],"pos":n,"mapq":n,"cigar":[..],"rnext":[..],
//    "pnext":n,"tlen":n,"seq":[..],"qual":[..],"tags":[{"name":[..],"type":"A|i|f|Z|H","value":..}]}
// tag value: A -> byte code, i -> int, f -> float, Z -> byte string, H -> byte string.
// Compact form of a long byte string (accepted for the text fields, Z tag values
// and header lines): {"pat":[..],"len":n} = pat repeated and cut to n bytes.
//
// Signatures: "sam:dquote-in-field" (a '"' in a text field / tag / header is
// needed for the failure: the same case with every '"' replaced by 'q' passes),
// "sam:io-error-swallowed" (C07/read-fault: no error reported / unbounded
// iteration / truncated record delivered under an injected read fault),
// "sam:A-tag-byte-ge-0x80" (C11/total: accepted record with an A tag >= 0x80 is
// not a fixed point), "sam:line-longer-than-4095" / "sam:line-longer-than-65535"
// (C03: the failure needs a line of that length: the same case with every long
// string cut to 256 bytes passes; the second one if it also passes with the
// strings cut to 16000 bytes), "generic" otherwise.

import (
	"bytes"
	"compress/gzip"
	"encoding/hex"
	"errors"
	"fmt"
	"io"
	"math"
	"math/rand"
	"os"
	"path/filepath"
	"sort"
	"strconv"
	"strings"
	"testing"
)

func TestVerif(t *testing.T) { vrMain(t, vsClauses) }

var vsClauses = []vrClause{
	{Prop: "C03", Name: "flags",
		Bound: "exhaustive: all 4096 flag values 0..0xfff x 12 accessors and x 12 setters x {true,false}; plus random 64-bit flag values (high bits set, negative) x all 36 operations",
		Rule:  "getter k == bit k of the SAM spec table; setter k changes exactly bit k",
		Gen:   vsGenFlags, Run: vsRunFlags},
	{Prop: "C03", Name: "record-roundtrip",
		Bound: "systematic: each of the 6 text fields and a Z tag value over all words of length <=2 over {dquote,space,0x01,0x7f,0x80,0xff,a,@,:,%}, the texts %, 50%, %d, %s%s, 100%%, %!, a%vb in each text field, a Z tag value and a tag name, each int field over extreme values, each tag type over its value pool; long lines (SEQ/QUAL, a Z tag, QNAME of 4000, 4096, 5000, 70000, 200000 bytes); then random records (0..8 tags, odd tag names) until the time budget",
		Rule:  "Write ok; MarshalText == Write bytes; one line; tags sorted; Reader/ReaderHeader give back exactly the record",
		Gen:   vsGenRoundtrip, Run: vsRunRoundtrip},
	{Prop: "C03", Name: "file",
		Bound: "fixed files (every pooled header alone and before a record; empty record between records); long lines: a record with SEQ/QUAL or a Z tag of 4000, 4096, 5000, 70000, 200000 bytes alone, twice, and between ordinary lines, a header line of 5000 / 70000 bytes alone, between headers and before a long record; then random files of 0..4 header lines followed by 0..5 records (alphabet with dquote, TABs in headers) until the time budget",
		Rule:  "ReaderHeader: one item per line in order, headers verbatim; Reader: exactly the records",
		Gen:   vsGenFile, Run: vsRunFile},
	{Prop: "C03", Name: "marshal-list",
		Bound: "exhaustive: all ordered pairs of a pool of 14 records of pairwise different written lengths (no tags / every tag type / empty and long text fields / extreme ints); the pool in increasing and decreasing length order (windows of 6); then random lists of 2..6 random records of pairwise different written lengths until the time budget",
		Rule:  "MarshalText is called on every record of the list first and the returned slices are kept untouched; afterwards each kept slice == the bytes Write of that record puts into a fresh buffer (not clobbered by later MarshalText/Write calls); Reader/ReaderHeader over the kept slices joined give back exactly the records in order; Write of all records into one shared buffer emits the concatenation of those bytes and reads back as the same list",
		Gen:   vsGenMarshalList, Run: vsRunMarshalList},
	{Prop: "C06", Name: "chunking",
		Bound: "random well-formed / near-valid / random inputs x {every 2-chunk split, uniform chunk sizes 1..8, random schedules} x eof_with_data",
		Rule:  "items of Reader/ReaderHeader on the chunked stream == items on bytes.Reader",
		Gen:   vsGenChunking, Run: vsRunChunking},
	{Prop: "C06", Name: "crlf",
		Bound: "30 fixed texts of a header and two records with blank lines (leading, between header and records, between records, one or two trailing, everywhere; with and without the final terminator; blank lines only); then random well-formed files (LF), every third with 1..2 blank lines inserted at random line starts, re-terminated with CRLF",
		Rule:  "same items with LF and CRLF (the CRLF text is the LF text with every LF replaced by CRLF, so a blank line becomes CR LF)",
		Gen:   vsGenCRLF, Run: vsRunCRLF},
	{Prop: "C06", Name: "file",
		Bound: "random inputs x {plain, .gz} and a missing path",
		Rule:  "File == Reader and FileHeader == ReaderHeader on the file's bytes; missing path: exactly one item, an error",
		Gen:   vsGenFileAPI, Run: vsRunFileAPI},
	{Prop: "C07", Name: "read-fault",
		Bound: "random well-formed files x every byte offset 0..len x {once, forever}",
		Rule:  "only leading records of the fault-free decode, then a non-nil error, finitely many items",
		Gen:   vsGenReadFault, Run: vsRunReadFault},
	{Prop: "C07", Name: "write-fault",
		Bound: "2 long records (a Z tag of 5000 bytes: a 5 KB line; SEQ/QUAL of 5000 bytes each: a 10 KB line) x k in the last 4200 bytes of the line .. len(output)+1 (5 KB line: every k; 10 KB line: every 5th k and every k in the last 256 bytes) and every 97th k before x {forever; once for every 5th of these k and the last 3}; then random records x every k in 0..len(output)+1 x {forever, once}",
		Rule:  "Write returns non-nil error iff k < len(output)",
		Gen:   vsGenWriteFault, Run: vsRunWriteFault},
	{Prop: "C11", Name: "total",
		Bound: "fixed seed corpus + grammar-aware near-valid mutations of valid files + random field soups, until the time budget",
		Rule:  "no panic, terminates, only records/errors; accepted records (free of TAB/CR/LF) are fixed points of Write->Reader",
		Gen:   vsGenTotal, Run: vsRunTotal},
	{Prop: "C11", Name: "sam-line-isolation",
		Bound: "random valid files x every alignment line x every corruption kind of the table",
		Rule:  "exactly one error item at the corrupted line's position; all other items intact",
		Gen:   vsGenIsolation, Run: vsRunIsolation},
	{Prop: "C18", Name: "stop",
		Bound: "3 fixed inputs and random inputs (valid, with bad lines) x 4 APIs x every stop position 1..N+1; failing underlying reader (Reader and ReaderHeader only): 5 small fixed files (3 well-formed, 1 with a malformed middle line, 1 with a malformed last line) x every fault offset 0..len x {fails once then EOF, fails forever} x every stop position 1..N+1 (N = items of the uninterrupted run of that API with that fault), cut short if the time budget ends first",
		Rule:  "no callback after the consumer stops, no panic, items == prefix of the uninterrupted run; with \"fault\" >= 0 both runs use a fresh reader that delivers data[:fault] and then fails with a non-EOF error (\"forever\": every time, else once and then io.EOF)",
		Gen:   vsGenStop, Run: vsRunStop},
}

// ---------------------------------------------------------------------------
// C03/flags

// SAM specification, section 1.4, FLAG bits. Independent of flag.go constants.
var vsFlagSpec = []struct {
	name string
	bit  uint64
}{
	{"Multiple", 0x1}, {"Each", 0x2}, {"Unmapped", 0x4}, {"Unmapped2", 0x8},
	{"ReverseComplement", 0x10}, {"ReverseComplement2", 0x20}, {"First", 0x40}, {"Last", 0x80},
	{"Secondary", 0x100}, {"NotPassing", 0x200}, {"Duplicate", 0x400}, {"Supplementary", 0x800},
}

var vsGetters = map[string]func(Flag) bool{
	"Multiple": Flag.Multiple, "Each": Flag.Each, "Unmapped": Flag.Unmapped, "Unmapped2": Flag.Unmapped2,
	"ReverseComplement": Flag.ReverseComplement, "ReverseComplement2": Flag.ReverseComplement2,
	"First": Flag.First, "Last": Flag.Last, "Secondary": Flag.Secondary, "NotPassing": Flag.NotPassing,
	"Duplicate": Flag.Duplicate, "Supplementary": Flag.Supplementary,
}

var vsSetters = map[string]func(*Flag, bool){
	"SetMultiple": (*Flag).SetMultiple, "SetEach": (*Flag).SetEach, "SetUnmapped": (*Flag).SetUnmapped,
	"SetUnmapped2": (*Flag).SetUnmapped2, "SetReverseComplement": (*Flag).SetReverseComplement,
	"SetReverseComplement2": (*Flag).SetReverseComplement2, "SetFirst": (*Flag).SetFirst,
	"SetLast": (*Flag).SetLast, "SetSecondary": (*Flag).SetSecondary, "SetNotPassing": (*Flag).SetNotPassing,
	"SetDuplicate": (*Flag).SetDuplicate, "SetSupplementary": (*Flag).SetSupplementary,
}

func vsGenFlags(g *vrGen) {
	all := func(f int) {
		fe := vsEncInt(f)
		for _, e := range vsFlagSpec {
			g.Case(map[string]any{"f": fe, "which": e.name, "value": false})
			g.Case(map[string]any{"f": fe, "which": "Set" + e.name, "value": true})
			g.Case(map[string]any{"f": fe, "which": "Set" + e.name, "value": false})
		}
	}
	for f := 0; f < 4096; f++ {
		all(f)
	}
	g.Exhaustive(true)
	for _, f := range []int{-1, math.MinInt64, math.MaxInt64, 1 << 12, 1 << 62, -4096, ^0xfff, 0x1000 | 0xaaa} {
		all(f)
	}
	n := 200
	if g.Thorough() {
		n = 5000
	}
	for i := 0; i < n && !g.Expired(); i++ {
		all(int(g.Rand.Uint64()))
	}
}

func vsRunFlags(in map[string]any) vrResult {
	f := Flag(vrInt(in["f"]))
	which := vsAnyStr(in["which"])
	value := vrBool(in["value"])
	name := strings.TrimPrefix(which, "Set")
	var bit uint64
	for _, e := range vsFlagSpec {
		if e.name == name {
			bit = e.bit
		}
	}
	if bit == 0 {
		panic("harness: unknown flag operation " + which)
	}
	if get, ok := vsGetters[which]; ok {
		var got bool
		if p := vrCatch(func() { got = get(f) }); p != nil {
			return vrResult{Observed: fmt.Sprintf("panic: %v", p), Expected: "no panic"}
		}
		want := uint64(f)&bit != 0
		if got != want {
			return vrResult{Observed: fmt.Sprintf("Flag(%#x).%s() = %v", uint64(f), which, got),
				Expected: fmt.Sprintf("%v (bit %#x of the SAM spec)", want, bit)}
		}
		return vrResult{OK: true}
	}
	set, ok := vsSetters[which]
	if !ok {
		panic("harness: unknown flag operation " + which)
	}
	h := f
	if p := vrCatch(func() { set(&h, value) }); p != nil {
		return vrResult{Observed: fmt.Sprintf("panic: %v", p), Expected: "no panic"}
	}
	want := uint64(f) &^ bit
	if value {
		want = uint64(f) | bit
	}
	if uint64(h) != want {
		return vrResult{Observed: fmt.Sprintf("Flag(%#x).%s(%v) -> %#x", uint64(f), which, value, uint64(h)),
			Expected: fmt.Sprintf("%#x (only bit %#x changed)", want, bit)}
	}
	return vrResult{OK: true}
}

// ---------------------------------------------------------------------------
// encoding / decoding of inputs

func vsAnyStr(v any) string {
	if s, ok := v.(string); ok {
		return s
	}
	return vrStr(v)
}

// vsStr decodes a byte string: the usual forms of vrStr, or the compact form
// {"pat":[bytes],"len":n} (pat repeated and cut to n bytes).
func vsStr(v any) string {
	m, ok := v.(map[string]any)
	if !ok {
		return vrStr(v)
	}
	pat, n := vrBytes(m["pat"]), vrInt(m["len"])
	if n < 0 || (n > 0 && len(pat) == 0) || n > 1<<26 {
		panic("harness: bad compact string")
	}
	b := make([]byte, n)
	for i := range b {
		b[i] = pat[i%len(pat)]
	}
	return string(b)
}

// vsS encodes a byte string; strings of 512 bytes or more that are a repeated
// pattern of at most 16 bytes get the compact form, so that case files stay small.
func vsS(x string) any {
	if len(x) >= 512 {
	next:
		for p := 1; p <= 16; p++ {
			for i := p; i < len(x); i++ {
				if x[i] != x[i-p] {
					continue next
				}
			}
			return map[string]any{"pat": vrS(x[:p]), "len": len(x)}
		}
	}
	return vrS(x)
}

// vsRep returns pat repeated and cut to n bytes.
func vsRep(pat string, n int) string {
	return vsStr(map[string]any{"pat": pat, "len": n})
}

func vsEncInt(v int) any {
	if v > 1<<53 || v < -(1<<53) {
		return strconv.Itoa(v)
	}
	return v
}

func vsTagNames(s *SAM) []string {
	names := make([]string, 0, len(s.Tags))
	for n := range s.Tags {
		names = append(names, n)
	}
	sort.Strings(names)
	return names
}

func vsEncRec(s *SAM) map[string]any {
	tags := []any{}
	for _, n := range vsTagNames(s) {
		var typ string
		var val any
		switch v := s.Tags[n].(type) {
		case byte:
			typ, val = "A", int(v)
		case int:
			typ, val = "i", vsEncInt(v)
		case float64:
			typ, val = "f", vrF(v)
		case string:
			typ, val = "Z", vsS(v)
		case []byte:
			typ, val = "H", vrB(v)
		default:
			panic(fmt.Sprintf("harness: unsupported tag type %T", v))
		}
		tags = append(tags, map[string]any{"name": vrS(n), "type": typ, "value": val})
	}
	return map[string]any{
		"qname": vsS(s.Qname), "flag": vsEncInt(int(s.Flag)), "rname": vsS(s.Rname),
		"pos": vsEncInt(s.Pos), "mapq": vsEncInt(s.Mapq), "cigar": vsS(s.Cigar), "rnext": vsS(s.Rnext),
		"pnext": vsEncInt(s.Pnext), "tlen": vsEncInt(s.Tlen), "seq": vsS(s.Seq), "qual": vsS(s.Qual),
		"tags": tags,
	}
}

func vsDecRec(v any) *SAM {
	m := vrMap(v)
	s := &SAM{
		Qname: vsStr(m["qname"]), Flag: Flag(vrInt(m["flag"])), Rname: vsStr(m["rname"]),
		Pos: vrInt(m["pos"]), Mapq: vrInt(m["mapq"]), Cigar: vsStr(m["cigar"]), Rnext: vsStr(m["rnext"]),
		Pnext: vrInt(m["pnext"]), Tlen: vrInt(m["tlen"]), Seq: vsStr(m["seq"]), Qual: vsStr(m["qual"]),
		Tags: map[string]any{},
	}
	for _, t := range vrList(m["tags"]) {
		tm := vrMap(t)
		name := vrStr(tm["name"])
		switch typ := vsAnyStr(tm["type"]); typ {
		case "A":
			s.Tags[name] = byte(vrInt(tm["value"]))
		case "i":
			s.Tags[name] = vrInt(tm["value"])
		case "f":
			s.Tags[name] = vrFloat(tm["value"])
		case "Z":
			s.Tags[name] = vsStr(tm["value"])
		case "H":
			b := vrBytes(tm["value"])
			if b == nil {
				b = []byte{}
			}
			s.Tags[name] = b
		default:
			panic("harness: unsupported tag type " + typ)
		}
	}
	return s
}

// A line of a file: a header or a record.
type vsLine struct {
	H *string
	S *SAM
}

func vsEncLines(lines []vsLine) []any {
	r := make([]any, len(lines))
	for i, l := range lines {
		if l.H != nil {
			r[i] = map[string]any{"header": vsS(*l.H)}
		} else {
			r[i] = map[string]any{"record": vsEncRec(l.S)}
		}
	}
	return r
}

func vsDecLines(v any) []vsLine {
	var r []vsLine
	for _, e := range vrList(v) {
		m := vrMap(e)
		if h, ok := m["header"]; ok {
			s := vsStr(h)
			r = append(r, vsLine{H: &s})
		} else {
			r = append(r, vsLine{S: vsDecRec(m["record"])})
		}
	}
	return r
}

// ---------------------------------------------------------------------------
// domain, comparison, description

func vsClean(s string) bool { return !strings.ContainsAny(s, "\t\r\n") }

func vsTextFields(s *SAM) []*string {
	return []*string{&s.Qname, &s.Rname, &s.Cigar, &s.Rnext, &s.Seq, &s.Qual}
}

// vsInDomain: the domain of C03's round trip. strict=true additionally wants
// A tags to be printable characters (the property's supported value range).
func vsInDomain(s *SAM, strict bool) bool {
	for _, p := range vsTextFields(s) {
		if !vsClean(*p) {
			return false
		}
	}
	if strings.HasPrefix(s.Qname, "@") {
		return false
	}
	for n, v := range s.Tags {
		if !vsClean(n) || strings.Contains(n, ":") {
			return false
		}
		switch x := v.(type) {
		case byte:
			if strict && (x < 0x21 || x > 0x7e) {
				return false
			}
			if x == '\t' || x == '\r' || x == '\n' {
				return false
			}
		case string:
			if !vsClean(x) {
				return false
			}
		case int, float64, []byte:
		default:
			return false
		}
	}
	return true
}

func vsHasDquote(s *SAM) bool {
	for _, p := range vsTextFields(s) {
		if strings.Contains(*p, `"`) {
			return true
		}
	}
	for n, v := range s.Tags {
		if strings.Contains(n, `"`) {
			return true
		}
		switch x := v.(type) {
		case byte:
			if x == '"' {
				return true
			}
		case string:
			if strings.Contains(x, `"`) {
				return true
			}
		}
	}
	return false
}

// vsDequote returns a copy of s with every '"' replaced by 'q'.
func vsDequote(s *SAM) *SAM {
	rq := func(x string) string { return strings.ReplaceAll(x, `"`, "q") }
	c := *s
	for _, p := range vsTextFields(&c) {
		*p = rq(*p)
	}
	c.Tags = map[string]any{}
	for _, n := range vsTagNames(s) {
		v := s.Tags[n]
		switch x := v.(type) {
		case byte:
			if x == '"' {
				v = byte('q')
			}
		case string:
			v = rq(x)
		}
		c.Tags[rq(n)] = v
	}
	return &c
}

// vsCut returns a copy of s with every text field and Z tag value longer than
// n bytes cut to n bytes (changed reports whether anything was cut).
func vsCut(s *SAM, n int) (c *SAM, changed bool) {
	cut := func(x string) string {
		if len(x) > n {
			changed = true
			return x[:n]
		}
		return x
	}
	cp := *s
	for _, p := range vsTextFields(&cp) {
		*p = cut(*p)
	}
	cp.Tags = map[string]any{}
	for n, v := range s.Tags {
		if x, ok := v.(string); ok {
			v = cut(x)
		}
		cp.Tags[n] = v
	}
	return &cp, changed
}

// vsCutLines is vsCut on every record, and the same cut on every header line.
func vsCutLines(lines []vsLine, n int) (r []vsLine, changed bool) {
	r = make([]vsLine, len(lines))
	for i, l := range lines {
		if l.H != nil {
			h := *l.H
			if len(h) > n {
				h, changed = h[:n], true
			}
			r[i] = vsLine{H: &h}
			continue
		}
		c, ch := vsCut(l.S, n)
		r[i] = vsLine{S: c}
		changed = changed || ch
	}
	return r, changed
}

// vsLongLineSig classifies a failure of lines: if some rendered line has 4096
// bytes or more and the same case with every long string cut to 256 bytes
// passes, the failure needs the long line ("" otherwise). check evaluates the
// clause's oracle.
func vsLongLineSig(lines []vsLine, check func([]vsLine) bool) string {
	long := false
	for _, ln := range bytes.Split(vsRenderLines(lines), []byte{'\n'}) {
		long = long || len(ln) >= 4096
	}
	if !long {
		return ""
	}
	short, changed := vsCutLines(lines, 256)
	if !changed || !check(short) {
		return ""
	}
	if mid, ch := vsCutLines(lines, 16000); ch && check(mid) {
		return "sam:line-longer-than-65535"
	}
	return "sam:line-longer-than-4095"
}

func vsValDiff(a, b any) bool {
	switch x := a.(type) {
	case byte:
		y, ok := b.(byte)
		return !ok || x != y
	case int:
		y, ok := b.(int)
		return !ok || x != y
	case float64:
		y, ok := b.(float64)
		if !ok {
			return true
		}
		if math.IsNaN(x) && math.IsNaN(y) {
			return false
		}
		return math.Float64bits(x) != math.Float64bits(y)
	case string:
		y, ok := b.(string)
		return !ok || x != y
	case []byte:
		y, ok := b.([]byte)
		return !ok || !bytes.Equal(x, y)
	}
	return true
}

// vsSamDiff returns "" when a and b are identical records.
func vsSamDiff(a, b *SAM) string {
	if a == nil || b == nil {
		if a == b {
			return ""
		}
		return "nil vs non-nil record"
	}
	type fld struct {
		n    string
		x, y any
	}
	for _, f := range []fld{{"Qname", a.Qname, b.Qname}, {"Flag", a.Flag, b.Flag}, {"Rname", a.Rname, b.Rname},
		{"Pos", a.Pos, b.Pos}, {"Mapq", a.Mapq, b.Mapq}, {"Cigar", a.Cigar, b.Cigar}, {"Rnext", a.Rnext, b.Rnext},
		{"Pnext", a.Pnext, b.Pnext}, {"Tlen", a.Tlen, b.Tlen}, {"Seq", a.Seq, b.Seq}, {"Qual", a.Qual, b.Qual}} {
		if f.x != f.y {
			return fmt.Sprintf("%s: %#v vs %#v", f.n, f.x, f.y)
		}
	}
	if len(a.Tags) != len(b.Tags) {
		return fmt.Sprintf("tags: %s vs %s", vsTagsDesc(a), vsTagsDesc(b))
	}
	for n, x := range a.Tags {
		y, ok := b.Tags[n]
		if !ok || vsValDiff(x, y) {
			return fmt.Sprintf("tag %q: %s vs %s", n, vsTagsDesc(a), vsTagsDesc(b))
		}
	}
	return ""
}

func vsTagsDesc(s *SAM) string {
	var sb strings.Builder
	sb.WriteString("{")
	for i, n := range vsTagNames(s) {
		if i > 0 {
			sb.WriteString(", ")
		}
		fmt.Fprintf(&sb, "%q:(%T)%#v", n, s.Tags[n], s.Tags[n])
	}
	sb.WriteString("}")
	return sb.String()
}

func vsRecDesc(s *SAM) string {
	if s == nil {
		return "<nil>"
	}
	return fmt.Sprintf("{%q %d %q %d %d %q %q %d %d %q %q %s}", s.Qname, int(s.Flag), s.Rname, s.Pos, s.Mapq,
		s.Cigar, s.Rnext, s.Pnext, s.Tlen, s.Seq, s.Qual, vsTagsDesc(s))
}

// ---------------------------------------------------------------------------
// running the iterators

type vsItem struct {
	S   *SAM
	H   *string
	Err error
}

func vsSeq(api string, r io.Reader, path string) func(func(vsItem) bool) {
	switch api {
	case "Reader":
		return func(y func(vsItem) bool) {
			Reader(r)(func(s *SAM, e error) bool { return y(vsItem{S: s, Err: e}) })
		}
	case "ReaderHeader":
		return func(y func(vsItem) bool) {
			ReaderHeader(r)(func(sh SAMOrHeader, e error) bool { return y(vsItem{S: sh.S, H: sh.H, Err: e}) })
		}
	case "File":
		return func(y func(vsItem) bool) {
			File(path)(func(s *SAM, e error) bool { return y(vsItem{S: s, Err: e}) })
		}
	case "FileHeader":
		return func(y func(vsItem) bool) {
			FileHeader(path)(func(sh SAMOrHeader, e error) bool { return y(vsItem{S: sh.S, H: sh.H, Err: e}) })
		}
	}
	panic("harness: unknown api " + api)
}

// vsCollect consumes the iterator. stop > 0: the consumer returns false on the
// stop-th item. limit: the consumer gives up (capped) at that many items.
// extra counts callbacks made after the consumer returned false.
func vsCollect(api string, r io.Reader, path string, stop, limit int) (items []vsItem, extra int, capped bool, p any) {
	done := false
	seq := vsSeq(api, r, path)
	p = vrCatch(func() {
		seq(func(it vsItem) bool {
			if done {
				extra++
				return false
			}
			items = append(items, it)
			if stop > 0 && len(items) >= stop {
				done = true
				return false
			}
			if len(items) >= limit {
				done, capped = true, true
				return false
			}
			return true
		})
	})
	return
}

func vsItemDiff(a, b vsItem) string {
	if (a.Err != nil) != (b.Err != nil) {
		return fmt.Sprintf("error %v vs error %v", a.Err, b.Err)
	}
	if a.Err != nil {
		return ""
	}
	if (a.H != nil) != (b.H != nil) {
		return "header vs non-header"
	}
	if a.H != nil && *a.H != *b.H {
		return fmt.Sprintf("header %q vs %q", *a.H, *b.H)
	}
	return vsSamDiff(a.S, b.S)
}

func vsItemsDiff(a, b []vsItem) string {
	for i := 0; i < len(a) && i < len(b); i++ {
		if d := vsItemDiff(a[i], b[i]); d != "" {
			return fmt.Sprintf("item %d: %s", i, d)
		}
	}
	if len(a) != len(b) {
		return fmt.Sprintf("%d items vs %d items", len(a), len(b))
	}
	return ""
}

func vsItemsDesc(items []vsItem) string {
	var sb strings.Builder
	fmt.Fprintf(&sb, "%d items [", len(items))
	for i, it := range items {
		if i >= 6 {
			sb.WriteString(" ...")
			break
		}
		if i > 0 {
			sb.WriteString(" ")
		}
		switch {
		case it.Err != nil:
			fmt.Fprintf(&sb, "err(%v)", it.Err)
		case it.H != nil:
			fmt.Fprintf(&sb, "hdr(%q)", *it.H)
		default:
			sb.WriteString(vsRecDesc(it.S))
		}
	}
	sb.WriteString("]")
	return sb.String()
}

// well-formedness of every item: an error, or exactly one payload.
func vsItemsShape(api string, items []vsItem) string {
	for i, it := range items {
		if it.Err != nil {
			continue
		}
		if api == "Reader" || api == "File" {
			if it.S == nil {
				return fmt.Sprintf("item %d: nil record with nil error", i)
			}
		} else if (it.S == nil) == (it.H == nil) {
			return fmt.Sprintf("item %d: not exactly one of H, S set with nil error", i)
		}
	}
	return ""
}

// ---------------------------------------------------------------------------
// independent renderer (used to build input data, never as an oracle for Write)

func vsRenderFields(s *SAM) []string {
	f := []string{s.Qname, strconv.Itoa(int(s.Flag)), s.Rname, strconv.Itoa(s.Pos), strconv.Itoa(s.Mapq),
		s.Cigar, s.Rnext, strconv.Itoa(s.Pnext), strconv.Itoa(s.Tlen), s.Seq, s.Qual}
	for _, n := range vsTagNames(s) {
		switch v := s.Tags[n].(type) {
		case byte:
			f = append(f, n+":A:"+string([]byte{v}))
		case int:
			f = append(f, n+":i:"+strconv.Itoa(v))
		case float64:
			f = append(f, n+":f:"+strconv.FormatFloat(v, 'g', -1, 64))
		case string:
			f = append(f, n+":Z:"+v)
		case []byte:
			f = append(f, n+":H:"+hex.EncodeToString(v))
		}
	}
	return f
}

func vsRenderLines(lines []vsLine) []byte {
	var b bytes.Buffer
	for _, l := range lines {
		if l.H != nil {
			b.WriteString(*l.H)
		} else {
			b.WriteString(strings.Join(vsRenderFields(l.S), "\t"))
		}
		b.WriteByte('\n')
	}
	return b.Bytes()
}

// ---------------------------------------------------------------------------
// generators of records / files

var vsAlphaQ = []byte{'"', ' ', 0x01, 0x7f, 0x80, 0xff, 'a', 'Z', '0', '@', ':', '*', ',', '#', '\'', '\\', '=', '-', '"', '%'}
var vsAlphaNQ = []byte{' ', 0x01, 0x7f, 0x80, 0xff, 'a', 'Z', '0', '@', ':', '*', ',', '#', '\'', '\\', '=', '-', '%'}
var vsTextPool = []string{"", "*", "=", "read1", "chr1", "10M2I3D", "ACGTN", "IIII#", "r/1", "a b", "50%", "%d", "%s%s", "100%%"}

// vsPercentTexts: texts that a writer using a field as a printf format would mangle.
var vsPercentTexts = []string{"%", "50%", "%d", "%s%s", "100%%", "%!", "a%vb"}
var vsQuotePool = []string{`"`, `""`, `a"b`, `"abc"`, `"a`, `a"`, `" "`}
var vsIntPool = []int{0, 1, -1, 2, 60, 255, 4095, 65535, 1<<31 - 1, -(1 << 31), 1 << 32, math.MaxInt64, math.MinInt64, math.MaxInt64 - 1, -12345}
var vsFloatPool = []float64{0, math.Copysign(0, -1), 1, -1, 1.5, 0.1, -2.5e-3, 1e21, 1e-7, math.NaN(), math.Inf(1), math.Inf(-1),
	math.SmallestNonzeroFloat64, 1e-310, -2.2250738585072009e-308, math.MaxFloat64, -math.MaxFloat64, 2.2250738585072014e-308, 123456789.125}
var vsTagNamePool = []string{"NM", "AS", "XS", "MD", "RG", "XA", "X0", "zz", "NH", "X", "abc", "", "N M", "n!", "\x80\x01", "N", "nm", "9Z"}

func vsRandText(r *rand.Rand, quote bool) string {
	switch k := r.Intn(12); {
	case k < 3:
		return vsTextPool[r.Intn(len(vsTextPool))]
	case k == 3 && quote:
		return vsQuotePool[r.Intn(len(vsQuotePool))]
	}
	alpha := vsAlphaNQ
	if quote {
		alpha = vsAlphaQ
	}
	return string(vrRandWord(r, alpha, r.Intn(6)))
}

func vsRandInt(r *rand.Rand) int {
	switch r.Intn(4) {
	case 0:
		return vsIntPool[r.Intn(len(vsIntPool))]
	case 1:
		return int(r.Uint64())
	case 2:
		return r.Intn(4096)
	}
	return r.Intn(2000001) - 1000000
}

func vsRandFloat(r *rand.Rand) float64 {
	switch r.Intn(3) {
	case 0:
		return vsFloatPool[r.Intn(len(vsFloatPool))]
	case 1:
		return math.Float64frombits(r.Uint64())
	}
	return float64(r.Intn(2001)-1000) / 8
}

func vsRandTagVal(r *rand.Rand, quote bool) any {
	switch r.Intn(5) {
	case 0:
		c := byte(0x21 + r.Intn(0x7e-0x21+1))
		if c == '"' && !quote {
			c = 'A'
		}
		return c
	case 1:
		return vsRandInt(r)
	case 2:
		return vsRandFloat(r)
	case 3:
		return vsRandText(r, quote)
	}
	b := make([]byte, r.Intn(5))
	r.Read(b)
	return b
}

func vsRandRec(r *rand.Rand, quote bool) *SAM {
	s := &SAM{Qname: vsRandText(r, quote), Flag: Flag(vsRandInt(r)), Rname: vsRandText(r, quote), Pos: vsRandInt(r),
		Mapq: vsRandInt(r), Cigar: vsRandText(r, quote), Rnext: vsRandText(r, quote), Pnext: vsRandInt(r),
		Tlen: vsRandInt(r), Seq: vsRandText(r, quote), Qual: vsRandText(r, quote), Tags: map[string]any{}}
	if strings.HasPrefix(s.Qname, "@") {
		s.Qname = "q" + s.Qname[1:]
	}
	n := r.Intn(5)
	if r.Intn(10) == 0 {
		n = 8
	}
	for i := 0; i < n; i++ {
		name := vsTagNamePool[r.Intn(len(vsTagNamePool))]
		if r.Intn(3) == 0 {
			name = string([]byte{byte('A' + r.Intn(26)), byte('0' + r.Intn(10))})
		}
		s.Tags[name] = vsRandTagVal(r, quote)
	}
	return s
}

var vsHeaderPool = []string{"@HD\tVN:1.6\tSO:coordinate", "@SQ\tSN:chr1\tLN:1000", "@CO\tfree text", "@", "@PG\tID:x\tCL:a b c", "@CO\t", "@RG\tID:1\t\tSM:s"}
var vsHeaderQuotePool = []string{"@CO\t\"quoted\"", "@PG\tCL:\"x y\"", "@CO\tsay \"hi\"", "@\"", "@CO\t\""}

func vsRandHeader(r *rand.Rand, quote bool) string {
	switch k := r.Intn(6); {
	case k < 3:
		return vsHeaderPool[r.Intn(len(vsHeaderPool))]
	case k == 3 && quote:
		return vsHeaderQuotePool[r.Intn(len(vsHeaderQuotePool))]
	}
	alpha := append([]byte{'\t', '\t'}, vsAlphaNQ...)
	if quote {
		alpha = append([]byte{'\t', '\t'}, vsAlphaQ...)
	}
	return "@" + string(vrRandWord(r, alpha, r.Intn(10)))
}

func vsRandLines(r *rand.Rand, quote bool, maxH, maxR int) []vsLine {
	var lines []vsLine
	for i, n := 0, r.Intn(maxH+1); i < n; i++ {
		h := vsRandHeader(r, quote)
		lines = append(lines, vsLine{H: &h})
	}
	for i, n := 0, r.Intn(maxR+1); i < n; i++ {
		lines = append(lines, vsLine{S: vsRandRec(r, quote)})
	}
	return lines
}

func vsMaxCases(g *vrGen, quick, thorough int) int {
	if g.Thorough() {
		return thorough
	}
	return quick
}

// ---------------------------------------------------------------------------
// C03/record-roundtrip

func vsBaseRec() *SAM {
	return &SAM{Qname: "read1", Flag: 99, Rname: "chr1", Pos: 100, Mapq: 60, Cigar: "4M", Rnext: "=", Pnext: 200,
		Tlen: 104, Seq: "ACGT", Qual: "IIII", Tags: map[string]any{"NM": 1, "ZZ": "text"}}
}

func vsGenRoundtrip(g *vrGen) {
	emit := func(s *SAM) { g.Case(map[string]any{"record": vsEncRec(s)}) }
	sys := []byte{'"', ' ', 0x01, 0x7f, 0x80, 0xff, 'a', '@', ':', '%'}
	// printf-verb look-alikes in every text field, a Z tag value and a tag name
	for _, w := range vsPercentTexts {
		for fi := 0; fi < 8; fi++ {
			s := vsBaseRec()
			switch {
			case fi < 6:
				*vsTextFields(s)[fi] = w
			case fi == 6:
				s.Tags["ZZ"] = w
			default:
				s.Tags = map[string]any{w: 5}
			}
			emit(s)
		}
	}
	for fi := 0; fi < 7; fi++ {
		vrWords(sys, 2, func(w []byte) bool {
			s := vsBaseRec()
			if fi < 6 {
				*vsTextFields(s)[fi] = string(w)
			} else {
				s.Tags["ZZ"] = string(w)
			}
			if !strings.HasPrefix(s.Qname, "@") {
				emit(s)
			}
			return true
		})
	}
	// all text fields empty, no tags / nil tags
	e := &SAM{}
	emit(e)
	e2 := vsBaseRec()
	for _, p := range vsTextFields(e2) {
		*p = ""
	}
	emit(e2)
	for _, v := range vsIntPool {
		for k := 0; k < 6; k++ {
			s := vsBaseRec()
			switch k {
			case 0:
				s.Flag = Flag(v)
			case 1:
				s.Pos = v
			case 2:
				s.Mapq = v
			case 3:
				s.Pnext = v
			case 4:
				s.Tlen = v
			case 5:
				s.Tags = map[string]any{"XI": v}
			}
			emit(s)
		}
	}
	for _, f := range vsFloatPool {
		s := vsBaseRec()
		s.Tags = map[string]any{"XF": f}
		emit(s)
	}
	for c := 0x21; c <= 0x7e; c++ {
		s := vsBaseRec()
		s.Tags = map[string]any{"XA": byte(c)}
		emit(s)
	}
	for _, h := range [][]byte{{}, {0}, {0xff}, {0x1a, 0xe3, 0x01}, {'"'}, {9, 10, 13}} {
		s := vsBaseRec()
		s.Tags = map[string]any{"XH": h}
		emit(s)
	}
	for _, n := range vsTagNamePool {
		s := vsBaseRec()
		s.Tags = map[string]any{n: 5, "NM": "x"}
		emit(s)
	}
	// long lines: SEQ/QUAL, a Z tag, QNAME of 4000..200000 bytes
	for _, n := range vsLongLens {
		s := vsBaseRec()
		s.Seq, s.Qual = vsRep("ACGT", n), vsRep("I#5?F", n)
		emit(s)
		s = vsBaseRec()
		s.Tags["ZZ"] = vsRep("long tag ", n)
		emit(s)
		s = vsBaseRec()
		s.Qname = vsRep("q", n)
		emit(s)
	}
	max := vsMaxCases(g, 30000, 150000)
	for i := 0; i < max && !g.Expired(); i++ {
		emit(vsRandRec(g.Rand, g.Rand.Intn(3) == 0))
	}
}

// vsLongLens: lengths of the long SEQ/QUAL, Z tag and header strings (around
// the 4096-byte bufio buffer and beyond the 65536-byte bufio.Scanner token limit).
var vsLongLens = []int{4000, 4096, 5000, 70000, 200000}

// vsCheckRoundtrip evaluates the round-trip oracle on one in-domain record.
func vsCheckRoundtrip(s *SAM) (ok bool, obs, exp string) {
	var buf bytes.Buffer
	var werr error
	if p := vrCatch(func() { werr = s.Write(&buf) }); p != nil {
		return false, fmt.Sprintf("Write panics: %v", p), "no panic"
	}
	if werr != nil {
		return false, fmt.Sprintf("Write error: %v", werr), "nil error"
	}
	out := buf.Bytes()
	var mt []byte
	var merr error
	if p := vrCatch(func() { mt, merr = s.MarshalText() }); p != nil {
		return false, fmt.Sprintf("MarshalText panics: %v", p), "no panic"
	}
	if merr != nil || !bytes.Equal(mt, out) {
		return false, fmt.Sprintf("MarshalText = %q, %v", mt, merr), fmt.Sprintf("the bytes of Write: %q", out)
	}
	if bytes.Count(out, []byte{'\n'}) != 1 || out[len(out)-1] != '\n' {
		return false, fmt.Sprintf("written text %q", out), "exactly one line (one LF, at the end)"
	}
	fields := strings.Split(string(out[:len(out)-1]), "\t")
	if len(fields) == 11+len(s.Tags) {
		tags := fields[11:]
		names := make([]string, len(tags))
		for i, t := range tags {
			names[i] = t
			if j := strings.IndexByte(t, ':'); j >= 0 {
				names[i] = t[:j]
			}
		}
		if !sort.StringsAreSorted(tags) && !sort.StringsAreSorted(names) {
			return false, fmt.Sprintf("tags written as %q", tags), "tags in sorted order"
		}
	}
	limit := len(out) + 20
	for _, api := range []string{"Reader", "ReaderHeader"} {
		items, _, capped, p := vsCollect(api, bytes.NewReader(out), "", 0, limit)
		exp := fmt.Sprintf("%s(%q): exactly the record %s", api, out, vsRecDesc(s))
		if p != nil {
			return false, fmt.Sprintf("%s panics: %v", api, p), exp
		}
		if capped {
			return false, api + " does not terminate", exp
		}
		if d := vsItemsDiff(items, []vsItem{{S: s}}); d != "" {
			return false, fmt.Sprintf("%s; got %s", d, vsItemsDesc(items)), exp
		}
	}
	return true, "", ""
}

func vsRunRoundtrip(in map[string]any) vrResult {
	s := vsDecRec(in["record"])
	if !vsInDomain(s, true) {
		return vrResult{OK: true, Trivial: true}
	}
	ok, obs, exp := vsCheckRoundtrip(s)
	if ok {
		return vrResult{OK: true}
	}
	sig := "generic"
	if vsHasDquote(s) {
		if ok2, _, _ := vsCheckRoundtrip(vsDequote(s)); ok2 {
			sig = "sam:dquote-in-field"
		}
	}
	if sig == "generic" {
		if ls := vsLongLineSig([]vsLine{{S: s}}, func(l []vsLine) bool { ok, _, _ := vsCheckRoundtrip(l[0].S); return ok }); ls != "" {
			sig = ls
		}
	}
	return vrResult{Observed: obs, Expected: exp, Signature: sig}
}

// ---------------------------------------------------------------------------
// C03/file

func vsGenFile(g *vrGen) {
	emit := func(lines []vsLine) { g.Case(map[string]any{"lines": vsEncLines(lines)}) }
	emit(nil)
	for _, h := range append(append([]string{}, vsHeaderPool...), vsHeaderQuotePool...) {
		h := h
		emit([]vsLine{{H: &h}})
		emit([]vsLine{{H: &h}, {S: vsBaseRec()}})
	}
	emit([]vsLine{{S: vsBaseRec()}, {S: &SAM{}}, {S: vsBaseRec()}})
	// long lines: SEQ/QUAL or a Z tag of 4000..200000 bytes between ordinary
	// lines; a header line of 5000 / 70000 bytes
	hd := vsHeaderPool[0]
	for _, n := range vsLongLens {
		long := vsBaseRec()
		long.Seq, long.Qual = vsRep("ACGT", n), vsRep("I#5?F", n)
		emit([]vsLine{{S: long}})
		emit([]vsLine{{H: &hd}, {S: vsBaseRec()}, {S: long}, {S: vsBaseRec()}})
		emit([]vsLine{{S: long}, {S: long}})
		tag := vsBaseRec()
		tag.Tags["ZZ"] = vsRep("long tag ", n)
		emit([]vsLine{{H: &hd}, {S: tag}, {S: vsBaseRec()}})
	}
	for _, n := range []int{5000, 70000} {
		lh := "@CO\t" + vsRep("long comment ", n-4)
		emit([]vsLine{{H: &lh}})
		emit([]vsLine{{H: &hd}, {H: &lh}, {H: &hd}, {S: vsBaseRec()}})
		long := vsBaseRec()
		long.Seq, long.Qual = vsRep("ACGT", n), vsRep("I#5?F", n)
		emit([]vsLine{{H: &lh}, {S: long}, {S: vsBaseRec()}})
	}
	max := vsMaxCases(g, 20000, 100000)
	for i := 0; i < max && !g.Expired(); i++ {
		emit(vsRandLines(g.Rand, g.Rand.Intn(3) == 0, 4, 5))
	}
}

func vsLinesInDomain(lines []vsLine) bool {
	seenRec := false
	for _, l := range lines {
		if l.H != nil {
			if seenRec || !strings.HasPrefix(*l.H, "@") || strings.ContainsAny(*l.H, "\r\n") {
				return false
			}
		} else {
			seenRec = true
			if !vsInDomain(l.S, true) {
				return false
			}
		}
	}
	return true
}

func vsCheckFile(lines []vsLine) (ok bool, obs, exp string) {
	var buf bytes.Buffer
	var all, recs []vsItem
	for _, l := range lines {
		if l.H != nil {
			buf.WriteString(*l.H + "\n")
			all = append(all, vsItem{H: l.H})
			continue
		}
		var werr error
		if p := vrCatch(func() { werr = l.S.Write(&buf) }); p != nil || werr != nil {
			return false, fmt.Sprintf("Write: panic %v, error %v", p, werr), "record written"
		}
		all = append(all, vsItem{S: l.S})
		recs = append(recs, vsItem{S: l.S})
	}
	data := buf.Bytes()
	for _, api := range []string{"ReaderHeader", "Reader"} {
		want := all
		if api == "Reader" {
			want = recs
		}
		items, _, capped, p := vsCollect(api, bytes.NewReader(data), "", 0, len(data)+20)
		exp := fmt.Sprintf("%s(%q): %s", api, data, vsItemsDesc(want))
		if p != nil {
			return false, fmt.Sprintf("%s panics: %v", api, p), exp
		}
		if capped {
			return false, api + " does not terminate", exp
		}
		if d := vsItemsDiff(items, want); d != "" {
			return false, fmt.Sprintf("%s; got %s", d, vsItemsDesc(items)), exp
		}
	}
	return true, "", ""
}

func vsLinesHaveDquote(lines []vsLine) bool {
	for _, l := range lines {
		if (l.H != nil && strings.Contains(*l.H, `"`)) || (l.S != nil && vsHasDquote(l.S)) {
			return true
		}
	}
	return false
}

func vsLinesDequote(lines []vsLine) []vsLine {
	r := make([]vsLine, len(lines))
	for i, l := range lines {
		if l.H != nil {
			h := strings.ReplaceAll(*l.H, `"`, "q")
			r[i] = vsLine{H: &h}
		} else {
			r[i] = vsLine{S: vsDequote(l.S)}
		}
	}
	return r
}

func vsRunFile(in map[string]any) vrResult {
	lines := vsDecLines(in["lines"])
	if !vsLinesInDomain(lines) {
		return vrResult{OK: true, Trivial: true}
	}
	ok, obs, exp := vsCheckFile(lines)
	if ok {
		return vrResult{OK: true, Trivial: len(lines) == 0}
	}
	sig := "generic"
	if vsLinesHaveDquote(lines) {
		if ok2, _, _ := vsCheckFile(vsLinesDequote(lines)); ok2 {
			sig = "sam:dquote-in-field"
		}
	}
	if sig == "generic" {
		if ls := vsLongLineSig(lines, func(l []vsLine) bool { ok, _, _ := vsCheckFile(l); return ok }); ls != "" {
			sig = ls
		}
	}
	return vrResult{Observed: obs, Expected: exp, Signature: sig}
}

// ---------------------------------------------------------------------------
// C03/marshal-list

// vsCheckMarshalList evaluates the oracle on a list of in-domain records.
func vsCheckMarshalList(recs []*SAM) (ok bool, obs, exp string) {
	// 1. every MarshalText call first; the results are kept as returned (not
	// copied, not touched between the calls).
	kept := make([][]byte, len(recs))
	for i, s := range recs {
		var merr error
		if p := vrCatch(func() { kept[i], merr = s.MarshalText() }); p != nil {
			return false, fmt.Sprintf("record %d: MarshalText panics: %v", i, p), "no panic"
		}
		if merr != nil {
			return false, fmt.Sprintf("record %d: MarshalText error: %v", i, merr), "nil error"
		}
	}
	// 2. only now the reference bytes: Write of each record into a fresh buffer
	// (all of them before the first comparison).
	refs := make([][]byte, len(recs))
	for i, s := range recs {
		var buf bytes.Buffer
		var werr error
		if p := vrCatch(func() { werr = s.Write(&buf) }); p != nil {
			return false, fmt.Sprintf("record %d: Write panics: %v", i, p), "no panic"
		}
		if werr != nil {
			return false, fmt.Sprintf("record %d: Write error: %v", i, werr), "nil error"
		}
		refs[i] = buf.Bytes()
	}
	for i := range recs {
		if !bytes.Equal(kept[i], refs[i]) {
			return false, fmt.Sprintf("record %d of %d: the slice MarshalText returned holds %q after the later calls", i, len(recs), kept[i]),
				fmt.Sprintf("the bytes of Write: %q (a MarshalText result is not changed by later MarshalText/Write calls)", refs[i])
		}
	}
	want := make([]vsItem, len(recs))
	for i, s := range recs {
		want[i] = vsItem{S: s}
	}
	readBack := func(what string, data []byte) (bool, string, string) {
		for _, api := range []string{"Reader", "ReaderHeader"} {
			items, _, capped, p := vsCollect(api, bytes.NewReader(data), "", 0, len(data)+20)
			exp := fmt.Sprintf("%s(%q): %s", api, data, vsItemsDesc(want))
			if p != nil {
				return false, fmt.Sprintf("%s: %s panics: %v", what, api, p), exp
			}
			if capped {
				return false, what + ": " + api + " does not terminate", exp
			}
			if d := vsItemsDiff(items, want); d != "" {
				return false, fmt.Sprintf("%s: %s; got %s", what, d, vsItemsDesc(items)), exp
			}
		}
		return true, "", ""
	}
	// 3. the kept slices joined read back as the list.
	if ok, obs, exp := readBack("joined MarshalText results", bytes.Join(kept, nil)); !ok {
		return false, obs, exp
	}
	// 4. all records written one after another into one shared buffer.
	var shared bytes.Buffer
	for i, s := range recs {
		var werr error
		if p := vrCatch(func() { werr = s.Write(&shared) }); p != nil || werr != nil {
			return false, fmt.Sprintf("record %d: Write to the shared buffer: panic %v, error %v", i, p, werr), "record written"
		}
	}
	if !bytes.Equal(shared.Bytes(), bytes.Join(refs, nil)) {
		return false, fmt.Sprintf("sequential Write calls into one buffer emitted %q", shared.Bytes()),
			fmt.Sprintf("the concatenation of what each Write emits into a fresh buffer: %q", bytes.Join(refs, nil))
	}
	return readBack("shared buffer", shared.Bytes())
}

func vsRunMarshalList(in map[string]any) vrResult {
	var recs []*SAM
	hasQ := false
	for _, e := range vrList(in["records"]) {
		s := vsDecRec(e)
		if !vsInDomain(s, true) {
			return vrResult{OK: true, Trivial: true}
		}
		hasQ = hasQ || vsHasDquote(s)
		recs = append(recs, s)
	}
	ok, obs, exp := vsCheckMarshalList(recs)
	if ok {
		return vrResult{OK: true, Trivial: len(recs) < 2}
	}
	sig := "generic"
	if hasQ {
		dq := make([]*SAM, len(recs))
		for i, s := range recs {
			dq[i] = vsDequote(s)
		}
		if ok2, _, _ := vsCheckMarshalList(dq); ok2 {
			sig = "sam:dquote-in-field"
		}
	}
	return vrResult{Observed: obs, Expected: exp, Signature: sig}
}

// vsWrittenLen: length of the record's line in the independent rendering.
func vsWrittenLen(s *SAM) int { return len(strings.Join(vsRenderFields(s), "\t")) + 1 }

// vsMarshalPool: in-domain records of pairwise different written lengths whose
// lines differ from the first byte on (Qname starts with a different letter).
func vsMarshalPool() []*SAM {
	var pool []*SAM
	add := func(f func(s *SAM)) {
		s := vsBaseRec()
		f(s)
		s.Qname = string(rune('a'+len(pool))) + s.Qname
		pool = append(pool, s)
	}
	add(func(s *SAM) {})
	add(func(s *SAM) { s.Tags = nil })
	add(func(s *SAM) { *s = SAM{} })
	add(func(s *SAM) {
		for _, p := range vsTextFields(s) {
			*p = ""
		}
	})
	add(func(s *SAM) { s.Seq, s.Qual = strings.Repeat("ACGTN", 60), strings.Repeat("I#5~!", 60) })
	add(func(s *SAM) { s.Tags = map[string]any{"XA": byte('!')} })
	add(func(s *SAM) { s.Tags = map[string]any{"XI": math.MinInt64, "NM": 0} })
	add(func(s *SAM) { s.Tags = map[string]any{"XF": -2.5e-3} })
	add(func(s *SAM) { s.Tags = map[string]any{"XZ": "", "XY": "a b \x80"} })
	add(func(s *SAM) { s.Tags = map[string]any{"XH": []byte{0x1a, 0xe3, 0x01}, "XG": []byte{}} })
	add(func(s *SAM) { s.Flag, s.Pos, s.Mapq, s.Pnext, s.Tlen = 4095, math.MaxInt64, 255, math.MinInt64, -12345 })
	add(func(s *SAM) { s.Flag, s.Pos, s.Mapq, s.Pnext, s.Tlen = 0, 0, 0, 0, 0 })
	add(func(s *SAM) { s.Rname, s.Cigar, s.Rnext = "*", "*", "*" })
	add(func(s *SAM) {
		s.Tags = map[string]any{"NM": 3, "AS": -7, "XS": 1.5, "MD": "10A5^AC6", "RG": "grp 1", "XA": byte('~'), "X0": []byte{0xff}, "zz": "z"}
	})
	seen := map[int]bool{}
	for _, s := range pool {
		for seen[vsWrittenLen(s)] {
			s.Qname += "_"
		}
		seen[vsWrittenLen(s)] = true
	}
	return pool
}

func vsGenMarshalList(g *vrGen) {
	complete := true
	emit := func(recs []*SAM) bool {
		if g.Expired() {
			complete = false
			return false
		}
		l := make([]any, len(recs))
		for i, s := range recs {
			l[i] = vsEncRec(s)
		}
		g.Case(map[string]any{"records": l})
		return true
	}
	pool := vsMarshalPool()
	ok := true
	for _, a := range pool {
		for _, b := range pool {
			ok = ok && emit([]*SAM{a, b})
		}
	}
	up := append([]*SAM{}, pool...)
	sort.SliceStable(up, func(i, j int) bool { return vsWrittenLen(up[i]) < vsWrittenLen(up[j]) })
	down := make([]*SAM, len(up))
	for i, s := range up {
		down[len(up)-1-i] = s
	}
	for _, l := range [][]*SAM{up, down} {
		for i := 0; i+6 <= len(l); i++ {
			ok = ok && emit(l[i:i+6])
		}
	}
	g.Exhaustive(complete && ok)
	r := g.Rand
	for !g.Expired() {
		quote := r.Intn(3) == 0
		l := make([]*SAM, 2+r.Intn(5))
		sizes := map[int]bool{}
		for i := range l {
			for try := 0; ; try++ {
				l[i] = vsRandRec(r, quote)
				if r.Intn(2) == 0 { // marker byte in front of the line
					l[i].Qname = string(rune('a'+i)) + l[i].Qname
				}
				if sz := vsWrittenLen(l[i]); !sizes[sz] || try >= 20 {
					sizes[sz] = true
					break
				}
			}
		}
		emit(l)
	}
}

// ---------------------------------------------------------------------------
// input data generators shared by C06 / C11 / C18

// vsMutate applies a few grammar-aware byte edits to data.
func vsMutate(r *rand.Rand, data []byte) []byte {
	special := []byte{'\t', '\n', '\r', '"', ':', '@', 0x80, ' ', 'A', 'i', 'f', 'Z', 'H', 'B', '0', '-', 'x', 0}
	d := append([]byte(nil), data...)
	for k, n := 0, 1+r.Intn(3); k < n; k++ {
		if len(d) == 0 {
			d = append(d, special[r.Intn(len(special))])
			continue
		}
		i := r.Intn(len(d))
		switch r.Intn(6) {
		case 0: // replace
			d[i] = special[r.Intn(len(special))]
		case 1: // insert
			d = append(d[:i], append([]byte{special[r.Intn(len(special))]}, d[i:]...)...)
		case 2: // delete a byte
			d = append(d[:i], d[i+1:]...)
		case 3: // truncate
			d = d[:i]
		case 4: // delete a run
			j := i + r.Intn(8)
			if j > len(d) {
				j = len(d)
			}
			d = append(d[:i], d[j:]...)
		case 5: // duplicate a run
			j := i + r.Intn(12)
			if j > len(d) {
				j = len(d)
			}
			d = append(d[:j], append(append([]byte(nil), d[i:j]...), d[j:]...)...)
		}
	}
	return d
}

// vsSoup builds lines of random small fields (tag-like fields after column 11).
func vsSoup(r *rand.Rand) []byte {
	var b bytes.Buffer
	small := []string{"", "a", "0", "-1", "x", "*", "\"", "@x", "1.5", "9223372036854775808", "\x80", "a\"b", "\"q\"", " "}
	types := []string{"A", "i", "f", "Z", "H", "B", "Q", "", "ii"}
	vals := []string{"", "a", "ab", "1", "-7", "1.5", "nan", "inf", "0x1p-2", "zz", "0a", "0A1", "\x80", "\xc2\x80", "\"", "1,2", "c,1,2"}
	for l, nl := 0, r.Intn(4); l <= nl; l++ {
		nf := 8 + r.Intn(8)
		for i := 0; i < nf; i++ {
			if i > 0 {
				b.WriteByte('\t')
			}
			switch {
			case i >= 11 && r.Intn(8) != 0:
				n := vsTagNamePool[r.Intn(len(vsTagNamePool))]
				if r.Intn(10) == 0 {
					b.WriteString(n)
				} else if r.Intn(10) == 0 {
					b.WriteString(n + ":" + types[r.Intn(len(types))])
				} else {
					b.WriteString(n + ":" + types[r.Intn(len(types))] + ":" + vals[r.Intn(len(vals))])
				}
			case r.Intn(3) == 0:
				b.WriteString(small[r.Intn(len(small))])
			default:
				b.WriteString(strconv.Itoa(r.Intn(100)))
			}
		}
		switch r.Intn(6) {
		case 0:
			b.WriteString("\r\n")
		case 1:
		default:
			b.WriteByte('\n')
		}
	}
	return b.Bytes()
}

// vsRandData returns input bytes: valid files, near-valid mutations, soups.
func vsRandData(r *rand.Rand, quote bool) []byte {
	switch r.Intn(4) {
	case 0:
		return vsRenderLines(vsRandLines(r, quote, 2, 3))
	case 1:
		return vsMutate(r, vsRenderLines(vsRandLines(r, quote, 2, 3)))
	case 2:
		return vsSoup(r)
	}
	return vsMutate(r, vsSoup(r))
}

// ---------------------------------------------------------------------------
// C06/chunking

type vsChunkReader struct {
	data        []byte
	pos, i      int
	chunks      []int
	eofWithData bool
}

func (c *vsChunkReader) Read(p []byte) (int, error) {
	if c.pos >= len(c.data) {
		return 0, io.EOF
	}
	if len(p) == 0 {
		return 0, nil
	}
	n := 1
	if len(c.chunks) > 0 {
		n = c.chunks[c.i%len(c.chunks)]
		c.i++
	}
	if n < 1 {
		n = 1
	}
	if n > len(p) {
		n = len(p)
	}
	n = copy(p[:n], c.data[c.pos:])
	c.pos += n
	if c.pos >= len(c.data) && c.eofWithData {
		return n, io.EOF
	}
	return n, nil
}

func vsGenChunking(g *vrGen) {
	emit := func(data []byte, chunks []int, e bool) {
		g.Case(map[string]any{"data": vrB(data), "chunks": vrI(chunks), "eof_with_data": e})
	}
	max := vsMaxCases(g, 20000, 100000)
	n := 0
	for n < max && !g.Expired() {
		data := vsRandData(g.Rand, g.Rand.Intn(3) == 0)
		if len(data) > 400 {
			data = data[:400]
		}
		for _, e := range []bool{false, true} {
			for c := 1; c <= 8; c++ {
				emit(data, []int{c}, e)
				n++
			}
			for i := 1; i < len(data); i++ {
				emit(data, []int{i, len(data)}, e)
				n++
			}
			for k := 0; k < 4; k++ {
				ch := make([]int, 1+g.Rand.Intn(6))
				for j := range ch {
					ch[j] = 1 + g.Rand.Intn(12)
				}
				emit(data, ch, e)
				n++
			}
		}
	}
}

func vsRunChunking(in map[string]any) vrResult {
	data := vrBytes(in["data"])
	chunks := vrInts(in["chunks"])
	e := vrBool(in["eof_with_data"])
	limit := len(data) + 20
	for _, api := range []string{"Reader", "ReaderHeader"} {
		ref, _, capped, p := vsCollect(api, bytes.NewReader(data), "", 0, limit)
		if p != nil || capped {
			return vrResult{Observed: fmt.Sprintf("%s on bytes.Reader: panic %v, capped %v", api, p, capped), Expected: "terminates without panic"}
		}
		got, _, capped, p := vsCollect(api, &vsChunkReader{data: data, chunks: chunks, eofWithData: e}, "", 0, limit)
		exp := fmt.Sprintf("%s: same as on bytes.Reader: %s", api, vsItemsDesc(ref))
		if p != nil || capped {
			return vrResult{Observed: fmt.Sprintf("%s on chunked reader: panic %v, capped %v", api, p, capped), Expected: exp}
		}
		if d := vsItemsDiff(got, ref); d != "" {
			return vrResult{Observed: fmt.Sprintf("%s; got %s", d, vsItemsDesc(got)), Expected: exp}
		}
	}
	return vrResult{OK: true, Trivial: len(data) == 0}
}

// ---------------------------------------------------------------------------
// C06/crlf

// vsBlankTexts: well-formed LF texts with blank lines: leading, between the
// header and the records, between records, trailing (one and two), everywhere,
// with and without the final line terminator, and texts of blank lines only.
func vsBlankTexts() [][]byte {
	h := "@HD\tVN:1.6\n"
	s2 := vsBaseRec()
	s2.Qname, s2.Tags = "read2", map[string]any{}
	r1 := strings.Join(vsRenderFields(vsBaseRec()), "\t") + "\n"
	r2 := strings.Join(vsRenderFields(s2), "\t") + "\n"
	var out [][]byte
	for _, t := range []string{
		h + "\n" + r1 + r2,
		h + r1 + "\n" + r2,
		h + r1 + r2 + "\n",
		h + r1 + r2 + "\n\n",
		"\n" + h + r1 + r2,
		"\n\n" + r1,
		h + "\n" + h + r1,
		h + "\n\n" + r1 + "\n\n" + r2 + "\n\n",
		"\n" + h + "\n" + r1 + "\n" + r2 + "\n",
		r1 + "\n" + r2,
		r1 + "\n",
		h + "\n",
		"\n", "\n\n", "\n\n\n",
	} {
		out = append(out, []byte(t), []byte(strings.TrimSuffix(t, "\n")))
	}
	return out
}

// vsInsertBlanks inserts 1..2 extra line terminators (blank lines) at random
// line starts of an LF text (also in front and at the end).
func vsInsertBlanks(r *rand.Rand, data []byte) []byte {
	var out []byte
	blank := func() {
		if r.Intn(3) == 0 {
			out = append(out, "\n\n"[:1+r.Intn(2)]...)
		}
	}
	blank()
	for _, c := range data {
		out = append(out, c)
		if c == '\n' {
			blank()
		}
	}
	return out
}

func vsGenCRLF(g *vrGen) {
	for _, d := range vsBlankTexts() {
		g.Case(map[string]any{"data": vrB(d)})
	}
	max := vsMaxCases(g, 20000, 100000)
	for i := 0; i < max && !g.Expired(); i++ {
		data := vsRenderLines(vsRandLines(g.Rand, g.Rand.Intn(4) == 0, 3, 4))
		if i%3 == 2 {
			data = vsInsertBlanks(g.Rand, data)
		}
		if g.Rand.Intn(4) == 0 && len(data) > 0 {
			data = data[:len(data)-1] // no final line terminator
		}
		g.Case(map[string]any{"data": vrB(data)})
	}
}

func vsRunCRLF(in map[string]any) vrResult {
	data := vrBytes(in["data"])
	if bytes.IndexByte(data, '\r') >= 0 {
		return vrResult{OK: true, Trivial: true}
	}
	crlf := bytes.ReplaceAll(data, []byte("\n"), []byte("\r\n"))
	for _, api := range []string{"Reader", "ReaderHeader"} {
		ref, _, capped, p := vsCollect(api, bytes.NewReader(data), "", 0, len(data)+20)
		if p != nil || capped {
			return vrResult{Observed: fmt.Sprintf("%s on LF data: panic %v, capped %v", api, p, capped), Expected: "terminates without panic"}
		}
		for _, it := range ref {
			if it.Err != nil {
				return vrResult{OK: true, Trivial: true} // not well-formed
			}
		}
		got, _, capped, p := vsCollect(api, bytes.NewReader(crlf), "", 0, len(crlf)+20)
		exp := fmt.Sprintf("%s: same as with LF: %s", api, vsItemsDesc(ref))
		var obs string
		if p != nil || capped {
			obs = fmt.Sprintf("%s on CRLF data: panic %v, capped %v", api, p, capped)
		} else if d := vsItemsDiff(got, ref); d != "" {
			obs = fmt.Sprintf("%s; got %s", d, vsItemsDesc(got))
		}
		if obs != "" {
			sig := "generic"
			if bytes.IndexByte(data, '"') >= 0 {
				sig = "sam:dquote-in-field"
			}
			return vrResult{Observed: obs, Expected: exp, Signature: sig}
		}
	}
	return vrResult{OK: true, Trivial: len(data) == 0}
}

// ---------------------------------------------------------------------------
// C06/file

func vsGenFileAPI(g *vrGen) {
	g.Case(map[string]any{"data": vrB(nil), "gz": false, "missing": true})
	g.Case(map[string]any{"data": vrB(nil), "gz": true, "missing": true})
	g.Case(map[string]any{"data": vrB(nil), "gz": false, "missing": false})
	g.Case(map[string]any{"data": vrB(nil), "gz": true, "missing": false})
	max := vsMaxCases(g, 3000, 30000)
	for i := 0; i < max && !g.Expired(); i++ {
		data := vsRandData(g.Rand, g.Rand.Intn(3) == 0)
		if g.Rand.Intn(20) == 0 { // a larger file (several buffers)
			var b bytes.Buffer
			for b.Len() < 10000 {
				b.Write(vsRenderLines(vsRandLines(g.Rand, false, 1, 5)))
			}
			data = b.Bytes()
		}
		g.Case(map[string]any{"data": vrB(data), "gz": false, "missing": false})
		g.Case(map[string]any{"data": vrB(data), "gz": true, "missing": false})
	}
}

// vsTempFile writes data (gzip-compressed if gz) to a fresh temp dir.
func vsTempFile(data []byte, gz bool) (dir, path string) {
	dir, err := os.MkdirTemp("", "verif-sam-")
	if err != nil {
		panic(fmt.Sprintf("harness: %v", err))
	}
	path = filepath.Join(dir, "x.sam")
	content := data
	if gz {
		path += ".gz"
		var b bytes.Buffer
		zw := gzip.NewWriter(&b)
		zw.Write(data)
		zw.Close()
		content = b.Bytes()
	}
	if err := os.WriteFile(path, content, 0o644); err != nil {
		os.RemoveAll(dir)
		panic(fmt.Sprintf("harness: %v", err))
	}
	return dir, path
}

func vsRunFileAPI(in map[string]any) vrResult {
	data := vrBytes(in["data"])
	gz := vrBool(in["gz"])
	missing := vrBool(in["missing"])
	dir, path := vsTempFile(data, gz)
	defer os.RemoveAll(dir)
	if missing {
		path = filepath.Join(dir, "no-such-dir", filepath.Base(path))
	}
	limit := len(data) + 20
	for _, pair := range [][2]string{{"File", "Reader"}, {"FileHeader", "ReaderHeader"}} {
		got, _, capped, p := vsCollect(pair[0], nil, path, 0, limit)
		if missing {
			exp := pair[0] + " on a path that cannot be opened: exactly one item, a non-nil error"
			if p != nil || capped || len(got) != 1 || got[0].Err == nil {
				return vrResult{Observed: fmt.Sprintf("panic %v, capped %v, %s", p, capped, vsItemsDesc(got)), Expected: exp}
			}
			continue
		}
		ref, _, rc, rp := vsCollect(pair[1], bytes.NewReader(data), "", 0, limit)
		if rp != nil || rc {
			return vrResult{Observed: fmt.Sprintf("%s: panic %v, capped %v", pair[1], rp, rc), Expected: "terminates without panic"}
		}
		exp := fmt.Sprintf("%s(file, gz=%v) == %s(bytes): %s", pair[0], gz, pair[1], vsItemsDesc(ref))
		if p != nil || capped {
			return vrResult{Observed: fmt.Sprintf("%s: panic %v, capped %v", pair[0], p, capped), Expected: exp}
		}
		if d := vsItemsDiff(got, ref); d != "" {
			return vrResult{Observed: fmt.Sprintf("%s; got %s", d, vsItemsDesc(got)), Expected: exp}
		}
	}
	return vrResult{OK: true}
}

// ---------------------------------------------------------------------------
// C07/read-fault

var vsErrInjected = errors.New("verif: injected I/O fault")

type vsFaultReader struct {
	data    []byte
	pos     int
	forever bool
	failed  bool
}

func (f *vsFaultReader) Read(p []byte) (int, error) {
	if len(p) == 0 {
		return 0, nil
	}
	if f.pos < len(f.data) {
		n := copy(p, f.data[f.pos:])
		f.pos += n
		return n, nil
	}
	if f.failed && !f.forever {
		return 0, io.EOF
	}
	f.failed = true
	return 0, vsErrInjected
}

func vsGenReadFault(g *vrGen) {
	max := vsMaxCases(g, 30000, 200000)
	n := 0
	for n < max && !g.Expired() {
		lines := vsRandLines(g.Rand, false, 2, 3)
		if len(lines) == 0 {
			lines = []vsLine{{S: vsBaseRec()}}
		}
		data := vsRenderLines(lines)
		if g.Rand.Intn(5) == 0 {
			data = data[:len(data)-1]
		}
		for off := 0; off <= len(data); off++ {
			g.Case(map[string]any{"data": vrB(data), "offset": off, "mode": "once"})
			g.Case(map[string]any{"data": vrB(data), "offset": off, "mode": "forever"})
			n += 2
		}
	}
}

func vsRunReadFault(in map[string]any) vrResult {
	data := vrBytes(in["data"])
	off := vrInt(in["offset"])
	if off < 0 {
		off = 0
	}
	if off > len(data) {
		off = len(data)
	}
	mode := "once"
	if m, ok := in["mode"]; ok {
		mode = vsAnyStr(m)
	}
	if mode != "once" && mode != "forever" {
		panic("harness: bad mode " + mode)
	}
	limit := len(data) + 20
	for _, api := range []string{"Reader", "ReaderHeader"} {
		ref, _, capped, p := vsCollect(api, bytes.NewReader(data), "", 0, limit)
		if p != nil || capped {
			return vrResult{Observed: fmt.Sprintf("%s fault-free: panic %v, capped %v", api, p, capped), Expected: "terminates without panic"}
		}
		for _, it := range ref {
			if it.Err != nil {
				return vrResult{OK: true, Trivial: true} // not well-formed
			}
		}
		cut := bytes.LastIndexByte(data[:off], '\n') + 1
		pre, _, _, _ := vsCollect(api, bytes.NewReader(data[:cut]), "", 0, limit)
		nComplete := len(pre)
		got, _, capped, p := vsCollect(api, &vsFaultReader{data: data[:off], forever: mode == "forever"}, "", 0, limit)
		exp := fmt.Sprintf("%s with a read fault (%s) after %d of %d bytes: leading items of %s, then a non-nil error, then the end", api, mode, off, len(data), vsItemsDesc(ref))
		if p != nil {
			return vrResult{Observed: fmt.Sprintf("panic: %v", p), Expected: exp}
		}
		sawErr := false
		nrec := 0
		for i, it := range got {
			if it.Err != nil {
				sawErr = true
				continue
			}
			j := nrec
			nrec++
			if j < len(ref) && vsItemDiff(it, ref[j]) == "" {
				continue
			}
			if j < nComplete {
				return vrResult{Observed: fmt.Sprintf("item %d differs from item %d of the fault-free decode; got %s", i, j, vsItemsDesc(got)), Expected: exp, Signature: "generic"}
			}
			return vrResult{Observed: fmt.Sprintf("item %d is a record built from the truncated line; got %s", i, vsItemsDesc(got)), Expected: exp, Signature: "sam:io-error-swallowed"}
		}
		if capped {
			return vrResult{Observed: fmt.Sprintf("does not terminate: more than %d items; first %s", limit, vsItemsDesc(got)), Expected: exp, Signature: "sam:io-error-swallowed"}
		}
		if !sawErr {
			return vrResult{Observed: fmt.Sprintf("no error reported; got %s", vsItemsDesc(got)), Expected: exp, Signature: "sam:io-error-swallowed"}
		}
	}
	return vrResult{OK: true}
}

// ---------------------------------------------------------------------------
// C07/write-fault

type vsFaultWriter struct {
	limit   int
	once    bool
	failed  bool
	written int
}

func (w *vsFaultWriter) Write(p []byte) (int, error) {
	if w.failed && w.once {
		w.written += len(p)
		return len(p), nil
	}
	if w.failed {
		return 0, vsErrInjected
	}
	if w.written+len(p) <= w.limit {
		w.written += len(p)
		return len(p), nil
	}
	n := w.limit - w.written
	w.written += n
	w.failed = true
	return n, vsErrInjected
}

// vsLongFaultRecs: records whose written line is longer than a 4096-byte
// buffer: a Z tag of 5000 bytes as the last field (about 5 KB), SEQ/QUAL of
// 5000 bytes each (about 10 KB).
func vsLongFaultRecs() []*SAM {
	a := vsBaseRec()
	a.Seq, a.Qual = vsRep("ACGT", 5000), vsRep("I#5?F", 5000)
	b := vsBaseRec()
	b.Tags["ZZ"] = vsRep("long tag ", 5000)
	return []*SAM{b, a}
}

func vsGenWriteFault(g *vrGen) {
	// long records first (a writer that buffers internally must still report a
	// fault that only its last flush meets): k in the last 4200 bytes of the
	// line .. len+1 (the 5 KB line: every k; the 10 KB line: every 5th k and every
	// k in the last 256 bytes), every 97th k before; mode once: every 5th of
	// these k and the last 3
	for i, s := range vsLongFaultRecs() {
		total := vsWrittenLen(s)
		rec := vsEncRec(s)
		for j, k := 0, 0; k <= total+1 && !g.Expired(); k++ {
			if k < total-4200 && k%97 != 0 {
				continue
			}
			if i > 0 && k >= total-4200 && k < total-256 && k%5 != 0 {
				continue
			}
			g.Case(map[string]any{"record": rec, "k": k, "mode": "forever"})
			if j%5 == 0 || k >= total-1 {
				g.Case(map[string]any{"record": rec, "k": k, "mode": "once"})
			}
			j++
		}
	}
	max := vsMaxCases(g, 30000, 200000)
	n := 0
	for n < max && !g.Expired() {
		s := vsRandRec(g.Rand, g.Rand.Intn(3) == 0)
		total := len(strings.Join(vsRenderFields(s), "\t")) + 8
		rec := vsEncRec(s)
		for k := 0; k <= total; k++ {
			g.Case(map[string]any{"record": rec, "k": k, "mode": "forever"})
			g.Case(map[string]any{"record": rec, "k": k, "mode": "once"})
			n += 2
		}
	}
}

func vsRunWriteFault(in map[string]any) vrResult {
	s := vsDecRec(in["record"])
	k := vrInt(in["k"])
	if k < 0 {
		k = 0
	}
	mode := "forever"
	if m, ok := in["mode"]; ok {
		mode = vsAnyStr(m)
	}
	var full bytes.Buffer
	var err error
	if p := vrCatch(func() { err = s.Write(&full) }); p != nil || err != nil {
		return vrResult{Observed: fmt.Sprintf("Write to bytes.Buffer: panic %v, error %v", p, err), Expected: "nil error"}
	}
	w := &vsFaultWriter{limit: k, once: mode == "once"}
	if p := vrCatch(func() { err = s.Write(w) }); p != nil {
		return vrResult{Observed: fmt.Sprintf("panic: %v", p), Expected: "no panic"}
	}
	wantErr := k < full.Len()
	if (err != nil) != wantErr {
		return vrResult{Observed: fmt.Sprintf("Write to a writer failing (%s) after %d bytes returns %v", mode, k, err),
			Expected: fmt.Sprintf("non-nil error iff k < %d (the output length)", full.Len())}
	}
	return vrResult{OK: true}
}

// ---------------------------------------------------------------------------
// C11/total

var vsTotalSeeds = []string{
	"", "\n", "\r\n", "\t", "\"", "\"\n", "@", "@HD\tVN:1.6\n", "a", "a\tb\n",
	"q\t0\t*\t0\t0\t*\t*\t0\t0\t*\t*\n",
	"q\t0\t*\t0\t0\t*\t*\t0\t0\t*\t*",
	"q\t0\t*\t0\t0\t*\t*\t0\t0\t*\t*\tXA:A:\x80\n",
	"q\t0\t*\t0\t0\t*\t*\t0\t0\t*\t*\tXA:A:\xc2\x80\n",
	"q\t0\t*\t0\t0\t*\t*\t0\t0\t*\t*\tXA:A:\"\n",
	"q\t0\t*\t0\t0\t*\t*\t0\t0\t*\t*\tXB:B:c,1,2\n",
	"q\t0\t*\t0\t0\t*\t*\t0\t0\t*\t*\tXH:H:0A1b\tXF:f:nan\tXG:f:0x1p-2\tXI:i:+5\n",
	"q\t0\t*\t0\t0\t*\t*\t0\t0\t*\t*\tXX\n",
	"q\t0\t*\t0\t0\t*\t*\t0\t0\t*\t*\tXX:i\n",
	"q\t0\t*\t0\t0\t*\t*\t0\t0\t*\t*\t:Z:\n",
	"q\t0\t*\t0\t0\t*\t*\t0\t0\t*\t*\t::\n",
	"q\t0\t*\t0\t0\t*\t*\t0\t0\t*\t*\tXX:Z:a:b\tXX:Z:dup\n",
	"\"q\"\t0\t*\t0\t0\t*\t*\t0\t0\t*\t*\n",
	"\"\"\"q\"\t0\t*\t0\t0\t*\t*\t0\t0\t*\t*\n",
	"\"@q\"\t0\t*\t0\t0\t*\t*\t0\t0\t*\t*\n",
	"q\t0\t\"a\tb\"\t0\t0\t*\t*\t0\t0\t*\t*\n",
	"q\t0\t\"a\nb\"\t0\t0\t*\t*\t0\t0\t*\t*\n",
	"q\t0\t*\t0\t0\t*\t*\t0\t0\t*\t\"\nq\t0\t*\t0\t0\t*\t*\t0\t0\t*\t*\n",
	"\tq\t0\t*\t0\t0\t*\t*\t0\t0\t*\t*\n",
	"\t0\t\t0\t0\t\t\t0\t0\t\t\n",
	"q\t+1\t*\t-0\t00\t*\t*\t0\t0\t*\t*\n",
	"q\t0\t*\t0\t0\t*\t*\t0\t0\t*\t*\r\n\r\nq\t0\t*\t0\t0\t*\t*\t0\t0\t*\t*\r",
	"q\t0\t*\t0\t0\t*\t*\t0\t0\t*\t*\r\rx\n",
	"q\t99999999999999999999\t*\t0\t0\t*\t*\t0\t0\t*\t*\n",
	"\xff\xfe\t0\t\x80\t0\t0\t*\t*\t0\t0\t*\t\x00\n",
}

func vsGenTotal(g *vrGen) {
	for _, s := range vsTotalSeeds {
		g.Case(map[string]any{"data": vrS(s)})
	}
	max := vsMaxCases(g, 40000, 150000)
	for i := 0; i < max && !g.Expired(); i++ {
		g.Case(map[string]any{"data": vrB(vsRandData(g.Rand, g.Rand.Intn(2) == 0))})
	}
}

func vsHasBigATag(s *SAM) bool {
	for _, v := range s.Tags {
		if b, ok := v.(byte); ok && b >= 0x80 {
			return true
		}
	}
	return false
}

func vsRunTotal(in map[string]any) vrResult {
	data := vrBytes(in["data"])
	limit := len(data) + 20
	var recs []*SAM
	for _, api := range []string{"ReaderHeader", "Reader"} {
		items, _, capped, p := vsCollect(api, bytes.NewReader(data), "", 0, limit)
		if p != nil {
			return vrResult{Observed: fmt.Sprintf("%s panics: %v", api, p), Expected: "no panic"}
		}
		if capped {
			return vrResult{Observed: fmt.Sprintf("%s yields more than %d items", api, limit), Expected: "terminates"}
		}
		if d := vsItemsShape(api, items); d != "" {
			return vrResult{Observed: api + ": " + d, Expected: "only records (headers) and errors"}
		}
		if api == "Reader" {
			for _, it := range items {
				if it.Err == nil {
					recs = append(recs, it.S)
				}
			}
		}
	}
	checked := 0
	for _, s := range recs {
		if !vsInDomain(s, false) {
			continue
		}
		checked++
		var buf bytes.Buffer
		var err error
		p := vrCatch(func() { err = s.Write(&buf) })
		exp := fmt.Sprintf("accepted record %s is a fixed point of Write -> Reader", vsRecDesc(s))
		obs := ""
		if p != nil || err != nil {
			obs = fmt.Sprintf("Write: panic %v, error %v", p, err)
		} else {
			out := buf.Bytes()
			items, _, capped, p := vsCollect("Reader", bytes.NewReader(out), "", 0, len(out)+20)
			if p != nil || capped {
				obs = fmt.Sprintf("re-reading %q: panic %v, capped %v", out, p, capped)
			} else if d := vsItemsDiff(items, []vsItem{{S: s}}); d != "" {
				obs = fmt.Sprintf("re-reading %q: %s; got %s", out, d, vsItemsDesc(items))
			}
		}
		if obs != "" {
			sig := "generic"
			if vsHasBigATag(s) {
				sig = "sam:A-tag-byte-ge-0x80"
			} else if vsHasDquote(s) {
				sig = "sam:dquote-in-field"
			}
			return vrResult{Observed: obs, Expected: exp, Signature: sig}
		}
	}
	return vrResult{OK: true, Trivial: len(data) == 0}
}

// ---------------------------------------------------------------------------
// C11/sam-line-isolation

var vsCorruptions = []string{
	"few/1", "few/2", "few/3", "few/5", "few/9", "few/10",
	"int/1/", "int/1/x", "int/1/1.5", "int/3/1e3", "int/3/ 1", "int/4/0x1f", "int/4/--1", "int/7/1_0", "int/7/x", "int/8/", "int/8/12a",
	"tag/XX", "tag/XX:i", "tagfirst/XX", "tagfirst/XX:Z",
	"tag/XX:Q:1", "tag/XX::1", "tag/XX:ii:1", "tagfirst/XX:Q:1", "tag/XX:a:b",
	"tag/XX:A:ab", "tag/XX:A:", "tag/XX:i:1.5", "tag/XX:i:", "tag/XX:i:x", "tag/XX:f:abc", "tag/XX:f:", "tag/XX:H:abc", "tag/XX:H:zz",
	"tagfirst/XX:A:ab", "tagfirst/XX:i:x", "tagfirst/XX:f:1..2", "tagfirst/XX:H:0",
}

func vsGenIsolation(g *vrGen) {
	max := vsMaxCases(g, 30000, 150000)
	n := 0
	for n < max && !g.Expired() {
		lines := vsRandLines(g.Rand, false, 2, 4)
		enc := vsEncLines(lines)
		for w, l := range lines {
			if l.S == nil {
				continue
			}
			for _, kind := range vsCorruptions {
				g.Case(map[string]any{"lines": enc, "which": w, "kind": kind})
				n++
			}
		}
	}
}

func vsRunIsolation(in map[string]any) vrResult {
	lines := vsDecLines(in["lines"])
	which := vrInt(in["which"])
	kind := strings.SplitN(vsAnyStr(in["kind"]), "/", 3)
	if !vsLinesInDomain(lines) || which < 0 || which >= len(lines) || lines[which].S == nil {
		return vrResult{OK: true, Trivial: true}
	}
	f := vsRenderFields(lines[which].S)
	switch {
	case kind[0] == "few" && len(kind) == 2:
		k, err := strconv.Atoi(kind[1])
		if err != nil || k < 1 || k > 10 {
			panic("harness: bad corruption kind")
		}
		f = f[:k]
	case kind[0] == "int" && len(kind) == 3:
		k, err := strconv.Atoi(kind[1])
		if err != nil || (k != 1 && k != 3 && k != 4 && k != 7 && k != 8) {
			panic("harness: bad corruption kind")
		}
		if _, err := strconv.Atoi(kind[2]); err == nil {
			return vrResult{OK: true, Trivial: true} // not a corruption
		}
		f[k] = kind[2]
	case kind[0] == "tag" && len(kind) >= 2:
		f = append(f, strings.Join(kind[1:], "/"))
	case kind[0] == "tagfirst" && len(kind) >= 2:
		f = append(f[:11:11], append([]string{strings.Join(kind[1:], "/")}, f[11:]...)...)
	default:
		panic("harness: bad corruption kind")
	}
	bad := strings.Join(f, "\t")
	if bad == "" || strings.ContainsAny(bad, "\r\n") {
		return vrResult{OK: true, Trivial: true} // an empty line is not a line
	}
	var buf bytes.Buffer
	var all, recs []vsItem
	errItem := vsItem{Err: errors.New("any error")}
	for i, l := range lines {
		switch {
		case i == which:
			buf.WriteString(bad + "\n")
			all = append(all, errItem)
			recs = append(recs, errItem)
		case l.H != nil:
			buf.WriteString(*l.H + "\n")
			all = append(all, vsItem{H: l.H})
		default:
			buf.WriteString(strings.Join(vsRenderFields(l.S), "\t") + "\n")
			all = append(all, vsItem{S: l.S})
			recs = append(recs, vsItem{S: l.S})
		}
	}
	data := buf.Bytes()
	for _, api := range []string{"ReaderHeader", "Reader"} {
		want := all
		if api == "Reader" {
			want = recs
		}
		items, _, capped, p := vsCollect(api, bytes.NewReader(data), "", 0, len(data)+20)
		exp := fmt.Sprintf("%s(%q): %s", api, data, vsItemsDesc(want))
		obs := ""
		if p != nil || capped {
			obs = fmt.Sprintf("%s: panic %v, capped %v", api, p, capped)
		} else if d := vsItemsDiff(items, want); d != "" {
			obs = fmt.Sprintf("%s; got %s", d, vsItemsDesc(items))
		}
		if obs != "" {
			sig := "generic"
			if vsLinesHaveDquote(lines) {
				sig = "sam:dquote-in-field"
			}
			return vrResult{Observed: obs, Expected: exp, Signature: sig}
		}
	}
	return vrResult{OK: true}
}

// ---------------------------------------------------------------------------
// C18/stop

func vsGenStop(g *vrGen) {
	apis := []string{"Reader", "ReaderHeader", "File", "FileHeader"}
	max := vsMaxCases(g, 12000, 100000)
	n := 0
	emit := func(data []byte) {
		items, _, _, _ := vsCollect("ReaderHeader", bytes.NewReader(data), "", 0, len(data)+20)
		for _, api := range apis {
			for stop := 1; stop <= len(items)+1; stop++ {
				g.Case(map[string]any{"data": vrB(data), "stop": stop, "api": api})
				n++
			}
		}
	}
	emit([]byte("@HD\tVN:1.6\nq\t0\t*\t0\t0\t*\t*\t0\t0\t*\t*\nbad line\nq2\t0\t*\t0\t0\t*\t*\t0\t0\t*\t*\tNM:i:1\n@CO\tlate header\nq3\t0\t*\t0\t0\t*\t*\t0\t0\t*\t*\n"))
	emit([]byte("q\t0\t*\t0\t0\t*\t*\t0\t0\t*\t*\tXX\n"))
	emit(nil)
	// failing underlying reader (Reader and ReaderHeader only; not counted in n):
	// every fault offset x {once, forever} x every stop position
	emitFault := func(data []byte) {
		for off := 0; off <= len(data) && !g.Expired(); off++ {
			for _, forever := range []bool{false, true} {
				for _, api := range apis[:2] {
					items, _, _, _ := vsCollect(api, &vsFaultReader{data: data[:off], forever: forever}, "", 0, len(data)+20)
					for stop := 1; stop <= len(items)+1; stop++ {
						g.Case(map[string]any{"data": vrB(data), "stop": stop, "api": api, "fault": off, "forever": forever})
					}
				}
			}
		}
	}
	const rec = "q\t0\t*\t0\t0\t*\t*\t0\t0\t*\t*"
	emitFault([]byte(rec + "\n"))
	emitFault([]byte("@HD\tVN:1.6\n" + rec + "\n"))
	emitFault([]byte(rec + "\r\n" + rec + "\tNM:i:1"))
	emitFault([]byte(rec + "\nbad line\n" + rec + "\n"))
	emitFault([]byte("@CO\tx\n" + rec + "\n" + rec + "\tXX\n"))
	for n < max && !g.Expired() {
		var data []byte
		switch g.Rand.Intn(3) {
		case 0:
			data = vsRenderLines(vsRandLines(g.Rand, false, 3, 5))
		case 1: // valid file with one line corrupted
			lines := vsRandLines(g.Rand, false, 2, 5)
			parts := bytes.SplitAfter(vsRenderLines(lines), []byte("\n"))
			if len(parts) > 1 {
				parts[g.Rand.Intn(len(parts)-1)] = []byte("oops\t1\n")
			}
			data = bytes.Join(parts, nil)
		default:
			data = vsRandData(g.Rand, g.Rand.Intn(3) == 0)
		}
		if len(data) > 600 {
			data = data[:600]
		}
		emit(data)
	}
}

func vsRunStop(in map[string]any) vrResult {
	data := vrBytes(in["data"])
	stop := vrInt(in["stop"])
	if stop < 1 {
		stop = 1
	}
	api := vsAnyStr(in["api"])
	what := api
	var r1, r2 io.Reader = bytes.NewReader(data), bytes.NewReader(data)
	if v, ok := in["fault"]; ok && v != nil && vrInt(v) >= 0 {
		// failing underlying reader: delivers data[:fault], then a non-EOF error
		// (once and then io.EOF, or forever); a fresh one for each of the two runs.
		if api != "Reader" && api != "ReaderHeader" {
			panic("harness: fault needs api Reader or ReaderHeader")
		}
		off := vrInt(v)
		if off > len(data) {
			off = len(data)
		}
		forever := vrBool(in["forever"])
		r1 = &vsFaultReader{data: data[:off], forever: forever}
		r2 = &vsFaultReader{data: data[:off], forever: forever}
		what = fmt.Sprintf("%s(reader failing after %d of %d bytes, forever=%v)", api, off, len(data), forever)
	}
	path := ""
	if api == "File" || api == "FileHeader" {
		var dir string
		dir, path = vsTempFile(data, false)
		defer os.RemoveAll(dir)
	}
	limit := len(data) + 20
	full, _, capped, p := vsCollect(api, r1, path, 0, limit)
	if p != nil || capped {
		return vrResult{Observed: fmt.Sprintf("uninterrupted %s: panic %v, capped %v", what, p, capped), Expected: "terminates without panic"}
	}
	got, extra, _, p := vsCollect(api, r2, path, stop, limit)
	n := stop
	if n > len(full) {
		n = len(full)
	}
	exp := fmt.Sprintf("%s stopped at item %d: no further callback, no panic, items == first %d of %s", what, stop, n, vsItemsDesc(full))
	if p != nil {
		return vrResult{Observed: fmt.Sprintf("panic after %d items (+%d callbacks after the stop): %v", len(got), extra, p), Expected: exp}
	}
	if extra > 0 {
		return vrResult{Observed: fmt.Sprintf("%d callbacks after the consumer stopped", extra), Expected: exp}
	}
	if d := vsItemsDiff(got, full[:n]); d != "" {
		return vrResult{Observed: fmt.Sprintf("%s; got %s", d, vsItemsDesc(got)), Expected: exp}
	}
	return vrResult{OK: true, Trivial: len(full) == 0}
}
